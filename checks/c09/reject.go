package main

// Rejection lattice over ALL FOUR sections: a message whose earlier content is well formed and whose
// k-th record of section s carries one malformed element must be refused by DecodeMessage — never
// accepted with a shortened section or a repaired header. Every (section, record index, malformation)
// and, separately, a cut of the well-formed message after every byte offset.

import (
	"encoding/binary"
	"fmt"

	"verif/vf"
)

type rejRecord struct {
	name  []byte // wire form of the owner name (may be malformed)
	typ   uint16
	rdata []byte
	rdlen int // announced RDLENGTH (-1: len(rdata))
}

func plainName(labels ...string) []byte {
	var b []byte
	for _, l := range labels {
		b = append(b, byte(len(l)))
		b = append(b, l...)
	}
	return append(b, 0)
}

func buildRej(secs [4][]rejRecord) (pkt []byte, nameOff map[[2]int]int) {
	pkt = make([]byte, 12)
	binary.BigEndian.PutUint16(pkt[0:], 0x7a7a)
	binary.BigEndian.PutUint16(pkt[2:], 0x8000)
	nameOff = map[[2]int]int{}
	for s := 0; s < 4; s++ {
		binary.BigEndian.PutUint16(pkt[4+2*s:], uint16(len(secs[s])))
		for i, r := range secs[s] {
			nameOff[[2]int{s, i}] = len(pkt)
			pkt = append(pkt, r.name...)
			pkt = binary.BigEndian.AppendUint16(pkt, r.typ)
			pkt = binary.BigEndian.AppendUint16(pkt, 1)
			if s == 0 {
				continue
			}
			pkt = binary.BigEndian.AppendUint32(pkt, 30)
			n := r.rdlen
			if n < 0 {
				n = len(r.rdata)
			}
			pkt = binary.BigEndian.AppendUint16(pkt, uint16(n))
			pkt = append(pkt, r.rdata...)
		}
	}
	return
}

func rejectionLattice(c *vf.Ctx) {
	cl := &decodeClient{}
	defer cl.close()
	base := func() [4][]rejRecord {
		var s [4][]rejRecord
		s[0] = []rejRecord{{name: plainName("host", "local"), typ: 1}, {name: plainName("h2"), typ: 28}}
		for k := 1; k < 4; k++ {
			s[k] = []rejRecord{
				{name: plainName("r"+fmt.Sprint(k), "local"), typ: 1, rdata: []byte{10, 0, byte(k), 1}, rdlen: -1},
				{name: plainName("s" + fmt.Sprint(k)), typ: 16, rdata: []byte{3, 'a', 'b', 'c'}, rdlen: -1},
			}
		}
		return s
	}
	run := func(pkt []byte) (status int, text string, ok bool) {
		res, confirmed, why, err := cl.decode(pkt, nil)
		if err != nil {
			c.Fatalf("cannot start decode worker: %v", err)
		}
		if confirmed {
			c.Check("C09/reject/every-decode-terminates", false, func() string {
				return fmt.Sprintf("llmnr.DecodeMessage(%s): the decoding process failed 4 times out of 4: %s", vf.Hex(pkt), why)
			})
			return 0, "", false
		}
		m := res[len(res)-1]
		return int(m.status), m.text, true
	}
	// the well-formed base must be accepted (otherwise the rejections below prove nothing)
	{
		pkt, _ := buildRej(base())
		st, txt, ok := run(pkt)
		if ok {
			c.Check("C09/reject/well-formed-base-message-accepted", st == 0, func() string {
				return fmt.Sprintf("DecodeMessage(%s) = status %d %q for a well-formed 2+2+2+2 message", vf.Hex(pkt), st, txt)
			})
		}
		// a cut after every byte offset
		for cut := 0; cut < len(pkt); cut++ {
			c.Case([]byte("rej-cut"), pkt[:cut])
			st, txt, ok := run(pkt[:cut])
			if !ok {
				continue
			}
			sec := "header"
			if cut >= 12 {
				sec = "sections"
			}
			c.Check("C09/reject/message-cut-inside-"+sec+"/rejected", st == 1, func() string {
				return fmt.Sprintf("DecodeMessage(first %d of %d bytes of a well-formed message: %s) = status %d %q; the header announces 2+2+2+2 records", cut, len(pkt), vf.Hex(pkt[:cut]), st, txt)
			})
		}
	}
	type malform struct {
		name string
		// apply returns the malformed record; off is the offset at which the record's name starts
		apply func(r rejRecord, off int, nextOff int) rejRecord
	}
	mal := []malform{
		{"owner-name-is-a-pointer-to-itself", func(r rejRecord, off, next int) rejRecord {
			r.name = []byte{0xC0 | byte(off>>8), byte(off)}
			return r
		}},
		{"owner-name-points-forward", func(r rejRecord, off, next int) rejRecord {
			t := off + 2 + 4 // lands behind this name, inside the record
			r.name = []byte{0xC0 | byte(t>>8), byte(t)}
			return r
		}},
		{"owner-name-label-then-pointer-to-itself", func(r rejRecord, off, next int) rejRecord {
			r.name = []byte{1, 'x', 0xC0 | byte(off>>8), byte(off)}
			return r
		}},
		{"owner-name-points-beyond-the-message", func(r rejRecord, off, next int) rejRecord {
			r.name = []byte{0xFF, 0xFF}
			return r
		}},
		{"owner-name-label-type-0x40", func(r rejRecord, off, next int) rejRecord {
			r.name = []byte{0x41, 'x', 0}
			return r
		}},
		{"owner-name-label-type-0x80", func(r rejRecord, off, next int) rejRecord {
			r.name = []byte{0x81, 'x', 0}
			return r
		}},
		{"owner-name-label-longer-than-the-rest-of-the-message", func(r rejRecord, off, next int) rejRecord {
			r.name = []byte{63, 'x', 0}
			r.rdata = nil
			return r
		}},
		{"rdlength-larger-than-the-rest-of-the-message", func(r rejRecord, off, next int) rejRecord {
			r.rdlen = 0x4000
			return r
		}},
	}
	for s := 0; s < 4; s++ {
		for i := 0; i < 2; i++ {
			for _, m := range mal {
				if s == 0 && m.name == "rdlength-larger-than-the-rest-of-the-message" {
					continue
				}
				secs := base()
				_, offs := buildRej(secs)
				off := offs[[2]int{s, i}]
				secs[s][i] = m.apply(secs[s][i], off, 0)
				if m.name == "owner-name-label-longer-than-the-rest-of-the-message" {
					// make it the last thing in the message
					secs[s] = secs[s][:i+1]
					for k := s + 1; k < 4; k++ {
						secs[k] = nil
					}
				}
				pkt, _ := buildRej(secs)
				if m.name == "owner-name-label-longer-than-the-rest-of-the-message" && len(pkt)-off > 63 {
					continue
				}
				c.Case([]byte("rej"), pkt)
				st, txt, ok := run(pkt)
				if !ok {
					continue
				}
				c.Check(fmt.Sprintf("C09/reject/%s/%s/rejected", secName[s], m.name), st == 1, func() string {
					return fmt.Sprintf("DecodeMessage(%s) = status %d %q: record %d of the %s section (name at offset %d) has %s; every earlier record is well formed", vf.Hex(pkt), st, txt, i+1, secName[s], off, m.name)
				})
			}
		}
	}
}
