package main

// Crash-isolating decode workers (E5). Decoding a packet with a hostile compression
// pointer may recurse without bound — Go turns that into "fatal error: stack overflow",
// which no recover() can catch — or loop. The parent therefore never calls the library's
// decoder on pointer-placement packets itself: it sends each packet to a worker process
// (this same binary started with --c09-worker) and reads the results back. A worker that
// dies or does not answer within hangTimeout is replaced and the same request is retried
// in fresh workers; only a request that fails 3 out of 3 times is reported.

import (
	"bufio"
	"bytes"
	"encoding/binary"
	"fmt"
	"io"
	"os"
	"os/exec"
	"runtime/debug"
	"strings"
	"time"

	"github.com/TheManticoreProject/Manticore/network/llmnr"
)

const hangTimeout = 20 * time.Second

type opResult struct {
	status byte // 0 ok, 1 error returned, 2 panic
	text   string
	next   int
}

// ---- worker side

func workerMain() {
	debug.SetMaxStack(64 << 20) // fail fast on unbounded recursion
	in := bufio.NewReader(os.Stdin)
	out := bufio.NewWriter(os.Stdout)
	for {
		var n uint32
		if err := binary.Read(in, binary.BigEndian, &n); err != nil {
			return
		}
		req := make([]byte, n)
		if _, err := io.ReadFull(in, req); err != nil {
			return
		}
		plen := binary.BigEndian.Uint32(req)
		pkt := req[4 : 4+plen]
		rest := req[4+plen:]
		noff := int(binary.BigEndian.Uint16(rest))
		var resp []byte
		put := func(r opResult) {
			resp = append(resp, r.status)
			resp = binary.BigEndian.AppendUint32(resp, uint32(int32(r.next)))
			resp = binary.BigEndian.AppendUint32(resp, uint32(len(r.text)))
			resp = append(resp, r.text...)
		}
		for i := 0; i < noff; i++ {
			off := int(binary.BigEndian.Uint32(rest[2+4*i:]))
			put(decodeNameOp(pkt, off))
		}
		put(decodeMessageOp(pkt))
		binary.Write(out, binary.BigEndian, uint32(len(resp)))
		out.Write(resp)
		out.Flush()
	}
}

func decodeNameOp(pkt []byte, off int) (r opResult) {
	defer func() {
		if x := recover(); x != nil {
			r = opResult{status: 2, text: fmt.Sprint(x)}
		}
	}()
	name, next, err := llmnr.DecodeDomainName(pkt, off)
	if err != nil {
		return opResult{status: 1, text: err.Error(), next: next}
	}
	return opResult{status: 0, text: name, next: next}
}

// renderQuestions is the canonical text compared by the parent.
func renderQuestions(qs []llmnr.Question) string {
	var sb strings.Builder
	for _, q := range qs {
		n := q.Name
		if n == "." {
			n = ""
		}
		fmt.Fprintf(&sb, "%x/%d/%d;", n, q.Type, q.Class)
	}
	return sb.String()
}

func decodeMessageOp(pkt []byte) (r opResult) {
	defer func() {
		if x := recover(); x != nil {
			r = opResult{status: 2, text: fmt.Sprint(x)}
		}
	}()
	m, err := llmnr.DecodeMessage(pkt)
	if err != nil {
		return opResult{status: 1, text: err.Error()}
	}
	return opResult{status: 0, text: renderQuestions(m.Questions)}
}

// ---- parent side

type worker struct {
	cmd    *exec.Cmd
	stdin  io.WriteCloser
	respCh chan []byte
	stderr *bytes.Buffer
}

func startWorker() (*worker, error) {
	cmd := exec.Command(os.Args[0], "--c09-worker")
	stdin, err := cmd.StdinPipe()
	if err != nil {
		return nil, err
	}
	stdout, err := cmd.StdoutPipe()
	if err != nil {
		return nil, err
	}
	w := &worker{cmd: cmd, stdin: stdin, respCh: make(chan []byte, 1), stderr: &bytes.Buffer{}}
	cmd.Stderr = w.stderr
	if err := cmd.Start(); err != nil {
		return nil, err
	}
	go func() {
		rd := bufio.NewReader(stdout)
		for {
			var n uint32
			if err := binary.Read(rd, binary.BigEndian, &n); err != nil {
				close(w.respCh)
				return
			}
			b := make([]byte, n)
			if _, err := io.ReadFull(rd, b); err != nil {
				close(w.respCh)
				return
			}
			w.respCh <- b
		}
	}()
	return w, nil
}

func (w *worker) kill() {
	w.stdin.Close()
	w.cmd.Process.Kill()
	w.cmd.Wait()
}

// call returns the results, or why == "timeout"/"died: <stderr head>" when the worker failed.
func (w *worker) call(pkt []byte, offs []int) (res []opResult, why string) {
	req := binary.BigEndian.AppendUint32(nil, uint32(len(pkt)))
	req = append(req, pkt...)
	req = binary.BigEndian.AppendUint16(req, uint16(len(offs)))
	for _, o := range offs {
		req = binary.BigEndian.AppendUint32(req, uint32(o))
	}
	msg := binary.BigEndian.AppendUint32(nil, uint32(len(req)))
	msg = append(msg, req...)
	if _, err := w.stdin.Write(msg); err != nil {
		return nil, "died: " + w.diagnose()
	}
	t := time.NewTimer(hangTimeout)
	defer t.Stop()
	select {
	case b, ok := <-w.respCh:
		if !ok {
			return nil, "died: " + w.diagnose()
		}
		for len(b) > 0 {
			r := opResult{status: b[0], next: int(int32(binary.BigEndian.Uint32(b[1:])))}
			n := int(binary.BigEndian.Uint32(b[5:]))
			r.text = string(b[9 : 9+n])
			b = b[9+n:]
			res = append(res, r)
		}
		return res, ""
	case <-t.C:
		return nil, fmt.Sprintf("no answer within %v", hangTimeout)
	}
}

func (w *worker) diagnose() string {
	w.cmd.Wait()
	s := w.stderr.String()
	if i := strings.Index(s, "\n\n"); i > 0 {
		s = s[:i]
	}
	if len(s) > 300 {
		s = s[:300]
	}
	return strings.ReplaceAll(s, "\n", " | ")
}

// pool of one worker with restart + 3/3 confirmation.
type decodeClient struct {
	w        *worker
	restarts int
}

func (d *decodeClient) close() {
	if d.w != nil {
		d.w.kill()
		d.w = nil
	}
}

// decode returns results, or confirmed=true with the reason when 3 fresh workers all failed on this request.
func (d *decodeClient) decode(pkt []byte, offs []int) (res []opResult, confirmedFailure bool, why string, err error) {
	for attempt := 0; attempt < 4; attempt++ {
		if d.w == nil {
			w, e := startWorker()
			if e != nil {
				return nil, false, "", e
			}
			d.w = w
		}
		r, y := d.w.call(pkt, offs)
		if y == "" {
			return r, false, "", nil
		}
		why = y
		d.w.kill()
		d.w = nil
		d.restarts++
		// attempt 0 may have failed in a worker with history; attempts 1..3 run in fresh workers
	}
	return nil, true, why, nil
}
