package main

import (
	"encoding/binary"
	"fmt"
	"strings"
	"sync"

	"verif/mc/explore"
	"verif/ref/refdns"
	"verif/vf"
)

// A pointer-placement configuration: a header and the label lists of 2 or 3 questions.
type ptrCfg struct {
	name   string
	id, fl uint16
	qs     [][]string
}

func ptrConfigs() []ptrCfg {
	return []ptrCfg{
		// header bytes 01 'h' 00 00 make offset 0 itself a well-formed name ("h"): pointers into the header then decode
		{"2q-header-is-a-name", 0x0168, 0x0000, [][]string{{"ab", "c"}, {"d", "ef"}}},
		// header starts with C0 0C: a pointer into the header lands on a forward pointer
		{"2q-header-is-a-pointer", 0xC00C, 0x8000, [][]string{{"a"}, {"a"}}},
		{"3q-chain", 0x1234, 0x0000, [][]string{{"a", "b"}, {"c"}, {"d"}}},
		{"2q-root-first", 0x0000, 0x8000, [][]string{{}, {"x", "y", "z"}}},
		// label contents that look like length octets and pointers
		{"2q-labels-look-like-wire", 0xFFFF, 0xFFFF, [][]string{{"\x01\x00", "\xC0\x0C"}, {"\x02"}}},
		{"3q-long-first", 0x0261, 0x6200, [][]string{{"abc", "de", "f"}, {"g"}, {"hi", "j"}}},
	}
}

type builtQ struct {
	start      int
	typ, class uint16
	complete   bool // false when the packet was cut inside this question
}

type built struct {
	pkt   []byte
	qs    []builtQ
	owner map[int]int // boundary offset (label start, terminator or placed pointer) -> question index
}

// basePacket is the uncompressed packet; its length is the number of pointer targets.
func (cf *ptrCfg) baseLen() int {
	n := 12
	for _, q := range cf.qs {
		n += wireLen(q) + 4
	}
	return n
}

// build constructs the packet for one choice sequence.
func (cf *ptrCfg) build(r *explore.Run) *built {
	T := cf.baseLen()
	b := &built{owner: map[int]int{}}
	p := make([]byte, 12)
	binary.BigEndian.PutUint16(p[0:], cf.id)
	binary.BigEndian.PutUint16(p[2:], cf.fl)
	binary.BigEndian.PutUint16(p[4:], uint16(len(cf.qs)))
	cut := false
	for k, labels := range cf.qs {
		if cut {
			break
		}
		q := builtQ{start: len(p), typ: uint16(1 + 27*k), class: 1, complete: true}
		for j := 0; j <= len(labels) && !cut; j++ {
			alt := r.Choose(1+T+2, fmt.Sprintf("q%d.boundary%d", k, j))
			b.owner[len(p)] = k
			switch {
			case alt == 0:
				if j < len(labels) {
					p = append(p, byte(len(labels[j])))
					p = append(p, labels[j]...)
				} else {
					p = append(p, 0)
				}
				continue
			case alt <= T:
				t := alt - 1
				p = append(p, 0xC0|byte(t>>8), byte(t))
			case alt == T+1:
				p = append(p, 0xFF, 0xFF) // pointer to 0x3FFF
			default:
				p = append(p, 0xC0) // second octet missing: the packet ends here
				cut = true
				q.complete = false
			}
			break
		}
		if !cut {
			p = binary.BigEndian.AppendUint16(p, q.typ)
			p = binary.BigEndian.AppendUint16(p, q.class)
		}
		b.qs = append(b.qs, q)
	}
	b.pkt = p
	return b
}

// deviations lists the non-default choices of a run (the placed pointers).
func deviations(r *explore.Run) []string {
	var out []string
	for _, l := range r.Labels() {
		if !strings.Contains(l, "=0/") {
			out = append(out, l)
		}
	}
	return out
}

type nameClass int

const (
	clsSilent       nameClass = iota
	clsPlain                  // no pointer on the path: must decode
	clsLabelStart             // every pointer followed goes strictly backwards to a label boundary of an earlier question: must decode to the reference's name
	clsNotBackward            // a pointer on the path does not point strictly backwards: must be rejected
	clsTruncatedPtr           // pointer without its second octet: must be rejected
	clsOther                  // reference accepts, targets are not label boundaries (header, label interior, type/class bytes)
)

func classify(b *built, start int) (cls nameClass, labels []string, next int, hops []refdns.Hop, err error) {
	labels, next, hops, err = refdns.ReadName(b.pkt, start)
	switch err {
	case refdns.ErrNotBackward:
		return clsNotBackward, nil, 0, hops, err
	case refdns.ErrTruncatedPtr:
		return clsTruncatedPtr, nil, 0, hops, err
	case nil:
	default:
		return clsSilent, nil, 0, hops, err
	}
	if len(hops) == 0 {
		return clsPlain, labels, next, hops, nil
	}
	for _, h := range hops {
		from, ok1 := b.owner[h.At]
		to, ok2 := b.owner[h.Target]
		if !ok1 || !ok2 || to >= from {
			return clsOther, labels, next, hops, nil
		}
	}
	return clsLabelStart, labels, next, hops, nil
}

func pointerPlacement(c *vf.Ctx) {
	cfgs := ptrConfigs()
	bound := c.Pick(2, 3)
	var mu sync.Mutex
	var totalExec int64
	vf.Par(len(cfgs), func(ci int) {
		cf := cfgs[ci]
		cl := &decodeClient{}
		defer cl.close()
		aborted := false
		failures := 0
		ex := &explore.Explorer{Bound: bound, Stop: func() bool { return aborted || c.DeadlineExceeded() }}
		ex.Body = func(r *explore.Run) {
			b := cf.build(r)
			var offs []int
			for _, q := range b.qs {
				offs = append(offs, q.start)
			}
			c.Case([]byte("ptr"), b.pkt)
			desc := func() string {
				return fmt.Sprintf("config %s choices %v packet %s", cf.name, deviations(r), vf.Hex(b.pkt))
			}
			res, confirmed, why, err := cl.decode(b.pkt, offs)
			if err != nil {
				c.Fatalf("cannot start decode worker: %v", err)
			}
			if confirmed {
				c.Check("C09/pointer/every-decode-terminates", false, func() string {
					return fmt.Sprintf("llmnr.DecodeDomainName / DecodeMessage on %s: the decoding process failed 4 times out of 4 (3 in fresh processes): %s; name offsets %v", desc(), why, offs)
				})
				r.ObserveS("nonterminating")
				// a confirmed hang costs 80 s, a confirmed crash (stack overflow) well under a second: stop this
				// configuration after the first hang or after 5 crashes; the abort is reported as a cap
				failures++
				if strings.HasPrefix(why, "no answer") || failures >= 5 {
					aborted = true
				}
				return
			}
			c.Pass("C09/pointer/every-decode-terminates", 1)
			mustAcceptAll, firstBad, anyToRoot := true, clsSilent, false
			var wantQ strings.Builder
			for k, q := range b.qs {
				cls, labels, next, hops, rerr := classify(b, q.start)
				got := res[k]
				r.ObserveS(fmt.Sprintf("%d:%d:%s:%d", cls, got.status, got.text, got.next))
				w := func(extra string) func() string {
					return func() string {
						st := map[byte]string{0: "name", 1: "error", 2: "PANIC"}[got.status]
						return fmt.Sprintf("DecodeDomainName(pkt,%d) = %s %q next %d; reference: %q next %d hops %v err %v; %s %s", q.start, st, got.text, got.next, refdns.Dotted(labels), next, hops, rerr, extra, desc())
					}
				}
				c.Check("C09/pointer/DecodeDomainName/no-panic", got.status != 2, w(""))
				eq := got.status == 0 && nameEq(got.text, labels)
				// a name whose last pointer lands directly on a terminating zero octet has the root as its
				// compressed suffix; legal, never produced by compressing encoders, and a distinct code path
				toRoot := ""
				if len(hops) > 0 && len(labels) > 0 && cls != clsNotBackward && b.pkt[hops[len(hops)-1].Target] == 0 {
					toRoot = "/labels-then-pointer-to-root"
					anyToRoot = true
				}
				switch cls {
				case clsPlain:
					c.Check("C09/pointer/no-pointer-on-path/decodes-to-reference-name", eq, w(""))
					c.Check("C09/pointer/no-pointer-on-path/offset-after-name", !eq || got.next == next, w(""))
				case clsLabelStart:
					key := fmt.Sprintf("C09/pointer/strictly-backward-to-label-start%s/hops:%d", toRoot, len(hops))
					c.Check(key+"/decodes-to-reference-name", eq, w(""))
					c.Check(key+"/offset-just-after-first-pointer", !eq || got.next == next, w(""))
				case clsNotBackward:
					h := hops[len(hops)-1]
					kind := "forward"
					if h.Target == h.At {
						kind = "self"
					} else if h.Target >= len(b.pkt) {
						kind = "beyond-packet"
					}
					c.Check("C09/pointer/not-strictly-backward/"+kind+"/rejected", got.status == 1, w(fmt.Sprintf("pointer at %d targets %d;", h.At, h.Target)))
				case clsTruncatedPtr:
					c.Check("C09/pointer/second-octet-missing/rejected", got.status == 1, w(""))
				case clsOther:
					c.Check("C09/pointer/strictly-backward-to-other-offset"+toRoot+"/if-accepted-equals-reference-reading", got.status != 0 || (eq && got.next == next), w(""))
				}
				if mustAcceptAll {
					if cls == clsPlain || cls == clsLabelStart {
						n := refdns.Dotted(labels)
						fmt.Fprintf(&wantQ, "%x/%d/%d;", n, q.typ, q.class)
					} else {
						mustAcceptAll, firstBad = false, cls
					}
				}
			}
			mres := res[len(res)-1]
			r.ObserveS(fmt.Sprintf("m:%d:%s", mres.status, mres.text))
			mw := func() string {
				return fmt.Sprintf("DecodeMessage = status %d %q; want questions %q; %s", mres.status, mres.text, wantQ.String(), desc())
			}
			c.Check("C09/pointer/DecodeMessage/no-panic", mres.status != 2, mw)
			if mustAcceptAll && len(b.qs) == len(cf.qs) {
				key := "C09/pointer/DecodeMessage/decodes-all-questions-to-reference"
				if anyToRoot {
					key += "/labels-then-pointer-to-root"
				}
				c.Check(key, mres.status == 0 && mres.text == wantQ.String(), mw)
			} else if firstBad == clsNotBackward || firstBad == clsTruncatedPtr {
				c.Check("C09/pointer/DecodeMessage/rejects-message-with-non-backward-or-truncated-pointer", mres.status == 1, mw)
			}
		}
		st, err := ex.Explore()
		if err != nil {
			c.Fatalf("explorer %s: %v", cf.name, err)
		}
		if st.CapHit {
			c.Cap("pointer exploration " + cf.name + " stopped early")
		}
		if st.DistinctOutcomes <= 1 && !st.CapHit {
			c.Fatalf("pointer exploration %s is vacuous: %d distinct outcomes", cf.name, st.DistinctOutcomes)
		}
		c.Set("explore_"+cf.name, map[string]any{"executions": st.Executions, "choice_points": st.ChoicePoints, "max_depth": st.MaxDepth,
			"distinct_outcomes": st.DistinctOutcomes, "bound": st.Bound, "targets_per_boundary": cf.baseLen() + 2, "worker_restarts": cl.restarts})
		mu.Lock()
		totalExec += st.Executions
		mu.Unlock()
	})
	c.Set("pointer_executions", totalExec)
	c.Sample("pointer-config", map[string]any{"name": cfgs[0].name, "questions": cfgs[0].qs, "bound": bound})
}
