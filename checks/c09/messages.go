package main

import (
	"bytes"
	"fmt"
	"strings"

	"github.com/TheManticoreProject/Manticore/network/llmnr"
	"golang.org/x/net/dns/dnsmessage"

	"verif/enum"
	"verif/ref/refdns"
	"verif/vf"
)

// ------------------------------------------------------------------ independent readers / writers

func refRecsQ(qs []refdns.Question) []rec {
	var out []rec
	for _, q := range qs {
		out = append(out, rec{name: q.Name, typ: q.Type, class: q.Class})
	}
	return out
}

func refRecs(rs []refdns.RR) []rec {
	var out []rec
	for _, r := range rs {
		out = append(out, rec{name: r.Name, typ: r.Type, class: r.Class, ttl: r.TTL, rdata: r.RData})
	}
	return out
}

func dmLabels(n dnsmessage.Name) []string {
	s := n.String()
	if s == "." || s == "" {
		return nil
	}
	return strings.Split(strings.TrimSuffix(s, "."), ".")
}

func dmFlags(h dnsmessage.Header) uint16 {
	b := uint16(h.OpCode&0xF)<<11 | uint16(h.RCode&0xF)
	for _, x := range []struct {
		on  bool
		bit uint16
	}{{h.Response, 0x8000}, {h.Authoritative, 0x0400}, {h.Truncated, 0x0200}, {h.RecursionDesired, 0x0100}, {h.RecursionAvailable, 0x0080}, {h.AuthenticData, 0x0020}, {h.CheckingDisabled, 0x0010}} {
		if x.on {
			b |= x.bit
		}
	}
	return b
}

func dmHeader(id, flags uint16) dnsmessage.Header {
	return dnsmessage.Header{ID: id, Response: flags&0x8000 != 0, OpCode: dnsmessage.OpCode(flags >> 11 & 0xF), Authoritative: flags&0x0400 != 0,
		Truncated: flags&0x0200 != 0, RecursionDesired: flags&0x0100 != 0, RecursionAvailable: flags&0x0080 != 0, AuthenticData: flags&0x0020 != 0,
		CheckingDisabled: flags&0x0010 != 0, RCode: dnsmessage.RCode(flags & 0xF)}
}

const dmFlagMask = 0xFFBF // dnsmessage has no field for the Z bit

// dmParse reads b with x/net dnsmessage; returns the sections read, the failing section (-1 none).
func dmParse(b []byte) (id, flags uint16, sec [4][]rec, failed int, err error) {
	var p dnsmessage.Parser
	h, err := p.Start(b)
	if err != nil {
		return 0, 0, sec, 0, err
	}
	id, flags = h.ID, dmFlags(h)
	for {
		q, e := p.Question()
		if e == dnsmessage.ErrSectionDone {
			break
		}
		if e != nil {
			return id, flags, sec, 1, e
		}
		sec[0] = append(sec[0], rec{name: dmLabels(q.Name), typ: uint16(q.Type), class: uint16(q.Class)})
	}
	hdr := []func() (dnsmessage.ResourceHeader, error){nil, p.AnswerHeader, p.AuthorityHeader, p.AdditionalHeader}
	for s := 1; s <= 3; s++ {
		for {
			rh, e := hdr[s]()
			if e == dnsmessage.ErrSectionDone {
				break
			}
			if e != nil {
				return id, flags, sec, s + 1, e
			}
			u, e := p.UnknownResource()
			if e != nil {
				return id, flags, sec, s + 1, e
			}
			sec[s] = append(sec[s], rec{name: dmLabels(rh.Name), typ: uint16(rh.Type), class: uint16(rh.Class), ttl: rh.TTL, rdata: u.Data})
		}
	}
	return id, flags, sec, -1, nil
}

// dmBuild writes t with the dnsmessage Builder, compression enabled.
func dmBuild(t *tmsg) ([]byte, error) {
	b := dnsmessage.NewBuilder(nil, dmHeader(t.id, t.flags))
	b.EnableCompression()
	nm := func(l []string) (dnsmessage.Name, error) {
		if len(l) == 0 {
			return dnsmessage.NewName(".")
		}
		return dnsmessage.NewName(dotted(l) + ".")
	}
	starts := []func() error{b.StartQuestions, b.StartAnswers, b.StartAuthorities, b.StartAdditionals}
	for s := 0; s < 4; s++ {
		if err := starts[s](); err != nil {
			return nil, err
		}
		for _, r := range t.sec[s] {
			n, err := nm(r.name)
			if err != nil {
				return nil, err
			}
			if s == 0 {
				err = b.Question(dnsmessage.Question{Name: n, Type: dnsmessage.Type(r.typ), Class: dnsmessage.Class(r.class)})
			} else {
				err = b.UnknownResource(dnsmessage.ResourceHeader{Name: n, Class: dnsmessage.Class(r.class), TTL: r.ttl}, dnsmessage.UnknownResource{Type: dnsmessage.Type(r.typ), Data: r.rdata})
			}
			if err != nil {
				return nil, err
			}
		}
	}
	return b.Finish()
}

// ------------------------------------------------------------------ the obligations of one message

func libDecodes(c *vf.Ctx, area string, t *tmsg, wire []byte, flagMask uint16) {
	var m *llmnr.Message
	var err error
	if p, msg, where := vf.Try(func() { m, err = llmnr.DecodeMessage(wire) }); p {
		c.Fail("C09/"+area+"/DecodeMessage/no-panic@"+where, fmt.Sprintf("DecodeMessage(%s) panicked: %s; message %s", vf.HexS(wire), msg, t))
		return
	}
	if !c.Check("C09/"+area+"/DecodeMessage-accepts", err == nil && m != nil, func() string {
		return fmt.Sprintf("DecodeMessage(%s) = %v; the bytes encode %s", vf.HexS(wire), err, t)
	}) {
		return
	}
	c.Check("C09/"+area+"/header-id-flags", m.ID == t.id && m.Flags&flagMask == t.flags&flagMask, func() string {
		return fmt.Sprintf("DecodeMessage(%s): ID 0x%04x Flags 0x%04x, want 0x%04x 0x%04x", vf.HexS(wire), m.ID, m.Flags, t.id, t.flags)
	})
	c.Check("C09/"+area+"/header-counts", int(m.QDCount) == len(t.sec[0]) && int(m.ANCount) == len(t.sec[1]) && int(m.NSCount) == len(t.sec[2]) && int(m.ARCount) == len(t.sec[3]), func() string {
		return fmt.Sprintf("DecodeMessage(%s): counts %d/%d/%d/%d, want %d/%d/%d/%d", vf.HexS(wire), m.QDCount, m.ANCount, m.NSCount, m.ARCount, len(t.sec[0]), len(t.sec[1]), len(t.sec[2]), len(t.sec[3]))
	})
	allOK := true
	for s := 0; s < 4; s++ {
		ok, diff := cmpLibSection(s, t.sec[s], m)
		allOK = allOK && ok
		c.Check("C09/"+area+"/"+secName[s], ok, func() string {
			return fmt.Sprintf("DecodeMessage(%s): %s; the bytes encode %s", vf.HexS(wire), diff, t)
		})
	}
	// the two follow-up obligations are evaluated only on messages whose sections came back
	// complete, so that a dropped section (its own obligation above) is not reported twice
	if area == "roundtrip" && allOK {
		verr := m.Validate()
		c.Check("C09/roundtrip/decoded-message-passes-Validate", verr == nil, func() string {
			return fmt.Sprintf("DecodeMessage(Encode(m)).Validate() = %v for m = %s", verr, t)
		})
		// stability: what was decoded must encode to the same bytes again (catches representations
		// the decoder produces but the encoder does not understand, e.g. "." for the root)
		re, rerr := m.Encode()
		c.Check("C09/roundtrip/re-encoding-the-decoded-message-gives-the-same-bytes", rerr == nil && bytes.Equal(re, wire), func() string {
			return fmt.Sprintf("m=%s: Encode(m)=%s but Encode(DecodeMessage(Encode(m)))=%s, %v", t, vf.HexS(wire), vf.HexS(re), rerr)
		})
	}
}

func checkMessage(c *vf.Ctx, t *tmsg) {
	lm := t.lib()
	if err := lm.Validate(); err != nil {
		c.Check("C09/validate/valid-message-accepted", false, func() string { return fmt.Sprintf("Validate() = %v for %s", err, t) })
	} else {
		c.Pass("C09/validate/valid-message-accepted", 1)
	}
	var wire []byte
	var err error
	if p, msg, where := vf.Try(func() { wire, err = lm.Encode() }); p {
		c.Fail("C09/encode/Encode/no-panic@"+where, fmt.Sprintf("Encode panicked: %s; message %s", msg, t))
		return
	}
	c.Case([]byte("msg"), wire)
	if !c.Check("C09/encode/valid-message-accepted", err == nil, func() string { return fmt.Sprintf("Encode() = %v for %s", err, t) }) {
		return
	}
	c.Check("C09/encode/header-counts-left-equal-to-section-lengths", int(lm.QDCount) == len(t.sec[0]) && int(lm.ANCount) == len(t.sec[1]) && int(lm.NSCount) == len(t.sec[2]) && int(lm.ARCount) == len(t.sec[3]), func() string {
		return fmt.Sprintf("after Encode counts are %d/%d/%d/%d for %s", lm.QDCount, lm.ANCount, lm.NSCount, lm.ARCount, t)
	})

	// 1. decode(encode(m)) == m
	libDecodes(c, "roundtrip", t, wire, 0xFFFF)

	// 2. the reference parser reads the library's bytes
	rm, failed, rerr := refdns.Parse(wire)
	got := [4][]rec{refRecsQ(rm.Q), refRecs(rm.An), refRecs(rm.Ns), refRecs(rm.Ar)}
	c.Check("C09/interop/refdns-reads-library/header", failed != 0 && rm.ID == t.id && rm.Flags == t.flags &&
		int(rm.QD) == len(t.sec[0]) && int(rm.AN) == len(t.sec[1]) && int(rm.NS) == len(t.sec[2]) && int(rm.AR) == len(t.sec[3]), func() string {
		return fmt.Sprintf("Encode(%s) = %s: header read as id %04x flags %04x counts %d/%d/%d/%d (%v)", t, vf.HexS(wire), rm.ID, rm.Flags, rm.QD, rm.AN, rm.NS, rm.AR, rerr)
	})
	for s := 0; s < 4; s++ {
		ok, diff := false, ""
		if failed >= 0 && failed <= s+1 {
			diff = fmt.Sprintf("RFC 1035 parser fails in section %d: %v", failed, rerr)
		} else {
			ok, diff = cmpRecs(s, t.sec[s], got[s])
		}
		c.Check("C09/interop/refdns-reads-library/"+secName[s], ok, func() string {
			return fmt.Sprintf("Encode(%s) = %s: %s", t, vf.HexS(wire), diff)
		})
	}
	c.Check("C09/interop/refdns-reads-library/no-trailing-bytes", failed >= 0 || rm.Trailing == 0, func() string {
		return fmt.Sprintf("Encode(%s) = %s: %d bytes after the last record", t, vf.HexS(wire), rm.Trailing)
	})

	// 3. dnsmessage reads the library's bytes
	did, dflags, dsec, dfailed, derr := dmParse(wire)
	c.Check("C09/interop/dnsmessage-reads-library/header", dfailed != 0 && did == t.id && dflags == t.flags&dmFlagMask, func() string {
		return fmt.Sprintf("Encode(%s) = %s: dnsmessage header id %04x flags %04x (%v)", t, vf.HexS(wire), did, dflags, derr)
	})
	for s := 0; s < 4; s++ {
		ok, diff := false, ""
		if dfailed >= 0 && dfailed <= s+1 {
			diff = fmt.Sprintf("dnsmessage parser fails in section %d: %v", dfailed, derr)
		} else {
			ok, diff = cmpRecs(s, t.sec[s], dsec[s])
		}
		c.Check("C09/interop/dnsmessage-reads-library/"+secName[s], ok, func() string {
			return fmt.Sprintf("Encode(%s) = %s: %s", t, vf.HexS(wire), diff)
		})
	}

	// 4. the library reads the reference encoder's bytes, plain and compressed
	for _, compress := range []bool{false, true} {
		enc, np, eerr := refdns.Encode(t.ref(), compress)
		if eerr != nil {
			c.Fatalf("reference encoder refused a valid message: %v (%s)", eerr, t)
		}
		area := "interop/library-reads-refdns-plain"
		if compress {
			area = "interop/library-reads-refdns-compressed"
			c.Add("compression_pointers_in_reference_output", int64(np))
			if np == 0 {
				continue // identical to the plain encoding
			}
		}
		c.Distinct([]byte("refenc"), enc)
		libDecodes(c, area, t, enc, 0xFFFF)
	}

	// 5. the library reads the dnsmessage Builder's compressed bytes
	if denc, berr := dmBuild(t); berr != nil {
		c.Fatalf("dnsmessage Builder refused a valid message: %v (%s)", berr, t)
	} else {
		c.Distinct([]byte("dmenc"), denc)
		libDecodes(c, "interop/library-reads-dnsmessage-compressed", t, denc, dmFlagMask)
	}
}

// ------------------------------------------------------------------ lattices

func std(name []string, s int, i int) rec {
	r := rec{name: name, typ: 1, class: 1}
	if s > 0 {
		r.ttl = 30
		r.rdata = enum.Counter(4, byte(0x10*s+i))
	}
	return r
}

func messageLattices(c *vf.Ctx, pool [][]string) {
	var msgs []*tmsg
	host := []string{"host", "local"}
	base := func() *tmsg {
		return &tmsg{id: 0x0102, flags: 0x8003, sec: [4][]rec{{std(host, 0, 0)}, {std(host, 1, 0)}, nil, nil}}
	}
	// (A) header words
	w16 := enum.Words(16)
	for _, v := range w16 {
		m := base()
		m.id = uint16(v)
		msgs = append(msgs, m)
		m = base()
		m.flags = uint16(v)
		msgs = append(msgs, m)
	}
	for _, a := range enum.Bits1(16) {
		for _, b := range enum.Bits1(16) {
			m := base()
			m.id, m.flags = uint16(a), uint16(b)
			msgs = append(msgs, m)
		}
	}
	// (B) section sizes x rotations through the pool
	rot := c.Pick(24, 120)
	k := 0
	for q := 0; q <= 2; q++ {
		for an := 0; an <= 2; an++ {
			for ns := 0; ns <= 2; ns++ {
				for ar := 0; ar <= 2; ar++ {
					for r := 0; r < rot; r++ {
						m := &tmsg{id: uint16(0x0100 + k), flags: uint16(0x8000 >> uint(k%16))}
						for s, n := range []int{q, an, ns, ar} {
							for i := 0; i < n; i++ {
								rc := std(pool[(k*7+s*3+i)%len(pool)], s, i)
								rc.typ = uint16(1 + (k+s+i)%40)
								m.sec[s] = append(m.sec[s], rc)
							}
						}
						k++
						msgs = append(msgs, m)
					}
				}
			}
		}
	}
	// (C) every pool name in every section, first and second position
	for i, n := range pool {
		for s := 0; s < 4; s++ {
			m := &tmsg{id: uint16(i), flags: 0}
			m.sec[s] = []rec{std(n, s, 0)}
			msgs = append(msgs, m)
			m = &tmsg{id: uint16(i), flags: 0x8000}
			m.sec[s] = []rec{std(pool[(i+1)%len(pool)], s, 0), std(n, s, 1)}
			if s != 0 {
				m.sec[0] = []rec{std(n, 0, 0)}
			}
			msgs = append(msgs, m)
		}
	}
	// (D) type / class / ttl words in every section
	w32 := enum.Words(32)
	if c.Quick() {
		w32 = w32[:2+64] // 0, ffffffff, Bits1, ~Bits1
	}
	for s := 0; s < 4; s++ {
		mk := func(f func(r *rec)) {
			m := &tmsg{id: 7, flags: 0x8000}
			m.sec[s] = []rec{std(host, s, 0), std([]string{"x"}, s, 1)}
			f(&m.sec[s][0])
			msgs = append(msgs, m)
			m = &tmsg{id: 8, flags: 0x8000}
			m.sec[s] = []rec{std(host, s, 0), std([]string{"x"}, s, 1)}
			f(&m.sec[s][1])
			msgs = append(msgs, m)
		}
		for _, v := range w16 {
			mk(func(r *rec) { r.typ = uint16(v) })
			mk(func(r *rec) { r.class = uint16(v) })
		}
		// every assigned RR type and QTYPE (0..260) in every section: a codec may treat single types specially (OPT, ANY, AXFR …)
		for v := 0; v <= 260; v++ {
			mk(func(r *rec) { r.typ = uint16(v) })
		}
		for _, v := range []int{1, 3, 4, 254, 255} {
			mk(func(r *rec) { r.class = uint16(v) })
		}
		for _, v := range enum.ByteDistinct(2) {
			mk(func(r *rec) { r.typ = uint16(v); r.class = ^uint16(v) })
		}
		if s > 0 {
			for _, v := range w32 {
				mk(func(r *rec) { r.ttl = uint32(v) })
			}
			for _, v := range enum.ByteDistinct(4) {
				mk(func(r *rec) { r.ttl = uint32(v) })
			}
		}
	}
	// (E) RDATA lengths per RR section and position
	rdl := []int{0, 1, 4, 16, 255, 256, 65535}
	if c.Thorough() {
		rdl = append(rdl, 2, 3, 5, 15, 17, 254, 257, 511, 512, 513, 1023, 1024, 16383, 16384, 32767, 32768, 65534)
	}
	for s := 1; s < 4; s++ {
		for _, n := range rdl {
			for pos := 0; pos < 2; pos++ {
				m := &tmsg{id: uint16(n), flags: 0x8000}
				m.sec[0] = []rec{std(host, 0, 0)}
				m.sec[s] = []rec{std(host, s, 0), std([]string{"y", "local"}, s, 1)}
				m.sec[s][pos].rdata = enum.Counter(n, byte(3+pos))
				if s < 3 {
					m.sec[3] = []rec{std([]string{"tail"}, 3, 0)} // something after the big record
				}
				msgs = append(msgs, m)
			}
			for _, n2 := range rdl {
				if n+n2 > 70000 && c.Quick() {
					continue
				}
				m := &tmsg{id: uint16(n), flags: 0x8000}
				m.sec[s] = []rec{std(host, s, 0), std(host, s, 1)}
				m.sec[s][0].rdata = enum.Counter(n, 9)
				m.sec[s][1].rdata = enum.Fill(n2, 0xC0)
				msgs = append(msgs, m)
			}
		}
	}
	// (E') a name that first occurs after a large RDATA and is then referred to: the compressing encoders
	// emit pointers whose 14-bit offset crosses every byte/bit boundary (0xFF/0x100 ... 0x3FFF; 0x4000 is not pointable)
	lateOffs := []int{0xFF, 0x100, 0x1FF, 0x200, 0x3FF, 0x400, 0x7FF, 0x800, 0xFFF, 0x1000, 0x1FFF, 0x2000, 0x3FFE, 0x3FFF, 0x4000, 0x4001}
	for _, off := range lateOffs {
		// header 12 + "host.local" 12 + fixed RR part 10 + rdata n  => the next name starts at 34+n
		n := off - 34
		late := []string{"late", "name"}
		for v := 0; v < 2; v++ {
			m := &tmsg{id: uint16(off), flags: 0x8000}
			m.sec[1] = []rec{std(host, 1, 0)}
			m.sec[1][0].rdata = enum.Counter(n, 1)
			if v == 0 {
				m.sec[2] = []rec{std(late, 2, 0)}
				m.sec[3] = []rec{std(append([]string{"x"}, late...), 3, 0), std(late[1:], 3, 1)}
			} else {
				m.sec[1] = append(m.sec[1], std(late, 1, 1))
				m.sec[3] = []rec{std(late, 3, 0)}
			}
			msgs = append(msgs, m)
		}
	}
	// (F) suffix-sharing families (compression targets in every earlier section)
	var bases [][]string
	for i, n := range pool {
		if len(n) >= 1 && wireLen(n) <= 255-8 && (i%c.Pick(9, 2) == 0 || len(n) > 1) {
			bases = append(bases, n)
		}
	}
	for i, b := range bases {
		p1 := append([]string{"p"}, b...)
		p2 := append([]string{"q", "rr"}, b...)
		tail := b[len(b)-1:]
		fam := [][4][][]string{
			{{b}, {b}, {b}, {b}},
			{{b}, {p1}, {p2}, {tail}},
			{{p2}, {p1, b}, {tail, p2}, {nil, b}},
			{nil, {p1}, nil, {p1, p2}},
			{{p1, p1}, nil, {b}, nil},
			{nil, nil, {p2}, {b, p2}},
		}
		for _, f := range fam {
			m := &tmsg{id: uint16(0x4000 + i), flags: 0x8400}
			for s := 0; s < 4; s++ {
				for j, n := range f[s] {
					m.sec[s] = append(m.sec[s], std(n, s, j))
				}
			}
			msgs = append(msgs, m)
		}
	}
	// (G) nested owner names l0, l1.l0, l2.l1.l0, ...: a compressing encoder writes each as one label plus a
	// pointer to the previous name, so reading the last one follows a chain of D strictly backward pointers
	for _, D := range chainDepths(c) {
		m := &tmsg{id: uint16(0x5000 + D), flags: 0x8400}
		var name []string
		for k := 0; k <= D; k++ {
			name = append([]string{string(rune('a'+k%26)) + fmt.Sprint(k%10)}, name...)
			s := 1 + k%3
			m.sec[s] = append(m.sec[s], std(name, s, k))
		}
		msgs = append(msgs, m)
	}
	c.Set("messages", len(msgs))
	vf.Par(len(msgs), func(i int) {
		if c.DeadlineExceeded() {
			return
		}
		checkMessage(c, msgs[i])
	})
	c.Sample("message", msgs[len(msgs)/3].String())
	c.Sample("message", msgs[len(msgs)-1].String())

	// AddQuestion / AddAnswer build the same message as a literal
	vf.Par(len(pool), func(i int) {
		n := dotted(pool[i])
		m := llmnr.NewMessage()
		m.ID, m.Flags = 0x55AA, 0x8000
		e1 := m.AddQuestion(n, 28, 1)
		e2 := m.AddAnswer(llmnr.ResourceRecord{Name: n, Type: 28, Class: 1, TTL: 5, RDLength: 16, RData: enum.Counter(16, 1)})
		c.Case([]byte("add"), []byte(n))
		c.Check("C09/build/AddQuestion-AddAnswer-accept-valid-name", e1 == nil && e2 == nil, func() string {
			return fmt.Sprintf("AddQuestion(%s)=%v AddAnswer=%v", qn(n), e1, e2)
		})
		if e1 != nil || e2 != nil {
			return
		}
		t := &tmsg{id: 0x55AA, flags: 0x8000}
		t.sec[0] = []rec{{name: pool[i], typ: 28, class: 1}}
		t.sec[1] = []rec{{name: pool[i], typ: 28, class: 1, ttl: 5, rdata: enum.Counter(16, 1)}}
		want, _, _ := refdns.Encode(t.ref(), false)
		got, err := m.Encode()
		c.Check("C09/build/AddQuestion-AddAnswer-message-encodes-to-reference-bytes", err == nil && bytes.Equal(got, want), func() string {
			return fmt.Sprintf("NewMessage+AddQuestion(%s,28,1)+AddAnswer: Encode = %s, %v; reference %s", qn(n), vf.HexS(got), err, vf.HexS(want))
		})
	})
}

// chainDepths: every depth 1..16, then both sides of 2^k up to the deepest chain a 255-byte name allows
// with 2-character labels (84 labels = 253 octets).
func chainDepths(c *vf.Ctx) []int {
	var d []int
	for i := 1; i <= 16; i++ {
		d = append(d, i)
	}
	d = append(d, 17, 31, 32, 33, 63, 64, 65, 82, 83)
	return d
}
