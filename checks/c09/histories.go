package main

import (
	"fmt"

	"github.com/TheManticoreProject/Manticore/network/llmnr"

	"verif/mc/purity"
	"verif/vf"
)

// histories: the encoders/decoders are pure functions of their input; all ordered pairs of calls
// over a small set (verif/mc/purity): an encoding handed out earlier survives later Encode calls,
// decoding does not depend on what was decoded before, a decoded message does not change when the
// caller recycles its packet buffer for the next datagram.
func histories(c *vf.Ctx) {
	names := [][]byte{[]byte("host.local"), []byte("a"), []byte("printer.example.org"), []byte("x.y")}
	mk := func(name string, id uint16) *llmnr.Message {
		m := llmnr.NewMessage()
		m.ID = id
		m.SetResponse()
		m.AddQuestion(name, llmnr.TypeA, llmnr.ClassIN)
		m.AddAnswer(llmnr.ResourceRecord{Name: name, Type: llmnr.TypeTXT, Class: llmnr.ClassIN, TTL: 7, RDLength: uint16(len(name)), RData: []byte(name)})
		return m
	}
	purity.Check(c, "C09/history/Message.Encode", "Message{q,an for name}.Encode", names, func(in []byte) [][]byte {
		b, err := mk(string(in), uint16(len(in))).Encode()
		if err != nil {
			return nil
		}
		return [][]byte{b}
	})
	purity.Check(c, "C09/history/EncodeDomainName", "llmnr.EncodeDomainName", names, func(in []byte) [][]byte {
		b, _ := llmnr.EncodeDomainName(string(in))
		return [][]byte{b}
	})
	var pkts [][]byte
	for i, n := range names {
		b, err := mk(string(n), uint16(0x0100+i)).Encode()
		if err != nil {
			c.Fatalf("cannot encode: %v", err)
		}
		pkts = append(pkts, b)
	}
	// same-length packets so that the recycled-buffer history applies
	b1, _ := mk("aa.bb", 1).Encode()
	b2, _ := mk("cc.dd", 2).Encode()
	pkts = append(pkts, b1, b2)
	purity.Check(c, "C09/history/DecodeMessage", "llmnr.DecodeMessage", pkts, func(in []byte) [][]byte {
		m, err := llmnr.DecodeMessage(in)
		if err != nil {
			return [][]byte{[]byte("error")}
		}
		out := [][]byte{[]byte(fmt.Sprintf("%04x %04x", m.ID, m.Flags))}
		for _, q := range m.Questions {
			out = append(out, []byte(q.Name))
		}
		for _, a := range m.Answers {
			out = append(out, []byte(a.Name), a.RData)
		}
		return out
	})
}
