package main

import (
	"fmt"

	"github.com/TheManticoreProject/Manticore/network/llmnr"

	"verif/mc/purity"
	"verif/vf"
)

// histories: the encoders/decoders are pure functions of their input; all ordered pairs of calls
// over a small set (verif/mc/purity): an encoding handed out earlier survives later Encode calls,
// decoding does not depend on what was decoded before, a decoded message does not change when the
// caller recycles its packet buffer for the next datagram.
func histories(c *vf.Ctx) {
	names := [][]byte{[]byte("host.local"), []byte("a"), []byte("printer.example.org"), []byte("x.y")}
	mk := func(name string, id uint16) *llmnr.Message {
		m := llmnr.NewMessage()
		m.ID = id
		m.SetResponse()
		m.AddQuestion(name, llmnr.TypeA, llmnr.ClassIN)
		m.AddAnswer(llmnr.ResourceRecord{Name: name, Type: llmnr.TypeTXT, Class: llmnr.ClassIN, TTL: 7, RDLength: uint16(len(name)), RData: []byte(name)})
		return m
	}
	purity.Check(c, "C09/history/Message.Encode", "Message{q,an for name}.Encode", names, func(in []byte) [][]byte {
		b, err := mk(string(in), uint16(len(in))).Encode()
		if err != nil {
			return nil
		}
		return [][]byte{b}
	})
	purity.Check(c, "C09/history/EncodeDomainName", "llmnr.EncodeDomainName", names, func(in []byte) [][]byte {
		b, _ := llmnr.EncodeDomainName(string(in))
		return [][]byte{b}
	})
	var pkts [][]byte
	for i, n := range names {
		b, err := mk(string(n), uint16(0x0100+i)).Encode()
		if err != nil {
			c.Fatalf("cannot encode: %v", err)
		}
		pkts = append(pkts, b)
	}
	// same-length packets so that the recycled-buffer history applies
	b1, _ := mk("aa.bb", 1).Encode()
	b2, _ := mk("cc.dd", 2).Encode()
	pkts = append(pkts, b1, b2)
	purity.Check(c, "C09/history/DecodeMessage", "llmnr.DecodeMessage", pkts, func(in []byte) [][]byte {
		m, err := llmnr.DecodeMessage(in)
		if err != nil {
			return [][]byte{[]byte("error")}
		}
		out := [][]byte{[]byte(fmt.Sprintf("%04x %04x", m.ID, m.Flags))}
		for _, q := range m.Questions {
			out = append(out, []byte(q.Name))
		}
		for _, a := range m.Answers {
			out = append(out, []byte(a.Name), a.RData)
		}
		return out
	})
}

// editedMessage: ONE Message object edited between Encode calls (a responder builds a response, sends it, and
// reuses the object for the next query): after every sequence of three edits - a question or an answer added, a name
// or RDATA replaced in place, a section assigned or emptied, the id / direction changed - with Encode called or not
// after each of the first two, Encode gives what a FRESH Message with the same exported content gives, and the
// library's decoder reads the content back.
func editedMessage(c *vf.Ctx) {
	type op struct {
		name string
		do   func(m *llmnr.Message)
	}
	rr := func(n string, d byte) llmnr.ResourceRecord {
		return llmnr.ResourceRecord{Name: n, Type: llmnr.TypeA, Class: llmnr.ClassIN, TTL: 30, RDLength: 4, RData: []byte{10, 0, 0, d}}
	}
	ops := []op{
		{"AddQuestion(host.local)", func(m *llmnr.Message) { m.AddQuestion("host.local", llmnr.TypeA, llmnr.ClassIN) }},
		{"AddAnswer(host.local A 10.0.0.1)", func(m *llmnr.Message) { m.AddAnswer(rr("host.local", 1)) }},
		{"AddAnswer(other.local A 10.0.0.2)", func(m *llmnr.Message) { m.AddAnswer(rr("other.local", 2)) }},
		{"Questions[0].Name=HOST.local", func(m *llmnr.Message) {
			if len(m.Questions) > 0 {
				m.Questions[0].Name = "HOST.local"
			}
		}},
		{"Answers[last].RData[3]=9", func(m *llmnr.Message) {
			if n := len(m.Answers); n > 0 && len(m.Answers[n-1].RData) == 4 {
				m.Answers[n-1].RData[3] = 9
			}
		}},
		{"Answers[0].Name=x.y", func(m *llmnr.Message) {
			if len(m.Answers) > 0 {
				m.Answers[0].Name = "x.y"
			}
		}},
		{"Answers=[z.local A 10.0.0.7]", func(m *llmnr.Message) { m.Answers = []llmnr.ResourceRecord{rr("z.local", 7)} }},
		{"Answers=nil", func(m *llmnr.Message) { m.Answers = nil }},
		{"Additional=[a.local]", func(m *llmnr.Message) { m.Additional = []llmnr.ResourceRecord{rr("a.local", 8)} }},
		{"ID=0xBEEF", func(m *llmnr.Message) { m.ID = 0xBEEF }},
		{"SetQuery", func(m *llmnr.Message) { m.SetQuery() }},
	}
	clone := func(m *llmnr.Message) *llmnr.Message {
		f := llmnr.NewMessage()
		f.Header = m.Header
		f.Questions = append([]llmnr.Question{}, m.Questions...)
		cp := func(in []llmnr.ResourceRecord) []llmnr.ResourceRecord {
			out := []llmnr.ResourceRecord{}
			for _, r := range in {
				r.RData = append([]byte{}, r.RData...)
				out = append(out, r)
			}
			return out
		}
		f.Answers, f.Authority, f.Additional = cp(m.Answers), cp(m.Authority), cp(m.Additional)
		return f
	}
	n := 0
	for a := range ops {
		for b := range ops {
			for d := range ops {
				for obs := 0; obs < 4; obs++ {
					m := llmnr.NewMessage()
					m.ID = 0x0102
					m.SetResponse()
					m.AddQuestion("first.local", llmnr.TypeA, llmnr.ClassIN)
					var hist []string
					var out, want []byte
					var err, werr error
					pn, msg, where := vf.Try(func() {
						for i, o := range []op{ops[a], ops[b], ops[d]} {
							o.do(m)
							hist = append(hist, o.name)
							if i < 2 && obs&(1<<i) != 0 {
								m.Encode()
								hist = append(hist, "Encode")
							}
						}
						fresh := clone(m)
						out, err = m.Encode()
						want, werr = fresh.Encode()
					})
					n++
					c.Evals(1)
					c.Case([]byte("llmnr.edit"), []byte{byte(a), byte(b), byte(d), byte(obs)})
					c.Check("C09/history/edited-message-encodes-like-a-fresh-message-with-the-same-content", !pn && (err == nil) == (werr == nil) && fmt.Sprintf("%x", out) == fmt.Sprintf("%x", want), func() string {
						return fmt.Sprintf("one Message {response, id 0x0102, question first.local}, history %v, then Encode() = %x (%v); a fresh Message with the same exported content encodes as %x (%v) (panic=%v %s %s)", hist, out, err, want, werr, pn, msg, where)
					})
				}
			}
		}
	}
	c.Set("edited_message_histories", n)
}
