// C09 — LLMNR codec round-trips and agrees with an independent RFC 1035 codec.
// E4: message lattices (header words, section sizes {0,1,2}^4, name pool over label
// bytes/lengths/totals, type/class/TTL words, RDATA lengths) compared against two
// independent codecs (verif/ref/refdns and x/net dnsmessage) in both directions.
// E1: exhaustive compression-pointer placement in small multi-question packets
// (pointers.go), decoded by the library inside crash-isolating worker processes (worker.go).
package main

import (
	"bytes"
	"fmt"
	"os"
	"strings"

	"github.com/TheManticoreProject/Manticore/network/llmnr"

	"verif/enum"
	"verif/ref/refdns"
	"verif/vf"
)

func main() {
	if len(os.Args) > 1 && os.Args[1] == "--c09-worker" {
		workerMain()
		return
	}
	vf.Main("C09", "exploration", run)
}

func run(c *vf.Ctx) {
	if err := refdns.SelfTest(); err != nil {
		c.Fatalf("%v", err)
	}
	c.Rule("messages: (A) id x flags over Words(16) one-at-a-time + Bits1xBits1; (B) section sizes (q,an,ns,ar) in {0,1,2}^4 x rotations through the name pool; " +
		"(C) every pool name in every section at positions first/second; (D) type/class Words(16), TTL Words(32) per section; (E) RDATA lengths {0,1,4,16,255,256,65535}(+thorough) per RR section and position; " +
		"(E') a name first occurring at offsets 0xFF..0x4001 (after a large RDATA) and referred to later, so compression pointers carry every offset bit; (F) suffix-sharing families for compression. Name pool: single labels of length {1,2,62,63} x 7 fill bytes, every position x every byte value except '.' in a 3-byte label, " +
		"all label-length sequences over {1,2,62,63} up to 3 (thorough 4) labels that fit 255 wire octets, totals 253..255, 1..127 one-byte labels, root. " +
		"pointer placement (E1): every label boundary of every question name of small 2- and 3-question packets is replaced by a pointer to every offset 0..len-1, 0x3FFF, or a cut after the first pointer octet, up to 2 (thorough 3) replacements per packet. " +
		"distinct = distinct wire images reaching a comparison")
	c.Assume("golang.org/x/net/dns/dnsmessage is a correct RFC 1035 codec (it drops header bit Z=0x0040, which is therefore compared only through refdns); refdns self-tested on RFC 1035 §4.1.4 and published query/response bytes")
	c.Assume("a name is valid iff every label has 1..63 octets without '.', and the wire form has at most 255 octets; the root is written \"\" on input and may come back as \"\" or \".\"")
	pool := namePool(c)
	c.Set("name_pool", len(pool))
	nameObligations(c, pool)
	messageLattices(c, pool)
	pointerPlacement(c)
	rejectionLattice(c)
	histories(c)
	editedMessage(c)
}

// ------------------------------------------------------------------ test message model

type rec struct {
	name  []string
	typ   uint16
	class uint16
	ttl   uint32
	rdata []byte
}

type tmsg struct {
	id, flags uint16
	sec       [4][]rec // questions, answers, authority, additional
}

var secName = [4]string{"questions", "answers", "authority", "additional"}

func dotted(l []string) string { return strings.Join(l, ".") }

func isRootStr(s string) bool { return s == "" || s == "." }

// nameEq compares a library name string with a label list (root: "" or ".").
func nameEq(lib string, want []string) bool {
	if len(want) == 0 {
		return isRootStr(lib)
	}
	return lib == dotted(want)
}

func (t *tmsg) lib() *llmnr.Message {
	m := &llmnr.Message{}
	m.ID, m.Flags = t.id, t.flags
	for _, q := range t.sec[0] {
		m.Questions = append(m.Questions, llmnr.Question{Name: dotted(q.name), Type: q.typ, Class: q.class})
	}
	rrs := func(rs []rec) []llmnr.ResourceRecord {
		var out []llmnr.ResourceRecord
		for _, r := range rs {
			out = append(out, llmnr.ResourceRecord{Name: dotted(r.name), Type: r.typ, Class: r.class, TTL: r.ttl, RDLength: uint16(len(r.rdata)), RData: append([]byte{}, r.rdata...)})
		}
		return out
	}
	m.Answers, m.Authority, m.Additional = rrs(t.sec[1]), rrs(t.sec[2]), rrs(t.sec[3])
	m.QDCount, m.ANCount, m.NSCount, m.ARCount = uint16(len(t.sec[0])), uint16(len(t.sec[1])), uint16(len(t.sec[2])), uint16(len(t.sec[3]))
	return m
}

func (t *tmsg) ref() *refdns.Msg {
	m := &refdns.Msg{ID: t.id, Flags: t.flags}
	for _, q := range t.sec[0] {
		m.Q = append(m.Q, refdns.Question{Name: q.name, Type: q.typ, Class: q.class})
	}
	rrs := func(rs []rec) []refdns.RR {
		var out []refdns.RR
		for _, r := range rs {
			out = append(out, refdns.RR{Name: r.name, Type: r.typ, Class: r.class, TTL: r.ttl, RData: r.rdata})
		}
		return out
	}
	m.An, m.Ns, m.Ar = rrs(t.sec[1]), rrs(t.sec[2]), rrs(t.sec[3])
	return m
}

func qn(s string) string {
	if len(s) > 40 {
		return fmt.Sprintf("%q…(%d bytes)", s[:24], len(s))
	}
	return fmt.Sprintf("%q", s)
}

func (t *tmsg) String() string {
	var sb strings.Builder
	fmt.Fprintf(&sb, "Message{ID:0x%04x Flags:0x%04x", t.id, t.flags)
	for s := 0; s < 4; s++ {
		fmt.Fprintf(&sb, " %s:[", secName[s])
		for i, r := range t.sec[s] {
			if i > 0 {
				sb.WriteString(", ")
			}
			if s == 0 {
				fmt.Fprintf(&sb, "{Name:%s Type:%d Class:%d}", qn(dotted(r.name)), r.typ, r.class)
			} else {
				fmt.Fprintf(&sb, "{Name:%s Type:%d Class:%d TTL:%d RData:%s}", qn(dotted(r.name)), r.typ, r.class, r.ttl, vf.HexS(r.rdata))
			}
		}
		sb.WriteString("]")
	}
	sb.WriteString("}")
	return sb.String()
}

// cmpLibSection compares one section of a decoded library message with the expectation.
func cmpLibSection(s int, want []rec, m *llmnr.Message) (bool, string) {
	if s == 0 {
		if len(m.Questions) != len(want) {
			return false, fmt.Sprintf("%d questions, want %d", len(m.Questions), len(want))
		}
		for i, q := range m.Questions {
			w := want[i]
			if !nameEq(q.Name, w.name) || q.Type != w.typ || q.Class != w.class {
				return false, fmt.Sprintf("question %d = {%s %d %d}, want {%s %d %d}", i, qn(q.Name), q.Type, q.Class, qn(dotted(w.name)), w.typ, w.class)
			}
		}
		return true, ""
	}
	got := [][]llmnr.ResourceRecord{nil, m.Answers, m.Authority, m.Additional}[s]
	if len(got) != len(want) {
		return false, fmt.Sprintf("%d %s records, want %d", len(got), secName[s], len(want))
	}
	for i, r := range got {
		w := want[i]
		if !nameEq(r.Name, w.name) || r.Type != w.typ || r.Class != w.class || r.TTL != w.ttl || !bytes.Equal(r.RData, w.rdata) || int(r.RDLength) != len(w.rdata) {
			return false, fmt.Sprintf("%s record %d = {%s type %d class %d ttl %d rdlength %d rdata %s}, want {%s type %d class %d ttl %d rdlength %d rdata %s}",
				secName[s], i, qn(r.Name), r.Type, r.Class, r.TTL, r.RDLength, vf.HexS(r.RData), qn(dotted(w.name)), w.typ, w.class, w.ttl, len(w.rdata), vf.HexS(w.rdata))
		}
	}
	return true, ""
}

// cmpRecs compares a section as read by an independent parser.
func cmpRecs(s int, want, got []rec) (bool, string) {
	if len(got) != len(want) {
		return false, fmt.Sprintf("%d %s records read, want %d", len(got), secName[s], len(want))
	}
	for i := range got {
		g, w := got[i], want[i]
		if !refdns.EqualNames(g.name, w.name) || g.typ != w.typ || g.class != w.class || (s > 0 && (g.ttl != w.ttl || !bytes.Equal(g.rdata, w.rdata))) {
			return false, fmt.Sprintf("%s record %d read as {%s type %d class %d ttl %d rdata %s}, want {%s type %d class %d ttl %d rdata %s}",
				secName[s], i, qn(dotted(g.name)), g.typ, g.class, g.ttl, vf.HexS(g.rdata), qn(dotted(w.name)), w.typ, w.class, w.ttl, vf.HexS(w.rdata))
		}
	}
	return true, ""
}

// ------------------------------------------------------------------ name pool

func fill(n int, b byte) string { return string(enum.Fill(n, b)) }

func wireLen(l []string) int {
	w := 1
	for _, x := range l {
		w += 1 + len(x)
	}
	return w
}

var labelAlpha = []byte{'a', 'Z', '0', '-', 0x00, 0xFF, 0x20}

func namePool(c *vf.Ctx) [][]string {
	var pool [][]string
	seen := map[string]bool{}
	add := func(l []string) {
		if wireLen(l) > 255 {
			return
		}
		k := strings.Join(l, ".") + fmt.Sprint(len(l))
		if seen[k] {
			return
		}
		seen[k] = true
		pool = append(pool, l)
	}
	add(nil) // root
	lens := []int{1, 2, 62, 63}
	for _, n := range lens {
		for _, b := range labelAlpha {
			add([]string{fill(n, b)})
		}
		add([]string{string(enum.Counter(n, 'a'))})
	}
	for pos := 0; pos < 3; pos++ {
		for v := 0; v < 256; v++ {
			if v == '.' {
				continue
			}
			b := []byte("aaa")
			b[pos] = byte(v)
			add([]string{string(b)})
		}
	}
	maxK := c.Pick(3, 4)
	var gen func(prefix []int)
	gen = func(prefix []int) {
		if len(prefix) > 0 {
			var l []string
			for i, n := range prefix {
				l = append(l, fill(n, labelAlpha[(i+len(prefix))%len(labelAlpha)]))
			}
			add(l)
		}
		if len(prefix) == maxK {
			return
		}
		for _, n := range lens {
			gen(append(append([]int{}, prefix...), n))
		}
	}
	gen(nil)
	for _, ls := range [][]int{{63, 63, 63, 61}, {63, 63, 63, 60}, {63, 63, 63, 59}, {63, 63, 62, 62}, {61, 63, 63, 63}, {1, 63, 63, 63, 59}, {62, 62, 62, 62, 1}} {
		var l []string
		for i, n := range ls {
			l = append(l, string(enum.Counter(n, byte('A'+i))))
		}
		add(l)
	}
	for _, k := range []int{2, 3, 4, 5, 8, 16, 64, 125, 126, 127} {
		var l []string
		for i := 0; i < k; i++ {
			l = append(l, string([]byte{byte('a' + i%26)}))
		}
		add(l)
	}
	add([]string{"host", "local"})
	add([]string{"\xC0\x0C", "\x00", "\x3F"})
	// a backslash is an ordinary label byte: at the end of a non-final label (right before the dot of the text
	// form), doubled, alone, at the start of the next label
	for _, l := range [][]string{{"srv\\", "local"}, {"a\\\\", "b"}, {"\\", "x"}, {"a", "\\b"}, {"a\\", "\\", "c\\"}, {"x\\"}} {
		add(l)
	}
	return pool
}

// ------------------------------------------------------------------ per-name obligations

func nameObligations(c *vf.Ctx, pool [][]string) {
	vf.Par(len(pool), func(i int) {
		l := pool[i]
		s := dotted(l)
		var want []byte
		for _, x := range l {
			want = append(want, byte(len(x)))
			want = append(want, x...)
		}
		want = append(want, 0)
		c.Case([]byte("name"), want)
		var got []byte
		var err error
		if p, msg, where := vf.Try(func() { got, err = llmnr.EncodeDomainName(s) }); p {
			c.Fail("C09/name/EncodeDomainName/no-panic@"+where, fmt.Sprintf("EncodeDomainName(%s) panicked: %s", qn(s), msg))
			return
		}
		c.Check("C09/name/EncodeDomainName/equals-RFC1035-wire-form", err == nil && bytes.Equal(got, want), func() string {
			return fmt.Sprintf("EncodeDomainName(%s) = %s, %v; want %s", qn(s), vf.HexS(got), err, vf.HexS(want))
		})
		c.Check("C09/name/ValidateDomainName/accepts-valid-name", llmnr.ValidateDomainName(s) == nil, func() string {
			return fmt.Sprintf("ValidateDomainName(%s) (wire length %d) = %v", qn(s), len(want), llmnr.ValidateDomainName(s))
		})
		for _, pad := range []int{0, 1, 12} {
			data := append(enum.Fill(pad, 0xC0), want...)
			data = append(data, 0xAA, 0xBB)
			var name string
			var next int
			if p, msg, where := vf.Try(func() { name, next, err = llmnr.DecodeDomainName(data, pad) }); p {
				c.Fail("C09/name/DecodeDomainName/no-panic@"+where, fmt.Sprintf("DecodeDomainName(%s,%d) panicked: %s", vf.HexS(data), pad, msg))
				continue
			}
			c.Check("C09/name/DecodeDomainName/returns-the-name", err == nil && nameEq(name, l), func() string {
				return fmt.Sprintf("DecodeDomainName(%s,%d) = %s, %v; want %s", vf.HexS(data), pad, qn(name), err, qn(s))
			})
			c.Check("C09/name/DecodeDomainName/returns-offset-after-name", err != nil || next == pad+len(want), func() string {
				return fmt.Sprintf("DecodeDomainName(%s,%d) next offset %d, want %d", vf.HexS(data), pad, next, pad+len(want))
			})
		}
	})
	// the library renders the root as "."; that rendering must encode as the root again
	for _, s := range []string{"", "."} {
		got, err := llmnr.EncodeDomainName(s)
		c.Case([]byte("rootform"), []byte(s))
		form := map[string]string{"": "empty-string", ".": "dot"}[s]
		c.Check("C09/name/root/"+form+"-form-encodes-as-single-zero-octet", err == nil && bytes.Equal(got, []byte{0}), func() string {
			return fmt.Sprintf("EncodeDomainName(%q) = %x, %v; want 00 (DecodeDomainName returns %q for the root, so a decoded message with a root name must re-encode to the same bytes)", s, got, err, ".")
		})
	}
}
