// C15 — Windows time and duration conversions are exact, inverse and overflow-free.
// E4: a lattice of 64-bit tick values / seconds / instants is pushed through every
// conversion function of the anchors, in both directions and in composition, and each
// result is compared with the same arithmetic done in math/big (verif/ref/reftime).
package main

import (
	"bytes"
	"encoding/binary"
	"fmt"
	"math/big"
	"strconv"
	"time"

	"github.com/TheManticoreProject/Manticore/crypto/uuid/uuid_v1"
	"github.com/TheManticoreProject/Manticore/crypto/uuid/uuid_v2"
	"github.com/TheManticoreProject/Manticore/network/ldap"
	"github.com/TheManticoreProject/Manticore/windows/keycredential/key"
	kcutils "github.com/TheManticoreProject/Manticore/windows/keycredential/utils"
	ds "github.com/TheManticoreProject/Manticore/windows/ms_dtyp/common/data_structures"

	"verif/enum"
	rt "verif/ref/reftime"
	"verif/vf"
)

func main() { vf.Main("C15", "exploration", run) }

const (
	e1970 uint64 = 116444736000000000 // 1970-01-01 in ticks since 1601
	u1970 uint64 = 122192928000000000 // 1970-01-01 in ticks since 1582-10-15
	maxI  uint64 = 1<<63 - 1
	nsLim uint64 = 92233720368547758 // floor(2^63 / 100): ticks that fit int64 nanoseconds
)

func run(c *vf.Ctx) {
	// The process-local zone is moved away from UTC so that a conversion which depends on
	// time.Local (instead of UTC) shows; instants are unaffected.
	time.Local = time.FixedZone("verif+0530", 5*3600+1800)
	if err := rt.SelfTest(); err != nil {
		c.Fatalf("%v", err)
	}
	c.Rule("tick lattice T = {0, 2^k, 2^k±1 (k<64), max, max-1} ∪ ±3 (with sub-tick and zone variants; ±64, thorough ±5000 tick aligned) around {0, 1601/1970 epochs, int64-ns limits 1677-09-21/2262-04-11, 9999-12-31, 30828-09-14 = 2^63-1, -2^63, 2^63/100, 2^64/100, 2^63/1e7, 2^60 and the same for the 1582 epoch} ∪ all 2^a+2^b" +
		", 2^a-2^b and their complements (thorough: also all 2^a+2^b+2^c and k*10^j seconds) ∪ for each of the first two groups the enclosing whole second and its last tick; as 64-bit patterns, as signed decimal strings, as instants (tick aligned, +1/+50/+99 ns, three zones) and a seconds lattice built the same way. " +
		"Every function x every lattice point in its domain; compositions on the range of the inner function. distinct = distinct (function, input) pairs reaching the comparison")
	c.Assume("math/big, strconv, time.Unix/Time.Unix/Time.Nanosecond (used only to build and read instants) are correct; reference self-tested on the published epoch constants, the largest FILETIME, the int64-ns limits and against package time's calendar")
	c.Assume("instants that are not a multiple of 100 ns may be rounded down or up to a tick (the property does not fix the rounding); ConvertLDAPTimeStampToUnixTimeStamp may answer 0 instead of a negative Unix time for values before 1970 (its in-code saturation); " +
		"ConvertUnixTimeStampToLDAPTimeStamp may drop the sub-second part (it is documented to work on Unix seconds); FILETIME patterns with the top bit set may be read as signed or unsigned; NewDateTime(0) means 'now' and is excluded; " +
		"ConvertSecondsToLDAPDuration is only demanded where seconds*1e7 fits 64 bits; UUID timestamps are 60 bits")
	T := tickLattice(c)
	c.Set("tick_lattice_size", int64(len(T.all)))
	filetime(c, T)
	ldapConv(c, T)
	keycred(c, T)
	uuids(c, T)
}

// ---------------------------------------------------------------- lattices

type lattice struct {
	all  []uint64 // every pattern
	core []uint64 // patterns that also get sub-tick / zone variants
}

func tickLattice(c *vf.Ctx) lattice {
	seen := map[uint64]bool{}
	var L lattice
	add := func(v uint64, core bool) {
		if !seen[v] {
			seen[v] = true
			L.all = append(L.all, v)
			if core {
				L.core = append(L.core, v)
			}
		}
	}
	centers := []uint64{0, e1970, e1970 - nsLim - 1, e1970 + nsLim, 2650467743999999999, maxI, 1 << 63, ^uint64(0),
		nsLim, 184467440737095516, 922337203685, 922337203685 * 10_000_000, e1970 + 184467440737095516,
		u1970, u1970 - nsLim - 1, u1970 + nsLim, 1 << 60, u1970 + 184467440737095516}
	var first []uint64
	for _, v := range enum.Pow2(64) {
		first = append(first, v)
	}
	for _, ctr := range centers {
		for d := -3; d <= 3; d++ {
			first = append(first, ctr+uint64(int64(d)))
		}
	}
	for _, v := range first {
		add(v, true)
	}
	// a wider sweep around the same centres (tick aligned only)
	w := c.Pick(64, 5000)
	for _, ctr := range centers {
		for d := -w; d <= w; d++ {
			add(ctr+uint64(int64(d)), false)
		}
	}
	for _, v := range first {
		s := v - v%10_000_000
		add(s, true)
		add(s+9_999_999, true)
		add(s-1, true)
	}
	for _, v := range enum.Bits2(64) {
		add(v, false)
	}
	for a := 0; a < 64; a++ {
		for b := 0; b < a; b++ {
			add(1<<uint(a)-1<<uint(b), false)
			add(^(uint64(1)<<uint(a) | 1<<uint(b)), false)
		}
	}
	if c.Thorough() {
		// three bits set
		for a := 0; a < 64; a++ {
			for b := 0; b < a; b++ {
				for d := 0; d < b; d++ {
					add(1<<uint(a)|1<<uint(b)|1<<uint(d), false)
				}
			}
		}
		// every whole second boundary of the form k*10^j seconds
		for j := 0; j <= 12; j++ {
			p := uint64(1)
			for i := 0; i < j; i++ {
				p *= 10
			}
			for k := uint64(1); k <= 9; k++ {
				if k*p <= 1844674407370 {
					add(k*p*10_000_000, false)
					add(k*p*10_000_000-1, false)
				}
			}
		}
	}
	return L
}

func secondsLattice() []int64 {
	seen := map[int64]bool{}
	var out []int64
	add := func(v int64) {
		if !seen[v] {
			seen[v] = true
			out = append(out, v)
		}
	}
	for _, v := range enum.Pow2(64) {
		add(int64(v))
		add(-int64(v))
	}
	for _, v := range enum.Around(3, 0, 922337203685, -922337203685, -11644473600, -12219292800, 910692730085, 9223372036, -9223372037, 253402300799, 1<<63-1, -1<<63) {
		add(v)
	}
	for _, v := range enum.Bits2(41) {
		add(int64(v))
		add(-int64(v))
	}
	return out
}

func window(sec *big.Int, nsec int64) string {
	if rt.UnixNanoFits(sec, nsec) {
		return "1677-2262"
	}
	return "outside-1677-2262"
}

func le64(v uint64) []byte { return binary.LittleEndian.AppendUint64(nil, v) }

func mkTime(sec *big.Int, nsec int64, zone int) time.Time {
	t := time.Unix(sec.Int64(), nsec)
	switch zone {
	case 1:
		return t.In(time.FixedZone("plus14", 14*3600))
	case 2:
		return t.In(time.FixedZone("minus12", -12*3600))
	}
	return t.UTC()
}

func showT(t time.Time) string {
	return fmt.Sprintf("time.Unix(%d,%d)=%s", t.Unix(), t.Nanosecond(), t.UTC().Format("2006-01-02T15:04:05.999999999Z"))
}
func showI(sec *big.Int, nsec int64) string {
	y, mo, d, h, mi, s := rt.Civil(sec)
	return fmt.Sprintf("unix(%v,%d)=%d-%02d-%02dT%02d:%02d:%02d.%09dZ", sec, nsec, y, mo, d, h, mi, s, nsec)
}

// okTicks accepts floor, or floor+1 when the instant is not tick aligned.
func okTicks(got *big.Int, floor *big.Int, rem int64) bool {
	if got.Cmp(floor) == 0 {
		return true
	}
	return rem != 0 && got.Cmp(new(big.Int).Add(floor, big.NewInt(1))) == 0
}

var subTick = []int64{0, 1, 50, 99}

// instants enumerates (time, floor ticks, remainder, window, form) for every tick pattern p in [lo,hi] of the lattice
// relative to an epoch; core points also get sub-tick offsets and zones.
func instants(T lattice, epoch int64, inDomain func(p uint64) bool, fn func(t time.Time, floor *big.Int, rem int64, win, form string)) {
	core := map[uint64]bool{}
	for _, p := range T.core {
		core[p] = true
	}
	for _, p := range T.all {
		if !inDomain(p) {
			continue
		}
		sec, nsec := rt.TicksToUnix(rt.BU(p), epoch)
		if !sec.IsInt64() {
			continue
		}
		offs, zones := subTick[:1], 1
		if core[p] {
			offs, zones = subTick, 3
		}
		for _, o := range offs {
			for z := 0; z < zones; z++ {
				t := mkTime(sec, nsec+o, z)
				form := "tick-aligned"
				if o != 0 {
					form = "sub-tick"
				}
				fn(t, rt.BU(p), o, window(sec, nsec+o), form)
			}
		}
	}
}

// ---------------------------------------------------------------- FILETIME

func filetime(c *vf.Ctx, T lattice) {
	for _, p := range T.all {
		p := p
		ft := ds.FILETIME{DwLowDateTime: uint32(p), DwHighDateTime: uint32(p >> 32)}
		in := fmt.Sprintf("FILETIME{Low:0x%08x,High:0x%08x} (ticks %d)", ft.DwLowDateTime, ft.DwHighDateTime, p)
		c.Case([]byte("ft"), le64(p))

		g := ft.ToInt64()
		c.Check("C15/FILETIME/ToInt64/64-bit-value", g == int64(p), func() string { return fmt.Sprintf("%s.ToInt64()=%d want %d", in, g, int64(p)) })

		mb, err := ft.Marshal()
		c.Check("C15/FILETIME/Marshal/little-endian-64-bit", err == nil && bytes.Equal(mb, le64(p)), func() string { return fmt.Sprintf("%s.Marshal()=%x,%v want %x", in, mb, err, le64(p)) })
		var f2 ds.FILETIME
		n, err := f2.Unmarshal(le64(p))
		c.Check("C15/FILETIME/Unmarshal/little-endian-64-bit", err == nil && n == 8 && f2 == ft, func() string { return fmt.Sprintf("Unmarshal(%x)=%+v,%d,%v want %+v", le64(p), f2, n, err, ft) })

		// the instant: signed reading (and unsigned too when the top bit is set)
		type alt struct {
			sec  *big.Int
			nsec int64
		}
		var alts []alt
		s1, n1 := rt.TicksToUnix(rt.B(int64(p)), rt.Epoch1601)
		alts = append(alts, alt{s1, n1})
		cls := window(s1, n1)
		if p > maxI {
			s2, n2 := rt.TicksToUnix(rt.BU(p), rt.Epoch1601)
			alts = append(alts, alt{s2, n2})
			cls = "top-bit-set"
		}
		var gt time.Time
		pn, msg, where := vf.Try(func() { gt = ft.GetTime() })
		okT := false
		for _, a := range alts {
			okT = okT || (!pn && rt.SameInstant(gt, a.sec, a.nsec))
		}
		c.Check("C15/FILETIME/GetTime/exact/"+cls, okT, func() string {
			return fmt.Sprintf("%s.GetTime() = %s want %s (panic=%v %s %s)", in, showT(gt), showI(alts[0].sec, alts[0].nsec), pn, msg, where)
		})
		var gu int64
		pn, msg, _ = vf.Try(func() { gu = ft.GetUnixTimestamp() })
		okU := false
		for _, a := range alts {
			okU = okU || (!pn && a.sec.IsInt64() && gu == a.sec.Int64())
		}
		c.Check("C15/FILETIME/GetUnixTimestamp/exact/"+cls, okU, func() string {
			return fmt.Sprintf("%s.GetUnixTimestamp() = %d want %v (panic=%v %s)", in, gu, alts[0].sec, pn, msg)
		})
		if p <= 2650467743999999999 { // 1601..9999: the documented text form
			want := rt.FormatFT(s1, n1)
			var gs, gs2 string
			vf.Try(func() { gs = ft.GetTimeString(); gs2 = ft.String() })
			c.Check("C15/FILETIME/GetTimeString/utc-text/"+cls, gs == want, func() string { return fmt.Sprintf("%s.GetTimeString() = %q want %q", in, gs, want) })
			c.Check("C15/FILETIME/String/utc-text/"+cls, gs2 == want, func() string { return fmt.Sprintf("%s.String() = %q want %q", in, gs2, want) })
		}
		if p <= maxI && !pn {
			// NewFILETIMEFromTime ∘ GetTime = identity on representable FILETIMEs
			var back *ds.FILETIME
			p2, m2, _ := vf.Try(func() { back = ds.NewFILETIMEFromTime(gt) })
			c.Check("C15/FILETIME/NewFILETIMEFromTime∘GetTime/identity/"+cls, !p2 && back != nil && *back == ft, func() string {
				var b ds.FILETIME
				if back != nil {
					b = *back
				}
				return fmt.Sprintf("NewFILETIMEFromTime(%s.GetTime()) = {Low:0x%08x,High:0x%08x} want the same FILETIME (GetTime gave %s; panic=%v %s)", in, b.DwLowDateTime, b.DwHighDateTime, showT(gt), p2, m2)
			})
		}
	}
	// Go time -> FILETIME for every instant in [1601-01-01, 30828-09-14T02:48:05.4775807]
	instants(T, rt.Epoch1601, func(p uint64) bool { return p <= maxI }, func(t time.Time, floor *big.Int, rem int64, win, form string) {
		c.Case([]byte("ft.new"), []byte(t.String()))
		var ft *ds.FILETIME
		pn, msg, where := vf.Try(func() { ft = ds.NewFILETIMEFromTime(t) })
		var got *big.Int
		if !pn && ft != nil {
			got = rt.BU(uint64(ft.DwHighDateTime)<<32 | uint64(ft.DwLowDateTime))
		} else {
			got = big.NewInt(-1)
		}
		c.Check("C15/FILETIME/NewFILETIMEFromTime/exact/"+win+"/"+form, okTicks(got, floor, rem), func() string {
			return fmt.Sprintf("NewFILETIMEFromTime(%s [%s]) = ticks %v want %v (panic=%v %s %s)", showT(t), t.Location(), got, floor, pn, msg, where)
		})
		if rem == 0 && !pn && ft != nil {
			var gt time.Time
			p2, _, _ := vf.Try(func() { gt = ft.GetTime() })
			c.Check("C15/FILETIME/GetTime∘NewFILETIMEFromTime/identity/"+win, !p2 && gt.Equal(t), func() string {
				return fmt.Sprintf("NewFILETIMEFromTime(%s).GetTime() = %s", showT(t), showT(gt))
			})
		}
	})
	c.Sample("filetime", map[string]any{"ticks": "9223372036854775807", "want": "30828-09-14T02:48:05.4775807Z"})
	c.Sample("filetime", map[string]any{"time": "1650-01-01T00:00:00Z", "want_ticks": "15463008000000000"})
}

// ---------------------------------------------------------------- network/ldap/utils.go

func ldapConv(c *vf.Ctx, T lattice) {
	ten7 := big.NewInt(10_000_000)
	for _, p := range T.all {
		v := int64(p)
		s := strconv.FormatInt(v, 10)
		c.Case([]byte("ldap.ts"), []byte(s))
		// timestamp -> unix seconds
		sec, _ := rt.TicksToUnix(rt.B(v), rt.Epoch1601)
		var got int64
		pn, msg, where := vf.Try(func() { got = ldap.ConvertLDAPTimeStampToUnixTimeStamp(s) })
		cls := "1970-2262"
		ok := !pn && sec.IsInt64() && got == sec.Int64()
		switch {
		case v < int64(e1970):
			cls = "before-1970"
			ok = ok || (!pn && got == 0)
		case uint64(v) > e1970+nsLim:
			cls = "after-2262"
		}
		c.Check("C15/ldap/ConvertLDAPTimeStampToUnixTimeStamp/exact/"+cls, ok, func() string {
			w := fmt.Sprintf("ConvertLDAPTimeStampToUnixTimeStamp(%q) = %d want %v", s, got, sec)
			if cls == "before-1970" {
				w += " (or 0)"
			}
			if pn {
				w += fmt.Sprintf(" PANIC %s %s", msg, where)
			}
			return w
		})
		if v >= int64(e1970) && !pn {
			// back: seconds -> ticks must give the whole second below v
			back := ldap.ConvertUnixTimeStampToLDAPTimeStamp(time.Unix(got, 0))
			wantBack := new(big.Int).Sub(rt.B(v), new(big.Int).Mod(rt.B(v), ten7))
			c.Check("C15/ldap/ConvertUnixTimeStampToLDAPTimeStamp∘ConvertLDAPTimeStampToUnixTimeStamp/whole-second-below/"+cls, rt.B(back).Cmp(wantBack) == 0, func() string {
				return fmt.Sprintf("ConvertUnixTimeStampToLDAPTimeStamp(time.Unix(ConvertLDAPTimeStampToUnixTimeStamp(%q)=%d,0)) = %d want %v", s, got, back, wantBack)
			})
		}
		// duration -> seconds: magnitude / 1e7
		mag := new(big.Int).Abs(rt.B(v))
		wantD := new(big.Int).Quo(mag, ten7)
		var gd int64
		pn, msg, where = vf.Try(func() { gd = ldap.ConvertLDAPDurationToSeconds(s) })
		dcls := "non-negative"
		if v < 0 {
			dcls = "negative"
		}
		if v == -1<<63 {
			dcls = "min-int64"
		}
		c.Check("C15/ldap/ConvertLDAPDurationToSeconds/magnitude-in-seconds/"+dcls, !pn && rt.B(gd).Cmp(wantD) == 0, func() string {
			return fmt.Sprintf("ConvertLDAPDurationToSeconds(%q) = %d want %v (panic=%v %s %s)", s, gd, wantD, pn, msg, where)
		})
		if !pn && gd >= 0 && gd <= 922337203685 {
			sd := ldap.ConvertSecondsToLDAPDuration(gd)
			wantS := new(big.Int).Mul(wantD, ten7).String()
			c.Check("C15/ldap/ConvertSecondsToLDAPDuration∘ConvertLDAPDurationToSeconds/whole-seconds-of-magnitude", sd == wantS, func() string {
				return fmt.Sprintf("ConvertSecondsToLDAPDuration(ConvertLDAPDurationToSeconds(%q)=%d) = %q want %q", s, gd, sd, wantS)
			})
		}
	}
	var e int64 = -1
	vf.Try(func() { e = ldap.ConvertLDAPTimeStampToUnixTimeStamp("") })
	c.Check("C15/ldap/ConvertLDAPTimeStampToUnixTimeStamp/empty-string-is-zero", e == 0, func() string {
		return fmt.Sprintf(`ConvertLDAPTimeStampToUnixTimeStamp("") = %d want 0 (documented)`, e)
	})
	e = -1
	vf.Try(func() { e = ldap.ConvertLDAPDurationToSeconds("") })
	c.Check("C15/ldap/ConvertLDAPDurationToSeconds/empty-string-is-zero", e == 0, func() string { return fmt.Sprintf(`ConvertLDAPDurationToSeconds("") = %d want 0 (documented)`, e) })

	// seconds -> duration string
	for _, sv := range secondsLattice() {
		sv := sv
		prod := new(big.Int).Mul(rt.B(sv), ten7)
		if !prod.IsInt64() {
			continue // result not representable as a 64-bit LDAP interval: the property is silent
		}
		c.Case([]byte("ldap.s2d"), []byte(strconv.FormatInt(sv, 10)))
		var gs string
		pn, msg, _ := vf.Try(func() { gs = ldap.ConvertSecondsToLDAPDuration(sv) })
		c.Check("C15/ldap/ConvertSecondsToLDAPDuration/exact", !pn && gs == prod.String(), func() string {
			return fmt.Sprintf("ConvertSecondsToLDAPDuration(%d) = %q want %q (panic=%v %s)", sv, gs, prod.String(), pn, msg)
		})
		if !pn {
			var back int64
			vf.Try(func() { back = ldap.ConvertLDAPDurationToSeconds(gs) })
			wantAbs := new(big.Int).Abs(rt.B(sv))
			c.Check("C15/ldap/ConvertLDAPDurationToSeconds∘ConvertSecondsToLDAPDuration/magnitude", rt.B(back).Cmp(wantAbs) == 0, func() string {
				return fmt.Sprintf("ConvertLDAPDurationToSeconds(ConvertSecondsToLDAPDuration(%d)=%q) = %d want %v", sv, gs, back, wantAbs)
			})
		}
	}
	// Go time -> LDAP timestamp over [1601, 30828]
	instants(T, rt.Epoch1601, func(p uint64) bool { return p <= maxI }, func(t time.Time, floor *big.Int, rem int64, win, form string) {
		c.Case([]byte("ldap.t2ts"), []byte(t.String()))
		var got int64
		pn, msg, where := vf.Try(func() { got = ldap.ConvertUnixTimeStampToLDAPTimeStamp(t) })
		whole := new(big.Int).Sub(floor, new(big.Int).Mod(floor, ten7))
		cls := "whole-second"
		ok := !pn && rt.B(got).Cmp(whole) == 0
		if whole.Cmp(floor) != 0 || rem != 0 {
			cls = "with-sub-second-part"
			ok = ok || (!pn && okTicks(rt.B(got), floor, rem))
		}
		c.Check("C15/ldap/ConvertUnixTimeStampToLDAPTimeStamp/exact/"+win+"/"+cls, ok, func() string {
			return fmt.Sprintf("ConvertUnixTimeStampToLDAPTimeStamp(%s) = %d want %v (whole second) or %v (panic=%v %s %s)", showT(t), got, whole, floor, pn, msg, where)
		})
		if !pn && t.Unix() >= 0 {
			var back int64
			s := strconv.FormatInt(got, 10)
			vf.Try(func() { back = ldap.ConvertLDAPTimeStampToUnixTimeStamp(s) })
			c.Check("C15/ldap/ConvertLDAPTimeStampToUnixTimeStamp∘ConvertUnixTimeStampToLDAPTimeStamp/unix-seconds/"+win, back == t.Unix(), func() string {
				return fmt.Sprintf("ConvertLDAPTimeStampToUnixTimeStamp(fmt(ConvertUnixTimeStampToLDAPTimeStamp(%s))=%q) = %d want %d", showT(t), s, back, t.Unix())
			})
		}
	})
	c.Sample("ldap", map[string]any{"timestamp": "9223372036854775807", "want_unix": 910692730085})
	c.Sample("ldap", map[string]any{"duration": "-9223372036854775808", "want_seconds": 922337203685})
}

// ---------------------------------------------------------------- keycredential utils

func keycred(c *vf.Ctx, T lattice) {
	versions := []uint32{key.KeyCredentialVersion_0, key.KeyCredentialVersion_1, key.KeyCredentialVersion_2, 0x300}
	for _, p := range T.all {
		if p == 0 {
			continue // NewDateTime(0) = now
		}
		p := p
		c.Case([]byte("kc.dt"), le64(p))
		sec, nsec := rt.TicksToUnix(rt.BU(p), rt.Epoch1601)
		win := window(sec, nsec)
		var dt kcutils.DateTime
		pn, msg, where := vf.Try(func() { dt = kcutils.NewDateTime(p) })
		c.Check("C15/keycredential/NewDateTime/Ticks-kept", !pn && dt.Ticks == p && dt.ToTicks() == p, func() string {
			return fmt.Sprintf("NewDateTime(%d).Ticks=%d ToTicks()=%d (panic=%v %s)", p, dt.Ticks, dt.ToTicks(), pn, msg)
		})
		c.Check("C15/keycredential/NewDateTime/Time-exact/"+win, !pn && rt.SameInstant(dt.Time, sec, nsec), func() string {
			return fmt.Sprintf("NewDateTime(%d).Time = %s want %s (panic=%v %s %s)", p, showT(dt.Time), showI(sec, nsec), pn, msg, where)
		})
		if !pn {
			ut := dt.ToUniversalTime()
			c.Check("C15/keycredential/DateTime.ToUniversalTime/same-instant-in-UTC", ut.Equal(dt.Time) && ut.Location() == time.UTC, func() string {
				return fmt.Sprintf("NewDateTime(%d).ToUniversalTime() = %s [%s], Time = %s", p, showT(ut), ut.Location(), showT(dt.Time))
			})
			b := dt.ToBytes()
			c.Check("C15/keycredential/DateTime.ToBytes/little-endian-ticks", bytes.Equal(b, le64(p)), func() string { return fmt.Sprintf("NewDateTime(%d).ToBytes()=%x want %x", p, b, le64(p)) })
			// two encodings held at the same time (a credential serialises several timestamps): the first must survive the second
			b2 := kcutils.NewDateTime(p ^ 0x5555).ToBytes()
			c.Check("C15/keycredential/DateTime.ToBytes/history/earlier-result-unchanged-by-later-call", bytes.Equal(b, le64(p)) && bytes.Equal(b2, le64(p^0x5555)), func() string {
				return fmt.Sprintf("b1 := NewDateTime(%d).ToBytes(); b2 := NewDateTime(%d).ToBytes(); now b1=%x b2=%x", p, p^0x5555, b, b2)
			})
		}
		for _, v := range versions {
			for _, src := range []key.KeySource{key.KeySource_AD, key.KeySource_AzureAD} {
				if src != key.KeySource_AD && v >= key.KeyCredentialVersion_2 {
					// "not fully supported" by the library's own comment: what a given bit pattern MEANS there is
					// left open, but the pair of conversions must still be mutually inverse (the property): decode,
					// encode with the same source/version, get the same 8 bytes back
					var back []byte
					pn, msg, where := vf.Try(func() {
						d := kcutils.ConvertFromBinaryTime(le64(p), src, key.KeyCredentialVersion{Value: v})
						back = d.ToBytes()
					})
					c.Check("C15/keycredential/ConvertFromBinaryTime/non-AD-source-v2+/decode-then-ToBytes-reproduces-the-8-bytes", !pn && bytes.Equal(back, le64(p)), func() string {
						return fmt.Sprintf("ConvertFromBinaryTime(%x, source=%d, version=0x%x).ToBytes() = %x (panic=%v %s %s)", le64(p), src, v, back, pn, msg, where)
					})
					continue
				}
				var d2 kcutils.DateTime
				pn, msg, where := vf.Try(func() {
					d2 = kcutils.ConvertFromBinaryTime(le64(p), src, key.KeyCredentialVersion{Value: v})
				})
				c.Check("C15/keycredential/ConvertFromBinaryTime/Ticks-kept", !pn && d2.Ticks == p, func() string {
					return fmt.Sprintf("ConvertFromBinaryTime(%x, source=%d, version=0x%x).Ticks=%d want %d (panic=%v %s)", le64(p), src, v, d2.Ticks, p, pn, msg)
				})
				c.Check("C15/keycredential/ConvertFromBinaryTime/Time-exact/"+win, !pn && rt.SameInstant(d2.Time, sec, nsec), func() string {
					return fmt.Sprintf("ConvertFromBinaryTime(%x, source=%d, version=0x%x).Time = %s want %s (panic=%v %s %s)", le64(p), src, v, showT(d2.Time), showI(sec, nsec), pn, msg, where)
				})
			}
		}
	}
	// Go time -> binary key-credential time (ticks since 1601, little endian), whole unsigned range
	instants(T, rt.Epoch1601, func(p uint64) bool { return p != ^uint64(0) }, func(t time.Time, floor *big.Int, rem int64, win, form string) {
		// (tick 0 - 1601-01-01 itself and the 99 ns after it - is an instant like any other in this direction: eight zero
		// bytes; only the way back is excluded below, because a zero tick count means "now" to NewDateTime)
		c.Case([]byte("kc.t2b"), []byte(t.String()))
		for _, v := range versions {
			src := key.KeySource_AD
			var b []byte
			pn, msg, where := vf.Try(func() { b = kcutils.ConvertToBinaryTime(t, src, key.KeyCredentialVersion{Value: v}) })
			got := big.NewInt(-1)
			if !pn && len(b) == 8 {
				got = rt.BU(binary.LittleEndian.Uint64(b))
			}
			c.Check("C15/keycredential/ConvertToBinaryTime/little-endian-ticks-since-1601/"+win+"/"+form, okTicks(got, floor, rem), func() string {
				return fmt.Sprintf("ConvertToBinaryTime(%s, source=AD, version=0x%x) = %x (= %v) want ticks %v = %x (panic=%v %s %s)", showT(t), v, b, got, floor, le64(floor.Uint64()), pn, msg, where)
			})
			if rem == 0 && !pn && len(b) == 8 && binary.LittleEndian.Uint64(b) != 0 {
				var d kcutils.DateTime
				p2, _, _ := vf.Try(func() { d = kcutils.ConvertFromBinaryTime(b, src, key.KeyCredentialVersion{Value: v}) })
				c.Check("C15/keycredential/ConvertFromBinaryTime∘ConvertToBinaryTime/identity/"+win, !p2 && d.Time.Equal(t), func() string {
					return fmt.Sprintf("ConvertFromBinaryTime(ConvertToBinaryTime(%s)=%x, AD, 0x%x).Time = %s", showT(t), b, v, showT(d.Time))
				})
			}
		}
	})
	c.Sample("keycredential", map[string]any{"ticks": "1", "want": "1601-01-01T00:00:00.0000001Z"})
}

// ---------------------------------------------------------------- UUID v1 / v2 timestamps

func uuids(c *vf.Ctx, T lattice) {
	type impl struct {
		name string
		get  func(ticks uint64) time.Time
		set  func(t time.Time) uint64
	}
	impls := []impl{
		{"uuid_v1", func(x uint64) time.Time { u := uuid_v1.UUIDv1{}; u.Time = x; return u.GetTime() },
			func(t time.Time) uint64 { u := uuid_v1.UUIDv1{}; u.SetTime(t); return u.Time }},
		{"uuid_v2", func(x uint64) time.Time { u := uuid_v2.UUIDv2{}; u.Time = x; return u.GetTime() },
			func(t time.Time) uint64 { u := uuid_v2.UUIDv2{}; u.SetTime(t); return u.Time }},
	}
	in60 := func(p uint64) bool { return p < 1<<60 }
	for _, im := range impls {
		im := im
		for _, p := range T.all {
			if !in60(p) {
				continue
			}
			p := p
			c.Case([]byte(im.name+".get"), le64(p))
			sec, nsec := rt.TicksToUnix(rt.BU(p), rt.Epoch1582)
			win := window(sec, nsec)
			var gt time.Time
			pn, msg, where := vf.Try(func() { gt = im.get(p) })
			c.Check("C15/"+im.name+"/GetTime/exact/"+win, !pn && rt.SameInstant(gt, sec, nsec), func() string {
				return fmt.Sprintf("%s{Time:%d}.GetTime() = %s want %s (panic=%v %s %s)", im.name, p, showT(gt), showI(sec, nsec), pn, msg, where)
			})
			if !pn {
				var back uint64
				p2, _, _ := vf.Try(func() { back = im.set(gt) })
				c.Check("C15/"+im.name+"/SetTime∘GetTime/identity/"+win, !p2 && back == p, func() string {
					return fmt.Sprintf("%s: SetTime(GetTime() of Time=%d = %s) stores Time=%d", im.name, p, showT(gt), back)
				})
			}
		}
		instants(T, rt.Epoch1582, in60, func(t time.Time, floor *big.Int, rem int64, win, form string) {
			c.Case([]byte(im.name+".set"), []byte(t.String()))
			var got uint64
			pn, msg, where := vf.Try(func() { got = im.set(t) })
			c.Check("C15/"+im.name+"/SetTime/exact/"+win+"/"+form, !pn && okTicks(rt.BU(got), floor, rem), func() string {
				return fmt.Sprintf("%s.SetTime(%s) stores Time=%d want %v (panic=%v %s %s)", im.name, showT(t), got, floor, pn, msg, where)
			})
			if rem == 0 && !pn {
				var gt time.Time
				p2, _, _ := vf.Try(func() { gt = im.get(got) })
				c.Check("C15/"+im.name+"/GetTime∘SetTime/identity/"+win, !p2 && gt.Equal(t), func() string {
					return fmt.Sprintf("%s: GetTime() after SetTime(%s) = %s", im.name, showT(t), showT(gt))
				})
			}
		})
	}
	// version-1 UUIDs keep all 60 bits through their 16-byte form: GetTime after Marshal/FromBytes
	for _, p := range T.all {
		if !in60(p) {
			continue
		}
		p := p
		sec, nsec := rt.TicksToUnix(rt.BU(p), rt.Epoch1582)
		var gt time.Time
		var err error
		pn, msg, _ := vf.Try(func() {
			u := uuid_v1.UUIDv1{}
			u.Time = p
			var b []byte
			b, err = u.Marshal()
			if err != nil {
				return
			}
			w := uuid_v1.UUIDv1{}
			if err = w.FromBytes(b); err != nil {
				return
			}
			gt = w.GetTime()
		})
		c.Check("C15/uuid_v1/GetTime∘FromBytes∘Marshal/exact/"+window(sec, nsec), !pn && err == nil && rt.SameInstant(gt, sec, nsec), func() string {
			return fmt.Sprintf("UUIDv1{Time:%d} -> Marshal -> FromBytes -> GetTime() = %s want %s (err=%v panic=%v %s)", p, showT(gt), showI(sec, nsec), err, pn, msg)
		})
	}
	// one generator value re-used (a version-1 generator advances its timestamp and hands out the 16-byte
	// forms): every identifier handed out earlier must still carry ITS time after all later SetTime/Marshal calls
	{
		var ps []uint64
		for _, p := range T.all {
			if in60(p) {
				ps = append(ps, p)
			}
		}
		if len(ps) > 24 {
			ps = append(append([]uint64{}, ps[:12]...), ps[len(ps)-12:]...)
		}
		type gen struct {
			name    string
			marshal func(p uint64) ([]byte, error)
			read    func(b []byte) (time.Time, error)
		}
		g1, g2 := &uuid_v1.UUIDv1{}, &uuid_v2.UUIDv2{}
		gens := []gen{
			{"uuid_v1", func(p uint64) ([]byte, error) { g1.Time = p; return g1.Marshal() },
				func(b []byte) (time.Time, error) { w := uuid_v1.UUIDv1{}; err := w.FromBytes(b); return w.GetTime(), err }},
			{"uuid_v2", func(p uint64) ([]byte, error) { g2.Time = p; return g2.Marshal() },
				func(b []byte) (time.Time, error) { w := uuid_v2.UUIDv2{}; err := w.FromBytes(b); return w.GetTime(), err }},
		}
		for _, g := range gens {
			g := g
			mask := uint64(1<<60 - 1)
			if g.name == "uuid_v2" {
				mask &^= 1<<32 - 1 // version 2 replaces time_low by the local identifier
			}
			var held [][]byte
			var times []uint64
			pn, msg, where := vf.Try(func() {
				for _, p := range ps {
					b, err := g.marshal(p)
					if err != nil {
						continue
					}
					held = append(held, b)
					times = append(times, p)
				}
			})
			for i, b := range held {
				p := times[i] & mask
				sec, nsec := rt.TicksToUnix(rt.BU(p), rt.Epoch1582)
				var gt time.Time
				var err error
				p2, _, _ := vf.Try(func() { gt, err = g.read(b) })
				c.Evals(1)
				c.Check("C15/"+g.name+"/identifier-handed-out-earlier-keeps-its-time-after-later-Marshal-calls", !pn && !p2 && err == nil && rt.SameInstant(gt, sec, nsec), func() string {
					return fmt.Sprintf("one %s value: Time set and Marshal called %d times; the identifier returned by call %d (Time=%d) now reads %x and its GetTime() = %s, want %s (err=%v panic=%v %s %s)", g.name, len(held), i+1, times[i], b, showT(gt), showI(sec, nsec), err, pn || p2, msg, where)
				})
			}
		}
	}
	// SetTime on a value that already carries a time (set before, or decoded): the new instant replaces it whatever
	// the order of the two - later, equal, earlier. All ordered pairs of a small set of instants.
	{
		var ps []uint64
		for _, p := range T.all {
			if in60(p) && p != 0 {
				ps = append(ps, p)
			}
		}
		if len(ps) > 10 {
			ps = append(append([]uint64{}, ps[:5]...), ps[len(ps)-5:]...)
		}
		ps = append(ps, 0x01B21DD213814000, 0x01B21DD213814001) // 1970-01-01 and one tick later
		type tv struct {
			name  string
			fresh func(t time.Time) uint64
			twice func(first uint64, decoded bool, t time.Time) uint64
		}
		tvs := []tv{
			{"uuid_v1", func(t time.Time) uint64 { u := uuid_v1.UUIDv1{}; u.SetTime(t); return u.Time },
				func(first uint64, decoded bool, t time.Time) uint64 {
					u := uuid_v1.UUIDv1{}
					if decoded {
						src := uuid_v1.UUIDv1{}
						src.Time = first
						b, _ := src.Marshal()
						u.FromBytes(b)
					} else {
						src := uuid_v1.UUIDv1{}
						src.Time = first
						u.SetTime(src.GetTime())
					}
					u.SetTime(t)
					return u.Time
				}},
			{"uuid_v2", func(t time.Time) uint64 { u := uuid_v2.UUIDv2{}; u.SetTime(t); return u.Time },
				func(first uint64, decoded bool, t time.Time) uint64 {
					u := uuid_v2.UUIDv2{}
					if decoded {
						src := uuid_v2.UUIDv2{}
						src.Time = first
						b, _ := src.Marshal()
						u.FromBytes(b)
					} else {
						src := uuid_v2.UUIDv2{}
						src.Time = first
						u.SetTime(src.GetTime())
					}
					u.SetTime(t)
					return u.Time
				}},
		}
		// ... and the other way round: a value that carries a time (set) DECODES another identifier to the time a fresh
		// value decodes it to
		for _, first := range ps {
			for _, second := range ps {
				for ver := 1; ver <= 2; ver++ {
					var got, want uint64
					var err error
					pn, msg, where := vf.Try(func() {
						if ver == 1 {
							src := uuid_v1.UUIDv1{Time: second}
							raw, _ := src.Marshal()
							f := uuid_v1.UUIDv1{}
							f.FromBytes(append([]byte{}, raw...))
							want = f.Time
							u := uuid_v1.UUIDv1{}
							u.SetTime((&uuid_v1.UUIDv1{Time: first}).GetTime())
							err = u.FromBytes(append([]byte{}, raw...))
							got = u.Time
						} else {
							src := uuid_v2.UUIDv2{Time: second}
							raw, _ := src.Marshal()
							f := uuid_v2.UUIDv2{}
							f.FromBytes(append([]byte{}, raw...))
							want = f.Time
							u := uuid_v2.UUIDv2{}
							u.SetTime((&uuid_v2.UUIDv2{Time: first}).GetTime())
							err = u.FromBytes(append([]byte{}, raw...))
							got = u.Time
						}
					})
					c.Evals(1)
					c.Case([]byte("uuid.decode-into-used"), []byte(fmt.Sprint(ver, first, second)))
					c.Check(fmt.Sprintf("C15/uuid_v%d/history/a-value-that-carried-a-time-decodes-like-a-fresh-value", ver), !pn && err == nil && got == want, func() string {
						return fmt.Sprintf("uuid_v%d carrying Time=%d (set), then FromBytes(identifier with Time=%d): Time=%d; a fresh value decodes Time=%d (err=%v panic=%v %s %s)", ver, first, second, got, want, err, pn, msg, where)
					})
				}
			}
		}
		for _, v := range tvs {
			for _, first := range ps {
				for _, second := range ps {
					for _, decoded := range []bool{false, true} {
						var want, got uint64
						var when time.Time
						pn, msg, where := vf.Try(func() {
							src := uuid_v1.UUIDv1{}
							src.Time = second
							when = src.GetTime()
							want = v.fresh(when)
							got = v.twice(first, decoded, when)
						})
						c.Evals(1)
						c.Case([]byte("uuid.settime2"), []byte(fmt.Sprint(v.name, first, second, decoded)))
						c.Check("C15/"+v.name+"/history/SetTime-on-a-value-that-carried-another-time-stores-what-a-fresh-value-stores", !pn && got == want, func() string {
							return fmt.Sprintf("%s carrying Time=%d (%s), then SetTime(%s): Time=%d; a fresh value stores %d (panic=%v %s %s)", v.name, first, map[bool]string{false: "set", true: "decoded"}[decoded], showT(when), got, want, pn, msg, where)
						})
					}
				}
			}
		}
	}
	c.Sample("uuid", map[string]any{"time_field": "1152921504606846975", "want": "5236-03-31T21:21:00.6846975Z"})
}
