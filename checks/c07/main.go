// C07 — every decoder is total: any input yields a value or an error; no panic, no
// non-termination, no allocation out of proportion to the input.
//
// E5 (crash-isolating workers) + deviation-bounded systematic enumeration (gen.go) over a
// registry of every decoding entry point named in the property's anchors (registry*.go).
//
// The parent process (vf.Main) owns obligations and evidence. Decoders only ever run inside
// worker subprocesses (this binary re-executed with -c07worker), one entry point ("unit") at a
// time, which report per-batch deltas over fd 3. A worker that dies or stops reporting is
// replaced; the batch it was in is re-run case by case in a fresh worker, and only an input that
// kills / hangs a fresh worker 3 times out of 3 becomes a failing obligation.
package main

import (
	"fmt"
	"os"
	"sort"
	"strings"
	"time"

	"verif/checks/smbhist"
	"verif/vf"
)

func main() {
	if len(os.Args) > 2 && os.Args[1] == "-c07worker" {
		workerMain(os.Args[2] == "thorough")
		return
	}
	if len(os.Args) > 1 && os.Args[1] == "-c07seeds" {
		// developer aid: how does every seed fare on the real decoder?
		for _, ep := range buildRegistry(len(os.Args) > 2 && os.Args[2] == "thorough") {
			if ep.Name == selfTestName {
				continue
			}
			for i, s := range ep.Seeds {
				o := call(ep, s)
				out := "value"
				if o.panicked {
					out = "PANIC " + o.where
				} else if o.err != nil {
					out = "error: " + o.err.Error()
				}
				fmt.Printf("%s seed#%d len=%d %s\n", ep.Name, i, len(s), out)
			}
		}
		return
	}
	vf.Main("C07", "fault_enumeration", run)
}

const (
	allocBase    = 1 << 20 // 1 MiB
	allocPerByte = 256
)

func allocBound(inLen int) uint64 { return uint64(allocBase + allocPerByte*inLen) }

func run(c *vf.Ctx) {
	c.Rule("registry of decoding entry points (checks/c07/registry*.go); per entry point: seeds = valid encodings made by the library's own encoders (hand-built where no encoder exists; SMB structures: zero instance plus reflect-filled instances with every count/length/buffer = n, n in {2,3,5}, thorough {1,2,3,4,5,8}); " +
		"0 deviations = seeds; 1 = every truncation, every position x {00,01,7F,80,FE,FF,orig+1,orig-1} then x all 256 values (quick: seeds <= 160 bytes), 11 appended suffixes, every prefix with last byte FF/00; " +
		"2 = every adjacent 2-byte window x 8 16-bit extremes (both byte orders), every adjacent 4-byte window x 8 32-bit extremes; every pair of positions x {00,FF}^2 (quick: seeds <= 160 bytes; thorough: seeds <= 400 bytes x {00,FF,80}^2), thorough: every truncation x every position x {00,03,05,FF}; " +
		"small scope: all byte strings <=2 and all strings <=3 (thorough 4) over a 16-symbol alphabet for binary decoders (SMB commands: appended to a valid header for that command), " +
		"all strings <=n over each text parser's own delimiter alphabet. A case = (entry point, input byte string); inputs are de-duplicated per entry point, " +
		"so every counted case is a distinct byte string handed to the real decoder; distinct_nontrivial counts exactly those (measured in the workers, de-dup by 64-bit hash)")
	c.Assume("Go runtime panics/recover, runtime.MemStats.TotalAlloc and the stdlib (encoding/asn1, regexp, strconv, crypto/aes) are correct; decoders are deterministic (re-running an input reproduces its behaviour)")
	c.Assume("allocation bound 1 MiB + 256*len(input) per call; measured per batch and bisected to single inputs (min of 3 runs) on excess")
	c.Assume("termination: no wall-clock oracle; only an input that kills (fatal error) or hangs (>20 s) a fresh worker process 3 times out of 3 fails")

	reg := buildRegistry(c.Thorough())
	if len(reg) == 0 {
		c.Fatalf("empty registry")
	}
	for _, n := range regNotes {
		c.Cap(n)
	}
	names := map[string]bool{}
	for _, ep := range reg {
		if names[ep.Name] {
			c.Fatalf("duplicate entry point %s", ep.Name)
		}
		names[ep.Name] = true
	}

	// E5 self-test, BEFORE the real run (it has short watchdog limits of its own: run next to a code under test
	// that hangs in thousands of cases it mistook its own stack-overflow probe for a hang and ended the check with
	// a harness error instead of the violations found)
	selfErr := make(chan error, 1)
	selfErr <- selfTest(c, reg)

	agg := newAggregate()
	// distinct cases are counted (de-duplicated by hash) inside the workers, per entry point; vf only
	// counts through Distinct(), so one token (unit index, ordinal) is registered per counted case,
	// concurrently with the run
	distinctDone := make(chan struct{})
	go func() {
		for uc := range agg.distinctCh {
			var b [12]byte
			u := uc[0]
			b[8], b[9], b[10], b[11] = byte(u), byte(u>>8), byte(u>>16), byte(u>>24)
			for i := int64(0); i < uc[1]; i++ {
				b[0], b[1], b[2], b[3], b[4], b[5], b[6], b[7] = byte(i), byte(i>>8), byte(i>>16), byte(i>>24), byte(i>>32), byte(i>>40), byte(i>>48), byte(i>>56)
				c.Distinct(b[:])
			}
		}
		close(distinctDone)
	}()
	p := newPool(c, reg, agg)
	p.runAll()
	close(agg.distinctCh)
	// decoders fed WELL-FORMED input through a receiver that was used before (histories of depth 3 on one object)
	smbhist.All(c, "C07/history", 3)
	if err := <-selfErr; err != nil {
		c.Fatalf("E5 self-test failed (worker/triage machinery does not detect a known failure): %v", err)
	}
	if os.Getenv("C07_VERBOSE") != "" {
		fmt.Printf("C07: workers finished after %.1fs\n", time.Since(p.start).Seconds())
		p.printSlowest(12)
	}

	// ---- fold the aggregate into obligations
	attrNames := make([]string, 0, len(agg.evals))
	for n := range agg.evals {
		attrNames = append(attrNames, n)
	}
	sort.Strings(attrNames)
	perEP := map[string]int64{}
	var total int64
	for _, n := range attrNames {
		ev := agg.evals[n]
		perEP[n] = ev
		total += ev
		var npanic, nalloc int64
		for _, pr := range agg.panics[n] {
			npanic += pr.Count
		}
		nalloc = int64(len(agg.allocs[n]))
		c.Pass("C07/"+n+"/returns-without-panic", ev-npanic)
		c.Pass("C07/"+n+"/alloc-bounded", ev-nalloc)
		c.Pass("C07/"+n+"/terminates", ev)
	}
	for n, sites := range agg.panics {
		for where, pr := range sites {
			key := "C07/" + n + "/panic@" + where
			w := fmt.Sprintf("%s on input %s (%d bytes, generator %s) panics: %s  [%d of the enumerated inputs panic at this site]", n, hexq(pr.In), len(pr.In), pr.Gen, pr.Msg, pr.Count)
			for i := int64(0); i < pr.Count; i++ {
				c.Check(key, false, func() string { return w })
			}
		}
	}
	for n, list := range agg.allocs {
		for _, a := range list {
			a := a
			c.Check("C07/"+n+"/alloc-bounded", false, func() string {
				return fmt.Sprintf("%s on input %s (%d bytes) allocates %d bytes during the call (min of 3 runs); bound 1 MiB + 256*len = %d", n, hexq(a.In), len(a.In), a.Bytes, allocBound(len(a.In)))
			})
		}
	}
	for n, list := range agg.fatals {
		for _, f := range list {
			f := f
			c.Check("C07/"+n+"/"+f.Kind, false, func() string {
				return fmt.Sprintf("%s on input %s (%d bytes): %s in 3 of 3 fresh worker processes: %s", n, hexq(f.In), len(f.In), f.Kind, f.Detail)
			})
		}
	}
	c.Evals(total)
	<-distinctDone
	sites := map[string]bool{}
	for _, m := range agg.panics {
		for w := range m {
			sites[w] = true
		}
	}
	siteList := make([]string, 0, len(sites))
	for s := range sites {
		siteList = append(siteList, s)
	}
	sort.Strings(siteList)
	c.Set("e5_selftest", "panic, over-allocation, stack overflow and hang of the synthetic entry point c07.selftest were each detected and pinned to their input")
	c.Set("entry_points_registered", len(reg)-1)
	c.Set("entry_points_observed", len(attrNames))
	c.Set("evaluations_per_entry_point", perEP)
	c.Set("distinct_panic_sites", len(siteList))
	c.Set("panic_sites", siteList)
	c.Set("returned_value", agg.okTotal)
	c.Set("returned_error", agg.errTotal)
	c.Set("worker_restarts", agg.restarts)
	c.Set("transient_worker_deaths", agg.transient)
	var rejected []string
	for _, ep := range reg {
		if len(ep.Seeds) > 0 && agg.seedOK[ep.Name] == 0 {
			rejected = append(rejected, ep.Name)
		}
	}
	sort.Strings(rejected)
	c.Set("entry_points_whose_every_seed_is_rejected_or_panics", rejected)
	gens := map[string]int64{}
	for g, n := range agg.gens {
		gens[g] = n
	}
	c.Set("evaluations_per_generator", gens)
	for _, s := range agg.samples {
		c.Sample(s.Gen, map[string]any{"entry_point": s.Name, "input_hex": hexq(s.In), "outcome": s.Out})
	}
	fmt.Printf("C07: %d entry points registered, %d observed (incl. per-command attribution), %d evaluations, %d distinct panic sites, %.1fs\n",
		len(reg)-1, len(attrNames), total, len(siteList), time.Since(p.start).Seconds())
	if os.Getenv("C07_VERBOSE") != "" {
		for _, s := range siteList {
			fmt.Println("  site:", s)
		}
		fmt.Println("  rejected seeds:", strings.Join(rejected, ", "))
	}
}

func hexq(b []byte) string {
	if len(b) == 0 {
		return "(empty)"
	}
	if len(b) <= 1500 { // whole input, so that a witness can be replayed by hand
		return vf.Hex(b)
	}
	return vf.HexS(b)
}
