package main

// Deviation-bounded systematic enumeration of decoder inputs (DESIGN C07).
// Everything here is deterministic: the same (entry point, tier) always yields the same
// sequence of cases, so a worker can be restarted at case index N.

import (
	"bytes"
	"hash/maphash"
	"strings"
)

// value sets (DESIGN C07)
var (
	byteVals = []byte{0x00, 0x01, 0x7F, 0x80, 0xFE, 0xFF} // + orig+1, orig-1
	// 16-bit extremes in both byte orders
	win2 = [][]byte{{0x00, 0x00}, {0x7F, 0xFF}, {0xFF, 0x7F}, {0x80, 0x00}, {0x00, 0x80}, {0xFF, 0xFE}, {0xFE, 0xFF}, {0xFF, 0xFF}}
	// 32-bit extremes in both byte orders
	win4 = [][]byte{{0xFF, 0xFF, 0xFF, 0xFF}, {0x80, 0, 0, 0}, {0, 0, 0, 0x80}, {0x7F, 0xFF, 0xFF, 0xFF}, {0xFF, 0xFF, 0xFF, 0x7F}, {0, 0, 0, 0},
		{0xFF, 0xFF, 0xFF, 0xFE}, {0xFE, 0xFF, 0xFF, 0xFF}}
	suffixes = [][]byte{{0x00}, {0xFF}, {0x41}, {0x00, 0x00}, {0xFF, 0xFF}, {0x00, 0x00, 0x00, 0x00}, {0xFF, 0xFF, 0xFF, 0xFF},
		{0x05, 0xFF, 0xFF}, {0x01, 0xFF, 0xFF}, {0xC0, 0x00}, {0, 0, 0, 0, 0, 0, 0, 0, 0, 0, 0, 0, 0, 0, 0, 0}}
	// 16-symbol alphabet for the length-3(4) small scope of binary decoders
	alpha16 = []byte{0x00, 0x01, 0x02, 0x03, 0x04, 0x05, 0x08, 0x10, 0x20, 0x3A, 0x41, 0x7F, 0x80, 0xC0, 0xFE, 0xFF}
)

// wrapValues: for every element size s in 2..64 the smallest counts v whose product v*s wraps modulo 2^16
// (and modulo 2^8) to a value below s, and their neighbours: a length check done on a wrapped product passes.
var wrapValues = func() []uint16 {
	seen := map[uint16]bool{}
	var out []uint16
	add := func(v int) {
		if v >= 0 && v < 65536 && !seen[uint16(v)] {
			seen[uint16(v)] = true
			out = append(out, uint16(v))
		}
	}
	for s := 2; s <= 64; s++ {
		for j := 1; j < s; j++ {
			v := (j*65536 + s - 1) / s
			add(v - 1)
			add(v)
			add(v + 1)
			w := (j*256 + s - 1) / s
			add(w)
			add(w + 1)
		}
	}
	return out
}()

var hseed = maphash.MakeSeed()

type caseFn func(in []byte, gen string) bool // return false to stop

// enumerator walks all cases of one entry point, de-duplicated (a byte string is handed to the
// decoder at most once per entry point).
type enumerator struct {
	seen  map[uint64]struct{}
	fn    caseFn
	stop  bool
	count int
}

func (e *enumerator) emit(in []byte, gen string) {
	if e.stop {
		return
	}
	h := maphash.Bytes(hseed, in)
	if _, dup := e.seen[h]; dup {
		return
	}
	e.seen[h] = struct{}{}
	e.count++
	if !e.fn(in, gen) {
		e.stop = true
	}
}

// forEachCase enumerates the cases of ep in a fixed order. The slice passed to fn is only valid
// during the call.
func forEachCase(ep *EP, thorough bool, fn caseFn) int {
	e := &enumerator{seen: map[uint64]struct{}{}, fn: fn}
	buf := make([]byte, 0, 4096)

	// 0 deviations: the valid encodings themselves
	for _, s := range ep.Seeds {
		e.emit(s, "seed")
	}
	for _, s := range ep.PlainSeeds {
		e.emit(s, "counted-seed")
	}
	// every LENGTH 0..N (quick 1100, thorough 4200), content irrelevant: four fills, and the first seed continued by a
	// fill — a fixed scratch buffer, a limit counted in the wrong unit or a length class (256, 512, 1024, 4096)
	// is crossed whatever the bytes are
	if len(ep.Alpha) == 0 {
		N := 1100
		if thorough {
			N = 4200
		}
		big := make([]byte, 0, N+8)
		for _, f := range []byte{0x00, 0x01, 0x41, 0xFF} {
			big = big[:0]
			for n := 0; n <= N && !e.stop; n++ {
				e.emit(big, "length-sweep")
				big = append(big, f)
			}
		}
		if len(ep.Seeds) > 0 && len(ep.Seeds[0]) < N {
			big = append(big[:0], ep.Seeds[0]...)
			for n := len(big); n <= N && !e.stop; n++ {
				e.emit(big, "length-sweep-after-seed")
				big = append(big, 0x41)
			}
		}
	}
	// SMB parameter words: values at which count*size wraps a 16-bit (or 8-bit) product to something small
	// (quick), every 16-bit value (thorough), in both byte orders
	if ep.ParamWords != nil {
		// AndX chains: the first two parameter words of an AndX structure name the NEXT command and where it
		// starts. A decoder that follows the chain must make progress: the block named as "next" is this very
		// block, an earlier byte, the header, the last byte, one past the end (both byte orders; next command =
		// this command, every AndX command code, and a non-AndX one).
		for si, sd := range ep.Seeds {
			if si >= 2 || e.stop || len(sd) < 37 || sd[32] < 2 {
				break
			}
			for _, next := range []byte{sd[4], 0x24, 0x2D, 0x2E, 0x2F, 0x73, 0x74, 0x75, 0xA2, 0x2B} {
				for _, off := range []int{0, 1, 31, 32, 33, 34, 35, 36, 37, len(sd) - 1, len(sd), len(sd) + 1} {
					buf = append(buf[:0], sd...)
					buf[33], buf[34] = next, 0
					buf[35], buf[36] = byte(off), byte(off>>8)
					e.emit(buf, "andx-chain")
					buf[35], buf[36] = byte(off>>8), byte(off)
					e.emit(buf, "andx-chain")
				}
			}
		}
		for si, sd := range ep.Seeds {
			if si >= 2 || e.stop {
				break
			}
			for _, off := range ep.ParamWords(sd) {
				if off+2 > len(sd) {
					continue
				}
				try := func(v uint16) {
					buf = append(buf[:0], sd...)
					buf[off], buf[off+1] = byte(v), byte(v>>8)
					e.emit(buf, "param-word")
					buf[off], buf[off+1] = byte(v>>8), byte(v)
					e.emit(buf, "param-word")
				}
				if thorough {
					for v := 0; v < 65536 && !e.stop; v++ {
						try(uint16(v))
					}
				} else {
					for _, v := range wrapValues {
						try(v)
					}
				}
				// the same with the data block resized so that a wrapped product count*size passes a length check
				// although not even one element fits: for every element size s and wrap j, data of s-1 and of
				// (count*s mod 2^16) bytes
				dOff := 33 + 2*int(sd[32])
				if dOff+2 > len(sd) {
					continue
				}
				for sz := 2; sz <= 64 && !e.stop; sz++ {
					for j := 1; j < sz; j++ {
						v := (j*65536 + sz - 1) / sz
						prod := v*sz - j*65536
						for _, L := range []int{sz - 1, prod} {
							buf = append(buf[:0], sd[:dOff]...)
							buf[off], buf[off+1] = byte(v), byte(v>>8)
							buf = append(buf, byte(L), byte(L>>8))
							for i := 0; i < L; i++ {
								if dOff+2+i < len(sd) {
									buf = append(buf, sd[dOff+2+i])
								} else {
									buf = append(buf, byte(i+1))
								}
							}
							e.emit(buf, "param-word-wrap+data-length")
						}
					}
				}
			}
		}
	}
	// 1 and 2 deviations around every seed
	for _, s := range ep.Seeds {
		if e.stop {
			break
		}
		L := len(s)
		// every truncation (all proper prefixes)
		for n := 0; n < L && !e.stop; n++ {
			e.emit(s[:n], "truncate")
		}
		// every position x boundary values
		for p := 0; p < L && !e.stop; p++ {
			o := s[p]
			vals := append(append([]byte{}, byteVals...), o+1, o-1)
			for _, v := range vals {
				if v == o {
					continue
				}
				buf = append(buf[:0], s...)
				buf[p] = v
				e.emit(buf, "byte")
			}
		}
		// every position x all 256 values (quick: seeds up to 160 bytes; thorough: all seeds)
		if thorough || L <= 160 {
			for p := 0; p < L && !e.stop; p++ {
				for v := 0; v < 256; v++ {
					if byte(v) == s[p] {
						continue
					}
					buf = append(buf[:0], s...)
					buf[p] = byte(v)
					e.emit(buf, "byte256")
				}
			}
		}
		// every deletion of 1, 2 or 3 consecutive bytes (a field that is shorter than its syntax promises)
		// and every duplication of one byte
		for n := 1; n <= 3; n++ {
			for p := 0; p+n <= L && !e.stop; p++ {
				buf = append(append(buf[:0], s[:p]...), s[p+n:]...)
				e.emit(buf, "delete")
			}
		}
		for p := 0; p < L && !e.stop; p++ {
			buf = append(append(append(buf[:0], s[:p+1]...), s[p]), s[p+1:]...)
			e.emit(buf, "duplicate")
		}
		// appended suffixes
		for _, sf := range suffixes {
			buf = append(append(buf[:0], s...), sf...)
			e.emit(buf, "suffix")
		}
		// every adjacent 2-byte window driven to the 16-bit extremes
		for p := 0; p+2 <= L && !e.stop; p++ {
			for _, w := range win2 {
				buf = append(buf[:0], s...)
				copy(buf[p:], w)
				e.emit(buf, "win2")
			}
		}
		// every adjacent 4-byte window driven to the 32-bit extremes
		for p := 0; p+4 <= L && !e.stop; p++ {
			for _, w := range win4 {
				buf = append(buf[:0], s...)
				copy(buf[p:], w)
				e.emit(buf, "win4")
			}
		}
		// truncation combined with a maximal last length-like byte: every prefix with its last byte FF / 00
		for n := 1; n <= L && !e.stop; n++ {
			for _, v := range []byte{0xFF, 0x00} {
				buf = append(buf[:0], s[:n]...)
				buf[n-1] = v
				e.emit(buf, "truncate+byte")
			}
		}
		pairVals := []byte{0x00, 0xFF}
		if thorough {
			pairVals = []byte{0x00, 0xFF, 0x80}
		}
		if (thorough && L <= ep.pairMax()) || L <= 160 {
			// every pair of positions x {00,FF}^2 (quick: seeds up to 160 bytes; thorough: {00,FF,80}^2)
			for p := 0; p < L && !e.stop; p++ {
				for q := p + 1; q < L && !e.stop; q++ {
					for _, a := range pairVals {
						for _, b := range pairVals {
							buf = append(buf[:0], s...)
							buf[p], buf[q] = a, b
							e.emit(buf, "pair")
						}
					}
				}
			}
		}
		if thorough && L <= ep.pairMax() {
			// every truncation x every remaining position x {00,03,05,FF}: a corrupted field in a
			// message that also ends early (format bytes 03/05 select the SMB_STRING layouts)
			for n := 2; n < L && !e.stop; n++ {
				for p := 0; p < n-1 && !e.stop; p++ {
					for _, v := range []byte{0x00, 0x03, 0x05, 0xFF} {
						if s[p] == v {
							continue
						}
						buf = append(buf[:0], s[:n]...)
						buf[p] = v
						e.emit(buf, "truncate+anybyte")
					}
				}
			}
		}
	}
	// text: every maximal run of ASCII digits in a seed replaced by the extremes of a decimal count/length field
	for _, sd := range ep.Seeds {
		if e.stop || !printable(sd) {
			continue
		}
		for p := 0; p < len(sd); {
			if sd[p] < '0' || sd[p] > '9' {
				p++
				continue
			}
			q := p
			for q < len(sd) && sd[q] >= '0' && sd[q] <= '9' {
				q++
			}
			for _, v := range decimalExtremes {
				buf = append(append(append(buf[:0], sd[:p]...), v...), sd[q:]...)
				e.emit(buf, "decimal-field")
			}
			p = q
		}
	}
	// text: the NUMBER of delimited groups. For every punctuation byte d of a printable seed: the seed's groups
	// (split on d) repeated to 0..12 groups, and the same with one delimiter doubled at every boundary and at
	// either end (the "::" of IPv6, an empty RDN, an empty range) - parsers index groups by position, and the
	// count is an input like any other.
	for _, sd := range ep.Seeds {
		if e.stop || !printable(sd) || len(sd) > 200 {
			continue
		}
		seenD := map[byte]bool{}
		for _, d := range sd {
			isAlnum := d >= '0' && d <= '9' || d >= 'a' && d <= 'z' || d >= 'A' && d <= 'Z'
			if isAlnum || seenD[d] || d >= 0x80 {
				continue
			}
			seenD[d] = true
			parts := bytes.Split(sd, []byte{d})
			for n := 0; n <= 12 && !e.stop; n++ {
				for dbl := -1; dbl <= n; dbl++ { // -1: no doubled delimiter; k: doubled in front of group k (n: at the end)
					buf = buf[:0]
					for k := 0; k < n; k++ {
						if k > 0 {
							buf = append(buf, d)
						}
						if dbl == k {
							buf = append(buf, d)
							if k == 0 {
								buf = append(buf, d)
							}
						}
						buf = append(buf, parts[k%len(parts)]...)
					}
					if dbl == n {
						buf = append(buf, d, d)
					}
					e.emit(buf, "group-count")
				}
			}
		}
	}
	// name-compression pointers (DNS-style codecs): at every position a pointer C0|hi lo to every offset of the seed
	if strings.HasPrefix(ep.Name, "llmnr.Decode") || strings.HasPrefix(ep.Name, "nbtns.NBTNSPacket") {
		for _, sd := range ep.Seeds {
			L := len(sd)
			if e.stop || L > 200 {
				continue
			}
			for p := 0; p+2 <= L; p++ {
				for q := 0; q < L; q++ {
					buf = append(buf[:0], sd...)
					buf[p], buf[p+1] = 0xC0|byte(q>>8), byte(q)
					e.emit(buf, "pointer")
				}
			}
		}
	}
	// small scope
	if !ep.NoSmall {
		pre := ep.Prefix
		if len(ep.Alpha) > 0 {
			// text parser: all strings over its own delimiter alphabet
			n := ep.TextMax[0]
			if thorough {
				n = ep.TextMax[1]
			}
			allStrings(e, pre, ep.Alpha, n, "text-small-scope")
		} else {
			full := ep.SmallFull[0]
			a16 := ep.Small16[0]
			if thorough {
				full, a16 = ep.SmallFull[1], ep.Small16[1]
			}
			all := make([]byte, 256)
			for i := range all {
				all[i] = byte(i)
			}
			allStrings(e, pre, all, full, "small-scope")
			allStrings(e, pre, alpha16, a16, "small-scope-16")
		}
	}
	return e.count
}

// allStrings emits prefix+w for every w over alpha with |w| <= n, shortest first.
func allStrings(e *enumerator, prefix []byte, alpha []byte, n int, gen string) {
	for l := 0; l <= n && !e.stop; l++ {
		idx := make([]int, l)
		buf := make([]byte, len(prefix)+l)
		copy(buf, prefix)
		for {
			for i, k := range idx {
				buf[len(prefix)+i] = alpha[k]
			}
			e.emit(buf, gen)
			if e.stop {
				return
			}
			i := l - 1
			for ; i >= 0; i-- {
				idx[i]++
				if idx[i] < len(alpha) {
					break
				}
				idx[i] = 0
			}
			if i < 0 {
				break
			}
		}
	}
}

var decimalExtremes = []string{"0", "1", "255", "256", "65535", "65536", "268435456", "2147483647", "2147483648", "4294967295", "4294967296",
	"9223372036854775807", "9223372036854775808", "18446744073709551615", "99999999999999999999", "-1"}

func printable(b []byte) bool {
	if len(b) == 0 {
		return false
	}
	for _, c := range b {
		if c < 0x20 && c != '\n' && c != '\t' || c == 0x7f {
			return false
		}
	}
	return true
}
