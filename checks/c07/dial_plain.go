//go:build !c07dial

package main

import (
	"net"

	"github.com/TheManticoreProject/Manticore/network/netbios/nbt"
)

// the dial shim could not be mounted on this tree: store the connection in the transport's net.Conn field
func attachConn(t *nbt.NBTTransport, conn net.Conn) error { return setConn(t, conn) }
