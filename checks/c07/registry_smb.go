package main

import (
	"fmt"
	"reflect"

	"github.com/TheManticoreProject/Manticore/network/smb/smb_v10/dialects"
	"github.com/TheManticoreProject/Manticore/network/smb/smb_v10/message"
	"github.com/TheManticoreProject/Manticore/network/smb/smb_v10/message/commands"
	"github.com/TheManticoreProject/Manticore/network/smb/smb_v10/message/commands/andx"
	"github.com/TheManticoreProject/Manticore/network/smb/smb_v10/message/commands/codes"
	"github.com/TheManticoreProject/Manticore/network/smb/smb_v10/message/commands/command_interface"
	cmdutils "github.com/TheManticoreProject/Manticore/network/smb/smb_v10/message/commands/utils"
	"github.com/TheManticoreProject/Manticore/network/smb/smb_v10/message/data"
	"github.com/TheManticoreProject/Manticore/network/smb/smb_v10/message/header"
	"github.com/TheManticoreProject/Manticore/network/smb/smb_v10/message/header/flags"
	"github.com/TheManticoreProject/Manticore/network/smb/smb_v10/message/parameters"
	"github.com/TheManticoreProject/Manticore/network/smb/smb_v10/message/securityfeatures"
	"github.com/TheManticoreProject/Manticore/network/smb/smb_v10/types"
	"github.com/TheManticoreProject/Manticore/utils/encoding/utf16"

	"verif/vf"
)

type codec interface {
	Marshal() ([]byte, error)
	Unmarshal([]byte) (int, error)
}

// codecEP registers a Marshal/Unmarshal type: seeds are the library's encodings of the zero
// instance and of the reflect-filled instances (2 and 5).
func codecEP(name string, mk func() codec, extra ...[]byte) *EP {
	var seeds [][]byte
	for _, n := range fillValues() {
		o := mk()
		fillPtr(o, n)
		seeds = append(seeds, marshalSeed(o))
	}
	seeds = append(seeds, extra...)
	return bin(name, func(in []byte) error {
		_, err := mk().Unmarshal(in)
		return err
	}, seeds...)
}

// smbParamWords: offsets of the parameter words of an encoded message (32-byte header, WordCount, words).
func smbParamWords(seed []byte) []int {
	if len(seed) < 33 {
		return nil
	}
	var out []int
	for k := 0; k < int(seed[32]) && 33+2*k+2 <= len(seed); k++ {
		out = append(out, 33+2*k)
	}
	return out
}

const msgEnvelope = "smb.Message.Unmarshal[envelope]"

func regSMB() {
	// ---- message.Message.Unmarshal over every command structure of both factories
	var attr [2][256]string
	type cmdSeed struct {
		name  string
		seeds [][]byte
		hdr   []byte
	}
	var cmds []cmdSeed
	used := map[string]bool{}
	for resp := 0; resp < 2; resp++ {
		for code := 0; code < 256; code++ {
			mk := func() (command_interface.CommandInterface, error) {
				if resp == 1 {
					return commands.CreateResponseCommand(codes.CommandCode(code))
				}
				return commands.CreateRequestCommand(codes.CommandCode(code))
			}
			c0, err := mk()
			if err != nil || c0 == nil {
				continue
			}
			tn := reflect.TypeOf(c0).Elem().Name()
			name := "smb.Message.Unmarshal[" + tn + "]"
			if used[name] {
				name = "smb.Message.Unmarshal[" + tn + "#" + vf.Hex([]byte{byte(code)}) + "]"
			}
			used[name] = true
			attr[resp][code] = name
			cs := cmdSeed{name: name}
			for _, n := range fillValues() {
				cmd, _ := mk()
				fillPtr(cmd, n)
				m := message.NewMessage()
				if resp == 1 {
					m.Header.Flags |= flags.FLAGS_REPLY
				}
				m.Header.Command = codes.CommandCode(code)
				var out []byte
				p, _, _ := vf.Try(func() {
					m.AddCommand(cmd)
					m.Header.Command = codes.CommandCode(code)
					out, err = m.Marshal()
				})
				if p || err != nil || len(out) < 32 {
					continue
				}
				cs.seeds = append(cs.seeds, out)
				if cs.hdr == nil {
					cs.hdr = append([]byte{}, out[:32]...)
				}
			}
			if cs.hdr == nil {
				// encoder unusable even for the zero instance: hand-built header + empty blocks
				h := header.NewHeader()
				h.Command = codes.CommandCode(code)
				if resp == 1 {
					h.Flags |= flags.FLAGS_REPLY
				}
				hb, _ := h.Marshal()
				cs.hdr = hb
				cs.seeds = append(cs.seeds, cat(hb, []byte{0, 0, 0}))
			}
			// empty parameter and data blocks (the "error response" form every command accepts)
			cs.seeds = append(cs.seeds, cat(cs.hdr, []byte{0, 0, 0}))
			cmds = append(cmds, cs)
		}
	}
	attrFn := func(in []byte) string {
		if len(in) < 32 {
			return msgEnvelope
		}
		r := 0
		if in[9]&0x80 != 0 {
			r = 1
		}
		if n := attr[r][in[4]]; n != "" {
			return n
		}
		return msgEnvelope
	}
	callMsg := func(in []byte) error { return message.NewMessage().Unmarshal(in) }
	for _, cs := range cmds {
		add(&EP{Name: cs.name, Call: callMsg, Attr: attrFn, Seeds: cs.seeds, Prefix: cs.hdr,
			SmallFull: [2]int{1, 2}, Small16: [2]int{3, 3}, ParamWords: smbParamWords})
	}
	// the envelope itself: all short inputs and every command code / flag byte on an empty body
	{
		h := header.NewHeader()
		hb, _ := h.Marshal()
		var seeds [][]byte
		for code := 0; code < 256; code++ {
			for _, fl := range []byte{0x00, 0x80} {
				s := cat(hb, []byte{0, 0, 0})
				s[4], s[9] = byte(code), fl
				seeds = append(seeds, s)
			}
		}
		add(&EP{Name: msgEnvelope, Call: callMsg, Attr: attrFn, Seeds: seeds[:1], SmallFull: [2]int{2, 2}, Small16: [2]int{3, 4}})
		// all 512 (code, direction) headers with empty blocks (also the codes no factory knows), split into
		// 16 registry entries of 32 seeds; every case is attributed to the command it dispatches to
		for k := 0; k < 16; k++ {
			add(&EP{Name: fmt.Sprintf("smb.Message.Unmarshal[all-codes %02X-%02X]", k*16, k*16+15), Call: callMsg, Attr: attrFn, Seeds: seeds[k*32 : (k+1)*32], NoSmall: true})
		}
	}

	// ---- shared blocks
	codecEP("smb.header.Header.Unmarshal", func() codec { return header.NewHeader() })
	bin("smb.parameters.Parameters.Unmarshal", func(in []byte) error {
		_, err := parameters.NewParameters().Unmarshal(in)
		return err
	}, []byte{0}, []byte{1, 0xAA, 0xBB}, []byte{3, 1, 2, 3, 4, 5, 6})
	bin("smb.data.Data.Unmarshal", func(in []byte) error {
		_, err := data.NewData().Unmarshal(in)
		return err
	}, []byte{0, 0}, []byte{3, 0, 1, 2, 3}, []byte{1, 0, 0xFF})
	codecEP("smb.andx.AndX.Unmarshal", func() codec { return andx.NewAndX() })
	codecEP("smb.securityfeatures.SecurityFeaturesReserved.Unmarshal", func() codec { return securityfeatures.NewSecurityFeaturesReserved() })
	codecEP("smb.securityfeatures.SecurityFeaturesSecuritySignature.Unmarshal", func() codec { return securityfeatures.NewSecurityFeaturesSecuritySignature() })
	codecEP("smb.securityfeatures.SecurityFeaturesConnectionlessTransport.Unmarshal", func() codec { return securityfeatures.NewSecurityFeaturesConnectionlessTransport() })

	// ---- commands/utils
	bin("smb.utils.GetNullTerminatedUnicodeString", func(in []byte) error {
		cmdutils.GetNullTerminatedUnicodeString(in)
		return nil
	}, cat(utf16.EncodeUTF16LE("AB"), []byte{0, 0}), []byte{0, 0}, cat(utf16.EncodeUTF16LE("A"), []byte{0, 0, 0x42, 0x00}))
	bin("smb.utils.GetNullTerminatedString", func(in []byte) error {
		cmdutils.GetNullTerminatedString(in)
		return nil
	}, []byte("AB\x00"), []byte{0}, []byte("A\x00B"))

	// ---- types/*.go
	codecEP("smb.types.LOCKING_ANDX_RANGE32.Unmarshal", func() codec { return &types.LOCKING_ANDX_RANGE32{} })
	codecEP("smb.types.LOCKING_ANDX_RANGE64.Unmarshal", func() codec { return &types.LOCKING_ANDX_RANGE64{} })
	codecEP("smb.types.SMB_DATE.Unmarshal", func() codec { return types.NewSMB_DATE() })
	codecEP("smb.types.SMB_TIME(FILETIME).Unmarshal", func() codec { return &types.SMB_TIME{} })
	codecEP("smb.types.SMB_DIRECTORY_INFORMATION.Unmarshal", func() codec { return types.NewSMB_DIRECTORY_INFORMATION() })
	codecEP("smb.types.SMB_FILE_ATTRIBUTES.Unmarshal", func() codec { return &types.SMB_FILE_ATTRIBUTES{} })
	codecEP("smb.types.SMB_NMPIPE_STATUS.Unmarshal", func() codec { return &types.SMB_NMPIPE_STATUS{} })
	codecEP("smb.types.SMB_RESUME_KEY.Unmarshal", func() codec { return types.NewSMB_RESUME_KEY() })
	{
		var seeds [][]byte
		for f := 1; f <= 5; f++ {
			for _, str := range []string{"", "AB", "ABCDE"} {
				s := types.NewSMB_STRING([]byte(str))
				s.SetBufferFormat(types.UCHAR(f))
				seeds = append(seeds, marshalSeed(s))
			}
		}
		// hand-built encodings of the five formats (MS-CIFS 2.2.1.1 / the decoder's own layout)
		seeds = append(seeds, []byte{1, 2, 0, 'A', 'B'}, []byte{2, 'A', 'B', 0}, []byte{3, 2, 0, 'A', 'B', 0}, []byte{4, 'A', 'B', 0}, []byte{5, 2, 0, 'A', 'B'})
		bin("smb.types.SMB_STRING.Unmarshal", func(in []byte) error {
			_, err := (&types.SMB_STRING{}).Unmarshal(in)
			return err
		}, seeds...)
		var oseeds [][]byte
		for _, str := range []string{"", "AB", "ABCDE"} {
			oseeds = append(oseeds, marshalSeed(types.NewOEM_STRINGFromString(str)))
		}
		oseeds = append(oseeds, seeds...)
		bin("smb.types.OEM_STRING.Unmarshal", func(in []byte) error {
			_, err := types.NewOEM_STRING().Unmarshal(in)
			return err
		}, oseeds...)
	}

	// ---- dialects
	{
		var seeds [][]byte
		for _, list := range [][]string{{}, {dialects.DIALECT_NT_LM_0_12}, {dialects.DIALECT_LANMAN_1_0, dialects.DIALECT_NT_LM_0_12, "A"}} {
			d := dialects.NewDialects()
			for _, s := range list {
				d.AddDialect(s)
			}
			seeds = append(seeds, marshalSeed(d))
		}
		seeds = append(seeds, []byte("\x02NT LM 0.12\x00"), []byte("\x02A\x00\x02B\x00"), []byte{2, 0})
		bin("smb.dialects.Dialects.Unmarshal", func(in []byte) error {
			_, err := dialects.NewDialects().Unmarshal(in)
			return err
		}, seeds...)
	}
}
