package main

import (
	"fmt"
	"encoding/base64"
	"encoding/binary"

	"github.com/TheManticoreProject/Manticore/crypto/gppp"
	"github.com/TheManticoreProject/Manticore/crypto/pkcs7"
	"github.com/TheManticoreProject/Manticore/crypto/uuid"
	"github.com/TheManticoreProject/Manticore/crypto/uuid/uuid_v1"
	"github.com/TheManticoreProject/Manticore/crypto/uuid/uuid_v2"
	"github.com/TheManticoreProject/Manticore/crypto/uuid/uuid_v8"
	"github.com/TheManticoreProject/Manticore/network/ip"
	"github.com/TheManticoreProject/Manticore/network/ldap"
	"github.com/TheManticoreProject/Manticore/utils/encoding/utf16"
	"github.com/TheManticoreProject/Manticore/windows/credentials"
	"github.com/TheManticoreProject/Manticore/windows/guid"
	kcl "github.com/TheManticoreProject/Manticore/windows/keycredential"
	kcrypto "github.com/TheManticoreProject/Manticore/windows/keycredential/crypto"
	"github.com/TheManticoreProject/Manticore/windows/keycredential/key"
	kutils "github.com/TheManticoreProject/Manticore/windows/keycredential/utils"

	"verif/vf"
)

// ---------------------------------------------------------------- key credentials

func testRSA() kcrypto.RSAKeyMaterial {
	mod := make([]byte, 64)
	for i := range mod {
		mod[i] = byte(0x80 + i)
	}
	return kcrypto.RSAKeyMaterial{Exponent: 65537, Modulus: mod, Prime1: []byte{}, Prime2: []byte{}, KeySize: 512}
}

func regKeyCredential() {
	rsa := testRSA()
	rsaBytes := rsa.ToBytes()
	rsa2 := kcrypto.RSAKeyMaterial{Exponent: 3, Modulus: []byte{0xC1, 0xC2, 0xC3, 0xC4}, Prime1: []byte{0xD1, 0xD2}, Prime2: []byte{0xE1, 0xE2}, KeySize: 32}
	bin("keycredential.crypto.RSAKeyMaterial.FromBytes", func(in []byte) error {
		return (&kcrypto.RSAKeyMaterial{}).FromBytes(in)
	}, rsaBytes, rsa2.ToBytes())
	bin("keycredential.crypto.SecretEncryptionType.FromBytes", func(in []byte) error {
		(&kcrypto.SecretEncryptionType{}).FromBytes(in)
		return nil
	}, (&kcrypto.SecretEncryptionType{Value: 1}).ToBytes())

	versions := []struct {
		n string
		v uint32
	}{{"v0", key.KeyCredentialVersion_0}, {"v1", key.KeyCredentialVersion_1}, {"v2", key.KeyCredentialVersion_2}}

	var kcSeeds [][]byte
	for _, ver := range versions {
		var out []byte
		var err error
		vf.Try(func() {
			kc := kcl.NewKeyCredential(key.KeyCredentialVersion{Value: ver.v}, "c29tZS1rZXktaWRlbnRpZmllcg==", testRSA(),
				guid.GUID{A: 0x01020304, B: 0x0506, C: 0x0708, D: 0x090A, E: 0x0B0C0D0E0F10}, kutils.NewDateTime(132000000000000000), kutils.NewDateTime(132000000000000001))
			out, err = kc.ToBytes()
		})
		if err == nil && out != nil {
			kcSeeds = append(kcSeeds, out)
		}
	}
	// hand-built minimal blob (MS-ADTS 2.2.20): version 0x200 + one entry of each type
	ent := func(t byte, v []byte) []byte {
		return cat(binary.LittleEndian.AppendUint16(nil, uint16(len(v))), []byte{t}, v)
	}
	hand := cat([]byte{0, 2, 0, 0}, ent(1, make([]byte, 32)), ent(2, make([]byte, 32)), ent(3, rsa2.ToBytes()), ent(4, []byte{1}), ent(5, []byte{0}),
		ent(6, make([]byte, 16)), ent(7, []byte{1, 0}), ent(8, []byte{1, 2, 3, 4, 5, 6, 7, 8}), ent(9, []byte{1, 2, 3, 4, 5, 6, 7, 8}))
	kcSeeds = append(kcSeeds, hand, []byte{0, 2, 0, 0})
	// the same with a key source that is not AD in front of the time stamps (another conversion path), for version 2,
	// an unknown version and version 1; time stamps ordinary, all-ones, and with only the two top bits set (the
	// kind / flag bits of other serialised time formats); and the source entry BEHIND the time stamps
	for _, verb := range [][]byte{{0, 2, 0, 0}, {0, 3, 0, 0}, {0, 1, 0, 0}, {0xFF, 0xFF, 0xFF, 0xFF}} {
		for _, srcv := range []byte{1, 2, 0xFF} {
			for _, ts := range [][]byte{{1, 2, 3, 4, 5, 6, 7, 8}, {0xFF, 0xFF, 0xFF, 0xFF, 0xFF, 0xFF, 0xFF, 0xFF}, {0, 0, 0, 0, 0, 0, 0, 0xC0}, {0, 0, 0, 0, 0, 0, 0, 0x80}, {0, 0, 0, 0, 0, 0, 0, 0x40}} {
				kcSeeds = append(kcSeeds, cat(verb, ent(5, []byte{srcv}), ent(8, ts), ent(9, ts)), cat(verb, ent(8, ts), ent(5, []byte{srcv}), ent(9, ts)))
			}
		}
	}
	bin("keycredential.KeyCredential.FromBytes", func(in []byte) error {
		return (&kcl.KeyCredential{}).FromBytes(in)
	}, kcSeeds...)

	var dnSeeds [][]byte
	for _, s := range kcSeeds[:min(2, len(kcSeeds))] {
		d := kcl.DNWithBinary{DistinguishedName: "CN=user,DC=example,DC=com", BinaryData: s}
		dnSeeds = append(dnSeeds, []byte(d.ToString()))
	}
	dnSeeds = append(dnSeeds, []byte("B:8:00020000:CN=x"), []byte("B:0::"))
	dnAlpha := []byte("B:0128af,=")
	add(&EP{Name: "keycredential.DNWithBinary.Parse", Call: func(in []byte) error {
		return (&kcl.DNWithBinary{}).Parse(in)
	}, Seeds: dnSeeds, Alpha: dnAlpha, TextMax: [2]int{5, 6}, PairMax: 200})
	add(&EP{Name: "keycredential.DNWithBinary.Parse+KeyCredential.ParseDNWithBinary", Call: func(in []byte) error {
		d := kcl.DNWithBinary{}
		if err := d.Parse(in); err != nil {
			return err
		}
		return (&kcl.KeyCredential{}).ParseDNWithBinary(d)
	}, Seeds: dnSeeds, Alpha: dnAlpha, TextMax: [2]int{5, 6}, PairMax: 200})

	cki := (&key.CustomKeyInformation{Version: 1, Reserved: make([]byte, 10), EncodedExtendedCKI: []byte{1, 2, 3}}).ToBytes()
	for _, ver := range versions {
		ver := ver
		bin("keycredential.key.CustomKeyInformation.FromBytes["+ver.n+"]", func(in []byte) error {
			return (&key.CustomKeyInformation{}).FromBytes(in, key.KeyCredentialVersion{Value: ver.v})
		}, cki, []byte{1, 0}, cat([]byte{1, 2, 1, 1, 1}, []byte{2, 0, 0, 0}, make([]byte, 10), []byte{9, 9}))
		bin("keycredential.utils.ConvertFromBinaryIdentifier["+ver.n+"]", func(in []byte) error {
			kutils.ConvertFromBinaryIdentifier(in, key.KeyCredentialVersion{Value: ver.v})
			return nil
		}, make([]byte, 32))
		bin("keycredential.utils.ConvertFromBinaryTime["+ver.n+"]", func(in []byte) error {
			kutils.ConvertFromBinaryTime(in, key.KeySource_AD, key.KeyCredentialVersion{Value: ver.v})
			return nil
		}, binary.LittleEndian.AppendUint64(nil, 132000000000000000), make([]byte, 8))
		for _, src := range []key.KeySource{1, 2, 0xFF} {
			src := src
			bin(fmt.Sprintf("keycredential.utils.ConvertFromBinaryTime[%s,source=%d]", ver.n, src), func(in []byte) error {
				kutils.ConvertFromBinaryTime(in, src, key.KeyCredentialVersion{Value: ver.v})
				kutils.ConvertFromBinaryTime(in, src, key.KeyCredentialVersion{Value: ver.v + 0x100})
				return nil
			}, binary.LittleEndian.AppendUint64(nil, 132000000000000000), make([]byte, 8), []byte{0xFF, 0xFF, 0xFF, 0xFF, 0xFF, 0xFF, 0xFF, 0xFF}, []byte{0, 0, 0, 0, 0, 0, 0, 0xC0})
		}
		text("keycredential.utils.ConvertToBinaryIdentifier["+ver.n+"]", "0aAfg=+/ ", 4, 5, func(s string) error {
			_, err := kutils.ConvertToBinaryIdentifier(s, key.KeyCredentialVersion{Value: ver.v})
			return err
		}, "00112233445566778899aabbccddeeff", "c29tZS1rZXk=", "c29tZQ")
	}
	bin("keycredential.key.KeyCredentialVersion.FromBytes", func(in []byte) error {
		(&key.KeyCredentialVersion{}).FromBytes(in)
		return nil
	}, (&key.KeyCredentialVersion{Value: key.KeyCredentialVersion_2}).ToBytes())
	bin("keycredential.key.KeySource.FromBytes", func(in []byte) error {
		key.KeySource(0).FromBytes(in)
		return nil
	}, []byte{1, 0})
	bin("keycredential.key.KeyStrength.FromBytes", func(in []byte) error {
		(&key.KeyStrength{}).FromBytes(in)
		return nil
	}, []byte{2, 0, 0, 0})
	// single-byte FromBytes(byte): the whole domain is 256 values; wrapped as "first byte of the input"
	one := func(name string, f func(b byte)) {
		ep := bin(name, func(in []byte) error {
			if len(in) > 0 {
				f(in[0])
			}
			return nil
		}, []byte{1})
		ep.SmallFull, ep.Small16 = [2]int{1, 1}, [2]int{0, 0}
	}
	one("keycredential.key.CustomKeyInformationFlags.FromBytes", func(b byte) { (&key.CustomKeyInformationFlags{}).FromBytes(b) })
	one("keycredential.key.CustomKeyInformationVolumeType.FromBytes", func(b byte) { (&key.CustomKeyInformationVolumeType{}).FromBytes(b) })
	one("keycredential.key.KeyCredentialEntryType.FromBytes", func(b byte) { (&key.KeyCredentialEntryType{}).FromBytes(b) })
	one("keycredential.key.KeyUsage.FromBytes", func(b byte) { (&key.KeyUsage{}).FromBytes(b) })
}

// ---------------------------------------------------------------- LDAP helpers

func regLDAP() {
	sid := func(auth uint64, subs ...uint32) []byte {
		b := []byte{1, byte(len(subs)), byte(auth >> 40), byte(auth >> 32), byte(auth >> 24), byte(auth >> 16), byte(auth >> 8), byte(auth)}
		for _, s := range subs {
			b = binary.LittleEndian.AppendUint32(b, s)
		}
		return b
	}
	sidEP := bin("ldap.ParseSIDFromBytes", func(in []byte) error {
		ldap.ParseSIDFromBytes(in)
		return nil
	}, sid(5, 21, 3623811015, 3361044348, 30300820, 1013), sid(5, 32, 544), sid(5, 18), sid(1))
	// every count byte 0..255 with a buffer that really carries that many sub-authorities (and 1 or 4 bytes more / less)
	for n := 0; n < 256; n++ {
		subs := make([]uint32, n)
		for i := range subs {
			subs[i] = uint32(0x01010101 * (i%200 + 1))
		}
		full := sid(5, subs...)
		sidEP.PlainSeeds = append(sidEP.PlainSeeds, full, append(append([]byte{}, full...), 0, 0, 0, 0), append(append([]byte{}, full...), 0xFF))
		if n > 0 {
			sidEP.PlainSeeds = append(sidEP.PlainSeeds, full[:len(full)-1], full[:len(full)-4])
		}
	}
	text("ldap.GetDomainFromDistinguishedName", "DC=,a.\\ ", 5, 6, func(s string) error { ldap.GetDomainFromDistinguishedName(s); return nil },
		"CN=user,OU=x,DC=example,DC=com", "DC=a")
	text("ldap.ConvertLDAPTimeStampToUnixTimeStamp", "0129-+ .", 5, 6, func(s string) error { ldap.ConvertLDAPTimeStampToUnixTimeStamp(s); return nil },
		"132000000000000000", "0", "9223372036854775807", "-9223372036854775808", "116444736000000000")
	text("ldap.ConvertLDAPDurationToSeconds", "0129-+ .", 5, 6, func(s string) error { ldap.ConvertLDAPDurationToSeconds(s); return nil },
		"-864000000000", "0", "9223372036854775807", "-9223372036854775808")
}

// ---------------------------------------------------------------- gppp / pkcs7 / utf16

func regCrypto() {
	var b64 [][]byte
	var raw [][]byte
	for _, pw := range []string{"", "a", "Password1", "0123456789abcdef", "pässwörd€"} {
		if s, err := gppp.GPPPEncrypt(pw); err == nil {
			b64 = append(b64, []byte(s))
			for _, enc := range []*base64.Encoding{base64.StdEncoding, base64.RawStdEncoding} {
				if r, err := enc.DecodeString(s); err == nil {
					raw = append(raw, r)
					break
				}
			}
		}
	}
	// the well-known published cpassword (MS14-025 write-ups)
	b64 = append(b64, []byte("j1Uyj3Vx8TY9LtLZil2uAuZkFQA/4latT76ZwgdHdhw"))
	add(&EP{Name: "gppp.GPPPDecryptBase64", Call: func(in []byte) error { _, err := gppp.GPPPDecryptBase64(string(in)); return err },
		Seeds: b64, Alpha: []byte("Aa0+/= "), TextMax: [2]int{5, 6}})
	bin("gppp.GPPPDecryptBytes", func(in []byte) error { _, err := gppp.GPPPDecryptBytes(in); return err }, raw...)

	var padded [][]byte
	for _, n := range []int{0, 1, 15, 16, 17} {
		buf := make([]byte, n)
		for i := range buf {
			buf[i] = byte(i + 1)
		}
		if p, err := pkcs7.Pad(buf, 16); err == nil {
			padded = append(padded, p)
		}
	}
	if p, err := pkcs7.Pad([]byte{1, 2, 3}, 255); err == nil {
		padded = append(padded, p)
	}
	bin("pkcs7.Unpad", func(in []byte) error { _, err := pkcs7.Unpad(in); return err }, padded...)

	bin("utf16.DecodeUTF16LE", func(in []byte) error { utf16.DecodeUTF16LE(in); return nil },
		utf16.EncodeUTF16LE(""), utf16.EncodeUTF16LE("AB"), utf16.EncodeUTF16LE("pässwörd€"), utf16.EncodeUTF16LE("a\U0001F600b"), []byte{0x00, 0xD8}, []byte{0x00, 0xDC, 0x00, 0xD8})
}

// ---------------------------------------------------------------- UUID / GUID / credentials / ip

type uuidLike interface {
	Marshal() ([]byte, error)
	Unmarshal([]byte) (int, error)
	FromString(string) error
	String() string
}

func regUUID() {
	const uuidAlpha = "0189afAF-{} g"
	v1raw := []byte{0x6b, 0xa7, 0xb8, 0x10, 0x9d, 0xad, 0x11, 0xd1, 0x80, 0xb4, 0x00, 0xc0, 0x4f, 0xd4, 0x30, 0xc8}
	v2raw := append([]byte{}, v1raw...)
	v2raw[6] = 0x21
	v8raw := append([]byte{}, v1raw...)
	v8raw[6] = 0x81
	v4raw := append([]byte{}, v1raw...)
	v4raw[6] = 0x41
	strs := func(mk func() uuidLike, raws ...[]byte) (bs [][]byte, ss []string) {
		for _, r := range raws {
			u := mk()
			if _, err := u.Unmarshal(r); err == nil {
				if m, err := u.Marshal(); err == nil {
					bs = append(bs, m)
				}
				ss = append(ss, u.String())
			}
			bs = append(bs, r)
		}
		return
	}
	type fb interface{ FromBytes([]byte) error }
	for _, k := range []struct {
		name string
		mk   func() uuidLike
		raws [][]byte
	}{
		{"uuid.UUID", func() uuidLike { return &uuid.UUID{} }, [][]byte{v1raw, v4raw, v8raw}},
		{"uuid_v1.UUIDv1", func() uuidLike { return &uuid_v1.UUIDv1{} }, [][]byte{v1raw, v4raw}},
		{"uuid_v2.UUIDv2", func() uuidLike { return &uuid_v2.UUIDv2{} }, [][]byte{v2raw, v1raw}},
		{"uuid_v8.UUIDv8", func() uuidLike { return &uuid_v8.UUIDv8{} }, [][]byte{v8raw, v1raw}},
	} {
		k := k
		bs, ss := strs(k.mk, k.raws...)
		ss = append(ss, "6ba7b810-9dad-11d1-80b4-00c04fd430c8", "6ba7b8109dad11d180b400c04fd430c8", "6BA7B810-9DAD-21D1-80B4-00C04FD430C8", "6ba7b810-9dad-81d1-80b4-00c04fd430c8")
		bin(k.name+".Unmarshal", func(in []byte) error { _, err := k.mk().Unmarshal(in); return err }, bs...)
		text(k.name+".FromString", uuidAlpha, 4, 5, func(s string) error { return k.mk().FromString(s) }, ss...)
		if _, ok := k.mk().(fb); ok {
			bin(k.name+".FromBytes", func(in []byte) error { return k.mk().(fb).FromBytes(in) }, bs...)
		}
	}
}

func regWindows() {
	g := &guid.GUID{A: 0x01020304, B: 0x0506, C: 0x0708, D: 0x090A, E: 0x0B0C0D0E0F10}
	bin("guid.GUID.FromRawBytes", func(in []byte) error { (&guid.GUID{}).FromRawBytes(in); return nil }, g.ToBytes(), make([]byte, 16))
	const gAlpha = "09afF-{}(),x "
	all := []string{g.ToFormatN(), g.ToFormatD(), g.ToFormatB(), g.ToFormatP(), g.ToFormatX()}
	text("guid.FromString", gAlpha, 4, 5, func(s string) error { _, err := guid.FromString(s); return err }, all...).Shards = 16
	text("guid.FromFormatN", gAlpha, 4, 5, func(s string) error { _, err := guid.FromFormatN(s); return err }, all...)
	text("guid.FromFormatD", gAlpha, 4, 5, func(s string) error { _, err := guid.FromFormatD(s); return err }, all...)
	text("guid.FromFormatB", gAlpha, 4, 5, func(s string) error { _, err := guid.FromFormatB(s); return err }, all...)
	text("guid.FromFormatP", gAlpha, 4, 5, func(s string) error { _, err := guid.FromFormatP(s); return err }, all...)
	text("guid.FromFormatX", gAlpha, 4, 5, func(s string) error { _, err := guid.FromFormatX(s); return err }, all...).Shards = 8

	const hAlpha = "0afF: g\n"
	lm, nt := "aad3b435b51404eeaad3b435b51404ee", "31d6cfe0d16ae931b73c59d7e0c089c0"
	hs := []string{lm + ":" + nt, ":" + nt, nt, lm + ":", "", ":"}
	text("credentials.ParseLMNTHashes", hAlpha, 4, 5, func(s string) error { _, _, err := credentials.ParseLMNTHashes(s); return err }, hs...).Shards = 6
	text("credentials.NewCredentials", hAlpha, 4, 5, func(s string) error { _, err := credentials.NewCredentials("DOM", "user", "pw", s); return err }, hs...).Shards = 6
}

func regIP() {
	const a4 = "0125./ -:"
	text("ip.NewIPv4FromString", a4, 5, 6, func(s string) error { ip.NewIPv4FromString(s); return nil },
		"192.168.1.10/24", "10.0.0.1", "1/2", "255.255.255.255/32", "1.2.3.4/0", ip.NewIPv4(192, 168, 1, 10, 24).String(), ip.NewIPv4(192, 168, 1, 10, 24).CIDRAddress())
	const a6 = "01afF:/.%"
	text("ip.NewIPv6FromString", a6, 5, 6, func(s string) error { ip.NewIPv6FromString(s); return nil },
		"fe80:0:0:0:0:0:0:1", "fe80::1", "1:2:3:4:5:6:7:8", "ffff:ffff:ffff:ffff:ffff:ffff:ffff:ffff", ip.NewIPv6(0xfe80, 0, 0, 0, 0, 0, 0, 1).String())
	const ap = "0156- ,:\t"
	text("ip.NewTCPPortRangeFromString", ap, 5, 6, func(s string) error { _, err := ip.NewTCPPortRangeFromString(s); return err },
		"1-1024", "0-65535", " 80 - 443 ", "65535-0", "-", "80", ip.NewTCPPortRange(1, 1024).String()).Shards = 8
}
