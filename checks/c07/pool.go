package main

// Parent side of E5: a pool of worker subprocesses, unit scheduling, death / hang triage.

import (
	"bufio"
	"bytes"
	"encoding/json"
	"fmt"
	"io"
	"os"
	"os/exec"
	"runtime"
	"sort"
	"strings"
	"sync"
	"time"

	"verif/vf"
)

const (
	heartbeatTimeout = 60 * time.Second // normal mode: no record for this long = hung
	perInputTimeout  = 20 * time.Second // careful mode / confirmation
	maxTriagePerUnit = 12
)

type fatalRec struct {
	In     []byte
	Kind   string // "fatal-error" | "hang"
	Detail string
}

type aggregate struct {
	mu         sync.Mutex
	evals      map[string]int64
	panics     map[string]map[string]*panicRec
	allocs     map[string][]allocRec
	fatals     map[string][]fatalRec
	distinct   map[int]int64
	distinctCh chan [2]int64
	seedOK     map[string]int64
	gens       map[string]int64
	samples    []sampleRec
	sampleTag  map[string]int
	okTotal    int64
	errTotal   int64
	restarts   int64
	transient  int64
}

func newAggregate() *aggregate {
	return &aggregate{evals: map[string]int64{}, panics: map[string]map[string]*panicRec{}, allocs: map[string][]allocRec{},
		fatals: map[string][]fatalRec{}, distinct: map[int]int64{}, distinctCh: make(chan [2]int64, 4096), seedOK: map[string]int64{}, gens: map[string]int64{}, sampleTag: map[string]int{}}
}

func (a *aggregate) merge(epName string, d *delta) {
	a.mu.Lock()
	defer a.mu.Unlock()
	for n, v := range d.Evals {
		a.evals[n] += v
	}
	for g, v := range d.Gens {
		a.gens[g] += v
	}
	a.okTotal += d.OK
	a.errTotal += d.Err
	a.seedOK[epName] += d.SeedOK
	for i := range d.Panics {
		p := d.Panics[i]
		m := a.panics[p.Name]
		if m == nil {
			m = map[string]*panicRec{}
			a.panics[p.Name] = m
		}
		if q := m[p.Where]; q == nil {
			m[p.Where] = &p
		} else {
			q.Count += p.Count
			if len(p.In) < len(q.In) || (len(p.In) == len(q.In) && bytes.Compare(p.In, q.In) < 0) {
				q.In, q.Msg, q.Gen = p.In, p.Msg, p.Gen
			}
		}
	}
	for _, al := range d.Allocs {
		if len(a.allocs[al.Name]) < 50 {
			a.allocs[al.Name] = append(a.allocs[al.Name], al)
		}
	}
	for _, s := range d.Samples {
		if a.sampleTag[s.Gen] < 2 && len(a.samples) < 40 {
			a.sampleTag[s.Gen]++
			a.samples = append(a.samples, s)
		}
	}
	if d.Done {
		a.distinct[d.Unit] = d.Distinct
		a.distinctCh <- [2]int64{int64(d.Unit), d.Distinct}
	}
}

type worker struct {
	cmd    *exec.Cmd
	stdin  io.WriteCloser
	recs   chan *delta // closed on EOF
	stderr *tailBuf
	dead   chan struct{}
}

type tailBuf struct {
	mu sync.Mutex
	b  []byte
}

func (t *tailBuf) Write(p []byte) (int, error) {
	t.mu.Lock()
	t.b = append(t.b, p...)
	if len(t.b) > 1<<16 {
		// keep the head (fatal error line is first) and drop the rest
		t.b = t.b[:1<<16]
	}
	t.mu.Unlock()
	return len(p), nil
}

func (t *tailBuf) firstFatal() string {
	t.mu.Lock()
	defer t.mu.Unlock()
	lines := strings.Split(string(t.b), "\n")
	for _, pre := range []string{"fatal error:", "panic:", "runtime:", "SIG", "signal"} {
		for _, l := range lines {
			if strings.HasPrefix(l, pre) {
				return strings.TrimSpace(l)
			}
		}
	}
	s := strings.TrimSpace(string(t.b))
	if len(s) > 200 {
		s = s[:200]
	}
	if s == "" {
		s = "(no stderr)"
	}
	return s
}

type pool struct {
	c      *vf.Ctx
	reg    []*EP
	agg    *aggregate
	tier   string
	digest string
	start  time.Time

	unitTime map[int]time.Duration
	units    []unit

	hbTimeout, inTimeout time.Duration
	quiet                bool
}

func newPool(c *vf.Ctx, reg []*EP, agg *aggregate) *pool {
	return &pool{c: c, reg: reg, agg: agg, tier: c.Tier, digest: registryDigest(reg), start: time.Now(), unitTime: map[int]time.Duration{}, units: buildUnits(reg),
		hbTimeout: heartbeatTimeout, inTimeout: perInputTimeout}
}

func (p *pool) spawn() (*worker, error) {
	cmd := exec.Command(os.Args[0], "-c07worker", p.tier, p.digest)
	pr, pw, err := os.Pipe()
	if err != nil {
		return nil, err
	}
	cmd.ExtraFiles = []*os.File{pw}
	cmd.Stdout = nil // /dev/null: decoders that print must not disturb anything
	tb := &tailBuf{}
	cmd.Stderr = tb
	cmd.Env = append(os.Environ(), "GOTRACEBACK=single")
	stdin, err := cmd.StdinPipe()
	if err != nil {
		return nil, err
	}
	if err := cmd.Start(); err != nil {
		return nil, err
	}
	pw.Close()
	w := &worker{cmd: cmd, stdin: stdin, recs: make(chan *delta, 64), stderr: tb, dead: make(chan struct{})}
	go func() {
		rd := bufio.NewReaderSize(pr, 1<<16)
		dec := json.NewDecoder(rd)
		for {
			d := new(delta)
			if err := dec.Decode(d); err != nil {
				break
			}
			w.recs <- d
		}
		pr.Close()
		cmd.Wait()
		close(w.recs)
		close(w.dead)
	}()
	return w, nil
}

func (w *worker) kill() {
	if w == nil {
		return
	}
	w.stdin.Close()
	if w.cmd.Process != nil {
		w.cmd.Process.Kill()
	}
	<-w.dead
}

func (w *worker) send(format string, a ...any) bool {
	_, err := fmt.Fprintf(w.stdin, format+"\n", a...)
	return err == nil
}

// result of following one RUN command
type runEnd int

const (
	endDone runEnd = iota
	endStop
	endDied
	endHung
)

// follow reads records of unit u until Done/Stop or worker death / silence.
// lastAt receives the most recent "about to run" record (careful mode).
func (p *pool) follow(w *worker, u int, next *int, timeout time.Duration, lastAt **delta, batchEnd *int) runEnd {
	t := time.NewTimer(timeout)
	defer t.Stop()
	for {
		select {
		case d, ok := <-w.recs:
			if !ok {
				return endDied
			}
			if !t.Stop() {
				select {
				case <-t.C:
				default:
				}
			}
			t.Reset(timeout)
			if d.Unit != u {
				continue
			}
			if d.At {
				if lastAt != nil {
					*lastAt = d
				}
				continue
			}
			p.agg.merge(p.units[u].EP.Name, d)
			*next = d.Next
			if batchEnd != nil {
				*batchEnd = d.BatchEnd
			}
			if d.Done {
				return endDone
			}
			if d.Stop {
				return endStop
			}
		case <-t.C:
			return endHung
		}
	}
}

func (p *pool) runAll() {
	// order units by estimated cost, biggest first
	order := make([]int, len(p.units))
	for i := range order {
		order[i] = i
	}
	cost := func(ep *EP) int {
		n := 0
		for _, s := range ep.Seeds {
			n += len(s)
		}
		if p.c.Thorough() {
			for _, s := range ep.Seeds {
				if len(s) <= ep.pairMax() {
					n += len(s) * len(s) / 8
				}
			}
		}
		return n*20 + 70000
	}
	ucost := func(u unit) int { return cost(u.EP) / u.N }
	sort.SliceStable(order, func(a, b int) bool { return ucost(p.units[order[a]]) > ucost(p.units[order[b]]) })
	units := make(chan int, len(order))
	for _, u := range order {
		if p.units[u].EP.Name == selfTestName {
			continue // run by selfTest(), never part of the verdict
		}
		units <- u
	}
	close(units)
	nw := runtime.NumCPU()
	if nw > 16 {
		nw = 16
	}
	var wg sync.WaitGroup
	for k := 0; k < nw; k++ {
		wg.Add(1)
		go func() {
			defer wg.Done()
			var w *worker
			defer func() { w.kill() }()
			for u := range units {
				if p.c.DeadlineExceeded() {
					p.c.Cap("units skipped after the internal deadline")
					continue
				}
				w = p.runUnit(w, u)
			}
		}()
	}
	wg.Wait()
}

func (p *pool) fresh(old *worker) *worker {
	if old != nil {
		old.kill()
		p.agg.mu.Lock()
		p.agg.restarts++
		p.agg.mu.Unlock()
	}
	w, err := p.spawn()
	if err != nil {
		p.c.Fatalf("cannot start worker: %v", err)
	}
	return w
}

func (p *pool) printSlowest(n int) {
	type ut struct {
		name string
		d    time.Duration
	}
	var l []ut
	p.agg.mu.Lock()
	for u, d := range p.unitTime {
		l = append(l, ut{p.units[u].label(), d})
	}
	p.agg.mu.Unlock()
	sort.Slice(l, func(a, b int) bool { return l[a].d > l[b].d })
	for i := 0; i < n && i < len(l); i++ {
		fmt.Printf("  slow unit %-70s %.1fs\n", l[i].name, l[i].d.Seconds())
	}
}

func (p *pool) runUnit(w *worker, u int) *worker {
	t0 := time.Now()
	defer func() {
		p.agg.mu.Lock()
		p.unitTime[u] = time.Since(t0)
		p.agg.mu.Unlock()
	}()
	ep := p.units[u].EP
	next := 0
	triage := 0
	for {
		if w == nil {
			w = p.fresh(nil)
		}
		if !w.send("RUN %d %d -1 0", u, next) {
			w = p.fresh(w)
			continue
		}
		batchEnd := 0
		end := p.follow(w, u, &next, p.hbTimeout, nil, &batchEnd)
		if end == endDone {
			return w
		}
		// the worker died or went silent somewhere at or after case `next`
		triage++
		if triage > maxTriagePerUnit {
			p.c.Cap(fmt.Sprintf("%s: more than %d worker deaths, rest of the unit skipped", ep.Name, maxTriagePerUnit))
			return p.fresh(w)
		}
		w = p.fresh(w)
		// careful mode: case by case over the batch the worker had announced
		var at *delta
		limit := batchEnd - next
		if limit <= 0 {
			limit = 2 * batchMax
		}
		if !w.send("RUN %d %d %d 1", u, next, limit) {
			continue
		}
		end = p.follow(w, u, &next, p.inTimeout, &at, nil)
		if end == endDone {
			p.noteTransient(ep.Name)
			return w
		}
		if end == endStop {
			p.noteTransient(ep.Name)
			continue
		}
		detail := w.stderr.firstFatal()
		kind := "fatal@" + strings.TrimPrefix(detail, "fatal error: ")
		if end == endHung {
			kind = "hang"
			detail = fmt.Sprintf("no return within %s", p.inTimeout)
		}
		w = p.fresh(w)
		if at == nil || at.Next < next {
			// died before announcing a case: nothing to pin down
			p.noteTransient(ep.Name)
			continue
		}
		// confirm on 3 fresh workers
		bad := 0
		for k := 0; k < 3; k++ {
			cw := p.fresh(nil)
			n2 := at.Next
			var at2 *delta
			cw.send("RUN %d %d 1 1", u, at.Next)
			e2 := p.follow(cw, u, &n2, p.inTimeout, &at2, nil)
			if e2 == endDied || e2 == endHung {
				bad++
				if e2 == endDied {
					detail = cw.stderr.firstFatal()
				}
			}
			cw.kill()
		}
		name := at.Name
		if name == "" {
			name = ep.Name
		}
		if bad == 3 {
			p.agg.mu.Lock()
			p.agg.fatals[name] = append(p.agg.fatals[name], fatalRec{In: at.In, Kind: kind, Detail: detail})
			p.agg.evals[name]++ // the case was evaluated (and failed)
			p.agg.mu.Unlock()
		} else {
			p.noteTransient(ep.Name)
		}
		next = at.Next + 1
	}
}

func (p *pool) noteTransient(name string) {
	p.agg.mu.Lock()
	p.agg.transient++
	p.agg.mu.Unlock()
	if p.quiet {
		return
	}
	fmt.Printf("C07 note: a worker death/silence in %s did not reproduce (not a verdict)\n", name)
}

// selfTest drives the synthetic entry point c07.selftest (registry.go) through the very same
// worker / triage machinery and demands that a panic, an over-allocation, a fatal stack overflow
// and a hang are each detected and attributed to the right input. It is the self-test of E5: if
// any of the four goes unnoticed the run is a harness error, not a verdict.
func selfTest(c *vf.Ctx, reg []*EP) error {
	agg := newAggregate()
	go func() {
		for range agg.distinctCh {
		}
	}()
	p := newPool(c, reg, agg)
	p.hbTimeout, p.inTimeout, p.quiet = 4*time.Second, 2*time.Second, true
	var w *worker
	found := false
	for u, un := range p.units {
		if un.EP.Name == selfTestName {
			w = p.runUnit(w, u)
			found = true
		}
	}
	w.kill()
	close(agg.distinctCh)
	if !found {
		return fmt.Errorf("no self-test entry point in the registry")
	}
	var miss []string
	if pr := agg.panics[selfTestName]["outside-manticore"]; pr == nil || string(pr.In) != "panic" {
		miss = append(miss, "panic on input \"panic\" not reported")
	}
	okAlloc := false
	for _, a := range agg.allocs[selfTestName] {
		if string(a.In) == "alloc" && a.Bytes >= 4<<20 {
			okAlloc = true
		}
	}
	if !okAlloc || len(agg.allocs[selfTestName]) != 1 {
		miss = append(miss, fmt.Sprintf("over-allocation on input \"alloc\" not reported exactly once (%d reports)", len(agg.allocs[selfTestName])))
	}
	var hang, die bool
	for _, f := range agg.fatals[selfTestName] {
		switch {
		case f.Kind == "hang" && string(f.In) == "hang":
			hang = true
		case strings.Contains(f.Kind, "stack overflow") && string(f.In) == "die":
			die = true
		default:
			miss = append(miss, fmt.Sprintf("unexpected fatal record %q on %q", f.Kind, f.In))
		}
	}
	if !hang {
		miss = append(miss, "hang on input \"hang\" not reported")
	}
	if !die {
		miss = append(miss, "stack overflow on input \"die\" not reported")
	}
	if n := len(agg.panics[selfTestName]); n != 1 {
		miss = append(miss, fmt.Sprintf("%d panic sites reported, want 1", n))
	}
	if os.Getenv("C07_VERBOSE") != "" {
		for _, f := range agg.fatals[selfTestName] {
			fmt.Printf("C07 self-test: input %q -> %s (%s)\n", f.In, f.Kind, f.Detail)
		}
		for _, a := range agg.allocs[selfTestName] {
			fmt.Printf("C07 self-test: input %q -> %d bytes allocated\n", a.In, a.Bytes)
		}
		for w, pr := range agg.panics[selfTestName] {
			fmt.Printf("C07 self-test: input %q -> panic at %s: %s\n", pr.In, w, pr.Msg)
		}
	}
	if len(miss) > 0 {
		return fmt.Errorf("%s", strings.Join(miss, "; "))
	}
	return nil
}
