//go:build c07dial

package main

import (
	"fmt"
	"net"
	"sync"

	"github.com/TheManticoreProject/Manticore/network/netbios/nbt"
	"github.com/TheManticoreProject/Manticore/zz_verif/dialnet"
)

var dialMu sync.Mutex

// attachConn gives t its connection through the transport's own Connect (package net of the nbt package is
// replaced by a dial shim through the build overlay), whatever the transport stores internally.
func attachConn(t *nbt.NBTTransport, conn net.Conn) error {
	dialMu.Lock()
	defer dialMu.Unlock()
	dialnet.Next = conn
	if err := t.Connect(net.IPv4(192, 0, 2, 7), 139); err != nil {
		dialnet.Next = nil
		return fmt.Errorf("Connect over the dial shim failed: %v", err)
	}
	if dialnet.Next != nil {
		dialnet.Next = nil
		return fmt.Errorf("Connect returned nil without dialling")
	}
	return nil
}
