package main

// Worker side: runs inside a subprocess. Protocol: commands on stdin (one line each), JSON
// records on fd 3. stdout/stderr of the library (some decoders print) never touch the protocol.

import (
	"bufio"
	"encoding/json"
	"fmt"
	"os"
	"runtime"
	"runtime/debug"
	"strconv"
	"strings"
	"syscall"
	"time"

	"verif/vf"
)

const batchMax = 256

type panicRec struct {
	Name  string `json:"n"`
	Where string `json:"w"`
	Msg   string `json:"m"`
	In    []byte `json:"i"`
	Gen   string `json:"g"`
	Count int64  `json:"c"`
}

type allocRec struct {
	Name  string `json:"n"`
	In    []byte `json:"i"`
	Bytes uint64 `json:"b"`
}

type sampleRec struct {
	Name string `json:"n"`
	Gen  string `json:"g"`
	In   []byte `json:"i"`
	Out  string `json:"o"`
}

// delta is what a worker reports: everything about cases [prev Next, Next) of unit Unit.
type delta struct {
	Unit     int              `json:"u"`
	Next     int              `json:"x"`           // all cases with index < Next are accounted for
	Done     bool             `json:"d,omitempty"` // enumeration of the unit exhausted
	Stop     bool             `json:"s,omitempty"` // limit reached
	BatchEnd int              `json:"b,omitempty"` // the worker is about to run cases [Next, BatchEnd)
	At       bool             `json:"a,omitempty"` // careful mode: about to run case Next (In/Name set)
	In       []byte           `json:"i,omitempty"`
	Name     string           `json:"n,omitempty"`
	Evals    map[string]int64 `json:"e,omitempty"`
	Gens     map[string]int64 `json:"g,omitempty"`
	OK       int64            `json:"ok,omitempty"`
	Err      int64            `json:"er,omitempty"`
	SeedOK   int64            `json:"so,omitempty"`
	Panics   []panicRec       `json:"p,omitempty"`
	Allocs   []allocRec       `json:"al,omitempty"`
	Samples  []sampleRec      `json:"sm,omitempty"`
	Distinct int64            `json:"dn,omitempty"`
}

type wcase struct {
	idx  int
	in   []byte
	gen  string
	name string
}

type wstate struct {
	out     *bufio.Writer
	enc     *json.Encoder
	d       delta
	panics  map[string]*panicRec // name|where
	lastOut time.Time
	nsample map[string]int
}

func workerMain(thorough bool) {
	// hard limits: address space 6 GiB, stack 64 MiB (stack overflow shows quickly)
	lim := syscall.Rlimit{Cur: 6 << 30, Max: 6 << 30}
	_ = syscall.Setrlimit(syscall.RLIMIT_AS, &lim)
	debug.SetMaxStack(64 << 20)
	debug.SetGCPercent(200)
	runtime.GOMAXPROCS(1)

	reg := buildRegistry(thorough)
	if len(os.Args) > 3 && registryDigest(reg) != os.Args[3] {
		fmt.Fprintln(os.Stderr, "fatal error: c07 worker registry differs from the parent's (non-deterministic seed?)")
		os.Exit(6)
	}
	units := buildUnits(reg)
	f := os.NewFile(3, "results")
	if f == nil {
		os.Exit(3)
	}
	w := &wstate{out: bufio.NewWriterSize(f, 1<<16)}
	w.enc = json.NewEncoder(w.out)
	in := bufio.NewScanner(os.Stdin)
	in.Buffer(make([]byte, 1<<20), 1<<20)
	for in.Scan() {
		fs := strings.Fields(in.Text())
		if len(fs) == 0 {
			continue
		}
		switch fs[0] {
		case "RUN": // RUN unit from limit careful(0/1)
			u, _ := strconv.Atoi(fs[1])
			from, _ := strconv.Atoi(fs[2])
			limit, _ := strconv.Atoi(fs[3])
			careful := fs[4] == "1"
			if u < 0 || u >= len(units) {
				os.Exit(4)
			}
			w.runUnit(units[u], u, from, limit, careful, thorough)
		case "QUIT":
			return
		}
	}
}

func (w *wstate) reset(u, next int) {
	w.d = delta{Unit: u, Next: next, Evals: map[string]int64{}, Gens: map[string]int64{}}
	w.panics = map[string]*panicRec{}
}

func (w *wstate) flush(final bool) {
	for _, p := range w.panics {
		w.d.Panics = append(w.d.Panics, *p)
	}
	if err := w.enc.Encode(&w.d); err != nil {
		os.Exit(5)
	}
	w.out.Flush()
	w.lastOut = time.Now()
	w.reset(w.d.Unit, w.d.Next)
}

func (w *wstate) runUnit(un unit, u, from, limit int, careful, thorough bool) {
	ep := un.EP
	w.reset(u, from)
	w.nsample = map[string]int{}
	w.lastOut = time.Now()
	bsize := batchMax
	batch := make([]wcase, 0, batchMax)
	idx := 0
	end := -1
	if limit >= 0 {
		end = from + limit
	}
	stopped := false
	runBatch := func() {
		if len(batch) == 0 {
			return
		}
		if careful {
			for i := range batch {
				w.d.Next = batch[i].idx
				w.d.At, w.d.In, w.d.Name = true, batch[i].in, batch[i].name
				w.flush(false)
				w.d.At, w.d.In, w.d.Name = false, nil, ""
				w.exec(ep, batch[i:i+1], &bsize)
				w.d.Next = batch[i].idx + 1
				w.flush(false)
			}
		} else {
			// announce the batch (and hand over everything accounted so far) before running it: if
			// this process dies, the parent knows exactly which index range to re-run case by case
			w.d.BatchEnd = batch[len(batch)-1].idx + 1
			w.flush(false)
			w.exec(ep, batch, &bsize)
			w.d.Next = batch[len(batch)-1].idx + 1
		}
		batch = batch[:0]
	}
	total := forEachCase(ep, thorough, func(in []byte, gen string) bool {
		i := idx
		idx++
		if i < from {
			return true
		}
		if end >= 0 && i >= end {
			stopped = true
			return false
		}
		if un.N > 1 && i%un.N != un.Shard {
			return true
		}
		cp := make([]byte, len(in))
		copy(cp, in)
		name := ep.Name
		if ep.Attr != nil {
			name = ep.Attr(cp)
		}
		batch = append(batch, wcase{idx: i, in: cp, gen: gen, name: name})
		if len(batch) >= bsize || careful {
			runBatch()
		}
		return true
	})
	runBatch()
	if stopped {
		w.d.Stop = true
	} else {
		w.d.Done = true
		w.d.Next = total
		// cases of this shard: indices i < total with i mod N == Shard
		w.d.Distinct = int64(total)
		if un.N > 1 {
			w.d.Distinct = int64((total - un.Shard + un.N - 1) / un.N)
		}
	}
	w.flush(true)
}

type outcome struct {
	panicked   bool
	msg, where string
	err        error
}

func call(ep *EP, in []byte) (o outcome) {
	o.panicked, o.msg, o.where = vf.Try(func() { o.err = ep.Call(in) })
	return
}

// exec runs a batch under the allocation oracle and records outcomes.
func (w *wstate) exec(ep *EP, batch []wcase, bsize *int) {
	outs := make([]outcome, len(batch))
	minLen := len(batch[0].in)
	for _, c := range batch {
		if len(c.in) < minLen {
			minLen = len(c.in)
		}
	}
	var m0, m1 runtime.MemStats
	runtime.ReadMemStats(&m0)
	for i := range batch {
		outs[i] = call(ep, batch[i].in)
	}
	runtime.ReadMemStats(&m1)
	for i, c := range batch {
		w.record(ep, c, outs[i])
	}
	if m1.TotalAlloc-m0.TotalAlloc > allocBound(minLen) {
		// some call may have exceeded its own bound: bisect (decoders are deterministic)
		if len(batch) > 1 && *bsize > 1 && len(batch) >= *bsize {
			*bsize /= 2 // adapt: entry points with a large constant cost get smaller batches
		}
		w.bisect(ep, batch)
	}
}

func measure(ep *EP, cases []wcase) uint64 {
	var m0, m1 runtime.MemStats
	runtime.ReadMemStats(&m0)
	for i := range cases {
		call(ep, cases[i].in)
	}
	runtime.ReadMemStats(&m1)
	return m1.TotalAlloc - m0.TotalAlloc
}

func (w *wstate) bisect(ep *EP, cases []wcase) {
	if len(cases) == 1 {
		c := cases[0]
		best := ^uint64(0)
		for k := 0; k < 3; k++ {
			if a := measure(ep, cases); a < best {
				best = a
			}
		}
		if best > allocBound(len(c.in)) {
			w.d.Allocs = append(w.d.Allocs, allocRec{Name: c.name, In: c.in, Bytes: best})
		}
		return
	}
	h := len(cases) / 2
	for _, part := range [][]wcase{cases[:h], cases[h:]} {
		minLen := len(part[0].in)
		for _, c := range part {
			if len(c.in) < minLen {
				minLen = len(c.in)
			}
		}
		if measure(ep, part) > allocBound(minLen) {
			w.bisect(ep, part)
		}
	}
}

func (w *wstate) record(ep *EP, c wcase, o outcome) {
	w.d.Evals[c.name]++
	w.d.Gens[c.gen]++
	out := "value"
	switch {
	case o.panicked:
		out = "panic@" + o.where
		k := c.name + "|" + o.where
		p := w.panics[k]
		if p == nil {
			p = &panicRec{Name: c.name, Where: o.where, Msg: o.msg, In: c.in, Gen: c.gen}
			w.panics[k] = p
		} else if len(c.in) < len(p.In) {
			p.In, p.Msg, p.Gen = c.in, o.msg, c.gen
		}
		p.Count++
	case o.err != nil:
		w.d.Err++
		out = "error: " + o.err.Error()
	default:
		w.d.OK++
		if c.gen == "seed" {
			w.d.SeedOK++
		}
	}
	// a few written-out cases per generator kind for the evidence file
	sk := c.gen + "/" + out[:min(5, len(out))]
	if w.nsample[sk] < 1 && len(c.in) <= 96 {
		w.nsample[sk]++
		if len(out) > 160 {
			out = out[:160]
		}
		w.d.Samples = append(w.d.Samples, sampleRec{Name: c.name, Gen: c.gen, In: c.in, Out: out})
	}
}

var _ = fmt.Sprint
