package main

import (
	"encoding/asn1"
	"encoding/binary"
	"errors"
	"io"
	"net"
	"reflect"
	"time"
	"unsafe"

	"github.com/TheManticoreProject/Manticore/network/llmnr"
	"github.com/TheManticoreProject/Manticore/network/netbios/nbt"
	"github.com/TheManticoreProject/Manticore/network/netbios/nbtns"
	"github.com/TheManticoreProject/Manticore/network/smb/smb_v10/spnego"
	"github.com/TheManticoreProject/Manticore/network/smb/smb_v10/spnego/ntlm"
	"github.com/TheManticoreProject/Manticore/network/smb/smb_v10/spnego/ntlm/version"
	"github.com/TheManticoreProject/Manticore/utils/encoding/utf16"

	"verif/vf"
)

// ---------------------------------------------------------------- SPNEGO / NTLMSSP

// avPairs builds an MS-NLMP AV_PAIR list terminated by MsvAvEOL.
func avPairs(pairs ...any) []byte {
	var out []byte
	for i := 0; i+1 < len(pairs); i += 2 {
		id := pairs[i].(uint16)
		val := pairs[i+1].([]byte)
		out = binary.LittleEndian.AppendUint16(out, id)
		out = binary.LittleEndian.AppendUint16(out, uint16(len(val)))
		out = append(out, val...)
	}
	return append(out, 0, 0, 0, 0)
}

// challengeMsg hand-builds an MS-NLMP 2.2.1.2 CHALLENGE_MESSAGE (the library has no encoder for it).
func challengeMsg(flags uint32, target, info []byte) []byte {
	b := append([]byte{}, ntlm.NTLM_SIGNATURE...)
	b = binary.LittleEndian.AppendUint32(b, ntlm.NTLM_CHALLENGE)
	off := uint32(56)
	b = binary.LittleEndian.AppendUint16(b, uint16(len(target)))
	b = binary.LittleEndian.AppendUint16(b, uint16(len(target)))
	b = binary.LittleEndian.AppendUint32(b, off)
	b = binary.LittleEndian.AppendUint32(b, flags)
	b = append(b, 1, 2, 3, 4, 5, 6, 7, 8) // server challenge
	b = append(b, 0, 0, 0, 0, 0, 0, 0, 0) // reserved
	b = binary.LittleEndian.AppendUint16(b, uint16(len(info)))
	b = binary.LittleEndian.AppendUint16(b, uint16(len(info)))
	b = binary.LittleEndian.AppendUint32(b, off+uint32(len(target)))
	vb, _ := version.DefaultVersion().Marshal()
	b = append(b, vb...)
	b = append(b, target...)
	b = append(b, info...)
	return b
}

func regSPNEGO() {
	info := avPairs(ntlm.MsvAvNbDomainName, utf16.EncodeUTF16LE("DOM"), ntlm.MsvAvNbComputerName, utf16.EncodeUTF16LE("SRV"),
		ntlm.MsvAvTimestamp, []byte{1, 2, 3, 4, 5, 6, 7, 8})
	target := utf16.EncodeUTF16LE("DOM")
	flagSets := []uint32{
		ntlm.NTLMSSP_NEGOTIATE_UNICODE | ntlm.NTLMSSP_NEGOTIATE_EXTENDED_SESSIONSECURITY | ntlm.NTLMSSP_NEGOTIATE_TARGET_INFO | ntlm.NTLMSSP_NEGOTIATE_VERSION,
		ntlm.NTLMSSP_NEGOTIATE_UNICODE | ntlm.NTLMSSP_NEGOTIATE_VERSION, // NTLMv1 path
		0,
	}
	var challenges [][]byte
	for _, f := range flagSets {
		challenges = append(challenges, challengeMsg(f, target, info))
	}
	challenges = append(challenges, challengeMsg(flagSets[0], nil, nil))

	bin("spnego.ntlm.ParseChallengeMessage", func(in []byte) error {
		_, err := ntlm.ParseChallengeMessage(in)
		return err
	}, challenges...)
	bin("spnego.ntlm.ParseTargetInfo", func(in []byte) error {
		_, err := ntlm.ParseTargetInfo(in)
		return err
	}, info, avPairs(), avPairs(ntlm.MsvAvFlags, []byte{2, 0, 0, 0}))
	codecEP("spnego.ntlm.version.Version.Unmarshal", func() codec { v := version.DefaultVersion(); return &versionCodec{v} })

	// SPNEGO wrappers, made by the library's own encoders
	var tokens [][]byte
	neg, _ := ntlm.CreateNegotiateMessage("DOM", "WS", true)
	for _, inner := range append([][]byte{neg}, challenges...) {
		if t, err := spnego.CreateNegTokenInit(inner); err == nil {
			tokens = append(tokens, t)
		}
		for _, st := range []asn1.Enumerated{spnego.AcceptIncomplete, spnego.Accept, spnego.Reject} {
			if t, err := spnego.CreateNegTokenResp(st, spnego.NtlmOID, inner); err == nil {
				tokens = append(tokens, t)
			}
		}
	}
	if t, err := spnego.CreateNegTokenResp(spnego.Accept, spnego.NtlmOID, nil); err == nil {
		tokens = append(tokens, t)
	}
	// hand-built long-form GSS length (0x60 0x82 hi lo) in front of the same body
	if len(tokens) > 0 {
		t := tokens[0]
		if len(t) > 2 && t[1]&0x80 == 0 {
			tokens = append(tokens, cat([]byte{0x60, 0x82, byte((len(t) - 2) >> 8), byte(len(t) - 2)}, t[2:]))
			tokens = append(tokens, cat([]byte{0x60, 0x81, byte(len(t) - 2)}, t[2:]))
		}
	}
	bin("spnego.ExtractNTLMToken", func(in []byte) error {
		_, err := spnego.ExtractNTLMToken(in)
		return err
	}, tokens...).Shards = 3
	bin("spnego.ParseNegTokenResp", func(in []byte) error {
		_, err := spnego.ParseNegTokenResp(in)
		return err
	}, tokens...)
	for _, v := range []struct {
		name string
		t    spnego.AuthType
		uni  bool
	}{{"NTLM,unicode", spnego.AuthTypeNTLM, true}, {"NTLM,oem", spnego.AuthTypeNTLM, false}, {"Kerberos", spnego.AuthTypeKerberos, true}} {
		v := v
		ep := bin("spnego.AuthContext.ProcessChallengeToken["+v.name+"]", func(in []byte) error {
			ctx := spnego.NewAuthContext(v.t, "DOM", "user", "Passw0rd", "WS", v.uni)
			_, err := ctx.ProcessChallengeToken(in)
			return err
		}, tokens...)
		ep.Shards = 4
		if v.name != "NTLM,unicode" {
			ep.SmallFull, ep.Small16 = [2]int{1, 2}, [2]int{2, 3}
		}
	}
}

type versionCodec struct{ v version.Version }

func (c *versionCodec) Marshal() ([]byte, error)        { return c.v.Marshal() }
func (c *versionCodec) Unmarshal(b []byte) (int, error) { return c.v.Unmarshal(b) }

// ---------------------------------------------------------------- LLMNR

func regLLMNR() {
	mkMsg := func(build func(m *llmnr.Message)) []byte {
		m := llmnr.NewMessage()
		m.ID = 0x1234 // NewMessage draws a random id: seeds must be identical in every process
		var out []byte
		var err error
		if p, _, _ := vf.Try(func() { build(m); out, err = m.Encode() }); p || err != nil {
			return nil
		}
		return out
	}
	query := mkMsg(func(m *llmnr.Message) { m.AddQuestion("host.local", llmnr.TypeA, llmnr.ClassIN) })
	resp := mkMsg(func(m *llmnr.Message) {
		m.SetResponse()
		m.AddQuestion("host.local", llmnr.TypeA, llmnr.ClassIN)
		m.AddAnswerClassINTypeA("host.local", "192.168.1.10")
		m.AddAnswerClassINTypeAAAA("host.local", "fe80::1")
	})
	empty := mkMsg(func(m *llmnr.Message) {})
	// hand-built response using a compression pointer for the answer name (RFC 1035 4.1.4)
	comp := cat([]byte{0x12, 0x34, 0x80, 0x00, 0, 1, 0, 1, 0, 0, 0, 0},
		[]byte{4, 'h', 'o', 's', 't', 5, 'l', 'o', 'c', 'a', 'l', 0}, []byte{0, 1, 0, 1},
		[]byte{0xC0, 12}, []byte{0, 1, 0, 1, 0, 0, 0, 30, 0, 4, 10, 0, 0, 1})
	// label followed by a pointer, and a pointer to a pointer
	comp2 := cat([]byte{0x12, 0x34, 0x80, 0x00, 0, 1, 0, 2, 0, 0, 0, 0},
		[]byte{4, 'h', 'o', 's', 't', 5, 'l', 'o', 'c', 'a', 'l', 0}, []byte{0, 1, 0, 1},
		[]byte{1, 'a', 0xC0, 17}, []byte{0, 1, 0, 1, 0, 0, 0, 30, 0, 4, 10, 0, 0, 1},
		[]byte{0xC0, 28}, []byte{0, 28, 0, 1, 0, 0, 0, 30, 0, 2, 0xAA, 0xBB})
	bin("llmnr.DecodeMessage", func(in []byte) error {
		_, err := llmnr.DecodeMessage(in)
		return err
	}, query, resp, empty, comp, comp2)

	name, _ := llmnr.EncodeDomainName("host.local")
	root, _ := llmnr.EncodeDomainName(".")
	long, _ := llmnr.EncodeDomainName("abcdefghijklmnopqrstuvwxyz0123456789.example.local")
	bin("llmnr.DecodeDomainName(data,0)", func(in []byte) error {
		_, _, err := llmnr.DecodeDomainName(in, 0)
		return err
	}, name, root, long, []byte{1, 'a', 0xC0, 0})
	// offset taken from the input: first byte = offset into the rest
	offCall := func(f func(d []byte, off int) error) func(in []byte) error {
		return func(in []byte) error {
			if len(in) == 0 {
				return f(in, 0)
			}
			return f(in[1:], int(in[0]))
		}
	}
	bin("llmnr.DecodeDomainName(data[1:],data[0])", offCall(func(d []byte, off int) error {
		_, _, err := llmnr.DecodeDomainName(d, off)
		return err
	}), cat([]byte{32}, comp), cat([]byte{12}, comp), cat([]byte{48}, comp2), cat([]byte{0}, name), cat([]byte{2}, []byte{1, 'a', 0xC0, 0}))

	q1, _ := llmnr.EncodeQuestion(llmnr.Question{Name: "host.local", Type: llmnr.TypeA, Class: llmnr.ClassIN})
	bin("llmnr.DecodeQuestion(data,0)", func(in []byte) error {
		_, _, err := llmnr.DecodeQuestion(in, 0)
		return err
	}, q1)
	bin("llmnr.DecodeQuestion(data[1:],data[0])", offCall(func(d []byte, off int) error {
		_, _, err := llmnr.DecodeQuestion(d, off)
		return err
	}), cat([]byte{12}, query), cat([]byte{0}, q1), cat([]byte{32}, comp))
	rr1, _ := llmnr.EncodeResourceRecord(llmnr.ResourceRecord{Name: "host.local", Type: llmnr.TypeA, Class: llmnr.ClassIN, TTL: 30, RDLength: 4, RData: []byte{10, 0, 0, 1}})
	rr2, _ := llmnr.EncodeResourceRecord(llmnr.ResourceRecord{Name: "h", Type: llmnr.TypeAAAA, Class: llmnr.ClassIN, TTL: 0xFFFFFFFF, RDLength: 16, RData: make([]byte, 16)})
	bin("llmnr.DecodeResourceRecord(data,0)", func(in []byte) error {
		_, _, err := llmnr.DecodeResourceRecord(in, 0)
		return err
	}, rr1, rr2)
	bin("llmnr.DecodeResourceRecord(data[1:],data[0])", offCall(func(d []byte, off int) error {
		_, _, err := llmnr.DecodeResourceRecord(d, off)
		return err
	}), cat([]byte{32}, comp), cat([]byte{0}, rr1), cat([]byte{48}, comp2))

	// text side of the same files
	const dnAlpha = "a-.0_ \x00"
	text("llmnr.ValidateDomainName", dnAlpha, 5, 6, func(s string) error { return llmnr.ValidateDomainName(s) }, "host.local", ".", "a.b.c")
	text("llmnr.EncodeDomainName", dnAlpha, 5, 6, func(s string) error { _, err := llmnr.EncodeDomainName(s); return err }, "host.local", ".", "a.b.c")
	const ipAlpha = "0129af:./%"
	text("llmnr.IPToRData", ipAlpha, 4, 5, func(s string) error { llmnr.IPToRData(s); return nil }, "192.168.1.10", "fe80::1", "::ffff:1.2.3.4")
	text("llmnr.IPv4ToRData", ipAlpha, 4, 5, func(s string) error { llmnr.IPv4ToRData(s); return nil }, "192.168.1.10", "fe80::1")
	text("llmnr.IPv6ToRData", ipAlpha, 4, 5, func(s string) error { llmnr.IPv6ToRData(s); return nil }, "192.168.1.10", "fe80::1")
}

// ---------------------------------------------------------------- NetBIOS

// scriptConn is a net.Conn whose Read side plays back a fixed byte string in segments of at
// most seg bytes and then reports io.EOF. No sockets, no goroutines.
type scriptConn struct {
	data []byte
	seg  int
}

func (s *scriptConn) Read(p []byte) (int, error) {
	if len(s.data) == 0 {
		return 0, io.EOF
	}
	n := len(p)
	if n > len(s.data) {
		n = len(s.data)
	}
	if s.seg > 0 && n > s.seg {
		n = s.seg
	}
	copy(p, s.data[:n])
	s.data = s.data[n:]
	return n, nil
}
func (s *scriptConn) Write(p []byte) (int, error)      { return len(p), nil }
func (s *scriptConn) Close() error                     { return nil }
func (s *scriptConn) LocalAddr() net.Addr              { return &net.TCPAddr{} }
func (s *scriptConn) RemoteAddr() net.Addr             { return &net.TCPAddr{} }
func (s *scriptConn) SetDeadline(time.Time) error      { return nil }
func (s *scriptConn) SetReadDeadline(time.Time) error  { return nil }
func (s *scriptConn) SetWriteDeadline(time.Time) error { return nil }

// setConn stores c in the unexported field of nbt.NBTTransport that has type net.Conn (fallback when the dial
// shim is not mounted).
func setConn(t *nbt.NBTTransport, c net.Conn) error {
	v := reflect.ValueOf(t).Elem()
	connType := reflect.TypeOf((*net.Conn)(nil)).Elem()
	for i := 0; i < v.NumField(); i++ {
		if f := v.Field(i); f.Type() == connType {
			reflect.NewAt(f.Type(), unsafe.Pointer(f.UnsafeAddr())).Elem().Set(reflect.ValueOf(&c).Elem())
			return nil
		}
	}
	return errors.New("nbt.NBTTransport has no field of type net.Conn")
}

// regNotes: entry points the harness could not drive on this tree (reported as a cap, never as a verdict).
var regNotes []string

func regNetBIOS() {
	// NBNS packets from the library's own encoder
	nm := func(s string) *nbtns.NetBIOSName { return &nbtns.NetBIOSName{Name: s} }
	mk := func(p *nbtns.NBTNSPacket) []byte { return marshalSeed(p) }
	q := mk(&nbtns.NBTNSPacket{Header: nbtns.NBTNSHeader{TransactionID: 0x1234, Flags: nbtns.OpNameQuery | nbtns.FlagBroadcast, Questions: 1},
		Questions: []nbtns.NBTNSQuestion{{Name: nm("WORKSTATION"), Type: 0x20, Class: 1}}})
	r := mk(&nbtns.NBTNSPacket{Header: nbtns.NBTNSHeader{TransactionID: 0x1234, Flags: nbtns.FlagResponse | nbtns.FlagAuthoritative, Answers: 1},
		Answers: []nbtns.NBTNSResourceRecord{{Name: nm("WORKSTATION"), Type: 0x20, Class: 1, TTL: 300, RDLength: 6, RData: []byte{0, 0, 10, 0, 0, 1}}}})
	reg := mk(&nbtns.NBTNSPacket{Header: nbtns.NBTNSHeader{TransactionID: 1, Flags: nbtns.OpRegistration, Questions: 1, Additional: 1},
		Questions:  []nbtns.NBTNSQuestion{{Name: &nbtns.NetBIOSName{Name: "HOST", ScopeID: "example.com"}, Type: 0x20, Class: 1}},
		Additional: []nbtns.NBTNSResourceRecord{{Name: nm("HOST"), Type: 0x20, Class: 1, TTL: 1, RDLength: 6, RData: []byte{0x80, 0, 10, 0, 0, 2}}}})
	all := mk(&nbtns.NBTNSPacket{Header: nbtns.NBTNSHeader{TransactionID: 2, Flags: nbtns.FlagResponse, Questions: 1, Answers: 1, Authority: 1, Additional: 1},
		Questions:  []nbtns.NBTNSQuestion{{Name: nm("A"), Type: 0x21, Class: 1}},
		Answers:    []nbtns.NBTNSResourceRecord{{Name: nm("A"), Type: 0x21, Class: 1, TTL: 0, RDLength: 0}},
		Authority:  []nbtns.NBTNSResourceRecord{{Name: nm("B"), Type: 2, Class: 1, TTL: 5, RDLength: 1, RData: []byte{9}}},
		Additional: []nbtns.NBTNSResourceRecord{{Name: nm("C"), Type: 1, Class: 1, TTL: 5, RDLength: 4, RData: []byte{1, 2, 3, 4}}}})
	hdr := mk(&nbtns.NBTNSPacket{})
	bin("nbtns.NBTNSPacket.Unmarshal", func(in []byte) error {
		_, err := (&nbtns.NBTNSPacket{}).Unmarshal(in)
		return err
	}, q, r, reg, all, hdr)

	enc := func(n *nbtns.NetBIOSName) string { s, _ := n.FirstLevelEncode(); return s }
	text("nbtns.FirstLevelDecode", "ABPQa .\x00", 4, 5, func(s string) error { _, err := nbtns.FirstLevelDecode(s); return err },
		enc(nm("WORKSTATION")), enc(&nbtns.NetBIOSName{Name: "HOST", ScopeID: "example.com"}), enc(nm("")))
	text("nbtns.NetBIOSName.Validate", "Aa- .*\x00", 4, 5, func(s string) error { return (&nbtns.NetBIOSName{Name: s}).Validate() }, "WORKSTATION", "*", "0123456789ABCDEF")
	text("nbtns.NetBIOSName.Validate[scope]", "Aa- .*\x00", 4, 5, func(s string) error { return (&nbtns.NetBIOSName{Name: "HOST", ScopeID: s}).Validate() }, "example.com", "a-.b")
	text("nbtns.NetBIOSName.FirstLevelEncode", "Aa- .*\x00", 4, 5, func(s string) error { _, err := (&nbtns.NetBIOSName{Name: s}).FirstLevelEncode(); return err }, "WORKSTATION", "*", "0123456789ABCDEFG")

	// NBT session transport: Receive over a scripted connection
	frame := func(typ byte, payload []byte) []byte {
		return cat([]byte{typ, byte(len(payload) >> 16 & 1), byte(len(payload) >> 8), byte(len(payload))}, payload)
	}
	frames := [][]byte{frame(0, []byte("\xffSMBhello")), frame(0, nil), frame(0x85, nil), cat(frame(0, []byte{1, 2, 3}), frame(0, []byte{4})), frame(0, make([]byte, 300))}
	if err := attachConn(nbt.NewNBTTransport(), &scriptConn{}); err != nil {
		regNotes = append(regNotes, "nbt.NBTTransport.Receive cannot be driven over a scripted connection on this tree ("+err.Error()+"): its inputs were not enumerated")
		frames = nil
	}
	for _, seg := range []int{0, 1} {
		if frames == nil {
			break
		}
		seg := seg
		name := "nbt.NBTTransport.Receive[whole-stream]"
		if seg == 1 {
			name = "nbt.NBTTransport.Receive[1-byte-segments]"
		}
		bin(name, func(in []byte) error {
			t := nbt.NewNBTTransport()
			if err := attachConn(t, &scriptConn{data: in, seg: seg}); err != nil {
				return nil // probed at registration; cannot happen here
			}
			// a stream may carry several frames: read until the first error (EOF ends every script)
			// (the outcome is "value" when at least one frame was delivered before the stream ended)
			for i := 0; i < 1<<20; i++ {
				if _, err := t.Receive(); err != nil {
					if i > 0 {
						return nil
					}
					return err
				}
			}
			return nil
		}, frames...)
	}
	nc := bin("nbt.NBTTransport.Receive[not-connected]", func(in []byte) error {
		_, err := nbt.NewNBTTransport().Receive()
		return err
	})
	nc.SmallFull, nc.Small16 = [2]int{1, 1}, [2]int{0, 0}
}
