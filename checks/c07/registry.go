package main

// Registry of decoding entry points (property C07 anchors). One EP = one unit of work for a
// worker. Seeds are valid encodings produced by the library's own encoders wherever one exists.

import (
	"crypto/sha256"
	"encoding/binary"
	"encoding/hex"
	"fmt"
	"reflect"
	"runtime/debug"
	"sort"
	"time"

	"verif/vf"
)

type EP struct {
	Name string
	// Call runs the real decoder on in and returns its error (nil when it returned a value).
	Call func(in []byte) error
	// Attr optionally attributes a case to a finer entry point name (SMB commands: the command
	// structure the header bytes of *this input* dispatch to).
	Attr  func(in []byte) string
	Seeds [][]byte
	// PlainSeeds are further valid-by-construction encodings handed to the decoder as they are (no mutation
	// families): counted structures at EVERY count with a buffer of exactly the matching size.
	PlainSeeds [][]byte
	// ParamWords, for SMB messages: the offsets of the aligned 16-bit parameter words of Seeds[i] (i < 2)
	ParamWords func(seed []byte) []int

	// small scope
	Alpha     []byte // text parser: its own delimiter alphabet (nil = binary decoder)
	TextMax   [2]int // quick, thorough maximum length over Alpha
	Prefix    []byte // small-scope strings are appended to this prefix
	SmallFull [2]int // quick, thorough: all byte strings up to this length
	Small16   [2]int // quick, thorough: all strings over alpha16 up to this length
	NoSmall   bool
	PairMax   int
	// Shards > 1 splits the unit of work: shard k runs the cases whose (de-duplicated) index is
	// k mod Shards. Only a matter of load balancing for slow decoders (regexp compiled per call).
	Shards int
}

// unit = one schedulable piece of work: (entry point, shard).
type unit struct {
	EP       *EP
	Shard, N int
}

func (u unit) label() string {
	if u.N <= 1 {
		return u.EP.Name
	}
	return fmt.Sprintf("%s{shard %d/%d}", u.EP.Name, u.Shard, u.N)
}

func buildUnits(reg []*EP) []unit {
	var us []unit
	for _, ep := range reg {
		n := ep.Shards
		if n < 1 {
			n = 1
		}
		for k := 0; k < n; k++ {
			us = append(us, unit{EP: ep, Shard: k, N: n})
		}
	}
	return us
}

func (e *EP) pairMax() int {
	if e.PairMax > 0 {
		return e.PairMax
	}
	return 400
}

var registry []*EP

func add(ep *EP) *EP {
	if ep.Alpha == nil && ep.SmallFull == [2]int{} && ep.Small16 == [2]int{} {
		ep.SmallFull = [2]int{2, 2}
		ep.Small16 = [2]int{3, 4}
	}
	ep.Seeds = dedupSeeds(ep.Seeds)
	registry = append(registry, ep)
	return ep
}

// bin registers a binary decoder.
func bin(name string, call func(in []byte) error, seeds ...[]byte) *EP {
	return add(&EP{Name: name, Call: call, Seeds: seeds})
}

// text registers a text parser with its own small-scope alphabet.
func text(name string, alpha string, nq, nt int, call func(s string) error, seeds ...string) *EP {
	var sb [][]byte
	for _, s := range seeds {
		sb = append(sb, []byte(s))
	}
	return add(&EP{Name: name, Call: func(in []byte) error { return call(string(in)) }, Seeds: sb, Alpha: []byte(alpha), TextMax: [2]int{nq, nt}})
}

func dedupSeeds(s [][]byte) [][]byte {
	seen := map[string]bool{}
	var out [][]byte
	for _, x := range s {
		if x == nil {
			continue
		}
		if seen[string(x)] {
			continue
		}
		seen[string(x)] = true
		out = append(out, x)
	}
	return out
}

const selfTestName = "c07.selftest"

// regSelfTest registers a synthetic entry point (no library code) whose behaviour is known: it is
// only ever run by selfTest() in pool.go to prove that the oracle notices each kind of failure.
func regSelfTest() {
	var sink []byte
	var rec func(n int) int
	rec = func(n int) int { var pad [256]byte; pad[n%256] = 1; return rec(n+1) + int(pad[0]) }
	add(&EP{Name: selfTestName, NoSmall: true, PairMax: 1, Call: func(in []byte) error {
		switch string(in) {
		case "panic":
			panic("c07 self-test")
		case "alloc":
			sink = make([]byte, 5<<20)
			sink[len(sink)-1] = 1
		case "hang":
			for {
				time.Sleep(time.Hour)
			}
		case "die":
			// a small stack limit: the overflow must come within milliseconds also on a busy machine (with the
			// default 1 GB limit the probe needed seconds under load and was taken for a hang)
			debug.SetMaxStack(8 << 20)
			rec(0)
		case "error":
			return fmt.Errorf("self-test error")
		}
		return nil
	}, Seeds: [][]byte{[]byte("ok"), []byte("error"), []byte("panic"), []byte("alloc"), []byte("hang"), []byte("die")}})
}

// thoroughTier selects the richer seed set (more reflect-fill values per structure).
var thoroughTier bool

func buildRegistry(thorough bool) []*EP {
	thoroughTier = thorough
	registry = nil
	regSelfTest()
	regSMB()
	regSPNEGO()
	regLLMNR()
	regNetBIOS()
	regKeyCredential()
	regLDAP()
	regCrypto()
	regUUID()
	regWindows()
	regIP()
	sort.SliceStable(registry, func(a, b int) bool { return registry[a].Name < registry[b].Name })
	return registry
}

// registryDigest identifies the exact registry (names and seeds): parent and workers must
// agree on it, otherwise case indices would not mean the same thing in both.
func registryDigest(reg []*EP) string {
	h := sha256.New()
	for _, ep := range reg {
		h.Write([]byte(ep.Name))
		h.Write([]byte{0})
		for _, s := range ep.Seeds {
			var l [4]byte
			binary.LittleEndian.PutUint32(l[:], uint32(len(s)))
			h.Write(l[:])
			h.Write(s)
		}
	}
	return hex.EncodeToString(h.Sum(nil)[:8])
}

// ---------------------------------------------------------------- reflection filler

// fillValue sets every settable scalar to n, every byte slice / string to n bytes, every other
// slice to min(n,2) filled elements: a consistent "all counts are n, all buffers hold n bytes"
// instance, so library-encoded seeds exercise the variable-length paths of the decoders.
func fillValue(v reflect.Value, n int, depth int) {
	if depth > 6 || !v.CanSet() {
		return
	}
	switch v.Kind() {
	case reflect.Uint8, reflect.Uint16, reflect.Uint32, reflect.Uint64, reflect.Uint:
		v.SetUint(uint64(n))
	case reflect.Int8, reflect.Int16, reflect.Int32, reflect.Int64, reflect.Int:
		v.SetInt(int64(n))
	case reflect.String:
		v.SetString("ABCDEFGH"[:n%9])
	case reflect.Slice:
		if v.Type().Elem().Kind() == reflect.Uint8 {
			b := make([]byte, n)
			for i := range b {
				b[i] = byte(0x41 + i)
			}
			v.Set(reflect.ValueOf(b).Convert(v.Type()))
			return
		}
		k := n
		if k > 2 {
			k = 2
		}
		s := reflect.MakeSlice(v.Type(), k, k)
		for i := 0; i < k; i++ {
			fillValue(s.Index(i), n, depth+1)
		}
		v.Set(s)
	case reflect.Array:
		for i := 0; i < v.Len(); i++ {
			fillValue(v.Index(i), n, depth+1)
		}
	case reflect.Struct:
		t := v.Type()
		if t.Name() == "Command" { // embedded command_interface.Command: owned by Marshal
			return
		}
		if t.Name() == "SMB_STRING" {
			b := make([]byte, n)
			for i := range b {
				b[i] = byte(0x41 + i)
			}
			v.FieldByName("Buffer").Set(reflect.ValueOf(b))
			v.FieldByName("Length").SetUint(uint64(n))
			v.FieldByName("BufferFormat").SetUint(uint64(n))
			return
		}
		for i := 0; i < v.NumField(); i++ {
			fillValue(v.Field(i), n, depth+1)
		}
	case reflect.Ptr:
		if v.IsNil() && v.Type().Elem().Kind() == reflect.Struct && v.Type().Elem().Name() != "AndX" {
			v.Set(reflect.New(v.Type().Elem()))
		}
		if !v.IsNil() {
			fillValue(v.Elem(), n, depth+1)
		}
	}
}

// fillValues are the reflect-fill values used for seeds in the current tier.
func fillValues() []int {
	if thoroughTier {
		return []int{0, 1, 2, 3, 4, 5, 8}
	}
	return []int{0, 2, 3, 5}
}

// fillPtr fills *p (p is a pointer to struct).
func fillPtr(p any, n int) {
	if n == 0 {
		return
	}
	fillValue(reflect.ValueOf(p).Elem(), n, 0)
}

type marshaler interface {
	Marshal() ([]byte, error)
}

// marshalSeed returns m.Marshal() or nil when the encoder fails or panics (then it is no seed).
func marshalSeed(m marshaler) []byte {
	var out []byte
	var err error
	if p, _, _ := vf.Try(func() { out, err = m.Marshal() }); p || err != nil {
		return nil
	}
	if out == nil {
		out = []byte{}
	}
	return out
}

func cat(parts ...[]byte) []byte {
	var out []byte
	for _, p := range parts {
		out = append(out, p...)
	}
	if out == nil {
		out = []byte{}
	}
	return out
}
