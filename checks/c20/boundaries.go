package main

import (
	"fmt"
	"math/big"
	"net/netip"

	"github.com/TheManticoreProject/Manticore/network/ip"

	"verif/vf"
)

// rangeBoundaries: for every (start,end) pair of a boundary set, probe the six neighbours of the two
// end points (start-1, start, start+1, end-1, end, end+1) — where every range predicate has its only
// interesting behaviour — with every combination of prefix-length annotations on the three operands.
func rangeBoundaries(c *vf.Ctx) {
	// ---- IPv4
	var E4 []uint32
	for _, u := range []uint32{0, 1, 0xFF, 0x100, 0x0A010203, 0x0A0102FF, 0x0A010300, 0x7FFFFFFF, 0x80000000, 0x80000001, 0xFFFFFFFE, 0xFFFFFFFF} {
		E4 = append(E4, u)
	}
	bitsSet := []uint8{0, 8, 24, 32}
	var n4 int64
	for _, su := range E4 {
		for _, eu := range E4 {
			for _, d := range []int64{-1, 0, 1} {
				for _, base := range []uint32{su, eu} {
					xv := int64(base) + d
					if xv < 0 || xv > 0xFFFFFFFF {
						continue
					}
					xu := uint32(xv)
					want := xu >= su && xu <= eu
					for _, xb := range bitsSet {
						for _, sb := range bitsSet {
							for _, eb := range []uint8{sb, 32 - sb} {
								x, st, en := v4obj(xu, xb), v4obj(su, sb), v4obj(eu, eb)
								var g1, g2 bool
								p, msg, where := vf.Try(func() {
									g1 = x.IsInRange(st, en)
									g2 = (&ip.IPv4Range{Start: st, End: en}).Contains(x)
								})
								n4++
								c.Check("C20/ipv4/range-boundaries/IsInRange-and-IPv4Range.Contains-equal-address-ordering", !p && g1 == want && g2 == want, func() string {
									return fmt.Sprintf("probe %s/%d, range %s/%d .. %s/%d: IsInRange=%v IPv4Range.Contains=%v want %v (prefix lengths do not take part in range membership) panic=%v %s %s",
										v4addr(xu), xb, v4addr(su), sb, v4addr(eu), eb, g1, g2, want, p, msg, where)
								})
							}
						}
					}
				}
			}
		}
	}
	// ---- IPv6
	mk := func(hi, lo uint64) [16]byte {
		var b [16]byte
		for i := 0; i < 8; i++ {
			b[i] = byte(hi >> uint(56-8*i))
			b[8+i] = byte(lo >> uint(56-8*i))
		}
		return b
	}
	var E6 [][16]byte
	for _, hl := range [][2]uint64{{0, 0}, {0, 1}, {0, ^uint64(0)}, {1, 0}, {1, 5}, {1, ^uint64(0)}, {2, 3}, {2, 0}, {0x7FFFFFFFFFFFFFFF, ^uint64(0)}, {0x8000000000000000, 0}, {0x20010db800000000, 0x10}, {0x20010db800000001, 0x08}, {^uint64(0), ^uint64(0) - 1}, {^uint64(0), ^uint64(0)}} {
		E6 = append(E6, mk(hl[0], hl[1]))
	}
	toBig := func(b [16]byte) *big.Int { return new(big.Int).SetBytes(b[:]) }
	max := new(big.Int).Sub(new(big.Int).Lsh(big.NewInt(1), 128), big.NewInt(1))
	var n6 int64
	for _, s := range E6 {
		for _, e := range E6 {
			for _, base := range [][16]byte{s, e} {
				for _, d := range []int64{-2, -1, 0, 1, 2} {
					xv := new(big.Int).Add(toBig(base), big.NewInt(d))
					if xv.Sign() < 0 || xv.Cmp(max) > 0 {
						continue
					}
					var xb [16]byte
					xv.FillBytes(xb[:])
					want := xv.Cmp(toBig(s)) >= 0 && xv.Cmp(toBig(e)) <= 0
					x, st, en := v6obj(xb), v6obj(s), v6obj(e)
					var g1, g2 bool
					p, msg, where := vf.Try(func() {
						g1 = x.IsInRange(st, en)
						g2 = (&ip.IPv6Range{Start: st, End: en}).Contains(x)
					})
					n6++
					c.Check("C20/ipv6/range-boundaries/IsInRange-and-IPv6Range.Contains-equal-address-ordering", !p && g1 == want && g2 == want, func() string {
						return fmt.Sprintf("probe %s, range %s .. %s: IsInRange=%v IPv6Range.Contains=%v want %v panic=%v %s %s",
							netip.AddrFrom16(xb), netip.AddrFrom16(s), netip.AddrFrom16(e), g1, g2, want, p, msg, where)
					})
				}
			}
		}
	}
	c.Evals(n4 + n6)
	c.Set("range_boundary_probes", map[string]any{"ipv4": n4, "ipv6": n6})
	c.Sample("range-boundary", "probe = end+1 with the end's upper 64 bits, range 1::5 .. 2::3")
	c.Distinct([]byte("range-boundaries-v4"), []byte(fmt.Sprint(n4)))
	c.Distinct([]byte("range-boundaries-v6"), []byte(fmt.Sprint(n6)))

	// ---- parsed objects are the caller's own: parse, edit the result, parse the same text again
	for _, txt := range []string{"80-443", "0-65535", "8000-8000", "1-2"} {
		var r1, r2, r3 *ip.TCPPortRange
		var e1, e2, e3 error
		p, msg, where := vf.Try(func() {
			r1, e1 = ip.NewTCPPortRangeFromString(txt)
			r2, e2 = ip.NewTCPPortRangeFromString(txt)
			if e1 == nil && r1 != nil {
				r1.Start, r1.End = r1.Start+7, r1.End-1
			}
			r3, e3 = ip.NewTCPPortRangeFromString(txt)
		})
		ok := !p && e1 == nil && e2 == nil && e3 == nil && r2 != nil && r3 != nil && r2.String() == txt && r3.String() == txt && r1 != r2 && r1 != r3
		c.Check("C20/ports/history/parse-edit-parse-again/second-parse-unaffected", ok, func() string {
			return fmt.Sprintf("NewTCPPortRangeFromString(%q) twice, the first result edited by the caller: second=%v third=%v (errors %v %v %v; same pointer handed out twice: %v) panic=%v %s %s", txt, r2, r3, e1, e2, e3, r1 == r2 || r1 == r3, p, msg, where)
		})
	}
	for _, txt := range []string{"10.1.2.3/8", "0.0.0.0/0", "255.255.255.255/32"} {
		var a, b *ip.IPv4
		p, _, _ := vf.Try(func() {
			a = ip.NewIPv4FromString(txt)
			if a != nil {
				a.A, a.MaskBits = a.A^0xFF, 1
			}
			b = ip.NewIPv4FromString(txt)
		})
		c.Check("C20/ipv4/history/parse-edit-parse-again/second-parse-unaffected", !p && b != nil && b.String() == txt && a != b, func() string {
			return fmt.Sprintf("NewIPv4FromString(%q), result edited, parsed again: %v", txt, b)
		})
	}
}
