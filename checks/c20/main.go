// C20 — address, port-range and hash-credential parsers match standard semantics.
// E4: exhaustive lattices of IPv4 addresses x prefix lengths, IPv6 addresses, port pairs and
// padded / re-cased hash specifications; the reference is net/netip (addresses, prefixes,
// ordering), integer arithmetic (ports) and the unpadded parse (hash specifications).
package main

import (
	"encoding/binary"
	"fmt"
	"net/netip"
	"strconv"
	"strings"
	"sync"
	"unicode"

	"github.com/TheManticoreProject/Manticore/network/ip"
	"github.com/TheManticoreProject/Manticore/windows/credentials"

	"verif/enum"
	"verif/vf"
)

func main() { vf.Main("C20", "exploration", run) }

func run(c *vf.Ctx) {
	c.Rule("IPv4: addresses {0.0.0.0, 255.255.255.255, 10.1.2.3, 128.0.0.1, 127.255.255.255, 11.1.2.3, every byte position x all 256 values on a zero background (thorough: also on a 0xFF background, every bit, every pair of bits and complements)} x prefix lengths 0..32 for print/parse/mask; " +
		"IsInSubnet on every address x every subnet base x every length; IsInRange on every address x every (start,end) over a boundary set. " +
		"IPv6: zero, all-ones, counter, every single bit and its complement, every group x boundary values (thorough: every byte position x 256 values) for print/parse; IsInRange/IsInSubnet against every (start,end)/subnet over zero, ones and all 128 single bits. " +
		"ports: all pairs over {0,1,9,10,99,100,999,1000,9999,10000,65534,65535}, every port p in (p,p),(0,p),(p,65535) (thorough: p with each of the 12 boundary ports in both orders), out-of-range neighbours and a malformed list. " +
		"hashes: {LM:NT, :NT, LM:, NT, \"\", \":\"} x {lower, upper, mixed} x all paddings of length <=2 over {space, tab, LF, CR, FF, VT} on both sides, through ParseLMNTHashes and NewCredentials. A case is distinct per (function, input)")
	c.Assume("net/netip (stdlib) implements standard IP text forms, prefix containment, masking and ordering; strconv for port integers")
	c.Assume("membership in the subnet of x/len means: the first len bits equal those of x (host bits of the subnet operand are irrelevant), as netip.Prefix.Contains")
	selfTest(c)
	ipv4(c)
	ipv6(c)
	ports(c)
	hashes(c)
	rangeBoundaries(c)
}

func selfTest(c *vf.Ctx) {
	p := netip.MustParsePrefix("10.0.0.0/8")
	if !p.Contains(netip.MustParseAddr("10.1.2.3")) || p.Contains(netip.MustParseAddr("11.1.2.3")) ||
		netip.MustParsePrefix("192.168.1.17/24").Masked().String() != "192.168.1.0/24" ||
		netip.MustParseAddr("0:0:0:0:0:0:0:1") != netip.MustParseAddr("::1") {
		c.Fatalf("net/netip reference self-test failed")
	}
	if _, err := netip.ParsePrefix("1.2.3.4/33"); err == nil {
		c.Fatalf("net/netip accepts /33")
	}
}

// agg batches passing evaluations per key (hot loops).
type agg struct {
	c  *vf.Ctx
	mu sync.Mutex
	m  map[string]int64
}

func newAgg(c *vf.Ctx) *agg { return &agg{c: c, m: map[string]int64{}} }
func (a *agg) check(key string, ok bool, w func() string) {
	if ok {
		a.mu.Lock()
		a.m[key]++
		a.mu.Unlock()
		return
	}
	a.c.Check(key, false, w)
}
func (a *agg) flush() {
	a.mu.Lock()
	for k, n := range a.m {
		a.c.Pass(k, n)
	}
	a.m = map[string]int64{}
	a.mu.Unlock()
}

// ---------------------------------------------------------------- IPv4

func v4addr(u uint32) netip.Addr {
	var b [4]byte
	binary.BigEndian.PutUint32(b[:], u)
	return netip.AddrFrom4(b)
}
func v4obj(u uint32, bits uint8) *ip.IPv4 {
	return ip.NewIPv4(uint8(u>>24), uint8(u>>16), uint8(u>>8), uint8(u), bits)
}
func v4fields(x *ip.IPv4) string {
	if x == nil {
		return "nil"
	}
	return fmt.Sprintf("{%d.%d.%d.%d MaskBits=%d}", x.A, x.B, x.C, x.D, x.MaskBits)
}

func v4set(c *vf.Ctx) []uint32 {
	seen := map[uint32]bool{}
	var out []uint32
	add := func(u uint32) {
		if !seen[u] {
			seen[u] = true
			out = append(out, u)
		}
	}
	for _, u := range []uint32{0, 0xFFFFFFFF, 0x0A010203, 0x80000001, 0x7FFFFFFF, 0x0B010203} {
		add(u)
	}
	for _, b := range enum.BytePos(4, 0, enum.AllBytes()) {
		add(binary.BigEndian.Uint32(b))
	}
	if c.Thorough() {
		for _, b := range enum.BytePos(4, 0xFF, enum.AllBytes()) {
			add(binary.BigEndian.Uint32(b))
		}
		for _, w := range enum.Words(32) { // every bit, every pair of bits and complements
			add(uint32(w))
		}
	}
	return out
}

func ipv4(c *vf.Ctx) {
	A := v4set(c)
	a := newAgg(c)

	// print / parse / mask for every address x every prefix length
	vf.Par(len(A), func(i int) {
		u := A[i]
		for bits := 0; bits <= 32; bits++ {
			x := v4obj(u, uint8(bits))
			pfx := netip.PrefixFrom(v4addr(u), bits)
			c.Case([]byte("v4"), []byte(pfx.String()))
			var s, cidr string
			if p, msg, where := vf.Try(func() { s = x.String(); cidr = x.CIDRAddress() }); p {
				c.Check("C20/ipv4/String/standard-cidr-text", false, func() string { return fmt.Sprintf("String of %s panicked: %s at %s", v4fields(x), msg, where) })
				continue
			}
			a.check("C20/ipv4/String/standard-cidr-text", s == pfx.String(), func() string {
				return fmt.Sprintf("NewIPv4(%s).String() = %q, standard text is %q", v4fields(x), s, pfx.String())
			})
			a.check("C20/ipv4/CIDRAddress/standard-cidr-text", cidr == pfx.String(), func() string {
				return fmt.Sprintf("NewIPv4(%s).CIDRAddress() = %q, standard text is %q", v4fields(x), cidr, pfx.String())
			})
			a.check("C20/ipv4/ToUInt32/big-endian-value", x.ToUInt32() == u, func() string {
				return fmt.Sprintf("NewIPv4(%s).ToUInt32() = %#x want %#x", v4fields(x), x.ToUInt32(), u)
			})
			// String -> NewIPv4FromString = identity
			var back *ip.IPv4
			p, msg, where := vf.Try(func() { back = ip.NewIPv4FromString(s) })
			a.check("C20/ipv4/NewIPv4FromString/parses-String-output-to-same-value", !p && back != nil && *back == *x, func() string {
				if p {
					return fmt.Sprintf("ip.NewIPv4FromString(%q) panicked: %s at %s", s, msg, where)
				}
				return fmt.Sprintf("ip.NewIPv4FromString(%q) = %s, want %s (the text printed by String())", s, v4fields(back), v4fields(x))
			})
			// network address
			m := pfx.Masked()
			var cm *ip.IPv4
			var cms string
			if p, msg, where := vf.Try(func() { cm = x.ComputeMask(); cms = x.CIDRMask() }); p {
				c.Check("C20/ipv4/ComputeMask/equals-standard-network-address", false, func() string { return fmt.Sprintf("ComputeMask of %s panicked: %s at %s", v4fields(x), msg, where) })
				continue
			}
			mb := m.Addr().As4()
			a.check("C20/ipv4/ComputeMask/equals-standard-network-address", cm != nil && [4]byte{cm.A, cm.B, cm.C, cm.D} == mb && cm.MaskBits == uint8(bits), func() string {
				return fmt.Sprintf("NewIPv4(%s).ComputeMask() = %s, network address of %s is %s", v4fields(x), v4fields(cm), pfx, m)
			})
			a.check("C20/ipv4/CIDRMask/equals-standard-network-prefix-text", cms == m.String(), func() string {
				return fmt.Sprintf("NewIPv4(%s).CIDRMask() = %q, want %q", v4fields(x), cms, m.String())
			})
			// the accessors read the address: after every one of them has been called, the object prints, counts and
			// compares as the address it was built from (a second call sees what the first one left behind)
			{
				var s2, cidr2 string
				var u2 uint32
				var self bool
				p, msg, where := vf.Try(func() {
					x.IsInSubnet(x)
					x.IsInRange(x, x)
					s2, cidr2, u2 = x.String(), x.CIDRAddress(), x.ToUInt32()
					self = x.IsInRange(ip.NewIPv4(byte(u>>24), byte(u>>16), byte(u>>8), byte(u), uint8(bits)), ip.NewIPv4(byte(u>>24), byte(u>>16), byte(u>>8), byte(u), uint8(bits)))
				})
				a.check("C20/ipv4/history/address-unchanged-after-its-accessors-were-called", !p && cidr2 == pfx.String() && u2 == u && self && x.MaskBits == uint8(bits), func() string {
					return fmt.Sprintf("NewIPv4(%s/%d): after String, CIDRAddress, ToUInt32, ComputeMask, CIDRMask, IsInSubnet, IsInRange the object reads String()=%q CIDRAddress()=%q ToUInt32()=%#x MaskBits=%d in-range-of-itself=%v (panic=%v %s %s)", v4addr(u), bits, s2, cidr2, u2, x.MaskBits, self, p, msg, where)
				})
			}
		}
		// prefix lengths above 32 are not IPv4 prefixes
		for _, bits := range []int{33, 34, 40, 64, 128, 255} {
			s := fmt.Sprintf("%s/%d", v4addr(u), bits)
			var back *ip.IPv4
			p, _, _ := vf.Try(func() { back = ip.NewIPv4FromString(s) })
			c.Case([]byte("v4>32"), []byte(s))
			a.check("C20/ipv4/NewIPv4FromString/prefix-length-over-32-refused", p || back == nil, func() string {
				return fmt.Sprintf("ip.NewIPv4FromString(%q) = %s, a prefix length above 32 must be refused", s, v4fields(back))
			})
		}
	})
	a.flush()

	// textbook cases first, so that the recorded witness is the readable one
	for _, t := range []struct {
		x, s uint32
		bits int
	}{{0x0B010203, 0x0A000000, 8}, {0x0A010203, 0x0A000000, 8}, {0x0A010203, 0x0A000005, 8}, {0xC0A80201, 0xC0A80100, 24}, {0xC0A80111, 0xC0A80100, 24}} {
		pfx := netip.PrefixFrom(v4addr(t.s), t.bits)
		want := pfx.Contains(v4addr(t.x))
		k := "C20/ipv4/IsInSubnet/"
		if pfx.Masked().Addr() == pfx.Addr() {
			k += "network-base/"
		} else {
			k += "base-with-host-bits/"
		}
		if want {
			k += "member-accepted"
		} else {
			k += "non-member-rejected"
		}
		got := v4obj(t.x, 32).IsInSubnet(v4obj(t.s, uint8(t.bits)))
		c.Check(k, got == want, func() string {
			return fmt.Sprintf("NewIPv4(%s/32).IsInSubnet(NewIPv4(%s)) = %v, but %s in %s is %v", v4addr(t.x), pfx, got, v4addr(t.x), pfx, want)
		})
	}

	// IsInSubnet: every address x every subnet base x every length
	vf.Par(len(A), func(si int) {
		if c.DeadlineExceeded() {
			return
		}
		s := A[si]
		var cnt [4]int64
		keys := [4]string{
			"C20/ipv4/IsInSubnet/network-base/member-accepted",
			"C20/ipv4/IsInSubnet/network-base/non-member-rejected",
			"C20/ipv4/IsInSubnet/base-with-host-bits/member-accepted",
			"C20/ipv4/IsInSubnet/base-with-host-bits/non-member-rejected",
		}
		for bits := 0; bits <= 32; bits++ {
			pfx := netip.PrefixFrom(v4addr(s), bits)
			aligned := pfx.Masked().Addr() == pfx.Addr()
			sub := v4obj(s, uint8(bits))
			for xi, xu := range A {
				x := v4obj(xu, uint8((bits*7+xi)%33)) // the receiver's own prefix length is irrelevant to membership
				want := pfx.Contains(v4addr(xu))
				var got bool
				p, msg, where := vf.Try(func() { got = x.IsInSubnet(sub) })
				k := 0
				if !aligned {
					k = 2
				}
				if !want {
					k++
				}
				if !p && got == want {
					cnt[k]++
					continue
				}
				c.Check(keys[k], false, func() string {
					if p {
						return fmt.Sprintf("IsInSubnet panicked: %s at %s", msg, where)
					}
					return fmt.Sprintf("NewIPv4(%s).IsInSubnet(NewIPv4(%s)) = %v, but %s in %s is %v", v4fields(x), v4fields(sub), got, v4addr(xu), pfx, want)
				})
			}
		}
		for k, n := range cnt {
			if n > 0 {
				c.Pass(keys[k], n)
			}
		}
		c.Evals(int64(33 * len(A)))
		c.Distinct([]byte("v4subnet"), []byte(fmt.Sprint(s)))
	})
	c.Set("ipv4_addresses", len(A))
	c.Set("ipv4_subnet_cases", int64(len(A))*int64(len(A))*33)
	c.Sample("ipv4-subnet", map[string]any{"address": "11.1.2.3", "subnet": "10.0.0.0/8", "member": false})

	// IsInRange / IPv4Range.Contains: every address x (start,end) over a boundary set
	var E []uint32
	{
		seen := map[uint32]bool{}
		add := func(u uint32) {
			if !seen[u] {
				seen[u] = true
				E = append(E, u)
			}
		}
		for _, u := range []uint32{0, 0xFFFFFFFF, 0x0A010203, 0x80000001, 0x7FFFFFFF, 0x80000000, 0x0A000000, 0x0AFFFFFF} {
			add(u)
		}
		for pos := 0; pos < 4; pos++ {
			for _, v := range []uint32{1, 127, 128, 254, 255} {
				add(v << uint(8*pos))
			}
		}
	}
	vf.Par(len(A), func(i int) {
		xu := A[i]
		x := v4obj(xu, 24)
		xa := v4addr(xu)
		var n int64
		for _, su := range E {
			for _, eu := range E {
				st, en := v4obj(su, 8), v4obj(eu, 16)
				want := xa.Compare(v4addr(su)) >= 0 && xa.Compare(v4addr(eu)) <= 0
				var got, got2 bool
				p, msg, where := vf.Try(func() {
					got = x.IsInRange(st, en)
					got2 = (&ip.IPv4Range{Start: st, End: en}).Contains(x)
				})
				if !p && got == want && got2 == want {
					n++
					continue
				}
				c.Check("C20/ipv4/IsInRange/equals-address-ordering", false, func() string {
					if p {
						return fmt.Sprintf("IsInRange panicked: %s at %s", msg, where)
					}
					return fmt.Sprintf("%s.IsInRange(%s, %s) = %v, IPv4Range.Contains = %v, want %v", xa, v4addr(su), v4addr(eu), got, got2, want)
				})
			}
		}
		c.Pass("C20/ipv4/IsInRange/equals-address-ordering", n)
		c.Evals(int64(len(E) * len(E)))
		c.Distinct([]byte("v4range"), []byte(fmt.Sprint(xu)))
	})
}

// ---------------------------------------------------------------- IPv6

func v6obj(b [16]byte) *ip.IPv6 {
	g := func(i int) uint16 { return binary.BigEndian.Uint16(b[2*i:]) }
	return ip.NewIPv6(g(0), g(1), g(2), g(3), g(4), g(5), g(6), g(7))
}
func v6bytes(x *ip.IPv6) (b [16]byte) {
	for i, g := range []uint16{x.A, x.B, x.C, x.D, x.E, x.F, x.G, x.H} {
		binary.BigEndian.PutUint16(b[2*i:], g)
	}
	return
}

func v6set(c *vf.Ctx) [][16]byte {
	seen := map[[16]byte]bool{}
	var out [][16]byte
	add := func(b [16]byte) {
		if !seen[b] {
			seen[b] = true
			out = append(out, b)
		}
	}
	var z, f, cnt [16]byte
	for i := range f {
		f[i] = 0xff
		cnt[i] = byte(0x10*i + i + 1)
	}
	add(z)
	add(f)
	add(cnt)
	add(netip.MustParseAddr("2001:db8::1").As16())
	add(netip.MustParseAddr("fe80::1:0:0:1").As16())
	add(netip.MustParseAddr("::ffff:10.1.2.3").As16())
	for i := 0; i < 128; i++ {
		b, g := z, f
		b[i/8] |= 0x80 >> uint(i%8)
		g[i/8] &^= 0x80 >> uint(i%8)
		add(b)
		add(g)
	}
	for grp := 0; grp < 8; grp++ {
		for _, v := range []uint16{0x1, 0xf, 0x10, 0xff, 0x100, 0xfff, 0x1000, 0x7fff, 0x8000, 0xfffe, 0xffff, 0xabcd, 0x0a0b} {
			b, g := z, f
			binary.BigEndian.PutUint16(b[2*grp:], v)
			binary.BigEndian.PutUint16(g[2*grp:], v)
			add(b)
			add(g)
		}
	}
	if c.Thorough() {
		for _, b := range enum.U128Lattice(false) {
			add(b)
		}
	}
	return out
}

func ipv6(c *vf.Ctx) {
	A := v6set(c)
	a := newAgg(c)
	vf.Par(len(A), func(i int) {
		b := A[i]
		x := v6obj(b)
		std := netip.AddrFrom16(b)
		c.Case([]byte("v6"), b[:])
		var s string
		if p, msg, where := vf.Try(func() { s = x.String() }); p {
			c.Check("C20/ipv6/String/standard-text-of-same-address", false, func() string { return fmt.Sprintf("String of %s panicked: %s at %s", std, msg, where) })
			return
		}
		pa, err := netip.ParseAddr(s)
		a.check("C20/ipv6/String/standard-text-of-same-address", err == nil && pa.As16() == b, func() string {
			return fmt.Sprintf("IPv6 %x .String() = %q, which standard parsing reads as %v (err %v), want %s", b, s, pa, err, std)
		})
		var back *ip.IPv6
		p, msg, where := vf.Try(func() { back = ip.NewIPv6FromString(s) })
		a.check("C20/ipv6/NewIPv6FromString/parses-String-output-to-same-value", !p && back != nil && *back == *x, func() string {
			if p {
				return fmt.Sprintf("ip.NewIPv6FromString(%q) panicked: %s at %s", s, msg, where)
			}
			return fmt.Sprintf("ip.NewIPv6FromString(%q) = %v, want %v", s, back, x)
		})
		// the standard (compressed / expanded) spellings: refusing is allowed, a different address is not
		for _, txt := range []string{std.String(), std.StringExpanded(), strings.ToUpper(std.StringExpanded())} {
			var y *ip.IPv6
			p, _, _ := vf.Try(func() { y = ip.NewIPv6FromString(txt) })
			a.check("C20/ipv6/NewIPv6FromString/standard-text-never-read-as-another-address", p || y == nil || v6bytes(y) == b, func() string {
				return fmt.Sprintf("ip.NewIPv6FromString(%q) = %v = %x, but the text denotes %x", txt, y, v6bytes(y), b)
			})
		}
		hi := binary.BigEndian.Uint64(b[:8])
		lo := binary.BigEndian.Uint64(b[8:])
		a.check("C20/ipv6/ToUInt128/big-endian-value", x.ToUInt128() == [2]uint64{hi, lo}, func() string {
			return fmt.Sprintf("IPv6 %s ToUInt128() = %x want [%x %x]", std, x.ToUInt128(), hi, lo)
		})
	})
	a.flush()

	// membership: the type carries no prefix length, so "in the subnet of y" is y/128; ranges follow address ordering
	var E [][16]byte
	{
		var z, f [16]byte
		for i := range f {
			f[i] = 0xff
		}
		E = append(E, z, f)
		for i := 0; i < 128; i++ {
			b := z
			b[i/8] |= 0x80 >> uint(i%8)
			E = append(E, b)
		}
	}
	vf.Par(len(A), func(i int) {
		if c.DeadlineExceeded() {
			return
		}
		b := A[i]
		x := v6obj(b)
		xa := netip.AddrFrom16(b)
		var nr, ns int64
		objs := make([]*ip.IPv6, len(E))
		addrs := make([]netip.Addr, len(E))
		for k := range E {
			objs[k], addrs[k] = v6obj(E[k]), netip.AddrFrom16(E[k])
		}
		for si := range E {
			wantSub := netip.PrefixFrom(addrs[si], 128).Contains(xa)
			gotSub := x.IsInSubnet(objs[si])
			if gotSub == wantSub {
				ns++
			} else {
				c.Check("C20/ipv6/IsInSubnet/equals-slash-128-membership", false, func() string {
					return fmt.Sprintf("%s.IsInSubnet(%s) = %v, want %v", xa, addrs[si], gotSub, wantSub)
				})
			}
			for ei := range E {
				want := xa.Compare(addrs[si]) >= 0 && xa.Compare(addrs[ei]) <= 0
				got := x.IsInRange(objs[si], objs[ei])
				if got == want {
					nr++
					continue
				}
				c.Check("C20/ipv6/IsInRange/equals-address-ordering", false, func() string {
					return fmt.Sprintf("%s.IsInRange(%s, %s) = %v, want %v", xa, addrs[si], addrs[ei], got, want)
				})
			}
		}
		// self membership and Range.Contains
		r := &ip.IPv6Range{Start: objs[0], End: objs[1]}
		c.Check("C20/ipv6/IPv6Range/Contains-equals-IsInRange", r.Contains(x) && x.IsInSubnet(v6obj(b)), func() string {
			return fmt.Sprintf("%s not contained in ::-ffff:…:ffff or not in its own subnet", xa)
		})
		c.Pass("C20/ipv6/IsInRange/equals-address-ordering", nr)
		c.Pass("C20/ipv6/IsInSubnet/equals-slash-128-membership", ns)
		c.Evals(nr + ns)
		c.Distinct([]byte("v6range"), b[:])
	})
	c.Set("ipv6_addresses", len(A))
}

// ---------------------------------------------------------------- TCP port ranges

func ports(c *vf.Ctx) {
	a := newAgg(c)
	P := []uint16{0, 1, 9, 10, 99, 100, 999, 1000, 9999, 10000, 65534, 65535}
	type pr struct{ s, e uint16 }
	var pairs []pr
	for _, s := range P {
		for _, e := range P {
			pairs = append(pairs, pr{s, e})
		}
	}
	for p := 0; p < 65536; p++ {
		pairs = append(pairs, pr{uint16(p), uint16(p)}, pr{0, uint16(p)}, pr{uint16(p), 65535})
	}
	if c.Thorough() {
		for p := 0; p < 65536; p++ {
			for _, q := range P {
				pairs = append(pairs, pr{uint16(p), q}, pr{q, uint16(p)})
			}
		}
	}
	vf.Par(len(pairs), func(i int) {
		s, e := pairs[i].s, pairs[i].e
		r := ip.NewTCPPortRange(s, e)
		txt := r.String()
		want := strconv.Itoa(int(s)) + "-" + strconv.Itoa(int(e))
		c.Case([]byte("port"), []byte(want))
		a.check("C20/ports/String/start-dash-end", txt == want && r.Start == s && r.End == e, func() string {
			return fmt.Sprintf("NewTCPPortRange(%d,%d).String() = %q want %q", s, e, txt, want)
		})
		var back *ip.TCPPortRange
		var err error
		p, msg, where := vf.Try(func() { back, err = ip.NewTCPPortRangeFromString(txt) })
		a.check("C20/ports/NewTCPPortRangeFromString/parses-String-output-to-same-value", !p && err == nil && back != nil && back.Start == s && back.End == e, func() string {
			if p {
				return fmt.Sprintf("NewTCPPortRangeFromString(%q) panicked: %s at %s", txt, msg, where)
			}
			return fmt.Sprintf("NewTCPPortRangeFromString(%q) = %v, %v; want {%d %d}", txt, back, err, s, e)
		})
	})
	a.flush()

	// out-of-range neighbours and malformed text must be refused
	var bad []string
	big := []string{"65536", "65537", "65540", "65600", "66000", "70000", "99999", "100000", "655350", "4294967296", "4294967297", "18446744073709551616", "-1"}
	for _, b := range big {
		for _, g := range []string{"0", "1", "1000", "65535"} {
			bad = append(bad, b+"-"+g, g+"-"+b)
		}
		bad = append(bad, b+"-"+b)
	}
	bad = append(bad, "", "-", "--", "1", "65535", "a-b", "1-b", "a-2", "1-2-3", "1--2", "1:2", "1,2", "1-2x", "x1-2", "1.0-2", "1-2.0", "0x10-0x20", "1e3-2e3", "١-٢", "1-2\x00", "1_0-2_0", "+1-2", "1-+2")
	for _, s := range bad {
		var r *ip.TCPPortRange
		var err error
		p, _, _ := vf.Try(func() { r, err = ip.NewTCPPortRangeFromString(s) })
		c.Case([]byte("port-bad"), []byte(s))
		c.Check("C20/ports/NewTCPPortRangeFromString/malformed-or-out-of-range-refused", p || err != nil, func() string {
			return fmt.Sprintf("NewTCPPortRangeFromString(%q) = %v accepted; ports are 0..65535 and the form is <start>-<end>", s, r)
		})
	}
	// spellings the property does not fix (blanks, leading zeros): may be refused, but never read as other numbers
	var soft []string
	for _, s := range []string{"1", "80", "65535"} {
		for _, e := range []string{"2", "443", "65535"} {
			for _, ws := range enum.Strings([]string{" ", "\t", "\n"}, 1) {
				soft = append(soft, ws+s+"-"+e, s+"-"+e+ws, s+ws+"-"+e, s+"-"+ws+e, ws+s+ws+"-"+ws+e+ws)
			}
			soft = append(soft, "0"+s+"-"+e, s+"-0"+e, "00"+s+"-00"+e)
		}
	}
	for _, s := range soft {
		var r *ip.TCPPortRange
		var err error
		p, _, _ := vf.Try(func() { r, err = ip.NewTCPPortRangeFromString(s) })
		c.Case([]byte("port-soft"), []byte(s))
		ok := true
		if !p && err == nil && r != nil {
			f := strings.FieldsFunc(s, func(r rune) bool { return r == '-' || unicode.IsSpace(r) })
			ws, _ := strconv.Atoi(f[0])
			we, _ := strconv.Atoi(f[1])
			ok = int(r.Start) == ws && int(r.End) == we
		}
		c.Check("C20/ports/NewTCPPortRangeFromString/accepted-text-read-as-its-numbers", ok, func() string {
			return fmt.Sprintf("NewTCPPortRangeFromString(%q) = %v", s, r)
		})
	}
	c.Sample("port-range", map[string]any{"text": "65534-65535", "malformed_examples": bad[:6]})
}

// ---------------------------------------------------------------- LM:NT hash specifications

const lmHex = "aad3b435b51404eeaad3b435b51404ee"
const ntHex = "31d6cfe0d16ae931b73c59d7e0c089c0"

func recase(s string, mode int) string {
	switch mode {
	case 0:
		return strings.ToLower(s)
	case 1:
		return strings.ToUpper(s)
	}
	b := []byte(strings.ToLower(s))
	for i := range b {
		if i%2 == 0 {
			b[i] = byte(unicode.ToUpper(rune(b[i])))
		}
	}
	return string(b)
}

type hres struct {
	ok     bool
	lm, nt string
	panic  string
}

func (h hres) String() string {
	if h.panic != "" {
		return "panic: " + h.panic
	}
	if !h.ok {
		return "rejected"
	}
	return fmt.Sprintf("accepted LM=%q NT=%q", h.lm, h.nt)
}
func (h hres) same(o hres) bool {
	return h.panic == "" && o.panic == "" && h.ok == o.ok && (!h.ok || strings.EqualFold(h.lm, o.lm) && strings.EqualFold(h.nt, o.nt))
}

func hashes(c *vf.Ctx) {
	type form struct {
		name      string
		lm, nt    bool
		text      func(lm, nt string) string
		specified bool // the accepted result is fixed by the property (LM and/or NT given in a documented form, or nothing given)
	}
	forms := []form{
		{"LM:NT", true, true, func(l, n string) string { return l + ":" + n }, true},
		{":NT", false, true, func(l, n string) string { return ":" + n }, true},
		{"NT", false, true, func(l, n string) string { return n }, true},
		{"empty", false, false, func(l, n string) string { return "" }, true},
		{"LM:", true, false, func(l, n string) string { return l + ":" }, false},
		{"colon", false, false, func(l, n string) string { return ":" }, false},
	}
	pads := enum.Strings([]string{" ", "\t", "\n", "\r", "\f", "\v"}, 2) // every ASCII white-space character
	caseName := []string{"lower", "upper", "mixed"}
	fns := []struct {
		name string
		f    func(s string) hres
	}{
		{"ParseLMNTHashes", func(s string) (r hres) {
			p, msg, where := vf.Try(func() {
				l, n, err := credentials.ParseLMNTHashes(s)
				r = hres{ok: err == nil, lm: l, nt: n}
			})
			if p {
				r.panic = msg + " at " + where
			}
			return
		}},
		{"NewCredentials", func(s string) (r hres) {
			p, msg, where := vf.Try(func() {
				cr, err := credentials.NewCredentials("DOM", "user", "pw", s)
				r = hres{ok: err == nil && cr != nil}
				if r.ok {
					r.lm, r.nt = cr.GetLMHash(), cr.GetNTHash()
					if cr.LMHash != r.lm || cr.NTHash != r.nt || cr.Domain != "DOM" || cr.Username != "user" || cr.Password != "pw" {
						r.panic = fmt.Sprintf("fields not stored as given: %+v", *cr)
					}
				}
			})
			if p {
				r.panic = msg + " at " + where
			}
			return
		}},
	}
	for _, fn := range fns {
		for _, fm := range forms {
			base := "C20/hashes/" + fn.name + "/" + fm.name + "/"
			var perCase []hres
			for mode := 0; mode < 3; mode++ {
				l, n := recase(lmHex, mode), recase(ntHex, mode)
				plain := fm.text(l, n)
				r0 := fn.f(plain)
				perCase = append(perCase, r0)
				c.Case([]byte(fn.name), []byte(plain))
				if fm.specified {
					want := hres{ok: true}
					if fm.lm {
						want.lm = l
					}
					if fm.nt {
						want.nt = n
					}
					c.Check(base+"unpadded-accepted-with-its-hashes", r0.same(want), func() string {
						return fmt.Sprintf("%s(%q): %s, want %s", fn.name, plain, r0, want)
					})
				}
				for _, lp := range pads {
					for _, rp := range pads {
						if lp == "" && rp == "" {
							continue
						}
						in := lp + plain + rp
						r := fn.f(in)
						c.Case([]byte(fn.name), []byte(in))
						side := "both-sides"
						if lp == "" {
							side = "trailing"
						} else if rp == "" {
							side = "leading"
						}
						c.Check(base+"padding-"+side+"/same-result-as-unpadded", r.same(r0), func() string {
							return fmt.Sprintf("%s(%q) [%s case]: %s; without the surrounding white space %s(%q): %s", fn.name, in, caseName[mode], r, fn.name, plain, r0)
						})
						// an accepted input never loses a syntactically valid hash it contains
						lost := r.panic == "" && r.ok && (fm.lm && !strings.EqualFold(r.lm, l) || fm.nt && !strings.EqualFold(r.nt, n))
						c.Check(base+"accepted-input-keeps-every-valid-hash", !lost, func() string {
							return fmt.Sprintf("%s(%q): %s — accepted without error although the %s given in the input was discarded", fn.name, in, r, map[bool]string{true: "LM/NT hash", false: "hash"}[fm.lm && fm.nt])
						})
					}
				}
			}
			c.Check(base+"letter-case-irrelevant", perCase[0].same(perCase[1]) && perCase[0].same(perCase[2]), func() string {
				return fmt.Sprintf("%s on form %s: lower: %s; upper: %s; mixed: %s", fn.name, fm.name, perCase[0], perCase[1], perCase[2])
			})
		}
	}
	c.Sample("hash-spec", map[string]any{"input": " " + lmHex + ":" + ntHex + "\n", "forms": []string{"LM:NT", ":NT", "LM:", "NT", "", ":"}, "paddings_per_side": len(pads)})
}
