// C17 — NBNS name table keeps ownership invariants under all histories and schedules.
//
// Part 1 (E2): explicit-state BFS to fix-point over the REAL name table under a 41-operation
// alphabet, every transition compared with a deliberately partial reference model.
// Part 2 (E3): all interleavings (controlled scheduler at RWMutex granularity, instrumented
// working-tree source) of 2-3 threads x 1-2 colliding operations from several seed states;
// every history must be linearizable w.r.t. the table itself run sequentially.
// Part 3 (auxiliary): free-running -race pass of the same bodies for unlocked access paths.
package main

import (
	"fmt"
	"net"
	"os"
	"os/exec"
	"path/filepath"
	"sort"
	"strings"
	"time"
	"verif/checks/nbstate"

	"github.com/TheManticoreProject/Manticore/network/netbios/nbtns"
	"github.com/TheManticoreProject/Manticore/zz_verif/vrt"
	"github.com/TheManticoreProject/Manticore/zz_verif/vtime"

	"verif/mc/bfs"
	"verif/mc/explore"
	"verif/vf"
)

func main() { vf.Main("C17", "model_checking", run) }

type kind int

const (
	kReg kind = iota
	kQuery
	kRelease
	kRefresh
	kConflict
	kClean
	kDefend // NameChallenger.DefendName for the name: a reader of the table like Query, through the library's own responder
)

type op struct {
	k    kind
	name string
	typ  nbtns.NameType
	addr int
	past bool
}

var addrs = []net.IP{{10, 0, 0, 1}, net.ParseIP("10.0.0.1"), {10, 0, 0, 2}, {10, 0, 0, 3}, {0, 0, 0, 0}}

func canon(ip net.IP) string { return string(ip.To16()) }
func showIP(s string) string { return net.IP([]byte(s)).String() }

func (o op) String() string {
	tn := map[nbtns.NameType]string{nbtns.Unique: "U", nbtns.Group: "G"}[o.typ]
	a := fmt.Sprintf("%s/%dB", addrs[o.addr], len(addrs[o.addr]))
	switch o.k {
	case kReg:
		ttl := "+1h"
		if o.past {
			ttl = "-1h"
		}
		return fmt.Sprintf("Register(%s,%s,%s,%s)", o.name, tn, a, ttl)
	case kQuery:
		return fmt.Sprintf("Query(%s)", o.name)
	case kRelease:
		return fmt.Sprintf("Release(%s,%s)", o.name, a)
	case kRefresh:
		return fmt.Sprintf("Refresh(%s,%s)", o.name, a)
	case kConflict:
		return fmt.Sprintf("MarkConflict(%s)", o.name)
	case kDefend:
		return fmt.Sprintf("DefendName(%s)", o.name)
	}
	return "CleanExpired()"
}

type result struct {
	err    bool
	owners []string
	typ    nbtns.NameType
	raw    []net.IP
}

func (r result) String() string {
	if r.err {
		return "err"
	}
	if r.owners == nil {
		return "ok"
	}
	var o []string
	for _, x := range r.owners {
		o = append(o, showIP(x))
	}
	return fmt.Sprintf("ok[%s type=%d]", strings.Join(o, ","), r.typ)
}

func apply(t *nbtns.NetBIOSNameServer, o op) result {
	switch o.k {
	case kReg:
		ttl := time.Hour
		if o.past {
			ttl = -time.Hour
		}
		return result{err: t.RegisterName(o.name, o.typ, addrs[o.addr], ttl) != nil}
	case kQuery:
		ow, ty, err := t.QueryName(o.name)
		if err != nil {
			return result{err: true}
		}
		r := result{typ: ty, raw: ow, owners: []string{}}
		for _, ip := range ow {
			r.owners = append(r.owners, canon(ip))
		}
		return r
	case kRelease:
		return result{err: t.ReleaseName(o.name, addrs[o.addr]) != nil}
	case kRefresh:
		return result{err: t.RefreshName(o.name, addrs[o.addr]) != nil}
	case kConflict:
		return result{err: t.MarkNameConflict(o.name) != nil}
	case kDefend:
		req := &nbtns.NBTNSPacket{Header: nbtns.NBTNSHeader{TransactionID: 1, Flags: nbtns.OpNameQuery, Questions: 1},
			Questions: []nbtns.NBTNSQuestion{{Name: &nbtns.NetBIOSName{Name: o.name}, Type: 0x20, Class: 1}}}
		resp := &nbtns.NBTNSPacket{}
		nbtns.NewNameChallenger(t, nil).DefendName(req, resp)
		if len(resp.Answers) == 0 {
			return result{err: true}
		}
		r := result{typ: nbtns.Unique, owners: []string{}}
		if resp.Header.Flags&0x0080 != 0 {
			r.typ = nbtns.Group
		}
		for _, a := range resp.Answers {
			r.raw = append(r.raw, net.IP(a.RData))
			r.owners = append(r.owners, canon(net.IP(a.RData)))
		}
		return r
	}
	t.CleanExpiredNames()
	return result{}
}

// ---------------------------------------------------------------- private state dump

func table(t *nbtns.NetBIOSNameServer) map[string]nbtns.NameRecord {
	m, ok := nbstate.Records(t)
	if !ok {
		panic("harness: the name table of nbtns.NetBIOSNameServer (a map from string to NameRecord) was not found")
	}
	return m
}

// dump is the canonical state key: every field the methods read, with times reduced to
// "deadline in the past?" (TTLs are +-1h around a fixed virtual epoch).
func dump(t *nbtns.NetBIOSNameServer) string {
	m := table(t)
	ks := make([]string, 0, len(m))
	for k := range m {
		ks = append(ks, k)
	}
	sort.Strings(ks)
	var sb strings.Builder
	for _, k := range ks {
		r := m[k]
		fmt.Fprintf(&sb, "%s{n=%s t=%d s=%d past=%v ri=%v o=", k, r.Name, r.Type, r.Status, !r.TTL.After(vtime.Epoch.Add(time.Minute)), r.RefreshInterval > 0)
		for _, o := range r.Owners {
			fmt.Fprintf(&sb, "%x/%d,", []byte(o.To16()), len(o))
		}
		sb.WriteString("}")
	}
	return sb.String()
}

// ---------------------------------------------------------------- partial reference model

type grec struct {
	typ      nbtns.NameType
	typKnown bool
	owners   []string
	conflict bool
	// deadlines ever applied to this record (the property does not say how the deadlines of
	// several registrations combine, so only the unanimous cases are decided)
	past, future, unknown bool
}

type ghost struct{ recs map[string]*grec }

func newGhost() *ghost { return &ghost{recs: map[string]*grec{}} }

func (g *ghost) key() string {
	ks := make([]string, 0, len(g.recs))
	for k := range g.recs {
		ks = append(ks, k)
	}
	sort.Strings(ks)
	var sb strings.Builder
	for _, k := range ks {
		r := g.recs[k]
		o := append([]string{}, r.owners...)
		sort.Strings(o)
		fmt.Fprintf(&sb, "%s{%d %v %v", k, r.typ, r.typKnown, r.conflict)
		for _, x := range o {
			fmt.Fprintf(&sb, " %x", x[12:])
		}
		fmt.Fprintf(&sb, " %v%v%v}", r.past, r.future, r.unknown)
	}
	return sb.String()
}

func has(l []string, x string) bool {
	for _, y := range l {
		if y == x {
			return true
		}
	}
	return false
}

type checker func(key string, ok bool, w func() string)

// update advances the ghost over one implementation step and (when chk != nil) checks
// everything the property defines about that step.
func (g *ghost) update(o op, res result, t *nbtns.NetBIOSNameServer, chk checker, ctx func() string) {
	if chk == nil {
		chk = func(string, bool, func() string) {}
	}
	w := func(msg string) func() string {
		return func() string { return fmt.Sprintf("%s: %s returned %s — %s", ctx(), o, res, msg) }
	}
	mark := func(r *grec) {
		if o.past {
			r.past = true
		} else {
			r.future = true
		}
	}
	r := g.recs[o.name]
	a := ""
	if o.k == kReg || o.k == kRelease || o.k == kRefresh {
		a = canon(addrs[o.addr])
	}
	switch o.k {
	case kReg:
		switch {
		case r == nil:
			chk("C17/seq/register/free-name-accepted", !res.err, w("registering a name nobody holds must succeed"))
			if !res.err {
				nr := &grec{typ: o.typ, typKnown: true, owners: []string{a}}
				mark(nr)
				g.recs[o.name] = nr
			}
		case r.typ == nbtns.Group && r.typKnown && o.typ == nbtns.Group:
			chk("C17/seq/register/group-member-accepted", !res.err, w("a further address registering an existing group name must succeed"))
			if !res.err {
				if !has(r.owners, a) {
					r.owners = append(r.owners, a)
					mark(r)
				} else {
					r.unknown = true
				}
			}
		case r.typKnown && r.typ == nbtns.Unique && r.owners[0] != a:
			chk("C17/seq/register/unique-name-refuses-second-address", res.err, w("a unique name held by another address must refuse registration"))
			if !res.err { // keep following the implementation so later checks stay meaningful
				g.recs[o.name] = &grec{typ: o.typ, owners: []string{a}, unknown: true}
			}
		case r.typKnown && r.typ == nbtns.Group && o.typ == nbtns.Unique:
			chk("C17/seq/register/unique-over-group-refused", res.err, w("a unique registration of a name held as a group must be refused (the group's owners would be lost)"))
			if !res.err {
				g.recs[o.name] = &grec{typ: o.typ, owners: []string{a}, unknown: true}
			}
		default:
			// the holder of a unique name registers it again (same or other type), or the type is unknown:
			// the property is silent about the verdict; the owner set must stay that single address.
			if !res.err {
				if !has(r.owners, a) {
					r.owners = append(r.owners, a)
				}
				r.typKnown = false
				r.unknown = true
			}
		}
	case kRelease:
		switch {
		case r == nil:
			chk("C17/seq/release/unknown-name-fails", res.err, w("releasing a name that is not registered must fail"))
		case !has(r.owners, a):
			chk("C17/seq/release/non-owner-refused", res.err, w("an address that does not hold the name must not be able to release it"))
			if !res.err {
				delete(g.recs, o.name)
			}
		default:
			chk("C17/seq/release/owner-accepted", !res.err, w("an owner releasing its name must succeed"))
			if !res.err {
				var n []string
				for _, x := range r.owners {
					if x != a {
						n = append(n, x)
					}
				}
				r.owners = n
				if len(n) == 0 {
					delete(g.recs, o.name)
				}
			}
		}
	case kRefresh:
		switch {
		case r == nil:
			chk("C17/seq/refresh/unknown-name-fails", res.err, w("refreshing a name that is not registered must fail"))
		case !has(r.owners, a):
			chk("C17/seq/refresh/non-owner-refused", res.err, w("an address that does not hold the name must not be able to refresh it"))
		default:
			chk("C17/seq/refresh/owner-accepted", !res.err, w("an owner refreshing its name must succeed"))
			if !res.err {
				r.unknown = true
			}
		}
	case kConflict:
		if r == nil {
			chk("C17/seq/conflict/unknown-name-fails", res.err, w("marking an unregistered name must fail"))
		} else {
			chk("C17/seq/conflict/known-name-accepted", !res.err, w("marking a registered name as conflicting must succeed"))
			if !res.err {
				r.conflict = true
			}
		}
	case kClean:
		live := table(t)
		for n, r := range g.recs {
			allPast := r.past && !r.future && !r.unknown
			allFuture := r.future && !r.past && !r.unknown
			_, exists := live[n]
			if allPast {
				chk("C17/seq/clean/expired-name-removed", !exists, w("name "+n+" had only deadlines in the past and must be swept"))
			}
			if allFuture {
				chk("C17/seq/clean/live-name-kept", exists, w("name "+n+" had only deadlines in the future and must survive the sweep"))
			}
			if !exists {
				delete(g.recs, n)
			}
		}
	case kQuery, kDefend:
		g.checkQuery(o.name, res, chk, w)
	}
}

func (g *ghost) checkQuery(name string, res result, chk checker, w func(string) func() string) {
	r := g.recs[name]
	active := r != nil && !r.conflict
	chk("C17/seq/query/succeeds-iff-name-active", res.err == !active, w(fmt.Sprintf("name registered=%v conflict-marked=%v", r != nil, r != nil && r.conflict)))
	if res.err || !active {
		return
	}
	seen := map[string]bool{}
	dup := false
	for _, x := range res.owners {
		if seen[x] {
			dup = true
		}
		seen[x] = true
	}
	chk("C17/seq/query/no-duplicate-owner", !dup, w("an address is listed twice"))
	same := len(seen) == len(r.owners)
	for _, x := range r.owners {
		if !seen[x] {
			same = false
		}
	}
	var exp []string
	for _, x := range r.owners {
		exp = append(exp, showIP(x))
	}
	chk("C17/seq/query/owners-are-exactly-current-registrants", same, w("addresses that registered and did not release: "+strings.Join(exp, ",")))
	if r.typKnown {
		chk("C17/seq/query/type", res.typ == r.typ, w(fmt.Sprintf("registered type %d", r.typ)))
		if r.typ == nbtns.Unique {
			chk("C17/seq/query/unique-name-has-exactly-one-owner", len(res.owners) == 1, w("a unique name has exactly one owner"))
		}
	}
}

func buildOps(names []string, nAddr int) []op {
	idx := make([]int, nAddr)
	for i := range idx {
		idx[i] = i
	}
	return buildOpsAddrs(names, idx)
}

func buildOpsAddrs(names []string, addrIdx []int) []op {
	var ops []op
	for _, n := range names {
		for _, ty := range []nbtns.NameType{nbtns.Unique, nbtns.Group} {
			for _, a := range addrIdx {
				for _, past := range []bool{false, true} {
					ops = append(ops, op{k: kReg, name: n, typ: ty, addr: a, past: past})
				}
			}
		}
	}
	for _, n := range names {
		ops = append(ops, op{k: kQuery, name: n}, op{k: kDefend, name: n})
	}
	for _, n := range names {
		for _, a := range addrIdx {
			ops = append(ops, op{k: kRelease, name: n, addr: a})
		}
	}
	for _, n := range names {
		for _, a := range addrIdx {
			ops = append(ops, op{k: kRefresh, name: n, addr: a})
		}
	}
	for _, n := range names {
		ops = append(ops, op{k: kConflict, name: n})
	}
	ops = append(ops, op{k: kClean})
	return ops
}

func pathStr(ops []op, path []int) string {
	var s []string
	for _, p := range path {
		s = append(s, ops[p].String())
	}
	return "[" + strings.Join(s, "; ") + "]"
}

func cloneIPs(l []net.IP) []net.IP {
	out := make([]net.IP, len(l))
	for i, ip := range l {
		out[i] = append(net.IP(nil), ip...)
	}
	return out
}
func sameIPs(a, b []net.IP) bool {
	if len(a) != len(b) {
		return false
	}
	for i := range a {
		if !a[i].Equal(b[i]) {
			return false
		}
	}
	return true
}

func sequential(c *vf.Ctx, names []string, nAddr int, depth2 bool, tag string) {
	sequentialN(c, names, nAddr, depth2, tag, 3_000_000, true)
}

// sequentialCapped explores breadth-first up to maxStates states; not reaching the fix-point is then expected and reported as a bound, not as a cap that was hit by accident.
func sequentialCapped(c *vf.Ctx, names []string, nAddr int, maxStates int, tag string) {
	sequentialN(c, names, nAddr, false, tag, maxStates, false)
}

func sequentialN(c *vf.Ctx, names []string, nAddr int, depth2 bool, tag string, maxStates int, wantFix bool) {
	sequentialOps(c, names, buildOps(names, nAddr), nAddr, depth2, tag, maxStates, wantFix)
}

func sequentialOps(c *vf.Ctx, names []string, ops []op, nAddr int, depth2 bool, tag string, maxStates int, wantFix bool) {
	chk := checker(func(key string, ok bool, w func() string) { c.Check(key, ok, w) })
	build := func(path []int) (*nbtns.NetBIOSNameServer, *ghost) {
		t := nbtns.NewNetBIOSNameServer(false)
		g := newGhost()
		for _, p := range path {
			g.update(ops[p], apply(t, ops[p]), t, nil, nil)
		}
		return t, g
	}
	// one checked step from the state reached by path; held = query results obtained earlier that must stay intact
	step := func(t *nbtns.NetBIOSNameServer, g *ghost, path []int, oi int, check bool) {
		o := ops[oi]
		ctx := func() string { return "after " + pathStr(ops, path) }
		// results returned BEFORE the update
		type snap struct {
			name string
			raw  []net.IP
			copy []net.IP
		}
		var snaps []snap
		if check {
			for _, n := range names {
				if ow, _, err := t.QueryName(n); err == nil {
					snaps = append(snaps, snap{n, ow, cloneIPs(ow)})
				}
			}
		}
		res := apply(t, o)
		if !check {
			g.update(o, res, t, nil, nil)
			return
		}
		g.update(o, res, t, chk, ctx)
		for _, s := range snaps {
			c.Check("C17/seq/query/result-unchanged-by-later-update", sameIPs(s.raw, s.copy), func() string {
				return fmt.Sprintf("%s: QueryName(%s) had returned %v; after %s the same slice reads %v", ctx(), s.name, s.copy, o, s.raw)
			})
		}
		// every name's query must agree with the model after every step (failed operations change nothing)
		for _, n := range names {
			q := apply(t, op{k: kQuery, name: n})
			g.checkQuery(n, q, chk, func(msg string) func() string {
				return func() string {
					return fmt.Sprintf("%s then %s (returned %s): Query(%s) = %s — %s", ctx(), o, res, n, q, msg)
				}
			})
			// a returned slice is the caller's own: overwriting it must not reach the table
			if !q.err && len(q.raw) > 0 {
				before := dump(t)
				for i := range q.raw {
					q.raw[i] = net.IP{192, 0, 2, 99}
				}
				after := dump(t)
				c.Check("C17/seq/query/result-is-callers-own-slice", before == after, func() string {
					return fmt.Sprintf("%s then %s: overwriting the slice returned by Query(%s) changed the table: %s -> %s", ctx(), o, n, before, after)
				})
			}
		}
		// structural invariants of the private records
		for n, r := range table(t) {
			if r.Type == nbtns.Unique {
				c.Check("C17/seq/invariant/unique-record-has-one-owner", len(r.Owners) == 1, func() string {
					return fmt.Sprintf("%s then %s: record %s is unique with %d owners", ctx(), o, n, len(r.Owners))
				})
			}
			dupl := false
			for i := range r.Owners {
				for j := i + 1; j < len(r.Owners); j++ {
					if r.Owners[i].Equal(r.Owners[j]) {
						dupl = true
					}
				}
			}
			c.Check("C17/seq/invariant/owners-distinct", !dupl, func() string {
				return fmt.Sprintf("%s then %s: record %s lists an owner twice: %v", ctx(), o, n, r.Owners)
			})
			c.Check("C17/seq/invariant/no-empty-record", len(r.Owners) > 0, func() string {
				return fmt.Sprintf("%s then %s: record %s has no owner but still exists", ctx(), o, n)
			})
		}
	}
	t0, g0 := build(nil)
	s := &bfs.Search{
		NOps:      len(ops),
		InitKey:   dump(t0) + "|" + g0.key(),
		MaxStates: maxStates,
		Stop:      c.DeadlineExceeded,
		Step: func(path []int, oi int) (string, bool) {
			t, g := build(path)
			step(t, g, path, oi, true)
			key := dump(t) + "|" + g.key()
			if depth2 {
				// hold query results across TWO later updates
				p2 := append(append([]int{}, path...), oi)
				for o2 := range ops {
					if ops[o2].k == kQuery {
						continue
					}
					t2, g2 := build(path)
					var held [][2][]net.IP
					for _, n := range names {
						if ow, _, err := t2.QueryName(n); err == nil {
							held = append(held, [2][]net.IP{ow, cloneIPs(ow)})
						}
					}
					step(t2, g2, path, oi, false)
					step(t2, g2, p2, o2, false)
					for _, h := range held {
						c.Check("C17/seq/query/result-unchanged-by-later-update", sameIPs(h[0], h[1]), func() string {
							return fmt.Sprintf("after %s: a query result %v read %v after %s; %s", pathStr(ops, path), h[1], h[0], ops[oi], ops[o2])
						})
					}
					c.Add("depth2_pairs", 1)
				}
			}
			return key, true
		},
	}
	r := s.Run()
	c.Add("states", int64(r.States))
	c.Add("transitions", int64(r.Transitions))
	c.Add("traces_validated_against_impl", int64(r.Transitions))
	c.Evals(int64(r.Transitions))
	c.Set("bfs_"+tag, map[string]any{"names": names, "addresses": nAddr, "alphabet": len(ops), "states": r.States, "transitions": r.Transitions, "depth": r.Depth, "fixpoint": r.FixPoint})
	if !r.FixPoint && wantFix {
		c.Cap("name-table BFS " + tag + " did not reach its fix-point")
	}
	for _, p := range r.SamplePaths {
		c.Sample("bfs-path-"+tag, pathStr(ops, p))
	}
	for i := 0; i < r.States; i++ {
		c.Distinct([]byte(tag), []byte(fmt.Sprint(i)))
	}
}

// ---------------------------------------------------------------- concurrent part (E3)

type event struct {
	thread, idx int
	o           op
	call, ret   int
	res         result
}

type scenario struct {
	seed    []op
	threads [][]op
}

func (s scenario) String() string {
	var parts []string
	for _, t := range s.threads {
		var l []string
		for _, o := range t {
			l = append(l, o.String())
		}
		parts = append(parts, "{"+strings.Join(l, "; ")+"}")
	}
	var sd []string
	for _, o := range s.seed {
		sd = append(sd, o.String())
	}
	return "seed=[" + strings.Join(sd, "; ") + "] threads=" + strings.Join(parts, " || ")
}

type chooser struct {
	r   *explore.Run
	err any
}

func (ch *chooser) ChooseCost(n int, label string, cost []int) (i int) {
	defer func() {
		if x := recover(); x != nil {
			ch.err = x
			i = 0
		}
	}()
	return ch.r.ChooseCost(n, label, cost)
}

func resKey(r result) string {
	if r.err {
		return "E"
	}
	o := append([]string{}, r.owners...)
	sort.Strings(o)
	return fmt.Sprintf("O%d|%x", r.typ, strings.Join(o, ","))
}

// linearizable searches for a sequential order of the events, consistent with their real-time
// order, under which the REAL table (run sequentially from the same seed) returns the same
// results and ends in the same state.
func linearizable(sc scenario, evs []event, final string) (bool, string) {
	n := len(evs)
	used := make([]bool, n)
	order := make([]int, 0, n)
	var tried []string
	var rec func() bool
	rec = func() bool {
		if len(order) == n {
			t := nbtns.NewNetBIOSNameServer(false)
			for _, o := range sc.seed {
				apply(t, o)
			}
			var desc []string
			okAll := true
			for _, i := range order {
				r := apply(t, evs[i].o)
				desc = append(desc, fmt.Sprintf("%s=%s", evs[i].o, r))
				if resKey(r) != resKey(evs[i].res) {
					okAll = false
					break
				}
			}
			if okAll && dump(t) == final {
				return true
			}
			if len(tried) < 8 {
				tried = append(tried, strings.Join(desc, " ; "))
			}
			return false
		}
		for i := 0; i < n; i++ {
			if used[i] {
				continue
			}
			// i may come next only if no unused event returned before i was called
			ok := true
			for j := 0; j < n; j++ {
				if !used[j] && j != i && evs[j].ret < evs[i].call {
					ok = false
					break
				}
			}
			if !ok {
				continue
			}
			used[i] = true
			order = append(order, i)
			if rec() {
				return true
			}
			order = order[:len(order)-1]
			used[i] = false
		}
		return false
	}
	if rec() {
		return true, ""
	}
	return false, strings.Join(tried, " // ")
}

// challengerProbe: NameChallenger.ChallengeOwnership asks a node over UDP whether it still holds a name (three
// attempts, two seconds each). It is a reader of the network, not an operation of the table: whatever the node
// answers - here nobody answers - the table must be what it was, for a live, a lapsed and an absent name, and the
// owner's later Refresh/Release must behave as without the probe. Runs under the controlled scheduler (simulated
// UDP, virtual clock), alone and next to a concurrent Query; every schedule up to 2 preemptions.
func challengerProbe(c *vf.Ctx) {
	type sc struct {
		name  string
		seed  []op
		probe string
	}
	A := "A"
	scs := []sc{
		{"live-unique-name", []op{{k: kReg, name: A, typ: nbtns.Unique, addr: 0}}, A},
		{"lapsed-unique-name-not-yet-swept", []op{{k: kReg, name: A, typ: nbtns.Unique, addr: 0, past: true}}, A},
		{"lapsed-group", []op{{k: kReg, name: A, typ: nbtns.Group, addr: 0, past: true}, {k: kReg, name: A, typ: nbtns.Group, addr: 2, past: true}}, A},
		{"absent-name", nil, "B"},
	}
	for _, s := range scs {
		for _, withReader := range []bool{false, true} {
			s, withReader := s, withReader
			ex := &explore.Explorer{Bound: 2, Cap: 20000, Stop: c.DeadlineExceeded, Tolerant: true, Retries: 16}
			ex.Body = func(r *explore.Run) {
				ch := &chooser{r: r}
				var before, after, ctl, probed string
				var follow, followCtl []string
				out := vrt.Run(ch, 20000, 0, false, func() {
					t, u := nbtns.NewNetBIOSNameServer(false), nbtns.NewNetBIOSNameServer(false)
					for _, o := range s.seed {
						apply(t, o)
						apply(u, o)
					}
					before = dump(t)
					var rd *vrt.T
					if withReader {
						rd = vrt.GoNamed("reader", func() { apply(t, op{k: kQuery, name: A}) })
					}
					ok, err := nbtns.NewNameChallenger(t, nil).ChallengeOwnership(s.probe, addrs[0])
					probed = fmt.Sprintf("(%v, err=%v)", ok, err != nil)
					if rd != nil {
						vrt.Join(rd)
					}
					after, ctl = dump(t), dump(u)
					for _, o := range []op{{k: kRefresh, name: A, addr: 0}, {k: kQuery, name: A}, {k: kRelease, name: A, addr: 0}, {k: kQuery, name: A}} {
						follow = append(follow, o.String()+"="+apply(t, o).String())
						followCtl = append(followCtl, o.String()+"="+apply(u, o).String())
					}
				})
				if ch.err != nil {
					panic(ch.err)
				}
				r.ObserveS(before + "|" + after + "|" + probed)
				w := func() string {
					return fmt.Sprintf("challenger scenario %q (concurrent Query: %v) schedule=%v", s.name, withReader, r.Choices)
				}
				c.Evals(1)
				c.Check("C17/challenger/no-deadlock-no-panic", !out.Deadlock && out.Panic == "", func() string { return w() + " blocked: " + strings.Join(out.Blocked, ",") + " panic: " + out.Panic })
				if out.Deadlock || out.Panic != "" || out.StepCap {
					return
				}
				c.Check("C17/challenger/a-probe-of-the-network-leaves-the-table-as-it-is", before == after && after == ctl, func() string {
					return fmt.Sprintf("%s: table before ChallengeOwnership(%s, %s) = %s, after = %s (a table that was not probed: %s); ChallengeOwnership returned %s", w(), s.probe, addrs[0], before, after, ctl, probed)
				})
				c.Check("C17/challenger/the-owners-later-operations-behave-as-without-the-probe", strings.Join(follow, "; ") == strings.Join(followCtl, "; "), func() string {
					return fmt.Sprintf("%s: after the probe: %s; on a table that was not probed: %s", w(), strings.Join(follow, "; "), strings.Join(followCtl, "; "))
				})
			}
			stt, err := ex.Explore()
			if err != nil {
				c.Fatalf("schedule replay diverged in the challenger scenario %s: %v", s.name, err)
			}
			if stt.CapHit || stt.Divergences > 0 {
				c.Cap(fmt.Sprintf("challenger scenario %s: cap or %d replay divergences", s.name, stt.Divergences))
			}
			c.Add("challenger_schedules", stt.Executions)
		}
	}
}

type concStats struct {
	scenarios, executions, histories int64
	maxPoints                        int
	capHit                           bool
}

func concurrent(c *vf.Ctx, scs []scenario, bound int, tag string, st *concStats) {
	lincache := map[string]bool{}
	for si, sc := range scs {
		if c.DeadlineExceeded() {
			st.capHit = true
			return
		}
		st.scenarios++
		hist := map[string]bool{}
		var firstObs string
		nexec := 0
		ex := &explore.Explorer{Bound: bound, Cap: 200000, Stop: c.DeadlineExceeded, Tolerant: true, Retries: 16}
		ex.Body = func(r *explore.Run) {
			ch := &chooser{r: r}
			var evs []event
			var final string
			clock := 0
			out := vrt.Run(ch, 5000, 0, false, func() {
				t := nbtns.NewNetBIOSNameServer(false)
				for _, o := range sc.seed {
					apply(t, o)
				}
				var hs []*vrt.T
				for ti, ops := range sc.threads {
					ti, ops := ti, ops
					hs = append(hs, vrt.GoNamed(fmt.Sprintf("T%d", ti), func() {
						for oi, o := range ops {
							clock++
							e := event{thread: ti, idx: oi, o: o, call: clock}
							e.res = apply(t, o)
							clock++
							e.ret = clock
							evs = append(evs, e)
						}
					}))
				}
				for _, h := range hs {
					vrt.Join(h)
				}
				final = dump(t)
			})
			if ch.err != nil {
				panic(ch.err)
			}
			nexec++
			w := func() string { return fmt.Sprintf("%s schedule=%v", sc, r.Choices) }
			c.Check("C17/conc/no-deadlock", !out.Deadlock, func() string { return w() + " blocked: " + strings.Join(out.Blocked, ",") })
			c.Check("C17/conc/no-panic", out.Panic == "", func() string { return w() + " panic: " + out.Panic + " " + out.PanicStack })
			if out.StepCap {
				c.Cap("step cap in concurrent scenario")
			}
			if out.Deadlock || out.Panic != "" || out.StepCap {
				return
			}
			// history signature: per event (thread, idx, call, ret order, result) + final state
			var hb strings.Builder
			for _, e := range evs {
				fmt.Fprintf(&hb, "%d.%d@%d-%d=%s;", e.thread, e.idx, e.call, e.ret, resKey(e.res))
			}
			hb.WriteString(final)
			h := hb.String()
			r.ObserveS(h)
			hist[h] = true
			if firstObs == "" {
				firstObs = h
			}
			ck := fmt.Sprint(si) + "#" + h
			ok, seen := lincache[ck]
			var why string
			if !seen {
				ok, why = linearizable(sc, evs, final)
				lincache[ck] = ok
			}
			c.Check("C17/conc/history-linearizable", ok, func() string {
				var es []string
				for _, e := range evs {
					es = append(es, fmt.Sprintf("T%d %s [%d,%d] -> %s", e.thread, e.o, e.call, e.ret, e.res))
				}
				return fmt.Sprintf("%s schedule=%v history: %s final=%s; no sequential order of the real table reproduces it (tried e.g. %s)", sc, r.Choices, strings.Join(es, " | "), final, why)
			})
			if len(r.Choices) > st.maxPoints {
				st.maxPoints = len(r.Choices)
			}
		}
		stt, err := ex.Explore()
		if err != nil {
			c.Fatalf("schedule replay diverged in %s: %v", sc, err)
		}
		if stt.Divergences > 0 {
			c.Cap(fmt.Sprintf("scenario %s: %d replays did not reproduce an executed prefix (%d subtrees abandoned after 16 retries) — the code under test uses a source of nondeterminism the scheduler does not own", sc, stt.Divergences, stt.Abandoned))
		}
		if stt.CapHit {
			st.capHit = true
			c.Cap("execution cap in a concurrent scenario")
		}
		st.executions += stt.Executions
		st.histories += int64(len(hist))
		if si < 2 || si == len(scs)/2 {
			c.Sample("conc-scenario-"+tag, map[string]any{"scenario": sc.String(), "schedules": stt.Executions, "distinct_histories": len(hist)})
		}
		// determinism: replay the default schedule, observations must be identical
		if si%50 == 0 {
			r2 := ex.Replay(nil)
			if string(r2.Observation()) != firstObs+"\x00" && firstObs != "" {
				c.Cap(fmt.Sprintf("non-deterministic replay of the default schedule in %s (nondeterminism the scheduler does not own)", sc))
			}
		}
	}
}

func scenarios(c *vf.Ctx) (two1, three1, two2 []scenario) {
	A := "A"
	pool := []op{
		{k: kReg, name: A, typ: nbtns.Unique, addr: 0},
		{k: kReg, name: A, typ: nbtns.Unique, addr: 2},
		{k: kReg, name: A, typ: nbtns.Group, addr: 0},
		{k: kReg, name: A, typ: nbtns.Group, addr: 2},
		{k: kReg, name: A, typ: nbtns.Group, addr: 3, past: true},
		{k: kQuery, name: A},
		{k: kRelease, name: A, addr: 0},
		{k: kRelease, name: A, addr: 2},
		{k: kRefresh, name: A, addr: 1},
		{k: kRefresh, name: A, addr: 2},
		{k: kConflict, name: A},
		{k: kClean},
		{k: kReg, name: "B", typ: nbtns.Unique, addr: 0},
		{k: kQuery, name: "B"},
	}
	seeds := [][]op{
		nil,
		{{k: kReg, name: A, typ: nbtns.Unique, addr: 0}},
		{{k: kReg, name: A, typ: nbtns.Group, addr: 0}},
		{{k: kReg, name: A, typ: nbtns.Group, addr: 0}, {k: kReg, name: A, typ: nbtns.Group, addr: 2}},
		{{k: kReg, name: A, typ: nbtns.Group, addr: 0, past: true}},
		{{k: kReg, name: A, typ: nbtns.Group, addr: 0}, {k: kReg, name: A, typ: nbtns.Group, addr: 2}, {k: kReg, name: A, typ: nbtns.Group, addr: 3}},
	}
	for _, sd := range seeds {
		for _, a := range pool {
			for _, b := range pool {
				two1 = append(two1, scenario{seed: sd, threads: [][]op{{a}, {b}}})
			}
		}
	}
	p3 := pool[:12]
	for _, sd := range seeds[:5] {
		for i, a := range p3 {
			for j, b := range p3 {
				for k, cc := range p3 {
					if c.Quick() && !(i <= j && j <= k) {
						continue // thread order is symmetric: unordered triples in the quick tier
					}
					three1 = append(three1, scenario{seed: sd, threads: [][]op{{a}, {b}, {cc}}})
				}
			}
		}
	}
	p2 := []op{pool[0], pool[2], pool[3], pool[5], pool[6], pool[11]}
	sd2 := [][]op{seeds[0], seeds[2], seeds[3]}
	if c.Thorough() {
		p2 = pool[:12]
		sd2 = seeds[:5]
	}
	for _, sd := range sd2 {
		for _, a := range p2 {
			for _, b := range p2 {
				for i, x := range p2 {
					for j, y := range p2 {
						_, _ = i, j
						two2 = append(two2, scenario{seed: sd, threads: [][]op{{a, b}, {x, y}}})
					}
				}
			}
		}
	}
	return
}

// isolated: two tables created one after the other share nothing - a name registered (released) in
// one is unknown to (still held in) the other, and a new table starts empty.
func isolated(c *vf.Ctx) bool {
	ok := true
	for _, secured := range []bool{false, true} {
		t1 := nbtns.NewNetBIOSNameServer(secured)
		e0 := len(table(t1))
		err1 := t1.RegisterName("ISOLATION", nbtns.Unique, addrs[0], time.Hour)
		t2 := nbtns.NewNetBIOSNameServer(secured)
		e2 := len(table(t2))
		_, _, qerr := t2.QueryName("ISOLATION")
		err2 := t2.RegisterName("ISOLATION", nbtns.Unique, addrs[2], time.Hour)
		ow1, _, _ := t1.QueryName("ISOLATION")
		rel := t2.ReleaseName("ISOLATION", addrs[2])
		ow1b, _, q1b := t1.QueryName("ISOLATION")
		good := e0 == 0 && err1 == nil && e2 == 0 && qerr != nil && err2 == nil && len(ow1) == 1 && canon(ow1[0]) == canon(addrs[0]) &&
			rel == nil && q1b == nil && len(ow1b) == 1 && canon(ow1b[0]) == canon(addrs[0])
		// leave nothing behind in whatever the two tables may share
		t1.ReleaseName("ISOLATION", addrs[0])
		t1.ReleaseName("ISOLATION", addrs[2])
		c.Evals(1)
		c.Check("C17/seq/a-table-depends-only-on-its-own-history", good, func() string {
			return fmt.Sprintf("NewNetBIOSNameServer(%v) twice: first table starts with %d records; Register(ISOLATION,U,%s) in the first = %v; the second table starts with %d records, its Query(ISOLATION) err=%v, its Register(ISOLATION,U,%s) = %v; the first then answers %v; after Release in the second (%v) the first answers %v (err=%v) - a table must behave like a map of its own", secured, e0, addrs[0], err1, e2, qerr, addrs[2], err2, ow1, rel, ow1b, q1b)
		})
		ok = ok && good
	}
	return ok
}

func run(c *vf.Ctx) {
	if !nbstate.Readable() {
		c.Fatalf("cannot find the private name table of NetBIOSNameServer (a map from string to NameRecord): harness out of date")
	}
	c.Rule("sequential: BFS to fix-point over the real table, alphabet = Register{2 names x U/G x 3 address forms x ttl +-1h}, Query, Release, Refresh, MarkConflict, CleanExpired (41 ops; thorough adds a 3-name/4-address run); state key = dump of the private map + reference-model state; " +
		"concurrent: every interleaving at RWMutex granularity (no preemption bound: the bound is set above the number of scheduling points) of 2 threads x 1 op, 3 threads x 1 op, 2 threads x 2 ops over a colliding operation pool from 5-6 seed states; distinct = distinct states + distinct call/return histories")
	c.Assume("interleavings are explored at synchronisation-point granularity under sequential consistency; accesses outside any lock are only sampled by the separate free-running -race pass; expiry is decided by the sign of the TTL (+-1h) so the wall clock cannot flip a verdict")

	// Every exploration below builds a fresh table per history (and several at once, in parallel
	// workers). That is only sound - and the property's "behaves like an atomic map" only meaningful -
	// if a table's content is determined by ITS OWN history: checked first, sequentially.
	if !isolated(c) {
		return
	}

	t0 := time.Now()
	// one name, three addresses one of which is the unspecified address 0.0.0.0 (a member "without an address"
	// is a member like any other to the table), with the library's responder among the readers
	sequentialOps(c, []string{"A"}, buildOpsAddrs([]string{"A"}, []int{4, 0, 2}), 3, false, "1name-unspecified-address", 3_000_000, true)
	sequential(c, []string{"A", "B"}, 3, c.Thorough(), "2names")
	c.Set("wall_bfs_s", time.Since(t0).Seconds())
	if c.Thorough() {
		// two names x four address forms (a third distinct address: three-member groups, non-adjacent
		// owners) to fix-point; three names only to a state cap (cross-name interference)
		sequential(c, []string{"A", "B"}, 4, false, "2names-4addresses")
		sequentialCapped(c, []string{"A", "B", "C"}, 3, 400000, "3names")
	}

	challengerProbe(c)
	two1, three1, two2 := scenarios(c)
	var st concStats
	t0 = time.Now()
	vrt.ReleasePoints = true // 2 threads x 1 op: also let the other thread run right after every unlock
	concurrent(c, two1, 1000, "2x1", &st)
	vrt.ReleasePoints = c.Thorough()
	concurrent(c, three1, 1000, "3x1", &st)
	vrt.ReleasePoints = false
	concurrent(c, two2, 1000, "2x2", &st)
	c.Set("wall_concurrent_s", time.Since(t0).Seconds())
	c.Set("schedules", st.executions)
	c.Set("concurrent_scenarios", st.scenarios)
	c.Set("distinct_histories", st.histories)
	c.Set("max_scheduling_points", st.maxPoints)
	c.Set("preemption_bound_completed", "unbounded (all interleavings)")
	c.Add("transitions", st.executions)
	c.Add("traces_validated_against_impl", st.executions)
	c.Evals(st.executions)
	for i := int64(0); i < st.histories; i++ {
		c.Distinct([]byte("hist"), []byte(fmt.Sprint(i)))
	}
	if st.histories <= st.scenarios && st.scenarios > 0 {
		c.Fatalf("vacuous concurrent exploration: %d histories for %d scenarios (nothing interleaved)", st.histories, st.scenarios)
	}

	racePass(c)
}

// racePass runs the free-running -race binary (built by postbuild.sh from the un-instrumented
// working tree). A data-race report violates the "without data races / atomic map" clause.
func racePass(c *vf.Ctx) {
	bin := filepath.Join(os.Getenv("VERIF_WORK"), "racepass")
	if _, err := os.Stat(bin); err != nil {
		c.Fatalf("race-pass binary missing: %v", err)
	}
	iters := "1500"
	if c.Thorough() {
		iters = "15000"
	}
	cmd := exec.Command(bin, iters)
	cmd.Env = append(os.Environ(), "GORACE=halt_on_error=1 exitcode=66")
	type res struct {
		out []byte
		err error
	}
	ch := make(chan res, 1)
	go func() { o, e := cmd.CombinedOutput(); ch <- res{o, e} }()
	var out []byte
	var err error
	limit := time.Duration(c.Pick(3, 20)) * time.Minute
	select {
	case r := <-ch:
		out, err = r.out, r.err
	case <-time.After(limit):
		// free-running goroutines that never finish (a lock that is never released, say): the scheduler part decides
		// deadlocks; here only the race detector's verdict would have been used
		cmd.Process.Kill()
		c.Cap(fmt.Sprintf("free-running race pass did not finish within %v; its verdict is not used", limit))
		c.Set("race_pass", map[string]any{"completed": false})
		return
	}
	s := string(out)
	race := strings.Contains(s, "WARNING: DATA RACE") || strings.Contains(s, "concurrent map")
	c.Check("C17/race-pass/no-data-race", !race, func() string {
		if len(s) > 3000 {
			s = s[:3000]
		}
		return "free-running -race pass of the scenario bodies reported: " + s
	})
	if err != nil && !race {
		c.Cap("free-running race pass ended abnormally (" + err.Error() + "); its verdict is not used")
	}
	c.Set("race_pass", map[string]any{"iterations_per_scenario": iters, "race_reported": race, "note": "auxiliary sampling pass, free-running goroutines on the un-instrumented code"})
}
