// Free-running -race pass for C17 (auxiliary): the un-instrumented name table driven by real
// goroutines. Built with -race; any report makes the process exit 66.
package main

import (
	"fmt"
	"net"
	"os"
	"strconv"
	"sync"
	"time"

	"github.com/TheManticoreProject/Manticore/network/netbios/nbtns"
)

func main() {
	iters := 300
	if len(os.Args) > 1 {
		iters, _ = strconv.Atoi(os.Args[1])
	}
	a, b, c3 := net.IP{10, 0, 0, 1}, net.IP{10, 0, 0, 2}, net.IP{10, 0, 0, 3}
	type body func(t *nbtns.NetBIOSNameServer)
	sink := 0
	var sinkMu sync.Mutex
	q := func(n string) body {
		return func(t *nbtns.NetBIOSNameServer) {
			ow, _, err := t.QueryName(n)
			if err == nil {
				s := 0
				for k := 0; k < 3; k++ { // keep reading the returned slice while others update the table
					for _, ip := range ow {
						s += len(ip)
					}
				}
				sinkMu.Lock()
				sink += s
				sinkMu.Unlock()
			}
		}
	}
	bodies := []body{
		func(t *nbtns.NetBIOSNameServer) { t.RegisterName("A", nbtns.Group, a, time.Hour) },
		func(t *nbtns.NetBIOSNameServer) { t.RegisterName("A", nbtns.Group, b, time.Hour) },
		func(t *nbtns.NetBIOSNameServer) { t.RegisterName("A", nbtns.Group, c3, -time.Hour) },
		func(t *nbtns.NetBIOSNameServer) { t.RegisterName("A", nbtns.Unique, a, time.Hour) },
		func(t *nbtns.NetBIOSNameServer) { t.ReleaseName("A", a) },
		func(t *nbtns.NetBIOSNameServer) { t.ReleaseName("A", b) },
		func(t *nbtns.NetBIOSNameServer) { t.RefreshName("A", a) },
		func(t *nbtns.NetBIOSNameServer) { t.MarkNameConflict("A") },
		func(t *nbtns.NetBIOSNameServer) { t.CleanExpiredNames() },
		q("A"), q("A"),
		func(t *nbtns.NetBIOSNameServer) { t.RegisterName("B", nbtns.Unique, a, -time.Hour) },
		// the same kind of operation twice at once (two writers under what might only be a read lock)
		func(t *nbtns.NetBIOSNameServer) { t.RefreshName("A", a) },
		func(t *nbtns.NetBIOSNameServer) { t.RefreshName("A", b) },
		func(t *nbtns.NetBIOSNameServer) { t.MarkNameConflict("A") },
		func(t *nbtns.NetBIOSNameServer) { t.ReleaseName("A", c3) },
		func(t *nbtns.NetBIOSNameServer) { t.CleanExpiredNames() },
		func(t *nbtns.NetBIOSNameServer) { t.RegisterName("A", nbtns.Group, a, time.Hour) },
		q("B"),
	}
	runs := 0
	for it := 0; it < iters; it++ {
		for seed := 0; seed < 3; seed++ {
			t := nbtns.NewNetBIOSNameServer(false)
			if seed >= 1 {
				t.RegisterName("A", nbtns.Group, a, time.Hour)
			}
			if seed == 2 {
				t.RegisterName("A", nbtns.Group, b, time.Hour)
				t.RegisterName("A", nbtns.Group, c3, time.Hour)
			}
			var wg sync.WaitGroup
			start := make(chan struct{})
			for i := range bodies {
				wg.Add(1)
				go func(f body) {
					defer wg.Done()
					<-start
					f(t)
				}(bodies[(i+it)%len(bodies)])
			}
			close(start)
			wg.Wait()
			runs++
		}
	}
	fmt.Printf("race pass: %d free-running rounds of %d goroutines, sink=%d\n", runs, len(bodies), sink)
}
