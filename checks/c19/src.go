// Source enumeration for C19: every constant declaration and every map literal of the
// anchored packages is read from the /repo working tree at check time (go/parser) and the
// constant expressions (typed/untyped, iota, implicit repetition, shifts, conversions) are
// evaluated by go/types. Imports are satisfied by empty stand-in packages: errors about
// fmt.Sprintf etc. are ignored, constant values do not depend on them.
package main

import (
	"fmt"
	"go/ast"
	"go/constant"
	"go/parser"
	"go/token"
	"go/types"
	"os"
	"path"
	"path/filepath"
	"sort"
	"strconv"
	"strings"
)

// Const is one declared constant, in source order.
type Const struct {
	Name  string
	Type  string // name of the declared named type ("" for untyped, "uint8" … for basic types)
	IsInt bool
	Val   uint64 // integer value (two's complement for negatives; none occur)
	Str   string // string constants
	File  string // base name of the declaring file
}

// MapEntry is one key:value row of a package-level map literal.
type MapEntry struct {
	KeyIdent string // identifier text of the key ("" if not an identifier)
	KeyVal   uint64
	KeyIsInt bool
	ValStr   string // unquoted string literal, or identifier text for non-literals
	ValIsLit bool
}

type Pkg struct {
	Dir    string
	Consts []Const
	ByName map[string]Const
	Maps   map[string][]MapEntry
	Funcs  map[string]bool // "Recv.Method" or "Func"
}

type fakeImporter struct{ m map[string]*types.Package }

func (f *fakeImporter) Import(p string) (*types.Package, error) {
	if q, ok := f.m[p]; ok {
		return q, nil
	}
	q := types.NewPackage(p, path.Base(p))
	q.MarkComplete()
	f.m[p] = q
	return q, nil
}

// LoadPkg parses the non-test files of dir (optionally only the listed base names).
func LoadPkg(dir string, only ...string) (*Pkg, error) {
	ents, err := os.ReadDir(dir)
	if err != nil {
		return nil, err
	}
	fset := token.NewFileSet()
	var files []*ast.File
	var names []string
	for _, e := range ents {
		n := e.Name()
		if e.IsDir() || !strings.HasSuffix(n, ".go") || strings.HasSuffix(n, "_test.go") {
			continue
		}
		if len(only) > 0 {
			ok := false
			for _, o := range only {
				ok = ok || o == n
			}
			if !ok {
				continue
			}
		}
		names = append(names, n)
	}
	sort.Strings(names)
	for _, n := range names {
		f, err := parser.ParseFile(fset, filepath.Join(dir, n), nil, parser.SkipObjectResolution)
		if err != nil {
			return nil, fmt.Errorf("%s: %v", n, err)
		}
		files = append(files, f)
	}
	if len(files) == 0 {
		return nil, fmt.Errorf("%s: no Go files", dir)
	}
	info := &types.Info{Defs: map[*ast.Ident]types.Object{}, Types: map[ast.Expr]types.TypeAndValue{}}
	conf := types.Config{Importer: &fakeImporter{m: map[string]*types.Package{}}, Error: func(error) {}, DisableUnusedImportCheck: true}
	conf.Check(files[0].Name.Name, fset, files, info) // errors about the stand-in imports are expected

	p := &Pkg{Dir: dir, ByName: map[string]Const{}, Maps: map[string][]MapEntry{}, Funcs: map[string]bool{}}
	for _, f := range files {
		base := filepath.Base(fset.Position(f.Pos()).Filename)
		for _, d := range f.Decls {
			switch d := d.(type) {
			case *ast.FuncDecl:
				n := d.Name.Name
				if d.Recv != nil && len(d.Recv.List) == 1 {
					t := d.Recv.List[0].Type
					if s, ok := t.(*ast.StarExpr); ok {
						t = s.X
					}
					if id, ok := t.(*ast.Ident); ok {
						n = id.Name + "." + n
					}
				}
				p.Funcs[n] = true
			case *ast.GenDecl:
				switch d.Tok {
				case token.CONST:
					for _, s := range d.Specs {
						vs := s.(*ast.ValueSpec)
						for _, id := range vs.Names {
							if id.Name == "_" {
								continue
							}
							obj, _ := info.Defs[id].(*types.Const)
							if obj == nil || obj.Val() == nil || obj.Val().Kind() == constant.Unknown {
								return nil, fmt.Errorf("%s: constant %s could not be evaluated", base, id.Name)
							}
							c := Const{Name: id.Name, File: base}
							switch t := obj.Type().(type) {
							case *types.Named:
								c.Type = t.Obj().Name()
							case *types.Basic:
								if t.Info()&types.IsUntyped == 0 {
									c.Type = t.Name()
								}
							}
							switch obj.Val().Kind() {
							case constant.Int:
								if u, ok := constant.Uint64Val(obj.Val()); ok {
									c.Val, c.IsInt = u, true
								} else if i, ok := constant.Int64Val(obj.Val()); ok {
									c.Val, c.IsInt = uint64(i), true
								} else {
									return nil, fmt.Errorf("%s: constant %s out of range", base, id.Name)
								}
							case constant.String:
								c.Str = constant.StringVal(obj.Val())
							default:
								continue
							}
							p.Consts = append(p.Consts, c)
							p.ByName[c.Name] = c
						}
					}
				case token.VAR:
					for _, s := range d.Specs {
						vs := s.(*ast.ValueSpec)
						for i, id := range vs.Names {
							if i >= len(vs.Values) {
								continue
							}
							cl, ok := vs.Values[i].(*ast.CompositeLit)
							if !ok {
								continue
							}
							if _, ok := cl.Type.(*ast.MapType); !ok {
								continue
							}
							var rows []MapEntry
							for _, el := range cl.Elts {
								kv, ok := el.(*ast.KeyValueExpr)
								if !ok {
									continue
								}
								var r MapEntry
								if kid, ok := kv.Key.(*ast.Ident); ok {
									r.KeyIdent = kid.Name
								}
								if tv, ok := info.Types[kv.Key]; ok && tv.Value != nil && tv.Value.Kind() == constant.Int {
									if u, ok := constant.Uint64Val(tv.Value); ok {
										r.KeyVal, r.KeyIsInt = u, true
									}
								}
								switch v := kv.Value.(type) {
								case *ast.BasicLit:
									if v.Kind == token.STRING {
										if s, err := strconv.Unquote(v.Value); err == nil {
											r.ValStr, r.ValIsLit = s, true
										}
									}
								case *ast.Ident:
									r.ValStr = v.Name
								}
								rows = append(rows, r)
							}
							p.Maps[id.Name] = rows
						}
					}
				}
			}
		}
	}
	return p, nil
}

// Select returns the integer constants accepted by keep, in source order.
func (p *Pkg) Select(keep func(Const) bool) []Const {
	var out []Const
	for _, c := range p.Consts {
		if c.IsInt && keep(c) {
			out = append(out, c)
		}
	}
	return out
}

func ofType(t string) func(Const) bool { return func(c Const) bool { return c.Type == t } }
func withPrefix(pre string) func(Const) bool {
	return func(c Const) bool { return strings.HasPrefix(c.Name, pre) }
}
func inFile(f string, k func(Const) bool) func(Const) bool {
	return func(c Const) bool { return c.File == f && k(c) }
}
