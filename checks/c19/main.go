// C19 — flag words decompose faithfully and every named constant has a unique name.
// E4: exhaustive word lattices for every flag type (all 8/16-bit words, 32-bit: 0, all-ones,
// every bit, every pair of bits and their complements) against "the named bits that are
// set", and every constant of the anchored tables — enumerated from the /repo sources at
// check time — through the real name / error functions.
package main

import (
	"encoding/binary"
	"fmt"
	"os"
	"path/filepath"
	"sort"
	"strings"
	"sync"

	"github.com/TheManticoreProject/Manticore/network/ldap/ldap_attributes"
	"github.com/TheManticoreProject/Manticore/network/netbios"
	"github.com/TheManticoreProject/Manticore/network/smb/smb_v10/capabilities"
	"github.com/TheManticoreProject/Manticore/network/smb/smb_v10/message/commands/codes"
	"github.com/TheManticoreProject/Manticore/network/smb/smb_v10/message/header/flags"
	"github.com/TheManticoreProject/Manticore/network/smb/smb_v10/message/header/flags2"
	"github.com/TheManticoreProject/Manticore/network/smb/smb_v10/securitymode"
	"github.com/TheManticoreProject/Manticore/network/smb/smb_v10/subcommands"
	"github.com/TheManticoreProject/Manticore/windows/keycredential/key"
	"github.com/TheManticoreProject/Manticore/windows/nt_status"

	"verif/enum"
	"verif/vf"
)

func main() { vf.Main("C19", "exploration", run) }

var repo string

func load(c *vf.Ctx, rel string, only ...string) *Pkg {
	p, err := LoadPkg(filepath.Join(repo, rel), only...)
	if err != nil {
		c.Fatalf("cannot enumerate constants of %s: %v", rel, err)
	}
	return p
}

func run(c *vf.Ctx) {
	repo = os.Getenv("VERIF_REPO")
	if repo == "" {
		repo = "/repo"
	}
	c.Rule("flag words: all 2^8 words of 8-bit types, all 2^16 words of 16-bit types, 32-bit types on {0, all-ones, every bit, every pair of bits, their complements} (thorough: + every triple of bits and complements); " +
		"each word is decomposed 50 times and every predicate evaluated; a case is distinct per (type, word). " +
		"constants: every const declaration of the anchored types is read from the working-tree sources with go/parser and evaluated with go/types (iota, shifts, implicit repetition); " +
		"one case per (table, distinct value) through the real String()/Error()/FromBytes function; placeholder names are recognised by probing the same function with every undeclared value of the type (8/16-bit) or the 32-bit word lattice")
	c.Assume("go/parser, go/types, go/constant (stdlib) evaluate constant expressions correctly; the evaluator is cross-checked against compiled constants at start-up")
	c.Assume("the name expected for a bit is the declared identifier without its family prefix (compared on letters and digits only, case-insensitively), or, for UserAccountControl, the row of UserAccountControlMap as written in the source")
	selfTest(c)
	flagWords(c)
	constantTables(c)
}

// ---------------------------------------------------------------- helpers

func norm(s string) string {
	var b strings.Builder
	for _, r := range strings.ToLower(s) {
		if r >= 'a' && r <= 'z' || r >= '0' && r <= '9' {
			b.WriteRune(r)
		}
	}
	return b.String()
}

// agg batches passing evaluations per key so that hot loops do not take the Ctx lock per word.
type agg struct {
	c  *vf.Ctx
	mu sync.Mutex
	m  map[string]int64
}

func newAgg(c *vf.Ctx) *agg { return &agg{c: c, m: map[string]int64{}} }
func (a *agg) check(key string, ok bool, w func() string) {
	if ok {
		a.mu.Lock()
		a.m[key]++
		a.mu.Unlock()
		return
	}
	a.c.Check(key, false, w)
}
func (a *agg) flush() {
	a.mu.Lock()
	for k, n := range a.m {
		a.c.Pass(k, n)
	}
	a.m = map[string]int64{}
	a.mu.Unlock()
}

func selfTest(c *vf.Ctx) {
	nt := load(c, "windows/nt_status")
	chk := func(what string, got, want uint64) {
		if got != want {
			c.Fatalf("source evaluator self-test: %s evaluates to %#x from source, compiled constant is %#x", what, got, want)
		}
	}
	chk("NT_STATUS_ACCESS_DENIED", nt.ByName["NT_STATUS_ACCESS_DENIED"].Val, uint64(nt_status.NT_STATUS_ACCESS_DENIED))
	chk("NT_STATUS_PENDING", nt.ByName["NT_STATUS_PENDING"].Val, uint64(nt_status.NT_STATUS_PENDING))
	chk("NT_STATUS_SMB_BAD_CLUSTER_DIALECT", nt.ByName["NT_STATUS_SMB_BAD_CLUSTER_DIALECT"].Val, uint64(nt_status.NT_STATUS_SMB_BAD_CLUSTER_DIALECT))
	la := load(c, "network/ldap/ldap_attributes")
	chk("UAF_RESERVED_31", la.ByName["UAF_RESERVED_31"].Val, uint64(ldap_attributes.UAF_RESERVED_31))
	chk("UAF_LOCKOUT", la.ByName["UAF_LOCKOUT"].Val, uint64(ldap_attributes.UAF_LOCKOUT))
	chk("SAM_TRUST_ACCOUNT", la.ByName["SAM_TRUST_ACCOUNT"].Val, uint64(ldap_attributes.SAM_TRUST_ACCOUNT))
	f2 := load(c, "network/smb/smb_v10/message/header/flags2")
	chk("FLAGS2_UNICODE", f2.ByName["FLAGS2_UNICODE"].Val, uint64(flags2.FLAGS2_UNICODE))
	chk("FLAGS2_EXTENDED_SECURITY", f2.ByName["FLAGS2_EXTENDED_SECURITY"].Val, uint64(flags2.FLAGS2_EXTENDED_SECURITY))
	sm := load(c, "network/smb/smb_v10/securitymode")
	chk("SecurityModeNone (iota)", sm.ByName["SecurityModeNone"].Val, uint64(securitymode.SecurityModeNone))
	chk("NEGOTIATE_SECURITY_SIGNATURES_REQUIRED", sm.ByName["NEGOTIATE_SECURITY_SIGNATURES_REQUIRED"].Val, uint64(securitymode.NEGOTIATE_SECURITY_SIGNATURES_REQUIRED))
	if sm.ByName["SecurityModeNone"].Type != "SecurityMode" || f2.ByName["FLAGS2_UNICODE"].Type != "" || nt.ByName["NT_STATUS_PENDING"].Type != "NT_STATUS" {
		c.Fatalf("source evaluator self-test: constant types not recovered")
	}
	// iota / implicit repetition / shifts on a synthetic file
	dir := filepath.Join(os.TempDir(), fmt.Sprintf("c19-selftest-%d", os.Getpid()))
	os.MkdirAll(dir, 0o755)
	defer os.RemoveAll(dir)
	os.WriteFile(filepath.Join(dir, "x.go"), []byte("package x\nimport \"fmt\"\ntype T uint16\nconst (\n A T = 1 << iota\n B\n _\n C\n)\nconst (\n D = iota + 5\n E\n F = T(0x10) | C\n)\nvar M = map[T]string{A: \"a\", C: fmt.Sprint(1)}\n"), 0o644)
	x, err := LoadPkg(dir)
	if err != nil {
		c.Fatalf("source evaluator self-test: %v", err)
	}
	chk("iota B", x.ByName["B"].Val, 2)
	chk("iota C", x.ByName["C"].Val, 8)
	chk("iota E", x.ByName["E"].Val, 6)
	chk("conversion F", x.ByName["F"].Val, 0x18)
	if x.ByName["C"].Type != "T" || x.ByName["F"].Type != "T" || x.ByName["E"].Type != "" || len(x.Maps["M"]) != 2 || x.Maps["M"][1].KeyVal != 8 || x.Maps["M"][0].ValStr != "a" {
		c.Fatalf("source evaluator self-test: synthetic file mis-evaluated: %+v %+v", x.Consts, x.Maps)
	}
}

// ---------------------------------------------------------------- flag words

type namedBit struct {
	bit    uint64
	idents []string // declared identifiers of this bit
	exact  string   // exact expected token ("" = compare normalised identifiers)
}

type flagType struct {
	id        string
	width     int
	bits      []namedBit
	decompose func(w uint64) []string // the real decomposition
	alpha     bool                    // tokens documented to be in alphabetical order
	prefix    string
	callDesc  string
}

func (ft *flagType) tokenMatches(tok string, nb namedBit) bool {
	if nb.exact != "" {
		return tok == nb.exact
	}
	nt := norm(tok)
	for _, id := range nb.idents {
		if nt == norm(id) || nt == norm(strings.TrimPrefix(id, ft.prefix)) {
			return true
		}
	}
	return false
}

func wordsFor(c *vf.Ctx, width int) []uint64 {
	switch width {
	case 8, 16:
		out := make([]uint64, 1<<uint(width))
		for i := range out {
			out[i] = uint64(i)
		}
		return out
	}
	ws := enum.Words(width)
	if c.Thorough() {
		seen := map[uint64]bool{}
		for _, w := range ws {
			seen[w] = true
		}
		m := uint64(1)<<uint(width) - 1
		for i := 0; i < width; i++ {
			for j := i + 1; j < width; j++ {
				for k := j + 1; k < width; k++ {
					v := uint64(1)<<uint(i) | uint64(1)<<uint(j) | uint64(1)<<uint(k)
					for _, x := range []uint64{v, ^v & m} {
						if !seen[x] {
							seen[x] = true
							ws = append(ws, x)
						}
					}
				}
			}
		}
	}
	return ws
}

// bitsFromConsts groups single-bit constants by value. Zero-valued constants are the
// "none" marker; multi-bit constants are composite masks and are not "named bits".
func bitsFromConsts(c *vf.Ctx, id string, cs []Const) []namedBit {
	m := map[uint64]*namedBit{}
	var order []uint64
	for _, k := range cs {
		if k.Val == 0 {
			continue
		}
		if k.Val&(k.Val-1) != 0 {
			c.Set("composite_constant_skipped_"+id+"_"+k.Name, fmt.Sprintf("%#x", k.Val))
			continue
		}
		nb := m[k.Val]
		if nb == nil {
			nb = &namedBit{bit: k.Val}
			m[k.Val] = nb
			order = append(order, k.Val)
		}
		nb.idents = append(nb.idents, k.Name)
	}
	sort.Slice(order, func(i, j int) bool { return order[i] < order[j] })
	var out []namedBit
	for _, v := range order {
		out = append(out, *m[v])
	}
	if len(out) == 0 {
		c.Fatalf("no flag constants found in source for %s", id)
	}
	return out
}

func splitPipe(s string) []string {
	if s == "" {
		return nil
	}
	return strings.Split(s, "|")
}

func checkFlagType(c *vf.Ctx, ft *flagType) {
	words := wordsFor(c, ft.width)
	a := newAgg(c)
	base := "C19/" + ft.id + "/decompose/"
	hexw := func(w uint64) string { return fmt.Sprintf("0x%0*X", ft.width/4, w) }
	const chunk = 512
	nch := (len(words) + chunk - 1) / chunk
	vf.Par(nch, func(ci int) {
		lo, hi := ci*chunk, (ci+1)*chunk
		if hi > len(words) {
			hi = len(words)
		}
		for _, w := range words[lo:hi] {
			var toks []string
			if p, msg, where := vf.Try(func() { toks = ft.decompose(w) }); p {
				c.Check(base+"no-panic", false, func() string { return fmt.Sprintf("%s on %s panicked: %s at %s", ft.callDesc, hexw(w), msg, where) })
				continue
			}
			c.Case([]byte(ft.id), []byte(hexw(w)))
			// determinism over 50 calls
			same := true
			var other []string
			for r := 0; r < 49 && same; r++ {
				t2 := ft.decompose(w)
				if strings.Join(t2, "\x00") != strings.Join(toks, "\x00") {
					same, other = false, t2
				}
			}
			a.check(base+"identical-over-50-calls", same, func() string {
				return fmt.Sprintf("%s on %s gave %q and later %q", ft.callDesc, hexw(w), toks, other)
			})
			// expected named set bits
			anySet := false
			for _, nb := range ft.bits {
				set := w&nb.bit != 0
				anySet = anySet || set
				n := 0
				for _, t := range toks {
					if ft.tokenMatches(t, nb) {
						n++
					}
				}
				a.check(base+"bit:"+nb.idents[0]+"/reported-iff-set", (n > 0) == set, func() string {
					return fmt.Sprintf("%s on %s = %q: bit %s (%#x) is set=%v but reported=%v", ft.callDesc, hexw(w), toks, nb.idents[0], nb.bit, set, n > 0)
				})
				a.check(base+"bit:"+nb.idents[0]+"/reported-at-most-once", n <= 1, func() string {
					return fmt.Sprintf("%s on %s = %q: bit %s reported %d times", ft.callDesc, hexw(w), toks, nb.idents[0], n)
				})
			}
			// no token that is not a named bit (a lone NONE/empty marker is allowed when no named bit is set)
			foreign, hasForeign := "", false
			for _, t := range toks {
				ok := false
				for _, nb := range ft.bits {
					ok = ok || ft.tokenMatches(t, nb)
				}
				if !ok && !(!anySet && len(toks) == 1 && (norm(t) == "none" || norm(t) == "")) {
					foreign, hasForeign = t, true
				}
			}
			a.check(base+"only-named-set-bits", !hasForeign, func() string {
				return fmt.Sprintf("%s on %s = %q: token %q is not the name of any declared bit", ft.callDesc, hexw(w), toks, foreign)
			})
			if ft.alpha {
				a.check(base+"alphabetical-order-as-documented", sort.StringsAreSorted(toks), func() string {
					return fmt.Sprintf("%s on %s = %q is not in alphabetical order", ft.callDesc, hexw(w), toks)
				})
			}
		}
	})
	a.flush()
	c.Set("words_"+ft.id, len(words))
	c.Sample("flag-word", map[string]any{"type": ft.id, "word": hexw(words[len(words)/3]), "decomposition": ft.decompose(words[len(words)/3])})
}

type predicate struct {
	method  string
	ident   string // the constant that is "its own bit"
	wantSet bool   // true: predicate == bit set; false: predicate == bit clear
	fn      func(w uint64) bool
}

func checkPredicates(c *vf.Ctx, id string, width int, p *Pkg, recv string, preds []predicate) {
	words := wordsFor(c, width)
	a := newAgg(c)
	mapped := map[string]bool{}
	for _, pr := range preds {
		mapped[recv+"."+pr.method] = true
		k, ok := p.ByName[pr.ident]
		if !ok || !p.Funcs[recv+"."+pr.method] {
			c.Fatalf("%s: predicate %s or constant %s not found in source", id, pr.method, pr.ident)
		}
		pr := pr
		key := "C19/" + id + "/predicate/" + pr.method + "/equals-own-bit"
		const chunk = 4096
		nch := (len(words) + chunk - 1) / chunk
		vf.Par(nch, func(ci int) {
			lo, hi := ci*chunk, (ci+1)*chunk
			if hi > len(words) {
				hi = len(words)
			}
			for _, w := range words[lo:hi] {
				got := pr.fn(w)
				want := (w&k.Val != 0) == pr.wantSet
				a.check(key, got == want, func() string {
					return fmt.Sprintf("%s(%#x).%s() = %v, but bit %s (%#x) set=%v (predicate must be true iff the bit is %s)", recv, w, pr.method, got, pr.ident, k.Val, w&k.Val != 0, map[bool]string{true: "set", false: "clear"}[pr.wantSet])
				})
			}
		})
		c.Evals(int64(len(words)))
	}
	a.flush()
	// a predicate added to the source later must not go unchecked silently
	for f := range p.Funcs {
		if strings.HasPrefix(f, recv+".") {
			m := strings.TrimPrefix(f, recv+".")
			if (strings.HasPrefix(m, "Is") || strings.HasPrefix(m, "Has") || strings.HasPrefix(m, "Supports")) && !mapped[f] {
				c.Cap("predicate " + f + " exists in the source but has no bit assigned in the check")
			}
		}
	}
}

func flagWords(c *vf.Ctx) {
	// --- SMB header Flags (declared uint16; the wire field is 8 bits, all 2^16 words are run)
	pf := load(c, "network/smb/smb_v10/message/header/flags")
	checkFlagType(c, &flagType{id: "smb_flags", width: 16, prefix: "FLAGS_", alpha: true, callDesc: "flags.Flags.String()",
		bits:      bitsFromConsts(c, "smb_flags", pf.Select(withPrefix("FLAGS_"))),
		decompose: func(w uint64) []string { return splitPipe(flags.Flags(w).String()) }})
	checkPredicates(c, "smb_flags", 16, pf, "Flags", []predicate{
		{"IsLockAndReadOk", "FLAGS_LOCK_AND_READ_OK", true, func(w uint64) bool { return flags.Flags(w).IsLockAndReadOk() }},
		{"IsBufAvail", "FLAGS_BUF_AVAIL", true, func(w uint64) bool { return flags.Flags(w).IsBufAvail() }},
		{"IsReserved", "FLAGS_RESERVED", true, func(w uint64) bool { return flags.Flags(w).IsReserved() }},
		{"IsCaseInsensitive", "FLAGS_CASE_INSENSITIVE", true, func(w uint64) bool { return flags.Flags(w).IsCaseInsensitive() }},
		{"IsCanonicalizedPaths", "FLAGS_CANONICALIZED_PATHS", true, func(w uint64) bool { return flags.Flags(w).IsCanonicalizedPaths() }},
		{"IsOplock", "FLAGS_OPLOCK", true, func(w uint64) bool { return flags.Flags(w).IsOplock() }},
		{"IsOplockBatch", "FLAGS_OPBATCH", true, func(w uint64) bool { return flags.Flags(w).IsOplockBatch() }},
		{"IsReply", "FLAGS_REPLY", true, func(w uint64) bool { return flags.Flags(w).IsReply() }},
	})

	// --- SMB header Flags2
	p2 := load(c, "network/smb/smb_v10/message/header/flags2")
	checkFlagType(c, &flagType{id: "smb_flags2", width: 16, prefix: "FLAGS2_", alpha: true, callDesc: "flags2.Flags2.String()",
		bits:      bitsFromConsts(c, "smb_flags2", p2.Select(withPrefix("FLAGS2_"))),
		decompose: func(w uint64) []string { return splitPipe(flags2.Flags2(w).String()) }})
	checkPredicates(c, "smb_flags2", 16, p2, "Flags2", []predicate{
		{"IsLongNamesAllowed", "FLAGS2_LONG_NAMES_ALLOWED", true, func(w uint64) bool { return flags2.Flags2(w).IsLongNamesAllowed() }},
		{"IsExtendedAttributes", "FLAGS2_EXTENDED_ATTRIBUTES", true, func(w uint64) bool { return flags2.Flags2(w).IsExtendedAttributes() }},
		{"IsSecuritySignature", "FLAGS2_SECURITY_SIGNATURE", true, func(w uint64) bool { return flags2.Flags2(w).IsSecuritySignature() }},
		{"IsCompressed", "FLAGS2_COMPRESSED", true, func(w uint64) bool { return flags2.Flags2(w).IsCompressed() }},
		{"IsSecuritySignatureRequired", "FLAGS2_SECURITY_SIGNATURE_REQUIRED", true, func(w uint64) bool { return flags2.Flags2(w).IsSecuritySignatureRequired() }},
		{"IsLongNamesUsed", "FLAGS2_LONG_NAMES_USED", true, func(w uint64) bool { return flags2.Flags2(w).IsLongNamesUsed() }},
		{"IsReparsePathUsed", "FLAGS2_REPARSE_PATH", true, func(w uint64) bool { return flags2.Flags2(w).IsReparsePathUsed() }},
		{"IsExtendedSecurity", "FLAGS2_EXTENDED_SECURITY", true, func(w uint64) bool { return flags2.Flags2(w).IsExtendedSecurity() }},
		{"IsDfs", "FLAGS2_DFS", true, func(w uint64) bool { return flags2.Flags2(w).IsDfs() }},
		{"IsPagingIO", "FLAGS2_PAGING_IO", true, func(w uint64) bool { return flags2.Flags2(w).IsPagingIO() }},
		{"IsNTStatusErrorCodes", "FLAGS2_NT_STATUS_ERROR_CODES", true, func(w uint64) bool { return flags2.Flags2(w).IsNTStatusErrorCodes() }},
		{"IsUnicode", "FLAGS2_UNICODE", true, func(w uint64) bool { return flags2.Flags2(w).IsUnicode() }},
	})

	// --- capabilities (32-bit)
	pc := load(c, "network/smb/smb_v10/capabilities")
	checkFlagType(c, &flagType{id: "smb_capabilities", width: 32, prefix: "CAP_", alpha: true, callDesc: "capabilities.Capabilities.String()",
		bits:      bitsFromConsts(c, "smb_capabilities", pc.Select(ofType("Capabilities"))),
		decompose: func(w uint64) []string { return splitPipe(capabilities.Capabilities(w).String()) }})
	checkPredicates(c, "smb_capabilities", 32, pc, "Capabilities", nil)

	// --- security mode (8-bit, predicates only)
	ps := load(c, "network/smb/smb_v10/securitymode")
	S := func(w uint64) securitymode.SecurityMode { return securitymode.SecurityMode(w) }
	checkPredicates(c, "smb_securitymode", 8, ps, "SecurityMode", []predicate{
		{"SupportsPlaintextPasswordAuth", "NEGOTIATE_ENCRYPT_PASSWORDS", false, func(w uint64) bool { return S(w).SupportsPlaintextPasswordAuth() }},
		{"SupportsChallengeResponseAuth", "NEGOTIATE_ENCRYPT_PASSWORDS", true, func(w uint64) bool { return S(w).SupportsChallengeResponseAuth() }},
		{"SupportsShareLevelAccessControl", "NEGOTIATE_USER_SECURITY", false, func(w uint64) bool { return S(w).SupportsShareLevelAccessControl() }},
		{"SupportsUserLevelAccessControl", "NEGOTIATE_USER_SECURITY", true, func(w uint64) bool { return S(w).SupportsUserLevelAccessControl() }},
		{"IsSecuritySignatureEnabled", "NEGOTIATE_SECURITY_SIGNATURES_ENABLED", true, func(w uint64) bool { return S(w).IsSecuritySignatureEnabled() }},
		{"IsSecuritySignatureRequired", "NEGOTIATE_SECURITY_SIGNATURES_REQUIRED", true, func(w uint64) bool { return S(w).IsSecuritySignatureRequired() }},
	})

	// --- userAccountControl (32-bit): names are the rows of UserAccountControlMap as written in the source
	pl := load(c, "network/ldap/ldap_attributes", "UserAccountControl.go")
	rows := pl.Maps["UserAccountControlMap"]
	if len(rows) == 0 {
		c.Fatalf("UserAccountControlMap not found in source")
	}
	var uacBits []namedBit
	seenName := map[string]uint64{}
	for _, r := range rows {
		if !r.KeyIsInt || !r.ValIsLit {
			c.Fatalf("UserAccountControlMap row %q: key is not an integer constant with a literal name (harness out of date)", r.KeyIdent)
		}
		// a row of the decomposition table names ONE bit: String()/GetFlags() report a row whenever word&key != 0,
		// so a zero or multi-bit key is reported for words in which its bits are not (all) set
		single := r.KeyVal != 0 && r.KeyVal&(r.KeyVal-1) == 0
		c.Check("C19/uac/map/every-row-names-a-single-bit", single, func() string {
			return fmt.Sprintf("UserAccountControlMap row %s = %#x -> %q: the key is not a single bit; decomposition reports it for every word that shares any of its bits", r.KeyIdent, r.KeyVal, r.ValStr)
		})
		if !single {
			continue
		}
		uacBits = append(uacBits, namedBit{bit: r.KeyVal, idents: []string{r.KeyIdent}, exact: r.ValStr})
		key := fmt.Sprintf("C19/uac/map/%#08x/name-unique", r.KeyVal)
		prev, dup := seenName[r.ValStr]
		c.Check(key, !dup && r.ValStr != "", func() string {
			return fmt.Sprintf("UserAccountControlMap gives bits %#x and %#x the same name %q", prev, r.KeyVal, r.ValStr)
		})
		seenName[r.ValStr] = r.KeyVal
		c.Case([]byte("uacmap"), []byte(r.KeyIdent))
	}
	sort.Slice(uacBits, func(i, j int) bool { return uacBits[i].bit < uacBits[j].bit })
	checkFlagType(c, &flagType{id: "uac", width: 32, alpha: true, callDesc: "UserAccountControl.String()", bits: uacBits,
		decompose: func(w uint64) []string { return splitPipe(ldap_attributes.UserAccountControl(w).String()) }})
	// GetFlags: tokens are the flag values themselves, documented ascending
	var valBits []namedBit
	for _, b := range uacBits {
		valBits = append(valBits, namedBit{bit: b.bit, idents: b.idents, exact: fmt.Sprintf("%#010x", b.bit)})
	}
	checkFlagType(c, &flagType{id: "uac_getflags", width: 32, alpha: true /* fixed-width hex sorts like the numbers */, callDesc: "UserAccountControl.GetFlags()", bits: valBits,
		decompose: func(w uint64) []string {
			var out []string
			for _, f := range ldap_attributes.UserAccountControl(w).GetFlags() {
				out = append(out, fmt.Sprintf("%#010x", uint32(f)))
			}
			return out
		}})
	checkPredicates(c, "uac", 32, pl, "UserAccountControl", nil)

	// --- key-credential flags (8-bit): FromBytes fills Value and Name
	pk := load(c, "windows/keycredential/key")
	checkFlagType(c, &flagType{id: "keycredential_flags", width: 8, prefix: "CustomKeyInformationFlags_", callDesc: "CustomKeyInformationFlags.FromBytes(w).Name",
		bits: bitsFromConsts(c, "keycredential_flags", pk.Select(withPrefix("CustomKeyInformationFlags_"))),
		decompose: func(w uint64) []string {
			var kf key.CustomKeyInformationFlags
			kf.FromBytes(byte(w))
			return append([]string(nil), kf.Name...)
		}})
	for w := 0; w < 256; w++ {
		var kf key.CustomKeyInformationFlags
		kf.Name = []string{"stale"}
		kf.FromBytes(byte(w))
		c.Check("C19/keycredential_flags/decompose/value-is-the-word", kf.Value == uint8(w), func() string {
			return fmt.Sprintf("CustomKeyInformationFlags.FromBytes(%#02x) stored Value=%#02x", w, kf.Value)
		})
		stale := false
		for _, n := range kf.Name {
			stale = stale || n == "stale"
		}
		c.Check("C19/keycredential_flags/decompose/names-depend-only-on-the-word", !stale, func() string {
			return fmt.Sprintf("CustomKeyInformationFlags.FromBytes(%#02x) kept names of an earlier word: %q", w, kf.Name)
		})
	}
	checkPredicates(c, "keycredential_flags", 8, pk, "CustomKeyInformationFlags", nil)
	// call histories on ONE receiver: all ordered pairs (x, y) of the 8 single-bit words, 0, 3 and 0xFF:
	// FromBytes(x); keep a copy of the result; FromBytes(y) on the same receiver: the copy kept earlier
	// must not change (a decomposition is the caller's own) and the second result must equal a fresh one.
	words := []byte{0, 1, 2, 3, 4, 8, 16, 32, 64, 128, 0xFF}
	for _, x := range words {
		for _, y := range words {
			var kf key.CustomKeyInformationFlags
			kf.FromBytes(x)
			kept := kf
			keptNames := append([]string(nil), kf.Name...)
			kf.FromBytes(y)
			var fresh key.CustomKeyInformationFlags
			fresh.FromBytes(y)
			c.Check("C19/keycredential_flags/history/earlier-decomposition-unchanged-by-later-parse", kept.Value == x && fmt.Sprint(kept.Name) == fmt.Sprint(keptNames), func() string {
				return fmt.Sprintf("FromBytes(%#02x) gave %q; after FromBytes(%#02x) on the same receiver the copy kept earlier reads %q", x, keptNames, y, kept.Name)
			})
			c.Check("C19/keycredential_flags/history/second-parse-equals-fresh-parse", kf.Value == fresh.Value && fmt.Sprint(kf.Name) == fmt.Sprint(fresh.Name), func() string {
				return fmt.Sprintf("FromBytes(%#02x) then FromBytes(%#02x) on one receiver gives %q, a fresh receiver %q", x, y, kf.Name, fresh.Name)
			})
		}
	}
}

// ---------------------------------------------------------------- constant tables

type table struct {
	id     string
	width  int // bits of the value domain (for key formatting and fallback probes)
	prefix string
	consts []Const
	name   func(v uint64) string
	call   string // printf pattern of the call for witnesses, one %s = value
}

func (t *table) hex(v uint64) string { return fmt.Sprintf("0x%0*X", t.width/4, v) }

// renderings of a number that a fallback name may embed
func renderings(v uint64) []string {
	return []string{
		fmt.Sprintf("%d", v), fmt.Sprintf("%x", v), fmt.Sprintf("%X", v),
		fmt.Sprintf("%02x", v), fmt.Sprintf("%02X", v), fmt.Sprintf("%04x", v), fmt.Sprintf("%04X", v),
		fmt.Sprintf("%08x", v), fmt.Sprintf("%08X", v),
	}
}

type fallback struct {
	constant map[string]bool // names returned for >=2 undeclared values
	probes   []uint64
	names    []string
}

func probeFallback(c *vf.Ctx, t *table, declared map[uint64]bool) *fallback {
	var cand []uint64
	if t.width <= 16 {
		for v := uint64(0); v < 1<<uint(t.width); v++ {
			cand = append(cand, v)
		}
	} else {
		cand = append(cand, enum.Words(32)...)
		cand = append(cand, enum.Pow2(32)...)
		cand = append(cand, 0xDEADBEEF, 0x12345678, 0xC0FFEE00)
	}
	fb := &fallback{constant: map[string]bool{}}
	count := map[string]int{}
	for _, v := range cand {
		if declared[v] {
			continue
		}
		var s string
		if p, _, _ := vf.Try(func() { s = t.name(v) }); p {
			continue // panics on undeclared values are not this property's business
		}
		count[s]++
		if v >= 100 && len(fb.probes) < 6 {
			fb.probes = append(fb.probes, v)
			fb.names = append(fb.names, s)
		}
	}
	for s, n := range count {
		if n >= 2 {
			fb.constant[s] = true
		}
	}
	return fb
}

// isPlaceholder reports whether nm is what the function returns for values it does not know.
func (fb *fallback) isPlaceholder(v uint64, nm string) (bool, string) {
	if strings.TrimSpace(nm) == "" {
		return true, "empty name"
	}
	if fb.constant[nm] {
		return true, fmt.Sprintf("%q is what the function returns for every undeclared value", nm)
	}
	for i, u := range fb.probes {
		ru, rv := renderings(u), renderings(v)
		for j := range ru {
			if strings.Contains(fb.names[i], ru[j]) && strings.ReplaceAll(fb.names[i], ru[j], rv[j]) == nm {
				return true, fmt.Sprintf("%q is the numeric fallback (undeclared value %d gives %q)", nm, u, fb.names[i])
			}
		}
	}
	return false, ""
}

func checkTable(c *vf.Ctx, t *table) map[uint64]string {
	if len(t.consts) == 0 {
		c.Fatalf("table %s: no constants found in source", t.id)
	}
	declared := map[uint64]bool{}
	idents := map[uint64][]string{}
	var order []uint64
	for _, k := range t.consts {
		if !declared[k.Val] {
			declared[k.Val] = true
			order = append(order, k.Val)
		}
		idents[k.Val] = append(idents[k.Val], k.Name)
	}
	fb := probeFallback(c, t, declared)
	names := map[uint64]string{}
	good := map[uint64]bool{}
	for _, v := range order {
		v := v
		c.Case([]byte(t.id), []byte(t.hex(v)))
		var nm string
		if p, msg, where := vf.Try(func() { nm = t.name(v) }); p {
			c.Check("C19/"+t.id+"/"+t.hex(v)+"/has-name", false, func() string {
				return fmt.Sprintf("%s panicked: %s at %s", fmt.Sprintf(t.call, t.hex(v)), msg, where)
			})
			continue
		}
		names[v] = nm
		ph, why := fb.isPlaceholder(v, nm)
		if ph && strings.TrimSpace(nm) != "" {
			// "None"/"Unknown" are genuine names when that is what the constant is called
			for _, id := range idents[v] {
				if norm(nm) == norm(strings.TrimPrefix(id, t.prefix)) {
					ph = false
				}
			}
		}
		good[v] = !ph
		c.Check("C19/"+t.id+"/"+t.hex(v)+"/has-name", !ph, func() string {
			return fmt.Sprintf("declared constant %s = %s: %s = %q — %s", strings.Join(idents[v], "/"), t.hex(v), fmt.Sprintf(t.call, t.hex(v)), nm, why)
		})
	}
	byName := map[string][]uint64{}
	for _, v := range order {
		if good[v] {
			byName[names[v]] = append(byName[names[v]], v)
		}
	}
	for _, v := range order {
		if !good[v] {
			continue
		}
		v := v
		c.Check("C19/"+t.id+"/"+t.hex(v)+"/name-unique", len(byName[names[v]]) == 1, func() string {
			var o []string
			for _, w := range byName[names[v]] {
				o = append(o, t.hex(w)+" ("+strings.Join(idents[w], "/")+")")
			}
			return fmt.Sprintf("distinct values %s all map to the name %q", strings.Join(o, ", "), names[v])
		})
	}
	c.Set("constants_"+t.id, map[string]int{"declared": len(t.consts), "distinct_values": len(order)})
	return names
}

func constantTables(c *vf.Ctx) {
	// --- NT status
	pn := load(c, "windows/nt_status")
	nt := &table{id: "nt_status", width: 32, prefix: "NT_STATUS_", consts: pn.Select(ofType("NT_STATUS")),
		name: func(v uint64) string { return nt_status.NT_STATUS(v).String() }, call: "nt_status.NT_STATUS(%s).String()"}
	checkTable(c, nt)
	seen := map[uint64]bool{}
	for _, k := range nt.consts {
		if seen[k.Val] || k.Val == 0 {
			continue
		}
		seen[k.Val] = true
		k := k
		var err error
		if p, msg, where := vf.Try(func() { err = nt_status.NT_STATUS(k.Val).Error() }); p {
			c.Check("C19/nt_status/"+nt.hex(k.Val)+"/error-non-nil", false, func() string {
				return fmt.Sprintf("NT_STATUS(%s).Error() panicked: %s at %s", nt.hex(k.Val), msg, where)
			})
			continue
		}
		c.Check("C19/nt_status/"+nt.hex(k.Val)+"/error-non-nil", err != nil, func() string {
			return fmt.Sprintf("declared non-success status %s = %s: NT_STATUS(%s).Error() = nil", k.Name, nt.hex(k.Val), nt.hex(k.Val))
		})
		if err != nil {
			want := fmt.Sprintf("%08x", k.Val)
			c.Check("C19/nt_status/"+nt.hex(k.Val)+"/error-mentions-code", strings.Contains(strings.ToLower(err.Error()), want), func() string {
				return fmt.Sprintf("NT_STATUS(%s).Error() = %q does not contain the 8-digit hex code %s", nt.hex(k.Val), err.Error(), want)
			})
		}
	}
	c.Sample("constant", map[string]any{"table": "nt_status", "value": "0xC0000022", "name": nt_status.NT_STATUS(0xC0000022).String(), "error": fmt.Sprint(nt_status.NT_STATUS(0xC0000022).Error())})

	// --- SMB command codes and the three sub-command families
	pcodes := load(c, "network/smb/smb_v10/message/commands/codes")
	checkTable(c, &table{id: "command_codes", width: 8, prefix: "SMB_COM_", consts: pcodes.Select(ofType("CommandCode")),
		name: func(v uint64) string { return codes.CommandCode(v).String() }, call: "codes.CommandCode(%s).String()"})
	psub := load(c, "network/smb/smb_v10/subcommands")
	checkTable(c, &table{id: "nt_transact_subcommands", width: 16, prefix: "NT_TRANSACT_", consts: psub.Select(ofType("NtTransactSubcommand")),
		name: func(v uint64) string { return subcommands.NtTransactSubcommand(v).String() }, call: "subcommands.NtTransactSubcommand(%s).String()"})
	checkTable(c, &table{id: "transaction2_subcommands", width: 16, prefix: "TRANS2_", consts: psub.Select(ofType("Transaction2Subcommand")),
		name: func(v uint64) string { return subcommands.Transaction2Subcommand(v).String() }, call: "subcommands.Transaction2Subcommand(%s).String()"})
	checkTable(c, &table{id: "transaction_subcommands", width: 16, prefix: "TRANS_", consts: psub.Select(ofType("TransactionSubcommand")),
		name: func(v uint64) string { return subcommands.TransactionSubcommand(v).String() }, call: "subcommands.TransactionSubcommand(%s).String()"})

	// --- NetBIOS session message types
	pnb := load(c, "network/netbios", "session.go")
	checkTable(c, &table{id: "netbios_session_message_types", width: 8, prefix: "SESSION_", consts: pnb.Select(ofType("SESSION_MESSAGE_TYPE")),
		name: func(v uint64) string { return netbios.SESSION_MESSAGE_TYPE(v).String() }, call: "netbios.SESSION_MESSAGE_TYPE(%s).String()"})

	// --- key-credential enumerations
	pk := load(c, "windows/keycredential/key")
	checkTable(c, &table{id: "keycredential_volume_type", width: 8, prefix: "CustomKeyInformationVolumeType_", consts: pk.Select(withPrefix("CustomKeyInformationVolumeType_")),
		name: func(v uint64) string { x := key.CustomKeyInformationVolumeType{Value: uint8(v)}; return x.String() }, call: "(&key.CustomKeyInformationVolumeType{Value:%s}).String()"})
	checkTable(c, &table{id: "keycredential_entry_type", width: 8, prefix: "KeyCredentialEntryType_", consts: pk.Select(withPrefix("KeyCredentialEntryType_")),
		name: func(v uint64) string { x := key.KeyCredentialEntryType{Value: uint8(v)}; return x.String() }, call: "(&key.KeyCredentialEntryType{Value:%s}).String()"})
	checkTable(c, &table{id: "keycredential_version", width: 32, prefix: "KeyCredentialVersion_", consts: pk.Select(withPrefix("KeyCredentialVersion_")),
		name: func(v uint64) string { x := key.KeyCredentialVersion{Value: uint32(v)}; return x.String() }, call: "(&key.KeyCredentialVersion{Value:%s}).String()"})
	checkTable(c, &table{id: "keycredential_key_source", width: 16, prefix: "KeySource_", consts: pk.Select(ofType("KeySource")),
		name: func(v uint64) string { return key.KeySource(v).String() }, call: "key.KeySource(%s).String()"})
	checkTable(c, &table{id: "keycredential_key_strength", width: 32, prefix: "KeyStrength_", consts: pk.Select(withPrefix("KeyStrength_")),
		name: func(v uint64) string {
			var x key.KeyStrength
			b := make([]byte, 4)
			binary.LittleEndian.PutUint32(b, uint32(v))
			x.FromBytes(b)
			return x.Name
		}, call: "key.KeyStrength.FromBytes(le32 %s).Name"})
	checkTable(c, &table{id: "keycredential_key_usage", width: 8, prefix: "KeyUsage_", consts: pk.Select(withPrefix("KeyUsage_")),
		name: func(v uint64) string { x := key.KeyUsage{Value: uint8(v)}; return x.String() }, call: "(&key.KeyUsage{Value:%s}).String()"})
	checkTable(c, &table{id: "keycredential_flags_constants", width: 8, prefix: "CustomKeyInformationFlags_", consts: pk.Select(withPrefix("CustomKeyInformationFlags_")),
		name: func(v uint64) string {
			var x key.CustomKeyInformationFlags
			x.FromBytes(byte(v))
			return strings.Join(x.Name, "|")
		}, call: "key.CustomKeyInformationFlags.FromBytes(%s).Name"})

	// --- LDAP attribute enumerations that have a name function
	pl := load(c, "network/ldap/ldap_attributes")
	checkTable(c, &table{id: "ldap_domain_functionality_level", width: 8, prefix: "DOMAIN_FUNCTIONALITY_LEVEL_", consts: pl.Select(ofType("DomainFunctionalityLevel")),
		name: func(v uint64) string { return ldap_attributes.DomainFunctionalityLevel(v).String() }, call: "ldap_attributes.DomainFunctionalityLevel(%s).String()"})
	checkTable(c, &table{id: "ldap_mspki_enrollment_flag", width: 32, prefix: "MSPKI_ENROLLMENT_FLAG_", consts: pl.Select(inFile("msPKI-Enrollment-Flag.go", withPrefix("MSPKI_ENROLLMENT_FLAG_"))),
		name: func(v uint64) string { return ldap_attributes.MSPKIEnrollmentFlag(v).String() }, call: "ldap_attributes.MSPKIEnrollmentFlag(%s).String()"})
	checkTable(c, &table{id: "ldap_password_properties", width: 32, prefix: "PASSWORD_PROPERTY_", consts: pl.Select(ofType("PasswordProperties")),
		name: func(v uint64) string { return ldap_attributes.PasswordProperties(v).String() }, call: "ldap_attributes.PasswordProperties(%s).String()"})
	checkTable(c, &table{id: "ldap_sam_account_type", width: 32, prefix: "SAM_", consts: pl.Select(inFile("sAMAccountType.go", withPrefix("SAM_"))),
		name: func(v uint64) string { return ldap_attributes.SAMAccountType(v).String() }, call: "ldap_attributes.SAMAccountType(%s).String()"})
	c.Sample("constant", map[string]any{"table": "command_codes", "value": "0x72", "name": codes.CommandCode(0x72).String()})
}
