// C16 — binary SIDs and distinguished names decode to their canonical text.
// E4: complete enumeration of a SID lattice (count x authority x value-at-index x buffer form)
// against an own MS-DTYP 2.4.2 printer, and of all RDN sequences up to a length bound
// against the dot-join of the DC values known from construction.
package main

import (
	"fmt"
	"os"
	"strings"
	"sync"

	"github.com/TheManticoreProject/Manticore/network/ldap"

	"verif/enum"
	"verif/mc/purity"
	"verif/ref/refsid"
	"verif/vf"
)

func main() { vf.Main("C16", "exploration", run) }

func run(c *vf.Ctx) {
	if err := refsid.SelfTest(); err != nil {
		c.Fatalf("%v", err)
	}
	c.Rule("SID: sub-authority count 0..15 x authority {0,1,5,2^32-1 | 2^32,2^48-1} (thorough: all 2^k,2^k±1 < 2^48) x one probe value from {0, 2^k, 2^k±1 (k<32), 2^32-1, 2^32-2} placed at every index over 2 backgrounds of pairwise distinct values, " +
		"each as exact-length buffer and with 1/4/13 trailing bytes; revisions 0,2,255 with the same bodies. " +
		"DN: every sequence of 0..4 (thorough 0..6) RDNs over a 10-RDN alphabet (values holding ',' '=' '\\'), each written in both spellings AD may emit for '=' (\\= and \\3D), plus realistic DNs; the RFC 4514 raw-'=' spelling is measured but not demanded. " +
		"Session lookups (GetDomain, GetAllDomains, FindObjectSIDByRID) against an in-process LDAP directory: 5 (thorough 7) domains (incl. binary SIDs ending in white-space bytes) x 5 directory variants x every way of naming the domain x every RID of ldap_attributes.LocalRIDs, 12 domain RIDs and 6 RIDs nobody has. " +
		"distinct = distinct input byte strings reaching the comparison")
	c.Assume("fmt/strconv decimal printing is correct; a buffer with trailing bytes may be decoded or rejected (\"\") — the property is silent; authorities >= 2^32 may print decimal (property text) or 0x%012X (MS-DTYP 2.4.2.1)")
	sids(c)
	dns(c)
	histories(c)
	sessionLookups(c)
}

// histories: both conversions are pure; all ordered pairs of calls over a small input set (verif/mc/purity),
// including a caller that recycles its SID buffer in place for the next SID of the same length.
func histories(c *vf.Ctx) {
	sid := func(auth byte, subs ...uint32) []byte {
		b := []byte{1, byte(len(subs)), 0, 0, 0, 0, 0, auth}
		for _, s := range subs {
			b = append(b, byte(s), byte(s>>8), byte(s>>16), byte(s>>24))
		}
		return b
	}
	in := [][]byte{sid(5, 18), sid(5, 19), sid(1, 0), sid(5, 21, 1, 2, 3, 500), sid(5, 21, 1, 2, 3, 501), sid(5, 21, 1, 2, 3, 1013), sid(5, 32, 544), sid(5)}
	purity.Check(c, "C16/history/ParseSIDFromBytes", "ldap.ParseSIDFromBytes", in, func(b []byte) [][]byte { return [][]byte{[]byte(ldap.ParseSIDFromBytes(b))} })
	dn := [][]byte{[]byte("CN=a,DC=corp,DC=example"), []byte("CN=b,DC=corp,DC=example"), []byte("DC=x"), []byte("CN=q"), []byte("")}
	purity.Check(c, "C16/history/GetDomainFromDistinguishedName", "ldap.GetDomainFromDistinguishedName", dn, func(b []byte) [][]byte { return [][]byte{[]byte(ldap.GetDomainFromDistinguishedName(string(b)))} })
}

func countClass(n int) string {
	switch n {
	case 0:
		return "count0"
	case 1:
		return "count1"
	}
	return "count2-15"
}

func sids(c *vf.Ctx) {
	auths := []uint64{0, 1, 5, 1<<32 - 1, 1 << 32, 1<<48 - 1}
	if c.Thorough() {
		auths = append(auths, enum.Pow2(48)...)
	}
	probes := enum.Pow2(32)
	trailers := [][]byte{nil, {0xAA}, {1, 2, 3, 4}, enum.Counter(13, 0xF0)}
	type job struct {
		n    int
		auth uint64
	}
	var jobs []job
	seen := map[job]bool{}
	for n := 0; n <= 15; n++ {
		for _, a := range auths {
			j := job{n, a}
			if !seen[j] {
				seen[j] = true
				jobs = append(jobs, j)
			}
		}
	}
	one := func(auth uint64, subs []uint32) {
		n := len(subs)
		body := refsid.Encode(1, auth, subs)
		ac := "auth-lt-2^32"
		if auth >= 1<<32 {
			ac = "auth-ge-2^32"
		}
		want, alt := refsid.Text(auth, subs)
		for ti, tr := range trailers {
			buf := append(append([]byte{}, body...), tr...)
			var got string
			p, msg, where := vf.Try(func() { got = ldap.ParseSIDFromBytes(buf) })
			c.Case([]byte("sid"), buf)
			bf := "exact-length"
			ok := !p && refsid.Accept(got, auth, subs)
			if ti > 0 {
				bf = "trailing-bytes"
				ok = ok || (!p && got == "")
			}
			c.Check("C16/sid/ParseSIDFromBytes/canonical-text/"+countClass(n)+"/"+ac+"/"+bf, ok, func() string {
				w := fmt.Sprintf("ParseSIDFromBytes(%x) = %q, want %q", buf, got, want)
				if alt != "" {
					w += fmt.Sprintf(" (or %q)", alt)
				}
				if ti > 0 {
					w += ` (or "" for a buffer with trailing bytes)`
				}
				if p {
					w += fmt.Sprintf("; PANIC %s at %s", msg, where)
				}
				return w
			})
		}
		// other revisions: documented to return ""
		if auth == 5 {
			for _, rev := range []byte{0, 2, 255} {
				buf := refsid.Encode(rev, auth, subs)
				var got string
				p, msg, _ := vf.Try(func() { got = ldap.ParseSIDFromBytes(buf) })
				c.Case([]byte("sidrev"), buf)
				c.Check("C16/sid/ParseSIDFromBytes/revision-not-1-gives-empty-string", !p && got == "", func() string {
					return fmt.Sprintf("ParseSIDFromBytes(%x) = %q panic=%v %s, want \"\" (revision %d)", buf, got, p, msg, rev)
				})
			}
		}
	}
	vf.Par(len(jobs), func(i int) {
		n, auth := jobs[i].n, jobs[i].auth
		if n == 0 {
			one(auth, nil)
			return
		}
		for bg := 0; bg < 2; bg++ {
			base := make([]uint32, n)
			for k := range base {
				if bg == 0 {
					base[k] = uint32(1000 + k)
				} else {
					base[k] = 0xFFFFFF00 - uint32(k)*0x01010101
				}
			}
			one(auth, base)
			for idx := 0; idx < n; idx++ {
				for _, pv := range probes {
					subs := append([]uint32{}, base...)
					subs[idx] = uint32(pv)
					one(auth, subs)
				}
			}
		}
	})
	c.Sample("sid", map[string]any{"bytes": vf.Hex(refsid.Encode(1, 5, []uint32{18})), "want": "S-1-5-18"})
	c.Sample("sid", map[string]any{"bytes": vf.Hex(refsid.Encode(1, 1<<48-1, []uint32{21, 1<<31 + 1, 0})), "want": "S-1-281474976710655-21-2147483649-0 or S-1-0xFFFFFFFFFFFF-21-2147483649-0"})
}

var rdnAlpha = []refsid.RDN{
	{"CN", "a"}, {"OU", "b"}, {"DC", "x"}, {"DC", "y"}, {"DC", "corp"},
	{"CN", "a,DC=z"}, // AD emits CN=a\,DC\=z (or \3D); RFC 4514 form CN=a\,DC=z
	{"CN", "DC=q"},   // AD emits CN=DC\=q
	{"OU", "DC"},
	{"CN", `b\`}, // emitted as CN=b\\ : the comma that follows IS a separator
	{"DC", "CD"}, // a value made of the letters of the attribute type (prefix vs. cut-set trimming)
	// DC values are not host-name labels (AD-integrated DNS zones: "_msdcs", "@", "example.com" as ONE value), and
	// '@' occurs in ordinary RDN values (contacts named after a mail address)
	{"DC", "lab_test"}, {"DC", "_msdcs"}, {"DC", "@"}, {"CN", "jdoe@partner.org"}, {"DC", "münchen"},
	// letters whose upper- or lower-case form has another byte length in UTF-8 (dotless i and long s shrink, U+0250
	// and U+023A grow, U+0130 shrinks when lowered), in front of the DC components and inside one: positions taken
	// in a case-mapped copy of the DN do not fit the DN itself
	{"CN", "Işık Yıldız"}, {"OU", "ɐſ"}, {"CN", "İȺ"}, {"DC", "ıſɐ"},
}

func dns(c *vf.Ctx) {
	// The RFC 4514 spelling leaves '=' raw inside values ("CN=a\,DC=z"): valid LDAP, but not what AD
	// emits (AD escapes '='), so the property does not cover it. It is measured and reported as
	// information; VERIF_C16_RFC4514=1 turns it into an obligation (used to validate the optional
	// hardening patch described in notes/C16.md).
	strict4514 := os.Getenv("VERIF_C16_RFC4514") == "1"
	var info4514 int64
	var infoMu sync.Mutex
	var infoWitness string
	try := func(rd []refsid.RDN, tag string) {
		want := refsid.Domain(rd)
		class := "plain-rdns"
		for _, r := range rd {
			if strings.Contains(r.Value, ",") {
				class = "with-escaped-comma"
				break
			}
			if strings.Contains(r.Value, `\`) {
				class = "with-escaped-backslash"
			}
		}
		seen := map[string]bool{}
		for _, st := range []refsid.Style{refsid.ADBackslash, refsid.ADHex, refsid.RFC4514} {
			dn := refsid.DN(rd, st)
			if seen[dn] {
				continue
			}
			seen[dn] = true
			var got string
			p, msg, where := vf.Try(func() { got = ldap.GetDomainFromDistinguishedName(dn) })
			ok := !p && got == want
			wit := func() string {
				w := fmt.Sprintf("%s GetDomainFromDistinguishedName(%q) = %q, want %q", tag, dn, got, want)
				if p {
					w += fmt.Sprintf("; PANIC %s at %s", msg, where)
				}
				return w
			}
			if st == refsid.RFC4514 {
				// reached only when the value holds a raw '=' (otherwise the string equals the AD spelling)
				if strict4514 {
					c.Case([]byte("dn"), []byte(dn))
					c.Check("C16/dn/GetDomainFromDistinguishedName/dot-join-of-DC-values/rfc4514-raw-equals-(not-AD-form)", ok, wit)
				} else if !ok {
					infoMu.Lock()
					info4514++
					if infoWitness == "" {
						infoWitness = wit()
					}
					infoMu.Unlock()
				}
				continue
			}
			c.Case([]byte("dn"), []byte(dn))
			c.Check("C16/dn/GetDomainFromDistinguishedName/dot-join-of-DC-values/"+class, ok, wit)
		}
	}
	defer func() {
		c.Set("info_rfc4514_raw_equals_mismatches_not_demanded", info4514)
		if infoWitness != "" {
			c.Sample("info-not-demanded", infoWitness)
		}
	}()
	maxLen := c.Pick(4, 6)
	// shortest first, so the first witness is also the shortest
	for l := 0; l <= maxLen; l++ {
		idx := make([]int, l)
		for {
			rd := make([]refsid.RDN, l)
			for i, k := range idx {
				rd[i] = rdnAlpha[k]
			}
			try(rd, "enumerated")
			i := l - 1
			for ; i >= 0; i-- {
				idx[i]++
				if idx[i] < len(rdnAlpha) {
					break
				}
				idx[i] = 0
			}
			if i < 0 {
				break
			}
		}
	}
	realistic := [][]refsid.RDN{
		{{"DC", "example"}, {"DC", "com"}},
		{{"CN", "John Doe"}, {"OU", "Users"}, {"DC", "example"}, {"DC", "com"}},
		{{"CN", "Doe, John"}, {"OU", "Users"}, {"DC", "corp"}, {"DC", "example"}, {"DC", "com"}},
		{{"CN", "Configuration"}, {"DC", "example"}, {"DC", "com"}},
		{{"CN", "Schema"}, {"CN", "Configuration"}, {"DC", "a"}, {"DC", "b"}, {"DC", "c"}, {"DC", "d"}, {"DC", "e"}},
		{{"DC", "DomainDnsZones"}, {"DC", "example"}, {"DC", "com"}},
		{{"CN", "SRV01"}, {"OU", "Domain Controllers"}, {"DC", "sub"}, {"DC", "example"}, {"DC", "local"}},
		{{"CN", "Smith, Ann, DC=evil"}, {"OU", "R&D, Berlin"}, {"DC", "example"}, {"DC", "com"}},
		{{"CN", "x=y+z"}, {"DC", "example"}, {"DC", "com"}},
		{{"CN", "krbtgt"}, {"CN", "Users"}, {"DC", "xn--bcher-kva"}, {"DC", "example"}},
	}
	for _, rd := range realistic {
		try(rd, "realistic")
	}
	c.Sample("dn", map[string]any{"dn": refsid.DN(realistic[2], refsid.ADBackslash), "want": refsid.Domain(realistic[2])})
	c.Sample("dn", map[string]any{"dn": refsid.DN([]refsid.RDN{rdnAlpha[5], rdnAlpha[2], rdnAlpha[8], rdnAlpha[3]}, refsid.ADHex), "want": "x.y"})
}
