package main

// Session-level lookups of C16's anchors (network/ldap/objects.go, rid.go): GetDomain, GetAllDomains and
// FindObjectSIDByRID run against an in-process directory speaking LDAP over a net.Pipe (no sockets, no
// timing: one request, its entries, done). The environment's answers are enumerated: directory variants x
// domain SIDs x ways of naming the domain x every RID of the LocalRIDs table and a set of domain RIDs.
// Oracle: every SID string a lookup returns is the canonical text (own MS-DTYP printer) of the BINARY
// objectSid of the entry the directory returned for it, and the DNS name is the dot-join of the DC values.

import (
	"fmt"
	"net"
	"reflect"
	"strings"
	"unsafe"

	ber "github.com/go-asn1-ber/asn1-ber"
	goldap "github.com/go-ldap/ldap/v3"

	"github.com/TheManticoreProject/Manticore/network/ldap"
	"github.com/TheManticoreProject/Manticore/network/ldap/ldap_attributes"

	"verif/ref/refsid"
	"verif/vf"
)

type dirEntry struct {
	dn      string
	classes []string
	auth    uint64
	subs    []uint32
	hasSID  bool
	attrs   map[string][]string
}

func (e *dirEntry) sidText() string { t, _ := refsid.Text(e.auth, e.subs); return t }

type directory struct {
	rootDSE map[string][]string
	entries []*dirEntry
	// log of the objectSid searches answered: filter value -> entries returned
	sidSearches []sidSearch
	problems    []string
}

type sidSearch struct {
	filter   string
	returned []*dirEntry
}

func underBase(dn, base string) bool {
	d, b := strings.ToLower(dn), strings.ToLower(base)
	return b == "" || d == b || strings.HasSuffix(d, ","+b)
}

func (d *directory) search(base string, scope int, filter string) []*dirEntry {
	var out []*dirEntry
	switch {
	case strings.EqualFold(filter, "(objectClass=domain)"):
		for _, e := range d.entries {
			if !underBase(e.dn, base) {
				continue
			}
			for _, c := range e.classes {
				if c == "domain" {
					out = append(out, e)
				}
			}
		}
	case strings.HasPrefix(strings.ToLower(filter), "(objectsid="):
		want := filter[len("(objectSid=") : len(filter)-1]
		for _, e := range d.entries {
			if e.hasSID && underBase(e.dn, base) && e.sidText() == want {
				out = append(out, e)
			}
		}
		d.sidSearches = append(d.sidSearches, sidSearch{filter, out})
	default:
		d.problems = append(d.problems, "unexpected filter "+filter)
	}
	return out
}

func berSeq() *ber.Packet {
	return ber.Encode(ber.ClassUniversal, ber.TypeConstructed, ber.TagSequence, nil, "")
}
func berStr(s string) *ber.Packet {
	return ber.NewString(ber.ClassUniversal, ber.TypePrimitive, ber.TagOctetString, s, "")
}

func entryPacket(id int64, dn string, attrs map[string][]string, names []string) *ber.Packet {
	p := berSeq()
	p.AppendChild(ber.NewInteger(ber.ClassUniversal, ber.TypePrimitive, ber.TagInteger, id, ""))
	e := ber.Encode(ber.ClassApplication, ber.TypeConstructed, 4, nil, "")
	e.AppendChild(berStr(dn))
	as := berSeq()
	for _, n := range names {
		vals, ok := attrs[n]
		if !ok {
			continue
		}
		a := berSeq()
		a.AppendChild(berStr(n))
		set := ber.Encode(ber.ClassUniversal, ber.TypeConstructed, ber.TagSet, nil, "")
		for _, v := range vals {
			set.AppendChild(berStr(v))
		}
		a.AppendChild(set)
		as.AppendChild(a)
	}
	e.AppendChild(as)
	p.AppendChild(e)
	return p
}

func donePacket(id int64) *ber.Packet {
	p := berSeq()
	p.AppendChild(ber.NewInteger(ber.ClassUniversal, ber.TypePrimitive, ber.TagInteger, id, ""))
	e := ber.Encode(ber.ClassApplication, ber.TypeConstructed, 5, nil, "")
	e.AppendChild(ber.NewInteger(ber.ClassUniversal, ber.TypePrimitive, ber.TagEnumerated, int64(0), ""))
	e.AppendChild(berStr(""))
	e.AppendChild(berStr(""))
	p.AppendChild(e)
	return p
}

// serve answers LDAP search requests on conn until it is closed.
func (d *directory) serve(conn net.Conn, done chan<- struct{}) {
	defer close(done)
	for {
		pkt, err := ber.ReadPacket(conn)
		if err != nil {
			return
		}
		if len(pkt.Children) < 2 {
			d.problems = append(d.problems, "malformed LDAPMessage")
			return
		}
		id, _ := pkt.Children[0].Value.(int64)
		op := pkt.Children[1]
		switch op.Tag {
		case 2: // unbind
			return
		case 16: // abandon
			continue
		case 3:
		default:
			d.problems = append(d.problems, fmt.Sprintf("unexpected LDAP operation %d", op.Tag))
			return
		}
		if len(op.Children) < 8 {
			d.problems = append(d.problems, "malformed SearchRequest")
			return
		}
		base, _ := op.Children[0].Value.(string)
		scope64, _ := op.Children[1].Value.(int64)
		filter, ferr := goldap.DecompileFilter(op.Children[6])
		if ferr != nil {
			d.problems = append(d.problems, "undecodable filter: "+ferr.Error())
			return
		}
		var want []string
		all := false
		for _, a := range op.Children[7].Children {
			s, _ := a.Value.(string)
			if s == "*" {
				all = true
			}
			want = append(want, s)
		}
		send := func(dn string, attrs map[string][]string) bool {
			var names []string
			for n := range attrs {
				if all {
					names = append(names, n)
					continue
				}
				for _, w := range want {
					if strings.EqualFold(w, n) {
						names = append(names, n)
					}
				}
			}
			_, err := conn.Write(entryPacket(id, dn, attrs, names).Bytes())
			return err == nil
		}
		if base == "" && scope64 == 0 {
			if !send("", d.rootDSE) {
				return
			}
		} else {
			for _, e := range d.search(base, int(scope64), filter) {
				attrs := map[string][]string{"distinguishedName": {e.dn}}
				for k, v := range e.attrs {
					attrs[k] = v
				}
				if e.hasSID {
					attrs["objectSid"] = []string{string(refsid.Encode(1, e.auth, e.subs))}
				}
				if !send(e.dn, attrs) {
					return
				}
			}
		}
		if _, err := conn.Write(donePacket(id).Bytes()); err != nil {
			return
		}
	}
}

var ldapConnType = reflect.TypeOf((*goldap.Conn)(nil))

// sessionOn builds a Session whose (private) *ldap.Conn talks to d.
func sessionOn(c *vf.Ctx, d *directory) (*ldap.Session, func()) {
	cl, sv := net.Pipe()
	done := make(chan struct{})
	go d.serve(sv, done)
	lc := goldap.NewConn(cl, false)
	lc.Start()
	s := &ldap.Session{}
	v := reflect.ValueOf(s).Elem()
	set := false
	for i := 0; i < v.NumField(); i++ {
		if v.Field(i).Type() == ldapConnType {
			*(**goldap.Conn)(unsafe.Pointer(v.Field(i).UnsafeAddr())) = lc
			set = true
		}
	}
	if !set {
		c.Fatalf("ldap.Session has no *ldap.Conn field to attach the in-process directory to")
	}
	return s, func() { lc.Close(); sv.Close(); <-done }
}

type domSpec struct {
	rdns []string // DC values, leaf first
	subs []uint32 // domain SID sub-authorities (authority 5)
}

func (d domSpec) dn() string {
	var p []string
	for _, r := range d.rdns {
		p = append(p, "DC="+r)
	}
	return strings.Join(p, ",")
}
func (d domSpec) dns() string { return strings.Join(d.rdns, ".") }

func sessionLookups(c *vf.Ctx) {
	doms := []domSpec{
		{[]string{"corp", "example", "com"}, []uint32{21, 1004336348, 1177238915, 682003330}},
		{[]string{"lab"}, []uint32{21, 4294967295, 2147483648, 0}},
		// binary SIDs that begin or end in bytes a TEXT routine would treat as white space or a terminator
		{[]string{"ws", "test"}, []uint32{21, 0x0D0A0920, 0x20202020, 0x20C4A1B7}},
		{[]string{"nl"}, []uint32{21, 7, 0x0A000000}},
		{[]string{"tab", "x"}, []uint32{21, 0x09000009, 0x0900000D}},
		{[]string{"big", "example"}, []uint32{21, 0x80000000, 0xFFFFFFFF, 5}}, // sub-authorities are unsigned 32-bit values
	}
	if c.Thorough() {
		doms = append(doms, domSpec{[]string{"a", "b", "c", "d", "e"}, []uint32{21, 1, 2, 3}}, domSpec{[]string{"x-1", "y"}, []uint32{21, 10, 4294967294, 65536}})
	}
	domainRIDs := []uint32{500, 501, 512, 513, 1000, 1105, 2147483648, 4294967295, 0x20000001, 0x0A00000A, 0x0D0A0920, 0xA0000085}
	// every RID an ordinary account can get in a small domain: whatever table decides "this RID is a BUILTIN alias"
	// must not claim any of them (aliases live below 1000)
	baseRIDs := domainRIDs
	var manyRIDs []uint32
	manyRIDs = append(manyRIDs, baseRIDs...)
	for r := uint32(1001); r <= 1700; r++ {
		if r != 1105 {
			manyRIDs = append(manyRIDs, r)
		}
	}
	// variants of what the directory holds
	variants := []string{"full", "no-builtin-container", "no-accounts", "domain-object-with-a-builtin-rid", "child-domain"}
	nLookups := 0
	for di, dom := range doms {
		for _, variant := range variants {
			domainRIDs := baseRIDs
			if c.Thorough() || di == 0 && variant == "full" {
				domainRIDs = manyRIDs // the dense sweep: one domain in quick, every domain and variant in thorough
			}
			dir := &directory{rootDSE: map[string][]string{
				"defaultNamingContext":       {dom.dn()},
				"configurationNamingContext": {"CN=Configuration," + dom.dn()},
			}}
			dir.entries = append(dir.entries, &dirEntry{dn: dom.dn(), classes: []string{"top", "domain", "domainDNS"}, auth: 5, subs: dom.subs, hasSID: true, attrs: map[string][]string{"dc": {dom.rdns[0]}}})
			if variant == "child-domain" {
				dir.entries = append(dir.entries, &dirEntry{dn: "DC=child," + dom.dn(), classes: []string{"top", "domain", "domainDNS"}, auth: 5, subs: []uint32{21, 7, 8, 9}, hasSID: true, attrs: map[string][]string{"dc": {"child"}}})
			}
			if variant != "no-builtin-container" {
				for _, rid := range ldap_attributes.LocalRIDs {
					if rid >= 1000 {
						continue // no BUILTIN alias has such a RID; the directory is not built to suit the table
					}
					dir.entries = append(dir.entries, &dirEntry{dn: fmt.Sprintf("CN=Builtin%d,CN=Builtin,%s", rid, dom.dn()), classes: []string{"top", "group"}, auth: 5, subs: []uint32{32, uint32(rid)}, hasSID: true})
				}
			}
			if variant != "no-accounts" {
				for _, rid := range domainRIDs {
					dir.entries = append(dir.entries, &dirEntry{dn: fmt.Sprintf("CN=Account%d,CN=Users,%s", rid, dom.dn()), classes: []string{"top", "user"}, auth: 5, subs: append(append([]uint32{}, dom.subs...), rid), hasSID: true})
				}
			}
			if variant == "domain-object-with-a-builtin-rid" {
				dir.entries = append(dir.entries, &dirEntry{dn: "CN=Odd,CN=Users," + dom.dn(), classes: []string{"top", "group"}, auth: 5, subs: append(append([]uint32{}, dom.subs...), 544), hasSID: true})
			}
			s, closeFn := sessionOn(c, dir)
			ctxt := func() string {
				return fmt.Sprintf("directory %q for domain %s (domain SID %s)", variant, dom.dn(), dir.entries[0].sidText())
			}
			// --- GetDomain by every way of naming it
			namesOf := []string{dom.dns(), strings.ToUpper(dom.dns()), dom.rdns[0], strings.ToUpper(dom.rdns[0])}
			if len(dom.rdns) == 1 {
				namesOf = namesOf[2:] // a single-label DNS name has no dot: looked up as NetBIOS name
			}
			for _, nm := range namesOf {
				nLookups++
				c.Case([]byte("GetDomain"), []byte(variant), []byte(dom.dn()), []byte(nm))
				var err error
				var dn, dnsName, sid string
				pan, msg, where := vf.Try(func() {
					o, e := s.GetDomain(nm)
					err = e
					if o != nil {
						dn, dnsName, sid = o.DistinguishedName, o.DNSName, o.SID
					}
				})
				if !c.Check("C16/session/GetDomain/no-panic", !pan, func() string { return fmt.Sprintf("%s: GetDomain(%q) panicked: %s at %s", ctxt(), nm, msg, where) }) {
					continue
				}
				c.Check("C16/session/GetDomain/finds-the-domain", err == nil && dn == dom.dn(), func() string {
					return fmt.Sprintf("%s: GetDomain(%q) = DN %q err=%v", ctxt(), nm, dn, err)
				})
				if err != nil {
					continue
				}
				c.Check("C16/session/GetDomain/SID-is-canonical-text-of-binary-objectSid", sid == dir.entries[0].sidText(), func() string {
					return fmt.Sprintf("%s: GetDomain(%q).SID = %q, the entry's binary objectSid %x reads %s", ctxt(), nm, sid, refsid.Encode(1, 5, dom.subs), dir.entries[0].sidText())
				})
				c.Check("C16/session/GetDomain/DNSName-is-dot-join-of-DC-components", strings.EqualFold(dnsName, dom.dns()), func() string {
					return fmt.Sprintf("%s: GetDomain(%q).DNSName = %q, the DC components of %s join to %s", ctxt(), nm, dnsName, dom.dn(), dom.dns())
				})
			}
			// --- GetAllDomains
			{
				nLookups++
				c.Case([]byte("GetAllDomains"), []byte(variant), []byte(dom.dn()))
				type row struct{ dn, dns, sid string }
				var rows []row
				var err error
				pan, msg, where := vf.Try(func() {
					m, e := s.GetAllDomains()
					err = e
					for _, o := range m {
						rows = append(rows, row{o.DistinguishedName, o.DNSName, o.SID})
					}
				})
				if c.Check("C16/session/GetAllDomains/no-panic", !pan, func() string { return fmt.Sprintf("%s: GetAllDomains panicked: %s at %s", ctxt(), msg, where) }) {
					wantN := 0
					for _, e := range dir.entries {
						if len(e.classes) > 1 && e.classes[1] == "domain" {
							wantN++
						}
					}
					c.Check("C16/session/GetAllDomains/one-object-per-domain-entry", err == nil && len(rows) == wantN, func() string {
						return fmt.Sprintf("%s: GetAllDomains returned %d domains (err=%v), the directory holds %d", ctxt(), len(rows), err, wantN)
					})
					for _, r := range rows {
						var ent *dirEntry
						for _, e := range dir.entries {
							if e.dn == r.dn {
								ent = e
							}
						}
						if ent == nil {
							c.Check("C16/session/GetAllDomains/one-object-per-domain-entry", false, func() string { return fmt.Sprintf("%s: GetAllDomains returned unknown DN %q", ctxt(), r.dn) })
							continue
						}
						var dcs []string
						for _, p := range strings.Split(ent.dn, ",") {
							dcs = append(dcs, strings.TrimPrefix(p, "DC="))
						}
						c.Check("C16/session/GetAllDomains/SID-is-canonical-text-of-binary-objectSid", r.sid == ent.sidText(), func() string {
							return fmt.Sprintf("%s: GetAllDomains: %s has SID %q, its binary objectSid reads %s", ctxt(), r.dn, r.sid, ent.sidText())
						})
						c.Check("C16/session/GetAllDomains/DNSName-is-dot-join-of-DC-components", strings.EqualFold(r.dns, strings.Join(dcs, ".")), func() string {
							return fmt.Sprintf("%s: GetAllDomains: %s has DNSName %q, want %s", ctxt(), r.dn, r.dns, strings.Join(dcs, "."))
						})
					}
				}
			}
			// --- FindObjectSIDByRID for every RID of the LocalRIDs table, the domain RIDs and some RIDs nobody has
			var rids []int
			rids = append(rids, ldap_attributes.LocalRIDs...)
			for _, r := range domainRIDs {
				rids = append(rids, int(r))
			}
			rids = append(rids, 0, 1, 543, 583, 999, 65536)
			for _, rid := range rids {
				nLookups++
				c.Case([]byte("FindObjectSIDByRID"), []byte(variant), []byte(dom.dn()), []byte(fmt.Sprint(rid)))
				dir.sidSearches = nil
				var got string
				var err error
				pan, msg, where := vf.Try(func() { got, err = s.FindObjectSIDByRID(dom.dns(), rid) })
				if !c.Check("C16/session/FindObjectSIDByRID/no-panic", !pan, func() string {
					return fmt.Sprintf("%s: FindObjectSIDByRID(%q, %d) panicked: %s at %s", ctxt(), dom.dns(), rid, msg, where)
				}) {
					continue
				}
				if err != nil || len(dir.sidSearches) != 1 {
					c.Check("C16/session/FindObjectSIDByRID/looks-the-object-up", false, func() string {
						return fmt.Sprintf("%s: FindObjectSIDByRID(%q, %d) err=%v after %d objectSid searches", ctxt(), dom.dns(), rid, err, len(dir.sidSearches))
					})
					continue
				}
				ss := dir.sidSearches[0]
				if variant != "no-accounts" && rid >= 1000 {
					for _, e := range dir.entries {
						if strings.HasPrefix(e.dn, fmt.Sprintf("CN=Account%d,", rid)) {
							e := e
							c.Check("C16/session/FindObjectSIDByRID/an-existing-account-is-found-by-its-RID", got == e.sidText(), func() string {
								return fmt.Sprintf("%s: the directory holds %s with objectSid %s; FindObjectSIDByRID(%q, %d) searched %s and returned %q", ctxt(), e.dn, e.sidText(), dom.dns(), rid, ss.filter, got)
							})
						}
					}
				}
				switch len(ss.returned) {
				case 0:
					c.Check("C16/session/FindObjectSIDByRID/nothing-found-gives-no-SID", got == "", func() string {
						return fmt.Sprintf("%s: FindObjectSIDByRID(%q, %d) searched %s, the directory returned nothing, yet the result is %q", ctxt(), dom.dns(), rid, ss.filter, got)
					})
				case 1:
					e := ss.returned[0]
					c.Check("C16/session/FindObjectSIDByRID/SID-is-canonical-text-of-the-found-objects-binary-objectSid", got == e.sidText(), func() string {
						return fmt.Sprintf("%s: FindObjectSIDByRID(%q, %d) searched %s and was given %s with binary objectSid %x = %s, but returned %q", ctxt(), dom.dns(), rid, ss.filter, e.dn, refsid.Encode(1, e.auth, e.subs), e.sidText(), got)
					})
					c.Check("C16/session/FindObjectSIDByRID/found-object-has-the-requested-RID", len(e.subs) > 0 && int(e.subs[len(e.subs)-1]) == rid, func() string {
						return fmt.Sprintf("%s: FindObjectSIDByRID(%q, %d) searched %s which designates %s (%s)", ctxt(), dom.dns(), rid, ss.filter, e.dn, e.sidText())
					})
				}
			}
			closeFn()
			if len(dir.problems) > 0 {
				c.Fatalf("in-process directory: %v", dir.problems)
			}
		}
	}
	c.Set("session_lookups", nLookups)
}
