// C03 — SMB1 message envelope: header layout, framing, type dispatch, repeatability of Marshal.
//
//	header   : lattices through Header.Marshal/Unmarshal against an own MS-CIFS 2.2.3.1 codec; GetPID/SetPID
//	dispatch : all 256 command codes x reply flag through Message.Unmarshal and through the two factories
//	framing  : every command x assignment set: WordCount/ByteCount describe exactly the bytes emitted,
//	           message length = 32+1+2w+2+b; blocks at the 255-word / 65535-byte limits
//	repeat   : E2 (mc/bfs) over the real Message object per command: operations {Marshal,
//	           Unmarshal(own first encoding)}, all histories to depth 3 (thorough 4); every Marshal must
//	           return the bytes of the first one
package main

import (
	"bytes"
	"crypto/sha256"
	_ "embed"
	"encoding/json"
	"fmt"
	"os"
	"reflect"
	"strings"
	"sync"
	"sync/atomic"

	"github.com/TheManticoreProject/Manticore/network/smb/smb_v10/message"
	"github.com/TheManticoreProject/Manticore/network/smb/smb_v10/message/commands"
	"github.com/TheManticoreProject/Manticore/network/smb/smb_v10/message/commands/codes"
	"github.com/TheManticoreProject/Manticore/network/smb/smb_v10/message/commands/command_interface"
	"github.com/TheManticoreProject/Manticore/network/smb/smb_v10/message/data"
	"github.com/TheManticoreProject/Manticore/network/smb/smb_v10/message/header"
	"github.com/TheManticoreProject/Manticore/network/smb/smb_v10/message/header/flags"
	"github.com/TheManticoreProject/Manticore/network/smb/smb_v10/message/header/flags2"
	"github.com/TheManticoreProject/Manticore/network/smb/smb_v10/message/parameters"
	"github.com/TheManticoreProject/Manticore/network/smb/smb_v10/message/securityfeatures"

	"verif/checks/smbgen"
	"verif/checks/smbhist"
	"verif/enum"
	"verif/mc/bfs"
	"verif/mc/explore"
	"verif/ref/refsmb"
	"verif/vf"
)

//go:embed known_repeat_classes.json
var knownRepeatJSON []byte

//go:embed known_repeat_outcomes.json
var knownOutcomesJSON []byte

var knownOutcomes = func() map[string][]string {
	var m map[string][]string
	if err := json.Unmarshal(knownOutcomesJSON, &m); err != nil {
		panic("known_repeat_outcomes.json: " + err.Error())
	}
	return m
}()

var knownRepeat = func() map[string][]string {
	var m map[string][]string
	if err := json.Unmarshal(knownRepeatJSON, &m); err != nil {
		panic("known_repeat_classes.json: " + err.Error())
	}
	return m
}()

// chainedPart: a message whose AndX command has a SECOND command attached (Message.AddCommand twice - "open and
// read", "session setup and tree connect"). Whatever the library does with the chain, encoding the unchanged
// message again must return the same bytes, and the counts must describe what is emitted.
func chainedPart(c *vf.Ctx, u *refsmb.Universe, t *smbgen.Tally) {
	var followers []*refsmb.Cmd
	for _, k := range u.Cmds {
		if k.Name == "ReadAndxRequest" || k.Name == "EchoRequest" || k.Name == "ReadAndxResponse" || k.Name == "EchoResponse" {
			followers = append(followers, k)
		}
	}
	for _, cmd := range u.Cmds {
		if !cmd.AndX {
			continue
		}
		lat := refsmb.WithoutFormatVariants(cmd.Lattices(false))
		for _, f := range followers {
			if f.Reply != cmd.Reply {
				continue
			}
			for _, full := range []bool{false, true} {
				a, fa := cmd.Zero(lat), f.Zero(refsmb.WithoutFormatVariants(f.Lattices(false)))
				if full {
					a, fa = cmd.FullAssign(lat), f.FullAssign(refsmb.WithoutFormatVariants(f.Lattices(false)))
				}
				var outs [][]byte
				var errs []error
				pan, msg, where := vf.Try(func() {
					x, err := a.Build()
					if err != nil {
						return
					}
					y, err := fa.Build()
					if err != nil {
						return
					}
					m := message.NewMessage()
					if cmd.Reply {
						m.Header.Flags = 0x80
					}
					m.AddCommand(x)
					m.AddCommand(y)
					for i := 0; i < 3; i++ {
						b, err := m.Marshal()
						outs = append(outs, b)
						errs = append(errs, err)
					}
				})
				if len(outs) == 0 && !pan {
					continue
				}
				c.Case([]byte("chained"), []byte(cmd.Name+"+"+f.Name+a.Label()))
				same := !pan && len(outs) == 3 && errs[0] == nil
				for i := 1; same && i < 3; i++ {
					same = errs[i] == nil && bytes.Equal(outs[i], outs[0])
				}
				if !pan && len(outs) == 3 && errs[0] != nil {
					continue // a chain the library cannot encode at all: not a repeatability matter
				}
				t.Check(cmd.Name, "C03/repeat/"+cmd.Name+"/chained-message/marshal-repeatable", same, func() string {
					var l []string
					for i, o := range outs {
						l = append(l, fmt.Sprintf("call %d: %d bytes %s (err %v)", i+1, len(o), vf.HexS(o), errs[i]))
					}
					return fmt.Sprintf("Message{%s{%s}} with %s{%s} attached by a second AddCommand, marshalled three times without any change in between: %s (panic=%v %s %s)", cmd.Name, a.Label(), f.Name, fa.Label(), strings.Join(l, "; "), pan, msg, where)
				})
			}
		}
	}
}

func main() { vf.Main("C03", "model_checking", run) }

func run(c *vf.Ctx) {
	restore := smbgen.Silence()
	defer restore()
	u := smbgen.Setup(c, restore)
	smbgen.Cheap = c.Pick(4, 2) // quick: bound 3 over the first four values of every lattice; thorough: bound 4 over the first two
	c.Rule("header: every byte position x all 256 values on 0x00 and 0xFF backgrounds through Unmarshal->Marshal, every header field x {0, all-ones, one bit, two bits and complements} " +
		"(Command and Flags: all 256 values) on a zero and a patterned background through Marshal, PID over one/two-bit words; dispatch: 256 codes x reply flag x 2 settings of the other flag bits; " +
		"framing: per command every assignment within 2 deviations of the default base and 1 of the non-default base, plus blocks at 0,1,255-word and 65535-byte limits; " +
		"repeatability: BFS over call histories of {Marshal, Unmarshal(first encoding)} to depth 3 (thorough 4) on a Message per command and base assignment. " +
		"distinct = distinct (part, input) pairs; states/transitions are those of the BFS part")
	c.Assume("refsmb header codec is MS-CIFS 2.2.3.1 (self-tested on the MS17-010 scanner's negotiate packet and the repository's header test vector); command names are MS-CIFS 2.2.2.1")
	headerPart(c)
	customSecurityFeatures(c)
	dispatchPart(c, u)
	tally := smbgen.NewTally(c)
	framingPart(c, u, tally)
	limitsPart(c, u)
	repeatPart(c, u, tally)
	otherMessagePart(c, u, tally)
	chainedPart(c, u, tally)
	tally.Publish()
	// the parameter and data blocks as objects of their own: call histories Set/Decode/Encode on ONE block object
	s1 := smbhist.Data(c, "C03/history", c.Pick(3, 4))
	s2 := smbhist.Parameters(c, "C03/history", c.Pick(3, 4))
	c.Set("object_history_bfs", map[string]any{"states": s1.States + s2.States, "transitions": s1.Transitions + s2.Transitions})
}

// ---------------------------------------------------------------- header

func libHeader(h *refsmb.Hdr, variant int) *header.Header {
	l := header.NewHeader()
	l.Protocol = h.Protocol
	l.Command = codes.CommandCode(h.Command)
	l.Status = h.Status
	l.Flags = flags.Flags(h.Flags)
	l.Flags2 = flags2.Flags2(h.Flags2)
	l.PIDHigh = h.PIDHigh
	switch variant {
	case 0:
		l.SecurityFeatures = &securityfeatures.SecurityFeaturesReserved{Reserved: h.Security}
	case 1:
		l.SecurityFeatures = &securityfeatures.SecurityFeaturesSecuritySignature{SecuritySignature: h.Security}
	default:
		// MS-CIFS 2.2.3.1: Key (4 bytes), CID (2), SequenceNumber (2), little-endian
		s := h.Security
		l.SecurityFeatures = &securityfeatures.SecurityFeaturesConnectionlessTransport{
			Key: uint32(s[0]) | uint32(s[1])<<8 | uint32(s[2])<<16 | uint32(s[3])<<24,
			CID: uint16(s[4]) | uint16(s[5])<<8, SequenceNumber: uint16(s[6]) | uint16(s[7])<<8}
	}
	l.Reserved = h.Reserved
	l.TID = h.TID
	l.PIDLow = h.PIDLow
	l.UID = h.UID
	l.MID = h.MID
	return l
}

func hdrOfLib(l *header.Header) (*refsmb.Hdr, error) {
	h := &refsmb.Hdr{Protocol: l.Protocol, Command: byte(l.Command), Status: l.Status, Flags: byte(l.Flags), Flags2: uint16(l.Flags2), PIDHigh: l.PIDHigh,
		Reserved: l.Reserved, TID: l.TID, PIDLow: l.PIDLow, UID: l.UID, MID: l.MID}
	if l.Flags > 0xFF {
		return nil, fmt.Errorf("Flags %#x does not fit the 1-byte field", uint16(l.Flags))
	}
	if l.SecurityFeatures == nil {
		return nil, fmt.Errorf("nil SecurityFeatures")
	}
	sb, err := l.SecurityFeatures.Marshal()
	if err != nil || len(sb) != 8 {
		return nil, fmt.Errorf("SecurityFeatures.Marshal: %d bytes, %v", len(sb), err)
	}
	copy(h.Security[:], sb)
	return h, nil
}

func patterned() refsmb.Hdr {
	return refsmb.Hdr{Protocol: [4]byte{0xFF, 'S', 'M', 'B'}, Command: 0x72, Status: 0x11121314, Flags: 0x21, Flags2: 0x3132, PIDHigh: 0x4142,
		Security: [8]byte{0x51, 0x52, 0x53, 0x54, 0x55, 0x56, 0x57, 0x58}, Reserved: 0x6162, TID: 0x7172, PIDLow: 0x8182, UID: 0x9192, MID: 0xA1A2}
}

func headerPart(c *vf.Ctx) {
	// (a) decode then encode: every position x every value
	var bufs [][]byte
	for _, bg := range []byte{0x00, 0xFF} {
		bufs = append(bufs, enum.Fill(32, bg))
		bufs = append(bufs, enum.BytePos(32, bg, enum.AllBytes())...)
	}
	bufs = append(bufs, enum.Counter(32, 1), enum.Counter(32, 0xE0))
	for _, b := range bufs {
		l := header.NewHeader()
		var n int
		var err error
		p, msg, where := vf.Try(func() { n, err = l.Unmarshal(append([]byte{}, b...)) })
		c.Case([]byte("hdr-unmarshal"), b)
		if !c.Check("C03/header/unmarshal-accepts-32-bytes", !p && err == nil && n == 32, func() string {
			return fmt.Sprintf("Header.Unmarshal(%x) = (%d, %v) panic=%v %s %s", b, n, err, p, msg, where)
		}) {
			continue
		}
		want, _ := refsmb.DecodeHdr(b)
		got, herr := hdrOfLib(l)
		if !c.Check("C03/header/decoded-fields-representable", herr == nil, func() string { return fmt.Sprintf("Header.Unmarshal(%x): %v", b, herr) }) {
			continue
		}
		for _, f := range refsmb.HdrFields {
			gv, wv := reflect.ValueOf(*got).FieldByName(hf(f.Name)).Interface(), reflect.ValueOf(*want).FieldByName(hf(f.Name)).Interface()
			c.Check("C03/header/field:"+f.Name+"/decode", reflect.DeepEqual(gv, wv), func() string {
				return fmt.Sprintf("Header.Unmarshal(%x): %s = %#x, MS-CIFS 2.2.3.1 (offset %d, %d bytes, little-endian) gives %#x", b, f.Name, gv, f.Off, f.Len, wv)
			})
		}
		out, merr := l.Marshal()
		c.Check("C03/header/unmarshal-marshal-identity", merr == nil && bytes.Equal(out, b), func() string {
			return fmt.Sprintf("Header.Unmarshal(%x) then Marshal() = %x (%v)", b, out, merr)
		})
	}
	// short inputs
	for n := 0; n < 32; n++ {
		l := header.NewHeader()
		var err error
		p, msg, where := vf.Try(func() { _, err = l.Unmarshal(enum.Counter(n, 1)) })
		c.Case([]byte("hdr-short"), []byte{byte(n)})
		c.Check("C03/header/short-input-rejected", !p && err != nil, func() string {
			return fmt.Sprintf("Header.Unmarshal of %d bytes: err=%v panic=%v %s %s (a header is 32 bytes)", n, err, p, msg, where)
		})
	}
	// (b) encode: one field at a time over its lattice, on a zero and on a patterned background
	zero := refsmb.Hdr{}
	for bi, bg := range []refsmb.Hdr{zero, patterned()} {
		for _, f := range refsmb.HdrFields {
			var vals []uint64
			switch f.Name {
			case "Command", "Flags":
				for v := 0; v < 256; v++ {
					vals = append(vals, uint64(v))
				}
			case "Protocol":
				vals = []uint64{0x424D53FF, 0, 0xFFFFFFFF, 0x01020304}
			case "SecurityFeatures":
				vals = append(enum.Words(64)[:2+64+64], enum.ByteDistinct(8)...)
			default:
				vals = append(enum.Words(8*f.Len), enum.ByteDistinct(f.Len)...)
			}
			for _, v := range vals {
				h := bg
				setHdrField(&h, f.Name, v)
				variants := []int{0}
				if f.Name == "SecurityFeatures" {
					variants = []int{0, 1, 2}
				}
				for _, variant := range variants {
					l := libHeader(&h, variant)
					var out []byte
					var err error
					p, msg, where := vf.Try(func() { out, err = l.Marshal() })
					want := h.Encode()
					c.Case([]byte("hdr-marshal"), []byte{byte(bi), byte(variant)}, []byte(f.Name), want)
					key := "C03/header/field:" + f.Name + "/encode"
					if variant > 0 {
						key += fmt.Sprintf("/security-variant:%d", variant)
					}
					c.Check(key, !p && err == nil && bytes.Equal(out, want), func() string {
						return fmt.Sprintf("Header{%s=%#x, others %s}.Marshal() = %x (%v %s %s), MS-CIFS 2.2.3.1 layout gives %x", f.Name, v,
							map[int]string{0: "zero", 1: "patterned"}[bi], out, err, msg, where, want)
					})
					c.Check("C03/header/marshal-length-32", !p && len(out) == 32, func() string { return fmt.Sprintf("Marshal gives %d bytes", len(out)) })
				}
			}
		}
	}
	// (c) PID
	pids := append(enum.Words(32), 0x00010000, 0x0000FFFF, 0xFFFF0000, 0x12345678)
	for _, p64 := range pids {
		pid := uint32(p64)
		l := header.NewHeader()
		l.SetPID(pid)
		out, err := l.Marshal()
		c.Case([]byte("pid"), []byte(fmt.Sprint(pid)))
		ok := err == nil && l.GetPID() == pid && l.PIDHigh == uint16(pid>>16) && l.PIDLow == uint16(pid)
		if ok {
			rh, _ := refsmb.DecodeHdr(out)
			ok = rh.PID() == pid
		}
		c.Check("C03/header/pid-split", ok, func() string {
			return fmt.Sprintf("SetPID(%#x): PIDHigh=%#x PIDLow=%#x GetPID()=%#x wire=%x", pid, l.PIDHigh, l.PIDLow, l.GetPID(), out)
		})
		l2 := header.NewHeader()
		l2.PIDHigh, l2.PIDLow = uint16(pid>>16), uint16(pid)
		c.Check("C03/header/pid-join", l2.GetPID() == pid, func() string {
			return fmt.Sprintf("PIDHigh=%#x PIDLow=%#x GetPID()=%#x", l2.PIDHigh, l2.PIDLow, l2.GetPID())
		})
	}
	// (c') SetPID on a header that already carries a PID (set before, assigned, or decoded): the new value replaces
	// both halves - all ordered pairs of a small set with every combination of empty / non-empty halves
	hist := []uint32{0, 1, 0x42, 0xFFFF, 0x10000, 0x12340000, 0x12345678, 0xFFFF0000, 0xFFFFFFFF}
	for _, first := range hist {
		for _, second := range hist {
			for how := 0; how < 3; how++ {
				l := header.NewHeader()
				switch how {
				case 0:
					l.SetPID(first)
				case 1:
					l.PIDHigh, l.PIDLow = uint16(first>>16), uint16(first)
				case 2:
					src := header.NewHeader()
					src.PIDHigh, src.PIDLow = uint16(first>>16), uint16(first)
					b, err := src.Marshal()
					if err != nil {
						continue
					}
					if _, err := l.Unmarshal(b); err != nil {
						continue
					}
				}
				l.SetPID(second)
				out, err := l.Marshal()
				c.Case([]byte("pid2"), []byte(fmt.Sprint(first, second, how)))
				ok := err == nil && l.GetPID() == second && l.PIDHigh == uint16(second>>16) && l.PIDLow == uint16(second)
				if ok {
					rh, _ := refsmb.DecodeHdr(out)
					ok = rh.PID() == second
				}
				c.Check("C03/header/pid-split-on-a-header-that-carried-another-pid", ok, func() string {
					return fmt.Sprintf("header with PID %#x (%s), then SetPID(%#x): PIDHigh=%#x PIDLow=%#x GetPID()=%#x wire=%x",
						first, [...]string{"SetPID", "fields assigned", "decoded"}[how], second, l.PIDHigh, l.PIDLow, l.GetPID(), out)
				})
			}
		}
	}
	c.Sample("header", map[string]any{"buffers_decoded": len(bufs), "pid_values": len(pids)})
}

func hf(n string) string {
	if n == "SecurityFeatures" {
		return "Security"
	}
	return n
}

func setHdrField(h *refsmb.Hdr, name string, v uint64) {
	switch name {
	case "Protocol":
		for i := 0; i < 4; i++ {
			h.Protocol[i] = byte(v >> (8 * uint(i)))
		}
	case "SecurityFeatures":
		for i := 0; i < 8; i++ {
			h.Security[i] = byte(v >> (8 * uint(i)))
		}
	case "Command":
		h.Command = byte(v)
	case "Flags":
		h.Flags = byte(v)
	case "Status":
		h.Status = uint32(v)
	default:
		reflect.ValueOf(h).Elem().FieldByName(name).SetUint(v & 0xFFFF)
	}
}

// ---------------------------------------------------------------- dispatch

func expectedType(u *refsmb.Universe, code byte, reply bool) (name string, mustExist, silent bool) {
	cn, ok := refsmb.CommandNames[code]
	if !ok {
		return "", false, false
	}
	name = refsmb.CamelCase(cn) + map[bool]string{false: "Request", true: "Response"}[reply]
	if code == 0x1D && reply {
		return "WriteRawFinal", true, false // documented exception: the final response of SMB_COM_WRITE_RAW
	}
	if code == 0x1A && reply {
		return name, false, true // SMB_COM_READ_RAW is answered with raw bytes without an SMB header: the property is silent
	}
	return name, u.Defined[name], false
}

func dispatchPart(c *vf.Ctx, u *refsmb.Universe) {
	for code := 0; code < 256; code++ {
		ln, lok := codes.CommandCodeNames[codes.CommandCode(code)]
		rn, rok := refsmb.CommandNames[byte(code)]
		c.Check("C03/dispatch/names-table", lok == rok && ln == rn, func() string {
			return fmt.Sprintf("codes.CommandCodeNames[%#02x] = %q (present=%v), MS-CIFS 2.2.2.1: %q (present=%v)", code, ln, lok, rn, rok)
		})
		for _, reply := range []bool{false, true} {
			want, must, silent := expectedType(u, byte(code), reply)
			if silent {
				continue
			}
			side := map[bool]string{false: "request", true: "response"}[reply]
			key := fmt.Sprintf("C03/dispatch/%02x/%s", code, side)
			verdict := func(ci command_interface.CommandInterface, err error, how string) {
				got := "<error>"
				if err == nil && ci != nil {
					got = reflect.TypeOf(ci).Elem().Name()
				}
				ok := false
				if must {
					ok = err == nil && got == want && byte(ci.GetCommandCode()) == byte(code)
				} else {
					ok = err != nil
				}
				c.Check(key, ok, func() string {
					exp := "an error (no structure " + want + " is defined)"
					if must {
						exp = "a *" + want + " whose GetCommandCode() is " + fmt.Sprintf("%#02x", code)
					}
					cc := ""
					if err == nil && ci != nil {
						cc = fmt.Sprintf(" with GetCommandCode()=%#02x", byte(ci.GetCommandCode()))
					}
					return fmt.Sprintf("%s: command code %#02x (%s), %s: got %s%s (err=%v), want %s", how, code, rn, side, got, cc, err, exp)
				})
			}
			// the factories
			var ci command_interface.CommandInterface
			var err error
			if reply {
				ci, err = commands.CreateResponseCommand(codes.CommandCode(code))
			} else {
				ci, err = commands.CreateRequestCommand(codes.CommandCode(code))
			}
			c.Case([]byte("factory"), []byte{byte(code), b2b(reply)})
			verdict(ci, err, "factory")
			// through Message.Unmarshal, with two settings of the flag bits that are not FLAGS_REPLY
			// ... and with the other header fields at both ends of their ranges: the structure chosen depends on the
			// command code and the reply flag, not on a MID, a status or a Flags2 bit
			for bg, other := range []byte{0x00, 0x7F, 0x00, 0x7F} {
				h := refsmb.Hdr{Protocol: [4]byte{0xFF, 'S', 'M', 'B'}, Command: byte(code), Flags: other, MID: 0x0102}
				if bg == 2 {
					h.MID = 0
				}
				if bg == 3 {
					h.Status, h.Flags2, h.PIDHigh, h.Reserved, h.TID, h.PIDLow, h.UID, h.MID = 0xFFFFFFFF, 0xFFFF, 0xFFFF, 0xFFFF, 0xFFFF, 0xFFFF, 0xFFFF, 0xFFFF
					h.Security = [8]byte{0xFF, 0xFF, 0xFF, 0xFF, 0xFF, 0xFF, 0xFF, 0xFF}
				}
				if reply {
					h.Flags |= 0x80
				}
				wire := append(h.Encode(), 0x00, 0x00, 0x00)
				m := message.NewMessage()
				var uerr error
				p, msg, where := vf.Try(func() { uerr = m.Unmarshal(wire) })
				if p {
					uerr = fmt.Errorf("panic %s at %s", msg, where)
				}
				c.Case([]byte("msg-dispatch"), wire)
				verdict(m.Command, uerr, fmt.Sprintf("Message.Unmarshal(%x)", wire))
				if uerr == nil {
					c.Check("C03/dispatch/header-command-kept", byte(m.Header.Command) == byte(code) && m.Header.IsResponse() == reply, func() string {
						return fmt.Sprintf("Message.Unmarshal(%x): Header.Command=%#02x IsResponse=%v", wire, byte(m.Header.Command), m.Header.IsResponse())
					})
				}
			}
		}
	}
	// encoding direction: the header is emitted as ITS fields say — every command code in Header.Command, whatever
	// command structure is attached (a relay re-labels a body; a caller attaches a zero-value structure)
	for code := 0; code < 256; code++ {
		for _, reply := range []bool{false, true} {
			m := message.NewMessage()
			var body command_interface.CommandInterface = commands.NewEchoRequest()
			if reply {
				body = commands.NewEchoResponse()
				m.Header.Flags |= 0x80
			}
			var out []byte
			var err error
			p, msg, where := vf.Try(func() {
				m.AddCommand(body)
				m.Header.Command = codes.CommandCode(code)
				out, err = m.Marshal()
			})
			c.Case([]byte("msg-marshal-code"), []byte{byte(code), b2b(reply)})
			c.Check("C03/header/Command/Marshal-emits-the-header-field-whatever-command-is-attached", !p && err == nil && len(out) >= 32 && out[4] == byte(code) && byte(m.Header.Command) == byte(code), func() string {
				return fmt.Sprintf("Message{Header.Command:%#02x, Command:%T}.Marshal(): byte 4 of the message = %#02x, Header.Command afterwards = %#02x (err=%v panic=%v %s %s)", code, body, at(out, 4), byte(m.Header.Command), err, p, msg, where)
			})
		}
	}
	c.Sample("dispatch", map[string]any{"codes": 256, "sides": 2, "structures_defined_in_source": len(u.Defined)})
}

func at(b []byte, i int) byte {
	if i < len(b) {
		return b[i]
	}
	return 0
}

func b2b(b bool) byte {
	if b {
		return 1
	}
	return 0
}

// ---------------------------------------------------------------- framing

func framingPart(c *vf.Ctx, u *refsmb.Universe, t *smbgen.Tally) {
	var execs int64
	vf.Par(len(u.Cmds), func(i int) {
		cmd := u.Cmds[i]
		lat := refsmb.WithoutFormatVariants(cmd.Lattices(c.Thorough()))
		for _, full := range []bool{false, true} {
			bound := c.Pick(3, 4)
			if full {
				bound = c.Pick(2, 3)
			}
			st, err := smbgen.Enumerate(cmd, lat, full, bound, c.DeadlineExceeded, func(a *refsmb.Assign, r *explore.Run) {
				x, err := a.Build()
				if err != nil {
					r.ObserveS("rejected")
					return
				}
				b, merr, _, _ := smbgen.Marshal(x)
				if merr != nil {
					r.ObserveS("marshal-error") // C04 reports commands that cannot encode a consistent assignment
					return
				}
				r.Observe(smbgen.Hash64(b)...)
				c.Case([]byte("framing"), []byte(cmd.Name), []byte(a.Label()))
				t.Case(cmd.Name)
				_, ferr := refsmb.ParseFrame(b)
				t.Check(cmd.Name, "C03/framing/"+cmd.Name+"/counts-describe-blocks", ferr == nil, func() string {
					return fmt.Sprintf("%s{%s}.Marshal() = %s: %v (a block pair is WordCount, 2*WordCount bytes, ByteCount little-endian, ByteCount bytes, nothing else)", cmd.Name, a.Label(), vf.HexS(b), ferr)
				})
				// through a Message: length = 32 + 1 + 2w + 2 + b and the header's command code is the command's
				y, _ := a.Build()
				m := message.NewMessage()
				m.Header.MID = 0x0102
				m.AddCommand(y)
				var mb []byte
				var err2 error
				p, msg, where := vf.Try(func() { mb, err2 = m.Marshal() })
				ok := !p && err2 == nil && len(mb) >= 35
				why := ""
				if ok {
					w := int(mb[32])
					if len(mb) < 35+2*w {
						ok, why = false, "shorter than its WordCount says"
					} else {
						bc := int(mb[33+2*w]) | int(mb[34+2*w])<<8
						if len(mb) != 32+1+2*w+2+bc {
							ok, why = false, fmt.Sprintf("length %d, 32+1+2*%d+2+%d = %d", len(mb), w, bc, 32+1+2*w+2+bc)
						} else if mb[4] != cmd.Code {
							ok, why = false, fmt.Sprintf("header command %#02x", mb[4])
						} else if !bytes.Equal(mb[32:], b) {
							ok, why = false, "block pair differs from the command's own Marshal"
						}
					}
				}
				t.Check(cmd.Name, "C03/framing/"+cmd.Name+"/message-length", ok, func() string {
					return fmt.Sprintf("Message{%s{%s}}.Marshal() = %s: %s (%v %s %s)", cmd.Name, a.Label(), vf.HexS(mb), why, err2, msg, where)
				})
			})
			if err != nil {
				smbgen.Fatalf(c, "explore %s: %v", cmd.Name, err)
			}
			atomic.AddInt64(&execs, st.Executions)
		}
	})
	c.Set("framing_executions", execs)
}

// limitsPart: the block types themselves, every word count 0..255 and byte counts up to 65535.
func limitsPart(c *vf.Ctx, u *refsmb.Universe) {
	for n := 0; n <= 255; n++ {
		stream := enum.Counter(2*n, byte(n))
		p := parameters.NewParameters()
		p.AddWordsFromBytesStream(stream)
		var out []byte
		var err error
		mp, mmsg, mwhere := vf.Try(func() { out, err = p.Marshal() })
		want := append([]byte{byte(n)}, stream...)
		c.Case([]byte("params-block"), []byte{byte(n)})
		c.Check("C03/framing/parameters-block/marshal", !mp && err == nil && bytes.Equal(out, want), func() string {
			return fmt.Sprintf("Parameters with %d words from byte stream %s: Marshal() = %s (%v) panic=%v %s %s, want WordCount then the same bytes", n, vf.HexS(stream), vf.HexS(out), err, mp, mmsg, mwhere)
		})
		q := parameters.NewParameters()
		var rn int
		var uerr error
		pp, msg, where := vf.Try(func() { rn, uerr = q.Unmarshal(append(append([]byte{}, want...), 0xEE, 0xEE)) })
		c.Check("C03/framing/parameters-block/unmarshal", !pp && uerr == nil && rn == 1+2*n && bytes.Equal(q.GetBytes(), stream) && int(q.WordCount) == n, func() string {
			return fmt.Sprintf("Parameters.Unmarshal(%s) = (%d,%v) words=%s %s %s", vf.HexS(want), rn, uerr, vf.HexS(q.GetBytes()), msg, where)
		})
	}
	sizes := enum.Lengths(0, 300, 511, 512, 4095, 4096, 32767, 32768, 65534, 65535)
	for _, n := range sizes {
		payload := enum.Counter(n, byte(n))
		d := data.NewData()
		d.Add(payload)
		var out []byte
		var err error
		mp, mmsg, mwhere := vf.Try(func() { out, err = d.Marshal() })
		want := append([]byte{byte(n), byte(n >> 8)}, payload...)
		c.Case([]byte("data-block"), []byte(fmt.Sprint(n)))
		c.Check("C03/framing/data-block/marshal", !mp && err == nil && bytes.Equal(out, want), func() string {
			return fmt.Sprintf("Data with %d bytes: Marshal() = %s (%v) panic=%v %s %s, want ByteCount little-endian then the bytes", n, vf.HexS(out), err, mp, mmsg, mwhere)
		})
		e := data.NewData()
		var rn int
		var uerr error
		pp, msg, where := vf.Try(func() { rn, uerr = e.Unmarshal(append(append([]byte{}, want...), 0xEE)) })
		c.Check("C03/framing/data-block/unmarshal", !pp && uerr == nil && rn == 2+n && bytes.Equal(e.GetBytes(), payload) && int(e.ByteCount) == n, func() string {
			return fmt.Sprintf("Data.Unmarshal of a %d-byte block = (%d,%v) got %d bytes %s %s", n, rn, uerr, len(e.GetBytes()), msg, where)
		})
	}
	// a whole message at the data limit: SMB_COM_ECHO carries raw data; 65535 bytes in the data block
	if cmd := u.ByName("EchoRequest"); cmd != nil {
		for _, n := range []int{0, 1, 255, 256, 65534, 65535} {
			x := cmd.New()
			reflect.ValueOf(x).Elem().FieldByName("Data").SetBytes(enum.Counter(n, 7))
			m := message.NewMessage()
			m.AddCommand(x)
			var mb []byte
			var err error
			p, msg, where := vf.Try(func() { mb, err = m.Marshal() })
			ok := !p && err == nil && len(mb) == 32+1+2+2+n && mb[32] == 1 && int(mb[35])|int(mb[36])<<8 == n
			c.Case([]byte("echo-limit"), []byte(fmt.Sprint(n)))
			c.Check("C03/framing/limits/echo-data-block", ok, func() string {
				return fmt.Sprintf("Message{EchoRequest{Data: %d bytes}}.Marshal(): %d bytes (%v %s %s), want 32+1+2+2+%d with ByteCount=%d", n, len(mb), err, msg, where, n, n)
			})
		}
	}
	// the parameter limit: SMB_COM_TRANSACTION with 255-14 setup words
	if cmd := u.ByName("TransactionRequest"); cmd != nil {
		for _, n := range []int{0, 1, 2, 240, 241} {
			x := cmd.New()
			sv := reflect.ValueOf(x).Elem()
			ws := reflect.MakeSlice(sv.FieldByName("Setup").Type(), n, n)
			for i := 0; i < n; i++ {
				ws.Index(i).SetUint(uint64(0x0100 + i))
			}
			sv.FieldByName("Setup").Set(ws)
			sv.FieldByName("SetupCount").SetUint(uint64(n))
			sv.FieldByName("Name").FieldByName("BufferFormat").SetUint(4)
			b, err, _, _ := smbgen.Marshal(x)
			_, ferr := refsmb.ParseFrame(b)
			c.Case([]byte("trans-limit"), []byte(fmt.Sprint(n)))
			c.Check("C03/framing/limits/transaction-setup-words", err == nil && ferr == nil && len(b) > 0 && int(b[0]) == 14+n, func() string {
				wc := -1
				if len(b) > 0 {
					wc = int(b[0])
				}
				return fmt.Sprintf("TransactionRequest with %d setup words: WordCount=%d (want %d), marshal err=%v, framing: %v", n, wc, 14+n, err, ferr)
			})
		}
	}
}

// ---------------------------------------------------------------- repeatability (E2)

const (
	opMarshal = iota
	opUnmarshal
	nOps
)

func opNames(path []int) string {
	var s []string
	for _, o := range path {
		s = append(s, map[int]string{opMarshal: "Marshal", opUnmarshal: "Unmarshal(first encoding)"}[o])
	}
	return strings.Join(s, "; ")
}

// otherMessagePart: one Message value per connection decodes every packet that arrives. A Message that has decoded
// ANOTHER message before (another command, the other direction, other header values) decodes message B exactly as a
// fresh Message does: same verdict, same header, a command of the same type with the same content, and the same
// bytes when encoded again. Differential (no expected value), so the known findings of the structures cannot reach it.
// B: every command structure, all-default and all-non-default; the earlier message: four structures of different shape.
func otherMessagePart(c *vf.Ctx, u *refsmb.Universe, t *smbgen.Tally) {
	type enc struct {
		label string
		b     []byte
	}
	build := func(cmd *refsmb.Cmd, full bool, mid uint16) *enc {
		lat := refsmb.WithoutFormatVariants(cmd.Lattices(false))
		a := cmd.Zero(lat)
		if full {
			a = cmd.FullAssign(lat)
		}
		x, err := a.Build()
		if err != nil {
			return nil
		}
		m := message.NewMessage()
		m.Header.MID, m.Header.TID, m.Header.Status, m.Header.PIDHigh, m.Header.PIDLow = mid, ^mid, 0x05060708^uint32(mid), mid+1, mid+2
		if cmd.Reply {
			m.Header.Flags = 0x80
		}
		m.AddCommand(x)
		var b []byte
		if p, _, _ := vf.Try(func() { b, err = m.Marshal() }); p || err != nil {
			return nil
		}
		return &enc{cmd.Name + "{" + a.Label() + "}", b}
	}
	var earlier []*enc
	for _, cmd := range u.Cmds {
		switch cmd.Name {
		case "NegotiateResponse", "SessionSetupAndxRequest", "EchoRequest", "TransactionRequest":
			if e := build(cmd, true, 0x7172); e != nil {
				earlier = append(earlier, e)
			}
		}
	}
	var n int64
	vf.Par(len(u.Cmds), func(i int) {
		cmd := u.Cmds[i]
		for _, full := range []bool{false, true} {
			B := build(cmd, full, 0x0102)
			if B == nil {
				continue
			}
			fresh := message.NewMessage()
			var ferr error
			var fout []byte
			var fmerr error
			if p, _, _ := vf.Try(func() {
				ferr = fresh.Unmarshal(append([]byte{}, B.b...))
				if ferr == nil {
					fout, fmerr = fresh.Marshal()
				}
			}); p {
				continue // C07's
			}
			fdump := ""
			if ferr == nil {
				fdump = smbgen.Dump(fresh)
			}
			for _, A := range earlier {
				used := message.NewMessage()
				var rerr error
				var rout []byte
				var rmerr error
				pn, msg, where := vf.Try(func() {
					used.Unmarshal(append([]byte{}, A.b...))
					rerr = used.Unmarshal(append([]byte{}, B.b...))
					if rerr == nil {
						rout, rmerr = used.Marshal()
					}
				})
				atomic.AddInt64(&n, 1)
				c.Case([]byte("other-message"), []byte(A.label), []byte(B.label))
				ok := !pn && (rerr == nil) == (ferr == nil)
				if ok && ferr == nil {
					ok = smbgen.Dump(used) == fdump && (rmerr == nil) == (fmerr == nil) && bytes.Equal(rout, fout)
				}
				t.Check(cmd.Name, "C03/repeat/"+cmd.Name+"/message-that-decoded-another-message-before-decodes-like-a-fresh-one", ok, func() string {
					return fmt.Sprintf("Message: Unmarshal(%s); Unmarshal(%s = %s): err=%v, then Marshal = %s (%v); a fresh Message: err=%v, Marshal = %s (%v); decoded state equal=%v (panic=%v %s %s)",
						A.label, B.label, vf.HexS(B.b), rerr, vf.HexS(rout), rmerr, ferr, vf.HexS(fout), fmerr, ferr == nil && rerr == nil && smbgen.Dump(used) == fdump, pn, msg, where)
				})
			}
		}
	})
	c.Evals(n)
	c.Set("other_message_histories", n)
}

func repeatPart(c *vf.Ctx, u *refsmb.Universe, t *smbgen.Tally) {
	var states, trans, objects, skipped int64
	var mu sync.Mutex
	var samples []map[string]any
	depth := c.Pick(3, 4)
	vf.Par(len(u.Cmds), func(i int) {
		cmd := u.Cmds[i]
		lat := refsmb.WithoutFormatVariants(cmd.Lattices(false))
		// a third assignment: the all-non-default one with every free integer field at all-ones, i.e. every
		// flag bit set - whatever Marshal does only "when capability X is announced" happens here
		ones := cmd.FullAssign(lat)
		for _, f := range cmd.Fields {
			if f.Kind != refsmb.KInt || !f.Free() {
				continue
			}
			want := fmt.Sprintf("%#x", ^uint64(0)>>(64-8*uint(f.Width)))
			for k, ch := range lat[f.Pos] {
				if ch.Label == want {
					ones = ones.With(f.Pos, k+1)
				}
			}
		}
		isOnes := map[*refsmb.Assign]bool{ones: true}
		for _, a := range []*refsmb.Assign{cmd.Zero(lat), cmd.FullAssign(lat), ones} {
			if isOnes[a] {
				if _, err := a.Build(); err != nil {
					continue
				}
			}
			newMsg := func() *message.Message {
				x, err := a.Build()
				if err != nil {
					smbgen.Fatalf(c, "%s: %v", cmd.Name, err)
				}
				m := message.NewMessage()
				m.Header.MID, m.Header.TID, m.Header.Status = 0x0102, 0x0304, 0x05060708
				if cmd.Reply {
					m.Header.Flags = 0x80
				}
				m.AddCommand(x)
				return m
			}
			var first []byte
			var ferr error
			if p, msg, _ := vf.Try(func() { first, ferr = newMsg().Marshal() }); p {
				ferr = fmt.Errorf("panic %s", msg)
			}
			if ferr != nil {
				atomic.AddInt64(&skipped, 1) // cannot be encoded at all: C04/<Cmd>/marshal reports it
				continue
			}
			atomic.AddInt64(&objects, 1)
			key := func(sub string) string { return "C03/repeat/" + cmd.Name + "/" + sub }
			// Several of these obligations are known findings (findings/C03.json). A finding is identified by
			// the input that fails: which base assignment (all-default / all-non-default) fails on the unchanged
			// tree is committed in known_repeat_classes.json (never written at run time); a failure of the
			// other base is a different violation and is reported under its own key.
			baseCls := "base=zero"
			if a.Full {
				baseCls = "base=full"
			}
			if isOnes[a] {
				baseCls = "base=full-with-all-ones-integers"
			}
			// ... and, the inputs being two fixed assignments and a short history, by WHAT comes out: the outcomes
			// (a digest of base, history, the bytes returned and WHETHER an error was returned - never its text) seen on the unchanged tree are committed
			// in known_repeat_outcomes.json; the same obligation failing with another outcome is a different
			// violation (e.g. a string that grows with every Marshal where, so far, only the blocks doubled).
			rcheckO := func(sub string, ok bool, outcome string, wit func() string) {
				t.Check(cmd.Name, key(sub), ok, wit)
				if ok {
					return
				}
				sig := fmt.Sprintf("%x", sha256.Sum256([]byte(baseCls + "|" + outcome)))[:12]
				if os.Getenv("C03_DEBUG_CLASSES") != "" {
					fmt.Fprintf(os.Stderr, "CLASS %s/%s x %s %s\n", cmd.Name, sub, baseCls, sig)
				}
				known := false
				for _, k := range knownRepeat[cmd.Name+"/"+sub] {
					known = known || k == baseCls
				}
				if !known {
					t.Check(cmd.Name, key(sub+"/input-class:"+baseCls), false, wit)
					return
				}
				seen := false
				for _, k := range knownOutcomes[cmd.Name+"/"+sub] {
					seen = seen || k == sig
				}
				if !seen {
					t.Check(cmd.Name, key(sub+"/outcome-not-among-those-of-the-known-finding:"+baseCls), false, wit)
				}
			}
			// apply runs op on m; sinceFresh = number of Marshal calls on the current command object before this op
			apply := func(m *message.Message, op int, check bool, history []int, sinceFresh int, decoded bool) {
				switch op {
				case opMarshal:
					var out []byte
					var err error
					p, msg, where := vf.Try(func() { out, err = m.Marshal() })
					if !check {
						return
					}
					sub := "first-marshal-deterministic"
					switch {
					case sinceFresh > 0:
						sub = "second-marshal-same-object"
					case decoded:
						sub = "marshal-after-unmarshal"
					}
					rcheckO(sub, !p && err == nil && bytes.Equal(out, first), fmt.Sprintf("%s|%x|%v|%v", opNames(history), out, err != nil, p), func() string {
						return fmt.Sprintf("Message{%s{%s}}: history [%s]: this Marshal returns %s (err=%v %s %s), the first Marshal returned %s",
							cmd.Name, a.Label(), opNames(history), vf.HexS(out), err, msg, where, vf.HexS(first))
					})
				case opUnmarshal:
					var err error
					p, msg, where := vf.Try(func() { err = m.Unmarshal(append([]byte{}, first...)) })
					if !check {
						return
					}
					ok := !p && err == nil && m.Command != nil && reflect.TypeOf(m.Command).Elem() == cmd.Type
					rcheckO("unmarshal-own-encoding", ok, fmt.Sprintf("%s|%v|%v|%v", opNames(history), err != nil, p, m.Command != nil && reflect.TypeOf(m.Command).Elem() == cmd.Type), func() string {
						return fmt.Sprintf("Message{%s{%s}}: history [%s]: Unmarshal(%s) = %v %s %s", cmd.Name, a.Label(), opNames(history), vf.HexS(first), err, msg, where)
					})
					if ok {
						hb, herr := m.Header.Marshal()
						t.Check(cmd.Name, key("header-kept"), herr == nil && bytes.Equal(hb, first[:32]), func() string {
							return fmt.Sprintf("Message{%s}: after Unmarshal(%s) the header marshals to %x", cmd.Name, vf.HexS(first), hb)
						})
					}
				}
			}
			// the state key is the dump of the real object plus one ghost bit: whether the current command
			// object was produced by Unmarshal (otherwise a decoded object whose fields and accumulators
			// happen to equal those of a marshalled original would be merged with it and never expanded)
			replay := func(path []int, op int) string {
				m := newMsg()
				since, decoded := 0, false
				for _, o := range path {
					apply(m, o, false, nil, since, decoded)
					if o == opMarshal {
						since++
					} else {
						since, decoded = 0, true
					}
				}
				if op >= 0 {
					apply(m, op, true, append(append([]int{}, path...), op), since, decoded)
					if op == opUnmarshal {
						decoded = true
					}
				}
				return fmt.Sprintf("%s|decoded=%v", smbgen.Dump(m), decoded)
			}
			s := &bfs.Search{NOps: nOps, MaxDepth: depth, Workers: 1, InitKey: replay(nil, -1), Stop: c.DeadlineExceeded,
				Step: func(path []int, op int) (string, bool) { return replay(path, op), true }}
			r := s.Run()
			atomic.AddInt64(&states, int64(r.States))
			atomic.AddInt64(&trans, int64(r.Transitions))
			if r.CapHit {
				c.Cap("deadline during BFS of " + cmd.Name)
			}
			for k := 0; k < r.States; k++ {
				c.Distinct([]byte("repeat"), []byte(cmd.Name), []byte(a.Label()), []byte{byte(k)})
			}
			mu.Lock()
			if (cmd.Name == "CloseRequest" || cmd.Name == "NegotiateResponse" || cmd.Name == "ProcessExitRequest") && a.Full {
				var paths []string
				for _, p := range r.SamplePaths {
					paths = append(paths, opNames(p))
				}
				samples = append(samples, map[string]any{"cmd": cmd.Name, "assignment": a.Label(), "states": r.States, "transitions": r.Transitions, "paths": paths})
			}
			mu.Unlock()
		}
	})
	for _, s := range samples {
		c.Sample("bfs-"+s["cmd"].(string), s)
	}
	c.Evals(trans)
	c.Set("states", states)
	c.Set("transitions", trans)
	c.Set("traces_validated_against_impl", trans)
	c.Set("bfs_depth", depth)
	c.Set("bfs_objects", objects)
	c.Set("bfs_objects_skipped_cannot_encode", skipped)
}
