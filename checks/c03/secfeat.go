package main

import (
	"bytes"
	"fmt"

	"github.com/TheManticoreProject/Manticore/network/smb/smb_v10/message/header"

	"verif/enum"
	"verif/vf"
)

// SecurityFeatures is an INTERFACE field of the header: a caller may plug in its own implementation (an
// MD5-based signature, a short key). Whatever it returns, an encoded header has 32 bytes whose offsets
// 14..21 are exactly those bytes — so an implementation that does not return 8 bytes cannot be encoded:
// Marshal reports an error, or (if it succeeds) decoding returns exactly the bytes the implementation gave.
type customSF struct{ b []byte }

func (s *customSF) Marshal() ([]byte, error)        { return s.b, nil }
func (s *customSF) Unmarshal(b []byte) (int, error) { s.b = append([]byte(nil), b...); return len(b), nil }

func customSecurityFeatures(c *vf.Ctx) {
	for n := 0; n <= 20; n++ {
		sf := &customSF{b: enum.Counter(n, 0xA1)}
		h := header.NewHeader()
		h.SecurityFeatures = sf
		var out []byte
		var err error
		c.Case([]byte("hdr-custom-sf"), []byte{byte(n)})
		p, msg, where := vf.Try(func() { out, err = h.Marshal() })
		if !c.Check("C03/header/custom-SecurityFeatures/no-panic", !p, func() string {
			return fmt.Sprintf("Header.Marshal with a SecurityFeatures implementation returning %d bytes panicked: %s at %s", n, msg, where)
		}) {
			continue
		}
		if n == 8 {
			c.Check("C03/header/custom-SecurityFeatures/eight-bytes-land-at-offset-14", err == nil && len(out) == 32 && bytes.Equal(out[14:22], sf.b), func() string {
				return fmt.Sprintf("Header.Marshal with a SecurityFeatures implementation returning %x = %x err=%v", sf.b, out, err)
			})
			continue
		}
		c.Check("C03/header/custom-SecurityFeatures/not-8-bytes/refused-not-silently-cut-or-padded", err != nil, func() string {
			return fmt.Sprintf("Header.Marshal with a SecurityFeatures implementation returning %d bytes (%x) succeeded with %x: the header carries SecurityFeatures %x, not what the message holds", n, sf.b, out, out[min(14, len(out)):min(22, len(out))])
		})
	}
}
