// C08 — NTLMSSP and SPNEGO tokens are structurally exact in both directions.
// E4: every NEGOTIATE / AUTHENTICATE message the library builds over completely enumerated
// name x character-set x flag spaces is read back with an independent MS-NLMP reader
// (verif/ref/refntlm) that judges signature, type and every (Len, MaxLen, Offset) descriptor;
// every well-formed CHALLENGE produced by an independent encoder (names, AV-pair lists, flags,
// both payload orders, gaps) must be parsed to exactly the values it carries; SPNEGO framing is
// read back with an own strict DER reader and with go-asn1-ber for every token length across
// the DER length-form boundaries.
package main

import (
	"bytes"
	"encoding/asn1"
	"encoding/binary"
	"encoding/hex"
	"fmt"
	"runtime/debug"
	"sort"
	"strings"
	"time"

	ber "github.com/go-asn1-ber/asn1-ber"

	"github.com/TheManticoreProject/Manticore/network/smb/smb_v10/spnego"
	"github.com/TheManticoreProject/Manticore/network/smb/smb_v10/spnego/ntlm"

	"verif/enum"
	rc "verif/ref/refcrypto"
	rn "verif/ref/refntlm"
	"verif/vf"
)

func main() {
	debug.SetGCPercent(800) // the library allocates dozens of 2-byte slices per message; GC otherwise serialises the 16 workers
	vf.Main("C08", "exploration", run)
}

func run(c *vf.Ctx) {
	if err := rn.SelfTest(); err != nil {
		c.Fatalf("%v", err)
	}
	c.Rule("NEGOTIATE: (domain, workstation) in Strings({a,B,é,Σ},<=2)^2 x {Unicode, OEM} + names of 255/256/32767/32768 UTF-16 units (65535/65536 OEM bytes) in every position; " +
		"AUTHENTICATE: (domain, workstation, user) in Strings({a,B,é,Σ},<=2)^3 x all 64 combinations of {UNICODE, OEM, VERSION, EXTENDED_SESSIONSECURITY, TARGET_INFO, KEY_EXCH} + long names; " +
		"CHALLENGE: reference-encoded messages over 64 flag combinations x target names of 0..3 units x AV-pair lists of 0..3 pairs with distinct ids from {1,2,3,4,6,7,9,10} and values of 0..2 units (fixed-size ids: two contents) x both payload orders x gap {0,3} x MaxLen slack; " +
		"SPNEGO: token lengths 1..300 and 2^k-1, 2^k, 2^k+1 for k<=17 through CreateNegTokenInit and CreateNegTokenResp (4 states x mech present/absent); AuthContext end to end. distinct = distinct (entry point, input tuple)")
	c.Assume("the reference reader/encoder (self-tested on the MS-NLMP 4.2.4.3 CHALLENGE and AUTHENTICATE examples and X.690 length forms, cross-checked against github.com/Azure/go-ntlmssp) is the authority on structure; go-asn1-ber is an independent DER decoder; " +
		"OEM names are judged on 7-bit ASCII only; domain/workstation/user names are compared case-insensitively (the library upper-cases domain and workstation); only well-formed input is fed to parsers (hostile input belongs to C07)")
	for _, sec := range []struct {
		name string
		f    func(*vf.Ctx)
	}{{"negotiate", negotiate}, {"authenticate", authenticate}, {"challenge", challenge}, {"spnego", spnegoTokens}, {"end-to-end", endToEnd}} {
		t0 := time.Now()
		sec.f(c)
		c.Set("section_wall_s_"+sec.name, time.Since(t0).Seconds())
	}
}

// ------------------------------------------------------------------ sharded tally

type tally struct {
	c *vf.Ctx
	n map[string]int64
}

func (t *tally) check(key string, ok bool, w func() string) bool {
	if ok {
		t.n[key]++
	} else {
		t.c.Check(key, false, w)
	}
	return ok
}

func (t *tally) flush() {
	for k, v := range t.n {
		t.c.Pass(k, v)
	}
	t.n = map[string]int64{}
}

func shards(c *vf.Ctx, n int, fn func(i int, t *tally)) {
	const S = 64
	vf.Par(S, func(s int) {
		t := &tally{c, map[string]int64{}}
		for i := s; i < n; i += S {
			if (i/S)%512 == 0 && c.DeadlineExceeded() {
				break
			}
			fn(i, t)
		}
		t.flush()
	})
}

func call(t *tally, entry string, desc func() string, f func()) bool {
	p, msg, where := vf.Try(f)
	if p {
		t.c.Check("C08/"+entry+"/panic@"+where, false, func() string { return fmt.Sprintf("%s panicked: %s", desc(), msg) })
		return false
	}
	return true
}

// reporter receives one obligation evaluation; judges are written against it so that the same
// judge can feed the tally or be folded into a single "rejected or still valid" verdict.
type reporter func(key string, ok bool, w func() string)

func fold(judge func(r reporter)) (allOK bool, first string) {
	allOK = true
	judge(func(key string, ok bool, w func() string) {
		if !ok && allOK {
			allOK = false
			first = key + ": " + w()
		}
	})
	return
}

func short(s string) string {
	if len(s) <= 24 {
		return fmt.Sprintf("%q", s)
	}
	return fmt.Sprintf("%q…(%d bytes, %d runes)", string([]rune(s)[:6]), len(s), len([]rune(s)))
}

// ------------------------------------------------------------------ shared judges

var layoutKinds = []string{"maxlen-below-len", "out-of-bounds", "inside-header", "overlap"}

func judgeLayout(r reporter, prefix string, msg []byte, header int, fs []rn.NamedField, desc func() string) {
	probs := rn.CheckLayout(len(msg), header, fs)
	bad := map[string]string{}
	for _, p := range probs {
		if _, dup := bad[p.Field+"/"+p.Kind]; !dup {
			bad[p.Field+"/"+p.Kind] = p.Text
		}
	}
	for _, f := range fs {
		for _, k := range layoutKinds {
			txt, isBad := bad[f.Name+"/"+k]
			r(prefix+"/descriptor/"+f.Name+"/not-"+k, !isBad, func() string {
				return fmt.Sprintf("%s: message of %d bytes, fixed part %d: %s; message = %s", desc(), len(msg), header, txt, vf.HexS(msg))
			})
		}
	}
}

// readName is the receiver's view of a name field: the designated bytes decoded in the character
// set the message's own flags select. judged=false when the oracle is silent (OEM beyond ASCII,
// or a message that selects no character set at all).
func readName(flags uint32, f rn.Field, msg []byte) (name string, judged bool, problem string) {
	b, ok := f.Slice(msg)
	if !ok {
		return "", true, "descriptor points outside the message"
	}
	switch {
	case flags&rn.FlagUnicode != 0:
		s, err := rn.DecodeUTF16LE(b)
		if err != nil {
			return "", true, fmt.Sprintf("bytes %x are not UTF-16LE: %v", b, err)
		}
		return s, true, ""
	case flags&rn.FlagOEM != 0:
		if !rn.IsASCII(string(b)) {
			return "", false, ""
		}
		return string(b), true, ""
	}
	return "", false, ""
}

func sameName(got, want string) bool { return got == want || rc.Upper(got) == rc.Upper(want) }

func judgeName(r reporter, key string, flags uint32, f rn.Field, msg []byte, want string, desc func() string) (string, bool) {
	if flags&rn.FlagUnicode == 0 && !rn.IsASCII(want) {
		return "", false // OEM code pages beyond ASCII: not covered
	}
	got, judged, problem := readName(flags, f, msg)
	if !judged {
		return "", false
	}
	r(key, problem == "" && sameName(got, want), func() string {
		return fmt.Sprintf("%s: a receiver reads %s %s (descriptor len=%d off=%d, flags %#x), supplied was %s; message = %s", desc(), short(got), problem, f.Len, f.Off, flags, short(want), vf.HexS(msg))
	})
	return got, problem == ""
}

// ------------------------------------------------------------------ NEGOTIATE

var nameAlpha = []string{"a", "B", "é", "Σ"}

// wideAlpha: code points of plane 1, plane 2 and plane 16 (surrogate pairs whose high surrogate differs in every
// bit group) next to both edges of the surrogate block, for the Unicode character set.
var wideAlpha = []string{"a", "\U0001F600", "\U00020BB7", "\U0010FFFF", "\ud7ff", "\ue000", "\ufffd"}

// oemAlpha adds runes whose upper-case form has a different UTF-8 size (U+0131 shrinks to "I",
// U+0250 grows to U+2C6F): only the OEM branch handles bytes rather than code units.
var oemAlpha = []string{"a", "B", "é", "ı", "ɐ"}

// judgeOEMField decides the part of "the descriptor designates the bytes of the name" that does not
// depend on which OEM code page the library writes: a name without NUL has no NUL in its field, and
// (every Windows OEM code page being a stateless per-character encoding) the field of a name is the
// concatenation of the fields of its characters.
func judgeOEMField(r reporter, key string, field []byte, name string, one func(string) ([]byte, bool), desc func() string) {
	if rn.IsASCII(name) {
		return // decided exactly by judgeName
	}
	var cat []byte
	for _, ru := range name {
		b, ok := one(string(ru))
		if !ok {
			return
		}
		cat = append(cat, b...)
	}
	r(key, bytes.IndexByte(field, 0) < 0 && bytes.Equal(field, cat), func() string {
		return fmt.Sprintf("%s: the OEM field for %s is %x, but its characters written one at a time give %x (a NUL or a cut / shifted character in the field)", desc(), short(name), field, cat)
	})
}

func judgeNegotiate(r reporter, prefix string, msg []byte, domain, workstation string, unicode bool, desc func() string) {
	m, err := rn.ParseNegotiate(msg)
	if r(prefix+"/readable", err == nil, func() string { return fmt.Sprintf("%s: %v; message = %s", desc(), err, vf.HexS(msg)) }); err != nil {
		return
	}
	r(prefix+"/signature", m.SigOK, func() string { return fmt.Sprintf("%s: first 8 bytes %x", desc(), msg[:8]) })
	r(prefix+"/message-type", m.Type == 1, func() string { return fmt.Sprintf("%s: MessageType %d want 1", desc(), m.Type) })
	wantCS, otherCS := rn.FlagOEM, rn.FlagUnicode
	if unicode {
		wantCS, otherCS = rn.FlagUnicode, rn.FlagOEM
	}
	r(prefix+"/flags-select-requested-character-set", m.Flags&wantCS != 0 && (unicode || m.Flags&otherCS == 0), func() string {
		return fmt.Sprintf("%s: NegotiateFlags %#x do not select the character set the names were to be written in (useUnicode=%v)", desc(), m.Flags, unicode)
	})
	header := m.Fixed
	if m.Flags&rn.FlagVersion != 0 {
		r(prefix+"/version-field-present-when-flagged", len(msg) >= 40, func() string {
			return fmt.Sprintf("%s: NEGOTIATE_VERSION set but the message has only %d bytes", desc(), len(msg))
		})
		header = 40
	}
	fs := []rn.NamedField{{Name: "DomainName", F: m.Domain}, {Name: "Workstation", F: m.Workstation}}
	judgeLayout(r, prefix, msg, header, fs, desc)
	// a receiver honours the "supplied" flags K and L (MS-NLMP 2.2.1.1)
	dom, ws := m.Domain, m.Workstation
	if m.Flags&rn.FlagDomainSup == 0 {
		dom = rn.Field{}
	}
	if m.Flags&rn.FlagWkstaSup == 0 {
		ws = rn.Field{}
	}
	judgeName(r, prefix+"/DomainName/receiver-reads-supplied-name", m.Flags, dom, msg, domain, desc)
	judgeName(r, prefix+"/Workstation/receiver-reads-supplied-name", m.Flags, ws, msg, workstation, desc)
}

func longName(units int, unicode bool) string {
	if unicode {
		// BMP letters so that units == runes; mixed so a shifted read is visible
		return strings.Repeat("aΣ", units/2) + strings.Repeat("b", units%2)
	}
	return strings.Repeat("ab", units/2) + strings.Repeat("c", units%2)
}

func byteLen(s string, unicode bool) int {
	if unicode {
		return len(rc.UTF16LE(s))
	}
	return len(s)
}

func negotiate(c *vf.Ctx) {
	names := enum.Strings(nameAlpha, 2)
	type nc struct {
		d, w string
		uni  bool
	}
	var cases []nc
	for _, uni := range []bool{true, false} {
		ns := names
		if !uni {
			ns = enum.Strings(oemAlpha, 2)
		} else {
			ns = append(append([]string{}, names...), enum.Strings(wideAlpha, 2)...)
		}
		for _, d := range ns {
			for _, w := range ns {
				cases = append(cases, nc{d, w, uni})
			}
		}
		lens := []int{255, 256, 32767, 32768}
		if !uni {
			lens = []int{255, 256, 65535, 65536}
		}
		for _, n := range lens {
			l := longName(n, uni)
			cases = append(cases, nc{l, "W", uni}, nc{"D", l, uni}, nc{l, "", uni}, nc{"", l, uni}, nc{l, l, uni})
		}
	}
	shards(c, len(cases), func(i int, t *tally) {
		k := cases[i]
		desc := func() string {
			return fmt.Sprintf("ntlm.CreateNegotiateMessage(domain=%s, workstation=%s, useUnicode=%v)", short(k.d), short(k.w), k.uni)
		}
		var msg []byte
		var err error
		c.Case([]byte("neg"), []byte(k.d), []byte{0}, []byte(k.w), []byte{boolByte(k.uni)})
		if !call(t, "ntlm.CreateNegotiateMessage", desc, func() { msg, err = ntlm.CreateNegotiateMessage(k.d, k.w, k.uni) }) {
			return
		}
		if byteLen(k.d, k.uni) > 0xffff || byteLen(k.w, k.uni) > 0xffff {
			// a 16-bit Len cannot designate the field: the library must refuse, or whatever it builds must still be exact
			ok, first := true, ""
			if err == nil {
				ok, first = fold(func(r reporter) { judgeNegotiate(r, "C08/negotiate", msg, k.d, k.w, k.uni, desc) })
			}
			t.check("C08/negotiate/name-longer-than-65535-bytes/rejected-or-still-exact", ok, func() string { return "no error returned and " + first })
			return
		}
		if !t.check("C08/negotiate/builds", err == nil, func() string { return fmt.Sprintf("%s: %v", desc(), err) }) {
			return
		}
		judgeNegotiate(t.check2, "C08/negotiate", msg, k.d, k.w, k.uni, desc)
		if m, perr := rn.ParseNegotiate(msg); !k.uni && perr == nil {
			one := func(domain bool) func(string) ([]byte, bool) {
				return func(ch string) ([]byte, bool) {
					d, w := ch, ""
					if !domain {
						d, w = "", ch
					}
					var b []byte
					ok := false
					vf.Try(func() {
						m1, e1 := ntlm.CreateNegotiateMessage(d, w, false)
						if e1 != nil {
							return
						}
						p1, e2 := rn.ParseNegotiate(m1)
						if e2 != nil {
							return
						}
						f := p1.Domain
						if !domain {
							f = p1.Workstation
						}
						b, ok = f.Slice(m1)
					})
					return b, ok
				}
			}
			if b, ok := m.Domain.Slice(msg); ok {
				judgeOEMField(t.check2, "C08/negotiate/DomainName/oem-field-is-its-characters-in-order", b, k.d, one(true), desc)
			}
			if b, ok := m.Workstation.Slice(msg); ok {
				judgeOEMField(t.check2, "C08/negotiate/Workstation/oem-field-is-its-characters-in-order", b, k.w, one(false), desc)
			}
		}
	})
	c.Sample("negotiate", map[string]any{"domain": "aΣ", "workstation": "é", "useUnicode": true})
}

func (t *tally) check2(key string, ok bool, w func() string) { t.check(key, ok, w) }

func boolByte(b bool) byte {
	if b {
		return 1
	}
	return 0
}

// ------------------------------------------------------------------ AUTHENTICATE

var flagBits = []uint32{rn.FlagUnicode, rn.FlagOEM, rn.FlagVersion, rn.FlagESS, rn.FlagTargetInfo, rn.FlagKeyExch}

func flagCombo(i int) uint32 {
	f := rn.FlagNTLM
	for b, v := range flagBits {
		if i>>uint(b)&1 == 1 {
			f |= v
		}
	}
	return f
}

type authIn struct {
	flags          uint32
	sc             [8]byte
	ti             []byte
	user, pw, d, w string
}

func (a authIn) desc(entry string) func() string {
	return func() string {
		return fmt.Sprintf("%s(challenge{NegotiateFlags:%#x, ServerChallenge:%x, TargetInfo:%s}, user=%s, password=%q, domain=%s, workstation=%s)", entry, a.flags, a.sc, vf.HexS(a.ti), short(a.user), a.pw, short(a.d), short(a.w))
	}
}

func judgeAuthenticate(r reporter, prefix string, msg []byte, in authIn, desc func() string) {
	a, err := rn.ParseAuthenticate(msg)
	if r(prefix+"/readable", err == nil, func() string { return fmt.Sprintf("%s: %v; message = %s", desc(), err, vf.HexS(msg)) }); err != nil {
		return
	}
	r(prefix+"/signature", a.SigOK, func() string { return fmt.Sprintf("%s: first 8 bytes %x", desc(), msg[:8]) })
	r(prefix+"/message-type", a.Type == 3, func() string { return fmt.Sprintf("%s: MessageType %d want 3", desc(), a.Type) })
	judgeLayout(r, prefix, msg, a.Fixed, a.Fields(), desc)
	// the names must be readable in the character set the message itself announces, and that must be the negotiated one
	neg := in.flags & (rn.FlagUnicode | rn.FlagOEM)
	if neg != 0 {
		r(prefix+"/flags-keep-negotiated-character-set", (a.Flags&rn.FlagUnicode != 0) == (in.flags&rn.FlagUnicode != 0) && (a.Flags&rn.FlagUnicode != 0 || a.Flags&rn.FlagOEM != 0), func() string {
			return fmt.Sprintf("%s: challenge flags %#x, AUTHENTICATE flags %#x", desc(), in.flags, a.Flags)
		})
	}
	var us, ds string
	var uok, dok bool
	if neg != 0 {
		ds, dok = judgeName(r, prefix+"/DomainName/receiver-reads-supplied-name", a.Flags, a.Domain, msg, in.d, desc)
		us, uok = judgeName(r, prefix+"/UserName/receiver-reads-supplied-name", a.Flags, a.User, msg, in.user, desc)
		judgeName(r, prefix+"/Workstation/receiver-reads-supplied-name", a.Flags, a.Workstation, msg, in.w, desc)
	}
	ntr, ok1 := a.Nt.Slice(msg)
	lmr, ok2 := a.Lm.Slice(msg)
	if !ok1 || !ok2 {
		return // already reported as out-of-bounds
	}
	nt := rc.NT(in.pw)
	if in.flags&rn.FlagESS == 0 {
		want := rc.DESL(nt[:], in.sc[:])
		r(prefix+"/NtChallengeResponse/verifies", bytes.Equal(ntr, want), func() string {
			return fmt.Sprintf("%s: NtChallengeResponse %x want DESL(NTOWFv1, challenge) = %x", desc(), ntr, want)
		})
		if rn.IsASCII(in.pw) {
			wantLM := rc.DESL(rc.LM(in.pw), in.sc[:])
			r(prefix+"/LmChallengeResponse/verifies", bytes.Equal(lmr, wantLM), func() string {
				return fmt.Sprintf("%s: LmChallengeResponse %x want DESL(LMOWFv1, challenge) = %x", desc(), lmr, wantLM)
			})
		}
		return
	}
	if !uok || !dok {
		return
	}
	vd := rn.VerifyNTLMv2(nt, us, ds, in.sc[:], ntr)
	r(prefix+"/NtChallengeResponse/verifies", vd.LenOK && vd.ProofOK && vd.BlobErr == nil, func() string {
		return fmt.Sprintf("%s: NtChallengeResponse %s is not accepted for the message's UserName %q / DomainName %q: proof ok=%v (want %x), blob: %v", desc(), vf.HexS(ntr), us, ds, vd.ProofOK, vd.Want, vd.BlobErr)
	})
	r(prefix+"/LmChallengeResponse/verifies", rn.VerifyLMv2(nt, us, ds, in.sc[:], lmr) || bytes.Equal(lmr, make([]byte, 24)), func() string {
		return fmt.Sprintf("%s: LmChallengeResponse %x is neither a verifying LMv2 response nor Z(24)", desc(), lmr)
	})
}

func sampleTargetInfo() []byte {
	return rn.EncodeAvPairs([]rn.AvPair{{ID: 2, Value: rc.UTF16LE("DOM")}, {ID: 1, Value: rc.UTF16LE("SRV")}})
}

func authenticate(c *vf.Ctx) {
	names := enum.Strings(nameAlpha, 2)
	var cases []authIn
	sc := [8]byte{0x01, 0x23, 0x45, 0x67, 0x89, 0xab, 0xcd, 0xef}
	pws := []string{"Password"}
	if c.Thorough() {
		pws = append(pws, "", "é")
	}
	// an AV pair with an odd-sized value (a server is free to send one): every later offset becomes odd
	oddTI := rn.EncodeAvPairs([]rn.AvPair{{ID: 2, Value: rc.UTF16LE("DOM")}, {ID: 9, Value: []byte{0x5a}}})
	tis := [][]byte{sampleTargetInfo(), oddTI}
	if c.Thorough() {
		tis = append(tis, rn.EncodeAvPairs(nil))
	}
	for fi := 0; fi < 64; fi++ {
		fl := flagCombo(fi)
		for _, d := range names {
			for _, w := range names {
				for _, u := range names {
					for _, pw := range pws {
						if fl&rn.FlagTargetInfo != 0 {
							for _, ti := range tis {
								cases = append(cases, authIn{fl, sc, ti, u, pw, d, w})
							}
						} else {
							cases = append(cases, authIn{fl, sc, nil, u, pw, d, w})
						}
					}
				}
			}
		}
	}
	// Unicode names with supplementary-plane characters, one position at a time
	for _, fl := range []uint32{rn.FlagNTLM | rn.FlagUnicode, rn.FlagNTLM | rn.FlagUnicode | rn.FlagESS | rn.FlagTargetInfo} {
		var ti []byte
		if fl&rn.FlagTargetInfo != 0 {
			ti = sampleTargetInfo()
		}
		for _, n := range enum.Strings(wideAlpha, 2) {
			cases = append(cases, authIn{fl, sc, ti, "U", "Password", n, "W"}, authIn{fl, sc, ti, "U", "Password", "D", n}, authIn{fl, sc, ti, n, "Password", "D", "W"})
		}
	}
	// OEM names whose case mapping changes their UTF-8 size, one position at a time
	for _, fl := range []uint32{rn.FlagNTLM | rn.FlagOEM, rn.FlagNTLM | rn.FlagOEM | rn.FlagESS | rn.FlagTargetInfo} {
		var ti []byte
		if fl&rn.FlagTargetInfo != 0 {
			ti = sampleTargetInfo()
		}
		for _, n := range enum.Strings(oemAlpha, 2) {
			cases = append(cases, authIn{fl, sc, ti, "U", "Password", n, "W"}, authIn{fl, sc, ti, "U", "Password", "D", n}, authIn{fl, sc, ti, n, "Password", "D", "W"})
		}
	}
	nShort := len(cases)
	// long names in every position, both character sets, v1 and v2
	for _, fl := range []uint32{rn.FlagNTLM | rn.FlagUnicode, rn.FlagNTLM | rn.FlagOEM, rn.FlagNTLM | rn.FlagUnicode | rn.FlagESS | rn.FlagTargetInfo | rn.FlagVersion} {
		uni := fl&rn.FlagUnicode != 0
		lens := []int{255, 256, 32767, 32768}
		if !uni {
			lens = []int{255, 256, 65535, 65536}
		}
		var ti []byte
		if fl&rn.FlagTargetInfo != 0 {
			ti = sampleTargetInfo()
		}
		for _, n := range lens {
			l := longName(n, uni)
			cases = append(cases, authIn{fl, sc, ti, "U", "Password", l, "W"}, authIn{fl, sc, ti, "U", "Password", "D", l}, authIn{fl, sc, ti, l, "Password", "D", "W"}, authIn{fl, sc, ti, l, "Password", l, l})
		}
	}
	// a large (but representable) TargetInfo makes the NTLMv2 response cross the 16-bit boundary:
	// 16 proof + 28 blob header + TargetInfo + 4 = 65532 (fits) and 65536 (does not)
	for _, vlen := range []int{65476, 65480} {
		ti := rn.EncodeAvPairs([]rn.AvPair{{ID: 9, Value: rc.UTF16LE(strings.Repeat("a", vlen/2))}})
		cases = append(cases, authIn{rn.FlagNTLM | rn.FlagUnicode | rn.FlagESS | rn.FlagTargetInfo, sc, ti, "U", "Password", "D", "W"})
	}
	c.Set("authenticate_short_name_cases", nShort)
	shards(c, len(cases), func(i int, t *tally) {
		k := cases[i]
		chm := &ntlm.ChallengeMessage{MessageType: 2, NegotiateFlags: k.flags, ServerChallenge: k.sc, TargetInfo: k.ti}
		copy(chm.Signature[:], rn.Signature)
		desc := k.desc("ntlm.CreateAuthenticateMessage")
		var msg []byte
		var err error
		c.Case([]byte("auth"), []byte(k.d), []byte{0}, []byte(k.w), []byte{0}, []byte(k.user), []byte{0}, []byte(k.pw), k.ti, []byte{byte(k.flags), byte(k.flags >> 8), byte(k.flags >> 16), byte(k.flags >> 24)})
		if !call(t, "ntlm.CreateAuthenticateMessage", desc, func() { msg, err = ntlm.CreateAuthenticateMessage(chm, k.user, k.pw, k.d, k.w) }) {
			return
		}
		uni := k.flags&rn.FlagUnicode != 0
		tooLong := ""
		if byteLen(k.d, uni) > 0xffff || byteLen(k.w, uni) > 0xffff || byteLen(k.user, uni) > 0xffff {
			tooLong = "name"
		} else if k.flags&rn.FlagESS != 0 && 16+28+len(k.ti)+4 > 0xffff {
			tooLong = "response"
		}
		if tooLong != "" {
			ok, first := true, ""
			if err == nil {
				ok, first = fold(func(r reporter) { judgeAuthenticate(r, "C08/authenticate", msg, k, desc) })
			}
			t.check("C08/authenticate/"+tooLong+"-longer-than-65535-bytes/rejected-or-still-exact", ok, func() string { return "no error returned and " + first })
			return
		}
		if !t.check("C08/authenticate/builds", err == nil, func() string { return fmt.Sprintf("%s: %v", desc(), err) }) {
			return
		}
		judgeAuthenticate(t.check2, "C08/authenticate", msg, k, desc)
		if a, perr := rn.ParseAuthenticate(msg); !uni && k.flags&rn.FlagOEM != 0 && perr == nil {
			one := func(pos int) func(string) ([]byte, bool) {
				return func(ch string) ([]byte, bool) {
					args := [3]string{}
					args[pos] = ch
					var b []byte
					ok := false
					vf.Try(func() {
						m1, e1 := ntlm.CreateAuthenticateMessage(chm, args[0], k.pw, args[1], args[2])
						if e1 != nil {
							return
						}
						p1, e2 := rn.ParseAuthenticate(m1)
						if e2 != nil {
							return
						}
						b, ok = [3]rn.Field{p1.User, p1.Domain, p1.Workstation}[pos].Slice(m1)
					})
					return b, ok
				}
			}
			for pos, nf := range []struct {
				n string
				f rn.Field
				v string
			}{{"UserName", a.User, k.user}, {"DomainName", a.Domain, k.d}, {"Workstation", a.Workstation, k.w}} {
				if b, ok := nf.f.Slice(msg); ok {
					judgeOEMField(t.check2, "C08/authenticate/"+nf.n+"/oem-field-is-its-characters-in-order", b, nf.v, one(pos), desc)
				}
			}
		}
	})
	c.Sample("authenticate", map[string]any{"domain": "aΣ", "workstation": "B", "user": "é", "flags": fmt.Sprintf("%#x", flagCombo(0b111101))})
}

// ------------------------------------------------------------------ CHALLENGE

var stringIDs = []uint16{1, 2, 3, 4, 9}

func avChoices() map[uint16][][]byte {
	u := rc.UTF16LE
	m := map[uint16][][]byte{}
	for _, id := range stringIDs {
		m[id] = [][]byte{{}, u(string(rune('A' + id))), u("é" + string(rune('a'+id)))}
	}
	m[6] = [][]byte{{0, 0, 0, 0}, {2, 0, 0, 0}}
	m[7] = [][]byte{{0x96, 0x82, 0x24, 0x48, 0x3f, 0x9c, 0xdb, 0x01}, {0, 0, 0, 0, 0, 0, 0, 0}}
	m[10] = [][]byte{enum.Counter(16, 0xc0), make([]byte, 16)}
	return m
}

var avIDs = []uint16{1, 2, 3, 4, 6, 7, 9, 10}

// avLists returns every list of exactly n pairs with pairwise distinct ids (a map-returning
// parser cannot represent repeated ids), every value choice.
func avLists(n int) [][]rn.AvPair {
	ch := avChoices()
	var out [][]rn.AvPair
	var rec func(cur []rn.AvPair, used uint32)
	rec = func(cur []rn.AvPair, used uint32) {
		if len(cur) == n {
			out = append(out, append([]rn.AvPair{}, cur...))
			return
		}
		for _, id := range avIDs {
			if used>>id&1 == 1 {
				continue
			}
			for _, v := range ch[id] {
				rec(append(cur, rn.AvPair{ID: id, Value: v}), used|1<<id)
			}
		}
	}
	rec(nil, 0)
	return out
}

type chalCase struct {
	flags  uint32
	tnLen  int
	pairs  []rn.AvPair
	hasTI  bool
	first  bool
	gap    int
	extra  uint16
	verAlt bool
}

func targetNameBytes(flags uint32, n int) []byte {
	if n == 0 {
		return nil
	}
	if flags&rn.FlagUnicode != 0 {
		return rc.UTF16LE([]string{"", "S", "Sé", "SéΣ"}[n])
	}
	return []byte("SRV"[:n])
}

func challenge(c *vf.Ctx) {
	var lists01, lists2, lists3 [][]rn.AvPair
	lists01 = append(avLists(0), avLists(1)...)
	lists2 = avLists(2)
	lists3 = avLists(3)
	c.Set("challenge_av_lists", map[string]int{"0..1 pairs": len(lists01), "2 pairs": len(lists2), "3 pairs": len(lists3)})
	var cases []chalCase
	for fi := 0; fi < 64; fi++ {
		fl := flagCombo(fi)
		for tn := 0; tn <= 3; tn++ {
			for _, first := range []bool{false, true} {
				gaps := []int{0, 3}
				if fl&rn.FlagVersion == 0 {
					// the layout of servers that predate the Version field: payload directly behind the
					// TargetInfo descriptor, so bytes 48..55 are payload, not a version
					gaps = []int{0, 3, -8}
				}
				for _, gap := range gaps {
					if fl&rn.FlagTargetInfo == 0 {
						cases = append(cases, chalCase{flags: fl, tnLen: tn, first: first, gap: gap}, chalCase{flags: fl, tnLen: tn, first: first, gap: gap, extra: 8, verAlt: true})
						continue
					}
					for _, l := range lists01 {
						cases = append(cases, chalCase{flags: fl, tnLen: tn, pairs: l, hasTI: true, first: first, gap: gap}, chalCase{flags: fl, tnLen: tn, pairs: l, hasTI: true, first: first, gap: gap, extra: 8, verAlt: true})
					}
					for _, l := range lists2 {
						cases = append(cases, chalCase{flags: fl, tnLen: tn, pairs: l, hasTI: true, first: first, gap: gap})
					}
					// three pairs: quick = a flag subset and two name lengths, thorough = every flag set
					if (c.Thorough() || fi%16 == 0b0101 || fi%16 == 0b0110) && (tn == 0 || tn == 2) && (c.Thorough() || gap == 0) {
						for _, l := range lists3 {
							cases = append(cases, chalCase{flags: fl, tnLen: tn, pairs: l, hasTI: true, first: first, gap: gap})
						}
					}
				}
			}
		}
	}
	sc := [8]byte{0x01, 0x23, 0x45, 0x67, 0x89, 0xab, 0xcd, 0xef}
	shards(c, len(cases), func(i int, t *tally) {
		k := cases[i]
		spec := &rn.Challenge{Flags: k.flags, ServerChallenge: sc, InfoFirst: k.first, Gap: k.gap, MaxLenExtra: k.extra}
		spec.ServerChallenge[7] = byte(i) // every byte position distinguishable, case-dependent
		spec.TargetName = targetNameBytes(k.flags, k.tnLen)
		if k.tnLen > 0 {
			spec.Flags |= rn.FlagReqTarget | rn.FlagTypeServer
		}
		if k.hasTI {
			spec.TargetInfo = rn.EncodeAvPairs(k.pairs)
		}
		if k.flags&rn.FlagVersion != 0 {
			spec.Version = [8]byte{10, 0, 0x63, 0x45, 0, 0, 0, 15}
			if k.verAlt {
				spec.Version = [8]byte{6, 1, 0xb1, 0x1d, 0, 0, 0, 15}
			}
			if i%5 == 4 {
				spec.Version = [8]byte{} // negotiated, and all zero: a version like any other
			}
		}
		if k.gap < 0 && len(spec.TargetName)+len(spec.TargetInfo) < 8 {
			return // shorter than 56 bytes in all: whether that is still a CHALLENGE is not this lattice's question
		}
		msg0 := rn.EncodeChallenge(spec)
		// MS-NLMP 2.2.1.2: when a field's length is 0 its offset "MUST be ignored on receipt" — servers write the
		// running payload offset (as the reference encoder does), 0, or anything else
		emptyOffs := []int64{-1}
		if len(spec.TargetName) == 0 || len(spec.TargetInfo) == 0 {
			emptyOffs = []int64{-1, 0, 0xFFFFFFFF, 12}
		}
		for _, eo := range emptyOffs {
			msg := append([]byte{}, msg0...)
			if eo >= 0 {
				if len(spec.TargetName) == 0 {
					binary.LittleEndian.PutUint32(msg[16:], uint32(eo))
				}
				if len(spec.TargetInfo) == 0 && len(msg) >= 48 {
					binary.LittleEndian.PutUint32(msg[44:], uint32(eo))
				}
			}
			if i%997 == 0 && eo < 0 { // harness sanity: the reference reader must agree with the encoder
				if back, err := rn.ParseChallenge(msg); err != nil || !bytes.Equal(back.TargetName, spec.TargetName) || !bytes.Equal(back.TargetInfo, spec.TargetInfo) || back.Flags != spec.Flags {
					c.Fatalf("reference encoder/reader disagree on %x: %v", msg, err)
				}
			}
			c.Case([]byte("chal"), msg)
			desc := func() string {
				return fmt.Sprintf("ntlm.ParseChallengeMessage(%s) [reference-encoded: flags %#x, TargetName %x, TargetInfo %x, Version %x, infoFirst=%v gap=%d maxLen=len+%d, offset of empty fields=%d (-1: running payload offset)]", vf.HexS(msg), spec.Flags, spec.TargetName, spec.TargetInfo, spec.Version, k.first, k.gap, k.extra, eo)
			}
			var cm *ntlm.ChallengeMessage
			var err error
			if !call(t, "ntlm.ParseChallengeMessage", desc, func() { cm, err = ntlm.ParseChallengeMessage(append([]byte{}, msg...)) }) {
				continue
			}
			if !t.check("C08/challenge/ParseChallengeMessage/accepts-wellformed", err == nil && cm != nil, func() string { return fmt.Sprintf("%s: %v", desc(), err) }) {
				continue
			}
			t.check("C08/challenge/ParseChallengeMessage/signature-and-type", bytes.Equal(cm.Signature[:], rn.Signature) && cm.MessageType == 2, func() string {
				return fmt.Sprintf("%s: Signature %x MessageType %d", desc(), cm.Signature, cm.MessageType)
			})
			t.check("C08/challenge/ParseChallengeMessage/NegotiateFlags", cm.NegotiateFlags == spec.Flags, func() string {
				return fmt.Sprintf("%s: NegotiateFlags %#x want %#x", desc(), cm.NegotiateFlags, spec.Flags)
			})
			t.check("C08/challenge/ParseChallengeMessage/ServerChallenge", cm.ServerChallenge == spec.ServerChallenge, func() string {
				return fmt.Sprintf("%s: ServerChallenge %x want %x", desc(), cm.ServerChallenge, spec.ServerChallenge)
			})
			t.check("C08/challenge/ParseChallengeMessage/TargetName", bytes.Equal(cm.TargetName, spec.TargetName), func() string { return fmt.Sprintf("%s: TargetName %x want %x", desc(), cm.TargetName, spec.TargetName) })
			t.check("C08/challenge/ParseChallengeMessage/TargetInfo", bytes.Equal(cm.TargetInfo, spec.TargetInfo), func() string { return fmt.Sprintf("%s: TargetInfo %x want %x", desc(), cm.TargetInfo, spec.TargetInfo) })
			if spec.Flags&rn.FlagVersion != 0 {
				v := cm.Version
				got := [8]byte{v.ProductMajorVersion, v.ProductMinorVersion, byte(v.ProductBuild), byte(v.ProductBuild >> 8), v.Reserved[0], v.Reserved[1], v.Reserved[2], v.NTLMRevision}
				t.check("C08/challenge/ParseChallengeMessage/Version", got == spec.Version, func() string { return fmt.Sprintf("%s: Version %+v want bytes %x", desc(), v, spec.Version) })
			} else {
				v := cm.Version
				got := [8]byte{v.ProductMajorVersion, v.ProductMinorVersion, byte(v.ProductBuild), byte(v.ProductBuild >> 8), v.Reserved[0], v.Reserved[1], v.Reserved[2], v.NTLMRevision}
				t.check("C08/challenge/ParseChallengeMessage/no-Version-reported-when-the-message-carries-none", got == [8]byte{}, func() string {
					return fmt.Sprintf("%s: NEGOTIATE_VERSION is not set, so the message carries no version; the parser reports Version %+v", desc(), v)
				})
			}
			// the AV pairs, from the reference bytes and from what the parser returned
			for _, src := range []struct {
				name string
				b    []byte
			}{{"reference-bytes", spec.TargetInfo}, {"parsed-TargetInfo", cm.TargetInfo}} {
				var m map[uint16][]byte
				var perr error
				d2 := func() string { return fmt.Sprintf("ntlm.ParseTargetInfo(%x)", src.b) }
				if !call(t, "ntlm.ParseTargetInfo", d2, func() { m, perr = ntlm.ParseTargetInfo(append([]byte{}, src.b...)) }) {
					continue
				}
				ok := perr == nil && len(m) == len(k.pairs)
				if ok {
					for _, p := range k.pairs {
						v, present := m[p.ID]
						if !present || !bytes.Equal(v, p.Value) {
							ok = false
						}
					}
				}
				t.check("C08/challenge/ParseTargetInfo("+src.name+")/returns-exactly-the-pairs", ok, func() string {
					return fmt.Sprintf("%s = %s, %v; the list carries %s (whole message: %s)", d2(), fmtMap(m), perr, fmtPairs(k.pairs), desc())
				})
			}
		}
	})
	c.Sample("challenge", map[string]any{"flags": fmt.Sprintf("%#x", flagCombo(0b010101)|rn.FlagReqTarget|rn.FlagTypeServer), "target_name": "5300e900", "av_pairs": "id2=\"éc\", id7=timestamp", "info_first": true, "gap": 3})
}

func fmtPairs(ps []rn.AvPair) string {
	var s []string
	for _, p := range ps {
		s = append(s, fmt.Sprintf("%d:%x", p.ID, p.Value))
	}
	return "[" + strings.Join(s, " ") + "]"
}

func fmtMap(m map[uint16][]byte) string {
	var ids []int
	for k := range m {
		ids = append(ids, int(k))
	}
	sort.Ints(ids)
	var s []string
	for _, id := range ids {
		s = append(s, fmt.Sprintf("%d:%x", id, m[uint16(id)]))
	}
	return "{" + strings.Join(s, " ") + "}"
}

// ------------------------------------------------------------------ SPNEGO

func tokenLengths() []int {
	var extra []int
	for k := 0; k <= 17; k++ {
		extra = append(extra, 1<<uint(k)-1, 1<<uint(k), 1<<uint(k)+1)
	}
	out := enum.Lengths(1, 300, extra...)
	var pos []int
	for _, n := range out {
		if n >= 1 {
			pos = append(pos, n)
		}
	}
	return pos
}

func patterned(n int) []byte {
	b := make([]byte, n)
	for i := range b {
		b[i] = byte(i*7 + n + i>>8)
	}
	return b
}

// judgeFrame checks one library-built SPNEGO frame with both independent DER readers.
func judgeFrame(r reporter, prefix string, out, tok []byte, desc func() string) {
	info, err := rn.ReadSpnego(out)
	r(prefix+"/der-wellformed(own-reader)", err == nil, func() string { return fmt.Sprintf("%s = %s: %v", desc(), vf.HexS(out), err) })
	if err == nil {
		r(prefix+"/outer-length-is-remaining-bytes", info.OuterLen == len(out)-1-len(rn.DERLen(info.OuterLen)), func() string {
			return fmt.Sprintf("%s = %s: outer length %d, %d bytes in total", desc(), vf.HexS(out), info.OuterLen, len(out))
		})
		r(prefix+"/spnego-oid", bytes.Equal(info.OID, rn.OIDSpnego), func() string {
			return fmt.Sprintf("%s: mechanism OID content %x want %x", desc(), info.OID, rn.OIDSpnego)
		})
		r(prefix+"/carries-token", info.HasToken && bytes.Equal(info.Token, tok), func() string {
			return fmt.Sprintf("%s = %s: OCTET STRING under [2] is %s, token was %s", desc(), vf.HexS(out), vf.HexS(info.Token), vf.HexS(tok))
		})
	}
	var p *ber.Packet
	var berr error
	pan, msg, _ := vf.Try(func() { p, berr = ber.DecodePacketErr(out) })
	okBer := !pan && berr == nil && p != nil
	if okBer {
		okBer = p.ClassType == ber.ClassApplication && p.Tag == 0 && len(p.Children) == 2 && bytes.Equal(p.Bytes(), out)
	}
	r(prefix+"/der-wellformed(asn1-ber)", okBer, func() string {
		return fmt.Sprintf("%s = %s: go-asn1-ber: err=%v panic=%v %s; re-encoding differs or shape is not [APPLICATION 0]{OID, token}", desc(), vf.HexS(out), berr, pan, msg)
	})
}

func spnegoTokens(c *vf.Ctx) {
	lens := tokenLengths()
	c.Set("spnego_token_lengths", len(lens))
	states := []asn1.Enumerated{spnego.Accept, spnego.AcceptIncomplete, spnego.Reject, spnego.RequestMIC}
	type sc struct {
		n     int
		kind  int // 0 init, 1 resp
		state asn1.Enumerated
		mech  bool
	}
	var cases []sc
	for _, n := range lens {
		cases = append(cases, sc{n: n})
		for _, st := range states {
			cases = append(cases, sc{n, 1, st, true}, sc{n, 1, st, false})
		}
	}
	shards(c, len(cases), func(i int, t *tally) {
		k := cases[i]
		tok := patterned(k.n)
		var out []byte
		var err error
		if k.kind == 0 {
			desc := func() string {
				return fmt.Sprintf("spnego.CreateNegTokenInit(token of %d bytes %s)", k.n, vf.HexS(tok))
			}
			c.Case([]byte("init"), tok)
			if !call(t, "spnego.CreateNegTokenInit", desc, func() { out, err = spnego.CreateNegTokenInit(append([]byte{}, tok...)) }) {
				return
			}
			if !t.check("C08/spnego/CreateNegTokenInit/builds", err == nil, func() string { return fmt.Sprintf("%s: %v", desc(), err) }) {
				return
			}
			judgeFrame(t.check2, "C08/spnego/CreateNegTokenInit", out, tok, desc)
			var back []byte
			if call(t, "spnego.ExtractNTLMToken", desc, func() { back, err = spnego.ExtractNTLMToken(append([]byte{}, out...)) }) {
				t.check("C08/spnego/roundtrip/ExtractNTLMToken(CreateNegTokenInit(t))=t", err == nil && bytes.Equal(back, tok), func() string {
					return fmt.Sprintf("ExtractNTLMToken(%s) = %s, %v; token was %s", desc(), vf.HexS(back), err, vf.HexS(tok))
				})
			}
			return
		}
		var mech asn1.ObjectIdentifier
		if k.mech {
			mech = spnego.NtlmOID
		}
		desc := func() string {
			return fmt.Sprintf("spnego.CreateNegTokenResp(state=%d, mech=%v, token of %d bytes %s)", k.state, mech, k.n, vf.HexS(tok))
		}
		c.Case([]byte("resp"), tok, []byte{byte(k.state), boolByte(k.mech)})
		if !call(t, "spnego.CreateNegTokenResp", desc, func() { out, err = spnego.CreateNegTokenResp(k.state, mech, append([]byte{}, tok...)) }) {
			return
		}
		if !t.check("C08/spnego/CreateNegTokenResp/builds", err == nil, func() string { return fmt.Sprintf("%s: %v", desc(), err) }) {
			return
		}
		judgeFrame(t.check2, "C08/spnego/CreateNegTokenResp", out, tok, desc)
		var back []byte
		if call(t, "spnego.ExtractNTLMToken", desc, func() { back, err = spnego.ExtractNTLMToken(append([]byte{}, out...)) }) {
			t.check("C08/spnego/roundtrip/ExtractNTLMToken(CreateNegTokenResp(t))=t", err == nil && bytes.Equal(back, tok), func() string {
				return fmt.Sprintf("ExtractNTLMToken(%s) = %s, %v; token was %s", desc(), vf.HexS(back), err, vf.HexS(tok))
			})
		}
		var resp *spnego.NegTokenResp
		if call(t, "spnego.ParseNegTokenResp", desc, func() { resp, err = spnego.ParseNegTokenResp(append([]byte{}, out...)) }) {
			ok := err == nil && resp != nil && bytes.Equal(resp.ResponseToken, tok) && resp.NegState == k.state && (len(resp.SupportedMech) == 0) == !k.mech && (!k.mech || resp.SupportedMech.Equal(spnego.NtlmOID))
			t.check("C08/spnego/roundtrip/ParseNegTokenResp(CreateNegTokenResp(s,m,t))=(s,m,t)", ok, func() string {
				return fmt.Sprintf("ParseNegTokenResp(%s) = %+v, %v", desc(), resp, err)
			})
		}
	})
	// the empty token is "no token": an error or an empty result are both fine, anything else is not
	t := &tally{c, map[string]int64{}}
	for _, tok := range [][]byte{nil, {}} {
		var out, back []byte
		var err error
		desc := func() string { return fmt.Sprintf("spnego.CreateNegTokenInit(%#v)", tok) }
		c.Case([]byte("init-empty"), []byte{boolByte(tok == nil)})
		if !call(t, "spnego.CreateNegTokenInit", desc, func() { out, err = spnego.CreateNegTokenInit(tok) }) || err != nil {
			continue
		}
		if call(t, "spnego.ExtractNTLMToken", desc, func() { back, err = spnego.ExtractNTLMToken(out) }) {
			t.check("C08/spnego/empty-token/error-or-empty", err != nil || len(back) == 0, func() string { return fmt.Sprintf("ExtractNTLMToken(%s) = %x", desc(), back) })
		}
	}
	t.flush()
	c.Sample("spnego", map[string]any{"token_lengths": "1..300, 2^k-1, 2^k, 2^k+1 (k<=17)", "largest": 131073})
}

// ------------------------------------------------------------------ AuthContext end to end

func endToEnd(c *vf.Ctx) {
	names := enum.Strings(nameAlpha, 2)
	// CreateNegotiateToken
	type nc struct {
		d, w string
		uni  bool
	}
	var ncs []nc
	for _, uni := range []bool{true, false} {
		for _, d := range names {
			for _, w := range []string{"", "W", "é", "aΣ"} {
				ncs = append(ncs, nc{d, w, uni})
			}
		}
	}
	shards(c, len(ncs), func(i int, t *tally) {
		k := ncs[i]
		desc := func() string {
			return fmt.Sprintf("spnego.NewAuthContext(NTLM, domain=%q, user=\"u\", password=\"p\", workstation=%q, unicode=%v).CreateNegotiateToken()", k.d, k.w, k.uni)
		}
		c.Case([]byte("e2e-neg"), []byte(k.d), []byte{0}, []byte(k.w), []byte{boolByte(k.uni)})
		var out []byte
		var err error
		if !call(t, "spnego.AuthContext.CreateNegotiateToken", desc, func() {
			out, err = spnego.NewAuthContext(spnego.AuthTypeNTLM, k.d, "u", "p", k.w, k.uni).CreateNegotiateToken()
		}) {
			return
		}
		if !t.check("C08/AuthContext.CreateNegotiateToken/builds", err == nil, func() string { return fmt.Sprintf("%s: %v", desc(), err) }) {
			return
		}
		info, rerr := rn.ReadSpnego(out)
		if !t.check("C08/AuthContext.CreateNegotiateToken/frame-readable", rerr == nil && info.HasToken, func() string { return fmt.Sprintf("%s = %s: %v", desc(), vf.HexS(out), rerr) }) {
			return
		}
		judgeNegotiate(t.check2, "C08/AuthContext.CreateNegotiateToken/negotiate", info.Token, k.d, k.w, k.uni, desc)
	})

	// ProcessChallengeToken: reference-encoded CHALLENGE in a reference-encoded frame (library layout)
	type pc struct {
		in    authIn
		tn    int
		first bool
		state int
		mech  bool
		cuni  bool // how the context was created; what is spoken is what the CHALLENGE negotiates
	}
	var pcs []pc
	sc := [8]byte{0xfe, 0xdc, 0xba, 0x98, 0x76, 0x54, 0x32, 0x10}
	tis := [][]byte{rn.EncodeAvPairs(nil), sampleTargetInfo(), rn.EncodeAvPairs([]rn.AvPair{{ID: 7, Value: []byte{1, 2, 3, 4, 5, 6, 7, 8}}, {ID: 9, Value: rc.UTF16LE("cifs/é")}, {ID: 6, Value: []byte{0, 0, 0, 0}}})}
	for fi := 0; fi < 64; fi++ {
		fl := flagCombo(fi)
		for di, d := range names {
			for ui, u := range []string{"", "User", "é", "aΣ"} {
				for wi, w := range []string{"", "WS", "Bé"} {
					if c.Quick() && (di+ui+wi)%3 != 0 {
						continue
					}
					var ti []byte
					if fl&rn.FlagTargetInfo != 0 {
						ti = tis[(di+ui+wi)%len(tis)]
					}
					pcs = append(pcs, pc{authIn{fl, sc, ti, u, "Password", d, w}, (di + ui) % 4, (di+wi)%2 == 1, []int{1, 1, 0, 3, -1}[(di+ui+wi)%5], (ui+wi)%4 != 3, (di+wi)%2 == 0})
				}
			}
		}
	}
	shards(c, len(pcs), func(i int, t *tally) {
		k := pcs[i]
		spec := &rn.Challenge{Flags: k.in.flags, ServerChallenge: k.in.sc, TargetInfo: k.in.ti, InfoFirst: k.first}
		spec.TargetName = targetNameBytes(k.in.flags, k.tn)
		if k.tn > 0 {
			spec.Flags |= rn.FlagReqTarget | rn.FlagTypeServer
		}
		if spec.Flags&rn.FlagVersion != 0 {
			spec.Version = [8]byte{10, 0, 0x63, 0x45, 0, 0, 0, 15}
		}
		in := k.in
		in.flags = spec.Flags
		chal := rn.EncodeChallenge(spec)
		frame := rn.WrapRespLib(k.state, k.mech, chal)
		desc := func() string {
			return fmt.Sprintf("spnego.NewAuthContext(NTLM, domain=%q, user=%q, password=%q, workstation=%q, unicode=%v).ProcessChallengeToken(%s) [frame: negState=%d mech=%v around CHALLENGE %s]", in.d, in.user, in.pw, in.w, k.cuni, vf.HexS(frame), k.state, k.mech, vf.HexS(chal))
		}
		c.Case([]byte("e2e-chal"), frame, []byte(in.d), []byte{0}, []byte(in.user), []byte{0}, []byte(in.w), []byte{boolByte(k.cuni)})
		ctx := spnego.NewAuthContext(spnego.AuthTypeNTLM, in.d, in.user, in.pw, in.w, k.cuni)
		var out []byte
		var err error
		if !call(t, "spnego.AuthContext.ProcessChallengeToken", desc, func() { out, err = ctx.ProcessChallengeToken(append([]byte{}, frame...)) }) {
			return
		}
		if !t.check("C08/AuthContext.ProcessChallengeToken/accepts-wellformed-challenge", err == nil, func() string { return fmt.Sprintf("%s: %v", desc(), err) }) {
			return
		}
		cm := ctx.NTLMChallenge
		t.check("C08/AuthContext.ProcessChallengeToken/stores-parsed-challenge", cm != nil && cm.NegotiateFlags == spec.Flags && cm.ServerChallenge == spec.ServerChallenge && bytes.Equal(cm.TargetName, spec.TargetName) && bytes.Equal(cm.TargetInfo, spec.TargetInfo), func() string {
			return fmt.Sprintf("%s: ctx.NTLMChallenge = %+v", desc(), cm)
		})
		info, rerr := rn.ReadSpnego(out)
		if !t.check("C08/AuthContext.ProcessChallengeToken/frame-readable", rerr == nil && info.HasToken, func() string { return fmt.Sprintf("%s = %s: %v", desc(), vf.HexS(out), rerr) }) {
			return
		}
		judgeAuthenticate(t.check2, "C08/AuthContext.ProcessChallengeToken/authenticate", info.Token, in, desc)
		// call history on ONE context: an earlier, different challenge (other flags, other server challenge)
		// must leave no trace — the answer to THIS challenge is judged exactly like the fresh-context answer
		if i%3 == 0 {
			prev := &rn.Challenge{Flags: flagCombo((i*7 + 21) % 64), ServerChallenge: [8]byte{1, 2, 3, 4, 5, 6, 7, 8}}
			if prev.Flags&rn.FlagTargetInfo != 0 {
				prev.TargetInfo = sampleTargetInfo()
			}
			if prev.Flags&rn.FlagVersion != 0 {
				prev.Version = [8]byte{6, 1, 0xb1, 0x1d, 0, 0, 0, 15}
			}
			ctx2 := spnego.NewAuthContext(spnego.AuthTypeNTLM, in.d, in.user, in.pw, in.w, k.cuni)
			var out2 []byte
			var err2 error
			desc2 := func() string {
				return desc() + fmt.Sprintf(" AFTER the same context had processed CHALLENGE %s", vf.HexS(rn.EncodeChallenge(prev)))
			}
			if call(t, "spnego.AuthContext.ProcessChallengeToken(second)", desc2, func() {
				ctx2.ProcessChallengeToken(rn.WrapRespLib(1, true, rn.EncodeChallenge(prev)))
				out2, err2 = ctx2.ProcessChallengeToken(append([]byte{}, frame...))
			}) && t.check("C08/AuthContext.history/second-challenge-accepted", err2 == nil, func() string { return fmt.Sprintf("%s: %v", desc2(), err2) }) {
				cm2 := ctx2.NTLMChallenge
				t.check("C08/AuthContext.history/stores-the-latest-challenge", cm2 != nil && cm2.NegotiateFlags == spec.Flags && cm2.ServerChallenge == spec.ServerChallenge && bytes.Equal(cm2.TargetName, spec.TargetName) && bytes.Equal(cm2.TargetInfo, spec.TargetInfo), func() string {
					return fmt.Sprintf("%s: ctx.NTLMChallenge = %+v", desc2(), cm2)
				})
				if info2, rerr2 := rn.ReadSpnego(out2); t.check("C08/AuthContext.history/frame-readable", rerr2 == nil && info2.HasToken, func() string { return fmt.Sprintf("%s = %s: %v", desc2(), vf.HexS(out2), rerr2) }) {
					judgeAuthenticate(t.check2, "C08/AuthContext.history/authenticate-answers-the-latest-challenge", info2.Token, in, desc2)
				}
			}
		}
	})
	c.Sample("end-to-end", map[string]any{"challenge_flags": fmt.Sprintf("%#x", flagCombo(0b011101)), "frame": hex.EncodeToString(rn.WrapRespLib(1, true, []byte("NTLMSSP\x00…")))[:40] + "…"})
}
