// C06 — SMB wire data types round-trip and consume exactly their own encoding.
//
// E4 (input lattices + independent reference codec). For every wire type the value domain is
// enumerated exhaustively inside stated bounds, every value is encoded by the library, the
// encoding is followed by each of five trailing suffixes, decoded by the library, and compared:
// fields equal, bytes consumed = length of the library's own encoding. Where MS-CIFS fixes the
// byte layout the library's bytes are also compared with verif/ref/refsmbtypes.
//
// Files: main.go (harness), strings.go (SMB_STRING, OEM_STRING), fixed.go (fixed-size types),
// blocks.go (Parameters, Data), dirinfo.go (SMB_RESUME_KEY, SMB_DIRECTORY_INFORMATION).
package main

import (
	"bytes"
	"fmt"
	"os"
	"sync"

	"verif/checks/smbhist"
	ref "verif/ref/refsmbtypes"
	"verif/vf"
)

func main() { vf.Main("C06", "exploration", run) }

func run(c *vf.Ctx) {
	if err := ref.SelfTest(); err != nil {
		c.Fatalf("%v", err)
	}
	c.Rule("per wire type: every value of an explicit lattice (all 65536 words, in both directions, for SMB_DATE, SMB_NMPIPE_STATUS, SMB_FILE_ATTRIBUTES; all 65536 (command,reserved) pairs x 3 offsets and all 65536 offsets x 3 pairs for AndX; " +
		"for the N-byte fixed layouts FILETIME(8), RANGE32(10), RANGE64(20), VERSION(8), resume key(21): 0, ~0, every 1-bit and 2-bit buffer and complements, every byte position x all 256 values on 00 and FF backgrounds, counter and 55/AA patterns; " +
		"SMB_STRING in each of the five buffer formats and OEM_STRING: every length 0..300 (thorough 0..2100), 2^k-1..2^k+1 for k=9..15 and 65532..65535 in 3-5 content patterns, thorough additionally EVERY length 0..65535 in one pattern, every 1- and 2-byte string, every string <=4 (thorough 5) over a 6/7-byte alphabet, no embedded NUL in the null-terminated formats; " +
		"Parameters with every word count 0..255 x 4 patterns and every single word; Data with 0..300 (thorough every count 0..65535) and 65534/65535 bytes; directory entries varying one field at a time over its own lattice on two backgrounds, every date word, names of 0..12 bytes, every byte value at every name position) " +
		"x every construction path the library offers x suffixes {none, 00, FF, 41 00, 00 00 00} + one decode into a pre-filled receiver. " +
		"A case is distinct when (type, library encoding) differs; non-trivial because every case reaches Marshal and six Unmarshal calls")
	c.Assume("reference codec verif/ref/refsmbtypes written from MS-CIFS 2.2.1/2.2.2.5/2.2.3/2.2.4.58 and MS-NLMP 2.2.2.10, self-tested on MS-NLMP 4.2.1 VERSION, the FILETIME of the Unix epoch, FAT date/time words, the NT LM 0.12 dialect entry and the repository's own test vectors")
	c.Assume("values outside a type's representable domain (month > 15, names > 12 bytes, embedded NUL in NUL-terminated formats, > 255 words, > 65535 bytes) are outside the property; truncated or hostile input is property C07")

	stringsAll(c)
	oemStrings(c)
	datesAll(c)
	pipeStatusAll(c)
	fileAttributesAll(c)
	filetimeAll(c)
	range32All(c)
	range64All(c)
	andxAll(c)
	versionAll(c)
	parametersAll(c)
	dataAll(c)
	resumeKeyAll(c)
	dirInfoAll(c)
	// call histories on ONE object (Set / Decode / Encode, depth 3; thorough 4): explicit-state BFS over the real objects
	st, tr := smbhist.All(c, "C06/history", c.Pick(3, 4))
	c.Set("object_history_bfs", map[string]any{"states": st, "transitions": tr, "ops": "Set(value k) | Decode(enc(value k)) | Encode on one object, oracle = a fresh object holding the same value"})
}

// ---------------------------------------------------------------- suffixes

type suffix struct {
	name string
	b    []byte
}

var suffixes = []suffix{
	{"none", nil},
	{"00", []byte{0x00}},
	{"FF", []byte{0xFF}},
	{"41 00", []byte{0x41, 0x00}},
	{"00 00 00", []byte{0x00, 0x00, 0x00}},
}

func withSuffix(enc []byte, s suffix) []byte {
	out := make([]byte, 0, len(enc)+len(s.b))
	out = append(out, enc...)
	return append(out, s.b...)
}

// ---------------------------------------------------------------- tally: lock-free passes, locked failures

type tally struct {
	c     *vf.Ctx
	pass  map[string]int64
	evals int64
}

func newTally(c *vf.Ctx) *tally { return &tally{c: c, pass: map[string]int64{}} }

func (t *tally) check(key string, ok bool, w func() string) bool {
	if ok {
		t.pass[key]++
		return true
	}
	t.c.Check(key, false, w)
	return false
}

func (t *tally) flush() {
	for k, n := range t.pass {
		t.c.Pass(k, n)
	}
	t.c.Evals(t.evals)
	t.pass = map[string]int64{}
	t.evals = 0
}

// parRun calls fn(t, i) for i in [0,n) on all cores in chunks; each chunk has its own tally.
func parRun(c *vf.Ctx, n int, fn func(t *tally, i int)) {
	const chunk = 128
	chunks := (n + chunk - 1) / chunk
	vf.Par(chunks, func(ci int) {
		if c.DeadlineExceeded() {
			return
		}
		t := newTally(c)
		hi := (ci + 1) * chunk
		if hi > n {
			hi = n
		}
		for i := ci * chunk; i < hi; i++ {
			fn(t, i)
		}
		t.flush()
	})
}

// ---------------------------------------------------------------- generic per-type specification

// ctor is one way the library offers to build the value before Marshal.
type ctor[V any] struct {
	name    string
	applies func(V) bool // nil = always
	enc     func(V) ([]byte, error)
}

// spec describes one wire type (or one variant of it). V is the plain field view of a value.
type spec[V any] struct {
	key    string // "C06/SMB_DATE", "C06/SMB_STRING/format-0x01"
	lib    string // library type name for witnesses
	show   func(V) string
	eq     func(want, got V) bool
	ctors  []ctor[V]                                      // ctors[0] is the canonical path
	dec    func(b []byte, reused bool) (V, int, error)    // library Unmarshal into a fresh (or deliberately pre-filled) receiver
	refEnc func(V) (enc []byte, fixed bool)               // MS-CIFS layout; fixed=false where the specification is silent
	layout func(v V, lib []byte) (ok bool, detail string) // optional replacement for the byte-for-byte layout comparison

	once sync.Once
	k    struct {
		encodeOK, layout, fieldsEq, consumed, reused string
		accept                                       [2]string
		b2fAccept                                    [2]string
		b2fReenc, b2fConsumed                        string
		ctor                                         []string
	}
}

func (sp *spec[V]) init() {
	sp.once.Do(func() {
		sp.k.encodeOK = sp.key + "/marshal-succeeds"
		sp.k.layout = sp.key + "/layout-equals-ms-cifs"
		sp.k.fieldsEq = sp.key + "/roundtrip/fields-equal"
		sp.k.consumed = sp.key + "/roundtrip/consumed-equals-own-encoding-length"
		sp.k.reused = sp.key + "/roundtrip/fields-equal-into-reused-receiver"
		sp.k.accept = [2]string{sp.key + "/roundtrip/unmarshal-accepts-own-encoding/exact-buffer", sp.key + "/roundtrip/unmarshal-accepts-own-encoding/trailing-bytes"}
		sp.k.b2fAccept = [2]string{sp.key + "/bytes-fields-bytes/unmarshal-accepts/exact-buffer", sp.key + "/bytes-fields-bytes/unmarshal-accepts/trailing-bytes"}
		sp.k.b2fReenc = sp.key + "/bytes-fields-bytes/marshal-reproduces-input"
		sp.k.b2fConsumed = sp.key + "/bytes-fields-bytes/consumed-equals-structure-size"
		for i, ct := range sp.ctors {
			if i == 0 {
				sp.k.ctor = append(sp.k.ctor, "")
				continue
			}
			sp.k.ctor = append(sp.k.ctor, sp.key+"/constructor:"+ct.name+"/encodes-like-"+sp.ctors[0].name)
		}
	})
}

func class(si int) int {
	if si == 0 {
		return 0
	}
	return 1
}

// exercise is the value -> bytes -> value direction for one value.
func exercise[V any](c *vf.Ctx, t *tally, sp *spec[V], v V) {
	sp.init()
	var enc []byte
	var err error
	p, msg, where := vf.Try(func() { enc, err = sp.ctors[0].enc(v) })
	t.evals++
	if !t.check(sp.k.encodeOK, !p && err == nil, func() string {
		return fmt.Sprintf("%s built by %s from %s: Marshal() panicked=%v %s %s err=%v", sp.lib, sp.ctors[0].name, sp.show(v), p, msg, where, err)
	}) {
		return
	}
	c.Distinct([]byte(sp.key), enc)

	for i := 1; i < len(sp.ctors); i++ {
		ct := sp.ctors[i]
		if ct.applies != nil && !ct.applies(v) {
			continue
		}
		var e2 []byte
		var err2 error
		p2, msg2, where2 := vf.Try(func() { e2, err2 = ct.enc(v) })
		t.check(sp.k.ctor[i], !p2 && err2 == nil && bytes.Equal(e2, enc), func() string {
			return fmt.Sprintf("%s for %s: built by %s: Marshal() %s, bytes %s; built by %s: Marshal()=%s", sp.lib, sp.show(v), ct.name, outcome(p2, msg2, where2, err2), vf.HexS(e2), sp.ctors[0].name, vf.HexS(enc))
		})
	}

	if sp.layout != nil {
		ok, detail := sp.layout(v, enc)
		t.check(sp.k.layout, ok, func() string {
			return fmt.Sprintf("%s %s: Marshal()=%s; %s", sp.lib, sp.show(v), vf.HexS(enc), detail)
		})
	} else if sp.refEnc != nil {
		if want, fixed := sp.refEnc(v); fixed {
			t.check(sp.k.layout, bytes.Equal(enc, want), func() string {
				return fmt.Sprintf("%s %s: Marshal()=%s, MS-CIFS layout=%s", sp.lib, sp.show(v), vf.HexS(enc), vf.HexS(want))
			})
		}
	}

	freshExactOK := false
	for si, suf := range suffixes {
		buf := withSuffix(enc, suf)
		var got V
		var n int
		var derr error
		p, msg, where = vf.Try(func() { got, n, derr = sp.dec(buf, false) })
		if !t.check(sp.k.accept[class(si)], !p && derr == nil, func() string {
			return fmt.Sprintf("%s.Unmarshal(own %d-byte encoding || suffix [%s]): %s; value %s; Marshal()=%s", sp.lib, len(enc), suf.name, outcome(p, msg, where, derr), sp.show(v), vf.HexS(enc))
		}) {
			continue
		}
		same := sp.eq(v, got)
		if si == 0 && same {
			freshExactOK = true
		}
		t.check(sp.k.fieldsEq, same, func() string {
			return fmt.Sprintf("%s: Marshal()=%s; Unmarshal(that || suffix [%s]) decoded %s, want %s", sp.lib, vf.HexS(enc), suf.name, sp.show(got), sp.show(v))
		})
		t.check(sp.k.consumed, n == len(enc), func() string {
			return fmt.Sprintf("%s %s: Marshal() has %d bytes (%s); Unmarshal(that || suffix [%s]) reported %d bytes consumed", sp.lib, sp.show(v), len(enc), vf.HexS(enc), suf.name, n)
		})
	}

	// Same encoding decoded into a receiver that already holds other values. Evaluated only when the
	// fresh receiver accepted the buffer and returned the right fields: a decoder that fails on a fresh
	// receiver is already reported above and must not be reported a second time under this key.
	if !freshExactOK {
		return
	}
	buf := withSuffix(enc, suffixes[0])
	var got V
	var derr error
	p, msg, where = vf.Try(func() { got, _, derr = sp.dec(buf, true) })
	t.check(sp.k.reused, !p && derr == nil && sp.eq(v, got), func() string {
		return fmt.Sprintf("%s.Unmarshal(own encoding) into a receiver that already holds other values: %s; decoded %s, want %s; Marshal()=%s", sp.lib, outcome(p, msg, where, derr), sp.show(got), sp.show(v), vf.HexS(enc))
	})
}

func outcome(panicked bool, msg, where string, err error) string {
	switch {
	case panicked:
		return fmt.Sprintf("PANIC %q at %s", msg, where)
	case err != nil:
		return fmt.Sprintf("error %q", err.Error())
	}
	return "ok"
}

// exerciseBytes is the bytes -> fields -> bytes direction for one buffer that is exactly one structure long.
func exerciseBytes[V any](c *vf.Ctx, t *tally, sp *spec[V], b []byte) {
	sp.init()
	t.evals++
	c.Distinct([]byte(sp.key), []byte("b2f"), b)
	for si, suf := range suffixes {
		buf := withSuffix(b, suf)
		var got V
		var n int
		var derr error
		p, msg, where := vf.Try(func() { got, n, derr = sp.dec(buf, false) })
		if !t.check(sp.k.b2fAccept[class(si)], !p && derr == nil, func() string {
			return fmt.Sprintf("%s.Unmarshal(%s || suffix [%s]): %s", sp.lib, vf.HexS(b), suf.name, outcome(p, msg, where, derr))
		}) {
			continue
		}
		t.check(sp.k.b2fConsumed, n == len(b), func() string {
			return fmt.Sprintf("%s: Unmarshal(%s || suffix [%s]) reported %d bytes consumed, the structure has %d", sp.lib, vf.HexS(b), suf.name, n, len(b))
		})
		var re []byte
		var err error
		p, msg, where = vf.Try(func() { re, err = sp.ctors[0].enc(got) })
		t.check(sp.k.b2fReenc, !p && err == nil && bytes.Equal(re, b), func() string {
			return fmt.Sprintf("%s: Unmarshal(%s || suffix [%s]) gave %s; Marshal of that: %s, bytes %s", sp.lib, vf.HexS(b), suf.name, sp.show(got), outcome(p, msg, where, err), vf.HexS(re))
		})
	}
}

// ---------------------------------------------------------------- byte-buffer lattices

// lattice returns distinct n-byte buffers: 0, ~0, every single bit and its complement, every
// pair of bits (and complements when twoCompl), every byte position x all 256 values on 00 and
// FF backgrounds, counter patterns from several starts, 55/AA alternation.
func lattice(n int, twoBits, twoCompl bool) [][]byte {
	seen := map[string]bool{}
	var out [][]byte
	add := func(b []byte) {
		if !seen[string(b)] {
			seen[string(b)] = true
			out = append(out, append([]byte{}, b...))
		}
	}
	fill := func(v byte) []byte { return bytes.Repeat([]byte{v}, n) }
	inv := func(b []byte) []byte {
		o := make([]byte, len(b))
		for i := range b {
			o[i] = ^b[i]
		}
		return o
	}
	add(fill(0))
	add(fill(0xff))
	for _, st := range []byte{0x01, 0x10, 0x80, 0xF0} {
		b := make([]byte, n)
		for i := range b {
			b[i] = st + byte(i)
		}
		add(b)
	}
	alt := make([]byte, n)
	for i := range alt {
		alt[i] = 0x55
		if i%2 == 1 {
			alt[i] = 0xAA
		}
	}
	add(alt)
	add(inv(alt))
	for i := 0; i < 8*n; i++ {
		b := fill(0)
		b[i/8] |= 1 << uint(i%8)
		add(b)
		add(inv(b))
	}
	for p := 0; p < n; p++ {
		for v := 0; v < 256; v++ {
			b := fill(0)
			b[p] = byte(v)
			add(b)
			g := fill(0xff)
			g[p] = byte(v)
			add(g)
		}
	}
	if twoBits {
		for i := 0; i < 8*n; i++ {
			for j := i + 1; j < 8*n; j++ {
				b := fill(0)
				b[i/8] |= 1 << uint(i%8)
				b[j/8] |= 1 << uint(j%8)
				add(b)
				if twoCompl {
					add(inv(b))
				}
			}
		}
	}
	return out
}

// ---------------------------------------------------------------- stdout capture

// captureStdout runs fn with os.Stdout pointing at a scratch file and returns how many bytes the
// code wrote there and the first bytes. The library must not write to the process's standard
// output from a decoder; the harness also needs its own stdout clean for the verdict lines.
func captureStdout(c *vf.Ctx, fn func()) (size int64, head string) {
	dir := os.Getenv("VERIF_WORK")
	if dir == "" {
		dir = os.TempDir()
	}
	f, err := os.CreateTemp(dir, "c06-stdout-*")
	if err != nil {
		c.Fatalf("cannot create scratch file for stdout capture: %v", err)
	}
	defer os.Remove(f.Name())
	defer f.Close()
	old := os.Stdout
	os.Stdout = f
	func() {
		defer func() { os.Stdout = old }()
		fn()
	}()
	st, err := f.Stat()
	if err != nil {
		c.Fatalf("stat scratch file: %v", err)
	}
	buf := make([]byte, 120)
	k, _ := f.ReadAt(buf, 0)
	return st.Size(), string(buf[:k])
}
