package main

import (
	"bytes"
	"fmt"
	"strings"
	"sync/atomic"

	"github.com/TheManticoreProject/Manticore/network/smb/smb_v10/types"

	"verif/enum"
	ref "verif/ref/refsmbtypes"
	"verif/vf"
)

// ---------------------------------------------------------------- SMB_RESUME_KEY

func libKey(k ref.ResumeKey) types.SMB_RESUME_KEY {
	return types.SMB_RESUME_KEY{Reserved: k.Reserved, ServerState: k.ServerState, ClientState: k.ClientState}
}

func refKey(k *types.SMB_RESUME_KEY) ref.ResumeKey {
	return ref.ResumeKey{Reserved: k.Reserved, ServerState: k.ServerState, ClientState: k.ClientState}
}

func showKey(k ref.ResumeKey) string {
	return fmt.Sprintf("{Reserved:%02x ServerState:%x ClientState:%x}", k.Reserved, k.ServerState, k.ClientState)
}

func resumeKeySpec() *spec[ref.ResumeKey] {
	return &spec[ref.ResumeKey]{
		key:  "C06/SMB_RESUME_KEY",
		lib:  "types.SMB_RESUME_KEY",
		show: showKey,
		eq:   func(a, b ref.ResumeKey) bool { return a == b },
		ctors: []ctor[ref.ResumeKey]{
			{name: "struct-literal", enc: func(v ref.ResumeKey) ([]byte, error) {
				k := libKey(v)
				return k.Marshal()
			}},
			{name: "NewSMB_RESUME_KEY+fields", enc: func(v ref.ResumeKey) ([]byte, error) {
				k := types.NewSMB_RESUME_KEY()
				k.Reserved, k.ServerState, k.ClientState = v.Reserved, v.ServerState, v.ClientState
				return k.Marshal()
			}},
		},
		dec: func(b []byte, reused bool) (ref.ResumeKey, int, error) {
			var k types.SMB_RESUME_KEY
			if reused {
				k = libKey(ref.ResumeKey{Reserved: 0x5a, ServerState: [16]byte{1, 2, 3, 4, 5, 6, 7, 8, 9, 10, 11, 12, 13, 14, 15, 16}, ClientState: [4]byte{9, 9, 9, 9}})
				k.SMB_STRING.Buffer = []byte("stale")
				k.SMB_STRING.Length = 5
			}
			n, err := k.Unmarshal(b)
			return refKey(&k), n, err
		},
		// as carried by SMB_COM_SEARCH requests (MS-CIFS 2.2.4.58.1): BufferFormat2 0x05, ResumeKeyLength 21, key
		refEnc: func(v ref.ResumeKey) ([]byte, bool) { return ref.EncResumeKeyBlock(v), true },
	}
}

func resumeKeyAll(c *vf.Ctx) {
	sp := resumeKeySpec()
	bufs := lattice(21, true, c.Thorough())
	var decodes int64
	size, head := captureStdout(c, func() {
		parRun(c, len(bufs), func(t *tally, i int) {
			v, _, _ := ref.DecResumeKeyRaw(bufs[i])
			exercise(c, t, sp, v)
			exerciseBytes(c, t, sp, ref.EncResumeKeyBlock(v))
			atomic.AddInt64(&decodes, int64(2*len(suffixes)+1))
		})
	})
	stdoutObligation(c, "C06/SMB_RESUME_KEY/unmarshal-writes-nothing-to-stdout", "types.SMB_RESUME_KEY.Unmarshal", decodes, size, head)
	c.Sample("SMB_RESUME_KEY", map[string]any{"keys": len(bufs)})
}

func stdoutObligation(c *vf.Ctx, key, fn string, calls, size int64, head string) {
	if size == 0 {
		c.Pass(key, calls)
		return
	}
	c.Pass(key, calls-1)
	c.Fail(key, fmt.Sprintf("%d calls of %s on the library's own encodings wrote %d bytes to os.Stdout; output begins %q", calls, fn, size, head))
}

// ---------------------------------------------------------------- SMB_DIRECTORY_INFORMATION

// dirVal is the field view of the library's directory entry (its LastWriteTime is a FILETIME).
type dirVal struct {
	Key   ref.ResumeKey
	Attr  byte
	Ticks uint64
	Date  ref.Date
	Size  uint32
	Name  []byte
}

func showDir(v dirVal) string {
	return fmt.Sprintf("{ResumeKey:%s FileAttributes:%02x LastWriteTime:%016x LastWriteDate:%+v FileSize:%08x FileName:%q}", showKey(v.Key), v.Attr, v.Ticks, v.Date, v.Size, v.Name)
}

func eqDir(a, b dirVal) bool {
	// the property demands name equality modulo space padding only
	return a.Key == b.Key && a.Attr == b.Attr && a.Ticks == b.Ticks && a.Date == b.Date && a.Size == b.Size &&
		bytes.Equal(ref.TrimPad(a.Name), ref.TrimPad(b.Name))
}

func dirInfoSpec() *spec[dirVal] {
	build := func(v dirVal, d *types.SMB_DIRECTORY_INFORMATION) {
		d.ResumeKey = libKey(v.Key)
		d.FileAttributes = v.Attr
		d.LastWriteTime = types.SMB_TIME{DwLowDateTime: uint32(v.Ticks), DwHighDateTime: uint32(v.Ticks >> 32)}
		d.LastWriteDate = types.SMB_DATE{Year: uint16(v.Date.Year), Month: uint8(v.Date.Month), Day: uint8(v.Date.Day)}
		d.FileSize = v.Size
	}
	return &spec[dirVal]{
		key:  "C06/SMB_DIRECTORY_INFORMATION",
		lib:  "types.SMB_DIRECTORY_INFORMATION",
		show: showDir,
		eq:   eqDir,
		ctors: []ctor[dirVal]{
			{name: "struct-literal", enc: func(v dirVal) ([]byte, error) {
				d := &types.SMB_DIRECTORY_INFORMATION{}
				build(v, d)
				d.FileName = *types.NewOEM_STRINGFromString(string(v.Name))
				return d.Marshal()
			}},
			{name: "NewSMB_DIRECTORY_INFORMATION+fields", enc: func(v dirVal) ([]byte, error) {
				d := types.NewSMB_DIRECTORY_INFORMATION()
				build(v, d)
				d.FileName.SetString(string(v.Name))
				return d.Marshal()
			}},
		},
		dec: func(b []byte, reused bool) (dirVal, int, error) {
			var d types.SMB_DIRECTORY_INFORMATION
			if reused {
				build(dirVal{Key: ref.ResumeKey{Reserved: 0x5a}, Attr: 0x5a, Ticks: 0x5a5a5a5a5a5a5a5a, Date: ref.Date{Year: 1999, Month: 9, Day: 9}, Size: 0x5a5a5a5a}, &d)
				d.FileName = *types.NewOEM_STRINGFromString("STALE.NAM")
			}
			n, err := d.Unmarshal(b)
			return dirVal{
				Key:   refKey(&d.ResumeKey),
				Attr:  d.FileAttributes,
				Ticks: uint64(d.LastWriteTime.DwHighDateTime)<<32 | uint64(d.LastWriteTime.DwLowDateTime),
				Date:  ref.Date{Year: int(d.LastWriteDate.Year), Month: int(d.LastWriteDate.Month), Day: int(d.LastWriteDate.Day)},
				Size:  d.FileSize,
				Name:  []byte(d.FileName.GetString()),
			}, n, err
		},
		// MS-CIFS 2.2.4.58.2: a 43-byte entry, ResumeKey(21) Attr(1) SMB_TIME(2) SMB_DATE(2) FileSize(4) FileName(13).
		// The library's LastWriteTime has no 16-bit form, so the comparison reads the library's bytes with the
		// MS-CIFS decoder and compares every field except the time.
		layout: func(v dirVal, lib []byte) (bool, string) {
			if len(lib) != 43 {
				return false, fmt.Sprintf("the entry has %d bytes, MS-CIFS 2.2.4.58.2 fixes 43 (ResumeKey 21, FileAttributes 1, LastWriteTime 2, LastWriteDate 2, FileSize 4, FileName 13)", len(lib))
			}
			d, _, err := ref.DecDirInfo(lib)
			ok := err == nil && d.Key == v.Key && d.Attributes == v.Attr && d.Date == ref.DateWord(v.Date) && d.Size == v.Size && bytes.Equal(ref.TrimPad(d.Name), ref.TrimPad(v.Name))
			return ok, fmt.Sprintf("read with the MS-CIFS layout: %+v", d)
		},
	}
}

func dirInfoAll(c *vf.Ctx) {
	sp := dirInfoSpec()
	var k1 ref.ResumeKey
	k1.Reserved = 0x81
	for i := range k1.ServerState {
		k1.ServerState[i] = byte(0xA0 + i)
	}
	k1.ClientState = [4]byte{0xC1, 0xC2, 0xC3, 0xC4}
	bases := []dirVal{
		{Name: []byte{}, Date: ref.Date{Year: 1980}},
		{Key: k1, Attr: 0xA5, Ticks: 0x0102030405060708, Date: ref.Date{Year: 2021, Month: 12, Day: 3}, Size: 0x01020304, Name: []byte("ABCDEFGH.TXT")},
	}
	var vals []dirVal
	for bi, base := range bases {
		vals = append(vals, base)
		// resume key
		for _, kb := range lattice(21, false, false) {
			v := base
			v.Key, _, _ = ref.DecResumeKeyRaw(kb)
			vals = append(vals, v)
		}
		// attributes
		for a := 0; a < 256; a++ {
			v := base
			v.Attr = byte(a)
			vals = append(vals, v)
		}
		// time
		for _, tb := range lattice(8, true, false) {
			v := base
			v.Ticks = ref.U64(tb)
			vals = append(vals, v)
		}
		// date: every word (on the second background in the quick tier, both in thorough)
		if bi == 1 || c.Thorough() {
			for w := 0; w < 65536; w++ {
				v := base
				v.Date = ref.DateFromWord(uint16(w))
				vals = append(vals, v)
			}
		}
		// size
		for _, s := range append(enum.Words(32), enum.Pow2(32)...) {
			v := base
			v.Size = uint32(s)
			vals = append(vals, v)
		}
		for _, sb := range lattice(4, false, false) {
			v := base
			v.Size = ref.U32(sb)
			vals = append(vals, v)
		}
		// names: every length 0..12 in several patterns (no NUL; spaces at either end included)
		for n := 0; n <= 12; n++ {
			for _, nm := range [][]byte{
				[]byte("ABCDEFGH.TXT")[:n], enum.Fill(n, 'A'), enum.Fill(n, 0xFF), enum.Fill(n, ' '), enum.Fill(n, 0x01),
				append(enum.Fill(n/2, ' '), enum.Fill(n-n/2, 'x')...), append(enum.Fill(n-n/2, 'x'), enum.Fill(n/2, ' ')...),
			} {
				v := base
				v.Name = nm
				vals = append(vals, v)
			}
		}
		// every position of a 12-byte name x every non-NUL value; every 1-byte name
		for p := 0; p < 12; p++ {
			for x := 1; x < 256; x++ {
				v := base
				v.Name = []byte("ABCDEFGH.TXT")
				v.Name[p] = byte(x)
				vals = append(vals, v)
			}
		}
		for x := 1; x < 256; x++ {
			v := base
			v.Name = []byte{byte(x)}
			vals = append(vals, v)
		}
		// OEM bytes that happen to form valid multi-byte UTF-8 (characters != bytes), at either end, every length
		for _, ch := range []string{"\u00c9", "\u20ac", "\U0001F600", "\u0416"} {
			for total := len(ch); total <= 12; total++ {
				v := base
				v.Name = append(enum.Fill(total-len(ch), 'a'), ch...)
				vals = append(vals, v)
				v.Name = append([]byte(ch), enum.Fill(total-len(ch), 'a')...)
				vals = append(vals, v)
			}
			for k := 1; k*len(ch) <= 12; k++ {
				v := base
				v.Name = []byte(strings.Repeat(ch, k))
				vals = append(vals, v)
			}
		}
	}
	var decodes int64
	size, head := captureStdout(c, func() {
		parRun(c, len(vals), func(t *tally, i int) {
			exercise(c, t, sp, vals[i])
			atomic.AddInt64(&decodes, int64(len(suffixes)+1))
		})
	})
	stdoutObligation(c, "C06/SMB_DIRECTORY_INFORMATION/unmarshal-writes-nothing-to-stdout", "types.SMB_DIRECTORY_INFORMATION.Unmarshal", decodes, size, head)
	c.Sample("SMB_DIRECTORY_INFORMATION", map[string]any{"entries": len(vals), "example": showDir(bases[1])})
}

var _ = vf.Hex
