package main

import (
	"fmt"

	"github.com/TheManticoreProject/Manticore/network/smb/smb_v10/message/commands/andx"
	"github.com/TheManticoreProject/Manticore/network/smb/smb_v10/message/commands/codes"
	"github.com/TheManticoreProject/Manticore/network/smb/smb_v10/spnego/ntlm/version"
	"github.com/TheManticoreProject/Manticore/network/smb/smb_v10/types"
	"github.com/TheManticoreProject/Manticore/windows/ms_dtyp/common/data_structures"

	"verif/enum"
	ref "verif/ref/refsmbtypes"
	"verif/vf"
)

func show[V any](v V) string { return fmt.Sprintf("%+v", v) }

// ---------------------------------------------------------------- SMB_DATE: all 65536 packed words, both directions

func datesAll(c *vf.Ctx) {
	sp := &spec[ref.Date]{
		key:  "C06/SMB_DATE",
		lib:  "types.SMB_DATE",
		show: show[ref.Date],
		eq:   func(a, b ref.Date) bool { return a == b },
		ctors: []ctor[ref.Date]{
			{name: "struct-literal", enc: func(v ref.Date) ([]byte, error) {
				d := &types.SMB_DATE{Year: uint16(v.Year), Month: uint8(v.Month), Day: uint8(v.Day)}
				return d.Marshal()
			}},
			{name: "NewSMB_DATEFromDate", enc: func(v ref.Date) ([]byte, error) {
				return types.NewSMB_DATEFromDate(v.Year, v.Month, v.Day).Marshal()
			}},
			{name: "NewSMB_DATE+fields", enc: func(v ref.Date) ([]byte, error) {
				d := types.NewSMB_DATE()
				d.Year, d.Month, d.Day = uint16(v.Year), uint8(v.Month), uint8(v.Day)
				return d.Marshal()
			}},
		},
		dec: func(b []byte, reused bool) (ref.Date, int, error) {
			var d types.SMB_DATE
			if reused {
				d = types.SMB_DATE{Year: 1999, Month: 9, Day: 9}
			}
			n, err := d.Unmarshal(b)
			return ref.Date{Year: int(d.Year), Month: int(d.Month), Day: int(d.Day)}, n, err
		},
		refEnc: func(v ref.Date) ([]byte, bool) { return ref.PutU16(ref.DateWord(v)), v.InDomain() },
	}
	// fields -> word: the whole representable field domain, enumerated by field (128 x 16 x 32)
	parRun(c, 128*16*32, func(t *tally, i int) {
		v := ref.Date{Year: 1980 + i/512, Month: i / 32 % 16, Day: i % 32}
		exercise(c, t, sp, v)
	})
	// word -> fields -> word: every 16-bit word
	parRun(c, 65536, func(t *tally, w int) {
		b := []byte{byte(w), byte(w >> 8)}
		exerciseBytes(c, t, sp, b)
		// and the decoded fields are the ones MS-CIFS 2.2.1.4.1 assigns to that word
		got, _, err := sp.dec(b, false)
		want := ref.DateFromWord(uint16(w))
		t.check("C06/SMB_DATE/word-decodes-to-ms-cifs-fields", err == nil && got == want, func() string {
			return fmt.Sprintf("types.SMB_DATE.Unmarshal(%02x %02x) = %+v err=%v, MS-CIFS fields of word 0x%04x are %+v", b[0], b[1], got, err, w, want)
		})
	})
	c.Sample("SMB_DATE", map[string]any{"words": 65536, "field_triples": 65536, "example": "2021-12-03 <-> 83 53"})
}

// ---------------------------------------------------------------- SMB_NMPIPE_STATUS: all 65536 words, both directions

func pipeStatusAll(c *vf.Ctx) {
	sp := &spec[ref.PipeStatus]{
		key:  "C06/SMB_NMPIPE_STATUS",
		lib:  "types.SMB_NMPIPE_STATUS",
		show: show[ref.PipeStatus],
		eq:   func(a, b ref.PipeStatus) bool { return a == b },
		ctors: []ctor[ref.PipeStatus]{
			{name: "struct-literal", enc: func(v ref.PipeStatus) ([]byte, error) {
				return types.SMB_NMPIPE_STATUS{ICount: v.ICount, Flags: v.Flags}.Marshal()
			}},
			{name: "SetICount+flags", enc: func(v ref.PipeStatus) ([]byte, error) {
				s := types.SMB_NMPIPE_STATUS{Flags: v.Flags}
				s.SetICount(v.ICount)
				s.SetNonBlockingStatus(v.Flags&0x80 != 0)
				return s.Marshal()
			}},
		},
		dec: func(b []byte, reused bool) (ref.PipeStatus, int, error) {
			var s types.SMB_NMPIPE_STATUS
			if reused {
				s = types.SMB_NMPIPE_STATUS{ICount: 0x5a, Flags: 0xa5}
			}
			n, err := s.Unmarshal(b)
			return ref.PipeStatus{ICount: s.ICount, Flags: s.Flags}, n, err
		},
		refEnc: func(v ref.PipeStatus) ([]byte, bool) { return ref.PutU16(ref.PipeStatusWord(v)), true },
	}
	parRun(c, 65536, func(t *tally, i int) {
		exercise(c, t, sp, ref.PipeStatus{ICount: byte(i), Flags: byte(i >> 8)})
	})
	parRun(c, 65536, func(t *tally, w int) {
		exerciseBytes(c, t, sp, []byte{byte(w), byte(w >> 8)})
	})
	c.Sample("SMB_NMPIPE_STATUS", map[string]any{"words": 65536})
}

// ---------------------------------------------------------------- SMB_FILE_ATTRIBUTES: all 65536 words

func fileAttributesAll(c *vf.Ctx) {
	sp := &spec[uint16]{
		key:  "C06/SMB_FILE_ATTRIBUTES",
		lib:  "types.SMB_FILE_ATTRIBUTES",
		show: func(v uint16) string { return fmt.Sprintf("{Attributes:0x%04x}", v) },
		eq:   func(a, b uint16) bool { return a == b },
		ctors: []ctor[uint16]{
			{name: "struct-literal", enc: func(v uint16) ([]byte, error) {
				a := &types.SMB_FILE_ATTRIBUTES{Attributes: v}
				return a.Marshal()
			}},
			{name: "SetAttributes", enc: func(v uint16) ([]byte, error) {
				a := &types.SMB_FILE_ATTRIBUTES{}
				a.SetAttributes(v)
				return a.Marshal()
			}},
		},
		dec: func(b []byte, reused bool) (uint16, int, error) {
			var a types.SMB_FILE_ATTRIBUTES
			if reused {
				a.Attributes = 0x5aa5
			}
			n, err := a.Unmarshal(b)
			return a.GetAttributes(), n, err
		},
		refEnc: func(v uint16) ([]byte, bool) { return ref.EncFileAttributes(v), true },
	}
	parRun(c, 65536, func(t *tally, i int) { exercise(c, t, sp, uint16(i)) })
	parRun(c, 65536, func(t *tally, w int) { exerciseBytes(c, t, sp, []byte{byte(w), byte(w >> 8)}) })
	c.Sample("SMB_FILE_ATTRIBUTES", map[string]any{"words": 65536})
}

// ---------------------------------------------------------------- FILETIME (= the library's SMB_TIME alias)

func filetimeAll(c *vf.Ctx) {
	sp := &spec[uint64]{
		key: "C06/FILETIME",
		lib: "data_structures.FILETIME",
		show: func(v uint64) string {
			return fmt.Sprintf("{DwLowDateTime:0x%08x DwHighDateTime:0x%08x}", uint32(v), uint32(v>>32))
		},
		eq: func(a, b uint64) bool { return a == b },
		ctors: []ctor[uint64]{
			{name: "struct-literal", enc: func(v uint64) ([]byte, error) {
				ft := &data_structures.FILETIME{DwLowDateTime: uint32(v), DwHighDateTime: uint32(v >> 32)}
				return ft.Marshal()
			}},
			{name: "types.SMB_TIME-alias", enc: func(v uint64) ([]byte, error) {
				ft := &types.SMB_TIME{DwLowDateTime: uint32(v), DwHighDateTime: uint32(v >> 32)}
				return ft.Marshal()
			}},
		},
		dec: func(b []byte, reused bool) (uint64, int, error) {
			var ft data_structures.FILETIME
			if reused {
				ft = data_structures.FILETIME{DwLowDateTime: 0x5a5a5a5a, DwHighDateTime: 0xa5a5a5a5}
			}
			n, err := ft.Unmarshal(b)
			return uint64(ft.DwHighDateTime)<<32 | uint64(ft.DwLowDateTime), n, err
		},
		refEnc: func(v uint64) ([]byte, bool) { return ref.EncFiletime(v), true },
	}
	seen := map[uint64]bool{}
	var vals []uint64
	add := func(v uint64) {
		if !seen[v] {
			seen[v] = true
			vals = append(vals, v)
		}
	}
	for _, v := range enum.Words(64) {
		add(v)
	}
	for _, v := range enum.Pow2(64) {
		add(v)
	}
	for _, v := range enum.ByteDistinct(8) {
		add(v)
	}
	for _, b := range lattice(8, false, false) {
		add(ref.U64(b))
	}
	add(116444736000000000) // Unix epoch
	parRun(c, len(vals), func(t *tally, i int) {
		exercise(c, t, sp, vals[i])
		exerciseBytes(c, t, sp, ref.PutU64(vals[i]))
	})
	c.Sample("FILETIME", map[string]any{"values": len(vals), "lattice": "Words(64) ∪ Pow2(64) ∪ byte positions x 256 values on 00/FF"})
}

// ---------------------------------------------------------------- LOCKING_ANDX_RANGE32 / RANGE64

func range32All(c *vf.Ctx) {
	sp := &spec[ref.Range32]{
		key: "C06/LOCKING_ANDX_RANGE32",
		lib: "types.LOCKING_ANDX_RANGE32",
		show: func(v ref.Range32) string {
			return fmt.Sprintf("{PID:0x%04x ByteOffset:0x%08x LengthInBytes:0x%08x}", v.PID, v.Offset, v.Length)
		},
		eq: func(a, b ref.Range32) bool { return a == b },
		ctors: []ctor[ref.Range32]{{name: "struct-literal", enc: func(v ref.Range32) ([]byte, error) {
			l := &types.LOCKING_ANDX_RANGE32{PID: v.PID, ByteOffset: v.Offset, LengthInBytes: v.Length}
			return l.Marshal()
		}}},
		dec: func(b []byte, reused bool) (ref.Range32, int, error) {
			var l types.LOCKING_ANDX_RANGE32
			if reused {
				l = types.LOCKING_ANDX_RANGE32{PID: 0x5a5a, ByteOffset: 0xa5a5a5a5, LengthInBytes: 0x5a5a5a5a}
			}
			n, err := l.Unmarshal(b)
			return ref.Range32{PID: l.PID, Offset: l.ByteOffset, Length: l.LengthInBytes}, n, err
		},
		refEnc: func(v ref.Range32) ([]byte, bool) { return ref.EncRange32(v), true },
	}
	bufs := lattice(10, true, true)
	parRun(c, len(bufs), func(t *tally, i int) {
		v, _, _ := ref.DecRange32(bufs[i])
		exercise(c, t, sp, v)
		exerciseBytes(c, t, sp, bufs[i])
	})
	c.Sample("LOCKING_ANDX_RANGE32", map[string]any{"buffers": len(bufs)})
}

func range64All(c *vf.Ctx) {
	sp := &spec[ref.Range64]{
		key:  "C06/LOCKING_ANDX_RANGE64",
		lib:  "types.LOCKING_ANDX_RANGE64",
		show: show[ref.Range64],
		eq:   func(a, b ref.Range64) bool { return a == b },
		ctors: []ctor[ref.Range64]{{name: "struct-literal", enc: func(v ref.Range64) ([]byte, error) {
			l := &types.LOCKING_ANDX_RANGE64{PID: v.PID, Pad: v.Pad, ByteOffsetHigh: v.OffsetHigh, ByteOffsetLow: v.OffsetLow, LengthInBytesHigh: v.LengthHigh, LengthInBytesLow: v.LenLow}
			return l.Marshal()
		}}},
		dec: func(b []byte, reused bool) (ref.Range64, int, error) {
			var l types.LOCKING_ANDX_RANGE64
			if reused {
				l = types.LOCKING_ANDX_RANGE64{PID: 0x5a5a, Pad: 0xa5a5, ByteOffsetHigh: 1, ByteOffsetLow: 2, LengthInBytesHigh: 3, LengthInBytesLow: 4}
			}
			n, err := l.Unmarshal(b)
			return ref.Range64{PID: l.PID, Pad: l.Pad, OffsetHigh: l.ByteOffsetHigh, OffsetLow: l.ByteOffsetLow, LengthHigh: l.LengthInBytesHigh, LenLow: l.LengthInBytesLow}, n, err
		},
		refEnc: func(v ref.Range64) ([]byte, bool) { return ref.EncRange64(v), true },
	}
	bufs := lattice(20, true, c.Thorough())
	parRun(c, len(bufs), func(t *tally, i int) {
		v, _, _ := ref.DecRange64(bufs[i])
		exercise(c, t, sp, v)
		exerciseBytes(c, t, sp, bufs[i])
	})
	c.Sample("LOCKING_ANDX_RANGE64", map[string]any{"buffers": len(bufs)})
}

// ---------------------------------------------------------------- AndX

func andxAll(c *vf.Ctx) {
	sp := &spec[ref.AndX]{
		key: "C06/AndX",
		lib: "andx.AndX",
		show: func(v ref.AndX) string {
			return fmt.Sprintf("{AndXCommand:0x%02x AndXReserved:0x%02x AndXOffset:0x%04x}", v.Command, v.Reserved, v.Offset)
		},
		eq: func(a, b ref.AndX) bool { return a == b },
		ctors: []ctor[ref.AndX]{
			{name: "struct-literal", enc: func(v ref.AndX) ([]byte, error) {
				a := &andx.AndX{AndXCommand: codes.CommandCode(v.Command), AndXReserved: v.Reserved, AndXOffset: v.Offset}
				return a.Marshal()
			}},
			{name: "NewAndX+fields", enc: func(v ref.AndX) ([]byte, error) {
				a := andx.NewAndX()
				a.AndXCommand, a.AndXReserved, a.AndXOffset = codes.CommandCode(v.Command), v.Reserved, v.Offset
				return a.Marshal()
			}},
		},
		dec: func(b []byte, reused bool) (ref.AndX, int, error) {
			var a andx.AndX
			if reused {
				a = andx.AndX{AndXCommand: 0x5a, AndXReserved: 0xa5, AndXOffset: 0x5aa5}
			}
			n, err := a.Unmarshal(b)
			// the accessors are what the message layer reads
			return ref.AndX{Command: byte(a.GetCommandCode()), Reserved: a.AndXReserved, Offset: a.GetOffset()}, n, err
		},
		refEnc: func(v ref.AndX) ([]byte, bool) { return ref.EncAndX(v), true },
	}
	// all (command, reserved) pairs on three offsets; all offsets on three (command, reserved) pairs; 32-bit lattice
	var vals []ref.AndX
	for i := 0; i < 65536; i++ {
		for _, off := range []uint16{0, 0x0102, 0xFFFF} {
			vals = append(vals, ref.AndX{Command: byte(i), Reserved: byte(i >> 8), Offset: off})
		}
	}
	for i := 0; i < 65536; i++ {
		for _, cr := range [][2]byte{{0xFF, 0}, {0x75, 0}, {0x01, 0xFE}} {
			vals = append(vals, ref.AndX{Command: cr[0], Reserved: cr[1], Offset: uint16(i)})
		}
	}
	bufs := lattice(4, true, true)
	for _, b := range bufs {
		v, _, _ := ref.DecAndX(b)
		vals = append(vals, v)
	}
	parRun(c, len(vals), func(t *tally, i int) { exercise(c, t, sp, vals[i]) })
	// bytes -> fields -> bytes: every 4-byte buffer of the lattice and every (b0,b1) x (b2,b3) slice above, as raw bytes
	parRun(c, len(bufs), func(t *tally, i int) { exerciseBytes(c, t, sp, bufs[i]) })
	parRun(c, 65536, func(t *tally, i int) {
		exerciseBytes(c, t, sp, []byte{byte(i), byte(i >> 8), 0x34, 0x12})
		exerciseBytes(c, t, sp, []byte{0xFF, 0x00, byte(i), byte(i >> 8)})
	})
	c.Sample("AndX", map[string]any{"values": len(vals)})
}

// ---------------------------------------------------------------- NTLM VERSION

func versionAll(c *vf.Ctx) {
	sp := &spec[ref.Version]{
		key:  "C06/ntlm.Version",
		lib:  "version.Version",
		show: show[ref.Version],
		eq:   func(a, b ref.Version) bool { return a == b },
		ctors: []ctor[ref.Version]{
			{name: "struct-literal", enc: func(v ref.Version) ([]byte, error) {
				return version.Version{ProductMajorVersion: v.Major, ProductMinorVersion: v.Minor, ProductBuild: v.Build, Reserved: v.Reserved, NTLMRevision: v.Revision}.Marshal()
			}},
			{name: "NewVersion", applies: func(v ref.Version) bool { return v.Reserved == [3]byte{} }, enc: func(v ref.Version) ([]byte, error) {
				return version.NewVersion(v.Major, v.Minor, v.Build, v.Revision).Marshal()
			}},
		},
		dec: func(b []byte, reused bool) (ref.Version, int, error) {
			var v version.Version
			if reused {
				v = version.DefaultVersion()
				v.Reserved = [3]byte{9, 9, 9}
			}
			n, err := v.Unmarshal(b)
			return ref.Version{Major: v.ProductMajorVersion, Minor: v.ProductMinorVersion, Build: v.ProductBuild, Reserved: v.Reserved, Revision: v.NTLMRevision}, n, err
		},
		refEnc: func(v ref.Version) ([]byte, bool) { return ref.EncVersion(v), true },
	}
	bufs := lattice(8, true, true)
	// plus every (major, minor) with reserved zero, and every build
	for i := 0; i < 65536; i++ {
		bufs = append(bufs, []byte{byte(i), byte(i >> 8), 0x28, 0x0a, 0, 0, 0, 15}, []byte{10, 0, byte(i), byte(i >> 8), 0, 0, 0, 15})
	}
	parRun(c, len(bufs), func(t *tally, i int) {
		v, _, _ := ref.DecVersion(bufs[i])
		exercise(c, t, sp, v)
		exerciseBytes(c, t, sp, bufs[i])
	})
	c.Sample("ntlm.Version", map[string]any{"buffers": len(bufs)})
}
