package main

import (
	"bytes"
	"fmt"

	"github.com/TheManticoreProject/Manticore/network/smb/smb_v10/types"

	"verif/enum"
	ref "verif/ref/refsmbtypes"
	"verif/vf"
)

// strVal is the field view of an SMB_STRING.
type strVal struct {
	Format  byte
	Length  uint16
	Payload []byte
}

func showStr(v strVal) string {
	return fmt.Sprintf("{BufferFormat:0x%02x Length:%d Buffer:%d bytes %s}", v.Format, v.Length, len(v.Payload), vf.HexS(v.Payload))
}

func eqStr(a, b strVal) bool {
	return a.Format == b.Format && a.Length == b.Length && bytes.Equal(a.Payload, b.Payload)
}

func cp(b []byte) []byte { return append([]byte{}, b...) }

func stringSpec(format byte) *spec[strVal] {
	return &spec[strVal]{
		key:  fmt.Sprintf("C06/SMB_STRING/format-0x%02x", format),
		lib:  "types.SMB_STRING",
		show: showStr,
		eq:   eqStr,
		ctors: []ctor[strVal]{
			{name: "struct-literal", enc: func(v strVal) ([]byte, error) {
				s := &types.SMB_STRING{BufferFormat: v.Format, Length: v.Length, Buffer: cp(v.Payload)}
				return s.Marshal()
			}},
			{name: "NewSMB_STRING+SetBufferFormat", enc: func(v strVal) ([]byte, error) {
				s := types.NewSMB_STRING(cp(v.Payload))
				s.SetBufferFormat(v.Format)
				return s.Marshal()
			}},
			{name: "SetBufferFormat+SetString", enc: func(v strVal) ([]byte, error) {
				s := &types.SMB_STRING{}
				s.SetBufferFormat(v.Format)
				if err := s.SetString(string(v.Payload)); err != nil {
					return nil, err
				}
				return s.Marshal()
			}},
		},
		dec: func(b []byte, reused bool) (strVal, int, error) {
			var s types.SMB_STRING
			if reused {
				s = types.SMB_STRING{BufferFormat: 0x77, Length: 4242, Buffer: []byte("stale-stale-stale-stale-stale-stale")}
			}
			n, err := s.Unmarshal(b)
			return strVal{s.BufferFormat, s.Length, s.Buffer}, n, err
		},
		refEnc: func(v strVal) ([]byte, bool) {
			e, err := ref.EncBuffer(v.Format, v.Payload)
			return e, err == nil
		},
	}
}

// nulTerminated: the formats whose MS-CIFS layout (and whose library name) is "null-terminated".
func nulTerminated(format byte) bool { return format == 2 || format == 3 || format == 4 }

// Shared read-only pattern buffers; payloads are prefixes of them (every construction path copies).
var (
	bufNoNul = func() []byte { // 01..FF repeating: every offset distinguishable, never NUL
		b := make([]byte, 65535)
		for i := range b {
			b[i] = byte(1 + i%255)
		}
		return b
	}()
	bufA       = enum.Fill(65535, 'A')
	bufFF      = enum.Fill(65535, 0xFF)
	bufCounter = enum.Counter(65535, 0) // contains NUL: length-prefixed formats only
	bufZero    = enum.Fill(65535, 0x00)
)

// stringLengths: quick 0..300, the neighbours of every power of two up to 2^15, and 65532..65535
// (the USHORT boundary); thorough every length 0..65535 for the first pattern (see stringPayloads).
func stringLengths(c *vf.Ctx) []int {
	ls := enum.Lengths(0, c.Pick(300, 2100), 65532, 65533, 65534, 65535)
	for k := 9; k <= 15; k++ {
		ls = append(ls, 1<<uint(k)-1, 1<<uint(k), 1<<uint(k)+1)
	}
	return ls
}

// stringPayloads enumerates the payload set for one format.
func stringPayloads(c *vf.Ctx, format byte) [][]byte {
	var out [][]byte
	for _, n := range stringLengths(c) {
		out = append(out, bufNoNul[:n], bufA[:n], bufFF[:n])
		if !nulTerminated(format) {
			out = append(out, bufCounter[:n], bufZero[:n])
		}
	}
	if c.Thorough() {
		// the property's whole length range, one content pattern
		for n := 0; n <= 65535; n++ {
			out = append(out, bufNoNul[:n])
		}
	}
	alpha := []byte{0x01, ' ', 'A', 0x7f, 0x80, 0xff}
	if !nulTerminated(format) {
		alpha = append([]byte{0x00}, alpha...)
	}
	out = append(out, enum.ByteStrings(alpha, c.Pick(4, 5))...)
	lo := 1
	if !nulTerminated(format) {
		lo = 0
	}
	for a := lo; a < 256; a++ {
		out = append(out, []byte{byte(a)})
	}
	for a := lo; a < 256; a++ {
		for b := lo; b < 256; b++ {
			out = append(out, []byte{byte(a), byte(b)})
		}
	}
	return out
}

func stringsAll(c *vf.Ctx) {
	for _, format := range []byte{1, 2, 3, 4, 5} {
		sp := stringSpec(format)
		ps := stringPayloads(c, format)
		parRun(c, len(ps), func(t *tally, i int) {
			exercise(c, t, sp, strVal{format, uint16(len(ps[i])), ps[i]})
		})
		c.Sample("SMB_STRING", map[string]any{"format": format, "payloads": len(ps), "suffixes": len(suffixes), "example": showStr(strVal{format, uint16(len(ps[700])), ps[700]})})
	}
}

// ---------------------------------------------------------------- OEM_STRING

func oemSpec() *spec[strVal] {
	return &spec[strVal]{
		key:  "C06/OEM_STRING",
		lib:  "types.OEM_STRING",
		show: showStr,
		eq:   eqStr,
		ctors: []ctor[strVal]{
			{name: "NewOEM_STRINGFromString", enc: func(v strVal) ([]byte, error) {
				return types.NewOEM_STRINGFromString(string(v.Payload)).Marshal()
			}},
			{name: "NewOEM_STRING+SetString", enc: func(v strVal) ([]byte, error) {
				o := types.NewOEM_STRING()
				o.SetString(string(v.Payload))
				return o.Marshal()
			}},
			{name: "zero-value+SetString", enc: func(v strVal) ([]byte, error) {
				o := &types.OEM_STRING{}
				o.SetString(string(v.Payload))
				return o.Marshal()
			}},
		},
		dec: func(b []byte, reused bool) (strVal, int, error) {
			var o types.OEM_STRING
			if reused {
				o = *types.NewOEM_STRINGFromString("stale-stale-stale-stale-stale-stale")
			}
			n, err := o.Unmarshal(b)
			// GetString is the accessor the rest of the library reads the value with
			return strVal{o.BufferFormat, o.Length, []byte(o.GetString())}, n, err
		},
		refEnc: func(v strVal) ([]byte, bool) {
			e, err := ref.EncBuffer(ref.FmtSMBString, v.Payload)
			return e, err == nil
		},
	}
}

func oemStrings(c *vf.Ctx) {
	sp := oemSpec()
	ps := stringPayloads(c, 4)
	parRun(c, len(ps), func(t *tally, i int) {
		exercise(c, t, sp, strVal{4, uint16(len(ps[i])), ps[i]})
	})
	c.Sample("OEM_STRING", map[string]any{"payloads": len(ps)})
}
