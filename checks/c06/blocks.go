package main

import (
	"bytes"
	"fmt"

	"github.com/TheManticoreProject/Manticore/network/smb/smb_v10/message/data"
	"github.com/TheManticoreProject/Manticore/network/smb/smb_v10/message/parameters"

	"verif/enum"
	ref "verif/ref/refsmbtypes"
	"verif/vf"
)

// ---------------------------------------------------------------- parameters.Parameters

func showWords(w []uint16) string {
	if len(w) <= 12 {
		return fmt.Sprintf("{%d words %04x}", len(w), w)
	}
	return fmt.Sprintf("{%d words %04x … %04x}", len(w), w[:6], w[len(w)-3:])
}

func eqWords(a, b []uint16) bool {
	if len(a) != len(b) {
		return false
	}
	for i := range a {
		if a[i] != b[i] {
			return false
		}
	}
	return true
}

func parametersAll(c *vf.Ctx) {
	sp := &spec[[]uint16]{
		key:  "C06/Parameters",
		lib:  "parameters.Parameters",
		show: showWords,
		eq:   eqWords,
		ctors: []ctor[[]uint16]{
			{name: "struct-literal", enc: func(v []uint16) ([]byte, error) {
				p := &parameters.Parameters{WordCount: uint8(len(v)), Words: append([]uint16{}, v...)}
				return p.Marshal()
			}},
			{name: "NewParameters+AddWord", enc: func(v []uint16) ([]byte, error) {
				p := parameters.NewParameters()
				for _, w := range v {
					p.AddWord(w)
				}
				return p.Marshal()
			}},
			{name: "NewParameters+AddWordsFromBytesStream(GetBytesStream)", enc: func(v []uint16) ([]byte, error) {
				src := &parameters.Parameters{WordCount: uint8(len(v)), Words: append([]uint16{}, v...)}
				p := parameters.NewParameters()
				p.AddWordsFromBytesStream(src.GetBytesStream())
				return p.Marshal()
			}},
		},
		dec: func(b []byte, reused bool) ([]uint16, int, error) {
			var p parameters.Parameters
			if reused {
				p = parameters.Parameters{WordCount: 3, Words: []uint16{0x5a5a, 0xa5a5, 0x1111}}
			}
			n, err := p.Unmarshal(b)
			if err == nil && int(p.WordCount) != len(p.Words) {
				return p.Words, n, fmt.Errorf("decoded WordCount=%d but len(Words)=%d", p.WordCount, len(p.Words))
			}
			return p.Words, n, err
		},
		// MS-CIFS 2.2.3.2: WordCount(1) then WordCount*2 bytes. Two separate statements are checked:
		// count byte and total size (layout-equals-ms-cifs), and the byte order of a word (own key).
		layout: func(v []uint16, lib []byte) (bool, string) {
			ok := len(lib) == 1+2*len(v) && int(lib[0]) == len(v)
			return ok, fmt.Sprintf("MS-CIFS 2.2.3.2 wants WordCount=%d followed by %d bytes", len(v), 2*len(v))
		},
	}
	var vals [][]uint16
	for n := 0; n <= 255; n++ {
		ctr := make([]uint16, n) // every word distinct, both bytes of every word distinct
		zero := make([]uint16, n)
		ones := make([]uint16, n)
		alt := make([]uint16, n)
		for i := range ctr {
			ctr[i] = uint16(i+1)<<8 | uint16(255-i)
			ones[i] = 0xFFFF
			alt[i] = 0x00FF
			if i%2 == 1 {
				alt[i] = 0xFF00
			}
		}
		vals = append(vals, ctr, zero, ones, alt)
	}
	for w := 0; w < 65536; w++ {
		vals = append(vals, []uint16{uint16(w)})
	}
	for _, w := range enum.Words(16) { // one marked word at each end of a full block
		a := make([]uint16, 255)
		a[0] = uint16(w)
		b := make([]uint16, 255)
		b[254] = uint16(w)
		vals = append(vals, a, b)
	}
	parRun(c, len(vals), func(t *tally, i int) {
		v := vals[i]
		exercise(c, t, sp, v)
		// word byte order, as its own obligation
		p := &parameters.Parameters{WordCount: uint8(len(v)), Words: append([]uint16{}, v...)}
		if enc, err := p.Marshal(); err == nil {
			want, _ := ref.EncParameters(v)
			t.check("C06/Parameters/layout-word-byte-order-little-endian", bytes.Equal(enc, want), func() string {
				return fmt.Sprintf("parameters.Parameters %s: Marshal()=%s, MS-CIFS (little-endian USHORT words)=%s", showWords(v), vf.HexS(enc), vf.HexS(want))
			})
		}
		// the byte-stream view the command layer uses: stream -> words -> stream is the identity
		src := &parameters.Parameters{WordCount: uint8(len(v)), Words: append([]uint16{}, v...)}
		bs := src.GetBytesStream()
		q := parameters.NewParameters()
		q.AddWordsFromBytesStream(bs)
		t.check("C06/Parameters/bytes-stream/words-stream-words-identity", eqWords(q.Words, v) && int(q.WordCount) == len(v) && bytes.Equal(q.GetBytes(), bs) && int(q.Size()) == len(v), func() string {
			return fmt.Sprintf("Parameters %s: GetBytesStream()=%s; AddWordsFromBytesStream(that) gives WordCount=%d Words=%s", showWords(v), vf.HexS(bs), q.WordCount, showWords(q.Words))
		})
		if enc, err := q.Marshal(); err == nil {
			t.check("C06/Parameters/bytes-stream/marshal-is-count-then-stream", len(enc) == 1+len(bs) && int(enc[0]) == len(v) && bytes.Equal(enc[1:], bs), func() string {
				return fmt.Sprintf("Parameters built from byte stream %s: Marshal()=%s", vf.HexS(bs), vf.HexS(enc))
			})
		}
	})
	// bytes -> fields -> bytes for whole blocks of every word count
	parRun(c, 256, func(t *tally, n int) {
		for _, st := range []byte{0x01, 0x80, 0xFF} {
			b := append([]byte{byte(n)}, enum.Counter(2*n, st)...)
			exerciseBytes(c, t, sp, b)
		}
	})
	c.Sample("Parameters", map[string]any{"word_counts": "0..255", "values": len(vals)})
}

// ---------------------------------------------------------------- data.Data

func showBytes(b []byte) string { return fmt.Sprintf("{%d bytes %s}", len(b), vf.HexS(b)) }

func dataAll(c *vf.Ctx) {
	sp := &spec[[]byte]{
		key:  "C06/Data",
		lib:  "data.Data",
		show: showBytes,
		eq:   func(a, b []byte) bool { return bytes.Equal(a, b) },
		ctors: []ctor[[]byte]{
			{name: "struct-literal", enc: func(v []byte) ([]byte, error) {
				d := &data.Data{ByteCount: uint16(len(v)), Bytes: cp(v)}
				return d.Marshal()
			}},
			{name: "NewData+Add", enc: func(v []byte) ([]byte, error) {
				d := data.NewData()
				d.Add(cp(v))
				return d.Marshal()
			}},
			{name: "NewData+Add-in-two-pieces", enc: func(v []byte) ([]byte, error) {
				d := data.NewData()
				d.Add(cp(v[:len(v)/2]))
				d.Add(cp(v[len(v)/2:]))
				return d.Marshal()
			}},
			{name: "NewData+SetData", enc: func(v []byte) ([]byte, error) {
				d := data.NewData()
				d.SetData(cp(v))
				return d.Marshal()
			}},
		},
		dec: func(b []byte, reused bool) ([]byte, int, error) {
			var d data.Data
			if reused {
				d = data.Data{ByteCount: 5, Bytes: []byte("stale")}
			}
			n, err := d.Unmarshal(b)
			if err == nil && (int(d.ByteCount) != len(d.Bytes) || int(d.Size()) != len(d.Bytes) || !bytes.Equal(d.GetBytes(), d.Bytes)) {
				return d.Bytes, n, fmt.Errorf("decoded ByteCount=%d Size()=%d but len(Bytes)=%d", d.ByteCount, d.Size(), len(d.Bytes))
			}
			return cp(d.Bytes), n, err
		},
		refEnc: func(v []byte) ([]byte, bool) {
			e, err := ref.EncData(v)
			return e, err == nil
		},
	}
	var vals [][]byte
	lengths := enum.Lengths(0, c.Pick(300, 2100), 65534, 65535)
	for k := 9; k <= 15; k++ {
		lengths = append(lengths, 1<<uint(k)-1, 1<<uint(k), 1<<uint(k)+1)
	}
	for _, n := range lengths {
		vals = append(vals, bufNoNul[:n], bufZero[:n], bufFF[:n], bufCounter[:n])
	}
	if c.Thorough() {
		// every byte count the USHORT can express, one content pattern
		for n := 0; n <= 65535; n++ {
			vals = append(vals, bufCounter[:n])
		}
	}
	for a := 0; a < 256; a++ {
		vals = append(vals, []byte{byte(a)})
	}
	for a := 0; a < 65536; a++ {
		vals = append(vals, []byte{byte(a), byte(a >> 8)})
	}
	parRun(c, len(vals), func(t *tally, i int) {
		exercise(c, t, sp, vals[i])
		e, _ := ref.EncData(vals[i])
		exerciseBytes(c, t, sp, e)
	})
	c.Sample("Data", map[string]any{"values": len(vals), "byte_counts": "0..300 ∪ {65534,65535}"})
}
