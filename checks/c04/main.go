// C04 — every SMB1 command structure round-trips all of its fields through the wire.
//
// Universe: the structures reachable from commands.CreateRequestCommand / CreateResponseCommand for all
// 256 codes (discovered at run time). Fields, widths and the parameter/data split come from reflection and
// from the struct declarations; consistent assignments come from verif/ref/refsmb (relation table from
// MS-CIFS). Enumeration: E1 (mc/explore), deviation-bounded from two bases.
//
// Obligations (keys):
//
//	C04/<Cmd>/marshal                       a consistent assignment is encoded without error or panic
//	C04/<Cmd>/unmarshal                     the library decodes its own encoding without error or panic
//	C04/<Cmd>/field:<F>/roundtrip           decode(encode(x)).F == x.F in a fresh structure
//	C04/<Cmd>/field:andx/roundtrip          (AndX commands) the AndX block comes back
//	C04/<Cmd>/field:<F>/roundtrip-modulo-andx   evaluated only where the strict obligation fails on an AndX
//	                                        command: same, with the AndX words removed from the encoding
//	C04/<Cmd>/field:<F>/locality            changing fixed-width F alone changes bytes only inside F's slot
//	C04/<Cmd>/reencode                      Marshal of the decoded structure gives the original bytes
//	C04/<Cmd>/reencode-fresh-object         evaluated only where reencode fails: same, after copying the
//	                                        decoded fields into a fresh structure (empty accumulators)
//	C04/<Cmd>/width/params                  2*WordCount = sum of the declared widths (+4 for AndX)
//	C04/<Cmd>/width/data                    ByteCount = bytes present = sum of the widths of the data fields
package main

import (
	"bytes"
	_ "embed"
	"encoding/json"
	"fmt"
	"os"
	"reflect"
	"sort"
	"strings"
	"sync"
	"sync/atomic"

	"github.com/TheManticoreProject/Manticore/network/smb/smb_v10/message/commands/andx"
	"github.com/TheManticoreProject/Manticore/network/smb/smb_v10/message/commands/command_interface"

	"verif/checks/smbgen"
	"verif/mc/explore"
	"verif/ref/refsmb"
	"verif/vf"
)

func main() { vf.Main("C04", "exploration", run) }

func run(c *vf.Ctx) {
	if os.Getenv("C04_DUMP_CLASSES") != "" {
		dumpClasses = map[string]map[string]bool{}
	}
	restore := smbgen.Silence()
	defer restore()
	u := smbgen.Setup(c, restore)
	smbgen.Cheap = c.Pick(4, 2) // quick: bound 3 over the first four values of every lattice; thorough: bound 4 over the first two
	c.Rule("for each of the command structures reachable from the two factories: every assignment within 2 (thorough 3) deviations of the all-default " +
		"base and within 1 (thorough 2) of the all-non-default base; a deviation sets one free field to one value of its lattice (integers: byte-distinct " +
		"values of the width and all-ones; byte strings: lengths 1,2,3,4,255,256; strings in the buffer format MS-CIFS prescribes; dates, times, arrays, " +
		"lock ranges, directory entries, 1..4 dialects); values 3.. of a lattice cost two deviations; count/length/offset/pad fields are derived from the " +
		"buffers they describe. distinct = distinct (command, assignment) pairs that were encoded by the library")
	c.Assume("refsmb relation table (which count/offset field describes which buffer) is MS-CIFS; the parameter/data split is the one declared by the // Parameters and // Data markers of each struct")
	tally := smbgen.NewTally(c)
	var execs, points, rejected, outcomes int64
	var mu sync.Mutex
	var samples []map[string]any
	vf.Par(len(u.Cmds), func(i int) {
		cmd := u.Cmds[i]
		w := &worker{c: c, t: tally, cmd: cmd, lat: cmd.Lattices(c.Thorough())}
		w.prepare()
		for _, full := range []bool{false, true} {
			bound := c.Pick(3, 4)
			if full {
				bound = c.Pick(2, 3)
			}
			st, err := smbgen.Enumerate(cmd, w.lat, full, bound, c.DeadlineExceeded, w.eval)
			if err != nil {
				smbgen.Fatalf(c, "explore %s: %v", cmd.Name, err)
			}
			atomic.AddInt64(&execs, st.Executions)
			atomic.AddInt64(&points, st.ChoicePoints)
			atomic.AddInt64(&outcomes, int64(st.DistinctOutcomes))
			if st.CapHit {
				c.Cap("deadline reached while exploring " + cmd.Name)
			}
		}
		w.andxSlots()
		w.fullDataBlock()
		w.assignAfterDecode()
		w.libraryOffsetConvention(c)
		w.libraryPadConvention()
		atomic.AddInt64(&rejected, w.rejected)
		mu.Lock()
		if w.sample != nil && len(samples) < 200 {
			samples = append(samples, w.sample)
		}
		mu.Unlock()
	})
	for _, s := range samples {
		if n := s["cmd"].(string); n == "NegotiateResponse" || n == "TransactionRequest" || n == "CloseRequest" || n == "SessionSetupAndxRequest" {
			c.Sample("assignment", s)
		}
	}
	c.Set("executions", execs)
	c.Set("choice_points", points)
	c.Set("distinct_outcomes_sum_over_commands", outcomes)
	c.Set("assignments_rejected_as_inconsistent", rejected)
	c.Set("deviation_bound_completed", map[string]int{"zero_base": c.Pick(3, 4), "full_base": c.Pick(2, 3)})
	tally.Publish()
	if p := os.Getenv("C04_DUMP_CLASSES"); p != "" {
		writeDumpedClasses(p)
	}
}

// libraryOffsetConvention: the structures of the transaction family (and the raw/mpx reads and writes) carry
// offset fields. MS-CIFS counts them from the start of the SMB header; the library's decoders read them as the
// LENGTH OF THE PADDING in front of the buffer (a known finding, PADOFF: with MS-CIFS offsets nothing of these
// structures decodes, so the ordinary lattice sees only failures there and cannot notice a further one). Under
// the library's own convention (offset = length of the pad in front of the buffer) the structures do round-trip
// today, and that is what callers of this library rely on: the same lattice is run once more with the offsets
// set that way, under keys of their own (libconv/...), so the decoders of these structures are not a blind spot.
func (w *worker) libraryOffsetConvention(c *vf.Ctx) {
	cmd := w.cmd
	type pair struct{ off, pad *refsmb.Field }
	var pairs []pair
	for _, f := range cmd.Fields {
		if f.Rel == nil || f.Rel.Kind != refsmb.ROffset {
			continue
		}
		for _, p := range cmd.Fields {
			if p.Rel != nil && p.Rel.Kind == refsmb.RPad && p.Rel.Of == f.Rel.Of {
				pairs = append(pairs, pair{f, p})
			}
		}
	}
	if len(pairs) == 0 {
		return
	}
	// (the structures with ONE pad - raw / multiplexed reads and writes - take exactly one pad byte whatever the
	// offset says, known finding PAD1; what fails for that reason under this convention is listed in findings/C04.json too)
	conv := func(x command_interface.CommandInterface) {
		for _, p := range pairs {
			smbgen.Field(x, p.off).SetUint(uint64(smbgen.Field(x, p.pad).Len()))
		}
	}
	isPad := map[int]bool{}
	for _, p := range pairs {
		isPad[p.pad.Pos] = true
	}
	eval := func(a *refsmb.Assign, r *explore.Run) {
		// explicit pads are applied after the relations: under this convention a pad in front of an EMPTY buffer is
		// locatable too (the offset is its length), which the MS-CIFS reading of the relations refuses to build
		noPads := a
		for pos := range isPad {
			if a.Dev[pos] > 0 {
				noPads = noPads.With(pos, 0)
			}
		}
		build := func() (command_interface.CommandInterface, error) {
			x, err := noPads.Build()
			if err != nil {
				return nil, err
			}
			for pos := range isPad {
				if k := a.Dev[pos]; k > 0 {
					a.Lat[pos][k-1].Set(smbgen.Field(x, cmd.Fields[pos]))
				}
			}
			conv(x)
			return x, nil
		}
		x, err := build()
		if err != nil {
			return
		}
		want, _ := build()
		label := a.Label() + " [offsets = pad lengths]"
		w.c.Case([]byte(cmd.Name), []byte(label))
		b, merr, pan, _ := smbgen.Marshal(x)
		if r != nil {
			r.Observe(smbgen.Hash64(b)...)
		}
		if !w.check(w.key("libconv/marshal"), merr == nil && !pan, func() string {
			return fmt.Sprintf("%s{%s}.Marshal() fails: %v", cmd.Name, label, merr)
		}) {
			return
		}
		d := cmd.New()
		uerr, up, uwhere := smbgen.Unmarshal(d, b)
		if !w.check(w.key("libconv/unmarshal"), uerr == nil && !up, func() string {
			return fmt.Sprintf("%s.Unmarshal(%s) = %v (panic=%v %s); input = own Marshal of {%s}", cmd.Name, vf.HexS(b), uerr, up, uwhere, label)
		}) {
			return
		}
		mismatch := false
		for _, f := range cmd.Fields {
			wv, gv := smbgen.Field(want, f), smbgen.Field(d, f)
			if !w.check(w.key("libconv/field:"+f.Name+"/roundtrip"), cmd.FieldEqual(f, wv, gv), func() string {
				return fmt.Sprintf("%s{%s}: field %s = %s, after Marshal -> %s -> Unmarshal into a fresh structure it is %s", cmd.Name, label, f.Name, cmd.FieldString(f, wv), vf.HexS(b), cmd.FieldString(f, gv))
			}) {
				mismatch = true
			}
		}
		if !mismatch {
			fresh := cmd.New()
			copyFields(cmd, fresh, d)
			b3, e3, p3, _ := smbgen.Marshal(fresh)
			w.check(w.key("libconv/reencode-fresh-object"), e3 == nil && !p3 && bytes.Equal(b3, b), func() string {
				return fmt.Sprintf("%s{%s}: Marshal = %s; decoded fields copied into a fresh structure and marshalled = %s (%v)", cmd.Name, label, vf.HexS(b), vf.HexS(b3), e3)
			})
		}
	}
	for _, full := range []bool{false, true} {
		bound := 2
		if full {
			bound = 1
		}
		if _, err := smbgen.Enumerate(cmd, w.lat, full, bound, c.DeadlineExceeded, eval); err != nil {
			smbgen.Fatalf(c, "explore %s (library offset convention): %v", cmd.Name, err)
		}
	}
}

// libraryPadConvention: three AndX structures (both session setups, the tree connect request) carry a Pad that
// MS-CIFS emits only in front of Unicode strings; the reference model uses OEM strings and therefore never builds
// one. The decoder of SessionSetupAndxResponse takes exactly ONE pad byte whatever the strings are (known finding):
// with MS-CIFS inputs every field of its data block is a known mismatch, so a further defect in that decoder would
// be invisible. With a pad of exactly one byte - which is what the library itself and its callers send - the
// data block does come back today (the two request structures do not decode under this convention either: their
// decoders take no pad at all and shift the parameter words; they stay with the ordinary lattice): every field is checked again with Pad = one byte of each value a decoder
// could mistake for something else (0x00, a buffer-format byte 0x01..0x05, '/', '\', 0xFF), from the zero and
// the full base, each other free field deviated in turn, under keys of their own (libpad/...). What still fails
// there for the known reasons (the AndX words are not skipped) is listed in findings/C04.json per key.
func (w *worker) libraryPadConvention() {
	cmd := w.cmd
	var pad *refsmb.Field
	for _, f := range cmd.Fields {
		if f.Name == "Pad" && f.Rel != nil && f.Rel.Kind == refsmb.REmpty && f.Kind == refsmb.KBytes {
			pad = f
		}
	}
	if pad == nil || cmd.Name != "SessionSetupAndxResponse" {
		return
	}
	for _, full := range []bool{false, true} {
		a0 := cmd.Zero(w.lat)
		if full {
			a0 = cmd.FullAssign(w.lat)
		}
		var assigns []*refsmb.Assign
		assigns = append(assigns, a0)
		for _, f := range cmd.Fields {
			if !f.Free() || f == pad {
				continue
			}
			for k := 1; k <= len(w.lat[f.Pos]); k++ {
				assigns = append(assigns, a0.With(f.Pos, k))
			}
		}
		for _, a := range assigns {
			if a.Dev[pad.Pos] > 0 {
				continue
			}
			for _, pv := range []byte{0x00, 0x01, 0x02, 0x04, 0x05, 0x2F, 0x5C, 0xFF} {
				build := func() command_interface.CommandInterface {
					x, err := a.Build()
					if err != nil {
						return nil
					}
					smbgen.Field(x, pad).SetBytes([]byte{pv})
					return x
				}
				x := build()
				if x == nil {
					continue
				}
				want := build()
				label := fmt.Sprintf("%s Pad:=%02x [one pad byte]", a.Label(), pv)
				w.c.Case([]byte(cmd.Name), []byte(label))
				b, merr, pan, _ := smbgen.Marshal(x)
				if !w.check(w.key("libpad/marshal"), merr == nil && !pan, func() string {
					return fmt.Sprintf("%s{%s}.Marshal() fails: %v", cmd.Name, label, merr)
				}) {
					continue
				}
				d := cmd.New()
				uerr, up, uwhere := smbgen.Unmarshal(d, b)
				if !w.check(w.key("libpad/unmarshal"), uerr == nil && !up, func() string {
					return fmt.Sprintf("%s.Unmarshal(%s) = %v (panic=%v %s); input = own Marshal of {%s}", cmd.Name, vf.HexS(b), uerr, up, uwhere, label)
				}) {
					continue
				}
				for _, f := range cmd.Fields {
					wv, gv := smbgen.Field(want, f), smbgen.Field(d, f)
					w.check(w.key("libpad/field:"+f.Name+"/roundtrip"), cmd.FieldEqual(f, wv, gv), func() string {
						return fmt.Sprintf("%s{%s}: field %s = %s, after Marshal -> %s -> Unmarshal into a fresh structure it is %s", cmd.Name, label, f.Name, cmd.FieldString(f, wv), vf.HexS(b), cmd.FieldString(f, gv))
					})
				}
			}
		}
	}
}

// assignAfterDecode: a structure that came out of Unmarshal is a structure like any other - assigning one
// field of it and encoding must give the bytes a FRESH structure with the same field values gives (the state
// reached by decoding vs the state reached by construction: a differential oracle without an expected
// value). Catches whatever a decoded field keeps besides its value (a cached encoding, a stale length).
// Evaluated only from bases that decode cleanly and re-encode identically, so the known decoder findings
// cannot reach it. Besides the assigned field, the fields the relations derive from it (counts, offsets,
// alignment pads) are taken from the fresh structure too.
func (w *worker) assignAfterDecode() {
	cmd := w.cmd
	for _, full := range []bool{false, true} {
		a0 := cmd.Zero(w.lat)
		if full {
			a0 = cmd.FullAssign(w.lat)
		}
		B, err := a0.Build()
		if err != nil {
			continue
		}
		pristine, _ := a0.Build()
		b, merr, pan, _ := smbgen.Marshal(B)
		if merr != nil || pan {
			continue
		}
		D := cmd.New()
		if uerr, up, _ := smbgen.Unmarshal(D, b); uerr != nil || up {
			continue
		}
		clean := true
		for _, f := range cmd.Fields {
			clean = clean && cmd.FieldEqual(f, smbgen.Field(pristine, f), smbgen.Field(D, f))
		}
		if !clean {
			continue
		}
		chk := cmd.New()
		copyFields(cmd, chk, D)
		if b2, e2, p2, _ := smbgen.Marshal(chk); e2 != nil || p2 || !bytes.Equal(b2, b) {
			continue
		}
		for _, f := range cmd.Fields {
			if !f.Free() {
				continue
			}
			for k := 1; k <= len(w.lat[f.Pos]) && k <= 3; k++ {
				a1 := a0.With(f.Pos, k)
				T, err := a1.Build()
				if err != nil {
					continue
				}
				T2, _ := a1.Build()
				bT, eT, pT, _ := smbgen.Marshal(T2)
				if eT != nil || pT {
					continue
				}
				// a fresh decode for every case: Marshal may write into the structure it encodes
				Dk := cmd.New()
				if uerr, up, _ := smbgen.Unmarshal(Dk, append([]byte{}, b...)); uerr != nil || up {
					continue
				}
				F := cmd.New()
				copyFields(cmd, F, Dk)
				var assigned []string
				for _, g := range cmd.Fields {
					if !cmd.FieldEqual(g, smbgen.Field(pristine, g), smbgen.Field(T, g)) {
						assignValue(g, smbgen.Field(F, g), smbgen.Field(T, g))
						assigned = append(assigned, g.Name)
					}
				}
				if len(assigned) == 0 {
					continue
				}
				bF, eF, pF, where := smbgen.Marshal(F)
				w.c.Case([]byte(cmd.Name), []byte("assign-after-decode "+a1.Label()))
				w.check(w.key("field:"+f.Name+"/assigned-after-decode-encodes-like-a-fresh-structure"), eF == nil && !pF && bytes.Equal(bF, bT), func() string {
					return fmt.Sprintf("%s: decode of the encoding of {%s} (%s), then %s assigned the values of {%s}: Marshal = %s (err=%v panic=%v %s); a fresh structure {%s} encodes as %s",
						cmd.Name, a0.Label(), vf.HexS(b), strings.Join(assigned, ", "), a1.Label(), vf.HexS(bF), eF, pF, where, a1.Label(), vf.HexS(bT))
				})
			}
		}
	}
}

// assignValue gives dst the VALUE of src the way a caller does who edits a decoded structure: the members
// that carry the value are assigned, whatever else the type keeps next to them (the marshalling scratch
// string inside a resume key, the Length of a string - which Marshal derives from the buffer) stays as decoded.
func assignValue(f *refsmb.Field, dst, src reflect.Value) {
	switch f.Kind {
	case refsmb.KResumeKey:
		for _, n := range []string{"Reserved", "ServerState", "ClientState"} {
			dst.FieldByName(n).Set(src.FieldByName(n))
		}
	case refsmb.KString:
		dst.FieldByName("BufferFormat").Set(src.FieldByName("BufferFormat"))
		dst.FieldByName("Buffer").Set(src.FieldByName("Buffer"))
	case refsmb.KOEMString:
		d, s := dst.FieldByName("SMB_STRING"), src.FieldByName("SMB_STRING")
		d.FieldByName("BufferFormat").Set(s.FieldByName("BufferFormat"))
		d.FieldByName("Buffer").Set(s.FieldByName("Buffer"))
	default:
		dst.Set(src)
	}
}

// fullDataBlock: ByteCount is a USHORT, so a data block of exactly 65535 (and 65534) bytes is the largest a
// structure can carry. For every raw byte buffer of the data block the buffer is sized so that the library's
// own data block comes out at exactly that size (found by measuring the library's encoding of a shorter
// one); Marshal must accept it and frame it with that ByteCount. (Decoding such blocks is covered, where
// the structure decodes at all, by the ordinary lattice; here only the boundary of the encoder is probed.)
func (w *worker) fullDataBlock() {
	cmd := w.cmd
	for _, f := range cmd.Fields {
		if f.Kind != refsmb.KBytes || f.Section != refsmb.SecData || !f.Free() {
			continue
		}
		build := func(n int) (command_interface.CommandInterface, string) {
			lat := make([][]refsmb.Choice, len(w.lat))
			copy(lat, w.lat)
			lat[f.Pos] = append(append([]refsmb.Choice{}, w.lat[f.Pos]...), refsmb.Choice{Label: fmt.Sprintf("bytes[%d]", n), Set: func(v reflect.Value) {
				b := make([]byte, n)
				for i := range b {
					b[i] = byte(0x41 + i%23)
				}
				v.SetBytes(b)
			}})
			a := cmd.Zero(lat).With(f.Pos, len(lat[f.Pos]))
			x, err := a.Build()
			if err != nil {
				return nil, ""
			}
			return x, a.Label()
		}
		probe, _ := build(1000)
		if probe == nil {
			continue
		}
		pb, perr, pp, _ := smbgen.Marshal(probe)
		pf, ferr := refsmb.ParseFrame(pb)
		if perr != nil || pp || ferr != nil || pf.BC < 1000 {
			continue
		}
		overhead := pf.BC - 1000
		for _, target := range []int{65534, 65535} {
			x, label := build(target - overhead)
			if x == nil {
				continue // a count field of the structure cannot express the length
			}
			b, merr, panicked, where := smbgen.Marshal(x)
			fr, ferr := refsmb.ParseFrame(b)
			w.c.Case([]byte(cmd.Name), []byte(label))
			if ferr == nil && merr == nil && fr.BC != target && len(fr.Data) != target {
				continue // padding moved with the length: not the size aimed at, nothing to judge
			}
			w.check(w.key(fmt.Sprintf("marshal/data-block-of-%d-bytes-accepted-and-framed", target)), merr == nil && !panicked && ferr == nil && fr.BC == target && len(fr.Data) == target && fr.Extra == 0, func() string {
				return fmt.Sprintf("%s{%s}.Marshal(): a data block of %d bytes fits ByteCount (USHORT); got err=%v panic=%v(%s), framed ByteCount=%d with %d bytes following (%v)", cmd.Name, label, target, merr, panicked, where, fr.BC, len(fr.Data), ferr)
			})
		}
	}
}

// andxSlots: the AndX block of an AndX command is three more fields (command, reserved, offset) in front
// of the declared ones; each value must reach its own slot whatever the other two hold - in particular an
// offset next to "no further command" (0xFF). The byte order of the offset is C05's business.
func (w *worker) andxSlots() {
	cmd := w.cmd
	if !cmd.AndX {
		return
	}
	for _, full := range []bool{false, true} {
		a := cmd.Zero(w.lat)
		if full {
			a = cmd.FullAssign(w.lat)
		}
		for _, ax := range []andx.AndX{{AndXCommand: 0x75, AndXReserved: 0, AndXOffset: 0x0102}, {AndXCommand: 0x2E, AndXReserved: 0x01, AndXOffset: 0xFEFD},
			{AndXCommand: 0xFF, AndXReserved: 0xFE, AndXOffset: 0}, {AndXCommand: 0xFF, AndXReserved: 0x01, AndXOffset: 0x0203}, {AndXCommand: 0x00, AndXReserved: 0x00, AndXOffset: 0xFFFF}} {
			x, err := a.Build()
			if err != nil {
				continue
			}
			cp := ax
			x.SetAndX(&cp)
			b, merr, panicked, _ := smbgen.Marshal(x)
			if merr != nil || panicked {
				continue // reported by the marshal obligations
			}
			fr, ferr := refsmb.ParseFrame(b)
			if ferr != nil || len(fr.Words) < 4 {
				continue // reported by the width obligations
			}
			label := fmt.Sprintf("%s andx={%#02x,%#02x,%#04x}", a.Label(), byte(ax.AndXCommand), ax.AndXReserved, ax.AndXOffset)
			w.c.Case([]byte(cmd.Name), []byte(label))
			got := fr.Words[:4]
			le := []byte{byte(ax.AndXCommand), ax.AndXReserved, byte(ax.AndXOffset), byte(ax.AndXOffset >> 8)}
			be := []byte{byte(ax.AndXCommand), ax.AndXReserved, byte(ax.AndXOffset >> 8), byte(ax.AndXOffset)}
			w.check(w.key("field:andx/slot-carries-the-value"), bytes.Equal(got, le) || bytes.Equal(got, be), func() string {
				return fmt.Sprintf("%s{%s}.Marshal(): the AndX block (first two parameter words) is %x, the values set are command %#02x, reserved %#02x, offset %#04x; bytes %s", cmd.Name, label, got, byte(ax.AndXCommand), ax.AndXReserved, ax.AndXOffset, vf.HexS(b))
			})
		}
	}
}

type worker struct {
	c        *vf.Ctx
	t        *smbgen.Tally
	cmd      *refsmb.Cmd
	lat      [][]refsmb.Choice
	baseLib  [2][]byte // library encoding of the zero / full base (nil if it cannot be encoded)
	baseInst [2]command_interface.CommandInterface
	rejected int64
	sample   map[string]any
	cur      *refsmb.Assign // the assignment eval is judging (nil in the other passes)
}

func (w *worker) key(parts string) string { return "C04/" + w.cmd.Name + "/" + parts }

func (w *worker) check(key string, ok bool, wit func() string) bool {
	res := w.t.Check(w.cmd.Name, key, ok, wit)
	if ok || w.cur == nil {
		return res
	}
	// Every obligation of the main lattice that is a KNOWN finding is identified by the inputs that fail: the
	// minimal classes (base, set of explicitly set fields) failing on the unchanged tree are committed in
	// known_key_classes.json (generated with C04_DUMP_CLASSES on the unchanged tree, both tiers; never written by
	// a check run). A failing case outside them is a different violation of the same obligation.
	sub := strings.TrimPrefix(key, "C04/"+w.cmd.Name+"/")
	if sub == "unmarshal" || strings.Contains(sub, "/input-class:") {
		return res // has its own list (known_unmarshal_classes.json)
	}
	cls := devClass(w.cur)
	if dumpClasses != nil {
		dumpMu.Lock()
		k := w.cmd.Name + "/" + sub
		if dumpClasses[k] == nil {
			dumpClasses[k] = map[string]bool{}
		}
		dumpClasses[k][cls] = true
		dumpMu.Unlock()
	}
	if list, known := knownKeyClasses[w.cmd.Name+"/"+sub]; known && !explainedBy(list, cls) {
		w.t.Check(w.cmd.Name, key+"/input-class:"+cls, false, wit)
	}
	return res
}

var (
	dumpMu      sync.Mutex
	dumpClasses map[string]map[string]bool
)

//go:embed known_key_classes.json
var knownKeyClassesJSON []byte

var knownKeyClasses = func() map[string][][]string {
	var raw map[string][]string
	if err := json.Unmarshal(knownKeyClassesJSON, &raw); err != nil {
		panic("known_key_classes.json: " + err.Error())
	}
	out := map[string][][]string{}
	for k, l := range raw {
		for _, c := range l {
			out[k] = append(out[k], strings.Split(c, ","))
		}
	}
	return out
}()

func explainedBy(list [][]string, cls string) bool {
	have := strings.Split(cls, ",")
	for _, k := range list {
		if k[0] != have[0] {
			continue
		}
		all := true
		for _, f := range k[1:] {
			found := false
			for _, h := range have[1:] {
				found = found || h == f
			}
			all = all && found
		}
		if all {
			return true
		}
	}
	return false
}

// writeDumpedClasses reduces the collected failing classes to the minimal ones per key and writes them.
func writeDumpedClasses(path string) {
	out := map[string][]string{}
	for k, cl := range dumpClasses {
		var all [][]string
		for c := range cl {
			all = append(all, strings.Split(c, ","))
		}
		for _, c := range all {
			minimal := true
			for _, o := range all {
				if len(o) < len(c) && o[0] == c[0] && explainedBy([][]string{o}, strings.Join(c, ",")) {
					minimal = false
				}
			}
			if minimal {
				out[k] = append(out[k], strings.Join(c, ","))
			}
		}
		sort.Strings(out[k])
	}
	b, _ := json.MarshalIndent(out, "", " ")
	os.WriteFile(path, b, 0o644)
}

func (w *worker) prepare() {
	for i, a := range []*refsmb.Assign{w.cmd.Zero(w.lat), w.cmd.FullAssign(w.lat)} {
		x, err := a.Build()
		if err != nil {
			smbgen.Fatalf(w.c, "%s: base assignment cannot be built: %v", w.cmd.Name, err)
		}
		if b, err, _, _ := smbgen.Marshal(x); err == nil {
			w.baseLib[i] = b
		}
		w.baseInst[i], _ = a.Build()
	}
}

func idx(full bool) int {
	if full {
		return 1
	}
	return 0
}

func copyFields(cmd *refsmb.Cmd, dst, src command_interface.CommandInterface) {
	d, s := reflect.ValueOf(dst).Elem(), reflect.ValueOf(src).Elem()
	for _, f := range cmd.Fields {
		d.Field(f.Index).Set(s.Field(f.Index))
	}
	if a := src.GetAndX(); a != nil {
		cp := *a
		dst.SetAndX(&cp)
	}
}

func (w *worker) eval(a *refsmb.Assign, r *explore.Run) {
	cmd := w.cmd
	w.cur = a
	defer func() { w.cur = nil }()
	x, err := a.Build()
	if err != nil {
		w.rejected++
		r.ObserveS("rejected")
		return
	}
	want, _ := a.Build() // pristine copy: the library's Marshal writes into the structure it encodes
	ref, err := cmd.Encode(want)
	if err != nil {
		smbgen.Fatalf(w.c, "%s %s: reference cannot encode a built assignment: %v", cmd.Name, a.Label(), err)
	}
	w.c.Case([]byte(cmd.Name), []byte(a.Label()))
	w.t.Case(cmd.Name)
	label := a.Label()

	b, merr, panicked, where := smbgen.Marshal(x)
	if panicked {
		w.check(w.key("marshal/panic@"+where), false, func() string { return fmt.Sprintf("%s{%s}.Marshal() panics: %v", cmd.Name, label, merr) })
	}
	if !w.check(w.key("marshal"), merr == nil, func() string {
		return fmt.Sprintf("%s{%s}.Marshal() fails: %v", cmd.Name, label, merr)
	}) {
		r.ObserveS("marshal-error")
		return
	}
	r.Observe(smbgen.Hash64(b)...)
	// ---- buffer layout: the same field values held in consecutive sub-slices of ONE caller buffer (spare
	// capacity of each running into the next) must encode to the same bytes and stay untouched
	if n, _ := smbgen.NumDev(a); n <= 1 {
		for _, rotated := range []bool{false, true} {
			y, err := a.Build()
			if err != nil {
				break
			}
			if moved := smbgen.RehomeOrder(y, rotated); moved < 2 || rotated && moved < 3 {
				continue
			}
			pristine, _ := a.Build()
			b2, e2, p2, _ := smbgen.Marshal(y)
			same := true
			for _, f := range cmd.Fields {
				if !cmd.FieldEqual(f, smbgen.Field(y, f), smbgen.Field(pristine, f)) {
					same = false
				}
			}
			w.check(w.key("marshal/independent-of-caller-buffer-layout"), !p2 && e2 == nil && bytes.Equal(b2, b) && same, func() string {
				return fmt.Sprintf("%s{%s} with its byte fields held back to back in one caller buffer (%s): Marshal() = %s (err %v), with independent buffers %s; field values unchanged afterwards: %v", cmd.Name, label,
					map[bool]string{false: "declared order", true: "first field first, the others in reverse order"}[rotated], vf.HexS(b2), e2, vf.HexS(b), same)
			})
		}
	}
	if w.sample == nil || (a.Full && !w.sample["full"].(bool)) {
		w.sample = map[string]any{"cmd": cmd.Name, "assignment": label, "library_bytes": vf.HexS(b), "reference_bytes": vf.HexS(ref.Bytes()), "full": a.Full}
	}

	fmtVariant := a.IsFormatVariant() // a caller-chosen buffer format: only the round-trip obligations apply
	// ---- width
	fr, ferr := refsmb.ParseFrame(b)
	refOpt, _ := cmd.EncodeOpt(want, true) // the other legal encoding when an optional trailing parameter is zero
	w.check(w.key("width/params"), fmtVariant || ferr == nil && !ref.Odd && (len(fr.Words) == len(ref.Words) || len(fr.Words) == len(refOpt.Words)), func() string {
		return fmt.Sprintf("%s{%s}: library emits WordCount=%d (%d parameter bytes), the declared parameter fields%s are %d bytes wide%s; bytes %s (%v)",
			cmd.Name, label, fr.WC, len(fr.Words), map[bool]string{true: " plus the 4-byte AndX block", false: ""}[cmd.AndX], len(ref.Words),
			map[bool]string{true: " (odd: no WordCount can describe them)", false: ""}[ref.Odd], vf.HexS(b), ferr)
	})
	w.check(w.key("width/data"), fmtVariant || ferr == nil && len(fr.Data) == len(ref.Data), func() string {
		return fmt.Sprintf("%s{%s}: library emits ByteCount=%d with %d bytes following, the data fields are %d bytes wide in their MS-CIFS encoding; library %s reference %s (%v)",
			cmd.Name, label, fr.BC, len(b)-min(len(b), 3+2*fr.WC), len(ref.Data), vf.HexS(b), vf.HexS(ref.Bytes()), ferr)
	})

	// ---- locality (single deviation of a fixed-width free field)
	if n, only := smbgen.NumDev(a); n == 1 {
		f := cmd.Fields[only]
		changed := !cmd.FieldEqual(f, smbgen.Field(want, f), smbgen.Field(w.baseInst[idx(a.Full)], f))
		optional := f.Rel != nil && f.Rel.Kind == refsmb.ROptional
		if optional && !a.Full {
			changed = false // zero -> non-zero legitimately adds the field to the parameter block
		}
		if optional && a.Full && smbgen.Field(want, f).IsZero() {
			changed = false // ... and non-zero -> zero legitimately drops it
		}
		if base := w.baseLib[idx(a.Full)]; base != nil && changed && f.Fixed() && f.Width > 0 && (f.Rel == nil || optional || f.Rel.Kind == RelOffset || f.Rel.Kind == RelAtLeast) {
			w.locality(a, f, base, b, ref)
		}
	}

	// ---- decode
	d := cmd.New()
	uerr, upanic, uwhere := smbgen.Unmarshal(d, b)
	if upanic {
		w.check(w.key("unmarshal/panic@"+uwhere), false, func() string {
			return fmt.Sprintf("%s.Unmarshal(%s) panics: %v; input = own Marshal of {%s}", cmd.Name, vf.HexS(b), uerr, label)
		})
	}
	w.check(w.key("unmarshal"), uerr == nil, func() string {
		return fmt.Sprintf("%s.Unmarshal(%s) = %v; input = own Marshal of {%s}", cmd.Name, vf.HexS(b), uerr, label)
	})
	if uerr != nil {
		// The obligation above is a known finding for 21 structures (findings/C04.json). A finding is
		// identified by the inputs that fail: the classes (base, set of explicitly set fields) that are
		// refused on the unchanged tree are listed, minimal ones only, in known_unmarshal_classes.json
		// (committed, generated by tools/c04classes.py, never written at run time). A refused case whose
		// class contains none of them is a DIFFERENT violation and is reported under its own key.
		cls := devClass(a)
		if os.Getenv("C04_DEBUG_CLASSES") != "" {
			fmt.Fprintf(os.Stderr, "CLASS %s unmarshal %s\n", cmd.Name, cls)
		}
		if !explained(cmd.Name, cls) {
			w.check(w.key("unmarshal/input-class:"+cls), false, func() string {
				return fmt.Sprintf("%s.Unmarshal(%s) = %v; input = own Marshal of {%s}; no case of this class (%s) is refused on the unchanged tree", cmd.Name, vf.HexS(b), uerr, label, cls)
			})
		}
	}
	if upanic {
		return
	}
	mismatch := w.compare("roundtrip", a, want, d, b)
	if cmd.AndX {
		ax := d.GetAndX()
		wantAx := andx.AndX{AndXCommand: 0xFF}
		if !w.check(w.key("field:andx/roundtrip"), ax != nil && *ax == wantAx, func() string {
			return fmt.Sprintf("%s.Unmarshal(%s): GetAndX() = %+v, want %+v (the block pair starts with the AndX words ff 00 0000)", cmd.Name, vf.HexS(b), ax, wantAx)
		}) {
			mismatch = true
		}
		if (mismatch || uerr != nil) && ferr == nil && len(fr.Words) >= 4 {
			// fallback obligation: what the decoder does when the AndX words are not in its way
			stripped := append([]byte{byte(fr.WC - 2)}, fr.Words[4:]...)
			stripped = append(stripped, b[1+len(fr.Words):]...)
			d2 := cmd.New()
			if _, p2, _ := smbgen.Unmarshal(d2, stripped); !p2 {
				w.compare("roundtrip-modulo-andx", a, want, d2, stripped)
			}
		}
	}

	// ---- whatever was decoded without error is a structure of the library's own making: it must at least
	// be encodable again (equality of the bytes is judged below, and only when the fields came back right)
	if uerr == nil && mismatch {
		dd := cmd.New()
		copyFields(cmd, dd, d)
		_, rerr, rpanic, _ := smbgen.Marshal(dd)
		w.check(w.key("decoded-structure-can-be-encoded-again"), rerr == nil && !rpanic, func() string {
			return fmt.Sprintf("%s{%s}: Marshal = %s; Unmarshal into a fresh structure succeeds; Marshal of the decoded fields (copied into a fresh structure) fails: %v", cmd.Name, label, vf.HexS(b), rerr)
		})
	}
	// ---- reencode (only meaningful when the decoded structure equals the original)
	if uerr == nil && !mismatch {
		b2, rerr, _, _ := smbgen.Marshal(d)
		if !w.check(w.key("reencode"), rerr == nil && bytes.Equal(b2, b), func() string {
			return fmt.Sprintf("%s{%s}: Marshal = %s; Unmarshal into a fresh structure, then Marshal of that structure = %s (%v)", cmd.Name, label, vf.HexS(b), vf.HexS(b2), rerr)
		}) {
			fresh := cmd.New()
			copyFields(cmd, fresh, d)
			b3, ferr3, _, _ := smbgen.Marshal(fresh)
			w.check(w.key("reencode-fresh-object"), ferr3 == nil && bytes.Equal(b3, b), func() string {
				return fmt.Sprintf("%s{%s}: Marshal = %s; decoded fields copied into a fresh structure and marshalled = %s (%v)", cmd.Name, label, vf.HexS(b), vf.HexS(b3), ferr3)
			})
		}
	}
}

//go:embed known_unmarshal_classes.json
var knownClassesJSON []byte

var knownClasses = func() map[string][][]string {
	var raw map[string][]string
	if err := json.Unmarshal(knownClassesJSON, &raw); err != nil {
		panic("known_unmarshal_classes.json: " + err.Error())
	}
	out := map[string][][]string{}
	for cmd, l := range raw {
		for _, c := range l {
			out[cmd] = append(out[cmd], strings.Split(c, ","))
		}
	}
	return out
}()

// explained: some listed class of cmd has the same base and only fields that cls sets too.
func explained(cmd, cls string) bool {
	have := strings.Split(cls, ",")
	for _, k := range knownClasses[cmd] {
		if k[0] != have[0] {
			continue
		}
		all := true
		for _, f := range k[1:] {
			found := false
			for _, h := range have[1:] {
				if h == f {
					found = true
				}
			}
			all = all && found
		}
		if all {
			return true
		}
	}
	return false
}

func devClass(a *refsmb.Assign) string {
	p := []string{"base=zero"}
	if a.Full {
		p[0] = "base=full"
	}
	for i, k := range a.Dev {
		if k > 0 {
			p = append(p, a.C.Fields[i].Name)
		}
	}
	return strings.Join(p, ",")
}

// compare evaluates one obligation per field; returns true if any field differs.
func (w *worker) compare(kind string, a *refsmb.Assign, want, got command_interface.CommandInterface, wire []byte) bool {
	cmd := w.cmd
	bad := false
	for _, f := range cmd.Fields {
		wv, gv := smbgen.Field(want, f), smbgen.Field(got, f)
		if !w.check(w.key("field:"+f.Name+"/"+kind), cmd.FieldEqual(f, wv, gv), func() string {
			return fmt.Sprintf("%s{%s}: field %s = %s, after Marshal -> %s -> Unmarshal into a fresh structure it is %s", cmd.Name, a.Label(), f.Name,
				cmd.FieldString(f, wv), vf.HexS(wire), cmd.FieldString(f, gv))
		}) {
			bad = true
		}
	}
	return bad
}

const (
	RelOffset  = refsmb.ROffset
	RelAtLeast = refsmb.RAtLeast
)

func (w *worker) locality(a *refsmb.Assign, f *refsmb.Field, base, dev []byte, ref *refsmb.Layout) {
	cmd := w.cmd
	key := w.key("field:" + f.Name + "/locality")
	if len(base) != len(dev) {
		w.check(key, false, func() string {
			return fmt.Sprintf("%s{%s}: changing fixed-width field %s changes the length of the encoding: %s -> %s", cmd.Name, a.Label(), f.Name, vf.HexS(base), vf.HexS(dev))
		})
		return
	}
	first, last := smbgen.DiffSpan(base, dev)
	slot := ref.SlotOf(f)
	ok := first >= 0
	var lo, hi int
	if f.Section == refsmb.SecParams {
		lo, hi = 1+slot.Off, 1+slot.Off+slot.Len
		ok = ok && first >= lo && last < hi
	} else {
		// data block: positions of earlier variable fields are the library's business; the changed span must fit the width
		lo, hi = first, first+f.Width
		ok = ok && last-first < f.Width
	}
	w.check(key, ok, func() string {
		return fmt.Sprintf("%s{%s}: changing only %s (%d bytes wide, %s slot [%d,%d) of the block pair) changes bytes %d..%d: base %s -> %s",
			cmd.Name, a.Label(), f.Name, f.Width, f.Section, lo, hi, first, last, vf.HexS(base), vf.HexS(dev))
	})
}
