// C14 — key-credential blobs round-trip and their integrity hash detects tampering.
// E1 (mc/explore): the credential parameters are a choice tree explored to a deviation bound;
// for every resulting blob EVERY single-bit flip is enumerated (one deviation = one flipped bit).
// E4: own MS-ADTS 2.2.20 blob reader (verif/ref/refkeycred) as structure oracle and to compute the
// region the KeyHash covers; DN-Binary strings over an exhaustive small alphabet.
package main

import (
	"bytes"
	"crypto/sha256"
	"encoding/binary"
	"fmt"
	"strings"
	"sync"
	"sync/atomic"
	"time"

	"github.com/TheManticoreProject/Manticore/windows/guid"
	kcl "github.com/TheManticoreProject/Manticore/windows/keycredential"
	kccrypto "github.com/TheManticoreProject/Manticore/windows/keycredential/crypto"
	"github.com/TheManticoreProject/Manticore/windows/keycredential/key"
	kcutils "github.com/TheManticoreProject/Manticore/windows/keycredential/utils"

	"verif/enum"
	"verif/mc/explore"
	rk "verif/ref/refkeycred"
	"verif/vf"
)

func main() { vf.Main("C14", "fault_enumeration", run) }

func run(c *vf.Ctx) {
	if err := rk.SelfTest(); err != nil {
		c.Fatalf("%v", err)
	}
	c.Rule("credentials: choice tree over version {2,1,0} x modulus length {256,1,128,512} x exponent {65537,3,2^32-1,0x10000,0x12340000,0x100} x prime lengths {(0,0),(64,64),(128,128),(64,0),(0,128)} x 10 device GUIDs x 10 tick values each for last-logon and creation (never 0) x 9 usages x 4 sources x 9 CUSTOM_KEY_INFORMATION values (the constructor's and one per legal truncation point 2,3,4,5,9,19,20,32 bytes), " +
		"explored with mc/explore to 2 (thorough 3) deviations from the default, plus the full product of the four key-shape parameters; identifier = the version's own encoding of SHA-256(key material). " +
		"Faults: for every blob, every single-bit flip (exhaustive per blob); flips after the KeyHash entry are the obligation. DN-Binary: all strings of length <=4 (thorough 5) over {a = , : space é % \\}, DNs containing LF/CR/TAB/NUL/CRLF/U+2028 and realistic DNs x binary lengths {0,1,2,3,255,256}. " +
		"distinct = distinct serialised blobs / DN-Binary inputs reaching the comparison; flips are counted in tampered_blobs")
	c.Assume("crypto/sha256 is correct; the blob layout is MS-ADTS 2.2.20 (version LE32, entries len16/type8/value; KeyID = SHA-256 of the KeyMaterial value, KeyHash = SHA-256 of all bytes after the KeyHash entry); no published blob is available offline, the reader is self-tested on a hand-assembled one")
	c.Assume("usage/source/custom key information other than the constructor's defaults are set through the exported fields (CustomKeyInfo.FromBytes for the latter) followed by ComputeKeyHash (the constructor has no parameters for them); identifiers of other lengths than a SHA-256 are not enumerated; NewDateTime(0) (= now) is excluded")
	t0 := time.Now()
	creds(c)
	c.Set("wall_s_credentials", time.Since(t0).Seconds())
	t0 = time.Now()
	dnBinary(c)
	c.Set("wall_s_dn_binary", time.Since(t0).Seconds())
	histories(c)
}

// ---------------------------------------------------------------- parameter lattices

type primes struct{ p1, p2 int }

var (
	versions = []uint32{key.KeyCredentialVersion_2, key.KeyCredentialVersion_1, key.KeyCredentialVersion_0}
	modLens  = []int{256, 1, 128, 512}
	exps     = []uint32{65537, 3, 1<<32 - 1, 0x10000, 0x12340000, 0x100} // the last three end in zero bytes: a fixed-width field has no 'insignificant' end
	primeLs  = []primes{{0, 0}, {64, 64}, {128, 128}, {64, 0}, {0, 128}}
	guids    = []guid.GUID{
		{A: 0x01020304, B: 0x0506, C: 0x0708, D: 0x090a, E: 0x0b0c0d0e0f10},
		{},
		{A: 0xFFFFFFFF, B: 0xFFFF, C: 0xFFFF, D: 0xFFFF, E: 0xFFFFFFFFFFFF},
		{A: 1 << 31}, {A: 1}, {B: 1 << 15}, {C: 1}, {D: 0x8000}, {E: 1 << 47}, {E: 1},
	}
	ticks   = []uint64{132537600000000000, 1, 116444736000000000, 0x0102030405060708, 1<<63 - 1, 1 << 63, 1<<64 - 1, 184467440737095517, 24211015631452240, 2650467743999999999}
	usages  = []uint8{key.KeyUsage_NGC, key.KeyUsage_AdminKey, key.KeyUsage_STK, key.KeyUsage_BitlockerRecovery, key.KeyUsage_Other, key.KeyUsage_FIDO, key.KeyUsage_FEK, key.KeyUsage_DPAPI, 0xFF}
	sources = []key.KeySource{key.KeySource_AD, key.KeySource_AzureAD, 2, 0xFF}
	// CUSTOM_KEY_INFORMATION values (MS-ADTS): Version(1)=1 Flags(1) [VolumeType(1) [SupportsNotification(1) [FekKeyVersion(1)
	// [KeyStrength(4) [Reserved(10) [EncodedExtendedCKI(var)]]]]]]. nil = what the constructor puts there. Every legal truncation point.
	ckiForms = [][]byte{
		nil,
		{1, 2},
		{1, 0, 1},
		{1, 3, 2, 1},
		{1, 0, 0, 0, 1},
		{1, 2, 1, 1, 1, 0x02, 0, 0, 0x80},
		append([]byte{1, 0, 1, 0, 1, 0x01, 0, 0, 0}, enum.Counter(10, 0xC1)...),
		append(append([]byte{1, 1, 3, 1, 1, 0xFF, 0xFF, 0xFF, 0xFF}, enum.Counter(10, 0xD1)...), 0xEE),
		append(append([]byte{1, 2, 0, 1, 0, 0, 0, 0, 0}, make([]byte, 10)...), enum.Counter(13, 0xE1)...),
	}
)

func ckiName(i int) string {
	if i == 0 {
		return "constructor-default"
	}
	return fmt.Sprintf("%d-byte-value", len(ckiForms[i]))
}

type cfg struct{ ver, mod, exp, pr, gd, ll, cr, us, so, ck, mt int }

// modTops: the most significant modulus byte — top bit set (what rsa.GenerateKey yields), clear (a modulus a few
// bits shorter than KeySize = 8*len, which Size()*8 still reports), 0x01, and 0x00 (a fixed-width big-endian
// field may start with zero bytes - e.g. the sign octet an ASN.1 INTEGER carries; they are part of the field).
var modTops = []byte{0x81, 0x7F, 0x01, 0x00}

func (f cfg) String() string {
	return fmt.Sprintf("version=0x%x modulus=%dB(first byte %02x) exponent=%d primes=(%d,%d)B deviceId=%s lastLogonTicks=%d creationTicks=%d usage=%d source=%d customKeyInfo=%x",
		versions[f.ver], modLens[f.mod], modTops[f.mt], exps[f.exp], primeLs[f.pr].p1, primeLs[f.pr].p2, guids[f.gd].ToFormatD(), ticks[f.ll], ticks[f.cr], usages[f.us], sources[f.so], ckiForms[f.ck])
}

func configs(c *vf.Ctx) []cfg {
	seen := map[cfg]bool{}
	var out []cfg
	add := func(f cfg) {
		if !seen[f] {
			seen[f] = true
			out = append(out, f)
		}
	}
	ex := &explore.Explorer{
		Bound: c.Pick(2, 3),
		Stop:  c.DeadlineExceeded,
		Body: func(r *explore.Run) {
			f := cfg{
				ver: r.Choose(len(versions), "version"), mod: r.Choose(len(modLens), "modulus"), exp: r.Choose(len(exps), "exponent"),
				pr: r.Choose(len(primeLs), "primes"), gd: r.Choose(len(guids), "deviceId"), ll: r.Choose(len(ticks), "lastLogon"),
				cr: r.Choose(len(ticks), "creation"), us: r.Choose(len(usages), "usage"), so: r.Choose(len(sources), "source"),
				ck: r.Choose(len(ckiForms), "customKeyInfo"), mt: r.Choose(len(modTops), "modulus top byte"),
			}
			r.ObserveS(fmt.Sprint(f))
			add(f)
		},
	}
	st, err := ex.Explore()
	if err != nil {
		c.Fatalf("explore: %v", err)
	}
	if st.CapHit {
		c.Cap("parameter exploration stopped early")
	}
	if st.DistinctOutcomes < 2 {
		c.Fatalf("vacuous exploration: %d outcomes", st.DistinctOutcomes)
	}
	c.Set("explore", map[string]any{"executions": st.Executions, "choice_points": st.ChoicePoints, "deviation_bound": st.Bound, "distinct_outcomes": st.DistinctOutcomes})
	for v := range versions {
		for m := range modLens {
			for e := range exps {
				for p := range primeLs {
					for t := range modTops {
						add(cfg{ver: v, mod: m, exp: e, pr: p, mt: t})
					}
				}
			}
		}
	}
	return out
}

type built struct {
	f    cfg
	k    *kcl.KeyCredential
	mat  kccrypto.RSAKeyMaterial
	id   string
	blob []byte
}

func build(f cfg) (*built, error) {
	mat := kccrypto.RSAKeyMaterial{
		Exponent: exps[f.exp],
		Modulus:  enum.Counter(modLens[f.mod], 0x81),
		KeySize:  uint32(modLens[f.mod] * 8),
	}
	mat.Modulus[0] = modTops[f.mt]
	if n := primeLs[f.pr].p1; n > 0 {
		mat.Prime1 = enum.Counter(n, 0x11)
	}
	if n := primeLs[f.pr].p2; n > 0 {
		mat.Prime2 = enum.Counter(n, 0x51)
	}
	ver := key.KeyCredentialVersion{Value: versions[f.ver]}
	id := kcutils.ComputeKeyIdentifier(mat.ToBytes(), ver)
	k := kcl.NewKeyCredential(ver, id, mat, guids[f.gd], kcutils.NewDateTime(ticks[f.ll]), kcutils.NewDateTime(ticks[f.cr]))
	if f.us != 0 || f.so != 0 || f.ck != 0 {
		k.Usage.Value = usages[f.us]
		k.Source = sources[f.so]
		if f.ck != 0 {
			if err := k.CustomKeyInfo.FromBytes(append([]byte{}, ckiForms[f.ck]...), ver); err != nil {
				return nil, fmt.Errorf("CustomKeyInformation.FromBytes(%x): %v", ckiForms[f.ck], err)
			}
		}
		k.RawBytes = nil
		k.KeyHash = k.ComputeKeyHash()
	}
	b, err := k.ToBytes()
	if err != nil {
		return nil, err
	}
	return &built{f: f, k: k, mat: mat, id: id, blob: b}, nil
}

var entryName = map[byte]string{1: "KeyID", 2: "KeyHash", 3: "KeyMaterial", 4: "KeyUsage", 5: "KeySource", 6: "DeviceId", 7: "CustomKeyInformation", 8: "LastLogonTime", 9: "CreationTime"}

func guidBytes(g guid.GUID) []byte {
	var d4 [8]byte
	d4[0], d4[1] = byte(g.D>>8), byte(g.D)
	for i := 0; i < 6; i++ {
		d4[2+i] = byte(g.E >> (8 * uint(5-i)))
	}
	return rk.GUID(g.A, g.B, g.C, d4)
}

// ---------------------------------------------------------------- credentials

func creds(c *vf.Ctx) {
	cfgs := configs(c)
	c.Set("credential_configurations", int64(len(cfgs)))
	var flips, byPanic, byError, byHash, outsideAccepted, outsideTotal int64
	var sampleMu sync.Mutex
	sampled := 0
	vf.Par(len(cfgs), func(i int) {
		if c.DeadlineExceeded() {
			return
		}
		f := cfgs[i]
		var bt *built
		var err error
		pn, msg, where := vf.Try(func() { bt, err = build(f) })
		c.Check("C14/keycredential/NewKeyCredential+ToBytes/succeeds", !pn && err == nil, func() string {
			return fmt.Sprintf("%v: err=%v panic=%v %s %s", f, err, pn, msg, where)
		})
		if pn || err != nil {
			return
		}
		b := bt.blob
		c.Case([]byte("blob"), b)
		wit := func(what string) func() string {
			return func() string { return fmt.Sprintf("%s; credential {%v}; ToBytes() = %s", what, f, vf.Hex(b)) }
		}

		// --- structure, read by the independent parser
		bl, perr := rk.Parse(b)
		c.Check("C14/blob/structure/entries-tile-the-buffer", perr == nil, wit(fmt.Sprintf("own parser: %v", perr)))
		if perr != nil {
			return
		}
		c.Check("C14/blob/structure/version", bl.Version == versions[f.ver], wit(fmt.Sprintf("version field 0x%x want 0x%x", bl.Version, versions[f.ver])))
		once := true
		for t := byte(1); t <= 9; t++ {
			if len(bl.Find(t)) != 1 {
				once = false
			}
		}
		c.Check("C14/blob/structure/each-entry-type-1..9-exactly-once", once && len(bl.Entries) == 9, wit(fmt.Sprintf("%d entries", len(bl.Entries))))
		if !once {
			return
		}
		val := func(t byte) []byte { v, _ := bl.One(t); return v }
		c.Check("C14/blob/structure/KeyID-and-KeyHash-precede-the-hashed-entries", bl.Entries[0].Type == rk.KeyID && bl.Entries[1].Type == rk.KeyHash, wit("entry order"))
		mh := sha256.Sum256(val(rk.KeyMaterial))
		c.Check("C14/blob/structure/KeyID-is-sha256-of-KeyMaterial", bytes.Equal(val(rk.KeyID), mh[:]), wit(fmt.Sprintf("KeyID %x want %x", val(rk.KeyID), mh)))
		kh, _ := bl.ExpectedKeyHash()
		c.Check("C14/blob/structure/KeyHash-is-sha256-of-following-entries", bytes.Equal(val(rk.KeyHash), kh), wit(fmt.Sprintf("KeyHash %x want %x", val(rk.KeyHash), kh)))
		rsa, rerr := rk.ParseRSA(val(rk.KeyMaterial))
		okRSA := rerr == nil && rsa.Magic == "RSA1" && rsa.BitLength == uint32(8*modLens[f.mod]) && bytes.Equal(rsa.Modulus, bt.mat.Modulus) &&
			bytes.Equal(rsa.Prime1, bt.mat.Prime1) && bytes.Equal(rsa.Prime2, bt.mat.Prime2)
		if okRSA {
			e, ok := rsa.ExponentValue()
			okRSA = ok && e == uint64(exps[f.exp])
		}
		c.Check("C14/blob/structure/KeyMaterial-is-BCRYPT_RSAKEY_BLOB-of-the-key", okRSA, wit(fmt.Sprintf("own BCRYPT reader: %+v err=%v", rsa, rerr)))
		c.Check("C14/blob/structure/KeyUsage-byte", bytes.Equal(val(rk.KeyUsage), []byte{usages[f.us]}), wit(fmt.Sprintf("KeyUsage %x", val(rk.KeyUsage))))
		c.Check("C14/blob/structure/KeySource-byte", bytes.Equal(val(rk.KeySource), []byte{byte(sources[f.so])}), wit(fmt.Sprintf("KeySource %x", val(rk.KeySource))))
		c.Check("C14/blob/structure/DeviceId-guid-packet-form", bytes.Equal(val(rk.DeviceId), guidBytes(guids[f.gd])), wit(fmt.Sprintf("DeviceId %x want %x", val(rk.DeviceId), guidBytes(guids[f.gd]))))
		c.Check("C14/blob/structure/LastLogonTime-ticks-le64", bytes.Equal(val(rk.LastLogon), binary.LittleEndian.AppendUint64(nil, ticks[f.ll])), wit(fmt.Sprintf("LastLogon %x", val(rk.LastLogon))))
		c.Check("C14/blob/structure/CreationTime-ticks-le64", bytes.Equal(val(rk.Creation), binary.LittleEndian.AppendUint64(nil, ticks[f.cr])), wit(fmt.Sprintf("Creation %x", val(rk.Creation))))
		cki := val(rk.CustomKeyInfo)
		if f.ck == 0 {
			c.Check("C14/blob/structure/CustomKeyInformation-entry/constructor-default/has-version-1-and-flags-0", len(cki) >= 2 && cki[0] == 1 && cki[1] == 0, wit(fmt.Sprintf("CUSTOM_KEY_INFORMATION value %x (MS-ADTS CUSTOM_KEY_INFORMATION: Version(1)=1, Flags(1), optional fields)", cki)))
		} else {
			c.Check("C14/blob/structure/CustomKeyInformation-entry/"+ckiName(f.ck)+"/equals-the-value-it-was-read-from", bytes.Equal(cki, ckiForms[f.ck]), wit(fmt.Sprintf("CUSTOM_KEY_INFORMATION value %x want %x", cki, ckiForms[f.ck])))
		}

		// --- parse(serialise(k)) field by field
		k2 := &kcl.KeyCredential{}
		pn, msg, where = vf.Try(func() { err = k2.FromBytes(append([]byte{}, b...)) })
		c.Check("C14/keycredential/FromBytes/accepts-own-output", !pn && err == nil, wit(fmt.Sprintf("FromBytes: err=%v panic=%v %s %s", err, pn, msg, where)))
		if pn || err != nil {
			return
		}
		k := bt.k
		fld := func(name string, ok bool, got, want any) {
			c.Check("C14/roundtrip/parse(serialise(k))/field:"+name, ok, wit(fmt.Sprintf("field %s after FromBytes(ToBytes()) = %v want %v", name, got, want)))
		}
		fld("Version", k2.Version.Value == k.Version.Value, k2.Version.Value, k.Version.Value)
		fld("Identifier", k2.Identifier == bt.id, k2.Identifier, bt.id)
		fld("KeyHash", bytes.Equal(k2.KeyHash, k.KeyHash), vf.Hex(k2.KeyHash), vf.Hex(k.KeyHash))
		fld("RawKeyMaterial.Exponent", k2.RawKeyMaterial.Exponent == bt.mat.Exponent, k2.RawKeyMaterial.Exponent, bt.mat.Exponent)
		fld("RawKeyMaterial.Modulus", bytes.Equal(k2.RawKeyMaterial.Modulus, bt.mat.Modulus), vf.HexS(k2.RawKeyMaterial.Modulus), vf.HexS(bt.mat.Modulus))
		fld("RawKeyMaterial.Prime1", bytes.Equal(k2.RawKeyMaterial.Prime1, bt.mat.Prime1), vf.HexS(k2.RawKeyMaterial.Prime1), vf.HexS(bt.mat.Prime1))
		fld("RawKeyMaterial.Prime2", bytes.Equal(k2.RawKeyMaterial.Prime2, bt.mat.Prime2), vf.HexS(k2.RawKeyMaterial.Prime2), vf.HexS(bt.mat.Prime2))
		fld("RawKeyMaterial.KeySize", k2.RawKeyMaterial.KeySize == bt.mat.KeySize, k2.RawKeyMaterial.KeySize, bt.mat.KeySize)
		fld("Usage", k2.Usage.Value == usages[f.us], k2.Usage.Value, usages[f.us])
		fld("Source", k2.Source == sources[f.so], k2.Source, sources[f.so])
		fld("DeviceId", k2.DeviceId == guids[f.gd], k2.DeviceId, guids[f.gd])
		fld("LastLogonTime", k2.LastLogonTime.Ticks == ticks[f.ll] && k2.LastLogonTime.Time.Equal(k.LastLogonTime.Time), k2.LastLogonTime, k.LastLogonTime)
		fld("CreationTime", k2.CreationTime.Ticks == ticks[f.cr] && k2.CreationTime.Time.Equal(k.CreationTime.Time), k2.CreationTime, k.CreationTime)
		{
			// expected CUSTOM_KEY_INFORMATION fields, decoded here from the value by the MS-ADTS layout
			raw := ckiForms[f.ck]
			if raw == nil {
				raw = []byte{1, 0}
			}
			g := k2.CustomKeyInfo
			ok := g.Version == int(raw[0]) && g.Flags.Value == raw[1]
			if len(raw) >= 3 {
				ok = ok && g.VolumeType.Value == raw[2]
			}
			if len(raw) >= 4 {
				ok = ok && g.SupportsNotification == (raw[3] != 0)
			}
			if len(raw) >= 5 {
				ok = ok && g.FekKeyVersion == raw[4]
			}
			if len(raw) >= 9 {
				ok = ok && g.Strength.Value == binary.LittleEndian.Uint32(raw[5:])
			}
			if len(raw) >= 19 {
				ok = ok && bytes.Equal(g.Reserved, raw[9:19])
			}
			if len(raw) > 19 {
				ok = ok && bytes.Equal(g.EncodedExtendedCKI, raw[19:])
			}
			fld("CustomKeyInfo/"+ckiName(f.ck), ok, fmt.Sprintf("{Version:%d Flags:%d VolumeType:%d SupportsNotification:%v FekKeyVersion:%d Strength:%d Reserved:%x Extended:%x}",
				g.Version, g.Flags.Value, g.VolumeType.Value, g.SupportsNotification, g.FekKeyVersion, g.Strength.Value, g.Reserved, g.EncodedExtendedCKI), fmt.Sprintf("the fields of %x", raw))
		}

		// --- serialise(parse(b)) = b
		var b2 []byte
		pn, msg, _ = vf.Try(func() { b2, err = k2.ToBytes() })
		same := !pn && err == nil && bytes.Equal(b2, b)
		c.Check("C14/roundtrip/serialise(parse(b))/byte-identical", same, wit(fmt.Sprintf("re-serialised %s err=%v panic=%v %s", vf.Hex(b2), err, pn, msg)))
		if !same && !pn && err == nil {
			// which entry differs (so that one known cause does not hide another)
			bl2, e2 := rk.Parse(b2)
			okOther, okCKI := e2 == nil && bl2.Version == bl.Version, false
			if e2 == nil {
				for t := byte(1); t <= 9; t++ {
					v1, _ := bl.One(t)
					v2, er := bl2.One(t)
					eq := er == nil && bytes.Equal(v1, v2)
					if t == rk.CustomKeyInfo {
						okCKI = eq
					} else if !eq {
						okOther = false
					}
				}
			}
			c.Check("C14/roundtrip/serialise(parse(b))/entries-other-than-CustomKeyInformation", okOther, wit(fmt.Sprintf("re-serialised %s", vf.Hex(b2))))
			c.Check("C14/roundtrip/serialise(parse(b))/CustomKeyInformation-entry/"+ckiName(f.ck), okCKI, wit(fmt.Sprintf("re-serialised %s", vf.Hex(b2))))
		} else if same {
			c.Pass("C14/roundtrip/serialise(parse(b))/entries-other-than-CustomKeyInformation", 1)
			c.Pass("C14/roundtrip/serialise(parse(b))/CustomKeyInformation-entry/"+ckiName(f.ck), 1)
		}

		// --- integrity of untampered credentials
		var ok1, ok2, ok3 bool
		vf.Try(func() { ok1 = k.CheckIntegrity() })
		c.Check("C14/integrity/fresh-credential-passes", ok1, wit("NewKeyCredential(...).CheckIntegrity() = false"))
		vf.Try(func() { ok2 = k2.CheckIntegrity() })
		c.Check("C14/integrity/parsed-credential-passes", ok2, wit("FromBytes(ToBytes()).CheckIntegrity() = false"))
		if b2 != nil {
			vf.Try(func() {
				k3 := &kcl.KeyCredential{}
				if k3.FromBytes(append([]byte{}, b2...)) == nil {
					ok3 = k3.CheckIntegrity()
				}
			})
			c.Check("C14/integrity/reserialised-credential-passes", ok3, wit(fmt.Sprintf("FromBytes(FromBytes(ToBytes()).ToBytes()).CheckIntegrity() = false; re-serialised %s", vf.Hex(b2))))
		}

		// --- every single-bit flip
		region, _ := bl.HashRegion()
		work := append([]byte{}, b...)
		pass := map[string]int64{}
		var nf, np, ne, nh, oa, ot int64
		for bit := 0; bit < 8*len(b); bit++ {
			off := bit / 8
			work[off] ^= 1 << uint(bit%8)
			var accepted bool
			var ferr error
			kt := &kcl.KeyCredential{}
			fp, fmsg, fwhere := vf.Try(func() {
				ferr = kt.FromBytes(work)
				if ferr == nil {
					accepted = kt.CheckIntegrity()
				}
			})
			if off >= region {
				nf++
				switch {
				case fp:
					np++
				case ferr != nil:
					ne++
				case !accepted:
					nh++
				}
				var e rk.Entry
				for _, x := range bl.Entries {
					if off >= x.Start && off < x.End {
						e = x
					}
				}
				part := "value"
				if off < e.Start+2 {
					part = "length-field"
				} else if off == e.Start+2 {
					part = "type-field"
				}
				kk := "C14/tamper/bit-flip-after-KeyHash/" + entryName[e.Type] + "/" + part + "/integrity-check-fails"
				if fp || !accepted {
					pass[kk]++
				} else {
					bitc, tampered := bit, append([]byte{}, work...)
					c.Check(kk, false, func() string {
						return fmt.Sprintf("bit %d (byte %d, mask 0x%02x, %s of the %s entry) flipped and the re-parsed credential still passes CheckIntegrity(); credential {%v}; original %s; tampered %s",
							bitc, off, 1<<uint(bitc%8), part, entryName[e.Type], f, vf.Hex(b), vf.Hex(tampered))
					})
				}
			} else {
				ot++
				if !fp && accepted {
					oa++
				}
			}
			_, _ = fmsg, fwhere
			work[off] ^= 1 << uint(bit%8)
		}
		for kk, n := range pass {
			c.Pass(kk, n)
		}
		c.Evals(nf)
		atomic.AddInt64(&flips, nf)
		atomic.AddInt64(&byPanic, np)
		atomic.AddInt64(&byError, ne)
		atomic.AddInt64(&byHash, nh)
		atomic.AddInt64(&outsideAccepted, oa)
		atomic.AddInt64(&outsideTotal, ot)
		sampleMu.Lock()
		if sampled < 2 {
			sampled++
			c.Sample("credential", map[string]any{"config": f.String(), "blob": vf.Hex(b), "hashed_region_from_byte": region, "bit_flips": 8 * len(b)})
		}
		sampleMu.Unlock()
	})
	c.Set("tampered_blobs", map[string]any{"flips_in_hashed_region": flips, "rejected_by_hash_mismatch": byHash, "rejected_by_parse_error": byError, "rejected_by_panic(C07's)": byPanic,
		"info_flips_before_hashed_region_not_demanded": outsideTotal, "info_of_which_still_accepted": outsideAccepted})
}

// ---------------------------------------------------------------- DN-Binary

func dnBinary(c *vf.Ctx) {
	dns := enum.Strings([]string{"a", "=", ",", ":", " ", "é", "%", "\\"}, c.Pick(4, 5)) // incl. the printf verb and escape characters
	// control characters and line ends anywhere in the DN (a pattern's '.' and '$' treat a line feed specially)
	for _, ch := range []string{"\n", "\r", "\t", "\x00", "\r\n", "\u2028"} {
		dns = append(dns, ch, "CN=a"+ch, ch+"CN=a", "CN=a"+ch+",DC=x", "CN=a,DC=x"+ch+ch)
	}
	realistic := []string{
		"CN=John Doe,OU=Users,DC=example,DC=com",
		"CN=svc:backup,OU=Service Accounts,DC=corp,DC=example,DC=com",
		`CN=Doe\, John,OU=Users,DC=example,DC=com`,
		"CN=PC01$,CN=Computers,DC=a,DC=b",
		"CN=é:ü,DC=x",
		"CN=B:8:DEADBEEF:CN=inner,DC=x",
		"CN=host,OU=Site::A,DC=x",
		strings.Repeat("CN=a,", 40) + "DC=x",
	}
	dns = append(dns, realistic...)
	lens := []int{0, 1, 2, 3, 255, 256}
	type job struct {
		dn string
		n  int
	}
	var jobs []job
	for _, dn := range dns {
		for _, n := range lens {
			jobs = append(jobs, job{dn, n})
		}
	}
	vf.Par(len(jobs), func(i int) {
		dn, n := jobs[i].dn, jobs[i].n
		bin := enum.Counter(n, 0xA0)
		cls := "dn-without-colon"
		if strings.Contains(dn, ":") {
			cls = "dn-with-colon"
		}
		c.Case([]byte("dnb"), []byte(dn), []byte{byte(n), byte(n >> 8)})
		d := kcl.DNWithBinary{DistinguishedName: dn, BinaryData: bin}
		var s string
		pn, msg, _ := vf.Try(func() { s = d.ToString() })
		c.Check("C14/dnwithbinary/ToString/no-panic", !pn, func() string { return fmt.Sprintf("DNWithBinary{%q, %d bytes}.ToString() panics: %s", dn, n, msg) })
		if pn {
			return
		}
		rdn, rbin, rerr := rk.ParseDNBinary(s)
		c.Check("C14/dnwithbinary/ToString/is-B:count:hex:dn/"+cls, rerr == nil && rdn == dn && bytes.Equal(rbin, bin), func() string {
			return fmt.Sprintf("DNWithBinary{%q, %s}.ToString() = %q; own reader: dn=%q bin=%s err=%v", dn, vf.HexS(bin), abbreviate(s), rdn, vf.HexS(rbin), rerr)
		})
		var d2 kcl.DNWithBinary
		var err error
		pn, msg, where := vf.Try(func() { err = d2.Parse([]byte(s)) })
		ok := !pn && err == nil && d2.DistinguishedName == dn && bytes.Equal(d2.BinaryData, bin)
		c.Check("C14/dnwithbinary/Parse∘ToString/identity/"+cls, ok, func() string {
			return fmt.Sprintf("Parse(%q) -> err=%v dn=%q bin=%s want dn=%q bin=%s (panic=%v %s %s)", abbreviate(s), err, d2.DistinguishedName, vf.HexS(d2.BinaryData), dn, vf.HexS(bin), pn, msg, where)
		})
		if !pn && err == nil {
			var s2 string
			vf.Try(func() { s2 = d2.String() })
			c.Check("C14/dnwithbinary/ToString∘Parse/identity/"+cls, s2 == s, func() string { return fmt.Sprintf("Parse(%q).String() = %q", abbreviate(s), abbreviate(s2)) })
		}
		// one receiver for the values of a multi-valued attribute (the usual loop): what the first Parse handed out
		// stays what it was when the second value - as long, or shorter - is parsed into the same receiver, and the
		// second value comes back as a fresh receiver reads it
		for _, n2 := range []int{n, n / 2, 0} {
			bin2 := enum.Counter(n2, 0x11)
			dn2 := "CN=second," + dn
			s1 := (&kcl.DNWithBinary{DistinguishedName: dn, BinaryData: bin}).ToString()
			s2 := (&kcl.DNWithBinary{DistinguishedName: dn2, BinaryData: bin2}).ToString()
			var d kcl.DNWithBinary
			var e1, e2 error
			var held []byte
			var heldDN string
			pn, msg, where := vf.Try(func() {
				if e1 = d.Parse([]byte(s1)); e1 != nil {
					return
				}
				held, heldDN = d.BinaryData, d.DistinguishedName
				e2 = d.Parse([]byte(s2))
			})
			if pn || e1 != nil {
				continue // reported by the identity obligation above
			}
			c.Check("C14/dnwithbinary/history/first-value-still-held-after-second-Parse-on-the-receiver", bytes.Equal(held, bin) && heldDN == dn, func() string {
				return fmt.Sprintf("one receiver: Parse(value 1: %d bytes); caller keeps BinaryData; Parse(value 2: %d bytes): the kept bytes are now %s, were %s (%s %s)", n, n2, vf.HexS(held), vf.HexS(bin), msg, where)
			})
			c.Check("C14/dnwithbinary/history/second-Parse-on-the-receiver-reads-like-a-fresh-one", e2 == nil && d.DistinguishedName == dn2 && bytes.Equal(d.BinaryData, bin2), func() string {
				return fmt.Sprintf("one receiver: Parse(value 1: %d bytes), Parse(value 2: %d bytes) -> err=%v dn=%q bin=%s, want dn=%q bin=%s", n, n2, e2, d.DistinguishedName, vf.HexS(d.BinaryData), dn2, vf.HexS(bin2))
			})
		}
	})
	// two real credentials read through ONE DNWithBinary receiver: the first credential keeps its value
	for _, fa := range []cfg{{}, {ver: 2, mod: 2, exp: 1, gd: 2, ll: 4, cr: 5, us: 5, so: 1}} {
		for _, fb := range []cfg{{}, {ver: 1, mod: 1, pr: 1}, {ver: 2, mod: 2, exp: 1, gd: 2, ll: 4, cr: 5, us: 5, so: 1}} {
			ba, erra := build(fa)
			bb, errb := build(fb)
			if erra != nil || errb != nil {
				continue
			}
			sa := (&kcl.DNWithBinary{DistinguishedName: realistic[0], BinaryData: append([]byte{}, ba.blob...)}).ToString()
			sb := (&kcl.DNWithBinary{DistinguishedName: realistic[1], BinaryData: append([]byte{}, bb.blob...)}).ToString()
			var d kcl.DNWithBinary
			ka, kb := &kcl.KeyCredential{}, &kcl.KeyCredential{}
			var out []byte
			okA, okB := false, false
			var err error
			pn, msg, where := vf.Try(func() {
				if err = d.Parse([]byte(sa)); err != nil {
					return
				}
				if err = ka.ParseDNWithBinary(d); err != nil {
					return
				}
				if err = d.Parse([]byte(sb)); err != nil {
					return
				}
				if err = kb.ParseDNWithBinary(d); err != nil {
					return
				}
				okA, okB = ka.CheckIntegrity(), kb.CheckIntegrity()
				out, err = ka.ToBytes()
			})
			c.Case([]byte("dnb.kc2"), []byte(sa), []byte(sb))
			c.Check("C14/dnwithbinary/history/two-credentials-through-one-receiver/first-credential-keeps-its-value", !pn && err == nil && okA && okB && ka.Identifier == ba.id && kb.Identifier == bb.id && bytes.Equal(out, ba.blob), func() string {
				return fmt.Sprintf("credentials {%v} and {%v} parsed one after the other through one DNWithBinary: err=%v integrity first=%v second=%v identifiers %q/%q want %q/%q; first re-serialises identically=%v (panic=%v %s %s)",
					fa, fb, err, okA, okB, ka.Identifier, kb.Identifier, ba.id, bb.id, bytes.Equal(out, ba.blob), pn, msg, where)
			})
		}
	}
	// a real credential through the DN-Binary form
	for _, f := range []cfg{{}, {ver: 1, mod: 1, pr: 1}, {ver: 2, mod: 2, exp: 1, gd: 2, ll: 4, cr: 5, us: 5, so: 1}} {
		for _, dn := range realistic[:5] {
			bt, err := build(f)
			if err != nil {
				continue
			}
			cls := "dn-without-colon"
			if strings.Contains(dn, ":") {
				cls = "dn-with-colon"
			}
			d := kcl.DNWithBinary{DistinguishedName: dn, BinaryData: bt.blob}
			s := d.ToString()
			c.Case([]byte("dnb.kc"), []byte(s))
			var d2 kcl.DNWithBinary
			k := &kcl.KeyCredential{}
			var perr, kerr error
			okI := false
			pn, msg, where := vf.Try(func() {
				if perr = d2.Parse([]byte(s)); perr != nil {
					return
				}
				if kerr = k.ParseDNWithBinary(d2); kerr != nil {
					return
				}
				okI = k.CheckIntegrity()
			})
			ok := !pn && perr == nil && kerr == nil && okI && k.Identifier == bt.id && d2.DistinguishedName == dn && k.DeviceId == guids[f.gd] && k.CreationTime.Ticks == ticks[f.cr]
			c.Check("C14/dnwithbinary/KeyCredential.ParseDNWithBinary∘Parse∘ToString/credential-and-dn-recovered/"+cls, ok, func() string {
				return fmt.Sprintf("credential {%v} with owner %q as %q: Parse err=%v ParseDNWithBinary err=%v integrity=%v identifier=%q dn=%q (panic=%v %s %s)", f, dn, abbreviate(s), perr, kerr, okI, k.Identifier, d2.DistinguishedName, pn, msg, where)
			})
		}
	}
	c.Sample("dn-binary", map[string]any{"dn": "CN=svc:backup,OU=Service Accounts,DC=corp,DC=example,DC=com", "binary_len": 3})
	c.Sample("dn-binary", map[string]any{"dn": ":", "binary_len": 0, "string": "B:0:::"})
}

func abbreviate(s string) string {
	if len(s) > 200 {
		return s[:120] + fmt.Sprintf("…(%d chars)…", len(s)) + s[len(s)-60:]
	}
	return s
}
