package main

import (
	"bytes"
	"fmt"
	"reflect"
	"time"

	kcl "github.com/TheManticoreProject/Manticore/windows/keycredential"
	kcutils "github.com/TheManticoreProject/Manticore/windows/keycredential/utils"

	"verif/mc/purity"
	"verif/vf"
)

// exportedEqual compares two values through their EXPORTED members only (what a caller can read): whatever
// an implementation keeps privately (a memo filled by CheckIntegrity, a scratch buffer) is not a field of the credential.
func exportedEqual(a, b reflect.Value, depth int) bool {
	if depth > 8 || a.Type() != b.Type() {
		return a.Type() == b.Type()
	}
	switch a.Kind() {
	case reflect.Ptr, reflect.Interface:
		if a.IsNil() || b.IsNil() {
			return a.IsNil() == b.IsNil()
		}
		return exportedEqual(a.Elem(), b.Elem(), depth+1)
	case reflect.Struct:
		if t, ok := a.Interface().(interface{ Equal(time.Time) bool }); ok {
			if u, ok := b.Interface().(time.Time); ok {
				return t.Equal(u)
			}
		}
		for i := 0; i < a.NumField(); i++ {
			if a.Type().Field(i).PkgPath != "" {
				continue
			}
			if !exportedEqual(a.Field(i), b.Field(i), depth+1) {
				return false
			}
		}
		return true
	case reflect.Slice, reflect.Array:
		if a.Len() != b.Len() {
			return false
		}
		for i := 0; i < a.Len(); i++ {
			if !exportedEqual(a.Index(i), b.Index(i), depth+1) {
				return false
			}
		}
		return true
	case reflect.Map:
		return reflect.DeepEqual(a.Interface(), b.Interface())
	default:
		return a.Interface() == b.Interface()
	}
}

// histories on credential OBJECTS and on the pure helpers:
//   - build A, build B, then serialise A: A's blob must still pass its own integrity check and carry
//     the hash computed at construction (several credentials alive at once);
//   - one receiver parses blob X, verifies it, then parses blob Y (and tampered Y): verdicts and
//     fields must be those of a fresh receiver (nothing memoised across FromBytes);
//   - ComputeHash / ComputeKeyIdentifier / DNWithBinary.ToString as pure functions (verif/mc/purity).
func histories(c *vf.Ctx) {
	var cfgs []cfg
	for v := 0; v < len(versions); v++ {
		cfgs = append(cfgs, cfg{ver: v, mod: 1, exp: 1, pr: 0, gd: 1, ll: 1, cr: 2}, cfg{ver: v, mod: 2, exp: 0, pr: 1, gd: 2, ll: 3, cr: 1})
	}
	var bs []*built
	for _, f := range cfgs {
		b, err := build(f)
		if err != nil {
			c.Check("C14/history/credential-of-every-version-can-be-built-and-serialised", false, func() string {
				return fmt.Sprintf("building and serialising a credential (cfg %+v) fails: %v", f, err)
			})
			return
		}
		bs = append(bs, b)
	}
	// (1) two credentials alive, serialised in the other order
	for i := range cfgs {
		for j := range cfgs {
			if i == j {
				continue
			}
			var blobA []byte
			var okA bool
			pan, msg, where := vf.Try(func() {
				a, _ := build(cfgs[i])
				b, _ := build(cfgs[j])
				b.k.CheckIntegrity()
				b.k.ToBytes()
				blobA, _ = a.k.ToBytes()
				var back kcl.KeyCredential
				if back.FromBytes(blobA) == nil {
					okA = back.CheckIntegrity()
				}
			})
			c.Check("C14/history/credential-built-before-another-still-serialises-to-its-own-blob", !pan && okA && bytes.Equal(blobA, bs[i].blob), func() string {
				return fmt.Sprintf("credential A (cfg %+v) built, then B (cfg %+v) built, verified and serialised, then A serialised: integrity of A's blob=%v, equal to A's stand-alone blob=%v (panic=%v %s %s)", cfgs[i], cfgs[j], okA, bytes.Equal(blobA, bs[i].blob), pan, msg, where)
			})
		}
	}
	// (2) receiver reuse: X verified, then Y / tampered Y on the same receiver
	for i := range bs {
		for j := range bs {
			x, y := bs[i].blob, bs[j].blob
			tam := append([]byte(nil), y...)
			tam[len(tam)-1] ^= 0x01 // last byte lies in an entry the hash covers
			var okY, okT, sameBytes, sameFields bool
			var eY, eT error
			var diff string
			pan, msg, where := vf.Try(func() {
				var r kcl.KeyCredential
				r.FromBytes(append([]byte(nil), x...))
				r.CheckIntegrity()
				eY = r.FromBytes(append([]byte(nil), y...))
				okY = eY == nil && r.CheckIntegrity()
				if out, err := r.ToBytes(); err == nil {
					sameBytes = bytes.Equal(out, y)
				}
				var fresh kcl.KeyCredential
				fresh.FromBytes(append([]byte(nil), y...))
				sameFields = exportedEqual(reflect.ValueOf(r), reflect.ValueOf(fresh), 0)
				if !sameFields {
					diff = fmt.Sprintf("reused receiver holds %+v, a fresh receiver %+v", r, fresh)
				}
				eT = r.FromBytes(tam)
				okT = eT == nil && r.CheckIntegrity()
			})
			c.Check("C14/history/receiver-reused/second-blob-verifies-and-reserialises", !pan && okY && sameBytes, func() string {
				return fmt.Sprintf("one receiver: FromBytes(blob %d); CheckIntegrity; FromBytes(blob %d): err=%v integrity=%v re-serialises identically=%v (panic=%v %s %s)", i, j, eY, okY, sameBytes, pan, msg, where)
			})
			c.Check("C14/history/receiver-reused/second-blob-parses-to-the-fields-a-fresh-receiver-gets", !pan && sameFields, func() string {
				return fmt.Sprintf("one receiver: FromBytes(blob %d); CheckIntegrity; FromBytes(blob %d): %s (panic=%v %s %s)", i, j, diff, pan, msg, where)
			})
			c.Check("C14/history/receiver-reused/tampered-blob-rejected", !pan && !okT, func() string {
				return fmt.Sprintf("one receiver: FromBytes(blob %d); CheckIntegrity; …; FromBytes(blob %d with its last bit flipped): accepted by CheckIntegrity", i, j)
			})
		}
	}
	// (3) pure helpers
	data := [][]byte{{}, []byte("a"), bs[0].blob, bs[1].blob}
	purity.Check(c, "C14/history/utils.ComputeHash", "utils.ComputeHash", data, func(in []byte) [][]byte { return [][]byte{kcutils.ComputeHash(in)} })
	purity.Check(c, "C14/history/DNWithBinary.ToString", "DNWithBinary{dn, 2 bytes}.ToString", [][]byte{[]byte("CN=a,DC=x"), []byte("CN=b,DC=x"), []byte("CN=100%,DC=x"), []byte("")}, func(in []byte) [][]byte {
		d := kcl.DNWithBinary{DistinguishedName: string(in), BinaryData: []byte{0xAB, byte(len(in))}}
		return [][]byte{[]byte(d.ToString())}
	})
}
