// Package smbhist holds the object-history specifications (verif/mc/objhist) of the SMB wire
// types that carry state between calls; it is shared by the checks of C03, C05, C06 and C07.
package smbhist

import (
	"fmt"

	"github.com/TheManticoreProject/Manticore/network/smb/smb_v10/message/commands/andx"
	"github.com/TheManticoreProject/Manticore/network/smb/smb_v10/message/commands/codes"
	"github.com/TheManticoreProject/Manticore/network/smb/smb_v10/message/data"
	"github.com/TheManticoreProject/Manticore/network/smb/smb_v10/message/parameters"
	"github.com/TheManticoreProject/Manticore/network/smb/smb_v10/types"

	"verif/enum"
	"verif/mc/objhist"
	"verif/vf"
)

func cp(b []byte) []byte { return append([]byte(nil), b...) }

// Strings: SMB_STRING in one buffer format.
func Strings(c *vf.Ctx, prefix string, format byte, depth int) objhist.Stats {
	long := make([]byte, 300) // no embedded NUL: formats 0x02/0x04 are NUL-terminated
	for i := range long {
		long[i] = byte(1 + i%255)
	}
	vals := [][]byte{{}, []byte("AB"), []byte("ABCDEF"), long}
	var vs []objhist.Value
	for i, b := range vals {
		b := b
		vs = append(vs, objhist.Value{Name: fmt.Sprintf("Buffer=%dB", len(b)), Set: func(o any) {
			s := o.(*types.SMB_STRING)
			s.BufferFormat = format
			s.Buffer = cp(b) // a caller replacing the buffer directly (e.g. the next chunk of a write)
		}})
		if i == 2 {
			vs = append(vs, objhist.Value{Name: "SetString(xyz)", Set: func(o any) {
				s := o.(*types.SMB_STRING)
				s.BufferFormat = format
				s.SetString("xyz")
			}})
		}
	}
	return objhist.Run(c, objhist.Spec{
		Prefix: fmt.Sprintf("%s/SMB_STRING-format-0x%02x", prefix, format),
		New:    func() any { return types.NewSMB_STRING([]byte{}) },
		Values: vs,
		Encode: func(o any) ([]byte, error) { return o.(*types.SMB_STRING).Marshal() },
		Decode: func(o any, b []byte) (int, error) { return o.(*types.SMB_STRING).Unmarshal(b) },
		Fields: func(o any) string {
			s := o.(*types.SMB_STRING)
			return fmt.Sprintf("format=%#x buffer=%x", s.BufferFormat, s.Buffer)
		},
		Depth: depth,
	})
}

func ResumeKey(c *vf.Ctx, prefix string, depth int) objhist.Stats {
	type rk struct {
		r  byte
		ss [16]byte
		cs [4]byte
	}
	mk := func(seed byte) rk {
		var v rk
		v.r = seed
		for i := range v.ss {
			v.ss[i] = seed + byte(i) + 1
		}
		for i := range v.cs {
			v.cs[i] = seed ^ byte(0xF0+i)
		}
		return v
	}
	var vs []objhist.Value
	for _, sd := range []byte{0x00, 0x11, 0x80} {
		v := mk(sd)
		vs = append(vs, objhist.Value{Name: fmt.Sprintf("key#%02x", sd), Set: func(o any) {
			k := o.(*types.SMB_RESUME_KEY)
			k.Reserved, k.ServerState, k.ClientState = v.r, v.ss, v.cs
		}})
	}
	// a caller changing ONE field between two encodings
	vs = append(vs, objhist.Value{Name: "key#11+ClientState=deadbeef", Set: func(o any) {
		k := o.(*types.SMB_RESUME_KEY)
		v := mk(0x11)
		k.Reserved, k.ServerState, k.ClientState = v.r, v.ss, [4]byte{0xde, 0xad, 0xbe, 0xef}
	}})
	return objhist.Run(c, objhist.Spec{
		Prefix: prefix + "/SMB_RESUME_KEY",
		New:    func() any { return types.NewSMB_RESUME_KEY() },
		Values: vs,
		Encode: func(o any) ([]byte, error) { return o.(*types.SMB_RESUME_KEY).Marshal() },
		Decode: func(o any, b []byte) (int, error) { return o.(*types.SMB_RESUME_KEY).Unmarshal(b) },
		Fields: func(o any) string {
			k := o.(*types.SMB_RESUME_KEY)
			return fmt.Sprintf("reserved=%02x server=%x client=%x", k.Reserved, k.ServerState, k.ClientState)
		},
		Depth: depth,
	})
}

func Data(c *vf.Ctx, prefix string, depth int) objhist.Stats {
	var vs []objhist.Value
	for _, b := range [][]byte{{}, {1, 2, 3}, enum.Counter(300, 7), {9}} {
		b := b
		vs = append(vs, objhist.Value{Name: fmt.Sprintf("SetData(%dB)", len(b)), Set: func(o any) { o.(*data.Data).SetData(cp(b)) }})
	}
	return objhist.Run(c, objhist.Spec{
		Prefix: prefix + "/Data",
		New:    func() any { return data.NewData() },
		Values: vs,
		Encode: func(o any) ([]byte, error) { return o.(*data.Data).Marshal() },
		Decode: func(o any, b []byte) (int, error) { return o.(*data.Data).Unmarshal(b) },
		Fields: func(o any) string { d := o.(*data.Data); return fmt.Sprintf("bytes=%x", d.GetBytes()) },
		Depth:  depth,
		// a block that announces more bytes than follow must be refused; what Add builds on top of whatever the
		// object then holds must still be framed by its own byte count
		BadInputs: []objhist.Bad{{Name: "count=10 with 2 bytes", Bytes: []byte{10, 0, 0xAA, 0xBB}}, {Name: "count=0x0105 with none", Bytes: []byte{5, 1}}},
		Mutators: []objhist.Value{
			{Name: "Add(3B)", Set: func(o any) { o.(*data.Data).Add([]byte{7, 8, 9}) }},
			{Name: "Add(0B)", Set: func(o any) { o.(*data.Data).Add(nil) }},
		},
		Consistent: func(enc []byte) string {
			if len(enc) < 2 {
				return "shorter than the ByteCount field"
			}
			if n := int(enc[0]) | int(enc[1])<<8; n != len(enc)-2 {
				return fmt.Sprintf("ByteCount announces %d bytes, %d follow", n, len(enc)-2)
			}
			return ""
		},
	})
}

func Parameters(c *vf.Ctx, prefix string, depth int) objhist.Stats {
	var vs []objhist.Value
	for _, n := range []int{0, 2, 5, 4, 1} {
		n := n
		vs = append(vs, objhist.Value{Name: fmt.Sprintf("%d words", n), Set: func(o any) {
			p := o.(*parameters.Parameters)
			p.Words = make([]uint16, n)
			for i := range p.Words {
				p.Words[i] = uint16(0x0101*n + i)
			}
			p.WordCount = uint8(n)
		}})
	}
	// built the way every command's Marshal builds it
	vs = append(vs, objhist.Value{Name: "AddWord x3 on fresh words", Set: func(o any) {
		p := o.(*parameters.Parameters)
		p.Words, p.WordCount = []uint16{}, 0
		p.AddWord(0xA1A2)
		p.AddWord(0xB1B2)
		p.AddWord(0xC1C2)
	}})
	return objhist.Run(c, objhist.Spec{
		Prefix: prefix + "/Parameters",
		New:    func() any { return parameters.NewParameters() },
		Values: vs,
		Encode: func(o any) ([]byte, error) { return o.(*parameters.Parameters).Marshal() },
		Decode: func(o any, b []byte) (int, error) { return o.(*parameters.Parameters).Unmarshal(b) },
		Fields: func(o any) string { p := o.(*parameters.Parameters); return fmt.Sprintf("words=%04x", p.Words) },
		Depth:  depth,
	})
}

func AndX(c *vf.Ctx, prefix string, depth int) objhist.Stats {
	var vs []objhist.Value
	for _, v := range [][3]uint16{{0x2e, 0, 0x0102}, {0xff, 0, 0}, {0xff, 0x7f, 0x8001}, {0x75, 0xff, 0xfffe}} {
		v := v
		vs = append(vs, objhist.Value{Name: fmt.Sprintf("cmd=%02x res=%02x off=%04x", v[0], v[1], v[2]), Set: func(o any) {
			a := o.(*andx.AndX)
			a.AndXCommand, a.AndXReserved, a.AndXOffset = codes.CommandCode(v[0]), uint8(v[1]), v[2]
		}})
	}
	return objhist.Run(c, objhist.Spec{
		Prefix: prefix + "/AndX",
		New:    func() any { return andx.NewAndX() },
		Values: vs,
		Encode: func(o any) ([]byte, error) { return o.(*andx.AndX).Marshal() },
		Decode: func(o any, b []byte) (int, error) { return o.(*andx.AndX).Unmarshal(b) },
		Fields: func(o any) string {
			a := o.(*andx.AndX)
			return fmt.Sprintf("cmd=%02x res=%02x off=%04x", uint8(a.AndXCommand), a.AndXReserved, a.AndXOffset)
		},
		Depth: depth,
	})
}

// OEMString: the object's exported BufferFormat may hold anything a caller (or an earlier decode of
// another string type) left there; the OEM string is format 0x04 on the wire whatever it holds.
func OEMString(c *vf.Ctx, prefix string, depth int) objhist.Stats {
	var vs []objhist.Value
	for _, f := range []byte{4, 0, 1, 2, 3, 5} {
		f := f
		vs = append(vs, objhist.Value{Name: fmt.Sprintf("BufferFormat=%d;SetString(NAME%d.TXT)", f, f), Set: func(o any) {
			s := o.(*types.OEM_STRING)
			s.BufferFormat = f
			s.SetString(fmt.Sprintf("NAME%d.TXT", f))
		}})
	}
	vs = append(vs, objhist.Value{Name: "SetString(empty)", Set: func(o any) { o.(*types.OEM_STRING).SetString("") }})
	return objhist.Run(c, objhist.Spec{
		Prefix: prefix + "/OEM_STRING",
		New:    func() any { return types.NewOEM_STRING() },
		Values: vs,
		Encode: func(o any) ([]byte, error) { return o.(*types.OEM_STRING).Marshal() },
		Decode: func(o any, b []byte) (int, error) { return o.(*types.OEM_STRING).Unmarshal(b) },
		Fields: func(o any) string { return fmt.Sprintf("string=%q", o.(*types.OEM_STRING).GetString()) },
		Depth:  depth,
	})
}

// All runs every specification and returns the totals.
func All(c *vf.Ctx, prefix string, depth int) (states, transitions int) {
	add := func(s objhist.Stats) { states += s.States; transitions += s.Transitions }
	for f := byte(1); f <= 5; f++ {
		add(Strings(c, prefix, f, depth))
	}
	add(ResumeKey(c, prefix, depth))
	add(Data(c, prefix, depth))
	add(Parameters(c, prefix, depth))
	add(AndX(c, prefix, depth))
	add(OEMString(c, prefix, depth))
	return
}
