// C18 — name-service servers/clients isolate concurrent requests and stop cleanly.
//
// Engine E3: the working-tree sources of network/netbios/nbtns and network/llmnr are
// instrumented (sync/net/time/rand shims, go statements, channel operations) and run on a
// simulated network under the controlled scheduler; every schedule up to a preemption bound
// is explored with the E1 DFS. A separate free-running -race pass over real loopback
// sockets samples unsynchronised accesses.
package main

import (
	"fmt"
	"io"
	"log"
	"os"
	"runtime"
	"strings"
	"time"

	"github.com/TheManticoreProject/Manticore/zz_verif/vrt"

	"verif/mc/explore"
	"verif/vf"
)

func main() {
	log.SetOutput(io.Discard)
	vf.Main("C18", "model_checking", run)
}

// exec is the per-execution recorder handed to a scenario body.
type exec struct {
	log   []string
	fails map[string]string
}

func (x *exec) obs(f string, a ...any) { x.log = append(x.log, fmt.Sprintf(f, a...)) }
func (x *exec) fail(key, f string, a ...any) {
	if _, dup := x.fails[key]; !dup {
		x.fails[key] = fmt.Sprintf(f, a...)
	}
}

type chooser struct {
	r   *explore.Run
	err any
}

func (ch *chooser) ChooseCost(n int, label string, cost []int) (i int) {
	defer func() {
		if x := recover(); x != nil {
			ch.err = x
			i = 0
		}
	}()
	return ch.r.ChooseCost(n, label, cost)
}

type scenario struct {
	name string   // obligation key prefix: C18/<name>/...
	keys []string // obligations evaluated on every execution
	body func(x *exec)
	// bounds
	bound    int
	maxExec  int64
	maxSteps int
	faults   int // environment faults the explorer may inject (each costs one deviation)
}

type totals struct {
	scenarios, executions, outcomes int64
	maxPoints                       int
	steps                           int64
}

func runOnce(sc *scenario, r *explore.Run, trace bool) (*exec, vrt.Outcome) {
	x := &exec{fails: map[string]string{}}
	curExec = x
	vrt.FaultBudget = sc.faults
	ch := &chooser{r: r}
	done := make(chan vrt.Outcome, 1)
	go func() { done <- vrt.Run(ch, sc.maxSteps, 1, trace, func() { sc.body(x) }) }()
	var out vrt.Outcome
	select {
	case out = <-done:
	case <-time.After(120 * time.Second):
		// an un-hooked blocking operation froze the cooperative scheduler: harness error, never a verdict
		fmt.Fprintf(os.Stderr, "HARNESS-ERROR property=C18 scenario %s: execution did not finish within 120 s of real time (un-instrumented blocking operation?) schedule=%v\n", sc.name, r.Choices)
		os.Exit(2)
	}
	if ch.err != nil {
		panic(ch.err)
	}
	return x, out
}

func drive(c *vf.Ctx, sc *scenario, tot *totals) {
	if c.DeadlineExceeded() {
		return
	}
	if sc.maxSteps == 0 {
		sc.maxSteps = 6000
	}
	if sc.maxExec == 0 {
		sc.maxExec = int64(c.Pick(150000, 4000000))
	}
	pre := "C18/" + sc.name + "/"
	nexec := int64(0)
	ex := &explore.Explorer{Bound: sc.bound, Cap: sc.maxExec, Stop: c.DeadlineExceeded, Tolerant: true, Retries: 16}
	unconfirmed := 0
	ex.Body = func(r *explore.Run) {
		x, out := runOnce(sc, r, false)
		nexec++
		tot.steps += int64(out.Steps)
		r.ObserveS(strings.Join(x.log, "\n"))
		failed := len(x.fails) > 0 || out.Deadlock || out.Panic != "" || out.StepCap
		var trace string
		if failed {
			// replay the same schedule: identical observations are required before a failure is believed
			xr, outr := replay(sc, r.Choices)
			same := func() bool {
				return strings.Join(xr.log, "\n") == strings.Join(x.log, "\n") && outr.Deadlock == out.Deadlock
			}
			for k := 0; k < 8 && !same(); k++ {
				xr, outr = replay(sc, r.Choices)
			}
			if !same() {
				// the same schedule does not fail every time: something the scheduler does not own (map iteration
				// order …) takes part; never believed, reported as a cap
				unconfirmed++
				return
			}
			trace = strings.Join(outr.Trace, " → ")
			if len(trace) > 2500 {
				trace = trace[:2500] + "…"
			}
		}
		w := func(msg string) func() string {
			return func() string {
				return fmt.Sprintf("scenario=%s schedule=%v (preemptions=%d): %s | observations: %s | trace: %s", sc.name, r.Choices, out.Preempts, msg, strings.Join(x.log, " ; "), trace)
			}
		}
		c.Check(pre+"no-deadlock", !out.Deadlock, w("no thread can run: "+strings.Join(out.Blocked, ", ")))
		c.Check(pre+"no-panic", out.Panic == "", w("panic: "+out.Panic+" @ "+out.PanicStack))
		// every scenario needs a few hundred scheduler steps; thousands mean a loop that never blocks
		c.Check(pre+"no-livelock", !out.StepCap, w(fmt.Sprintf("the execution was still running after %d scheduler steps (a loop keeps polling without ever blocking or exiting)", sc.maxSteps)))
		for _, k := range sc.keys {
			msg, bad := x.fails[k]
			c.Check(pre+k, !bad, w(msg))
		}
		for k, msg := range x.fails {
			known := false
			for _, kk := range sc.keys {
				if kk == k {
					known = true
				}
			}
			if !known {
				c.Check(pre+k, false, w(msg))
			}
		}
		if len(r.Choices) > tot.maxPoints {
			tot.maxPoints = len(r.Choices)
		}
	}
	// determinism of the default schedule
	a, _ := runOnce(sc, &explore.Run{}, false)
	b, _ := runOnce(sc, &explore.Run{}, false)
	if strings.Join(a.log, "\n") != strings.Join(b.log, "\n") {
		c.Cap(fmt.Sprintf("scenario %s is not deterministic under the default schedule (nondeterminism the scheduler does not own, e.g. map iteration order in the code under test): observations %v vs %v", sc.name, a.log, b.log))
	}
	st, err := ex.Explore()
	if err != nil {
		c.Fatalf("scenario %s: %v", sc.name, err)
	}
	if st.Divergences > 0 || unconfirmed > 0 {
		c.Cap(fmt.Sprintf("scenario %s: %d replays did not reproduce an executed prefix (%d subtrees abandoned after 16 retries), %d failing executions could not be reproduced and are not reported — the code under test uses a source of nondeterminism the scheduler does not own (e.g. map iteration order)", sc.name, st.Divergences, st.Abandoned, unconfirmed))
	}
	if st.CapHit {
		c.Cap(fmt.Sprintf("scenario %s: execution cap %d reached at preemption bound %d", sc.name, sc.maxExec, sc.bound))
	}
	tot.scenarios++
	tot.executions += st.Executions
	tot.outcomes += int64(st.DistinctOutcomes)
	c.Sample("scenario", map[string]any{"scenario": sc.name, "preemption_bound": sc.bound, "schedules": st.Executions, "distinct_observations": st.DistinctOutcomes, "max_choice_points": st.MaxDepth, "cap_hit": st.CapHit, "default_schedule_observations": a.log})
	for i := 0; i < st.DistinctOutcomes; i++ {
		c.Distinct([]byte(sc.name), []byte(fmt.Sprint(i)))
	}
	c.Set("scenario_"+sc.name, map[string]any{"schedules": st.Executions, "distinct_observations": st.DistinctOutcomes, "bound": sc.bound, "cap_hit": st.CapHit})
}

type fixed struct {
	choices []int
	i       int
}

func (f *fixed) ChooseCost(n int, label string, cost []int) int {
	c := 0
	if f.i < len(f.choices) {
		c = f.choices[f.i]
	}
	f.i++
	if c >= n {
		c = 0
	}
	return c
}

func replay(sc *scenario, choices []int) (*exec, vrt.Outcome) {
	x := &exec{fails: map[string]string{}}
	curExec = x
	vrt.FaultBudget = sc.faults
	out := vrt.Run(&fixed{choices: choices}, sc.maxSteps, 1, true, func() { sc.body(x) })
	return x, out
}

func run(c *vf.Ctx) {
	c.Rule("each scenario = a closed system (library server/client from the instrumented working tree + 1-3 harness clients/responders + optional stopper) on a simulated network; ALL schedules with at most B deviations from a deterministic round-robin scheduler are executed (B=3 quick, 4 thorough; a deviation = a preemption or resuming a non-default thread at a blocking point); opcode routing: all 16 opcodes x 3 dispatchers; handler chains: all boolean return combinations up to length 3; distinct = distinct observation logs (event order + values)")
	c.Assume("scheduling points at synchronisation and network operations only, sequential consistency; the kernel is replaced by the vnet shim (documented blocking/close/deadline/at-most-once semantics); virtual time advances only at quiescence; unsynchronised accesses are sampled by the separate free-running -race pass")
	B := c.Pick(3, 4)
	all := append(nbnsScenarios(c, B), llmnrScenarios(c, B)...)
	all = append(all, challengeScenarios(c, B)...)
	all = append(all, faultScenarios(c, B)...)
	if !vf.IsWorker() {
		w := runtime.NumCPU()
		if w > 16 {
			w = 16
		}
		c.RunShards(w)
		c.Set("scenarios", len(all))
		c.Set("deviation_bound_completed", B)
		c.Set("bound_semantics", "delay bounding: the default scheduler runs the current thread until it blocks, then the next enabled thread in round-robin order; every departure from that (a preemption, or resuming a different thread at a blocking point) costs one deviation; ALL schedules with at most B deviations are executed")
		c.Set("traces_validated_against_impl", c.Get("schedules"))
		racePass(c)
		return
	}
	vrt.ReleasePoints = true
	vrt.SelectOrders = true // which ready case of a multi-case select fires is the explorer's choice, not the Go runtime's
	if dn, err := os.OpenFile(os.DevNull, os.O_WRONLY, 0); err == nil {
		os.Stdout = dn // the library's packet-describing handlers print; workers report through their shard file
	}
	tot := &totals{}
	si, sn := vf.ShardOf()
	for idx, sc := range all {
		if idx%sn == si {
			drive(c, sc, tot)
		}
	}
	c.Add("schedules", tot.executions)
	c.Add("states", tot.outcomes)
	c.Add("transitions", tot.steps)
	c.Evals(tot.executions)
	return
	racePass(c)
}
