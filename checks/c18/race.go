package main

import (
	"os"
	osexec "os/exec"
	"path/filepath"
	"strings"
	"time"

	"verif/vf"
)

// racePass runs the free-running -race binary (real loopback sockets, real goroutines, the
// un-instrumented working tree). Only the race detector's verdict is used.
func racePass(c *vf.Ctx) {
	bin := filepath.Join(os.Getenv("VERIF_WORK"), "racepass")
	if _, err := os.Stat(bin); err != nil {
		c.Fatalf("race-pass binary missing: %v", err)
	}
	rounds := "12"
	if c.Thorough() {
		rounds = "120"
	}
	cmd := osexec.Command(bin, rounds)
	cmd.Env = append(os.Environ(), "GORACE=halt_on_error=1 exitcode=66")
	type res struct {
		out []byte
		err error
	}
	ch := make(chan res, 1)
	go func() { o, e := cmd.CombinedOutput(); ch <- res{o, e} }()
	var r res
	select {
	case r = <-ch:
	case <-time.After(10 * time.Minute):
		cmd.Process.Kill()
		c.Cap("free-running race pass did not finish within 10 minutes; its verdict is not used")
		c.Set("race_pass", map[string]any{"completed": false})
		return
	}
	s := string(r.out)
	race := strings.Contains(s, "WARNING: DATA RACE") || strings.Contains(s, "fatal error: concurrent map")
	c.Check("C18/race-pass/no-data-race", !race, func() string {
		if len(s) > 3500 {
			s = s[:3500]
		}
		return "free-running -race pass over real loopback sockets reported: " + s
	})
	if r.err != nil && !race {
		c.Cap("free-running race pass ended abnormally (" + r.err.Error() + "); its verdict is not used")
	}
	last := s
	if i := strings.LastIndex(strings.TrimSpace(s), "\n"); i >= 0 {
		last = strings.TrimSpace(s)[i+1:]
	}
	c.Set("race_pass", map[string]any{"rounds": rounds, "race_reported": race, "summary": last, "note": "auxiliary sampling pass; behaviour is not judged, only the race detector's verdict"})
}
