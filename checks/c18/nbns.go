package main

import (
	"encoding/binary"
	"fmt"
	"io"
	"net"
	"reflect"
	"sort"
	"strings"
	"time"
	"unsafe"

	"github.com/TheManticoreProject/Manticore/network/netbios/nbtns"
	"github.com/TheManticoreProject/Manticore/zz_verif/vnet"
	"github.com/TheManticoreProject/Manticore/zz_verif/vrt"
	"github.com/TheManticoreProject/Manticore/zz_verif/vtime"

	"verif/vf"
)

const sec = int64(time.Second)

// curExec is the recorder of the running execution (set by runOnce) so that helpers can log event order.
var curExec *exec

var (
	ipX = net.IP{10, 0, 0, 1}
	ipY = net.IP{10, 0, 0, 2}
	ipZ = net.IP{10, 0, 0, 3}
	ipW = net.IP{10, 0, 0, 4}
)

// tableOf finds the *NetBIOSNameServer held privately by a server value (by type, via reflect/unsafe).
func tableOf(srv any) *nbtns.NetBIOSNameServer {
	v := reflect.ValueOf(srv).Elem()
	want := reflect.TypeOf((*nbtns.NetBIOSNameServer)(nil))
	for i := 0; i < v.NumField(); i++ {
		if v.Field(i).Type() == want {
			return *(**nbtns.NetBIOSNameServer)(unsafe.Pointer(v.Field(i).UnsafeAddr()))
		}
	}
	return nil
}

// transaction ids of the N-client scenarios: both ends of the range (0 is an id like any other)
var nbIDs = []uint16{0x0000, 0xFFFF, 0x1111, 0x2222}

func mkQuery(id uint16, opcode int, name string) []byte { return mkQueryPad(id, opcode, name, -1) }

// mkQueryPad adds an additional record with pad bytes of RDATA (ignored by the servers) so that
// concurrent requests differ in length.
func mkQueryPad(id uint16, opcode int, name string, pad int) []byte {
	p := &nbtns.NBTNSPacket{
		Header:    nbtns.NBTNSHeader{TransactionID: id, Flags: uint16(opcode) << 11, Questions: 1},
		Questions: []nbtns.NBTNSQuestion{{Name: &nbtns.NetBIOSName{Name: name}, Type: 0x20, Class: 1}},
	}
	if pad >= 0 {
		p.Header.Additional = 1
		p.Additional = []nbtns.NBTNSResourceRecord{{Name: &nbtns.NetBIOSName{Name: "PAD"}, Type: 0x21, Class: 1, RDLength: uint16(pad), RData: make([]byte, pad)}}
	}
	b, err := p.Marshal()
	if err != nil {
		panic("harness: cannot marshal query: " + err.Error())
	}
	return b
}

func mkUpdate(id uint16, opcode int, name string, ip net.IP, group bool, ttl uint32) []byte {
	fl := uint16(opcode) << 11
	if group {
		fl |= 0x0080
	}
	p := &nbtns.NBTNSPacket{
		Header:  nbtns.NBTNSHeader{TransactionID: id, Flags: fl, Answers: 1},
		Answers: []nbtns.NBTNSResourceRecord{{Name: &nbtns.NetBIOSName{Name: name}, Type: 0x20, Class: 1, TTL: ttl, RDLength: uint16(len(ip)), RData: ip}},
	}
	b, err := p.Marshal()
	if err != nil {
		panic("harness: cannot marshal update: " + err.Error())
	}
	return b
}

type resp struct {
	rawID   uint16
	parsed  bool
	perr    string
	rcode   int
	flags   uint16
	answers []string
}

func (r resp) String() string {
	if !r.parsed {
		return fmt.Sprintf("{id=%04x UNPARSEABLE(%s)}", r.rawID, r.perr)
	}
	return fmt.Sprintf("{id=%04x rcode=%d answers=[%s]}", r.rawID, r.rcode, strings.Join(r.answers, ","))
}

func parseResp(b []byte) resp {
	var r resp
	if len(b) >= 2 {
		r.rawID = binary.BigEndian.Uint16(b)
	}
	var p nbtns.NBTNSPacket
	var err error
	pan, msg, _ := vf.Try(func() { _, err = p.Unmarshal(b) })
	if pan {
		r.perr = "panic: " + msg
		return r
	}
	if err != nil {
		r.perr = err.Error()
		return r
	}
	r.parsed = true
	r.flags = p.Header.Flags
	r.rcode = int(p.Header.Flags & 0x000F)
	for _, a := range p.Answers {
		r.answers = append(r.answers, net.IP(a.RData).String()+"@"+a.Name.Name)
	}
	return r
}

// udpExchange sends one request and collects every datagram that arrives within one virtual second.
func udpExchange(srv *net.UDPAddr, req []byte) []resp {
	conn, err := vnet.ListenUDP("udp", &net.UDPAddr{IP: net.IPv4(127, 0, 0, 1)})
	if err != nil {
		panic("harness: " + err.Error())
	}
	defer conn.Close()
	if _, err := conn.WriteToUDP(req, srv); err != nil {
		return nil
	}
	conn.SetReadDeadline(vtime.Now().Add(time.Second))
	var out []resp
	buf := make([]byte, 2048)
	for {
		n, _, err := conn.ReadFromUDP(buf)
		if err != nil {
			return out
		}
		r := parseResp(append([]byte(nil), buf[:n]...))
		if curExec != nil {
			curExec.obs("recv %04x", r.rawID) // arrival order is part of the observation
		}
		out = append(out, r)
	}
}

// tcpExchange sends the requests on one connection (first request split at cut) and collects responses.
func tcpExchange(addr string, reqs [][]byte, cut int) ([]resp, string) {
	conn, err := vnet.Dial("tcp", addr)
	if err != nil {
		return nil, "dial: " + err.Error()
	}
	defer conn.Close()
	var out []resp
	for i, rq := range reqs {
		frame := append(binary.BigEndian.AppendUint16(nil, uint16(len(rq))), rq...)
		if i == 0 && cut > 0 && cut < len(frame) {
			if _, err := conn.Write(frame[:cut]); err != nil {
				return out, "write: " + err.Error()
			}
			frame = frame[cut:]
		}
		if _, err := conn.Write(frame); err != nil {
			return out, "write: " + err.Error()
		}
		conn.SetReadDeadline(vtime.Now().Add(time.Second))
		var l [2]byte
		if _, err := io.ReadFull(conn, l[:]); err != nil {
			return out, "read length: " + err.Error()
		}
		body := make([]byte, binary.BigEndian.Uint16(l[:]))
		if _, err := io.ReadFull(conn, body); err != nil {
			return out, "read body: " + err.Error()
		}
		r := parseResp(body)
		if curExec != nil {
			curExec.obs("recv %04x", r.rawID)
		}
		out = append(out, r)
	}
	return out, ""
}

type nbServer interface {
	Start() error
	Stop()
}

type impl struct {
	name string
	tcp  bool
	mk   func() (nbServer, *nbtns.NetBIOSNameServer)
}

func impls() []impl {
	return []impl{
		{"Server", false, func() (nbServer, *nbtns.NetBIOSNameServer) {
			s, err := nbtns.NewServer("127.0.0.1:137", false)
			if err != nil {
				panic("harness: " + err.Error())
			}
			return s, tableOf(s)
		}},
		{"UDPServer", false, func() (nbServer, *nbtns.NetBIOSNameServer) {
			t := nbtns.NewNetBIOSNameServer(false)
			s, err := nbtns.NewUDPServer("127.0.0.1:137", t)
			if err != nil {
				panic("harness: " + err.Error())
			}
			return s, t
		}},
		{"TCPServer", true, func() (nbServer, *nbtns.NetBIOSNameServer) {
			t := nbtns.NewNetBIOSNameServer(false)
			s, err := nbtns.NewTCPServer("127.0.0.1:137", t)
			if err != nil {
				panic("harness: " + err.Error())
			}
			return s, t
		}},
	}
}

var srvUDP = &net.UDPAddr{IP: net.IPv4(127, 0, 0, 1), Port: 137}

// checkQueryResp validates what a client received for a name query it sent.
func checkQueryResp(x *exec, who string, id uint16, name string, want net.IP, rs []resp, mustAnswer bool) {
	x.obs("%s got %v", who, rs)
	if mustAnswer && len(rs) != 1 {
		x.fail("exactly-one-response-per-request", "%s (id %04x, name %s) received %d responses: %v", who, id, name, len(rs), rs)
	}
	if len(rs) > 1 {
		x.fail("at-most-one-response-per-request", "%s (id %04x, name %s) received %d responses: %v", who, id, name, len(rs), rs)
	}
	for _, r := range rs {
		if r.rawID != id {
			x.fail("response-carries-own-transaction-id", "%s sent id %04x but received a response with id %04x: %v", who, id, r.rawID, r)
			continue
		}
		if !r.parsed {
			x.fail("response-is-parseable", "%s (id %04x): the library cannot parse the server's own response: %s", who, id, r.perr)
			continue
		}
		ok := r.rcode == 0 && len(r.answers) == 1 && r.answers[0] == want.String()+"@"+name
		if !ok {
			x.fail("response-answers-own-question", "%s asked for %s (owner %s) with id %04x and received %v", who, name, want, id, r)
		}
	}
}

func stopAndDrain(x *exec, s nbServer) {
	t0 := vrt.Now()
	s.Stop()
	dt := vrt.Now() - t0
	x.obs("stop returned after %dms virtual", dt/1e6)
	if dt >= sec {
		x.fail("stop-returns-promptly", "Stop needed %d ms of virtual time (it waited for a timeout instead of being woken by the shutdown)", dt/1e6)
	}
	if alive := vrt.Drain(120 * sec); len(alive) > 0 {
		x.fail("no-goroutine-left-after-stop", "threads still alive 120 virtual seconds after Stop returned: %v", alive)
	}
}

var respKeys = []string{"exactly-one-response-per-request", "at-most-one-response-per-request", "response-carries-own-transaction-id", "response-is-parseable", "response-answers-own-question", "stop-returns-promptly", "no-goroutine-left-after-stop"}

func nbnsScenarios(c *vf.Ctx, B int) []*scenario {
	var out []*scenario
	for _, im := range impls() {
		im := im
		seed := func(t *nbtns.NetBIOSNameServer) {
			t.RegisterName("NX", nbtns.Unique, ipX, time.Hour)
			t.RegisterName("NY", nbtns.Unique, ipY, time.Hour)
			t.RegisterName("NZ", nbtns.Unique, ipZ, time.Hour)
		}
		// R: two nodes claim the same NEW unique name at the same moment: exactly one is told it owns the name, and
		// that one is the owner the table then names
		out = append(out, &scenario{name: "nbns-" + im.name + "-two-registrations-of-one-new-name", keys: respKeys, bound: B, body: func(x *exec) {
			s, t := im.mk()
			seed(t)
			if err := s.Start(); err != nil {
				panic("harness: start: " + err.Error())
			}
			reqA := mkUpdate(0x1111, 5, "NEW", ipX, false, 3600)
			reqB := mkUpdate(0x2222, 5, "NEW", ipY, false, 3600)
			var ra, rb []resp
			var h1, h2 *vrt.T
			if im.tcp {
				h1 = vrt.GoNamed("connA", func() { ra, _ = tcpExchange("127.0.0.1:137", [][]byte{reqA}, 0) })
				h2 = vrt.GoNamed("connB", func() { rb, _ = tcpExchange("127.0.0.1:137", [][]byte{reqB}, 0) })
			} else {
				h1 = vrt.GoNamed("clientA", func() { ra = udpExchange(srvUDP, reqA) })
				h2 = vrt.GoNamed("clientB", func() { rb = udpExchange(srvUDP, reqB) })
			}
			vrt.Join(h1)
			vrt.Join(h2)
			x.obs("A got %v; B got %v", ra, rb)
			if len(ra) != 1 || len(rb) != 1 {
				x.fail("exactly-one-response-per-request", "registration A received %d responses, registration B %d", len(ra), len(rb))
			}
			okA := len(ra) == 1 && ra[0].parsed && ra[0].rawID == 0x1111 && ra[0].rcode == 0
			okB := len(rb) == 1 && rb[0].parsed && rb[0].rawID == 0x2222 && rb[0].rcode == 0
			owners, _, qerr := t.QueryName("NEW")
			x.obs("table: NEW -> %v %v", owners, qerr)
			if len(ra) == 1 && len(rb) == 1 && ra[0].parsed && rb[0].parsed {
				if okA == okB {
					x.fail("response-answers-own-question", "two nodes registered the unique name NEW at the same time: A (10.0.0.1) got %v, B (10.0.0.2) got %v — exactly one of them may be told it owns the name; the table says %v", ra[0], rb[0], owners)
				} else {
					want := ipX
					if okB {
						want = ipY
					}
					if qerr != nil || len(owners) != 1 || !owners[0].Equal(want) {
						x.fail("response-answers-own-question", "the node that was told it owns NEW is %s, but the table names %v (%v)", want, owners, qerr)
					}
				}
			}
			stopAndDrain(x, s)
		}})
		// F: a second server cannot bind the address (in use): its Start fails — and its Stop must still return
		out = append(out, &scenario{name: "nbns-" + im.name + "-failed-start-then-stop", keys: respKeys, bound: B, body: func(x *exec) {
			s, t := im.mk()
			seed(t)
			if err := s.Start(); err != nil {
				panic("harness: start: " + err.Error())
			}
			s2, _ := im.mk()
			err2 := s2.Start()
			x.obs("second Start on the same address: err=%v", err2 != nil)
			if err2 == nil {
				x.fail("harness", "the simulated network let two servers bind one address")
			}
			hs := vrt.GoNamed("stop-second", func() { s2.Stop() })
			var r1 []resp
			if im.tcp {
				r1, _ = tcpExchange("127.0.0.1:137", [][]byte{mkQuery(0x1111, 0, "NX")}, 0)
			} else {
				r1 = udpExchange(srvUDP, mkQuery(0x1111, 0, "NX"))
			}
			checkQueryResp(x, "client", 0x1111, "NX", ipX, r1, true)
			vrt.Join(hs)
			stopAndDrain(x, s)
		}})
		// G: a query for a group name racing with the release of a member that is not the last of the list
		// (and, second variant, with a member joining): the answer is the member list before or after it
		for _, upd := range []string{"release", "join"} {
			upd := upd
			out = append(out, &scenario{name: "nbns-" + im.name + "-group-query-vs-" + upd, keys: respKeys, bound: B, body: func(x *exec) {
				s, t := im.mk()
				seed(t)
				t.RegisterName("GRP", nbtns.Group, ipX, time.Hour)
				t.RegisterName("GRP", nbtns.Group, ipY, time.Hour)
				t.RegisterName("GRP", nbtns.Group, ipZ, time.Hour)
				if err := s.Start(); err != nil {
					panic("harness: start: " + err.Error())
				}
				before := []string{ipX.String(), ipY.String(), ipZ.String()}
				after := []string{ipY.String(), ipZ.String()}
				req := mkUpdate(0x2222, 6, "GRP", ipX, true, 0)
				if upd == "join" {
					req = mkUpdate(0x2222, 5, "GRP", ipW, true, 3600)
					after = []string{ipX.String(), ipY.String(), ipZ.String(), ipW.String()}
				}
				var rq, ru []resp
				var h1, h2 *vrt.T
				if im.tcp {
					h1 = vrt.GoNamed("connQ", func() { rq, _ = tcpExchange("127.0.0.1:137", [][]byte{mkQuery(0x1111, 0, "GRP")}, 0) })
					h2 = vrt.GoNamed("connR", func() { ru, _ = tcpExchange("127.0.0.1:137", [][]byte{req}, 0) })
				} else {
					h1 = vrt.GoNamed("clientQ", func() { rq = udpExchange(srvUDP, mkQuery(0x1111, 0, "GRP")) })
					h2 = vrt.GoNamed("clientR", func() { ru = udpExchange(srvUDP, req) })
				}
				vrt.Join(h1)
				vrt.Join(h2)
				x.obs("query got %v; %s got %v", rq, upd, ru)
				if len(rq) != 1 || len(ru) != 1 {
					x.fail("exactly-one-response-per-request", "group query received %d responses, %s received %d", len(rq), upd, len(ru))
				}
				for _, r := range rq {
					if r.rawID != 0x1111 {
						x.fail("response-carries-own-transaction-id", "query sent id 1111 and received %v", r)
						continue
					}
					if !r.parsed {
						x.fail("response-is-parseable", "group query: the library cannot parse the server's own response: %s", r.perr)
						continue
					}
					var got []string
					for _, a := range r.answers {
						got = append(got, strings.TrimSuffix(a, "@GRP"))
					}
					sort.Strings(got)
					b, a := append([]string{}, before...), append([]string{}, after...)
					sort.Strings(b)
					sort.Strings(a)
					if r.rcode != 0 || (fmt.Sprint(got) != fmt.Sprint(b) && fmt.Sprint(got) != fmt.Sprint(a)) {
						x.fail("response-answers-own-question", "query for group GRP (members %v, concurrently %s -> %v) was answered %v: a member list the name table never had", before, upd, after, r)
					}
				}
				for _, r := range ru {
					if r.rawID != 0x2222 {
						x.fail("response-carries-own-transaction-id", "%s client sent id 2222 and received %v", upd, r)
					}
				}
				stopAndDrain(x, s)
			}})
		}
		if !im.tcp {
			// A: two/three concurrent datagram clients
			for _, nc := range []int{2, 3} {
				nc := nc
				out = append(out, &scenario{name: fmt.Sprintf("nbns-%s-%dclients", im.name, nc), keys: respKeys, bound: B, body: func(x *exec) {
					s, t := im.mk()
					seed(t)
					if err := s.Start(); err != nil {
						panic("harness: start: " + err.Error())
					}
					names := []string{"NX", "NY", "NZ"}
					ips := []net.IP{ipX, ipY, ipZ}
					res := make([][]resp, nc)
					var hs []*vrt.T
					for i := 0; i < nc; i++ {
						i := i
						hs = append(hs, vrt.GoNamed("client"+names[i], func() {
							res[i] = udpExchange(srvUDP, mkQuery(nbIDs[i], 0, names[i]))
						}))
					}
					for _, h := range hs {
						vrt.Join(h)
					}
					for i := 0; i < nc; i++ {
						checkQueryResp(x, "client"+names[i], nbIDs[i], names[i], ips[i], res[i], true)
					}
					stopAndDrain(x, s)
				}})
			}
			// A': a query racing with a registration and a release of other names
			out = append(out, &scenario{name: "nbns-" + im.name + "-query-vs-updates", keys: respKeys, bound: B, body: func(x *exec) {
				s, t := im.mk()
				seed(t)
				if err := s.Start(); err != nil {
					panic("harness: start: " + err.Error())
				}
				var rq, ru []resp
				h1 := vrt.GoNamed("clientQ", func() { rq = udpExchange(srvUDP, mkQuery(0x1111, 0, "NX")) })
				h2 := vrt.GoNamed("clientR", func() { ru = udpExchange(srvUDP, mkUpdate(0x2222, 6, "NY", ipY, false, 0)) })
				vrt.Join(h1)
				vrt.Join(h2)
				checkQueryResp(x, "clientQ", 0x1111, "NX", ipX, rq, true)
				x.obs("clientR got %v", ru)
				if len(ru) != 1 {
					x.fail("exactly-one-response-per-request", "release request received %d responses", len(ru))
				}
				for _, r := range ru {
					if r.rawID != 0x2222 {
						x.fail("response-carries-own-transaction-id", "release client sent id 2222 and received %v", r)
					}
				}
				if _, _, err := t.QueryName("NY"); err == nil && len(ru) == 1 && ru[0].parsed && ru[0].rcode == 0 {
					x.fail("response-answers-own-question", "release of NY was acknowledged with rcode 0 but NY is still registered")
				}
				if _, _, err := t.QueryName("NX"); err != nil {
					x.fail("response-answers-own-question", "NX disappeared although only NY was released")
				}
				stopAndDrain(x, s)
			}})
			// J: undecodable datagrams (too short; counts larger than the content) before and between requests:
			// the server keeps answering, and Stop still returns
			out = append(out, &scenario{name: "nbns-" + im.name + "-junk-datagrams-then-stop", keys: respKeys, bound: B, body: func(x *exec) {
				s, t := im.mk()
				seed(t)
				if err := s.Start(); err != nil {
					panic("harness: start: " + err.Error())
				}
				var r1 []resp
				hj := vrt.GoNamed("clientJunk", func() {
					udpExchange(srvUDP, []byte{0x12, 0x34, 0x00})
				})
				hk := vrt.GoNamed("clientJunk2", func() {
					udpExchange(srvUDP, []byte{0x56, 0x78, 0x00, 0x00, 0x00, 0x05, 0x00, 0x00, 0x00, 0x00, 0x00, 0x00, 0x20})
				})
				h1 := vrt.GoNamed("clientNX", func() { r1 = udpExchange(srvUDP, mkQuery(0x1111, 0, "NX")) })
				vrt.Join(hj)
				vrt.Join(hk)
				vrt.Join(h1)
				checkQueryResp(x, "clientNX", 0x1111, "NX", ipX, r1, true)
				stopAndDrain(x, s)
			}})
			// J2: a FLOOD of undecodable datagrams (200, one after the other, from one client) and then a request:
			// whatever the server accounts per datagram (a slot, a counter, a buffer) is given back for refused ones
			// too - the request is answered and Stop returns. One schedule (bound 0): the point is the count.
			out = append(out, &scenario{name: "nbns-" + im.name + "-flood-of-junk-datagrams-then-a-request-then-stop", keys: respKeys, bound: 0, maxSteps: 400000, body: func(x *exec) {
				s, t := im.mk()
				seed(t)
				if err := s.Start(); err != nil {
					panic("harness: start: " + err.Error())
				}
				hj := vrt.GoNamed("clientJunk", func() {
					conn, err := vnet.ListenUDP("udp", &net.UDPAddr{IP: net.IPv4(127, 0, 0, 1)})
					if err != nil {
						panic("harness: " + err.Error())
					}
					defer conn.Close()
					for i := 0; i < 200; i++ {
						junk := []byte{byte(i), 0x34, 0x00}
						if i%2 == 1 {
							junk = []byte{byte(i), 0x78, 0x00, 0x00, 0x00, 0x05, 0x00, 0x00, 0x00, 0x00, 0x00, 0x00, 0x20}
						}
						conn.WriteToUDP(junk, srvUDP)
						vrt.Sleep(sec / 100) // let the server take it: no queue is meant to overflow here
					}
				})
				vrt.Join(hj)
				var r1 []resp
				h1 := vrt.GoNamed("clientNX", func() { r1 = udpExchange(srvUDP, mkQuery(0x1111, 0, "NX")) })
				vrt.Join(h1)
				checkQueryResp(x, "clientNX", 0x1111, "NX", ipX, r1, true)
				stopAndDrain(x, s)
			}})
			// B: Stop at any moment relative to two in-flight requests
			out = append(out, &scenario{name: "nbns-" + im.name + "-stop-race", keys: respKeys, bound: B, body: func(x *exec) {
				s, t := im.mk()
				seed(t)
				if err := s.Start(); err != nil {
					panic("harness: start: " + err.Error())
				}
				var r1, r2 []resp
				h1 := vrt.GoNamed("clientNX", func() { r1 = udpExchange(srvUDP, mkQuery(0x1111, 0, "NX")) })
				h2 := vrt.GoNamed("clientNY", func() { r2 = udpExchange(srvUDP, mkQuery(0x2222, 0, "NY")) })
				hs := vrt.GoNamed("stopper", func() { stopAndDrainNoWait(x, s) })
				vrt.Join(h1)
				vrt.Join(h2)
				vrt.Join(hs)
				checkQueryResp(x, "clientNX", 0x1111, "NX", ipX, r1, false)
				checkQueryResp(x, "clientNY", 0x2222, "NY", ipY, r2, false)
				if alive := vrt.Drain(120 * sec); len(alive) > 0 {
					x.fail("no-goroutine-left-after-stop", "threads still alive 120 virtual seconds after Stop returned: %v", alive)
				}
			}})
		} else {
			for _, cut := range []int{0, 1, 2, 9} {
				cut := cut
				if c.Quick() && cut == 9 {
					continue
				}
				out = append(out, &scenario{name: fmt.Sprintf("nbns-TCPServer-2conns-cut%d", cut), keys: respKeys, bound: B, body: func(x *exec) {
					s, t := im.mk()
					seed(t)
					if err := s.Start(); err != nil {
						panic("harness: start: " + err.Error())
					}
					var r1, r2 []resp
					var e1, e2 string
					h1 := vrt.GoNamed("connA", func() {
						r1, e1 = tcpExchange("127.0.0.1:137", [][]byte{mkQuery(0x1111, 0, "NX"), mkQuery(0x1112, 0, "NZ")}, cut)
					})
					h2 := vrt.GoNamed("connB", func() { r2, e2 = tcpExchange("127.0.0.1:137", [][]byte{mkQueryPad(0x2222, 0, "NY", 300)}, cut) })
					vrt.Join(h1)
					vrt.Join(h2)
					x.obs("connA %v %s; connB %v %s", r1, e1, r2, e2)
					if len(r1) != 2 || len(r2) != 1 {
						x.fail("exactly-one-response-per-request", "connA got %d/2 responses (%s), connB got %d/1 (%s)", len(r1), e1, len(r2), e2)
					}
					want := []struct {
						id   uint16
						name string
						ip   net.IP
					}{{0x1111, "NX", ipX}, {0x1112, "NZ", ipZ}}
					for i, r := range r1 {
						checkQueryResp(x, fmt.Sprintf("connA#%d", i), want[i].id, want[i].name, want[i].ip, []resp{r}, false)
					}
					for _, r := range r2 {
						checkQueryResp(x, "connB", 0x2222, "NY", ipY, []resp{r}, false)
					}
					stopAndDrain(x, s)
				}})
			}
			// pipelining: both requests are on the wire before the first response is read
			for _, mode := range []string{"one-write", "two-writes", "three-requests-split-mid-frame"} {
				mode := mode
				out = append(out, &scenario{name: "nbns-TCPServer-pipelined/" + mode, keys: respKeys, bound: B, body: func(x *exec) {
					s, t := im.mk()
					seed(t)
					if err := s.Start(); err != nil {
						panic("harness: start: " + err.Error())
					}
					conn, err := vnet.Dial("tcp", "127.0.0.1:137")
					if err != nil {
						panic("harness: dial: " + err.Error())
					}
					fr := func(rq []byte) []byte { return append(binary.BigEndian.AppendUint16(nil, uint16(len(rq))), rq...) }
					want := []struct {
						id   uint16
						name string
						ip   net.IP
					}{{0x1111, "NX", ipX}, {0x2222, "NY", ipY}, {0x3333, "NZ", ipZ}}
					f1, f2, f3 := fr(mkQuery(0x1111, 0, "NX")), fr(mkQueryPad(0x2222, 0, "NY", 40)), fr(mkQuery(0x3333, 0, "NZ"))
					n := 2
					switch mode {
					case "one-write":
						conn.Write(append(append([]byte{}, f1...), f2...))
					case "two-writes":
						conn.Write(f1)
						conn.Write(f2)
					default:
						n = 3
						all := append(append(append([]byte{}, f1...), f2...), f3...)
						cut := len(f1) + 1 // inside the second frame's length prefix
						conn.Write(all[:cut])
						conn.Write(all[cut:])
					}
					var got []resp
					for i := 0; i < n; i++ {
						conn.SetReadDeadline(vtime.Now().Add(time.Second))
						var l [2]byte
						if _, err := io.ReadFull(conn, l[:]); err != nil {
							break
						}
						body := make([]byte, binary.BigEndian.Uint16(l[:]))
						if _, err := io.ReadFull(conn, body); err != nil {
							break
						}
						got = append(got, parseResp(body))
					}
					x.obs("pipelined got %v", got)
					if len(got) != n {
						x.fail("exactly-one-response-per-request", "%d pipelined requests on one connection received %d responses: %v", n, len(got), got)
					}
					for i, r := range got {
						checkQueryResp(x, fmt.Sprintf("pipelined#%d", i), want[i].id, want[i].name, want[i].ip, []resp{r}, false)
					}
					conn.Close()
					stopAndDrain(x, s)
				}})
			}
			out = append(out, &scenario{name: "nbns-TCPServer-stop-with-idle-connection", keys: respKeys, bound: B, body: func(x *exec) {
				s, t := im.mk()
				seed(t)
				if err := s.Start(); err != nil {
					panic("harness: start: " + err.Error())
				}
				conn, err := vnet.Dial("tcp", "127.0.0.1:137")
				if err != nil {
					panic("harness: dial: " + err.Error())
				}
				rq := mkQuery(0x1111, 0, "NX")
				conn.Write(append(binary.BigEndian.AppendUint16(nil, uint16(len(rq))), rq...))
				conn.SetReadDeadline(vtime.Now().Add(time.Second))
				var l [2]byte
				if _, err := io.ReadFull(conn, l[:]); err == nil {
					body := make([]byte, binary.BigEndian.Uint16(l[:]))
					if _, err := io.ReadFull(conn, body); err == nil {
						checkQueryResp(x, "idle-conn", 0x1111, "NX", ipX, []resp{parseResp(body)}, true)
					}
				} else {
					x.fail("exactly-one-response-per-request", "no response on the connection: %v", err)
				}
				// the connection stays open and idle while the server is stopped
				stopAndDrain(x, s)
				conn.SetReadDeadline(vtime.Now().Add(time.Second))
				if n, err := conn.Read(l[:]); err == nil {
					x.fail("no-goroutine-left-after-stop", "the idle connection still delivered %d bytes after Stop", n)
				}
				conn.Close()
			}})
			// an idle client CONNECTS while Stop is running: whatever the order of accept / register / sweep / quit,
			// Stop returns promptly and nothing is left behind
			out = append(out, &scenario{name: "nbns-TCPServer-stop-vs-connecting-idle-client", keys: respKeys, bound: B, body: func(x *exec) {
				s, t := im.mk()
				seed(t)
				if err := s.Start(); err != nil {
					panic("harness: start: " + err.Error())
				}
				var conn net.Conn
				hc := vrt.GoNamed("idle-client", func() {
					c, err := vnet.Dial("tcp", "127.0.0.1:137")
					if err != nil {
						x.obs("dial refused")
						return
					}
					conn = c
					x.obs("connected")
				})
				hs := vrt.GoNamed("stopper", func() { stopAndDrainNoWait(x, s) })
				vrt.Join(hc)
				vrt.Join(hs)
				if alive := vrt.Drain(120 * sec); len(alive) > 0 {
					x.fail("no-goroutine-left-after-stop", "threads still alive 120 virtual seconds after Stop returned: %v", alive)
				}
				if conn != nil {
					conn.Close()
				}
			}})
			out = append(out, &scenario{name: "nbns-TCPServer-stop-with-two-idle-connections", keys: respKeys, bound: B, body: func(x *exec) {
				s, t := im.mk()
				seed(t)
				if err := s.Start(); err != nil {
					panic("harness: start: " + err.Error())
				}
				var conns []net.Conn
				for i := 0; i < 2; i++ {
					conn, err := vnet.Dial("tcp", "127.0.0.1:137")
					if err != nil {
						panic("harness: dial: " + err.Error())
					}
					conns = append(conns, conn)
					rq := mkQuery(nbIDs[i], 0, []string{"NX", "NY"}[i])
					conn.Write(append(binary.BigEndian.AppendUint16(nil, uint16(len(rq))), rq...))
					conn.SetReadDeadline(vtime.Now().Add(time.Second))
					var l [2]byte
					if _, err := io.ReadFull(conn, l[:]); err == nil {
						body := make([]byte, binary.BigEndian.Uint16(l[:]))
						if _, err := io.ReadFull(conn, body); err == nil {
							checkQueryResp(x, fmt.Sprintf("idle-conn%d", i), nbIDs[i], []string{"NX", "NY"}[i], []net.IP{ipX, ipY}[i], []resp{parseResp(body)}, true)
						}
					} else {
						x.fail("exactly-one-response-per-request", "no response on connection %d: %v", i, err)
					}
				}
				// both connections stay open and idle while the server is stopped
				stopAndDrain(x, s)
				for _, conn := range conns {
					conn.Close()
				}
			}})
			out = append(out, &scenario{name: "nbns-TCPServer-stop-race", keys: respKeys, bound: B, body: func(x *exec) {
				s, t := im.mk()
				seed(t)
				if err := s.Start(); err != nil {
					panic("harness: start: " + err.Error())
				}
				var r1 []resp
				var e1 string
				h1 := vrt.GoNamed("connA", func() { r1, e1 = tcpExchange("127.0.0.1:137", [][]byte{mkQuery(0x1111, 0, "NX")}, 2) })
				hs := vrt.GoNamed("stopper", func() { stopAndDrainNoWait(x, s) })
				vrt.Join(h1)
				vrt.Join(hs)
				x.obs("connA %v %s", r1, e1)
				for _, r := range r1 {
					checkQueryResp(x, "connA", 0x1111, "NX", ipX, []resp{r}, false)
				}
				if alive := vrt.Drain(120 * sec); len(alive) > 0 {
					x.fail("no-goroutine-left-after-stop", "threads still alive 120 virtual seconds after Stop returned: %v", alive)
				}
			}})
		}
		// D: opcode routing, all 16 opcodes
		for opc := 0; opc < 16; opc++ {
			opc := opc
			out = append(out, &scenario{name: fmt.Sprintf("nbns-opcode/%s/opcode-%02d", im.name, opc), keys: []string{"routed-to-rfc1002-handler"}, bound: 0, body: func(x *exec) {
				got := classifyOpcode(x, im, opc)
				want := map[int]string{0: "query", 5: "registration", 6: "release", 8: "refresh"}[opc]
				if want == "" {
					want = "not-implemented"
				}
				ok := got == want || (opc == 9 && (got == "refresh" || got == "not-implemented"))
				x.obs("opcode %d handled as %s", opc, got)
				if !ok {
					x.fail("routed-to-rfc1002-handler", "%s: a request with opcode %d is handled as %q, RFC 1002 4.2.1.1 assigns it %q", im.name, opc, got, want)
				}
			}})
		}
	}
	return out
}

func stopAndDrainNoWait(x *exec, s nbServer) {
	t0 := vrt.Now()
	s.Stop()
	dt := vrt.Now() - t0
	x.obs("stop returned after %ds virtual", dt/sec)
	if dt >= 2*sec { // clients' own 1 s waits may elapse while Stop is held up by the scheduler, a library timeout (>=5 s) may not
		x.fail("stop-returns-promptly", "Stop needed %d ms of virtual time", dt/1e6)
	}
}

// classifyOpcode observes, through the network and the table's public API only, which handler a
// request with the given opcode reaches.
func classifyOpcode(x *exec, im impl, opc int) string {
	ipF := net.IP{10, 9, 9, 9}
	send := func(req []byte) (resp, bool) {
		var rs []resp
		if im.tcp {
			rs, _ = tcpExchange("127.0.0.1:137", [][]byte{req}, 0)
		} else {
			rs = udpExchange(srvUDP, req)
		}
		if len(rs) != 1 {
			return resp{}, false
		}
		return rs[0], true
	}
	fresh := func() (nbServer, *nbtns.NetBIOSNameServer) {
		s, t := im.mk()
		t.RegisterName("P", nbtns.Unique, ipX, time.Hour)
		if err := s.Start(); err != nil {
			panic("harness: start: " + err.Error())
		}
		return s, t
	}
	// probe 1: query-shaped
	s, _ := fresh()
	r1, ok1 := send(mkQuery(0x0101, opc, "P"))
	s.Stop()
	vrt.Drain(120 * sec)
	if ok1 && r1.parsed && r1.rcode == 0 && len(r1.answers) == 1 && r1.answers[0] == ipX.String()+"@P" {
		return "query"
	}
	// probe 2: registration-shaped
	s, t := fresh()
	r2, ok2 := send(mkUpdate(0x0202, opc, "F", ipF, false, 3600))
	_, _, errF := t.QueryName("F")
	s.Stop()
	vrt.Drain(120 * sec)
	if errF == nil {
		return "registration"
	}
	// probe 3: release/refresh-shaped on the owned name, ten virtual minutes after registration
	s, t = fresh()
	vrt.Sleep(600 * sec)
	r3, ok3 := send(mkUpdate(0x0303, opc, "P", ipX, false, 3600))
	_, _, errP := t.QueryName("P")
	s.Stop()
	vrt.Drain(120 * sec)
	if errP != nil {
		return "release"
	}
	// was the lease extended? (public API only) P was registered for one hour at minute 0; a refresh at minute 10
	// moves the expiry to minute 70. 55 more virtual minutes put the clock at minute 65 or a little later, past minute 60 and before minute 70:
	// the expiry sweep then removes P unless the request refreshed it
	vrt.Sleep(3300 * sec)
	t.CleanExpiredNames()
	if _, _, errLate := t.QueryName("P"); errLate == nil {
		return "refresh"
	}
	x.obs("probes: %v/%v %v/%v %v/%v", r1, ok1, r2, ok2, r3, ok3)
	rc := func(r resp, ok bool) int {
		if !ok {
			return -1
		}
		if !r.parsed {
			return int(r.flags & 0xF) // unparsed: fall back below
		}
		return r.rcode
	}
	if rc(r1, ok1) == 4 && rc(r2, ok2) == 4 && rc(r3, ok3) == 4 {
		return "not-implemented"
	}
	return fmt.Sprintf("unknown(rcodes %d,%d,%d)", rc(r1, ok1), rc(r2, ok2), rc(r3, ok3))
}

// ---------------------------------------------------------------- challenger / defender / redirect

// challengeScenarios: NameChallenger.ChallengeOwnership acts as a client — it must accept only the
// response that carries its own transaction id and lists the challenged owner.
func challengeScenarios(c *vf.Ctx, B int) []*scenario {
	var out []*scenario
	owner := net.IP{127, 0, 0, 9}
	for _, mode := range []string{"right-id-owner", "wrong-id-only", "wrong-id-then-right", "foreign-name-error-then-right", "name-error", "other-address", "silent"} {
		mode := mode
		want := map[string]bool{"right-id-owner": true, "wrong-id-then-right": true, "foreign-name-error-then-right": true}[mode]
		out = append(out, &scenario{name: "nbns-challenge/" + mode, keys: []string{"challenge-accepts-only-own-id-and-owner", "no-goroutine-left-after-stop"}, bound: B, maxSteps: 3000, body: func(x *exec) {
			t := nbtns.NewNetBIOSNameServer(false)
			ch := nbtns.NewNameChallenger(t, nbtns.NewPacketHandler(t))
			peer, err := vnet.ListenUDP("udp", &net.UDPAddr{IP: owner, Port: 137})
			if err != nil {
				panic("harness: " + err.Error())
			}
			rt := vrt.GoNamed("peer", func() {
				buf := make([]byte, 2048)
				for {
					peer.SetReadDeadline(vtime.Now().Add(20 * time.Second))
					n, from, err := peer.ReadFromUDP(buf)
					if err != nil {
						return
					}
					var rq nbtns.NBTNSPacket
					if _, err := rq.Unmarshal(append([]byte(nil), buf[:n]...)); err != nil || len(rq.Questions) != 1 {
						x.fail("harness", "peer cannot parse the challenge: %v", err)
						return
					}
					reply := func(id uint16, rcode uint16, ip net.IP) {
						rp := &nbtns.NBTNSPacket{Header: nbtns.NBTNSHeader{TransactionID: id, Flags: nbtns.FlagResponse | nbtns.FlagAuthoritative | rcode}}
						if ip != nil {
							rp.Header.Answers = 1
							rp.Answers = []nbtns.NBTNSResourceRecord{{Name: rq.Questions[0].Name, Type: 0x20, Class: 1, TTL: 60, RDLength: uint16(len(ip)), RData: ip}}
						}
						b, err := rp.Marshal()
						if err != nil {
							panic("harness: " + err.Error())
						}
						peer.WriteToUDP(b, from)
					}
					id := rq.Header.TransactionID
					switch mode {
					case "right-id-owner":
						reply(id, 0, owner)
					case "wrong-id-only":
						reply(id^0x0101, 0, owner)
					case "wrong-id-then-right":
						reply(id^0x0101, 0, net.IP{10, 6, 6, 6})
						reply(id, 0, owner)
					case "foreign-name-error-then-right":
						reply(id^0x0101, nbtns.RcodeNameError, nil) // a negative answer that belongs to ANOTHER transaction
						reply(id, 0, owner)
					case "name-error":
						reply(id, nbtns.RcodeNameError, nil)
					case "other-address":
						reply(id, 0, net.IP{10, 6, 6, 6})
					}
				}
			})
			got, err := ch.ChallengeOwnership("WKS", owner)
			x.obs("challenge -> %v %v", got, err)
			if err != nil || got != want {
				x.fail("challenge-accepts-only-own-id-and-owner", "peer behaviour %q: ChallengeOwnership returned (%v, %v), expected (%v, nil)", mode, got, err, want)
			}
			peer.Close()
			vrt.Join(rt)
			if alive := vrt.Drain(120 * sec); len(alive) > 0 {
				x.fail("no-goroutine-left-after-stop", "threads alive: %v", alive)
			}
		}})
	}
	// defender and redirect manager only act on name-query REQUESTS: all 16 opcodes x request/response bit
	for opc := 0; opc < 16; opc++ {
		for _, rbit := range []uint16{0, nbtns.FlagResponse} {
			opc, rbit := opc, rbit
			out = append(out, &scenario{name: fmt.Sprintf("nbns-opcode/DefendName+HandleRedirect/opcode-%02d-r%d", opc, rbit>>15), keys: []string{"routed-to-rfc1002-handler"}, bound: 0, body: func(x *exec) {
				t := nbtns.NewNetBIOSNameServer(false)
				t.RegisterName("P", nbtns.Unique, ipX, time.Hour)
				ch := nbtns.NewNameChallenger(t, nbtns.NewPacketHandler(t))
				rq := &nbtns.NBTNSPacket{Header: nbtns.NBTNSHeader{TransactionID: 7, Flags: uint16(opc)<<11 | rbit, Questions: 1},
					Questions: []nbtns.NBTNSQuestion{{Name: &nbtns.NetBIOSName{Name: "P", ScopeID: "corp"}, Type: 0x20, Class: 1}}}
				var rp nbtns.NBTNSPacket
				ch.DefendName(rq, &rp)
				defended := len(rp.Answers) > 0
				rm := nbtns.NewRedirectManager()
				rm.AddRedirect("corp", net.IP{10, 1, 1, 1}, 137)
				var rp2 nbtns.NBTNSPacket
				redirected := rm.HandleRedirect(rq, &rp2)
				want := opc == 0 && rbit == 0
				x.obs("opcode %d r=%d defended=%v redirected=%v", opc, rbit>>15, defended, redirected)
				if defended != want || redirected != want {
					x.fail("routed-to-rfc1002-handler", "a packet with opcode %d, response bit %d: DefendName answered=%v, HandleRedirect redirected=%v; only name-query requests (opcode 0, R=0) are theirs", opc, rbit>>15, defended, redirected)
				}
			}})
		}
	}
	return out
}
