package main

import (
	"context"
	"fmt"
	"net"
	"strings"
	"time"

	"github.com/TheManticoreProject/Manticore/network/llmnr"
	"github.com/TheManticoreProject/Manticore/zz_verif/vcontext"
	"github.com/TheManticoreProject/Manticore/zz_verif/vnet"
	"github.com/TheManticoreProject/Manticore/zz_verif/vrt"
	"github.com/TheManticoreProject/Manticore/zz_verif/vtime"

	"verif/vf"
)

var llmnrGroup = &net.UDPAddr{IP: net.ParseIP(llmnr.IPv4MulticastAddr), Port: llmnr.LLMNRPort}

var hostAddr = map[string]string{"hostx": "10.0.0.1", "hosty": "10.0.0.2", "hostz": "10.0.0.3"}

// answering handler: replies from the request's own decoded content (name -> address) and echoes the
// token record the client attached, so a response assembled from another request's bytes shows.
func answerHandler(x *exec) llmnr.Handler {
	return llmnr.HandlerFunc(func(s *llmnr.Server, ra net.Addr, w llmnr.ResponseWriter, m *llmnr.Message) bool {
		resp := llmnr.CreateResponseFromMessage(m)
		for _, q := range m.Questions {
			if ip, ok := hostAddr[q.Name]; ok {
				if err := resp.AddAnswerClassINTypeA(q.Name, ip); err != nil {
					x.fail("harness", "AddAnswer: %v", err)
				}
			}
		}
		for _, rr := range m.Answers {
			resp.AddAnswer(rr)
		}
		if err := w.WriteMessage(resp); err != nil {
			x.obs("handler write error: %v", err)
		}
		return true
	})
}

type lresp struct {
	id     uint16
	parsed bool
	perr   string
	q      string
	a      []string
	token  string
	isResp bool
}

func (r lresp) String() string {
	if !r.parsed {
		return fmt.Sprintf("{id=%04x UNPARSEABLE %s}", r.id, r.perr)
	}
	return fmt.Sprintf("{id=%04x q=%s a=%v token=%s}", r.id, r.q, r.a, r.token)
}

func parseL(b []byte) lresp {
	var r lresp
	if len(b) >= 2 {
		r.id = uint16(b[0])<<8 | uint16(b[1])
	}
	var m *llmnr.Message
	var err error
	if pan, msg, _ := vf.Try(func() { m, err = llmnr.DecodeMessage(b) }); pan {
		r.perr = "panic " + msg
		return r
	}
	if err != nil {
		r.perr = err.Error()
		return r
	}
	r.parsed = true
	r.isResp = m.IsResponse()
	if len(m.Questions) > 0 {
		r.q = m.Questions[0].Name
	}
	for _, a := range m.Answers {
		if a.Type == llmnr.TypeA {
			r.a = append(r.a, net.IP(a.RData).String()+"@"+a.Name)
		}
		if a.Type == llmnr.TypeTXT {
			r.token = string(a.RData)
		}
	}
	return r
}

func mkLQuery(id uint16, name, token string) []byte {
	m := llmnr.NewMessage()
	m.ID = id
	m.SetQuery()
	if err := m.AddQuestion(name, llmnr.TypeA, llmnr.ClassIN); err != nil {
		panic("harness: " + err.Error())
	}
	if token != "" {
		if err := m.AddAnswer(llmnr.ResourceRecord{Name: name, Type: llmnr.TypeTXT, Class: llmnr.ClassIN, TTL: 5, RDLength: uint16(len(token)), RData: []byte(token)}); err != nil {
			panic("harness: " + err.Error())
		}
	}
	b, err := m.Encode()
	if err != nil {
		panic("harness: " + err.Error())
	}
	return b
}

func lExchange(req []byte) []lresp {
	conn, err := vnet.ListenUDP("udp4", &net.UDPAddr{IP: net.IPv4(127, 0, 0, 1)})
	if err != nil {
		panic("harness: " + err.Error())
	}
	defer conn.Close()
	if _, err := conn.WriteToUDP(req, llmnrGroup); err != nil {
		return nil
	}
	conn.SetReadDeadline(vtime.Now().Add(time.Second))
	var out []lresp
	buf := make([]byte, 2048)
	for {
		n, _, err := conn.ReadFromUDP(buf)
		if err != nil {
			return out
		}
		r := parseL(append([]byte(nil), buf[:n]...))
		if curExec != nil {
			curExec.obs("recv %04x", r.id)
		}
		out = append(out, r)
	}
}

func checkL(x *exec, who string, id uint16, name, token string, rs []lresp, must bool) {
	x.obs("%s got %v", who, rs)
	if must && len(rs) != 1 {
		x.fail("exactly-one-response-per-request", "%s (id %04x, %s) received %d responses: %v", who, id, name, len(rs), rs)
	}
	if len(rs) > 1 {
		x.fail("at-most-one-response-per-request", "%s (id %04x, %s) received %d responses: %v", who, id, name, len(rs), rs)
	}
	for _, r := range rs {
		if r.id != id {
			x.fail("response-carries-own-transaction-id", "%s sent id %04x and received id %04x: %v", who, id, r.id, r)
			continue
		}
		if !r.parsed {
			x.fail("response-is-parseable", "%s: %s", who, r.perr)
			continue
		}
		ok := r.isResp && r.q == name && len(r.a) == 1 && r.a[0] == hostAddr[name]+"@"+name && r.token == token
		if !ok {
			x.fail("response-answers-own-question", "%s asked for %s (token %s, id %04x) and received %v", who, name, token, id, r)
		}
	}
}

func startLServer(x *exec, handlers []llmnr.Handler) (*llmnr.Server, *vrt.T, *error) {
	srv, err := llmnr.NewIPv4ServerWithHandlers(handlers)
	if err != nil {
		panic("harness: " + err.Error())
	}
	var serr error
	h := vrt.GoNamed("serve", func() { serr = srv.ListenAndServe() })
	return srv, h, &serr
}

func closeLServer(x *exec, srv *llmnr.Server, serve *vrt.T, serr *error) {
	t0 := vrt.Now()
	srv.Close()
	vrt.Op(func() bool { return serve.Done() }, vrt.Now()+600*sec, "wait-serve-return")
	dt := vrt.Now() - t0
	if !serve.Done() {
		x.fail("serve-returns-after-close", "ListenAndServe has not returned 600 virtual seconds after Close")
	} else if dt >= 2*sec {
		x.fail("serve-returns-after-close", "ListenAndServe returned only %d ms (virtual) after Close", dt/1e6)
	} else if *serr != nil {
		x.obs("serve returned error %v", *serr)
	}
	if alive := vrt.Drain(120 * sec); len(alive) > 0 {
		x.fail("no-goroutine-left-after-close", "threads still alive 120 virtual seconds after Close: %v", alive)
	}
}

var lKeys = []string{"exactly-one-response-per-request", "at-most-one-response-per-request", "response-carries-own-transaction-id", "response-is-parseable", "response-answers-own-question", "serve-returns-after-close", "no-goroutine-left-after-close"}

func llmnrScenarios(c *vf.Ctx, B int) []*scenario {
	var out []*scenario
	names := []string{"hostx", "hosty", "hostz"}
	lids := []uint16{0x0000, 0xFFFF, 0x0a0a} // both ends of the id range: 0 is a transaction id like any other
	for _, nc := range []int{2, 3} {
		nc := nc
		out = append(out, &scenario{name: fmt.Sprintf("llmnr-server-%dclients", nc), keys: lKeys, bound: B, body: func(x *exec) {
			srv, hs, serr := startLServer(x, []llmnr.Handler{answerHandler(x)})
			vrt.Op(func() bool { return srv.Conn != nil || hs.Done() }, 0, "wait-listen")
			res := make([][]lresp, nc)
			var ths []*vrt.T
			for i := 0; i < nc; i++ {
				i := i
				ths = append(ths, vrt.GoNamed("client-"+names[i], func() {
					res[i] = lExchange(mkLQuery(lids[i], names[i], "tok-"+names[i]))
				}))
			}
			for _, t := range ths {
				vrt.Join(t)
			}
			for i := 0; i < nc; i++ {
				checkL(x, "client-"+names[i], lids[i], names[i], "tok-"+names[i], res[i], true)
			}
			closeLServer(x, srv, hs, serr)
		}})
	}
	// the library's own packet-describing handler behind the answering handler: they serialise on the
	// logger's lock; a header-only query (all counts 0), an ordinary query and a second ordinary query
	for _, hn := range []string{"HandlerDescribePacket"} {
		hn := hn
		out = append(out, &scenario{name: "llmnr-server-" + hn, keys: lKeys, bound: B, body: func(x *exec) {
			var dh llmnr.Handler = llmnr.HandlerFunc(llmnr.HandlerDescribePacket)
			if hn == "HandlerDescribePacketJson" {
				dh = llmnr.HandlerFunc(llmnr.HandlerDescribePacketJson)
			}
			srv, hs, serr := startLServer(x, []llmnr.Handler{answerHandler(x), dh}) // the describing handlers end the chain (return false)
			vrt.Op(func() bool { return srv.Conn != nil || hs.Done() }, 0, "wait-listen")
			hdrOnly := []byte{0x33, 0x33, 0, 0, 0, 0, 0, 0, 0, 0, 0, 0}
			var r0, r1, r2 []lresp
			t0 := vrt.GoNamed("client-header-only", func() { r0 = lExchange(hdrOnly) })
			vrt.Join(t0)
			t1 := vrt.GoNamed("client-hostx", func() { r1 = lExchange(mkLQuery(0x0a0a, "hostx", "tok-x")) })
			t2 := vrt.GoNamed("client-hosty", func() { r2 = lExchange(mkLQuery(0x1414, "hosty", "tok-y")) })
			vrt.Join(t1)
			vrt.Join(t2)
			x.obs("header-only client got %v", r0)
			checkL(x, "client-hostx", 0x0a0a, "hostx", "tok-x", r1, true)
			checkL(x, "client-hosty", 0x1414, "hosty", "tok-y", r2, true)
			closeLServer(x, srv, hs, serr)
		}})
	}
	// Close called FROM a handler (a "shut down on this packet" handler): any moment includes this one
	out = append(out, &scenario{name: "llmnr-server-close-from-a-handler", keys: lKeys, bound: B, body: func(x *exec) {
		closer := llmnr.HandlerFunc(func(s *llmnr.Server, ra net.Addr, w llmnr.ResponseWriter, m *llmnr.Message) bool {
			if len(m.Questions) == 1 && m.Questions[0].Name == "shutdown" {
				s.Close()
				return false
			}
			return true
		})
		srv, hs, serr := startLServer(x, []llmnr.Handler{closer, answerHandler(x)})
		vrt.Op(func() bool { return srv.Conn != nil || hs.Done() }, 0, "wait-listen")
		var r1 []lresp
		t1 := vrt.GoNamed("client-hostx", func() { r1 = lExchange(mkLQuery(0x0a0a, "hostx", "tok-x")) })
		t2 := vrt.GoNamed("client-shutdown", func() { lExchange(mkLQuery(0x1414, "shutdown", "")) })
		vrt.Join(t1)
		vrt.Join(t2)
		checkL(x, "client-hostx", 0x0a0a, "hostx", "tok-x", r1, false)
		closeLServer(x, srv, hs, serr)
	}})
	// Close when the serve loop is NOT running: a server that was built but never started (the usual deferred
	// Close on an early error path), and one whose ListenAndServe failed (no handlers / address in use)
	out = append(out, &scenario{name: "llmnr-server-close-without-serve", keys: lKeys, bound: B, body: func(x *exec) {
		srv, err := llmnr.NewIPv4ServerWithHandlers([]llmnr.Handler{answerHandler(x)})
		if err != nil {
			panic("harness: " + err.Error())
		}
		t0 := vrt.Now()
		srv.Close()
		x.obs("Close of a never-started server returned after %d ms", (vrt.Now()-t0)/1e6)
		// a server whose ListenAndServe fails at once (nothing to serve with), then Close
		srv2, err2 := llmnr.NewIPv4ServerWithHandlers(nil)
		if err2 == nil && srv2 != nil {
			e := srv2.ListenAndServe()
			x.obs("ListenAndServe without handlers returned error=%v", e != nil)
			srv2.Close()
		}
		srv.Close() // and Close twice
		if alive := vrt.Drain(120 * sec); len(alive) > 0 {
			x.fail("no-goroutine-left-after-close", "threads still alive 120 virtual seconds after Close: %v", alive)
		}
	}})
	// Close at any moment relative to two in-flight requests (and to ListenAndServe itself)
	out = append(out, &scenario{name: "llmnr-server-close-race", keys: lKeys, bound: B, body: func(x *exec) {
		srv, hs, serr := startLServer(x, []llmnr.Handler{answerHandler(x)})
		var r1, r2 []lresp
		t1 := vrt.GoNamed("client-hostx", func() { r1 = lExchange(mkLQuery(0x0a0a, "hostx", "tok-x")) })
		t2 := vrt.GoNamed("client-hosty", func() { r2 = lExchange(mkLQuery(0x1414, "hosty", "tok-y")) })
		tc := vrt.GoNamed("closer", func() { srv.Close() })
		vrt.Join(t1)
		vrt.Join(t2)
		vrt.Join(tc)
		checkL(x, "client-hostx", 0x0a0a, "hostx", "tok-x", r1, false)
		checkL(x, "client-hosty", 0x1414, "hosty", "tok-y", r2, false)
		closeLServer(x, srv, hs, serr)
	}})
	// handler chains: exactly the prefix up to the first `false` runs, once, in order
	for n := 1; n <= 3; n++ {
		for mask := 0; mask < 1<<n; mask++ {
			n, mask := n, mask
			var rets []string
			for i := 0; i < n; i++ {
				rets = append(rets, map[bool]string{true: "T", false: "F"}[mask>>i&1 == 1])
			}
			out = append(out, &scenario{name: "llmnr-server-handler-chain/" + strings.Join(rets, ""), keys: []string{"handlers-run-until-first-false"}, bound: c.Pick(1, 2), body: func(x *exec) {
				var ran []int
				var hl []llmnr.Handler
				for i := 0; i < n; i++ {
					i := i
					hl = append(hl, llmnr.HandlerFunc(func(s *llmnr.Server, ra net.Addr, w llmnr.ResponseWriter, m *llmnr.Message) bool {
						ran = append(ran, i)
						return mask>>i&1 == 1
					}))
				}
				srv, hs, serr := startLServer(x, hl)
				vrt.Op(func() bool { return srv.Conn != nil || hs.Done() }, 0, "wait-listen")
				lExchange(mkLQuery(0x0a0a, "hostx", ""))
				var want []int
				for i := 0; i < n; i++ {
					want = append(want, i)
					if mask>>i&1 == 0 {
						break
					}
				}
				x.obs("handlers ran %v", ran)
				if fmt.Sprint(ran) != fmt.Sprint(want) {
					x.fail("handlers-run-until-first-false", "handler return values %v: handlers that ran = %v, expected %v", rets, ran, want)
				}
				closeLServer(x, srv, hs, serr)
			}})
		}
	}
	// client: two concurrent queries against a scripted responder
	for _, mode := range []string{"in-order", "reversed", "only-first", "unknown-id-first", "duplicate", "triplicate", "question-in-other-case", "other-query-has-an-earlier-context-deadline"} {
		mode := mode
		out = append(out, &scenario{name: "llmnr-client-2queries/" + mode, keys: []string{"query-returns-response-with-own-id", "answered-query-does-not-time-out", "unanswered-query-times-out", "readloop-exits-after-close"}, bound: B, body: func(x *exec) {
			clientScenario(x, mode, false)
		}})
	}
	out = append(out, &scenario{name: "llmnr-client-close-race", keys: []string{"query-returns-response-with-own-id", "readloop-exits-after-close"}, bound: B, body: func(x *exec) {
		clientScenario(x, "in-order", true)
	}})
	// two owners of the client close it at the same moment (a deferred Close and a shutdown path)
	out = append(out, &scenario{name: "llmnr-client-two-closers", keys: []string{"query-returns-response-with-own-id", "readloop-exits-after-close"}, bound: B, body: func(x *exec) {
		twoClosers = true
		defer func() { twoClosers = false }()
		clientScenario(x, "in-order", true)
	}})
	return out
}

// twoClosers makes the close-race variant of clientScenario start a second closing thread.
var twoClosers bool

func clientScenario(x *exec, mode string, closeRace bool) {
	resp, err := vnet.ListenMulticastUDP("udp4", nil, llmnrGroup)
	if err != nil {
		panic("harness: " + err.Error())
	}
	cl, err := llmnr.NewClient()
	if err != nil {
		panic("harness: NewClient: " + err.Error())
	}
	type qres struct {
		m   *llmnr.Message
		err error
	}
	res := make([]qres, 2)
	qn := []string{"hostx", "hosty"}
	var ths []*vrt.T
	for i := 0; i < 2; i++ {
		i := i
		ths = append(ths, vrt.GoNamed("query-"+qn[i], func() {
			ctx := context.Background()
			if mode == "other-query-has-an-earlier-context-deadline" && i == 0 {
				// hostx gives up after 10 ms (nobody answers it); hosty is answered after 50 ms and must get its answer:
				// one query's deadline is that query's business, the socket and its read loop are shared
				var cancel context.CancelFunc
				ctx, cancel = vcontext.WithTimeout(ctx, 10*time.Millisecond)
				defer cancel()
			}
			m, err := cl.Query(ctx, qn[i], llmnr.TypeA)
			res[i] = qres{m, err}
		}))
	}
	answered := map[string]bool{}
	idOf := map[string]uint16{} // the transaction id each query went out with (seen by the responder)
	rt := vrt.GoNamed("responder", func() {
		type rq struct {
			m    *llmnr.Message
			from *net.UDPAddr
		}
		var got []rq
		buf := make([]byte, 2048)
		resp.SetReadDeadline(vtime.Now().Add(time.Second))
		reply := func(q rq, id uint16) {
			r := llmnr.CreateResponseFromMessage(q.m)
			r.ID = id
			for _, qq := range q.m.Questions {
				r.AddAnswerClassINTypeA(qq.Name, hostAddr[qq.Name]) // also echoes the question
			}
			switch mode {
			case "question-in-other-case":
				// names compare case-insensitively; a responder echoes the question in its own spelling
				for i := range r.Questions {
					r.Questions[i].Name = strings.ToUpper(r.Questions[i].Name)
				}
			}
			b, err := r.Encode()
			if err != nil {
				panic("harness: " + err.Error())
			}
			resp.WriteToUDP(b, q.from)
		}
		for len(got) < 2 {
			n, from, err := resp.ReadFromUDP(buf)
			if err != nil {
				break
			}
			m, err := llmnr.DecodeMessage(append([]byte(nil), buf[:n]...))
			if err != nil || len(m.Questions) != 1 {
				x.fail("harness", "responder could not decode the client's query: %v", err)
				continue
			}
			q := rq{m, from}
			got = append(got, q)
			idOf[m.Questions[0].Name] = m.ID
			if mode == "in-order" || mode == "question-in-other-case" {
				reply(q, m.ID)
				answered[m.Questions[0].Name] = true
			}
		}
		switch mode {
		case "other-query-has-an-earlier-context-deadline":
			vrt.Sleep(sec / 20)
			for _, q := range got {
				if q.m.Questions[0].Name == "hosty" {
					reply(q, q.m.ID)
					answered["hosty"] = true
				}
			}
		case "reversed":
			for i := len(got) - 1; i >= 0; i-- {
				reply(got[i], got[i].m.ID)
				answered[got[i].m.Questions[0].Name] = true
			}
		case "only-first":
			if len(got) > 0 {
				reply(got[0], got[0].m.ID)
				answered[got[0].m.Questions[0].Name] = true
			}
		case "unknown-id-first":
			for _, q := range got {
				reply(q, q.m.ID^0x5555)
			}
			for _, q := range got {
				reply(q, q.m.ID)
				answered[q.m.Questions[0].Name] = true
			}
		case "duplicate":
			for _, q := range got {
				reply(q, q.m.ID)
				reply(q, q.m.ID)
				answered[q.m.Questions[0].Name] = true
			}
		case "triplicate":
			// several responders answer one multicast query: more responses than the query will ever read
			for i, q := range got {
				reply(q, q.m.ID)
				if i == 0 {
					reply(q, q.m.ID)
					reply(q, q.m.ID)
				}
				answered[q.m.Questions[0].Name] = true
			}
		}
	})
	var tc, tc2 *vrt.T
	if closeRace {
		tc = vrt.GoNamed("closer", func() { cl.Close() })
		if twoClosers {
			tc2 = vrt.GoNamed("closer2", func() { cl.Close() })
		}
	}
	for _, t := range ths {
		vrt.Join(t)
	}
	vrt.Join(rt)
	if tc != nil {
		vrt.Join(tc)
	}
	if tc2 != nil {
		vrt.Join(tc2)
	}
	for i := 0; i < 2; i++ {
		r := res[i]
		if r.err != nil {
			x.obs("query %s -> error %v", qn[i], r.err)
			if answered[qn[i]] && !closeRace {
				x.fail("answered-query-does-not-time-out", "Query(%s) failed with %q although the responder answered it with the matching id", qn[i], r.err)
			}
			continue
		}
		if r.m == nil {
			x.fail("query-returns-response-with-own-id", "Query(%s) returned (nil, nil)", qn[i])
			continue
		}
		qname := ""
		if len(r.m.Answers) > 0 {
			qname = r.m.Answers[0].Name // the harness responder answers for the name it was asked, whatever it does to the question section
		} else if len(r.m.Questions) > 0 {
			qname = r.m.Questions[0].Name
		}
		x.obs("query %s -> id %04x answer for %s", qn[i], r.m.ID, qname)
		if id, seen := idOf[qn[i]]; seen && r.m.ID != id {
			x.fail("query-returns-response-with-own-id", "Query(%s) went out with id %04x and was handed a response with id %04x", qn[i], id, r.m.ID)
		}
		if !strings.EqualFold(qname, qn[i]) {
			x.fail("query-returns-response-with-own-id", "Query(%s) was handed the response for %q (id %04x)", qn[i], qname, r.m.ID)
		}
		if !answered[qn[i]] && !closeRace {
			x.fail("unanswered-query-times-out", "Query(%s) returned a response although the responder never answered its id", qn[i])
		}
	}
	cl.Close()
	resp.Close()
	if alive := vrt.Drain(120 * sec); len(alive) > 0 {
		x.fail("readloop-exits-after-close", "threads still alive 120 virtual seconds after Close: %v", alive)
	}
}
