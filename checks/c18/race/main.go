// Free-running -race pass for C18 (auxiliary): the un-instrumented servers and client on real
// loopback sockets with real goroutines. Built with -race; a report makes the process exit 66.
// Behaviour is NOT judged here (timing dependent) — only the race detector's verdict counts.
package main

import (
	"context"
	"encoding/binary"
	"fmt"
	"io"
	"log"
	"net"
	"os"
	"reflect"
	"strconv"
	"sync"
	"time"
	"unsafe"

	"github.com/TheManticoreProject/Manticore/network/llmnr"
	"github.com/TheManticoreProject/Manticore/network/netbios/nbtns"
)

func fieldByType(obj any, want reflect.Type) unsafe.Pointer {
	v := reflect.ValueOf(obj).Elem()
	for i := 0; i < v.NumField(); i++ {
		if v.Field(i).Type() == want {
			return unsafe.Pointer(v.Field(i).UnsafeAddr())
		}
	}
	return nil
}

func query(id uint16, name string) []byte {
	p := &nbtns.NBTNSPacket{Header: nbtns.NBTNSHeader{TransactionID: id, Questions: 1},
		Questions: []nbtns.NBTNSQuestion{{Name: &nbtns.NetBIOSName{Name: name}, Type: 0x20, Class: 1}}}
	b, _ := p.Marshal()
	return b
}

func update(id uint16, op uint16, name string, ip net.IP) []byte {
	p := &nbtns.NBTNSPacket{Header: nbtns.NBTNSHeader{TransactionID: id, Flags: op | 0x0080, Answers: 1},
		Answers: []nbtns.NBTNSResourceRecord{{Name: &nbtns.NetBIOSName{Name: name}, Type: 0x20, Class: 1, TTL: 3600, RDLength: 4, RData: ip}}}
	b, _ := p.Marshal()
	return b
}

func udpSend(wg *sync.WaitGroup, addr *net.UDPAddr, req []byte) {
	defer wg.Done()
	c, err := net.DialUDP("udp", nil, addr)
	if err != nil {
		return
	}
	defer c.Close()
	c.Write(req)
	c.SetReadDeadline(time.Now().Add(150 * time.Millisecond))
	c.Read(make([]byte, 4096))
}

func udpClient(wg *sync.WaitGroup, addr *net.UDPAddr, id uint16, name string) {
	defer wg.Done()
	c, err := net.DialUDP("udp", nil, addr)
	if err != nil {
		return
	}
	defer c.Close()
	c.Write(query(id, name))
	c.SetReadDeadline(time.Now().Add(150 * time.Millisecond))
	buf := make([]byte, 1500)
	c.Read(buf)
}

func tcpClient(wg *sync.WaitGroup, addr string, id uint16, name string) {
	defer wg.Done()
	c, err := net.DialTimeout("tcp", addr, time.Second)
	if err != nil {
		return
	}
	defer c.Close()
	q := query(id, name)
	c.Write(append(binary.BigEndian.AppendUint16(nil, uint16(len(q))), q...))
	c.SetReadDeadline(time.Now().Add(150 * time.Millisecond))
	var l [2]byte
	if _, err := io.ReadFull(c, l[:]); err == nil {
		io.ReadFull(c, make([]byte, binary.BigEndian.Uint16(l[:])))
	}
}

func main() {
	log.SetOutput(io.Discard)
	// the library's logger prints to os.Stdout; the lines are of no interest. Redirected ONCE, before any
	// goroutine exists (swapping it later would itself race with a logging goroutine).
	realOut := os.Stdout
	if dn, err := os.OpenFile(os.DevNull, os.O_WRONLY, 0); err == nil {
		os.Stdout = dn
	}
	rounds := 20
	if len(os.Args) > 1 {
		rounds, _ = strconv.Atoi(os.Args[1])
	}
	done := map[string]int{}
	skipped := map[string]string{}
	for r := 0; r < rounds; r++ {
		stopEarly := r%2 == 1
		// --- NBNS UDP servers
		for _, kind := range []string{"Server", "UDPServer"} {
			var srv interface {
				Start() error
				Stop()
			}
			var tbl *nbtns.NetBIOSNameServer
			if kind == "Server" {
				s, _ := nbtns.NewServer("127.0.0.1:0", false)
				srv = s
				tbl = *(**nbtns.NetBIOSNameServer)(fieldByType(s, reflect.TypeOf((*nbtns.NetBIOSNameServer)(nil))))
			} else {
				tbl = nbtns.NewNetBIOSNameServer(false)
				s, _ := nbtns.NewUDPServer("127.0.0.1:0", tbl)
				srv = s
			}
			tbl.RegisterName("NX", nbtns.Unique, net.IP{10, 0, 0, 1}, time.Hour)
			tbl.RegisterName("NY", nbtns.Unique, net.IP{10, 0, 0, 2}, time.Hour)
			for k := 1; k <= 24; k++ {
				tbl.RegisterName("GRP", nbtns.Group, net.IP{10, 0, 1, byte(k)}, time.Hour)
			}
			if err := srv.Start(); err != nil {
				skipped["nbns-"+kind] = err.Error()
				continue
			}
			conn := *(**net.UDPConn)(fieldByType(srv, reflect.TypeOf((*net.UDPConn)(nil))))
			addr := conn.LocalAddr().(*net.UDPAddr)
			var wg sync.WaitGroup
			for i := 0; i < 6; i++ {
				wg.Add(1)
				go udpClient(&wg, addr, uint16(0x1000+i), []string{"NX", "NY"}[i%2])
			}
			// a group whose membership changes while it is being queried
			for i := 0; i < 9; i++ {
				wg.Add(1)
				switch i % 3 {
				case 0:
					go udpClient(&wg, addr, uint16(0x1100+i), "GRP")
				case 1:
					go udpSend(&wg, addr, update(uint16(0x1100+i), nbtns.OpRelease, "GRP", net.IP{10, 0, 1, byte(1 + i)}))
				default:
					go udpSend(&wg, addr, update(uint16(0x1100+i), nbtns.OpRegistration, "GRP", net.IP{10, 0, 2, byte(i)}))
				}
			}
			// and an undecodable datagram
			wg.Add(1)
			go udpSend(&wg, addr, []byte{0x12, 0x34, 0x00})
			if stopEarly {
				srv.Stop()
				wg.Wait()
			} else {
				wg.Wait()
				srv.Stop()
			}
			done["nbns-"+kind]++
		}
		// --- NBNS TCP server
		{
			tbl := nbtns.NewNetBIOSNameServer(false)
			tbl.RegisterName("NX", nbtns.Unique, net.IP{10, 0, 0, 1}, time.Hour)
			s, _ := nbtns.NewTCPServer("127.0.0.1:0", tbl)
			if err := s.Start(); err != nil {
				skipped["nbns-TCPServer"] = err.Error()
			} else {
				ln := *(*net.Listener)(fieldByType(s, reflect.TypeOf((*net.Listener)(nil)).Elem()))
				var wg sync.WaitGroup
				for i := 0; i < 4; i++ {
					wg.Add(1)
					go tcpClient(&wg, ln.Addr().String(), uint16(0x2000+i), "NX")
				}
				if stopEarly {
					s.Stop()
					wg.Wait()
				} else {
					wg.Wait()
					s.Stop()
				}
				done["nbns-TCPServer"]++
			}
		}
		// --- LLMNR server on a loopback socket (Serve) and through ListenAndServe (multicast, if the sandbox allows)
		{
			h := llmnr.HandlerFunc(func(s *llmnr.Server, ra net.Addr, w llmnr.ResponseWriter, m *llmnr.Message) bool {
				resp := llmnr.CreateResponseFromMessage(m)
				for _, q := range m.Questions {
					resp.AddAnswerClassINTypeA(q.Name, "10.0.0.1")
				}
				w.WriteMessage(resp)
				return true
			})
			srv, _ := llmnr.NewServer("udp4", []llmnr.Handler{h})
			c, err := net.ListenUDP("udp4", &net.UDPAddr{IP: net.IPv4(127, 0, 0, 1)})
			if err != nil {
				skipped["llmnr-Serve"] = err.Error()
			} else {
				srv.Conn = c
				var sw sync.WaitGroup
				sw.Add(1)
				go func() { defer sw.Done(); srv.Serve() }()
				var wg sync.WaitGroup
				for i := 0; i < 4; i++ {
					wg.Add(1)
					go func(i int) {
						defer wg.Done()
						cc, err := net.DialUDP("udp4", nil, c.LocalAddr().(*net.UDPAddr))
						if err != nil {
							return
						}
						defer cc.Close()
						m := llmnr.NewMessage()
						m.SetQuery()
						m.AddQuestion(fmt.Sprintf("host%d", i), llmnr.TypeA, llmnr.ClassIN)
						b, _ := m.Encode()
						cc.Write(b)
						cc.SetReadDeadline(time.Now().Add(150 * time.Millisecond))
						cc.Read(make([]byte, 1500))
					}(i)
				}
				if stopEarly {
					srv.Close()
					wg.Wait()
				} else {
					wg.Wait()
					srv.Close()
				}
				sw.Wait()
				done["llmnr-Serve"]++
			}
			// the documented usage: go ListenAndServe(); ...; Close()
			srv2, _ := llmnr.NewIPv4ServerWithHandlers([]llmnr.Handler{h})
			errc := make(chan error, 1)
			go func() { errc <- srv2.ListenAndServe() }()
			if !stopEarly {
				time.Sleep(2 * time.Millisecond)
			}
			srv2.Close()
			select {
			case err := <-errc:
				if err != nil {
					skipped["llmnr-ListenAndServe"] = err.Error()
				} else {
					done["llmnr-ListenAndServe"]++
				}
			case <-time.After(3 * time.Second):
				skipped["llmnr-ListenAndServe"] = "did not return within 3 s of Close (not judged here)"
				if srv2.Conn != nil {
					srv2.Conn.Close()
				}
			}
		}
		// --- LLMNR server in DEBUG mode with the library's own packet-describing handler, kept busy across a
		// wall-clock second boundary (first round only): the Serve loop and the handler goroutines log
		// concurrently, and whatever the logger keeps per second / per call is shared between them
		if r == 0 {
			h := llmnr.HandlerFunc(func(s *llmnr.Server, ra net.Addr, w llmnr.ResponseWriter, m *llmnr.Message) bool {
				resp := llmnr.CreateResponseFromMessage(m)
				for _, q := range m.Questions {
					resp.AddAnswerClassINTypeA(q.Name, "10.0.0.1")
				}
				w.WriteMessage(resp)
				return true
			})
			srv, _ := llmnr.NewServer("udp4", []llmnr.Handler{h, llmnr.HandlerFunc(llmnr.HandlerDescribePacket)})
			c, err := net.ListenUDP("udp4", &net.UDPAddr{IP: net.IPv4(127, 0, 0, 1)})
			if err != nil {
				skipped["llmnr-Serve-debug"] = err.Error()
			} else {
				srv.Conn = c
				srv.SetDebug(true)
				var sw sync.WaitGroup
				sw.Add(1)
				go func() { defer sw.Done(); srv.Serve() }()
				until := time.Now().Add(1300 * time.Millisecond)
				var wg sync.WaitGroup
				for i := 0; i < 4; i++ {
					wg.Add(1)
					go func(i int) {
						defer wg.Done()
						cc, err := net.DialUDP("udp4", nil, c.LocalAddr().(*net.UDPAddr))
						if err != nil {
							return
						}
						defer cc.Close()
						for time.Now().Before(until) {
							m := llmnr.NewMessage()
							m.SetQuery()
							m.AddQuestion(fmt.Sprintf("host%d", i), llmnr.TypeA, llmnr.ClassIN)
							b, _ := m.Encode()
							cc.Write(b)
							cc.SetReadDeadline(time.Now().Add(20 * time.Millisecond))
							cc.Read(make([]byte, 1500))
						}
					}(i)
				}
				wg.Wait()
				srv.Close()
				sw.Wait()
				done["llmnr-Serve-debug"]++
			}
		}
		// --- LLMNR client: concurrent queries and Close
		{
			cl, err := llmnr.NewClient()
			if err != nil {
				skipped["llmnr-Client"] = err.Error()
			} else {
				cl.Timeout = 30 * time.Millisecond
				var wg sync.WaitGroup
				for i := 0; i < 3; i++ {
					wg.Add(1)
					go func(i int) {
						defer wg.Done()
						cl.Query(context.Background(), fmt.Sprintf("host%d", i), llmnr.TypeA)
					}(i)
				}
				if stopEarly {
					// two owners of the client react to the same event
					for k := 0; k < 2; k++ {
						wg.Add(1)
						go func() { defer wg.Done(); cl.Close() }()
					}
				}
				wg.Wait()
				cl.Close()
				done["llmnr-Client"]++
			}
		}
	}
	fmt.Fprintf(realOut, "race pass rounds=%d completed=%v skipped=%v\n", rounds, done, skipped)
}
