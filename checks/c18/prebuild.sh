#!/bin/bash
exec "$(dirname "$(readlink -f "$0")")/../../tools/e3prebuild.sh" "$@"
