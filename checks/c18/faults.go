package main

import (
	"context"
	"fmt"
	"net"
	"reflect"
	"time"
	"unsafe"

	"github.com/TheManticoreProject/Manticore/network/llmnr"
	"github.com/TheManticoreProject/Manticore/network/netbios/nbtns"
	"github.com/TheManticoreProject/Manticore/zz_verif/vnet"
	"github.com/TheManticoreProject/Manticore/zz_verif/vrt"

	"verif/vf"
)

// udpConnOf finds the (private) socket of a server value by type.
func udpConnOf(srv any) *vnet.UDPConn {
	v := reflect.ValueOf(srv).Elem()
	want := reflect.TypeOf((*vnet.UDPConn)(nil))
	for i := 0; i < v.NumField(); i++ {
		if v.Field(i).Type() == want {
			return *(**vnet.UDPConn)(unsafe.Pointer(v.Field(i).UnsafeAddr()))
		}
	}
	return nil
}

// faultScenarios: the environment may fail ONCE per execution at any point the explorer chooses
// (a receive error on the server's socket, a temporary accept error); an injected fault costs one
// deviation like a preemption. The servers must survive it: every response still carries its own
// request's id and answer, nobody answers twice, Stop/Close still return promptly and nothing leaks.
func faultScenarios(c *vf.Ctx, B int) []*scenario {
	var out []*scenario
	keys := []string{"at-most-one-response-per-request", "response-carries-own-transaction-id", "response-is-parseable", "response-answers-own-question", "stop-returns-promptly", "no-goroutine-left-after-stop", "request-not-hit-by-the-fault-is-answered"}
	for _, im := range impls() {
		im := im
		if im.tcp {
			out = append(out, &scenario{name: "fault/nbns-TCPServer-accept-error", keys: append(keys, "exactly-one-response-per-request"), bound: B, faults: 1, body: func(x *exec) {
				s, t := im.mk()
				t.RegisterName("NX", nbtns.Unique, ipX, time.Hour)
				t.RegisterName("NY", nbtns.Unique, ipY, time.Hour)
				if err := s.Start(); err != nil {
					panic("harness: start: " + err.Error())
				}
				var r1, r2 []resp
				var e1, e2 string
				h1 := vrt.GoNamed("connA", func() { r1, e1 = tcpExchange("127.0.0.1:137", [][]byte{mkQuery(0x1111, 0, "NX")}, 0) })
				h2 := vrt.GoNamed("connB", func() { r2, e2 = tcpExchange("127.0.0.1:137", [][]byte{mkQuery(0x2222, 0, "NY")}, 0) })
				vrt.Join(h1)
				vrt.Join(h2)
				x.obs("connA %v %s; connB %v %s", r1, e1, r2, e2)
				// a temporary accept error leaves the connection queued: both must still be served
				checkQueryResp(x, "connA", 0x1111, "NX", ipX, r1, true)
				checkQueryResp(x, "connB", 0x2222, "NY", ipY, r2, true)
				stopAndDrain(x, s)
			}})
			continue
		}
		out = append(out, &scenario{name: "fault/nbns-" + im.name + "-receive-error", keys: keys, bound: B, faults: 1, body: func(x *exec) {
			s, t := im.mk()
			t.RegisterName("NX", nbtns.Unique, ipX, time.Hour)
			t.RegisterName("NY", nbtns.Unique, ipY, time.Hour)
			if err := s.Start(); err != nil {
				panic("harness: start: " + err.Error())
			}
			sock := udpConnOf(s)
			if sock == nil {
				panic("harness: cannot find the server's socket")
			}
			sock.FaultyReads = true
			var r1, r2 []resp
			h1 := vrt.GoNamed("clientNX", func() { r1 = udpExchange(srvUDP, mkQuery(0x1111, 0, "NX")) })
			h2 := vrt.GoNamed("clientNY", func() { r2 = udpExchange(srvUDP, mkQuery(0x2222, 0, "NY")) })
			vrt.Join(h1)
			vrt.Join(h2)
			checkQueryResp(x, "clientNX", 0x1111, "NX", ipX, r1, false)
			checkQueryResp(x, "clientNY", 0x2222, "NY", ipY, r2, false)
			// at most one datagram was lost to the fault: at least one client has its answer
			if len(r1)+len(r2) < 1 {
				x.fail("request-not-hit-by-the-fault-is-answered", "one receive error was injected at most, but neither client was answered: %v %v", r1, r2)
			}
			stopAndDrain(x, s)
		}})
	}
	lk := []string{"at-most-one-response-per-request", "response-carries-own-transaction-id", "response-is-parseable", "response-answers-own-question", "serve-returns-after-close", "no-goroutine-left-after-close", "request-not-hit-by-the-fault-is-answered"}
	out = append(out, &scenario{name: "fault/llmnr-server-receive-error", keys: lk, bound: B, faults: 1, body: func(x *exec) {
		srv, hs, serr := startLServer(x, []llmnr.Handler{answerHandler(x)})
		vrt.Op(func() bool { return srv.Conn != nil || hs.Done() }, 0, "wait-listen")
		if srv.Conn != nil {
			srv.Conn.FaultyReads = true
		}
		var r1, r2 []lresp
		t1 := vrt.GoNamed("client-hostx", func() { r1 = lExchange(mkLQuery(0x0a0a, "hostx", "tok-x")) })
		t2 := vrt.GoNamed("client-hosty", func() { r2 = lExchange(mkLQuery(0x1414, "hosty", "tok-y")) })
		vrt.Join(t1)
		vrt.Join(t2)
		checkL(x, "client-hostx", 0x0a0a, "hostx", "tok-x", r1, false)
		checkL(x, "client-hosty", 0x1414, "hosty", "tok-y", r2, false)
		if len(r1)+len(r2) < 1 {
			x.fail("request-not-hit-by-the-fault-is-answered", "one receive error was injected at most, but neither client was answered")
		}
		closeLServer(x, srv, hs, serr)
	}})
	out = append(out, &scenario{name: "fault/llmnr-client-receive-error", keys: []string{"query-returns-response-with-own-id", "readloop-exits-after-close", "query-not-hit-by-the-fault-is-answered"}, bound: B, faults: 1, body: func(x *exec) {
		rsp, err := vnet.ListenMulticastUDP("udp4", nil, llmnrGroup)
		if err != nil {
			panic("harness: " + err.Error())
		}
		cl, err := llmnr.NewClient()
		if err != nil {
			panic("harness: NewClient: " + err.Error())
		}
		cl.Conn.FaultyReads = true
		names := []string{"hostx", "hosty"}
		res := make([]*llmnr.Message, 2)
		errs := make([]error, 2)
		var ths []*vrt.T
		for i := range names {
			i := i
			ths = append(ths, vrt.GoNamed("query-"+names[i], func() { res[i], errs[i] = cl.Query(context.Background(), names[i], llmnr.TypeA) }))
		}
		rt := vrt.GoNamed("responder", func() {
			buf := make([]byte, 2048)
			for k := 0; k < 2; k++ {
				rsp.SetReadDeadline(time.Time{})
				n, from, err := rsp.ReadFromUDP(buf)
				if err != nil {
					return
				}
				m, err := llmnr.DecodeMessage(append([]byte(nil), buf[:n]...))
				if err != nil || len(m.Questions) != 1 {
					continue
				}
				r := llmnr.CreateResponseFromMessage(m)
				r.AddAnswerClassINTypeA(m.Questions[0].Name, hostAddr[m.Questions[0].Name])
				b, _ := r.Encode()
				rsp.WriteToUDP(b, from)
			}
		})
		for _, t := range ths {
			vrt.Join(t)
		}
		answered := 0
		for i, m := range res {
			if errs[i] != nil || m == nil {
				x.obs("query %s -> %v", names[i], errs[i])
				continue
			}
			answered++
			q := ""
			if len(m.Questions) > 0 {
				q = m.Questions[0].Name
			}
			x.obs("query %s -> question %s", names[i], q)
			if q != names[i] {
				x.fail("query-returns-response-with-own-id", "Query(%s) was handed the response for %q", names[i], q)
			}
		}
		if answered < 1 {
			x.fail("query-not-hit-by-the-fault-is-answered", "one receive error was injected at most, but both queries failed: %v %v", errs[0], errs[1])
		}
		cl.Close()
		rsp.Close()
		vrt.Join(rt)
		if alive := vrt.Drain(120 * sec); len(alive) > 0 {
			x.fail("readloop-exits-after-close", "threads still alive 120 virtual seconds after Close: %v", alive)
		}
	}})
	_ = fmt.Sprint
	_ = net.IPv4len
	return out
}
