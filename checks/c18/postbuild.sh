#!/bin/bash
# builds the free-running -race pass against the UN-instrumented working tree
set -eu
work=$1; shift
cd "$(dirname "$(readlink -f "$0")")/../.."
export GOFLAGS=-mod=mod GOPROXY=off
go build "$@" -race -o "$work/racepass" ./checks/c18/race
