// Package nbstate reads the private name table of nbtns.NetBIOSNameServer for the harness of C17 without
// depending on how the table is stored: every map from string to NameRecord or *NameRecord that is reachable
// from the server value — directly, in an array or slice of shards, behind a pointer or an atomic.Pointer —
// is found by SHAPE and merged; records are returned by value.
package nbstate

import (
	"reflect"
	"unsafe"

	"github.com/TheManticoreProject/Manticore/network/netbios/nbtns"
)

var recType = reflect.TypeOf(nbtns.NameRecord{})

func isTable(t reflect.Type) bool {
	if t.Kind() != reflect.Map || t.Key().Kind() != reflect.String {
		return false
	}
	e := t.Elem()
	return e == recType || (e.Kind() == reflect.Ptr && e.Elem() == recType)
}

func accessible(v reflect.Value) reflect.Value {
	if v.CanInterface() || !v.CanAddr() {
		return v
	}
	return reflect.NewAt(v.Type(), unsafe.Pointer(v.UnsafeAddr())).Elem()
}

// walk collects the records of every table-shaped map reachable from v.
func walk(v reflect.Value, depth int, seen map[uintptr]bool, out map[string]nbtns.NameRecord, found *bool) {
	if depth > 8 || !v.IsValid() {
		return
	}
	v = accessible(v)
	switch v.Kind() {
	case reflect.Map:
		if !isTable(v.Type()) {
			return
		}
		*found = true
		it := v.MapRange()
		for it.Next() {
			e := it.Value()
			if e.Kind() == reflect.Ptr {
				if e.IsNil() {
					continue
				}
				e = e.Elem()
			}
			out[it.Key().String()] = e.Interface().(nbtns.NameRecord)
		}
	case reflect.Ptr, reflect.UnsafePointer:
		if v.Kind() == reflect.UnsafePointer || v.IsNil() {
			return
		}
		if seen[v.Pointer()] {
			return
		}
		seen[v.Pointer()] = true
		walk(v.Elem(), depth+1, seen, out, found)
	case reflect.Interface:
		if !v.IsNil() {
			walk(v.Elem(), depth+1, seen, out, found)
		}
	case reflect.Struct:
		if v.Type() == recType {
			return
		}
		if !v.CanAddr() {
			cp := reflect.New(v.Type()).Elem()
			cp.Set(v)
			v = cp
		}
		// atomic.Pointer[T] keeps its target in an unsafe.Pointer field: re-type it through the Load method's result
		if m := v.Addr().MethodByName("Load"); m.IsValid() && m.Type().NumIn() == 0 && m.Type().NumOut() == 1 && m.Type().Out(0).Kind() == reflect.Ptr {
			r := m.Call(nil)[0]
			if !r.IsNil() {
				walk(r, depth+1, seen, out, found)
			}
			return
		}
		for i := 0; i < v.NumField(); i++ {
			walk(v.Field(i), depth+1, seen, out, found)
		}
	case reflect.Array, reflect.Slice:
		ek := v.Type().Elem().Kind()
		if ek == reflect.Uint8 || ek == reflect.String {
			return
		}
		for i := 0; i < v.Len() && i < 4096; i++ {
			walk(v.Index(i), depth+1, seen, out, found)
		}
	}
}

// typeHasTable reports whether a table-shaped map type occurs anywhere in t.
func typeHasTable(t reflect.Type, depth int, seen map[reflect.Type]bool) bool {
	if depth > 8 || seen[t] {
		return false
	}
	seen[t] = true
	switch t.Kind() {
	case reflect.Map:
		return isTable(t)
	case reflect.Ptr, reflect.Array, reflect.Slice:
		return typeHasTable(t.Elem(), depth+1, seen)
	case reflect.Struct:
		if m, ok := reflect.PointerTo(t).MethodByName("Load"); ok && m.Type.NumIn() == 1 && m.Type.NumOut() == 1 && m.Type.Out(0).Kind() == reflect.Ptr {
			return typeHasTable(m.Type.Out(0), depth+1, seen)
		}
		for i := 0; i < t.NumField(); i++ {
			if typeHasTable(t.Field(i).Type, depth+1, seen) {
				return true
			}
		}
	}
	return false
}

// Readable reports whether the table can be found in this version of the library.
func Readable() bool {
	return typeHasTable(reflect.TypeOf(nbtns.NetBIOSNameServer{}), 0, map[reflect.Type]bool{})
}

// Records returns a copy of every record of the table (nil, false when no table-shaped map is reachable).
func Records(t *nbtns.NetBIOSNameServer) (map[string]nbtns.NameRecord, bool) {
	out := map[string]nbtns.NameRecord{}
	found := false
	walk(reflect.ValueOf(t).Elem(), 0, map[uintptr]bool{}, out, &found)
	if !found {
		return nil, false
	}
	return out, true
}
