// Package nbstate reads the private name table of nbtns.NetBIOSNameServer for the harnesses of C17 and C18
// without depending on how the table is stored: the field is found by SHAPE (a map from string to NameRecord
// or *NameRecord, whatever its name or position), records are returned by value.
package nbstate

import (
	"reflect"
	"unsafe"

	"github.com/TheManticoreProject/Manticore/network/netbios/nbtns"
)

var recType = reflect.TypeOf(nbtns.NameRecord{})

func isTable(t reflect.Type) bool {
	if t.Kind() != reflect.Map || t.Key().Kind() != reflect.String {
		return false
	}
	e := t.Elem()
	return e == recType || (e.Kind() == reflect.Ptr && e.Elem() == recType)
}

// Readable reports whether the table can be found in this version of the library.
func Readable() bool {
	rt := reflect.TypeOf(nbtns.NetBIOSNameServer{})
	for i := 0; i < rt.NumField(); i++ {
		if isTable(rt.Field(i).Type) {
			return true
		}
	}
	return false
}

// Records returns a copy of every record of the table (nil, false when the table cannot be found).
func Records(t *nbtns.NetBIOSNameServer) (map[string]nbtns.NameRecord, bool) {
	v := reflect.ValueOf(t).Elem()
	for i := 0; i < v.NumField(); i++ {
		f := v.Field(i)
		if !isTable(f.Type()) {
			continue
		}
		f = reflect.NewAt(f.Type(), unsafe.Pointer(f.UnsafeAddr())).Elem()
		out := map[string]nbtns.NameRecord{}
		it := f.MapRange()
		for it.Next() {
			e := it.Value()
			if e.Kind() == reflect.Ptr {
				if e.IsNil() {
					continue
				}
				e = e.Elem()
			}
			out[it.Key().String()] = e.Interface().(nbtns.NameRecord)
		}
		return out, true
	}
	return nil, false
}
