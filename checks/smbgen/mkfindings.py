#!/usr/bin/env python3
"""Builds /verif/findings/C03.json, C04.json, C05.json from the --list-failures output of the three checks.

Input (produced with ./vcheck CNN quick|thorough --list-failures, see notes/C03.md), in /verif/.work/smb345:
  pre/T0.<ID>.<tier>.json  failing obligations on the tree before this group's five fixes were applied
  T1.<ID>.<tier>.json      failing obligations on the current /repo (fixes of all groups applied)
  R.C03.<tier>.json        failing obligations of C03 on /repo + fixes/C03-message-marshal-resets-blocks.patch
Output: one entry per failing obligation key.
  status "fixed" + commit : failed on T0, passes on T1 (attributed to one fix commit by command name)
  status "fixed" + PENDING: (C03) fails on T1, passes on R: repaired by the proposed, not yet applied patch
  status "known"          : fails on T1 (and on R) -> needs a root cause from the reviewed table below;
                                  a key without a root cause is an ERROR (the table must be extended by a human,
                                  never filled in automatically).
The root-cause texts were written after reproducing each cause against the real code (notes/C0x.md).
"""
import json, sys, os, re, collections

W = '/verif/.work/smb345'
U = json.load(open(f'{W}/universe.json'))

CAUSE = {
 'ACC': "Marshal accumulator: every generated Marshal appends its parameter words and data bytes to Command.Parameters.Words / Command.Data.Bytes "
        "(Parameters.AddWordsFromBytesStream, Data.Add) and never resets them, and Unmarshal leaves the decoded words/bytes there too; a second Marshal of the same "
        "object, or a Marshal of a decoded object, emits the old block followed by the new one (WordCount and ByteCount double). Same code in all ~114 generated command files.",
 'ACC_MSG': "until fixes/C03-message-marshal-resets-blocks.patch is applied the Marshal accumulator (Command.Parameters.Words / Command.Data.Bytes are appended to, never reset) contributes to this "
            "failure; the key keeps failing with that patch because the command does not decode its own encoding correctly, so the re-marshalled decoded object differs from the first encoding:",
 'ANDX': "AndX block never parsed: the Unmarshal of every AndX command reads its own parameter fields from offset 0 of the parameter words instead of skipping "
         "AndXCommand/AndXReserved/AndXOffset, and never fills Command.AndX; every parameter field is decoded 4 bytes too early (and the variable data fields follow the "
         "mis-decoded length fields). Same omission in all 16 generated AndX command files.",
 'BE': "big-endian parameter integers: the generated Marshal/Unmarshal of this command use binary.BigEndian.PutUint16/PutUint32/Uint16/Uint32 for the field; MS-CIFS "
       "integers are little-endian. Encoder and decoder are wrong in the same way, so the library round-trips with itself but not with a peer. 526 call sites in 72 command files.",
 'BE_ATTR': "types.SMB_FILE_ATTRIBUTES.Marshal/Unmarshal use binary.BigEndian for the 16-bit attribute word (MS-CIFS: little-endian USHORT); the repository's own "
            "TestSMB_FILE_ATTRIBUTES_Marshal pins the big-endian bytes, so the helper cannot be corrected without editing that test.",
 'BE_ANDXOFF': "andx.AndX.GetParameters/Marshal/Unmarshal carry AndXOffset big-endian (MS-CIFS 2.2.3.4: little-endian USHORT); the repository's TestAndX_Marshal / "
               "TestAndX_GetParameters pin the big-endian form, so the helper cannot be corrected without editing those tests.",
 'BARE': "the LAN Manager/NT LM commands carry their strings as plain NUL-terminated strings without a buffer-format byte (MS-CIFS 2.2.4.53/.55/.64/.41/.33), "
         "but the structure types them as SMB_STRING/OEM_STRING and the generated Marshal forces a format on them (0x04 + bytes + NUL, or 0x01 + length + bytes), and "
         "Unmarshal expects the same; a peer's encoding is mis-parsed and the library's is not what a peer expects.",
 'PADOFF': "padding sliced with an offset value: Unmarshal takes Pad1/Pad2 (Pad) as rawData[pos : pos+ParameterOffset] / [pos : pos+DataOffset], although the offset fields count from the "
           "start of the SMB header (MS-CIFS), so any message whose offsets are correct is rejected ('too short for Pad1') or its padding/buffers are mis-split; with offsets "
           "left at 0 explicit padding is lost on decode.",
 'PAD1': "Unmarshal always takes exactly one byte of Pad (rawDataContent[offset:offset+1]) and errors when the data block is empty, whatever DataOffset says: "
         "the library cannot decode its own encoding of the default structure and mis-splits Pad/Data otherwise.",
 'OMIT': "field never written: the generated Marshal has no code for this field (Reserved words / pipe status of the response are dropped), so WordCount is smaller than the declared "
         "parameter fields need, the field does not survive a round trip, and the fields behind it sit at the wrong offset for a peer.",
 'OPT_NEVER': "optional trailing parameter guarded by the wrong condition: Marshal emits the field only if Parameters.WordCount already equals the long form's count (it is 0 "
              "before Marshal) resp. Unmarshal only if WordCount equals the MS-CIFS constant, which does not match the widths of the declared field types; a non-zero value is lost.",
 'ODD': "the declared parameter fields add up to an odd number of bytes (a field is narrower/wider than in MS-CIFS or missing), so no WordCount describes them; Marshal pads the last "
        "byte into a word (shifting it), Unmarshal expects the MS-CIFS width and fails.",
 'FILETIME2': "FILETIME field read with the 2-byte SMB_TIME width: Unmarshal hands rawParametersContent[offset:offset+2] to FILETIME.Unmarshal (which needs 8 bytes) and skips some "
              "time fields entirely, so the library cannot decode its own QueryInformation2Response and every later field stays zero.",
 'NMPIPE': "SMB_NMPIPE_STATUS.Unmarshal demands a slice of exactly 2 bytes but is handed the rest of the parameter block (rawParametersContent[offset:]): "
           "'data must be 2 bytes long', the structure cannot decode its own encoding.",
 'DIRINFO': "SMB_DIRECTORY_INFORMATION is not the 43-byte MS-CIFS entry: the resume key is emitted as a format-0x05 variable block, the time as an 8-byte FILETIME, the 8.3 name with a "
            "format byte (14 bytes); the response also lacks the 0x05/DataLength prefix of the entry list, and decoding the library's own entry fails ('data too short for FileName').",
 'TMPNAME': "CreateTemporaryResponse.Unmarshal never decodes TemporaryFileName (no code for the data block), the field stays empty.",
 'BE_LEN': "count/length field decoded big-endian: a little-endian count n on the wire is read as byteswap(n) (binary.BigEndian in the generated Unmarshal), so the buffer it counts is cut short, "
           "over-read ('too short' error or slice bounds panic) or the following fields are mis-located.",
 'SETINFO': "SetInformationRequest: Reserved is declared [5]UCHAR (MS-CIFS: USHORT[5]) and LastWriteTime as 8-byte FILETIME (MS-CIFS: 4-byte UTIME): 15 parameter bytes; Marshal squeezes them into 8 words, "
            "Unmarshal reads 10 reserved bytes and fails, FileName is never reached.",
 'NTSEC': "NtTransactSecondaryRequest lacks the 3 leading reserved bytes of MS-CIFS, leaving 33 parameter bytes; Marshal turns the last byte (Reserved2) into the low byte of a 17th word.",
 'DIALECT0': "zero dialects are encoded as 02 00 (one empty dialect) instead of an empty list",
 'STR3': "SMB_STRING format 0x03 is written/read as format byte, 16-bit length, bytes, NUL; MS-CIFS 2.2.1.1 defines 0x03 as a NUL-terminated pathname without a length (reported by C06 as well).",
 'WAC': "WriteAndCloseRequest.Unmarshal reads the optional Reserved[3] only when WordCount == 12 (the MS-CIFS constant for a 4-byte UTIME), but with LastWriteTime declared as 8-byte FILETIME the "
        "long form has 14 words, so Reserved is never decoded.",
 'SSPAD': "SessionSetupAndxRequest/Response and TreeConnectAndxRequest decode Pad with a length derived from UnicodePasswordLen / a fixed byte instead of the alignment rule, so the "
          "strings behind it are mis-located.",
 'PANIC_LEN': "length field used as slice bound without a check (also reported, per panic site, by C07).",
}

FIX = {  # command / area -> (commit, what failed)
 'WriteRequest': ('66ba017', "WriteRequest.Marshal wrote the Data buffer in front of WordCount instead of into the data block"),
 'TreeConnectRequest': ('9522a4f', "TreeConnectRequest.Unmarshal decoded Password and Service from offset 0 of the data block (copies of Path)"),
 'NegotiateRequest': ('f5ae37a', "NegotiateRequest.Unmarshal looked for its WordCount field in the (empty) parameter words and rejected every negotiate request"),
 'Dialects': ('3f6f4af', "Dialects wrote one 0x02 for the whole NUL-joined list instead of one 0x02-prefixed entry per dialect (and decoded likewise)"),
 'NegotiateResponse': ('ad36b72', "NegotiateResponse.Marshal wrote DomainName without terminator and no ServerName; Unmarshal of that encoding panicked"),
}

TRANS = {'TransactionRequest','TransactionSecondaryRequest','Transaction2Request','Transaction2SecondaryRequest','NtTransactRequest','NtTransactSecondaryRequest','IoctlRequest','IoctlResponse'}
PADONE = {'ReadMpxResponse','WriteRawRequest','WriteMpxRequest'}
OMITTED = {('LockAndReadResponse','Reserved'),('ReadResponse','Reserved'),('QueryInformationResponse','Reserved'),('OpenAndxResponse','NMPipeStatus'),('OpenAndxResponse','Reserved'),('OpenAndxResponse','OpenResults')}
BARECMD = {'SessionSetupAndxRequest','SessionSetupAndxResponse','TreeConnectAndxRequest','TreeConnectAndxResponse','NtCreateAndxRequest','OpenAndxRequest','TransactionRequest'}


def kind(cmd, f):
    return U.get(cmd, {}).get('fields', {}).get(f, {}).get('kind')


def is_andx(cmd):
    return U.get(cmd, {}).get('andx', False)


def cause(key):
    """root cause id(s) for a failing key on the fixed tree; None = unknown (must be reviewed)."""
    p = key.split('/')
    prop = p[0]
    if prop == 'C03':
        if p[1] == 'repeat':
            cmd, sub = p[2], p[3]
            if sub in ('second-marshal-same-object', 'marshal-after-unmarshal'):
                if key in PENDING_C03:
                    return ['ACC']
                c = [x for x in (cmd_cause(cmd) or []) if x not in ('SSPAD',)]
                if cmd == 'CreateTemporaryResponse': c = ['TMPNAME']
                if cmd == 'WriteAndCloseRequest': c = ['WAC']
                return (['ACC_MSG'] + c) if c else None
            if sub == 'unmarshal-own-encoding':
                return cmd_cause(cmd)
        return None
    if prop == 'C04':
        cmd = p[1]
        rest = p[2:]
        if rest[0] in ('reencode', 'reencode-fresh-object'):
            return ['ACC']
        if rest[0] in ('unmarshal',) or rest[0].startswith('unmarshal'):
            c = cmd_cause(cmd)
            if len(rest) > 1 and rest[1].startswith('panic@'):
                c = (c or []) + ['PANIC_LEN']
            return c
        if rest[0] == 'width':
            if rest[1] == 'params':
                if cmd in ('SetInformationRequest',): return ['SETINFO']
                if cmd == 'NtTransactSecondaryRequest': return ['NTSEC']
                if cmd == 'ReadRawRequest': return ['OPT_NEVER']
                if any(c == cmd for c, _ in OMITTED): return ['OMIT']
            if rest[1] == 'data':
                if cmd in BARECMD: return ['BARE']
                if cmd in ('FindResponse', 'FindUniqueResponse'): return ['DIRINFO']
            return None
        if rest[0].startswith('field:'):
            f = rest[0][6:]
            k = rest[1]
            return field_cause(cmd, f, k)
        return None
    if prop == 'C05':
        if p[1] == 'andx':
            return ['BE_ANDXOFF']
        if p[1] == 'types':
            if p[2] == 'SMB_FILE_ATTRIBUTES': return ['BE_ATTR']
            if p[2] == 'SMB_STRING' and p[3] == 'format:3': return ['STR3']
            return None
        if p[1] in ('dialects', 'header'):
            return None
        cmd = p[1]
        rest = p[2:]
        if rest[0] in ('decode-ref',) or rest[0].startswith('decode-ref'):
            c = cmd_cause(cmd, ref=True)
            if len(rest) > 1 and rest[1].startswith('panic@'):
                c = (c or []) + ['PANIC_LEN']
            return c
        if rest[0] == 'wordcount':
            return field_cause(cmd, '', 'wordcount')
        if rest[0] == 'marshal':
            return None
        f, k = rest[0], rest[1]
        if f.startswith('andx.'):
            if k in ('byteorder',): return ['BE_ANDXOFF']
            return None
        if f == 'andx' and k == 'decode':
            return ['ANDX']
        return c05_field(cmd, f, k)
    return None


def cmd_cause(cmd, ref=False):
    c = []
    if is_andx(cmd): c.append('ANDX')
    if cmd in TRANS: c.append('PADOFF')
    if cmd in PADONE: c.append('PAD1')
    if cmd == 'QueryInformation2Response': c.append('FILETIME2')
    if cmd == 'NtCreateAndxResponse': c.append('NMPIPE')
    if cmd in ('FindResponse', 'FindUniqueResponse'): c.append('DIRINFO')
    if cmd == 'SetInformationRequest': c.append('SETINFO')
    if ref and cmd in ('LockingAndxRequest', 'WriteAndCloseRequest', 'WriteAndxRequest', 'SessionSetupAndxRequest', 'TreeConnectAndxRequest', 'WriteRawRequest', 'WriteMpxRequest', 'ReadMpxResponse') or (ref and cmd in TRANS): c.append('BE_LEN')
    if cmd in ('SessionSetupAndxRequest', 'SessionSetupAndxResponse', 'TreeConnectAndxRequest'): c.append('SSPAD')
    if ref and cmd in ('SessionSetupAndxRequest', 'SessionSetupAndxResponse', 'TreeConnectAndxRequest', 'TreeConnectAndxResponse', 'NtCreateAndxRequest', 'OpenAndxRequest'): c.append('BARE')
    if cmd == 'TransactionRequest' and ref: c.append('BARE')
    if cmd == 'NtTransactSecondaryRequest': c.append('NTSEC')
    if ref and cmd == 'WriteAndCloseRequest': c.append('WAC')
    return c or None


def field_cause(cmd, f, k):
    # C04 field obligations (roundtrip, roundtrip-modulo-andx, locality) and C05 wordcount
    if k == 'wordcount':
        if cmd == 'SetInformationRequest': return ['SETINFO']
        if cmd == 'NtTransactSecondaryRequest': return ['NTSEC']
        if cmd == 'ReadRawRequest': return ['OPT_NEVER']
        if any(c == cmd for c, _ in OMITTED): return ['OMIT']
        return None
    if (cmd, f) in OMITTED or (cmd == 'OpenAndxResponse' and f in ('OpenResults',) and k == 'locality'):
        return ['OMIT'] + (['ANDX'] if is_andx(cmd) and k == 'roundtrip' else [])
    if cmd == 'ReadRawRequest' and f == 'OffsetHigh': return ['OPT_NEVER']
    if cmd == 'WriteAndCloseRequest' and f == 'Reserved': return ['WAC']
    if cmd == 'WriteAndxRequest' and f == 'OffsetHigh' and k == 'roundtrip-modulo-andx': return ['OPT_NEVER']
    if cmd == 'SetInformationRequest': return ['SETINFO']
    if cmd == 'NtTransactSecondaryRequest' and f == 'Reserved2': return ['NTSEC']
    if cmd == 'CreateTemporaryResponse' and f == 'TemporaryFileName': return ['TMPNAME']
    if cmd in ('FindResponse', 'FindUniqueResponse'): return ['DIRINFO']
    if cmd == 'QueryInformation2Response': return ['FILETIME2']
    if cmd in TRANS and (f.startswith('Pad') or 'Parameters' in f or 'Data' in f): return ['PADOFF']
    if cmd in PADONE and f in ('Pad', 'Data', 'Buffer'): return ['PAD1']
    if k == 'roundtrip-modulo-andx':
        if cmd == 'NtCreateAndxResponse' and f in ('NMPipeStatus', 'Directory'): return ['NMPIPE']
        if cmd in BARECMD and kind(cmd, f) in ('SMB_STRING', 'OEM_STRING'): return ['SSPAD']
        if f == 'Pad': return ['SSPAD']
        return None
    if is_andx(cmd) and k == 'roundtrip':
        return ['ANDX']
    return None


def c05_field(cmd, f, k):
    kd = kind(cmd, f)
    intlike = kd in ('int', 'FILETIME', 'LARGE_INTEGER', 'SMB_DATE', 'SMB_FILE_ATTRIBUTES', 'SMB_NMPIPE_STATUS', 'int-array', 'words')
    sect = U.get(cmd, {}).get('fields', {}).get(f, {}).get('section')
    be = 'BE_ATTR' if kd == 'SMB_FILE_ATTRIBUTES' else 'BE'
    if cmd == 'SetInformationRequest' and (f in ('Reserved', 'FileName') or k.startswith('dec')): return ['SETINFO'] + ([be] if k.endswith('byteorder') and f != 'Reserved' and f != 'FileName' else [])
    if cmd == 'NtTransactSecondaryRequest' and f == 'Reserved2': return ['NTSEC']
    if (cmd, f) in OMITTED: return ['OMIT'] + (['ANDX'] if is_andx(cmd) and k.startswith('dec') and not k.endswith('modulo-andx') else [])
    if cmd == 'ReadRawRequest' and f == 'OffsetHigh': return ['OPT_NEVER']
    if cmd == 'WriteAndCloseRequest' and f in ('Reserved',) and k.startswith('dec'): return ['WAC']
    if cmd == 'WriteAndxRequest' and f == 'OffsetHigh' and k.endswith('modulo-andx'): return ['OPT_NEVER']
    if cmd == 'CreateTemporaryResponse' and f == 'TemporaryFileName': return ['TMPNAME']
    if cmd in ('FindResponse', 'FindUniqueResponse') and f == 'DirectoryInformationData': return ['DIRINFO']
    if cmd == 'QueryInformation2Response' and k.startswith('dec'):
        return ['FILETIME2'] + ([be] if k == 'dec-byteorder' else [])
    if cmd == 'NtCreateAndxResponse' and f in ('NMPipeStatus', 'Directory') and k.endswith('modulo-andx'): return ['NMPIPE']
    if k in ('byteorder',):
        if sect == 'params' and intlike: return [be]
        return None
    if k in ('dec-byteorder', 'dec-layout'):
        if is_andx(cmd): return ['ANDX'] + ([be] if k == 'dec-byteorder' else [])
        if k == 'dec-byteorder' and intlike and sect == 'params': return [be]
        return None
    if k in ('dec-byteorder-modulo-andx',):
        if intlike and sect == 'params': return [be]
        return None
    if k in ('format', 'value-bytes'):
        if cmd in BARECMD and kd in ('SMB_STRING', 'OEM_STRING'): return ['BARE']
        return None
    if k in ('decode', 'decode-modulo-andx'):
        counted = U.get(cmd, {}).get('fields', {}).get(f, {}).get('countedby')
        if cmd in TRANS and (f.startswith('Pad') or 'Parameters' in f or 'Data' in f): return ['PADOFF', 'BE_LEN']
        if cmd in PADONE and f in ('Pad', 'Data', 'Buffer'): return ['PAD1', 'BE_LEN']
        if counted and kd != 'words':
            return ['BE_LEN'] + (['ANDX'] if is_andx(cmd) and k == 'decode' else [])
        if cmd == 'TransactionRequest' and f == 'Name': return ['BARE']
        if cmd == 'TransactionRequest' and f == 'Setup': return ['BE']
        if cmd in PADONE and f in ('Pad', 'Data', 'Buffer'): return ['PAD1']
        if cmd in BARECMD and kd in ('SMB_STRING', 'OEM_STRING'): return ['BARE'] + (['ANDX'] if k == 'decode' else [])
        if f == 'Pad' and cmd in ('SessionSetupAndxRequest', 'SessionSetupAndxResponse', 'TreeConnectAndxRequest'): return ['SSPAD'] + (['ANDX'] if k == 'decode' else [])
        if is_andx(cmd) and k == 'decode': return ['ANDX']
        return None
    if k == 'dec-layout-modulo-andx':
        return None
    if k == 'layout':
        return None
    return None


OTHER = [  # (regex on key, commit, what) for keys repaired by other groups' fixes
 (r'panic@.*SessionSetupAndxRequest\)\.Unmarshal', 'aa3851b', "SessionSetupAndxRequest.Unmarshal sliced the data block with unchecked OEMPasswordLen/UnicodePasswordLen (panic)"),
 (r'panic@.*WriteAndxRequest\)\.Unmarshal', '791694e', "WriteAndxRequest.Unmarshal sliced the data block with an unchecked DataLength (panic)"),
 (r'panic@.*Write(Mpx|Raw|AndClose)Request\)\.Unmarshal', 'C07 bounds fixes', "Unmarshal sliced the data block with an unchecked length/offset field (panic)"),
 (r'panic@.*SMB_STRING\)\.Unmarshal', '2c33338', "SMB_STRING.Unmarshal format 0x05 without bounds check (panic)"),
 (r'^C0[345]/(repeat/)?Find(Unique)?Response', '9685d8c', "SMB_DIRECTORY_INFORMATION.Unmarshal read a 13-byte window for the 14-byte FileName field ('data too short for FileName')"),
]


def other_fix(key):
    for rx, commit, what in OTHER:
        if re.search(rx, key):
            return commit, what
    return None


def fix_for(key):
    p = key.split('/')
    if p[0] == 'C05' and p[1] == 'dialects': return 'Dialects'
    cmd = p[2] if p[0] == 'C03' and p[1] in ('repeat', 'framing') else p[1]
    if cmd == 'NegotiateRequest' and ('Dialects' in key) and p[0] == 'C05' and ('format' in key or 'value-bytes' in key): return 'Dialects'
    if cmd == 'NegotiateRequest' and p[0] == 'C04' and key.endswith('width/data'): return 'Dialects'
    return cmd if cmd in FIX else None


def load(tree, prop):
    out = {}
    for tier in ('quick', 'thorough'):
        fn = f'{W}/pre/{tree}.{prop}.{tier}.json' if tree == 'T0' else f'{W}/{tree}.{prop}.{tier}.json'
        if not os.path.exists(fn):
            print('missing', fn, file=sys.stderr)
            continue
        try:
            for e in json.load(open(fn)):
                out.setdefault(e['key'], e['witness'])
        except Exception as ex:
            print('cannot read', fn, ex, file=sys.stderr)
    return out


PENDING_C03 = set()


def main():
    bad = 0
    r = load('R', 'C03')
    PENDING_C03.update(set(load('T1', 'C03')) - set(r))
    for prop in ('C03', 'C04', 'C05'):
        t0, t1 = load('T0', prop), load('T1', prop)
        entries = []
        unknown = []
        if not t0 and os.path.exists(f'/verif/findings/{prop}.json'):
            # the pre-fix failure lists (tree e2732d6) are scratch data; without them keep the committed "fixed" entries
            for e in json.load(open(f'/verif/findings/{prop}.json')):
                if e.get('status') == 'fixed' and e.get('commit') != 'PENDING' and e['key'] not in t1:
                    entries.append(e)
        known_keys = dict(t1)
        for key in sorted(known_keys):
            cs = cause(key)
            if not cs:
                unknown.append(key)
                continue
            what = ' + '.join(cs) + ': ' + ' || '.join(CAUSE[c] for c in cs)
            wit = known_keys[key]
            if prop == 'C03' and key in PENDING_C03:
                entries.append({"property": prop, "key": key, "status": "fixed", "commit": "PENDING",
                                "what": f"fixed: property=C03 PENDING Message.Marshal re-emitted the previous parameter/data blocks (Marshal accumulator) - fixes/C03-message-marshal-resets-blocks.patch",
                                "witness": wit[:700]})
                continue
            entries.append({"property": prop, "key": key, "status": "known", "what": what, "witness": wit[:700]})
        for key in sorted(set(t0) - set(known_keys)):
            fx = fix_for(key)
            if not fx:
                o = other_fix(key)
                if not o:
                    unknown.append('FIXED-BUT-UNATTRIBUTED ' + key)
                    continue
                commit, what = o
            else:
                commit, what = FIX[fx]
            entries.append({"property": prop, "key": key, "status": "fixed", "commit": commit,
                            "what": f"fixed: property={prop} {commit} {what}", "witness": t0[key][:700]})
        print(prop, 'known', sum(1 for e in entries if e['status'] == 'known'), 'fixed', sum(1 for e in entries if e['status'] == 'fixed'), 'UNCLASSIFIED', len(unknown))
        for k in unknown:
            print('   ?', k, '|', (known_keys.get(k) or t0.get(k.replace('FIXED-BUT-UNATTRIBUTED ', '')) or '')[:300])
        bad += len(unknown)
        if '--write' in sys.argv and not unknown:
            json.dump(entries, open(f'/verif/findings/{prop}.json', 'w'), indent=1, ensure_ascii=False)
            open(f'/verif/findings/{prop}.json', 'a').write('\n')
    sys.exit(1 if bad else 0)


main()
