// Package smbgen holds what the SMB1 checks C03, C04 and C05 share besides the reference model
// (verif/ref/refsmb): the deviation-bounded enumeration of assignments on top of mc/explore, per-command
// obligation bookkeeping, library call wrappers that catch panics, and stdout silencing (a library decoder
// prints to stdout).
package smbgen

import (
	"fmt"
	"hash/fnv"
	"os"
	"reflect"
	"sort"
	"sync"

	"github.com/TheManticoreProject/Manticore/network/smb/smb_v10/message/commands/command_interface"

	"verif/mc/explore"
	"verif/ref/refsmb"
	"verif/vf"
)

// Silence redirects os.Stdout to /dev/null (types.SMB_RESUME_KEY.Unmarshal prints its buffer) and returns
// the function that restores it. vf.Main prints its verdict after the body returned, i.e. after restore.
func Silence() (restore func()) {
	orig := os.Stdout
	null, err := os.OpenFile(os.DevNull, os.O_WRONLY, 0)
	if err != nil {
		return func() {}
	}
	os.Stdout = null
	restoreStdout = func() { os.Stdout = orig }
	return restoreStdout
}

var restoreStdout = func() {}

// Fatalf is c.Fatalf with stdout restored first (harness error, exit 2).
func Fatalf(c *vf.Ctx, format string, a ...any) {
	restoreStdout()
	c.Fatalf(format, a...)
}

// Setup loads the universe and runs the reference self-test; a failure is a harness error.
func Setup(c *vf.Ctx, restore func()) *refsmb.Universe {
	u, err := refsmb.LoadUniverse()
	if err != nil {
		restore()
		c.Fatalf("reference model: %v", err)
	}
	if err := u.SelfTest(); err != nil {
		restore()
		c.Fatalf("%v", err)
	}
	if len(u.Cmds) < 100 {
		restore()
		c.Fatalf("only %d command structures reachable from the factories (expected about 114): universe discovery is broken", len(u.Cmds))
	}
	return u
}

// Enumerate runs fn on every assignment of cmd within `bound` deviations from the base (zero or full).
// Each free field is one choice point of mc/explore: alternative 0 keeps the base value, alternative k is
// lattice value k-1. The first Cheap lattice values of a field cost one deviation, the others two, so with
// bound >= 2 every single value is visited and pairs/triples are formed over the reduced lattice.
var Cheap = 2

func Enumerate(cmd *refsmb.Cmd, lat [][]refsmb.Choice, full bool, bound int, stop func() bool, fn func(a *refsmb.Assign, r *explore.Run)) (explore.Stats, error) {
	e := &explore.Explorer{Bound: bound, Stop: stop}
	e.Body = func(r *explore.Run) {
		dev := make([]int, len(cmd.Fields))
		for _, f := range cmd.Fields {
			if !f.Free() || len(lat[f.Pos]) == 0 {
				continue
			}
			n := 1 + len(lat[f.Pos])
			cost := make([]int, n)
			for k := 1; k < n; k++ {
				cost[k] = 1
				if k > Cheap {
					cost[k] = 2
				}
			}
			dev[f.Pos] = r.ChooseCost(n, f.Name, cost)
		}
		fn(&refsmb.Assign{C: cmd, Full: full, Dev: dev, Lat: lat}, r)
	}
	return e.Explore()
}

// NumDev counts the deviating fields of an assignment.
func NumDev(a *refsmb.Assign) (n int, only int) {
	only = -1
	for i, k := range a.Dev {
		if k > 0 {
			n++
			only = i
		}
	}
	return
}

// Marshal / Unmarshal call the library and turn a panic into (panicked, where).
func Marshal(x command_interface.CommandInterface) (b []byte, err error, panicked bool, where string) {
	var msg string
	panicked, msg, where = vf.Try(func() { b, err = x.Marshal() })
	if panicked {
		err = fmt.Errorf("panic: %s", msg)
	}
	return
}

func Unmarshal(x command_interface.CommandInterface, b []byte) (err error, panicked bool, where string) {
	var msg string
	panicked, msg, where = vf.Try(func() { _, err = x.Unmarshal(append([]byte{}, b...)) })
	if panicked {
		err = fmt.Errorf("panic: %s", msg)
	}
	return
}

// Field returns the reflect value of model field f in instance x.
func Field(x command_interface.CommandInterface, f *refsmb.Field) reflect.Value {
	return reflect.ValueOf(x).Elem().Field(f.Index)
}

// Tally records, per command, which obligation keys were evaluated and which failed, so the evidence can
// say how many obligations hold for each command (a mostly-broken command must be visible, not skipped).
type Tally struct {
	c  *vf.Ctx
	mu sync.Mutex
	m  map[string]map[string]bool // cmd -> key -> failed
	n  map[string]int64           // cmd -> cases
}

func NewTally(c *vf.Ctx) *Tally {
	return &Tally{c: c, m: map[string]map[string]bool{}, n: map[string]int64{}}
}

// Check is vf.Ctx.Check plus the per-command bookkeeping.
func (t *Tally) Check(cmd, key string, ok bool, witness func() string) bool {
	t.mu.Lock()
	k := t.m[cmd]
	if k == nil {
		k = map[string]bool{}
		t.m[cmd] = k
	}
	if !ok {
		k[key] = true
	} else if _, seen := k[key]; !seen {
		k[key] = false
	}
	t.mu.Unlock()
	return t.c.Check(key, ok, witness)
}

func (t *Tally) Case(cmd string) {
	t.mu.Lock()
	t.n[cmd]++
	t.mu.Unlock()
}

// Publish writes the per-command table into the evidence (coverage key "per_command").
func (t *Tally) Publish() {
	t.mu.Lock()
	defer t.mu.Unlock()
	names := make([]string, 0, len(t.m))
	for n := range t.m {
		names = append(names, n)
	}
	sort.Strings(names)
	out := map[string]any{}
	allHold, total, holdTotal := 0, 0, 0
	for _, n := range names {
		hold := 0
		for _, failed := range t.m[n] {
			if !failed {
				hold++
			}
		}
		out[n] = map[string]any{"obligations": len(t.m[n]), "hold": hold, "cases": t.n[n]}
		total += len(t.m[n])
		holdTotal += hold
		if hold == len(t.m[n]) {
			allHold++
		}
	}
	t.c.Set("per_command", out)
	t.c.Set("commands_checked", len(names))
	t.c.Set("commands_with_all_obligations_holding", allHold)
	t.c.Set("per_command_obligations_total", total)
	t.c.Set("per_command_obligations_holding", holdTotal)
}

// Hash64 is a small helper for observation logs.
func Hash64(b []byte) []byte {
	h := fnv.New64a()
	h.Write(b)
	return h.Sum(nil)
}

// DiffSpan returns the first and last differing index of two equally long byte strings (-1,-1 if equal).
func DiffSpan(a, b []byte) (first, last int) {
	first, last = -1, -1
	for i := range a {
		if a[i] != b[i] {
			if first < 0 {
				first = i
			}
			last = i
		}
	}
	return
}

// Dump is a deterministic deep dump of a value that follows pointers and interfaces (so no addresses
// appear) and includes unexported fields. Used as the canonical state key of E2 searches.
func Dump(v any) string {
	var sb []byte
	dump(&sb, reflect.ValueOf(v), 0)
	return string(sb)
}

func dump(sb *[]byte, v reflect.Value, depth int) {
	if depth > 12 {
		*sb = append(*sb, "<deep>"...)
		return
	}
	if !v.IsValid() {
		*sb = append(*sb, "<nil>"...)
		return
	}
	switch v.Kind() {
	case reflect.Ptr, reflect.Interface:
		if v.IsNil() {
			*sb = append(*sb, "nil"...)
			return
		}
		*sb = append(*sb, '&')
		dump(sb, v.Elem(), depth+1)
	case reflect.Struct:
		*sb = append(*sb, v.Type().Name()...)
		*sb = append(*sb, '{')
		for i := 0; i < v.NumField(); i++ {
			*sb = append(*sb, v.Type().Field(i).Name...)
			*sb = append(*sb, ':')
			dump(sb, v.Field(i), depth+1)
			*sb = append(*sb, ' ')
		}
		*sb = append(*sb, '}')
	case reflect.Slice:
		if v.IsNil() {
			*sb = append(*sb, "[]"...) // nil and empty slices are the same state
			return
		}
		fallthrough
	case reflect.Array:
		if v.Type().Elem().Kind() == reflect.Uint8 {
			b := make([]byte, v.Len())
			for i := range b {
				b[i] = byte(v.Index(i).Uint())
			}
			*sb = append(*sb, fmt.Sprintf("x%x", b)...)
			return
		}
		*sb = append(*sb, '[')
		for i := 0; i < v.Len(); i++ {
			dump(sb, v.Index(i), depth+1)
			*sb = append(*sb, ' ')
		}
		*sb = append(*sb, ']')
	case reflect.String:
		*sb = append(*sb, fmt.Sprintf("%q", v.String())...)
	case reflect.Int, reflect.Int8, reflect.Int16, reflect.Int32, reflect.Int64:
		*sb = append(*sb, fmt.Sprintf("%d", v.Int())...)
	case reflect.Uint, reflect.Uint8, reflect.Uint16, reflect.Uint32, reflect.Uint64:
		*sb = append(*sb, fmt.Sprintf("%#x", v.Uint())...)
	case reflect.Bool:
		*sb = append(*sb, fmt.Sprintf("%v", v.Bool())...)
	default:
		*sb = append(*sb, ("<" + v.Kind().String() + ">")...)
	}
}

// Rehome moves every non-empty byte-slice reachable from the exported fields of x into ONE backing
// array, back to back, each slice keeping spare capacity that runs into its successor's bytes — the
// layout a zero-copy parser or a caller slicing one request buffer produces. It returns the number
// of slices moved. An encoder must neither depend on nor write through that layout.
func Rehome(x any) int { return RehomeOrder(x, false) }

// RehomeOrder is Rehome with a choice of layout: declared order (each slice is followed by the slice that
// an encoder appends NEXT - an in-place append then rewrites bytes with themselves and stays invisible), or
// "rotated" (the first slice first, the others in reverse order, so that what lies behind a slice is NOT
// what gets appended to it).
func RehomeOrder(x any, rotated bool) int {
	var slices []reflect.Value
	var walk func(v reflect.Value, depth int)
	walk = func(v reflect.Value, depth int) {
		if depth > 6 {
			return
		}
		switch v.Kind() {
		case reflect.Ptr, reflect.Interface:
			if !v.IsNil() {
				walk(v.Elem(), depth+1)
			}
		case reflect.Struct:
			for i := 0; i < v.NumField(); i++ {
				if v.Type().Field(i).PkgPath == "" && v.Type().Field(i).Name != "Parameters" && v.Type().Field(i).Name != "Data" || v.Type().Field(i).Type.Kind() == reflect.Slice && v.Type().Field(i).PkgPath == "" {
					walk(v.Field(i), depth+1)
				}
			}
		case reflect.Slice:
			if v.Type().Elem().Kind() == reflect.Uint8 {
				if v.Len() > 0 && v.CanSet() {
					slices = append(slices, v)
				}
				return
			}
			for i := 0; i < v.Len(); i++ {
				walk(v.Index(i), depth+1)
			}
		case reflect.Array:
			for i := 0; i < v.Len(); i++ {
				walk(v.Index(i), depth+1)
			}
		}
	}
	walk(reflect.ValueOf(x), 0)
	if len(slices) == 0 {
		return 0
	}
	if rotated && len(slices) > 2 {
		for i, j := 1, len(slices)-1; i < j; i, j = i+1, j-1 {
			slices[i], slices[j] = slices[j], slices[i]
		}
	}
	total := 0
	for _, s := range slices {
		total += s.Len()
	}
	big := make([]byte, total+8)
	for i := total; i < len(big); i++ {
		big[i] = 0xEE
	}
	off := 0
	for _, s := range slices {
		n := s.Len()
		copy(big[off:], s.Bytes())
		s.SetBytes(big[off : off+n]) // capacity extends over everything that follows
		off += n
	}
	return len(slices)
}
