// Command universe prints the reflective model of the SMB1 command structures (field kinds, sections, relations) as JSON;
// input of checks/smbgen/mkfindings.py.
package main

import (
	"encoding/json"
	"os"

	"verif/ref/refsmb"
)

func main() {
	u, err := refsmb.LoadUniverse()
	if err != nil {
		panic(err)
	}
	out := map[string]any{}
	for _, c := range u.Cmds {
		fs := map[string]any{}
		for _, f := range c.Fields {
			by := ""
			if f.Rel != nil && f.Rel.Kind == refsmb.RBy {
				by = f.Rel.Of
			}
			fs[f.Name] = map[string]any{"kind": f.Kind.String(), "section": f.Section.String(), "width": f.Width, "bare": c.IsBare(f), "countedby": by}
		}
		out[c.Name] = map[string]any{"andx": c.AndX, "fields": fs}
	}
	json.NewEncoder(os.Stdout).Encode(out)
}
