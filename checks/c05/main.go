// C05 — SMB1 structures are emitted in the encoding MS-CIFS prescribes.
//
// The library's bytes are compared with an independent reflective little-endian encoder (verif/ref/refsmb),
// and the library's decoder is fed the reference bytes. Obligations (keys):
//
//	C05/<Cmd>/marshal                     the assignment is encoded at all
//	C05/<Cmd>/wordcount                   WordCount = words the declared parameter fields need
//	C05/<Cmd>/<F>/layout                  parameter field F sits in its slot (offset and width from declared order
//	                                      and types) and holds the value, in either byte order
//	C05/<Cmd>/<F>/byteorder               ... and the bytes are exactly the little-endian ones (a layout failure is also a
//	                                      byteorder failure; both are always evaluated so that the key set does not
//	                                      depend on the values enumerated)
//	C05/<Cmd>/<F>/format                  data field F is encoded exactly as MS-CIFS says (format byte, length or
//	                                      terminator, little-endian members); located by walking the data block from
//	                                      both ends, fields between two mismatches are not judged in that case
//	C05/<Cmd>/<F>/value-bytes             changing only data field F changes the library's bytes exactly as it
//	                                      changes the reference bytes (independent of defects in neighbouring fields)
//	C05/<Cmd>/decode-ref                  the library decodes the reference bytes without error or panic
//	C05/<Cmd>/<F>/dec-layout|dec-byteorder   integer-like F decoded from reference bytes equals the value (or its
//	                                      byte-swap: layout only)
//	C05/<Cmd>/<F>/decode                  other F decoded from reference bytes equals the value
//	.../…-modulo-andx                     AndX commands, evaluated only where the strict obligation fails: same with
//	                                      the 4-byte AndX block removed from the reference bytes
//	C05/andx/…, C05/dialects/…, C05/types/…, C05/header/…   the shared building blocks on their own
package main

import (
	"bytes"
	_ "embed"
	"encoding/json"
	"fmt"
	"os"
	"reflect"
	"strings"
	"sync"
	"unicode/utf8"

	"github.com/TheManticoreProject/Manticore/network/smb/smb_v10/dialects"
	"github.com/TheManticoreProject/Manticore/network/smb/smb_v10/message/commands/andx"
	"github.com/TheManticoreProject/Manticore/network/smb/smb_v10/message/commands/codes"
	"github.com/TheManticoreProject/Manticore/network/smb/smb_v10/message/commands/command_interface"
	"github.com/TheManticoreProject/Manticore/network/smb/smb_v10/message/header"
	"github.com/TheManticoreProject/Manticore/network/smb/smb_v10/message/header/flags"
	"github.com/TheManticoreProject/Manticore/network/smb/smb_v10/message/header/flags2"
	"github.com/TheManticoreProject/Manticore/network/smb/smb_v10/types"

	"verif/checks/smbgen"
	"verif/checks/smbhist"
	"verif/enum"
	"verif/mc/explore"
	"verif/ref/refsmb"
	"verif/vf"
)

func main() { vf.Main("C05", "exploration", run) }

func run(c *vf.Ctx) {
	restore := smbgen.Silence()
	defer restore()
	u := smbgen.Setup(c, restore)
	c.Rule("per command structure: the all-default assignment, every single field x every value of its lattice (integers: the byte-distinct values 0x0102 / 0x01020304 / " +
		"0x0102030405060708, their complements, 0x8001.., 0x00FF, 0xFF00.. and all-ones; strings, buffers, dates, arrays, 0..4 dialects) and every pair of such settings; singles " +
		"(thorough: pairs, and powers of two +-1 added to the integer lattices) from the all-non-default base; AndX blocks with command/reserved/offset byte-distinct; every header field; each case compared in both directions with the reference codec; every count field left stale (0, count+1, all-ones) next to its non-empty buffer: the emitted count is the value the structure holds after Marshal. " +
		"distinct = distinct (structure, assignment) pairs compared")
	c.Assume("refsmb encoder is MS-CIFS: little-endian integers at the width of the declared type, AndX = command, reserved, little-endian offset; buffer-format strings per 2.2.1.1; the strings of " +
		"SESSION_SETUP_ANDX, TREE_CONNECT_ANDX, NT_CREATE_ANDX, OPEN_ANDX and the TRANSACTION name are plain NUL-terminated strings without format byte; self-tested on published packets")
	tally := smbgen.NewTally(c)
	typeLevel(c)
	// the string and block types keep state between calls: histories Set/Decode/Encode on one object must encode like a fresh one
	smbhist.All(c, "C05/history", 3)
	var mu sync.Mutex
	var samples []map[string]any
	vf.Par(len(u.Cmds), func(i int) {
		cmd := u.Cmds[i]
		w := &worker{c: c, t: tally, cmd: cmd, lat: refsmb.WithoutFormatVariants(cmd.Lattices(c.Thorough()))}
		w.prepare()
		for _, full := range []bool{false, true} {
			bound := 2
			if full {
				bound = c.Pick(1, 2)
			}
			// every lattice value is one deviation here: singles over the full lattice
			_, err := enumerateFlat(cmd, w.lat, full, bound, c.DeadlineExceeded, func(a *refsmb.Assign, r *explore.Run) { w.eval(a, r, nil) })
			if err != nil {
				smbgen.Fatalf(c, "explore %s: %v", cmd.Name, err)
			}
		}
		w.staleCounts()
		w.reusedReceiver()
		w.parallelTwins()
		if cmd.AndX {
			lat := w.lat
			for _, ax := range andxValues() {
				ax := ax
				w.eval(cmd.Zero(lat), nil, &ax)
				w.eval(cmd.FullAssign(lat), nil, &ax)
			}
		}
		mu.Lock()
		if w.sample != nil {
			samples = append(samples, w.sample)
		}
		mu.Unlock()
	})
	for _, s := range samples {
		if n := s["cmd"].(string); n == "NegotiateResponse" || n == "SessionSetupAndxRequest" || n == "CloseRequest" || n == "NegotiateRequest" {
			c.Sample("comparison", s)
		}
	}
	tally.Publish()
}

func andxValues() []andx.AndX {
	var out []andx.AndX
	for _, off := range enum.ByteDistinct(2) {
		out = append(out, andx.AndX{AndXCommand: 0x75, AndXReserved: 0, AndXOffset: uint16(off)})
	}
	out = append(out, andx.AndX{AndXCommand: 0x2E, AndXReserved: 0x01, AndXOffset: 0x0102}, andx.AndX{AndXCommand: 0xFF, AndXReserved: 0xFE, AndXOffset: 0},
		// "no further command" with an offset all the same: the three slots are independent of each other
		andx.AndX{AndXCommand: 0xFF, AndXReserved: 0x01, AndXOffset: 0x0203})
	return out
}

// enumerateFlat is smbgen.Enumerate with every lattice value costing one deviation.
func enumerateFlat(cmd *refsmb.Cmd, lat [][]refsmb.Choice, full bool, bound int, stop func() bool, fn func(a *refsmb.Assign, r *explore.Run)) (explore.Stats, error) {
	e := &explore.Explorer{Bound: bound, Stop: stop}
	e.Body = func(r *explore.Run) {
		dev := make([]int, len(cmd.Fields))
		for _, f := range cmd.Fields {
			if !f.Free() || len(lat[f.Pos]) == 0 {
				continue
			}
			dev[f.Pos] = r.Choose(1+len(lat[f.Pos]), f.Name)
		}
		fn(&refsmb.Assign{C: cmd, Full: full, Dev: dev, Lat: lat}, r)
	}
	return e.Explore()
}

type worker struct {
	c       *vf.Ctx
	t       *smbgen.Tally
	cmd     *refsmb.Cmd
	lat     [][]refsmb.Choice
	baseLib [2]*refsmb.Frame
	baseRef [2]*refsmb.Layout
	sample  map[string]any
}

func (w *worker) key(s string) string { return "C05/" + w.cmd.Name + "/" + s }
func (w *worker) check(key string, ok bool, wit func() string) bool {
	return w.t.Check(w.cmd.Name, key, ok, wit)
}

func (w *worker) prepare() {
	for i, a := range []*refsmb.Assign{w.cmd.Zero(w.lat), w.cmd.FullAssign(w.lat)} {
		x, err := a.Build()
		if err != nil {
			smbgen.Fatalf(w.c, "%s: base assignment cannot be built: %v", w.cmd.Name, err)
		}
		y, _ := a.Build()
		w.baseRef[i], _ = w.cmd.Encode(y)
		if b, err, _, _ := smbgen.Marshal(x); err == nil {
			if fr, ferr := refsmb.ParseFrame(b); ferr == nil {
				w.baseLib[i] = &fr
			}
		}
	}
}

func idx(full bool) int {
	if full {
		return 1
	}
	return 0
}

// revElems reverses every elem-byte group of b.
func revElems(b []byte, elem int) []byte {
	out := make([]byte, len(b))
	if elem <= 0 {
		elem = len(b)
	}
	for i := 0; i+elem <= len(b); i += elem {
		for k := 0; k < elem; k++ {
			out[i+k] = b[i+elem-1-k]
		}
	}
	return out
}

func elemOf(f *refsmb.Field) int {
	switch f.Kind {
	case refsmb.KInt, refsmb.KLargeInt, refsmb.KDate, refsmb.KFileAttr:
		return f.Width
	case refsmb.KNMPipe:
		return 2
	case refsmb.KFileTime:
		return 4
	case refsmb.KIntArray:
		return f.Elem
	case refsmb.KWords:
		return 2
	}
	return 0
}

// substitutes reports whether newData is oldData with one occurrence of oldEnc replaced by newEnc.
func substitutes(oldData, newData, oldEnc, newEnc []byte) bool {
	if len(newData)-len(oldData) != len(newEnc)-len(oldEnc) {
		return false
	}
	for p := 0; p+len(oldEnc) <= len(oldData); p++ {
		if !bytes.Equal(oldData[p:p+len(oldEnc)], oldEnc) {
			continue
		}
		if bytes.Equal(newData[:p], oldData[:p]) && bytes.Equal(newData[p:p+len(newEnc)], newEnc) && bytes.Equal(newData[p+len(newEnc):], oldData[p+len(oldEnc):]) {
			return true
		}
	}
	return false
}

func (w *worker) eval(a *refsmb.Assign, r *explore.Run, ax *andx.AndX) {
	cmd := w.cmd
	x, err := a.Build()
	if err != nil {
		if r != nil {
			r.ObserveS("rejected")
		}
		return
	}
	want, _ := a.Build()
	label := a.Label()
	if ax != nil {
		a1, a2 := *ax, *ax
		x.SetAndX(&a1)
		want.SetAndX(&a2)
		label += fmt.Sprintf(" andx={%#02x,%#02x,%#04x}", byte(ax.AndXCommand), ax.AndXReserved, ax.AndXOffset)
	}
	ref, err := cmd.Encode(want)
	if err != nil {
		smbgen.Fatalf(w.c, "%s %s: reference cannot encode: %v", cmd.Name, label, err)
	}
	w.c.Case([]byte(cmd.Name), []byte(label))
	w.t.Case(cmd.Name)

	// ------------------------------------------------------------ encode direction
	b, merr, _, _ := smbgen.Marshal(x)
	var fr refsmb.Frame
	var ferr error
	if merr == nil {
		fr, ferr = refsmb.ParseFrame(b)
	}
	if r != nil {
		r.Observe(smbgen.Hash64(b)...)
	}
	if w.check(w.key("marshal"), merr == nil && ferr == nil, func() string {
		return fmt.Sprintf("%s{%s}.Marshal() = %s: %v %v", cmd.Name, label, vf.HexS(b), merr, ferr)
	}) {
		if refOpt, _ := cmd.EncodeOpt(want, true); refOpt != nil && len(fr.Words) == len(refOpt.Words) && len(fr.Words) != len(ref.Words) {
			ref = refOpt // the library keeps a zero optional trailing parameter: the other legal encoding
		}
		if w.sample == nil || (a.Full && !w.sample["full"].(bool)) {
			w.sample = map[string]any{"cmd": cmd.Name, "assignment": label, "library_bytes": vf.HexS(b), "reference_bytes": vf.HexS(ref.Bytes()), "full": a.Full}
		}
		w.check(w.key("wordcount"), !ref.Odd && 2*fr.WC == len(ref.Words), func() string {
			return fmt.Sprintf("%s{%s}: library WordCount=%d, the declared parameter fields need %d bytes%s; library %s reference %s", cmd.Name, label, fr.WC, len(ref.Words),
				map[bool]string{true: " (odd: not encodable)", false: ""}[ref.Odd], vf.HexS(b), vf.HexS(ref.Bytes()))
		})
		w.params(label, &fr, ref, b)
		w.dataAbsolute(label, &fr, ref, b)
		if n, only := smbgen.NumDev(a); n == 1 && ax == nil {
			if f := cmd.Fields[only]; f.Section == refsmb.SecData && w.baseLib[idx(a.Full)] != nil {
				bl, br := w.baseLib[idx(a.Full)], w.baseRef[idx(a.Full)]
				// the run of adjacent data fields whose reference encoding changes: F itself plus the
				// alignment padding in front of it that the model derives from F's length
				lo, hi := -1, -1
				for _, g := range cmd.SectionFields(refsmb.SecData) {
					s0, s1 := br.SlotOf(g), ref.SlotOf(g)
					if !bytes.Equal(br.Data[s0.Off:s0.Off+s0.Len], ref.Data[s1.Off:s1.Off+s1.Len]) {
						if lo < 0 {
							lo = g.Pos
						}
						hi = g.Pos
					}
				}
				if lo < 0 {
					lo, hi = f.Pos, f.Pos
				}
				sb0, sb1 := br.SlotOf(cmd.Fields[lo]), br.SlotOf(cmd.Fields[hi])
				sd0, sd1 := ref.SlotOf(cmd.Fields[lo]), ref.SlotOf(cmd.Fields[hi])
				oldEnc, newEnc := br.Data[sb0.Off:sb1.Off+sb1.Len], ref.Data[sd0.Off:sd1.Off+sd1.Len]
				ok := substitutes(bl.Data, fr.Data, oldEnc, newEnc)
				w.check(w.key(f.Name+"/value-bytes"), ok, func() string {
					return fmt.Sprintf("%s{%s}: setting only %s changes its MS-CIFS encoding from %s to %s; the library's data block goes from %s to %s, which is not that substitution at any position",
						cmd.Name, label, f.Name, vf.HexS(oldEnc), vf.HexS(newEnc), vf.HexS(bl.Data), vf.HexS(fr.Data))
				})
			}
		}
	}

	// ------------------------------------------------------------ the caller's memory layout and hidden lengths
	if n, _ := smbgen.NumDev(a); n <= 1 && ax == nil && merr == nil {
		// (a) the same field values held back to back in ONE caller buffer (declared order, and first field
		// first with the others reversed): the bytes emitted are the MS-CIFS encoding of the VALUES, wherever
		// they live, and the caller's buffers are not written
		for _, rotated := range []bool{false, true} {
			y, err := a.Build()
			if err != nil {
				break
			}
			if moved := smbgen.RehomeOrder(y, rotated); moved < 2 || rotated && moved < 3 {
				continue
			}
			b2, e2, p2, _ := smbgen.Marshal(y)
			w.check(w.key("marshal/independent-of-caller-buffer-layout"), !p2 && e2 == nil && bytes.Equal(b2, b), func() string {
				return fmt.Sprintf("%s{%s} with its byte fields held back to back in one caller buffer (%s): Marshal() = %s (err %v), with independent buffers %s", cmd.Name, label,
					map[bool]string{false: "declared order", true: "first field first, the others in reverse order"}[rotated], vf.HexS(b2), e2, vf.HexS(b))
			})
		}
		// (b) string members whose Length the caller left at zero (Buffer assigned directly): Length is what
		// Marshal derives from the buffer, so nothing emitted may depend on its previous value
		if y, err := a.Build(); err == nil && staleStringLengths(reflect.ValueOf(y), 0) > 0 {
			b2, e2, p2, _ := smbgen.Marshal(y)
			w.check(w.key("marshal/independent-of-stale-string-Length"), !p2 && e2 == nil && bytes.Equal(b2, b), func() string {
				return fmt.Sprintf("%s{%s} with the Length member of every non-empty string set to 0 before Marshal (as after assigning Buffer directly): Marshal() = %s (err %v), with Length = len(Buffer) it is %s", cmd.Name, label, vf.HexS(b2), e2, vf.HexS(b))
			})
		}
	}

	// ------------------------------------------------------------ decode direction
	if ref.Odd {
		return
	}
	wire := ref.Bytes()
	d := cmd.New()
	uerr, upanic, uwhere := smbgen.Unmarshal(d, wire)
	if upanic {
		w.check(w.key("decode-ref/panic@"+uwhere), false, func() string {
			return fmt.Sprintf("%s.Unmarshal(%s) panics: %v; input = MS-CIFS encoding of {%s}", cmd.Name, vf.HexS(wire), uerr, label)
		})
	}
	w.check(w.key("decode-ref"), uerr == nil, func() string {
		return fmt.Sprintf("%s.Unmarshal(%s) = %v; input = MS-CIFS encoding of {%s}", cmd.Name, vf.HexS(wire), uerr, label)
	})
	if uerr != nil && ax == nil {
		// "decode-ref" is a known finding for 23 structures. A finding is identified by the inputs that fail:
		// the minimal classes (base, set of explicitly set fields) refused on the unchanged tree are committed
		// in known_decode_classes.json (generated by tools/c04classes.py, never written at run time); a
		// refused case outside them is a different violation and gets its own key.
		cls := devClass(a)
		if os.Getenv("C05_DEBUG_CLASSES") != "" {
			fmt.Fprintf(os.Stderr, "CLASS %s decode-ref %s\n", cmd.Name, cls)
		}
		if !explained(cmd.Name, cls) {
			w.check(w.key("decode-ref/input-class:"+cls), false, func() string {
				return fmt.Sprintf("%s.Unmarshal(%s) = %v; input = MS-CIFS encoding of {%s}; no case of this class (%s) is refused on the unchanged tree", cmd.Name, vf.HexS(wire), uerr, label, cls)
			})
		}
	}
	bad := true
	if !upanic {
		bad = w.decoded("", label, want, d, wire)
	}
	if cmd.AndX && (bad || uerr != nil) && len(ref.Words) >= 4 {
		stripped := append([]byte{byte(len(ref.Words)/2 - 2)}, ref.Words[4:]...)
		stripped = append(stripped, wire[1+len(ref.Words):]...)
		d2 := cmd.New()
		if _, p2, _ := smbgen.Unmarshal(d2, stripped); !p2 {
			w.decoded("-modulo-andx", label, want, d2, stripped)
		}
	}
}

// reusedReceiver: decoding the MS-CIFS encoding of B into a structure that has decoded the encoding of A before
// gives what a FRESH structure gives for B - field by field, and the same verdict (a client keeps one response
// structure per command and decodes every reply into it). A differential oracle without an expected value, so the
// known decoder findings cannot reach it: whatever a decoder does wrong, it does it to both receivers. A is the
// all-default and the all-non-default assignment, B is either of them and every single-field deviation from the
// all-default one (the first two lattice values of every field). Every Unmarshal gets a buffer of its own.
func (w *worker) reusedReceiver() {
	cmd := w.cmd
	type enc struct {
		label string
		wire  []byte
	}
	mk := func(a *refsmb.Assign) *enc {
		x, err := a.Build()
		if err != nil {
			return nil
		}
		ref, err := cmd.Encode(x)
		if err != nil {
			return nil
		}
		return &enc{a.Label(), ref.Bytes()}
	}
	zero, full := mk(cmd.Zero(w.lat)), mk(cmd.FullAssign(w.lat))
	var second []*enc
	for _, e := range []*enc{zero, full} {
		if e != nil {
			second = append(second, e)
		}
	}
	for _, f := range cmd.Fields {
		if !f.Free() {
			continue
		}
		for k := 1; k <= len(w.lat[f.Pos]) && k <= 2; k++ {
			if e := mk(cmd.Zero(w.lat).With(f.Pos, k)); e != nil {
				second = append(second, e)
			}
		}
	}
	for _, A := range []*enc{full, zero} {
		if A == nil {
			continue
		}
		for _, B := range second {
			F := cmd.New()
			ferr, fp, _ := smbgen.Unmarshal(F, append([]byte{}, B.wire...))
			R := cmd.New()
			if _, ap, _ := smbgen.Unmarshal(R, append([]byte{}, A.wire...)); ap {
				continue // reported by decode-ref/panic
			}
			rerr, rp, rwhere := smbgen.Unmarshal(R, append([]byte{}, B.wire...))
			if fp {
				continue
			}
			w.c.Case([]byte(cmd.Name), []byte("reused-receiver "+A.label+" | "+B.label))
			if !w.check(w.key("reused-receiver/same-verdict-as-a-fresh-receiver"), !rp && (rerr == nil) == (ferr == nil), func() string {
				return fmt.Sprintf("%s: a receiver that decoded {%s} before decodes %s (MS-CIFS encoding of {%s}) with err=%v panic=%v %s; a fresh receiver: err=%v", cmd.Name, A.label, vf.HexS(B.wire), B.label, rerr, rp, rwhere, ferr)
			}) || ferr != nil {
				continue
			}
			for _, f := range cmd.Fields {
				fv, rv := smbgen.Field(F, f), smbgen.Field(R, f)
				w.check(w.key(f.Name+"/reused-receiver-decodes-like-a-fresh-receiver"), cmd.FieldEqual(f, fv, rv), func() string {
					return fmt.Sprintf("%s: a receiver that decoded {%s} before decodes %s (MS-CIFS encoding of {%s}) to %s = %s; a fresh receiver gets %s", cmd.Name, A.label, vf.HexS(B.wire), B.label, f.Name, cmd.FieldString(f, rv), cmd.FieldString(f, fv))
				})
			}
		}
	}
}

// parallelTwins: what a structure encodes to does not depend on what OTHER goroutines encode at the same time
// (each on structures of its own - the caller shares nothing). The single-deviation assignments of the
// structure are encoded once sequentially, then by eight goroutines at once (24 rounds each), each walking the list from another
// starting point; every result must be the sequential one. This part SAMPLES schedules (free-running
// goroutines): it can miss a shared scratch variable, it cannot report one that is not there. A package-level
// variable without any lock is invisible to the controlled scheduler, which is why it is done this way.
func (w *worker) parallelTwins() {
	cmd := w.cmd
	var as []*refsmb.Assign
	for _, full := range []bool{false, true} {
		base := cmd.Zero(w.lat)
		if full {
			base = cmd.FullAssign(w.lat)
		}
		as = append(as, base)
		for _, f := range cmd.Fields {
			if !f.Free() {
				continue
			}
			for k := 1; k <= len(w.lat[f.Pos]) && k <= 2; k++ {
				as = append(as, base.With(f.Pos, k))
			}
		}
	}
	var want [][]byte
	var ok []*refsmb.Assign
	for _, a := range as {
		x, err := a.Build()
		if err != nil {
			continue
		}
		b, merr, pan, _ := smbgen.Marshal(x)
		if merr != nil || pan {
			continue
		}
		ok = append(ok, a)
		want = append(want, b)
	}
	if len(ok) < 2 {
		return
	}
	const G, rounds = 8, 24
	type bad struct {
		label    string
		got, exp []byte
	}
	bads := make([]*bad, G)
	var wg sync.WaitGroup
	for g := 0; g < G; g++ {
		wg.Add(1)
		go func(g int) {
			defer wg.Done()
			for r := 0; r < rounds && bads[g] == nil; r++ {
				for i := range ok {
					j := (i + g*len(ok)/G) % len(ok)
					x, err := ok[j].Build()
					if err != nil {
						continue
					}
					b, merr, pan, _ := smbgen.Marshal(x)
					if merr != nil || pan || !bytes.Equal(b, want[j]) {
						bads[g] = &bad{ok[j].Label(), b, want[j]}
						break
					}
				}
			}
		}(g)
	}
	wg.Wait()
	var first *bad
	for _, b := range bads {
		if b != nil && first == nil {
			first = b
		}
	}
	w.c.Case([]byte(cmd.Name), []byte("parallel-twins"))
	w.check(w.key("marshal/same-bytes-while-other-goroutines-marshal-structures-of-their-own"), first == nil, func() string {
		return fmt.Sprintf("%s{%s}.Marshal() = %s while seven other goroutines were marshalling other %s values; alone it gives %s", cmd.Name, first.label, vf.HexS(first.got), cmd.Name, vf.HexS(first.exp))
	})
}

// staleStringLengths zeroes the Length member of every SMB_STRING reachable from v whose Buffer is not
// empty; returns how many it changed.
func staleStringLengths(v reflect.Value, depth int) int {
	if depth > 6 {
		return 0
	}
	n := 0
	switch v.Kind() {
	case reflect.Ptr, reflect.Interface:
		if !v.IsNil() {
			n += staleStringLengths(v.Elem(), depth+1)
		}
	case reflect.Struct:
		if v.Type().Name() == "SMB_STRING" {
			buf, l := v.FieldByName("Buffer"), v.FieldByName("Length")
			if buf.IsValid() && l.IsValid() && l.CanSet() && buf.Len() > 0 && l.Uint() != 0 {
				l.SetUint(0)
				return 1
			}
			return 0
		}
		for i := 0; i < v.NumField(); i++ {
			if v.Type().Field(i).PkgPath == "" && v.Type().Field(i).Name != "Parameters" && v.Type().Field(i).Name != "Data" {
				n += staleStringLengths(v.Field(i), depth+1)
			}
		}
	case reflect.Slice, reflect.Array:
		if v.Type().Elem().Kind() == reflect.Struct {
			for i := 0; i < v.Len(); i++ {
				n += staleStringLengths(v.Index(i), depth+1)
			}
		}
	}
	return n
}

// staleCounts: a count field that the caller left stale (0, or one more than the buffer holds) next to a
// non-empty buffer. Whether Marshal derives the count from the buffer or trusts the caller is the library's
// choice - but the bytes it emits must be the encoding of ONE definite set of field values, namely the ones
// the structure holds when Marshal returns - or the true count, emitted without touching the caller's
// structure: a count that Marshal corrects in the structure but emits stale is an encoding of no value at all. The byte order of the emitted count is judged by the
// layout/byteorder obligations, not here.
func (w *worker) staleCounts() {
	cmd := w.cmd
	for _, f := range cmd.Fields {
		if f.Rel == nil || (f.Rel.Kind != refsmb.RCount && f.Rel.Kind != refsmb.RStrLen) || f.Kind != refsmb.KInt || f.Width > 4 {
			continue
		}
		a := cmd.FullAssign(w.lat)
		good, err := a.Build()
		if err != nil {
			continue
		}
		lay, err := cmd.Encode(good)
		if err != nil || lay.Odd {
			continue
		}
		slot := lay.SlotOf(f)
		if slot == nil || slot.Len != f.Width {
			continue
		}
		consistent := reflect.ValueOf(good).Elem().Field(f.Index).Uint()
		mask := uint64(1)<<(8*uint(f.Width)) - 1
		for _, stale := range []uint64{0, (consistent + 1) & mask, mask} {
			if stale == consistent {
				continue
			}
			x, _ := a.Build()
			fv := reflect.ValueOf(x).Elem().Field(f.Index)
			fv.SetUint(stale)
			b, merr, _, _ := smbgen.Marshal(x)
			if merr != nil {
				continue // refusing an inconsistent structure is fine
			}
			fr, ferr := refsmb.ParseFrame(b)
			if ferr != nil {
				continue
			}
			sec := fr.Words
			if slot.Sec == refsmb.SecData {
				sec = fr.Data
			}
			if slot.Off+slot.Len > len(sec) {
				continue
			}
			libb := sec[slot.Off : slot.Off+slot.Len]
			var leV, beV uint64
			for i := 0; i < len(libb); i++ {
				leV |= uint64(libb[i]) << (8 * uint(i))
				beV = beV<<8 | uint64(libb[i])
			}
			after := fv.Uint()
			label := fmt.Sprintf("%s; then %s set to %d (the buffer it counts holds %d)", a.Label(), f.Name, stale, consistent)
			w.c.Case([]byte(cmd.Name), []byte(label))
			// also fine: the true count emitted without touching the caller's structure
			w.check(w.key(f.Name+"/emitted-count-is-the-value-the-structure-holds-after-Marshal"), leV == after || beV == after || leV == consistent || beV == consistent, func() string {
				return fmt.Sprintf("%s{%s}.Marshal() emits %x in the slot of %s (bytes [%d,%d) of the %s) while the structure holds %s=%d when Marshal returns and the buffer holds %d: the message carries neither the value of the structure nor the true count; library bytes %s",
					cmd.Name, label, libb, f.Name, slot.Off, slot.Off+slot.Len, map[bool]string{true: "data block", false: "parameter words"}[slot.Sec == refsmb.SecData], f.Name, after, consistent, vf.HexS(b))
			})
		}
	}
}

//go:embed known_decode_classes.json
var knownClassesJSON []byte

var knownClasses = func() map[string][][]string {
	var raw map[string][]string
	if err := json.Unmarshal(knownClassesJSON, &raw); err != nil {
		panic("known_decode_classes.json: " + err.Error())
	}
	out := map[string][][]string{}
	for cmd, l := range raw {
		for _, c := range l {
			out[cmd] = append(out[cmd], strings.Split(c, ","))
		}
	}
	return out
}()

// explained: some listed class of cmd has the same base and only fields that cls sets too.
func explained(cmd, cls string) bool {
	have := strings.Split(cls, ",")
	for _, k := range knownClasses[cmd] {
		if k[0] != have[0] {
			continue
		}
		all := true
		for _, f := range k[1:] {
			found := false
			for _, h := range have[1:] {
				if h == f {
					found = true
				}
			}
			all = all && found
		}
		if all {
			return true
		}
	}
	return false
}

func devClass(a *refsmb.Assign) string {
	p := []string{"base=zero"}
	if a.Full {
		p[0] = "base=full"
	}
	for i, k := range a.Dev {
		if k > 0 {
			p = append(p, a.C.Fields[i].Name)
		}
	}
	return strings.Join(p, ",")
}

func (w *worker) params(label string, fr *refsmb.Frame, ref *refsmb.Layout, b []byte) {
	cmd := w.cmd
	for _, s := range ref.Slots {
		if s.Sec != refsmb.SecParams || s.Len == 0 {
			continue
		}
		name := s.Name()
		refb := ref.Words[s.Off : s.Off+s.Len]
		var libb []byte
		if s.Off+s.Len <= len(fr.Words) {
			libb = fr.Words[s.Off : s.Off+s.Len]
		}
		elem := 2
		if s.F != nil {
			elem = elemOf(s.F)
		} else if s.Len == 1 {
			elem = 1
		}
		exact := libb != nil && bytes.Equal(libb, refb)
		swapped := libb != nil && bytes.Equal(libb, revElems(refb, elem))
		wit := func() string {
			return fmt.Sprintf("%s{%s}: parameter %s occupies bytes [%d,%d) of the parameter words; library has %x there, MS-CIFS little-endian encoding is %x; library words %s, reference words %s",
				cmd.Name, label, name, s.Off, s.Off+s.Len, libb, refb, vf.HexS(fr.Words), vf.HexS(ref.Words))
		}
		w.check(w.key(name+"/layout"), exact || swapped, wit)
		w.check(w.key(name+"/byteorder"), exact, wit)
	}
}

// dataAbsolute walks the data block from the front and from the back.
func (w *worker) dataAbsolute(label string, fr *refsmb.Frame, ref *refsmb.Layout, b []byte) {
	cmd := w.cmd
	var slots []refsmb.Slot
	for _, s := range ref.Slots {
		if s.Sec == refsmb.SecData {
			slots = append(slots, s)
		}
	}
	if len(slots) == 0 {
		w.check(w.key("data-block-empty"), len(fr.Data) == 0, func() string {
			return fmt.Sprintf("%s{%s}: the structure declares no data field, the library emits data %s", cmd.Name, label, vf.HexS(fr.Data))
		})
		return
	}
	wit := func(s refsmb.Slot, from string, at int) func() string {
		return func() string {
			return fmt.Sprintf("%s{%s}: data field %s: MS-CIFS encoding is %s; walking the data block from the %s the library has %s at that place (offset %d); library data %s, reference data %s",
				cmd.Name, label, s.Name(), vf.HexS(ref.Data[s.Off:s.Off+s.Len]), from, vf.HexS(clip(fr.Data, at, s.Len)), at, vf.HexS(fr.Data), vf.HexS(ref.Data))
		}
	}
	// front
	lp, i := 0, 0
	for ; i < len(slots); i++ {
		s := slots[i]
		rb := ref.Data[s.Off : s.Off+s.Len]
		if lp+len(rb) <= len(fr.Data) && bytes.Equal(fr.Data[lp:lp+len(rb)], rb) {
			if i == len(slots)-1 && lp+len(rb) != len(fr.Data) {
				break // last field must also end the block
			}
			w.check(w.key(s.Name()+"/format"), true, nil)
			lp += len(rb)
			continue
		}
		break
	}
	if i == len(slots) {
		return
	}
	w.check(w.key(slots[i].Name()+"/format"), false, wit(slots[i], "front", lp))
	// back
	le, j := len(fr.Data), len(slots)-1
	for ; j > i; j-- {
		s := slots[j]
		rb := ref.Data[s.Off : s.Off+s.Len]
		if le-len(rb) >= lp && bytes.Equal(fr.Data[le-len(rb):le], rb) {
			w.check(w.key(s.Name()+"/format"), true, nil)
			le -= len(rb)
			continue
		}
		w.check(w.key(s.Name()+"/format"), false, wit(s, "back", le-len(rb)))
		break
	}
}

func clip(b []byte, at, n int) []byte {
	if at < 0 {
		at = 0
	}
	if at > len(b) {
		at = len(b)
	}
	end := at + n
	if end > len(b) {
		end = len(b)
	}
	if end < at {
		end = at
	}
	return b[at:end]
}

// decoded judges every field of a structure the library decoded from reference bytes; returns true if any differs.
func (w *worker) decoded(suffix, label string, want, got command_interface.CommandInterface, wire []byte) bool {
	cmd := w.cmd
	bad := false
	for _, f := range cmd.Fields {
		wv, gv := smbgen.Field(want, f), smbgen.Field(got, f)
		exact := cmd.FieldEqual(f, wv, gv)
		wit := func() string {
			return fmt.Sprintf("%s.Unmarshal(%s) (MS-CIFS encoding of {%s}): field %s = %s, want %s", cmd.Name, vf.HexS(wire), label, f.Name, cmd.FieldString(f, gv), cmd.FieldString(f, wv))
		}
		if !exact {
			bad = true
		}
		if elem := elemOf(f); elem > 0 {
			// integer-like: accept the byte-swapped value for the layout obligation
			swapped := false
			if !exact {
				wb, _ := cmd.EncodeField(f, wv)
				gb, _ := cmd.EncodeField(f, gv)
				swapped = wb != nil && gb != nil && bytes.Equal(gb, revElems(wb, elem))
			}
			w.check(w.key(f.Name+"/dec-layout"+suffix), exact || swapped, wit)
			w.check(w.key(f.Name+"/dec-byteorder"+suffix), exact, wit)
		} else {
			w.check(w.key(f.Name+"/decode"+suffix), exact, wit)
		}
	}
	if cmd.AndX && suffix == "" {
		ax := got.GetAndX()
		wa := want.GetAndX()
		wx := andx.AndX{AndXCommand: 0xFF}
		if wa != nil {
			wx = *wa
		}
		if !w.check(w.key("andx/decode"), ax != nil && *ax == wx, func() string {
			return fmt.Sprintf("%s.Unmarshal(%s): GetAndX() = %+v, the AndX block on the wire is %+v", cmd.Name, vf.HexS(wire), ax, wx)
		}) {
			bad = true
		}
	}
	return bad
}

// ---------------------------------------------------------------- building blocks on their own

func typeLevel(c *vf.Ctx) {
	// AndX block: command, reserved, little-endian offset (MS-CIFS 2.2.3.4)
	for _, ax := range andxValues() {
		want := []byte{byte(ax.AndXCommand), ax.AndXReserved, byte(ax.AndXOffset), byte(ax.AndXOffset >> 8)}
		a := ax
		out, err := a.Marshal()
		c.Case([]byte("andx"), want)
		lay := err == nil && len(out) == 4 && out[0] == want[0] && out[1] == want[1] && (bytes.Equal(out[2:], want[2:]) || (out[2] == want[3] && out[3] == want[2]))
		wit := func() string { return fmt.Sprintf("andx.AndX%+v.Marshal() = %x (%v), MS-CIFS: %x", ax, out, err, want) }
		c.Check("C05/andx/Marshal/layout", lay, wit)
		c.Check("C05/andx/Marshal/offset-byteorder", bytes.Equal(out, want), wit)
		var d andx.AndX
		n, uerr := d.Unmarshal(append(append([]byte{}, want...), 0xEE))
		sw := andx.AndX{AndXCommand: ax.AndXCommand, AndXReserved: ax.AndXReserved, AndXOffset: ax.AndXOffset<<8 | ax.AndXOffset>>8}
		wit2 := func() string {
			return fmt.Sprintf("andx.AndX.Unmarshal(%x) = %+v (%d,%v), want %+v", want, d, n, uerr, ax)
		}
		c.Check("C05/andx/Unmarshal/layout", uerr == nil && n == 4 && (d == ax || d == sw), wit2)
		c.Check("C05/andx/Unmarshal/offset-byteorder", uerr == nil && d == ax, wit2)
	}
	// dialect list: each dialect 0x02 name NUL (MS-CIFS 2.2.4.52.1); 0..4 dialects
	names := []string{"PC NETWORK PROGRAM 1.0", "LANMAN1.0", "LM1.2X002", "NT LM 0.12"}
	for n := 0; n <= 4; n++ {
		var want []byte
		for _, s := range names[:n] {
			e, _ := refsmb.EncodeString(2, []byte(s))
			want = append(want, e...)
		}
		d := dialects.NewDialects()
		for _, s := range names[:n] {
			d.AddDialect(s)
		}
		out, err := d.Marshal()
		c.Case([]byte("dialects"), []byte{byte(n)})
		c.Check(fmt.Sprintf("C05/dialects/Marshal/n=%d", n), err == nil && bytes.Equal(out, want), func() string {
			return fmt.Sprintf("Dialects%q.Marshal() = %x (%v), MS-CIFS (each dialect: 0x02, name, NUL) = %x", names[:n], out, err, want)
		})
		if n == 0 {
			continue // an empty Bytes field: nothing to hand to a decoder
		}
		e := dialects.NewDialects()
		var rn int
		var uerr error
		p, msg, where := vf.Try(func() { rn, uerr = e.Unmarshal(append([]byte{}, want...)) })
		c.Check(fmt.Sprintf("C05/dialects/Unmarshal/n=%d", n), !p && uerr == nil && rn == len(want) && reflect.DeepEqual(e.Dialects, names[:n]), func() string {
			return fmt.Sprintf("Dialects.Unmarshal(%x) = %q (%d,%v %s %s), want %q", want, e.Dialects, rn, uerr, msg, where, names[:n])
		})
	}
	// dialect list, histories on ONE object: every sequence of three edits (AddDialect, an entry replaced in place, a
	// new list assigned - as long, longer, empty -, Unmarshal of another list), with Marshal called or not called
	// after each of the first two: the last Marshal gives the MS-CIFS encoding of the list the object holds then
	{
		type op struct {
			name string
			do   func(d *dialects.Dialects, m []string) []string
		}
		encl := func(l []string) []byte {
			var w []byte
			for _, s := range l {
				e, _ := refsmb.EncodeString(2, []byte(s))
				w = append(w, e...)
			}
			return w
		}
		unm := func(l []string) func(d *dialects.Dialects, m []string) []string {
			return func(d *dialects.Dialects, m []string) []string {
				d.Unmarshal(encl(l))
				return append([]string{}, l...)
			}
		}
		asg := func(l []string) func(d *dialects.Dialects, m []string) []string {
			return func(d *dialects.Dialects, m []string) []string {
				d.Dialects = append([]string{}, l...)
				return append([]string{}, l...)
			}
		}
		setAt := func(last bool, v string) func(d *dialects.Dialects, m []string) []string {
			return func(d *dialects.Dialects, m []string) []string {
				if len(d.Dialects) == 0 || len(m) == 0 {
					return m
				}
				i := 0
				if last {
					i = len(d.Dialects) - 1
				}
				d.Dialects[i] = v
				m = append([]string{}, m...)
				if i < len(m) {
					m[i] = v
				}
				return m
			}
		}
		add := func(v string) func(d *dialects.Dialects, m []string) []string {
			return func(d *dialects.Dialects, m []string) []string { d.AddDialect(v); return append(append([]string{}, m...), v) }
		}
		ops := []op{
			{"AddDialect(LANMAN1.0)", add("LANMAN1.0")}, {"AddDialect(NT LM 0.12)", add("NT LM 0.12")},
			{"Dialects[0]=LM1.2X002", setAt(false, "LM1.2X002")}, {"Dialects[last]=Samba", setAt(true, "Samba")},
			{"Dialects=[DOS LM1.2X002,LANMAN2.1]", asg([]string{"DOS LM1.2X002", "LANMAN2.1"})}, {"Dialects=[]", asg(nil)},
			{"Dialects=[a,b,c]", asg([]string{"a", "b", "c"})},
			{"Unmarshal([PC NETWORK PROGRAM 1.0])", unm([]string{"PC NETWORK PROGRAM 1.0"})}, {"Unmarshal([x,y,z])", unm([]string{"x", "y", "z"})},
		}
		n := 0
		for a := range ops {
			for b := range ops {
				for e := range ops {
					for obs := 0; obs < 4; obs++ {
						d := dialects.NewDialects()
						var m []string
						var hist []string
						var out []byte
						var err error
						p, msg, where := vf.Try(func() {
							for i, o := range []op{ops[a], ops[b], ops[e]} {
								m = o.do(d, m)
								hist = append(hist, o.name)
								if i < 2 && obs&(1<<i) != 0 {
									d.Marshal()
									hist = append(hist, "Marshal")
								}
							}
							out, err = d.Marshal()
						})
						n++
						c.Case([]byte("dialects.hist"), []byte{byte(a), byte(b), byte(e), byte(obs)})
						want := encl(m)
						c.Check("C05/dialects/history/Marshal-encodes-the-list-the-object-holds-now", !p && err == nil && bytes.Equal(out, want) && reflect.DeepEqual(append([]string{}, d.Dialects...), append([]string{}, m...)), func() string {
							return fmt.Sprintf("one Dialects object, history %v, then Marshal() = %x (%v %s %s); the object holds %q, whose MS-CIFS encoding is %x", hist, out, err, msg, where, d.Dialects, want)
						})
					}
				}
			}
		}
		c.Set("dialect_histories", n)
	}
	// SMB_DIRECTORY_INFORMATION: FileName is a FIXED-WIDTH field (12 OEM bytes, space padded): whatever name is
	// accepted, the entry has the size of every other entry and carries the name's bytes followed by spaces at the
	// same place — otherwise every following entry of a SEARCH/FIND data block shifts. Names are counted in BYTES.
	{
		mk := func(name []byte) ([]byte, error, bool, string) {
			d := types.NewSMB_DIRECTORY_INFORMATION()
			d.FileName.SetString(string(name))
			var out []byte
			var err error
			p, msg, where := vf.Try(func() { out, err = d.Marshal() })
			return out, err, p, msg + " " + where
		}
		ref12 := []byte("ABCDEFGH.TXT")
		base, berr, bp, _ := mk(ref12)
		off := bytes.Index(base, ref12)
		if c.Check("C05/SMB_DIRECTORY_INFORMATION/Marshal/twelve-byte-name-is-emitted", berr == nil && !bp && off >= 0, func() string {
			return fmt.Sprintf("SMB_DIRECTORY_INFORMATION{FileName:%q}.Marshal() = %x err=%v", ref12, base, berr)
		}) {
			var names [][]byte
			for n := 0; n <= 14; n++ {
				names = append(names, enum.Fill(n, 'a'), enum.Fill(n, 0xFF))
			}
			// valid multi-byte UTF-8 inside the name (OEM bytes that happen to form characters): characters != bytes
			for _, ch := range []string{"\u00c9", "\u20ac", "\U0001F600", "\u0416"} {
				for total := len(ch); total <= 14; total++ {
					names = append(names, append(enum.Fill(total-len(ch), 'a'), ch...), append([]byte(ch), enum.Fill(total-len(ch), 'a')...))
				}
				for k := 1; k*len(ch) <= 16; k++ {
					names = append(names, []byte(strings.Repeat(ch, k)))
				}
			}
			names = append(names, []byte("\u00c4\u00d6\u00dc\u00e4\u00f6\u00fc\u00df.txt"))
			for _, nm := range names {
				out, err, p, pm := mk(nm)
				c.Case([]byte("dirinfo-name"), nm)
				want := append(append([]byte{}, nm...), enum.Fill(max(0, 12-len(nm)), ' ')...)
				ok := !p && (err != nil || (len(nm) <= 12 && len(out) == len(base) && bytes.Equal(out[off:off+12], want)))
				c.Check("C05/SMB_DIRECTORY_INFORMATION/Marshal/FileName-field-has-fixed-width-of-12-bytes", ok, func() string {
					return fmt.Sprintf("SMB_DIRECTORY_INFORMATION{FileName:%q (%d bytes, %d characters)}.Marshal() = %x (%d bytes) err=%v panic=%v %s; the entry with a 12-byte name has %d bytes with the name at offset %d", nm, len(nm), utf8.RuneCount(nm), out, len(out), err, p, pm, len(base), off)
				})
			}
		}
	}
	// SMB_FILE_ATTRIBUTES: little-endian USHORT
	for _, v := range append(enum.ByteDistinct(2), 0x0020, 0x0001, 0xFFFF) {
		a := types.SMB_FILE_ATTRIBUTES{Attributes: uint16(v)}
		out, err := a.Marshal()
		want := []byte{byte(v), byte(v >> 8)}
		c.Case([]byte("fileattr"), want)
		wit := func() string {
			return fmt.Sprintf("SMB_FILE_ATTRIBUTES{%#04x}.Marshal() = %x (%v), little-endian: %x", v, out, err, want)
		}
		c.Check("C05/types/SMB_FILE_ATTRIBUTES/Marshal/width", err == nil && len(out) == 2, wit)
		c.Check("C05/types/SMB_FILE_ATTRIBUTES/Marshal/byteorder", err == nil && bytes.Equal(out, want), wit)
		var d types.SMB_FILE_ATTRIBUTES
		n, uerr := d.Unmarshal(append([]byte{}, want...))
		c.Check("C05/types/SMB_FILE_ATTRIBUTES/Unmarshal/byteorder", uerr == nil && n == 2 && d.Attributes == uint16(v), func() string {
			return fmt.Sprintf("SMB_FILE_ATTRIBUTES.Unmarshal(%x) = %#04x (%d,%v), want %#04x", want, d.Attributes, n, uerr, v)
		})
	}
	// buffer-format strings 1..5 (MS-CIFS 2.2.1.1)
	for format := byte(1); format <= 5; format++ {
		for _, body := range [][]byte{{}, []byte("A"), []byte("\\DIR\\FILE.TXT"), enum.Counter(300, 1)} {
			if format >= 2 && format <= 4 {
				body = bytes.ReplaceAll(body, []byte{0}, []byte{1})
			}
			want, _ := refsmb.EncodeString(format, body)
			s := types.NewSMB_STRING(append([]byte{}, body...))
			s.SetBufferFormat(format)
			out, err := s.Marshal()
			c.Case([]byte("smbstring"), want)
			c.Check(fmt.Sprintf("C05/types/SMB_STRING/format:%d/Marshal", format), err == nil && bytes.Equal(out, want), func() string {
				return fmt.Sprintf("SMB_STRING{format %d, %d bytes %s}.Marshal() = %s (%v), MS-CIFS 2.2.1.1: %s", format, len(body), vf.HexS(body), vf.HexS(out), err, vf.HexS(want))
			})
			var d types.SMB_STRING
			var n int
			var uerr error
			p, msg, where := vf.Try(func() { n, uerr = d.Unmarshal(append(append([]byte{}, want...), 0xEE, 0xEE)) })
			c.Check(fmt.Sprintf("C05/types/SMB_STRING/format:%d/Unmarshal", format), !p && uerr == nil && n == len(want) && d.BufferFormat == format && bytes.Equal(d.Buffer, body), func() string {
				return fmt.Sprintf("SMB_STRING.Unmarshal(%s + ee ee) = {format %d, %s} consumed %d (%v %s %s), want format %d, %s, consumed %d", vf.HexS(want), d.BufferFormat, vf.HexS(d.Buffer), n, uerr, msg, where, format, vf.HexS(body), len(want))
			})
		}
	}
	// header fields, byte-distinct values
	for _, f := range refsmb.HdrFields {
		if f.Len < 2 || f.Name == "Protocol" || f.Name == "SecurityFeatures" {
			continue
		}
		for _, v := range enum.ByteDistinct(f.Len) {
			h := header.NewHeader()
			rh := refsmb.Hdr{Protocol: [4]byte{0xFF, 'S', 'M', 'B'}}
			switch f.Name {
			case "Status":
				h.Status, rh.Status = uint32(v), uint32(v)
			case "Flags2":
				h.Flags2, rh.Flags2 = flags2.Flags2(v), uint16(v)
			case "PIDHigh":
				h.PIDHigh, rh.PIDHigh = uint16(v), uint16(v)
			case "Reserved":
				h.Reserved, rh.Reserved = uint16(v), uint16(v)
			case "TID":
				h.TID, rh.TID = uint16(v), uint16(v)
			case "PIDLow":
				h.PIDLow, rh.PIDLow = uint16(v), uint16(v)
			case "UID":
				h.UID, rh.UID = uint16(v), uint16(v)
			case "MID":
				h.MID, rh.MID = uint16(v), uint16(v)
			}
			_ = flags.Flags(0)
			_ = codes.CommandCode(0)
			out, err := h.Marshal()
			want := rh.Encode()
			c.Case([]byte("hdr"), want)
			c.Check("C05/header/"+f.Name+"/byteorder", err == nil && bytes.Equal(out, want), func() string {
				return fmt.Sprintf("Header{%s=%#x}.Marshal() = %x (%v), MS-CIFS 2.2.3.1: %x", f.Name, v, out, err, want)
			})
			g := header.NewHeader()
			_, uerr := g.Unmarshal(append([]byte{}, want...))
			gb, _ := g.Marshal()
			c.Check("C05/header/"+f.Name+"/decode", uerr == nil && bytes.Equal(gb, want) && reflect.DeepEqual(fieldOf(g, f.Name), fieldOf(h, f.Name)), func() string {
				return fmt.Sprintf("Header.Unmarshal(%x): %s = %#x, want %#x (%v)", want, f.Name, fieldOf(g, f.Name), fieldOf(h, f.Name), uerr)
			})
		}
	}
	// the 32-bit process id through its accessor: high word little-endian at offset 12, low word at offset 26
	for _, pid := range append(append([]uint64{}, enum.ByteDistinct(4)...), 0x1E240, 0x10000, 0xFFFF, 0xFFFFFFFF, 1, 0) {
		h := header.NewHeader()
		h.SetPID(uint32(pid))
		out, err := h.Marshal()
		ok := err == nil && len(out) == 32 && out[12] == byte(pid>>16) && out[13] == byte(pid>>24) && out[26] == byte(pid) && out[27] == byte(pid>>8)
		c.Check("C05/header/SetPID/high-word-at-12-low-word-at-26-little-endian", ok, func() string {
			return fmt.Sprintf("Header.SetPID(%#x).Marshal() = %x (%v): MS-CIFS 2.2.3.1 wants PIDHigh=%04x little-endian at offset 12 and PIDLow=%04x little-endian at offset 26", pid, out, err, uint16(pid>>16), uint16(pid))
		})
		g := header.NewHeader()
		want := make([]byte, 32)
		copy(want, []byte{0xFF, 'S', 'M', 'B'})
		want[12], want[13], want[26], want[27] = byte(pid>>16), byte(pid>>24), byte(pid), byte(pid>>8)
		_, uerr := g.Unmarshal(want)
		c.Check("C05/header/GetPID/reads-ms-cifs-layout", uerr == nil && uint64(g.GetPID()) == pid, func() string {
			return fmt.Sprintf("Header.Unmarshal(%x).GetPID() = %#x (%v), want %#x", want, g.GetPID(), uerr, pid)
		})
	}
}

func fieldOf(h *header.Header, name string) uint64 {
	return reflect.ValueOf(h).Elem().FieldByName(name).Uint()
}
