// C13 — UUID/GUID text and binary forms are mutually inverse and standards-conformant.
// E4: a 128-bit lattice pushed through crypto/uuid (generic, v1, v2, v8), windows/guid and the
// MS-DTYP GUID alias; oracles: github.com/google/uuid and the own codecs in verif/ref/refguid.
package main

import (
	"bytes"
	"fmt"
	"strings"
	"time"

	guuid "github.com/google/uuid"

	"github.com/TheManticoreProject/Manticore/crypto/uuid"
	"github.com/TheManticoreProject/Manticore/crypto/uuid/uuid_v1"
	"github.com/TheManticoreProject/Manticore/crypto/uuid/uuid_v2"
	"github.com/TheManticoreProject/Manticore/crypto/uuid/uuid_v8"
	"github.com/TheManticoreProject/Manticore/windows/guid"
	"github.com/TheManticoreProject/Manticore/windows/ms_dtyp/common/data_structures"

	"verif/enum"
	ref "verif/ref/refguid"
	"verif/vf"
)

func main() { vf.Main("C13", "exploration", run) }

// local counts passing evaluations per goroutine and flushes them in one call (see C12).
type local struct {
	c *vf.Ctx
	n map[string]int64
}

func (l *local) Check(key string, ok bool, w func() string) bool {
	if ok {
		l.n[key]++
		return true
	}
	return l.c.Check(key, false, w)
}
func (l *local) flush() {
	for k, n := range l.n {
		l.c.Pass(k, n)
	}
}

// parChunks runs fn over items in 64 chunks on all cores, one local counter per chunk.
func parChunks[T any](c *vf.Ctx, items []T, fn func(l *local, x T)) {
	const chunks = 64
	vf.Par(chunks, func(k int) {
		l := &local{c, map[string]int64{}}
		for i := k; i < len(items); i += chunks {
			fn(l, items[i])
		}
		l.flush()
	})
}

var (
	// timestamps are kept inside 1970..2200: conversions outside Go's int64-nanosecond range belong to C15
	tMin = time.Date(1970, 1, 1, 0, 0, 0, 0, time.UTC)
	tMax = time.Date(2200, 1, 1, 0, 0, 0, 0, time.UTC)
)

func run(c *vf.Ctx) {
	if err := ref.SelfTest(); err != nil {
		c.Fatalf("%v", err)
	}
	c.Rule("128-bit lattice V = {0, all-ones, a counter pattern} + every single bit set/cleared + every byte position x 256 values on 00 and FF backgrounds + every two-bit value + (version nibble x variant nibble, 256) on three backgrounds (thorough: + every three-bit value, all-ones with two bits cleared and byte-pair deviations); " +
		"each v goes through uuid.UUID, UUIDv1/v2/v8 (version nibble forced to the type's version, and unforced to see what is accepted) and, read as an MS-DTYP packet, through guid.GUID in the five text formats N/D/B/P/X in both letter cases; " +
		"setter direction: every field over its own lattice (all 16384 clock sequences, Pow2 timestamps 1970..2200, byte positions of the node, Words(32/16/48) for GUID fields) on two backgrounds of the other fields. distinct = distinct (type, input) pairs reaching a comparison")
	c.Assume("github.com/google/uuid v1.6.0 implements RFC 4122 parsing, formatting and the v1/v2 field accessors correctly; the own MS-DTYP codec is self-tested on the .NET Guid.ToByteArray and DCE example layouts, the RFC 4122 Gregorian offset and the RFC 4122 example UUID")
	V := lattice(c)
	c.Set("lattice_values", len(V))
	genericUUID(c, V)
	uuidV1(c, V)
	setterHistories(c)
	uuidV1Setters(c)
	uuidV2(c, V)
	uuidV2Setters(c)
	uuidV8(c, V)
	guidAll(c, V)
	guidFields(c)
	refusedSetters(c)
	reusedReceivers(c, V)
	trailingBytes(c, V)
}

func lattice(c *vf.Ctx) [][16]byte {
	seen := map[[16]byte]bool{}
	var out [][16]byte
	add := func(b [16]byte) {
		if !seen[b] {
			seen[b] = true
			out = append(out, b)
		}
	}
	for _, b := range enum.U128Lattice(true) {
		add(b)
	}
	var z, f, cn [16]byte
	for i := range f {
		f[i] = 0xff
		cn[i] = byte(0x10*i + i + 1)
	}
	for _, bg := range [][16]byte{z, f, cn} {
		for ver := 0; ver < 16; ver++ {
			for vr := 0; vr < 16; vr++ {
				b := bg
				b[6] = b[6]&0x0f | byte(ver)<<4
				b[8] = b[8]&0x0f | byte(vr)<<4
				add(b)
			}
		}
	}
	if c.Thorough() {
		// every three-bit value
		for i := 0; i < 128; i++ {
			for j := i + 1; j < 128; j++ {
				for k := j + 1; k < 128; k++ {
					b := z
					b[i/8] |= 1 << uint(i%8)
					b[j/8] |= 1 << uint(j%8)
					b[k/8] |= 1 << uint(k%8)
					add(b)
				}
			}
		}
		// all-ones with two bits cleared
		for i := 0; i < 128; i++ {
			for j := i + 1; j < 128; j++ {
				b := f
				b[i/8] &^= 1 << uint(i%8)
				b[j/8] &^= 1 << uint(j%8)
				add(b)
			}
		}
		for i := 0; i < 16; i++ {
			for j := i + 1; j < 16; j++ {
				for _, a := range []byte{0x01, 0x80, 0xff, 0x5a} {
					for _, bb := range []byte{0x01, 0x80, 0xff, 0xa5} {
						b := z
						b[i], b[j] = a, bb
						add(b)
					}
				}
			}
		}
	}
	return out
}

func hx(b []byte) string { return fmt.Sprintf("%x", b) }

func forceVersion(v [16]byte, ver byte) [16]byte {
	v[6] = v[6]&0x0f | ver<<4
	return v
}

// ================================================================ generic UUID

func genericUUID(c *vf.Ctx, V [][16]byte) {
	parChunks(c, V, func(l *local, v [16]byte) {
		c.Case([]byte("uuid"), v[:])
		g := guuid.UUID(v)
		text := g.String()
		var u uuid.UUID
		var n int
		var err error
		pan, msg, where := vf.Try(func() { n, err = u.Unmarshal(v[:]) })
		if !l.Check("C13/uuid/Unmarshal/accepts-any-16-bytes", !pan && err == nil && n == 16, func() string {
			return fmt.Sprintf("UUID.Unmarshal(%x) = (%d,%v) panic=%v %s %s", v, n, err, pan, msg, where)
		}) {
			return
		}
		ver, vr, data := ref.Split(v)
		l.Check("C13/uuid/Unmarshal/fields-equal-reference-nibble-split", u.Version == ver && u.Variant == vr && u.Data == data, func() string {
			return fmt.Sprintf("UUID.Unmarshal(%x): Version=%x Variant=%x Data=%x; reference split: %x %x %x", v, u.Version, u.Variant, u.Data, ver, vr, data)
		})
		l.Check("C13/uuid/Unmarshal/version-equals-google-uuid", u.Version == byte(g.Version()), func() string {
			return fmt.Sprintf("UUID.Unmarshal(%x).Version = %d, google/uuid Version() = %d", v, u.Version, g.Version())
		})
		var m []byte
		pan, msg, where = vf.Try(func() { m, err = u.Marshal() })
		l.Check("C13/uuid/Marshal-of-Unmarshal/identity", !pan && err == nil && bytes.Equal(m, v[:]), func() string {
			return fmt.Sprintf("UUID.Unmarshal(%x) then Marshal = %x err=%v panic=%v %s %s", v, m, err, pan, msg, where)
		})
		var s string
		pan, msg, where = vf.Try(func() { s = u.String() })
		l.Check("C13/uuid/String/equals-rfc4122-canonical-text", !pan && s == text, func() string {
			return fmt.Sprintf("UUID(%x).String() = %q, google/uuid gives %q (panic=%v %s %s)", v, s, text, pan, msg, where)
		})
		for _, cs := range []struct{ name, in string }{{"lower-case", text}, {"upper-case", strings.ToUpper(text)}} {
			var p uuid.UUID
			var pm []byte
			var ps string
			pan, msg, where = vf.Try(func() {
				err = p.FromString(cs.in)
				if err == nil {
					pm, _ = p.Marshal()
					ps = p.String()
				}
			})
			l.Check("C13/uuid/FromString/"+cs.name+"/binary-equals-google-uuid", !pan && err == nil && bytes.Equal(pm, v[:]), func() string {
				return fmt.Sprintf("UUID.FromString(%q) then Marshal = %x err=%v panic=%v %s %s; want %x", cs.in, pm, err, pan, msg, where, v)
			})
			l.Check("C13/uuid/String-of-FromString/"+cs.name+"/reproduces-input-case-insensitively", !pan && err == nil && strings.EqualFold(ps, cs.in), func() string {
				return fmt.Sprintf("UUID.FromString(%q) then String() = %q", cs.in, ps)
			})
		}
		// field direction: assign the fields, format, parse
		f := uuid.UUID{Version: ver, Variant: vr, Data: data}
		pan, msg, where = vf.Try(func() { m, err = f.Marshal() })
		l.Check("C13/uuid/Marshal/fields-to-bytes-equals-reference", !pan && err == nil && bytes.Equal(m, v[:]), func() string {
			return fmt.Sprintf("UUID{Version:%x,Variant:%x,Data:%x}.Marshal() = %x err=%v panic=%v %s %s; want %x", ver, vr, data, m, err, pan, msg, where, v)
		})
		var back uuid.UUID
		pan, msg, where = vf.Try(func() { err = back.FromString(f.String()) })
		l.Check("C13/uuid/FromString-of-String/fields-preserved", !pan && err == nil && back == uuid.UUID{Version: ver, Variant: vr, Data: data}, func() string {
			return fmt.Sprintf("UUID{Version:%x,Variant:%x,Data:%x}: String()=%q, FromString gives %+v err=%v panic=%v %s %s", ver, vr, data, f.String(), back, err, pan, msg, where)
		})
	})
	c.Sample("uuid-lattice", map[string]any{"first": hx(V[0][:]), "some": []string{hx(V[300][:]), hx(V[len(V)/2][:]), hx(V[len(V)-1][:])}})
}

// ================================================================ UUID v1

func uuidV1(c *vf.Ctx, V [][16]byte) {
	var accepted, rejected int64
	parChunks(c, V, func(l *local, v0 [16]byte) {
		// what the typed parser does with a value of another version: whatever it accepts it must reproduce
		if v0[6]>>4 != 1 {
			var u uuid_v1.UUIDv1
			var err error
			var m []byte
			pan, msg, where := vf.Try(func() {
				_, err = u.Unmarshal(v0[:])
				if err == nil {
					m, _ = u.Marshal()
				}
			})
			l.Check("C13/uuid_v1/Unmarshal/other-version-rejected-or-reproduced", !pan && (err != nil || bytes.Equal(m, v0[:])), func() string {
				return fmt.Sprintf("UUIDv1.Unmarshal(%x) (version nibble %x) accepted, Marshal gives %x (panic=%v %s %s)", v0, v0[6]>>4, m, pan, msg, where)
			})
			if err != nil {
				c.Add("uuid_v1_other_versions_rejected", 1)
			} else {
				c.Add("uuid_v1_other_versions_accepted", 1)
			}
		}
		v := forceVersion(v0, 1)
		c.Case([]byte("uuid_v1"), v[:])
		g := guuid.UUID(v)
		ticks, _, clk14, node := ref.V1Fields(v)
		if uint64(g.Time()) != ticks || g.ClockSequence() != int(clk14) || !bytes.Equal(g.NodeID(), node[:]) {
			c.Fatalf("oracle disagreement on %x: google/uuid (%d,%d,%x) vs refguid (%d,%d,%x)", v, g.Time(), g.ClockSequence(), g.NodeID(), ticks, clk14, node)
		}
		var u uuid_v1.UUIDv1
		var err error
		var n int
		pan, msg, where := vf.Try(func() { n, err = u.Unmarshal(v[:]) })
		if !l.Check("C13/uuid_v1/Unmarshal/accepts-version-1", !pan && err == nil && n == 16, func() string {
			return fmt.Sprintf("UUIDv1.Unmarshal(%x) = (%d,%v) panic=%v %s %s", v, n, err, pan, msg, where)
		}) {
			return
		}
		l.Check("C13/uuid_v1/Time/equals-rfc4122-60-bit-timestamp", u.Time == ticks, func() string {
			return fmt.Sprintf("UUIDv1.Unmarshal(%s).Time = %#x, google/uuid Time() = %#x", g, u.Time, ticks)
		})
		l.Check("C13/uuid_v1/GetNodeID/equals-rfc4122-node", bytes.Equal(u.GetNodeID(), node[:]), func() string {
			return fmt.Sprintf("UUIDv1.Unmarshal(%s).GetNodeID() = %x, google/uuid NodeID() = %x", g, u.GetNodeID(), node)
		})
		cs := u.GetClockSequence()
		l.Check("C13/uuid_v1/GetClockSequence/low-12-bits-equal-rfc4122", cs&0x0fff == clk14&0x0fff && cs <= 0x3fff, func() string {
			return fmt.Sprintf("UUIDv1.Unmarshal(%s).GetClockSequence() = %#x, google/uuid ClockSequence() = %#x (low 12 bits differ or value exceeds 14 bits)", g, cs, clk14)
		})
		l.Check("C13/uuid_v1/GetClockSequence/equals-rfc4122-14-bit-clock-sequence", cs == clk14, func() string {
			return fmt.Sprintf("UUIDv1.Unmarshal(%s).GetClockSequence() = %#x, RFC 4122 clock sequence (google/uuid ClockSequence()) = %#x: bits 12-13 (low two bits of octet 8's high nibble) are reported in UUID.Variant=%#x instead", g, cs, clk14, u.Variant)
		})
		{
			t := ref.V1Time(ticks)
			tkey := "C13/uuid_v1/GetTime/equals-rfc4122-time-1970..2200"
			if ticks < ref.GregorianOffset100ns() || t.Before(tMin) || !t.Before(tMax) {
				tkey = "C13/uuid_v1/GetTime/equals-rfc4122-time-outside-1970..2200"
			}
			sec, nsec := g.Time().UnixTime()
			var gt time.Time
			pan, msg, where = vf.Try(func() { gt = u.GetTime() })
			l.Check(tkey, !pan && gt.Equal(time.Unix(sec, nsec)), func() string {
				return fmt.Sprintf("UUIDv1.Unmarshal(%s).GetTime() = %s, google/uuid Time().UnixTime() = %s (panic=%v %s %s)", g, gt.UTC().Format(time.RFC3339Nano), time.Unix(sec, nsec).UTC().Format(time.RFC3339Nano), pan, msg, where)
			})
		}
		var m []byte
		pan, msg, where = vf.Try(func() { m, err = u.Marshal() })
		l.Check("C13/uuid_v1/Marshal-of-Unmarshal/identity", !pan && err == nil && bytes.Equal(m, v[:]), func() string {
			return fmt.Sprintf("UUIDv1.Unmarshal(%x) then Marshal = %x err=%v panic=%v %s %s", v, m, err, pan, msg, where)
		})
		var s string
		pan, msg, where = vf.Try(func() { s = u.String() })
		l.Check("C13/uuid_v1/String/equals-rfc4122-canonical-text", !pan && s == g.String(), func() string {
			return fmt.Sprintf("UUIDv1(%x).String() = %q want %q (panic=%v %s %s)", v, s, g, pan, msg, where)
		})
		for _, tc := range []struct{ name, in string }{{"lower-case", g.String()}, {"upper-case", strings.ToUpper(g.String())}} {
			var p uuid_v1.UUIDv1
			var pm []byte
			var ps string
			pan, msg, where = vf.Try(func() {
				err = p.FromString(tc.in)
				if err == nil {
					pm, _ = p.Marshal()
					ps = p.String()
				}
			})
			l.Check("C13/uuid_v1/FromString/"+tc.name+"/binary-equals-google-uuid", !pan && err == nil && bytes.Equal(pm, v[:]) && strings.EqualFold(ps, tc.in), func() string {
				return fmt.Sprintf("UUIDv1.FromString(%q): Marshal = %x String = %q err=%v panic=%v %s %s; want %x", tc.in, pm, ps, err, pan, msg, where, v)
			})
		}
		var fb uuid_v1.UUIDv1
		pan, msg, where = vf.Try(func() { err = fb.FromBytes(v[:]) })
		l.Check("C13/uuid_v1/FromBytes/same-fields-as-Unmarshal", !pan && err == nil && fb.Time == u.Time && fb.ClockSeq == u.ClockSeq && fb.NodeID == u.NodeID && fb.UUID == u.UUID, func() string {
			return fmt.Sprintf("UUIDv1.FromBytes(%x) = %+v err=%v panic=%v %s %s; Unmarshal gave %+v", v, fb, err, pan, msg, where, u)
		})
	})
	_ = accepted
	_ = rejected
}

func timeLattice() []time.Time {
	maxNs := tMax.UnixNano()
	seen := map[int64]bool{}
	var out []time.Time
	add := func(ns int64) {
		if ns >= 0 && ns < maxNs && !seen[ns] {
			seen[ns] = true
			out = append(out, time.Unix(0, ns).UTC())
		}
	}
	for _, v := range enum.Pow2(63) {
		add(int64(v))
		add(int64(v) / 100 * 100)
		add(maxNs - 1 - int64(v))
	}
	// 100 ns ticks whose RFC 4122 value crosses the time_low / time_mid / time_hi field borders
	off := ref.GregorianOffset100ns()
	hiT := ref.V1Ticks(tMax)
	for _, k := range []uint{32, 40, 48, 52, 56} {
		step := uint64(1) << k
		var list []uint64
		for tk := (off/step + 1) * step; tk < hiT && len(list) < 400; tk += step {
			list = append(list, tk)
		}
		if k < 48 {
			list = list[:8]
			last := hiT / step * step
			for i := uint64(0); i < 8; i++ {
				list = append(list, last-i*step)
			}
		}
		for _, tk := range list {
			for _, d := range []int64{-1, 0, 1} {
				add((int64(tk-off) + d) * 100)
			}
		}
	}
	for _, d := range []time.Time{time.Date(1998, 2, 4, 22, 13, 53, 151182300, time.UTC), time.Date(2026, 9, 27, 12, 0, 0, 999999900, time.UTC), time.Date(2038, 1, 19, 3, 14, 7, 0, time.UTC), time.Date(2106, 2, 7, 6, 28, 16, 100, time.UTC)} {
		for _, a := range enum.Around(2, d.UnixNano()/100) {
			add(a * 100)
		}
	}
	return out
}

// wideTimes: instants outside 1970..2200 that a version-1 timestamp can still carry (1582-10-15 up to
// 2^60-1 ticks, year 5236), in particular BEFORE 1970 with a sub-second part that is not a whole
// number of 100 ns ticks (floor vs truncation), and both ends of the range int64 nanoseconds can express.
func wideTimes() []time.Time {
	var out []time.Time
	for _, d := range []time.Time{
		time.Date(1582, 10, 15, 0, 0, 0, 0, time.UTC),
		time.Date(1582, 10, 15, 0, 0, 1, 0, time.UTC),
		time.Date(1600, 1, 1, 0, 0, 0, 0, time.UTC),
		time.Date(1677, 9, 21, 0, 12, 43, 145224192, time.UTC), // smallest UnixNano
		time.Date(1677, 9, 21, 0, 12, 43, 0, time.UTC),
		time.Date(1677, 12, 31, 23, 59, 59, 999999999, time.UTC),
		time.Date(1678, 1, 1, 0, 0, 0, 0, time.UTC),
		time.Date(1900, 1, 1, 0, 0, 0, 0, time.UTC),
		time.Date(1969, 12, 31, 23, 59, 59, 0, time.UTC),
		time.Date(1970, 1, 1, 0, 0, 0, 0, time.UTC),
		time.Date(2200, 1, 1, 0, 0, 0, 0, time.UTC),
		time.Date(2261, 12, 31, 23, 59, 59, 0, time.UTC),
		time.Date(2262, 1, 1, 0, 0, 0, 0, time.UTC),
		time.Date(2262, 4, 11, 23, 47, 16, 854775807, time.UTC), // largest UnixNano
		time.Date(2262, 4, 12, 0, 0, 0, 0, time.UTC),
		time.Date(3000, 1, 1, 0, 0, 0, 0, time.UTC),
		time.Date(5236, 3, 31, 21, 20, 59, 0, time.UTC), // the last whole seconds below 2^60 ticks
		time.Date(5236, 3, 31, 21, 21, 0, 0, time.UTC),
	} {
		for _, ns := range []int{0, 1, 49, 50, 99, 100, 101, 999999899, 999999900, 999999950, 999999999} {
			t := d.Add(time.Duration(ns))
			if !t.Before(time.Date(1582, 10, 15, 0, 0, 0, 0, time.UTC)) && ref.V1Ticks(t) < 1<<60 {
				out = append(out, t)
			}
		}
	}
	// before 1970: -2^k ns and neighbours
	for _, v := range enum.Pow2(62) {
		for _, d := range []int64{-101, -100, -99, -50, -1, 0, 1, 50} {
			out = append(out, time.Unix(0, -int64(v)+d).UTC())
		}
	}
	return out
}

func nodeLattice() [][6]byte {
	var out [][6]byte
	for _, bg := range []byte{0, 0xff} {
		for _, b := range enum.BytePos(6, bg, enum.AllBytes()) {
			var n [6]byte
			copy(n[:], b)
			out = append(out, n)
		}
	}
	out = append(out, [6]byte{}, [6]byte{0xff, 0xff, 0xff, 0xff, 0xff, 0xff}, [6]byte{0x00, 0xa0, 0xc9, 0x1e, 0x6b, 0xf6})
	return out
}

type v1case struct {
	t     time.Time
	clk   uint16
	node  [6]byte
	varnt uint8 // value assigned to the exported UUID.Variant nibble (0 or 8: low two bits clear)
}

func uuidV1Setters(c *vf.Ctx) {
	times := append(timeLattice(), wideTimes()...)
	nodes := nodeLattice()
	c.Set("v1_time_lattice", len(times))
	bgs := []v1case{
		{time.Date(1970, 1, 1, 0, 0, 0, 0, time.UTC), 0, [6]byte{}, 0},
		{time.Date(2199, 12, 31, 23, 59, 59, 999999900, time.UTC), 0x0fff, [6]byte{0xff, 0xff, 0xff, 0xff, 0xff, 0xff}, 8},
	}
	var cases []v1case
	for _, bg := range bgs {
		for ti, t := range times {
			x := bg
			x.t = t
			cases = append(cases, x)
			// the same instant carried in other time zones (a time.Time is an instant, its Location is presentation)
			if ti%7 == 0 {
				for _, z := range []*time.Location{time.FixedZone("plus2", 2*3600), time.FixedZone("minus5", -5*3600), time.FixedZone("india", 5*3600+1800)} {
					x.t = t.In(z)
					cases = append(cases, x)
				}
			}
		}
		for clk := 0; clk <= 0x3fff; clk++ {
			x := bg
			x.clk = uint16(clk)
			cases = append(cases, x)
		}
		for _, n := range nodes {
			x := bg
			x.node = n
			cases = append(cases, x)
		}
	}
	parChunks(c, cases, func(l *local, tc v1case) {
		c.Case([]byte("uuid_v1.set"), []byte(fmt.Sprint(tc.t.UnixNano(), tc.clk, tc.node, tc.varnt)))
		desc := fmt.Sprintf("UUIDv1{Variant:%#x}; SetTime(%s); SetClockSequence(%#x); SetNodeID(%x)", tc.varnt, tc.t.Format(time.RFC3339Nano), tc.clk, tc.node)
		var u uuid_v1.UUIDv1
		var m []byte
		var err, nerr error
		pan, msg, where := vf.Try(func() {
			u.Variant = tc.varnt
			u.SetTime(tc.t)
			u.SetClockSequence(tc.clk)
			nerr = u.SetNodeID(tc.node[:])
			m, err = u.Marshal()
		})
		if !l.Check("C13/uuid_v1/setters-then-Marshal/no-error", !pan && err == nil && nerr == nil && len(m) == 16, func() string {
			return fmt.Sprintf("%s; Marshal = %x err=%v/%v panic=%v %s %s", desc, m, nerr, err, pan, msg, where)
		}) {
			return
		}
		var mb [16]byte
		copy(mb[:], m)
		g := guuid.UUID(mb)
		// formatting is a function of the FIELDS: String() right after the setters, on an object that was never
		// marshalled, prints the same text as formatting the marshalled bytes
		{
			var f uuid_v1.UUIDv1
			var txt string
			p2, m2, w2 := vf.Try(func() {
				f.Variant = tc.varnt
				f.SetTime(tc.t)
				f.SetClockSequence(tc.clk)
				f.SetNodeID(tc.node[:])
				txt = f.String()
			})
			l.Check("C13/uuid_v1/setters-then-String/text-equals-text-of-marshalled-bytes", !p2 && strings.EqualFold(txt, g.String()), func() string {
				return fmt.Sprintf("%s; String() without a Marshal call in between = %q, the marshalled bytes %x format as %q (panic=%v %s %s)", desc, txt, mb, g.String(), p2, m2, w2)
			})
		}
		wantTicks := ref.V1Ticks(tc.t)
		sec, nsec := g.Time().UnixTime()
		trunc := time.Unix(tc.t.Unix(), int64(tc.t.Nanosecond()/100*100))
		l.Check("C13/uuid_v1/SetTime-Marshal/timestamp-equals-rfc4122", uint64(g.Time()) == wantTicks && time.Unix(sec, nsec).Equal(trunc), func() string {
			return fmt.Sprintf("%s; Marshal = %s: google/uuid reads timestamp %#x = %s, want %#x = %s", desc, g, uint64(g.Time()), time.Unix(sec, nsec).UTC().Format(time.RFC3339Nano), wantTicks, trunc.UTC().Format(time.RFC3339Nano))
		})
		l.Check("C13/uuid_v1/SetTime-Marshal/version-nibble-is-1", g.Version() == 1, func() string { return fmt.Sprintf("%s; Marshal = %s: version %d", desc, g, g.Version()) })
		l.Check("C13/uuid_v1/SetNodeID-Marshal/node-equals-rfc4122", bytes.Equal(g.NodeID(), tc.node[:]), func() string {
			return fmt.Sprintf("%s; Marshal = %s: google/uuid reads node %x", desc, g, g.NodeID())
		})
		width := "12-bit-values"
		if tc.clk > 0x0fff {
			width = "13-and-14-bit-values"
		}
		l.Check("C13/uuid_v1/SetClockSequence-Marshal/"+width+"/clock-sequence-equals-rfc4122", g.ClockSequence() == int(tc.clk), func() string {
			return fmt.Sprintf("%s; Marshal = %s: google/uuid reads clock sequence %#x, want %#x (RFC 4122 clock sequence is 14 bits wide)", desc, g, g.ClockSequence(), tc.clk)
		})
		if tc.clk <= 0x0fff {
			want := ref.V1Bytes(wantTicks, tc.varnt>>2, tc.clk, tc.node)
			l.Check("C13/uuid_v1/Marshal/layout-equals-rfc4122", mb == want, func() string {
				return fmt.Sprintf("%s; Marshal = %x, RFC 4122 layout of these fields (variant bits %02b) = %x", desc, mb, tc.varnt>>2, want)
			})
		}
		// formatting then parsing returns the same fields
		for _, via := range []string{"binary", "text"} {
			var p uuid_v1.UUIDv1
			pan, msg, where = vf.Try(func() {
				if via == "binary" {
					_, err = p.Unmarshal(m)
				} else {
					err = p.FromString(u.String())
				}
			})
			w := func(what string) func() string {
				return func() string {
					return fmt.Sprintf("%s; formatted as %s (%x / %s) and parsed back: %s; got Time=%#x ClockSeq=%#x NodeID=%x Variant=%#x err=%v panic=%v %s %s", desc, via, m, g, what, p.Time, p.ClockSeq, p.NodeID, p.Variant, err, pan, msg, where)
				}
			}
			if !l.Check("C13/uuid_v1/roundtrip-"+via+"/parses", !pan && err == nil, w("parse failed")) {
				continue
			}
			var gt time.Time
			vf.Try(func() { gt = p.GetTime() })
			l.Check("C13/uuid_v1/roundtrip-"+via+"/time-preserved", p.Time == wantTicks && gt.Equal(trunc), w(fmt.Sprintf("want Time=%#x GetTime=%s, GetTime gave %s", wantTicks, trunc.UTC().Format(time.RFC3339Nano), gt.UTC().Format(time.RFC3339Nano))))
			l.Check("C13/uuid_v1/roundtrip-"+via+"/node-preserved", p.NodeID == tc.node, w("node differs"))
			l.Check("C13/uuid_v1/roundtrip-"+via+"/"+width+"/clock-sequence-preserved", p.GetClockSequence() == tc.clk, w(fmt.Sprintf("want clock sequence %#x", tc.clk)))
			if tc.clk <= 0x0fff {
				l.Check("C13/uuid_v1/roundtrip-"+via+"/variant-nibble-preserved", p.Variant == tc.varnt, w(fmt.Sprintf("want Variant %#x", tc.varnt)))
			}
		}
	})
	c.Sample("uuid_v1-setters", map[string]any{"times": len(times), "clock_sequences": "0..0x3fff", "nodes": len(nodes), "backgrounds": 2})
}

// ================================================================ UUID v2

func uuidV2(c *vf.Ctx, V [][16]byte) {
	parChunks(c, V, func(l *local, v0 [16]byte) {
		if v0[6]>>4 != 2 {
			var u uuid_v2.UUIDv2
			var err error
			var m []byte
			pan, msg, where := vf.Try(func() {
				_, err = u.Unmarshal(v0[:])
				if err == nil {
					m, _ = u.Marshal()
				}
			})
			l.Check("C13/uuid_v2/Unmarshal/other-version-rejected-or-reproduced", !pan && (err != nil || bytes.Equal(m, v0[:])), func() string {
				return fmt.Sprintf("UUIDv2.Unmarshal(%x) (version nibble %x) accepted, Marshal gives %x (panic=%v %s %s)", v0, v0[6]>>4, m, pan, msg, where)
			})
		}
		v := forceVersion(v0, 2)
		c.Case([]byte("uuid_v2"), v[:])
		g := guuid.UUID(v)
		var u uuid_v2.UUIDv2
		var err error
		var n int
		pan, msg, where := vf.Try(func() { n, err = u.Unmarshal(v[:]) })
		if !l.Check("C13/uuid_v2/Unmarshal/accepts-version-2", !pan && err == nil && n == 16, func() string {
			return fmt.Sprintf("UUIDv2.Unmarshal(%x) = (%d,%v) panic=%v %s %s", v, n, err, pan, msg, where)
		}) {
			return
		}
		l.Check("C13/uuid_v2/LocalDomainNumber/equals-dce-local-id", u.GetLocalDomainNumber() == g.ID(), func() string {
			return fmt.Sprintf("UUIDv2.Unmarshal(%s).GetLocalDomainNumber() = %#x, google/uuid ID() = %#x", g, u.GetLocalDomainNumber(), g.ID())
		})
		l.Check("C13/uuid_v2/LocalDomain/equals-dce-domain", u.GetLocalDomain() == uint8(g.Domain()), func() string {
			return fmt.Sprintf("UUIDv2.Unmarshal(%s).GetLocalDomain() = %#x, google/uuid Domain() = %#x", g, u.GetLocalDomain(), uint8(g.Domain()))
		})
		l.Check("C13/uuid_v2/NodeID/equals-rfc4122-node", bytes.Equal(u.GetNodeID(), g.NodeID()), func() string {
			return fmt.Sprintf("UUIDv2.Unmarshal(%s).GetNodeID() = %x, google/uuid NodeID() = %x", g, u.GetNodeID(), g.NodeID())
		})
		// DCE replaces time_low by the local id: the timestamp keeps time_mid and time_hi only
		wantT := uint64(g.Time()) &^ 0xffffffff
		l.Check("C13/uuid_v2/Time/equals-time_mid-and-time_hi", u.Time == wantT, func() string {
			return fmt.Sprintf("UUIDv2.Unmarshal(%s).Time = %#x, want %#x (time_hi<<48 | time_mid<<32)", g, u.Time, wantT)
		})
		{
			// the timestamp the type reports, as a Go time, over the WHOLE 60-bit range (before 1970 too)
			var gt time.Time
			pan, msg, where = vf.Try(func() { gt = u.GetTime() })
			d := int64(wantT) - int64(ref.GregorianOffset100ns()) // signed: timestamps before 1970 are negative offsets
			wantTime := time.Unix(d/10000000, (d%10000000)*100)
			l.Check("C13/uuid_v2/GetTime/equals-rfc4122-time-of-time_mid-and-time_hi", !pan && gt.Equal(wantTime), func() string {
				return fmt.Sprintf("UUIDv2.Unmarshal(%s).GetTime() = %s, RFC 4122 time of timestamp %#x = %s (panic=%v %s %s)", g, gt.UTC().Format(time.RFC3339Nano), wantT, wantTime.UTC().Format(time.RFC3339Nano), pan, msg, where)
			})
		}
		var m []byte
		pan, msg, where = vf.Try(func() { m, err = u.Marshal() })
		l.Check("C13/uuid_v2/Marshal-of-Unmarshal/identity", !pan && err == nil && bytes.Equal(m, v[:]), func() string {
			return fmt.Sprintf("UUIDv2.Unmarshal(%x) then Marshal = %x err=%v panic=%v %s %s", v, m, err, pan, msg, where)
		})
		var s string
		pan, msg, where = vf.Try(func() { s = u.String() })
		l.Check("C13/uuid_v2/String/equals-rfc4122-canonical-text", !pan && s == g.String(), func() string {
			return fmt.Sprintf("UUIDv2(%x).String() = %q want %q (panic=%v %s %s)", v, s, g, pan, msg, where)
		})
		for _, tc := range []struct{ name, in string }{{"lower-case", g.String()}, {"upper-case", strings.ToUpper(g.String())}} {
			var p uuid_v2.UUIDv2
			var pm []byte
			var ps string
			pan, msg, where = vf.Try(func() {
				err = p.FromString(tc.in)
				if err == nil {
					pm, _ = p.Marshal()
					ps = p.String()
				}
			})
			l.Check("C13/uuid_v2/FromString/"+tc.name+"/binary-equals-google-uuid", !pan && err == nil && bytes.Equal(pm, v[:]) && strings.EqualFold(ps, tc.in), func() string {
				return fmt.Sprintf("UUIDv2.FromString(%q): Marshal = %x String = %q err=%v panic=%v %s %s; want %x", tc.in, pm, ps, err, pan, msg, where, v)
			})
		}
		var fb uuid_v2.UUIDv2
		pan, msg, where = vf.Try(func() { err = fb.FromBytes(v[:]) })
		l.Check("C13/uuid_v2/FromBytes/same-fields-as-Unmarshal", !pan && err == nil && fb == u, func() string {
			return fmt.Sprintf("UUIDv2.FromBytes(%x) = %+v err=%v panic=%v %s %s; Unmarshal gave %+v", v, fb, err, pan, msg, where, u)
		})
		// SetTime on a parsed version-2 value must leave it a version-2 value
		before := u.Version
		vf.Try(func() { u.SetTime(time.Date(2001, 2, 3, 4, 5, 6, 0, time.UTC)) })
		l.Check("C13/uuid_v2/SetTime/version-field-stays-2", before == 2 && u.Version == 2, func() string {
			return fmt.Sprintf("UUIDv2.Unmarshal(%s) has Version=%d; after SetTime(2001-02-03T04:05:06Z) the exported Version field is %d (want 2)", g, before, u.Version)
		})
	})
}

type v2case struct {
	t     time.Time
	ldn   uint32
	ld    uint8
	clock uint8
	node  [6]byte
	varnt uint8
}

func uuidV2Setters(c *vf.Ctx) {
	bgs := []v2case{
		{time.Date(1970, 1, 1, 0, 0, 0, 0, time.UTC), 0, 0, 0, [6]byte{}, 0},
		{time.Date(2199, 12, 31, 23, 59, 59, 999999900, time.UTC), 0xffffffff, 0xff, 0x0f, [6]byte{0xff, 0xff, 0xff, 0xff, 0xff, 0xff}, 0xf},
	}
	var cases []v2case
	for _, bg := range bgs {
		for ti, t := range timeLattice() {
			x := bg
			x.t = t
			cases = append(cases, x)
			if ti%7 == 0 {
				for _, z := range []*time.Location{time.FixedZone("plus2", 2*3600), time.FixedZone("minus5", -5*3600)} {
					x.t = t.In(z)
					cases = append(cases, x)
				}
			}
		}
		for _, w := range enum.Words(32) {
			x := bg
			x.ldn = uint32(w)
			cases = append(cases, x)
		}
		for d := 0; d < 256; d++ {
			x := bg
			x.ld = uint8(d)
			cases = append(cases, x)
		}
		for k := 0; k < 16; k++ { // the library's clock field is four bits wide (see notes: DCE defines six)
			x := bg
			x.clock = uint8(k)
			cases = append(cases, x)
		}
		for k := 0; k < 16; k++ {
			x := bg
			x.varnt = uint8(k)
			cases = append(cases, x)
		}
		for _, n := range nodeLattice() {
			x := bg
			x.node = n
			cases = append(cases, x)
		}
	}
	parChunks(c, cases, func(l *local, tc v2case) {
		c.Case([]byte("uuid_v2.set"), []byte(fmt.Sprint(tc)))
		desc := fmt.Sprintf("UUIDv2{Variant:%#x}; SetTime(%s); SetLocalDomainNumber(%#x); SetLocalDomain(%#x); SetClock(%#x); SetNodeID(%x)", tc.varnt, tc.t.Format(time.RFC3339Nano), tc.ldn, tc.ld, tc.clock, tc.node)
		var u uuid_v2.UUIDv2
		var m []byte
		var err, nerr error
		var verAfterSetTime uint8
		pan, msg, where := vf.Try(func() {
			u.Variant = tc.varnt
			u.SetTime(tc.t)
			verAfterSetTime = u.Version
			u.SetLocalDomainNumber(tc.ldn)
			u.SetLocalDomain(tc.ld)
			u.SetClock(tc.clock)
			nerr = u.SetNodeID(tc.node[:])
			m, err = u.Marshal()
		})
		if !l.Check("C13/uuid_v2/setters-then-Marshal/no-error", !pan && err == nil && nerr == nil && len(m) == 16, func() string {
			return fmt.Sprintf("%s; Marshal = %x err=%v/%v panic=%v %s %s", desc, m, nerr, err, pan, msg, where)
		}) {
			return
		}
		{
			var f uuid_v2.UUIDv2
			var txt string
			p2, m2, w2 := vf.Try(func() {
				f.Variant = tc.varnt
				f.SetTime(tc.t)
				f.SetLocalDomainNumber(tc.ldn)
				f.SetLocalDomain(tc.ld)
				f.SetClock(tc.clock)
				f.SetNodeID(tc.node[:])
				txt = f.String()
			})
			var mb0 [16]byte
			copy(mb0[:], m)
			l.Check("C13/uuid_v2/setters-then-String/text-equals-text-of-marshalled-bytes", !p2 && strings.EqualFold(txt, guuid.UUID(mb0).String()), func() string {
				return fmt.Sprintf("%s; String() without a Marshal call in between = %q, the marshalled bytes %x format as %q (panic=%v %s %s)", desc, txt, mb0, guuid.UUID(mb0).String(), p2, m2, w2)
			})
		}
		l.Check("C13/uuid_v2/SetTime/version-field-stays-2", verAfterSetTime == 2, func() string {
			return fmt.Sprintf("new UUIDv2; SetTime(%s): the exported Version field is %d afterwards (want 2: formatting then parsing must return the same fields)", tc.t.Format(time.RFC3339Nano), verAfterSetTime)
		})
		var mb [16]byte
		copy(mb[:], m)
		g := guuid.UUID(mb)
		wantTicks := ref.V1Ticks(tc.t) &^ 0xffffffff
		l.Check("C13/uuid_v2/Marshal/version-nibble-is-2", g.Version() == 2, func() string { return fmt.Sprintf("%s; Marshal = %s: version %d", desc, g, g.Version()) })
		l.Check("C13/uuid_v2/Marshal/dce-fields-read-back-by-google-uuid", g.ID() == tc.ldn && uint8(g.Domain()) == tc.ld && bytes.Equal(g.NodeID(), tc.node[:]) && uint64(g.Time())&^0xffffffff == wantTicks, func() string {
			return fmt.Sprintf("%s; Marshal = %s: google/uuid reads ID=%#x Domain=%#x Node=%x time(mid,hi)=%#x; want %#x %#x %x %#x", desc, g, g.ID(), uint8(g.Domain()), g.NodeID(), uint64(g.Time())&^0xffffffff, tc.ldn, tc.ld, tc.node, wantTicks)
		})
		for _, via := range []string{"binary", "text"} {
			var p uuid_v2.UUIDv2
			pan, msg, where = vf.Try(func() {
				if via == "binary" {
					_, err = p.Unmarshal(m)
				} else {
					err = p.FromString(u.String())
				}
			})
			ok := !pan && err == nil && p.Time == wantTicks && p.LocalDomainNumber == tc.ldn && p.LocalDomain == tc.ld && p.Clock == tc.clock && p.NodeID == tc.node && p.Variant == tc.varnt && p.Version == 2
			l.Check("C13/uuid_v2/roundtrip-"+via+"/fields-preserved", ok, func() string {
				return fmt.Sprintf("%s; formatted as %s (%s) and parsed back: Time=%#x (want %#x) LocalDomainNumber=%#x LocalDomain=%#x Clock=%#x NodeID=%x Variant=%#x Version=%d err=%v panic=%v %s %s", desc, via, g, p.Time, wantTicks, p.LocalDomainNumber, p.LocalDomain, p.Clock, p.NodeID, p.Variant, p.Version, err, pan, msg, where)
			})
			if ok {
				var gt time.Time
				vf.Try(func() { gt = p.GetTime() })
				if wantTicks >= ref.GregorianOffset100ns() {
					l.Check("C13/uuid_v2/roundtrip-"+via+"/GetTime-is-SetTime-truncated-to-time_mid", gt.Equal(ref.V1Time(wantTicks)), func() string {
						return fmt.Sprintf("%s; parsed back: GetTime() = %s want %s", desc, gt.UTC().Format(time.RFC3339Nano), ref.V1Time(wantTicks).Format(time.RFC3339Nano))
					})
				}
			}
		}
	})
}

// ================================================================ UUID v8

func uuidV8(c *vf.Ctx, V [][16]byte) {
	parChunks(c, V, func(l *local, v0 [16]byte) {
		if v0[6]>>4 != 8 {
			var u uuid_v8.UUIDv8
			var err error
			var m []byte
			pan, msg, where := vf.Try(func() {
				_, err = u.Unmarshal(v0[:])
				if err == nil {
					m, _ = u.Marshal()
				}
			})
			l.Check("C13/uuid_v8/Unmarshal/other-version-rejected-or-reproduced", !pan && (err != nil || bytes.Equal(m, v0[:])), func() string {
				return fmt.Sprintf("UUIDv8.Unmarshal(%x) (version nibble %x) accepted, Marshal gives %x (panic=%v %s %s)", v0, v0[6]>>4, m, pan, msg, where)
			})
		}
		v := forceVersion(v0, 8)
		c.Case([]byte("uuid_v8"), v[:])
		g := guuid.UUID(v)
		_, vr, data := ref.Split(v)
		var u uuid_v8.UUIDv8
		var err error
		var n int
		pan, msg, where := vf.Try(func() { n, err = u.Unmarshal(v[:]) })
		if !l.Check("C13/uuid_v8/Unmarshal/accepts-version-8", !pan && err == nil && n == 16, func() string {
			return fmt.Sprintf("UUIDv8.Unmarshal(%x) = (%d,%v) panic=%v %s %s", v, n, err, pan, msg, where)
		}) {
			return
		}
		l.Check("C13/uuid_v8/GetData/equals-the-122-custom-bits-plus-variant-low-bits", bytes.Equal(u.GetData(), data[:]) && u.Variant == vr, func() string {
			return fmt.Sprintf("UUIDv8.Unmarshal(%s): GetData() = %x Variant=%x; reference split %x %x", g, u.GetData(), u.Variant, data, vr)
		})
		var m []byte
		pan, msg, where = vf.Try(func() { m, err = u.Marshal() })
		l.Check("C13/uuid_v8/Marshal-of-Unmarshal/identity", !pan && err == nil && bytes.Equal(m, v[:]), func() string {
			return fmt.Sprintf("UUIDv8.Unmarshal(%x) then Marshal = %x err=%v panic=%v %s %s", v, m, err, pan, msg, where)
		})
		var s string
		pan, msg, where = vf.Try(func() { s = u.String() })
		l.Check("C13/uuid_v8/String/equals-rfc4122-canonical-text", !pan && s == g.String(), func() string {
			return fmt.Sprintf("UUIDv8(%x).String() = %q want %q (panic=%v %s %s)", v, s, g, pan, msg, where)
		})
		for _, tc := range []struct{ name, in string }{{"lower-case", g.String()}, {"upper-case", strings.ToUpper(g.String())}} {
			var p uuid_v8.UUIDv8
			var pm []byte
			var ps string
			pan, msg, where = vf.Try(func() {
				err = p.FromString(tc.in)
				if err == nil {
					pm, _ = p.Marshal()
					ps = p.String()
				}
			})
			l.Check("C13/uuid_v8/FromString/"+tc.name+"/binary-equals-google-uuid", !pan && err == nil && bytes.Equal(pm, v[:]) && strings.EqualFold(ps, tc.in), func() string {
				return fmt.Sprintf("UUIDv8.FromString(%q): Marshal = %x String = %q err=%v panic=%v %s %s; want %x", tc.in, pm, ps, err, pan, msg, where, v)
			})
		}
		// field direction: SetData on a fresh value, format, parse
		var f uuid_v8.UUIDv8
		var back uuid_v8.UUIDv8
		pan, msg, where = vf.Try(func() {
			f.Variant = vr
			f.SetData(data[:])
			m, err = f.Marshal()
			if err == nil {
				err = back.FromString(f.String())
			}
		})
		{
			var f2 uuid_v8.UUIDv8
			var txt string
			p2, m2, w2 := vf.Try(func() {
				f2.Variant = vr
				f2.SetData(data[:])
				txt = f2.String()
			})
			l.Check("C13/uuid_v8/SetData-then-String/text-equals-text-of-marshalled-bytes", !p2 && strings.EqualFold(txt, guuid.UUID(v).String()), func() string {
				return fmt.Sprintf("UUIDv8{Variant:%x}.SetData(%x); String() without a Marshal call in between = %q, want %q (panic=%v %s %s)", vr, data, txt, guuid.UUID(v).String(), p2, m2, w2)
			})
		}
		// the same on a value that already holds ANOTHER version-8 UUID (parsed from text, decoded from bytes, or set
		// and formatted before): SetData replaces the payload wherever the type keeps it
		{
			o := v
			for i := range o {
				o[i] ^= 0xFF
			}
			o[6] = 0x80 | o[6]&0x0F
			o[8] = 0x80 | o[8]&0x3F
			for how := 0; how < 3; how++ {
				var h uuid_v8.UUIDv8
				var txt string
				var hm []byte
				var herr error
				p2, m2, w2 := vf.Try(func() {
					switch how {
					case 0:
						herr = h.FromString(guuid.UUID(o).String())
					case 1:
						_, herr = h.Unmarshal(o[:])
					case 2:
						h.Variant = o[8] >> 4
						h.SetData(o[:])
						_ = h.String()
					}
					if herr != nil {
						return
					}
					h.Variant = vr
					h.SetData(data[:])
					txt = h.String()
					hm, herr = h.Marshal()
				})
				l.Check("C13/uuid_v8/history/SetData-on-a-value-that-held-another-uuid/String-and-Marshal-equal-those-of-a-fresh-value", !p2 && herr == nil && strings.EqualFold(txt, guuid.UUID(v).String()) && bytes.Equal(hm, v[:]), func() string {
					return fmt.Sprintf("UUIDv8 holding %s (%s), then Variant=%x SetData(%x): String() = %q Marshal() = %x err=%v, want %q / %x (panic=%v %s %s)",
						guuid.UUID(o), [...]string{"FromString", "Unmarshal", "SetData+String"}[how], vr, data, txt, hm, herr, guuid.UUID(v).String(), v, p2, m2, w2)
				})
			}
		}
		l.Check("C13/uuid_v8/SetData-Marshal/equals-reference-and-parses-back", !pan && err == nil && bytes.Equal(m, v[:]) && bytes.Equal(back.GetData(), data[:]) && back.Variant == vr, func() string {
			return fmt.Sprintf("UUIDv8{Variant:%x}.SetData(%x): Marshal = %x want %x; parsed back Data=%x Variant=%x err=%v panic=%v %s %s", vr, data, m, v, back.GetData(), back.Variant, err, pan, msg, where)
		})
	})
}

// setterHistories: on a version-1 / version-2 value that already holds a complete identifier (decoded, or built by
// setters), each setter replaces ITS field and nothing else - whatever the value held before and whatever the order
// of the calls: all ordered pairs of two identifiers (earlier/later time, other clock sequence, other node), the
// second applied through the setters in every order; the result marshals like a fresh value given the second
// identifier's fields.
func setterHistories(c *vf.Ctx) {
	l := &local{c, map[string]int64{}}
	defer l.flush()
	type id1 struct {
		t    uint64
		cs   uint16
		node [6]byte
	}
	ids := []id1{
		{0x01B21DD213814000, 0x0abc, [6]byte{1, 2, 3, 4, 5, 6}},
		{0x01B21DD213814001, 0x0fff, [6]byte{0xff, 0xfe, 0xfd, 0xfc, 0xfb, 0xfa}},
		{0x0000000000000002, 0x0000, [6]byte{}},
		{0x0FFFFFFFFFFFFFFF, 0x0001, [6]byte{0, 0, 0, 0, 0, 1}},
	}
	perms := [][3]int{{0, 1, 2}, {0, 2, 1}, {1, 0, 2}, {1, 2, 0}, {2, 0, 1}, {2, 1, 0}}
	for ai, a := range ids {
		for bi, b := range ids {
			if ai == bi {
				continue
			}
			for how := 0; how < 2; how++ {
				for _, pm := range perms {
					var got, want []byte
					var gerr, werr error
					var desc string
					pn, msg, where := vf.Try(func() {
						src := uuid_v1.UUIDv1{Time: a.t, ClockSeq: a.cs, NodeID: a.node}
						u := uuid_v1.UUIDv1{}
						if how == 0 {
							raw, _ := src.Marshal()
							u.FromBytes(raw)
							desc = "decoded"
						} else {
							u.SetNodeID(a.node[:])
							u.SetClockSequence(a.cs)
							u.SetTime(src.GetTime())
							desc = "built by setters"
						}
						tb := (&uuid_v1.UUIDv1{Time: b.t}).GetTime()
						for _, k := range pm {
							switch k {
							case 0:
								u.SetTime(tb)
							case 1:
								u.SetClockSequence(b.cs)
							case 2:
								u.SetNodeID(b.node[:])
							}
						}
						got, gerr = u.Marshal()
						f := uuid_v1.UUIDv1{}
						f.SetNodeID(b.node[:])
						f.SetClockSequence(b.cs)
						f.SetTime(tb)
						want, werr = f.Marshal()
					})
					c.Evals(1)
					c.Case([]byte("v1.setters"), []byte(fmt.Sprint(ai, bi, how, pm)))
					l.Check("C13/uuid_v1/history/setters-on-a-value-that-held-another-identifier-give-what-a-fresh-value-gives", !pn && gerr == nil && werr == nil && bytes.Equal(got, want), func() string {
						return fmt.Sprintf("UUIDv1 holding {Time:%#x ClockSeq:%#x Node:%x} (%s), then SetTime/SetClockSequence/SetNodeID of {Time:%#x ClockSeq:%#x Node:%x} in order %v: Marshal = %x (%v); a fresh value given these fields: %x (%v) (panic=%v %s %s)",
							a.t, a.cs, a.node, desc, b.t, b.cs, b.node, pm, got, gerr, want, werr, pn, msg, where)
					})
				}
			}
		}
	}
}

// ================================================================ GUID

type gfmt struct {
	letter byte
	to     func(g *guid.GUID) string
	from   func(s string) (*guid.GUID, error)
}

var gfmts = []gfmt{
	{'N', (*guid.GUID).ToFormatN, guid.FromFormatN},
	{'D', (*guid.GUID).ToFormatD, guid.FromFormatD},
	{'B', (*guid.GUID).ToFormatB, guid.FromFormatB},
	{'P', (*guid.GUID).ToFormatP, guid.FromFormatP},
	{'X', (*guid.GUID).ToFormatX, guid.FromFormatX},
}

func sameFields(g *guid.GUID, f ref.Fields) bool {
	return g != nil && g.A == f.Data1 && g.B == f.Data2 && g.C == f.Data3 && g.D == ref.D(f) && g.E == ref.E(f)
}

func gstr(g *guid.GUID) string {
	if g == nil {
		return "<nil>"
	}
	return fmt.Sprintf("{A:%#08x B:%#04x C:%#04x D:%#04x E:%#012x}", g.A, g.B, g.C, g.D, g.E)
}

func fstr(f ref.Fields) string {
	return fmt.Sprintf("{A:%#08x B:%#04x C:%#04x D:%#04x E:%#012x}", f.Data1, f.Data2, f.Data3, ref.D(f), ref.E(f))
}

// guidText checks every text obligation for the GUID whose reference fields are f.
func guidText(l *local, f ref.Fields) {
	want := &guid.GUID{A: f.Data1, B: f.Data2, C: f.Data3, D: ref.D(f), E: ref.E(f)}
	var fromD *guid.GUID
	vf.Try(func() { fromD, _ = guid.FromFormatD(ref.Format(f, 'D')) })
	for _, fm := range gfmts {
		L := string(fm.letter)
		text := ref.Format(f, fm.letter)
		var got string
		pan, msg, where := vf.Try(func() { got = fm.to(want) })
		l.Check("C13/guid/ToFormat"+L+"/equals-reference-text", !pan && got == text, func() string {
			return fmt.Sprintf("GUID%s.ToFormat%s() = %q want %q (panic=%v %s %s)", fstr(f), L, got, text, pan, msg, where)
		})
		if fm.letter != 'X' && fm.letter != 'P' {
			// google/uuid parses N, D and B ("{...}") texts: the text must denote the same identifier
			gu, err := guuid.Parse(got)
			l.Check("C13/guid/ToFormat"+L+"/denotes-same-identifier-for-google-uuid", err == nil && [16]byte(gu) == ref.RFCOrder(ref.Encode(f)), func() string {
				return fmt.Sprintf("GUID%s.ToFormat%s() = %q: google/uuid parses it as %x (err %v), want %x", fstr(f), L, got, gu[:], err, ref.RFCOrder(ref.Encode(f)))
			})
		}
		for _, cs := range []struct{ name, in string }{{"lower-case", text}, {"upper-case", ref.UpperHex(text)}, {"upper-case-incl-0X-prefix", strings.ToUpper(text)}} {
			var p *guid.GUID
			var err error
			pan, msg, where = vf.Try(func() { p, err = fm.from(cs.in) })
			okParse := l.Check("C13/guid/FromFormat"+L+"/"+cs.name+"/fields-equal-reference", !pan && err == nil && sameFields(p, f), func() string {
				return fmt.Sprintf("guid.FromFormat%s(%q) = %s err=%v panic=%v %s %s; want %s", L, cs.in, gstr(p), err, pan, msg, where, fstr(f))
			})
			var ps *guid.GUID
			pan, msg, where = vf.Try(func() { ps, err = guid.FromString(cs.in) })
			l.Check("C13/guid/FromString/format-"+L+"/"+cs.name+"/fields-equal-reference", !pan && err == nil && sameFields(ps, f), func() string {
				return fmt.Sprintf("guid.FromString(%q) = %s err=%v panic=%v %s %s; want %s", cs.in, gstr(ps), err, pan, msg, where, fstr(f))
			})
			if p != nil {
				var back string
				pan, msg, where = vf.Try(func() { back = fm.to(p) })
				l.Check("C13/guid/ToFormat"+L+"-of-FromFormat"+L+"/"+cs.name+"/reproduces-input-case-insensitively", !pan && strings.EqualFold(back, cs.in), func() string {
					return fmt.Sprintf("guid.FromFormat%s(%q) then ToFormat%s() = %q (panic=%v %s %s)", L, cs.in, L, back, pan, msg, where)
				})
				if fromD != nil && cs.name == "lower-case" {
					l.Check("C13/guid/cross-format/"+L+"-parses-to-the-same-GUID-as-D", p.Equal(fromD), func() string {
						return fmt.Sprintf("guid.FromFormat%s(%q) = %s but guid.FromFormatD(%q) = %s", L, cs.in, gstr(p), ref.Format(f, 'D'), gstr(fromD))
					})
				}
			}
			if p != nil && okParse {
				// the GUID handed out is the caller's own value: re-using it (overwriting its fields, as FromRawBytes
				// on it does) must not reach what a later parse of the same text returns
				p.A, p.B, p.C, p.D, p.E = ^p.A, ^p.B, ^p.C, ^p.D, p.E^0xFFFFFFFFFFFF
				var again *guid.GUID
				pan, msg, where = vf.Try(func() { again, err = fm.from(cs.in) })
				l.Check("C13/guid/FromFormat"+L+"/"+cs.name+"/parse-after-overwriting-an-earlier-result", !pan && err == nil && again != nil && sameFields(again, f), func() string {
					return fmt.Sprintf("guid.FromFormat%s(%q) parsed, the returned GUID overwritten by the caller, the same text parsed again = %s err=%v panic=%v %s %s; want %s", L, cs.in, gstr(again), err, pan, msg, where, fstr(f))
				})
			}
		}
	}
}

func guidAll(c *vf.Ctx, V [][16]byte) {
	parChunks(c, V, func(l *local, v [16]byte) {
		c.Case([]byte("guid"), v[:])
		f := ref.Decode(v)
		var g guid.GUID
		pan, msg, where := vf.Try(func() { g.FromRawBytes(v[:]) })
		if !l.Check("C13/guid/FromRawBytes/fields-equal-ms-dtyp-layout", !pan && sameFields(&g, f), func() string {
			return fmt.Sprintf("GUID.FromRawBytes(%x) = %s panic=%v %s %s; MS-DTYP 2.3.4.2 layout gives %s", v, gstr(&g), pan, msg, where, fstr(f))
		}) {
			g = guid.GUID{A: f.Data1, B: f.Data2, C: f.Data3, D: ref.D(f), E: ref.E(f)}
		}
		var b []byte
		pan, msg, where = vf.Try(func() { b = g.ToBytes() })
		l.Check("C13/guid/ToBytes-of-FromRawBytes/identity", !pan && bytes.Equal(b, v[:]), func() string {
			return fmt.Sprintf("GUID.FromRawBytes(%x) then ToBytes() = %x (panic=%v %s %s)", v, b, pan, msg, where)
		})
		// raw layout = google/uuid bytes of the D text with the first three groups byte-reversed
		gu, err := guuid.Parse(ref.Format(f, 'D'))
		if err != nil {
			c.Fatalf("google/uuid rejects reference text %q", ref.Format(f, 'D'))
		}
		wantRaw := ref.RFCOrder([16]byte(gu)) // the permutation is an involution
		fromText := guid.GUID{A: f.Data1, B: f.Data2, C: f.Data3, D: ref.D(f), E: ref.E(f)}
		pan, msg, where = vf.Try(func() { b = fromText.ToBytes() })
		l.Check("C13/guid/ToBytes/equals-google-uuid-bytes-with-first-three-groups-reversed", !pan && bytes.Equal(b, wantRaw[:]), func() string {
			return fmt.Sprintf("GUID%s.ToBytes() = %x, want %x (panic=%v %s %s)", fstr(f), b, wantRaw, pan, msg, where)
		})
		// the MS-DTYP alias type
		var mg data_structures.GUID
		var ms string
		pan, msg, where = vf.Try(func() {
			mg.FromRawBytes(v[:])
			b = mg.ToBytes()
			ms = mg.ToFormatD()
		})
		l.Check("C13/ms_dtyp/GUID/raw-layout-and-text-equal-reference", !pan && bytes.Equal(b, v[:]) && ms == ref.Format(f, 'D') && sameFields((*guid.GUID)(&mg), f), func() string {
			return fmt.Sprintf("data_structures.GUID.FromRawBytes(%x): fields %s ToBytes=%x ToFormatD=%q; want %s %q (panic=%v %s %s)", v, gstr((*guid.GUID)(&mg)), b, ms, fstr(f), ref.Format(f, 'D'), pan, msg, where)
		})
		guidText(l, f)
	})
	c.Sample("guid-texts", map[string]any{"raw": hx(V[2][:]), "N": ref.Format(ref.Decode(V[2]), 'N'), "B": ref.Format(ref.Decode(V[2]), 'B'), "X": ref.Format(ref.Decode(V[2]), 'X')})
}

func guidFields(c *vf.Ctx) {
	bgs := []ref.Fields{{}, {Data1: 0xffffffff, Data2: 0xffff, Data3: 0xffff, Data4: [8]byte{0xff, 0xff, 0xff, 0xff, 0xff, 0xff, 0xff, 0xff}}}
	var cases []ref.Fields
	for _, bg := range bgs {
		for _, w := range enum.Words(32) {
			x := bg
			x.Data1 = uint32(w)
			cases = append(cases, x)
		}
		for _, w := range enum.Words(16) {
			x := bg
			x.Data2 = uint16(w)
			cases = append(cases, x)
			x = bg
			x.Data3 = uint16(w)
			cases = append(cases, x)
			x = bg
			x.Data4[0], x.Data4[1] = byte(w>>8), byte(w)
			cases = append(cases, x)
		}
		for _, w := range enum.Words(48) {
			x := bg
			for i := 0; i < 6; i++ {
				x.Data4[2+i] = byte(w >> uint(8*(5-i)))
			}
			cases = append(cases, x)
		}
	}
	parChunks(c, cases, func(l *local, f ref.Fields) {
		raw := ref.Encode(f)
		c.Case([]byte("guid.fields"), raw[:])
		g := guid.GUID{A: f.Data1, B: f.Data2, C: f.Data3, D: ref.D(f), E: ref.E(f)}
		var b []byte
		var back guid.GUID
		pan, msg, where := vf.Try(func() {
			b = g.ToBytes()
			back.FromRawBytes(b)
		})
		l.Check("C13/guid/fields-ToBytes-FromRawBytes/fields-preserved-and-layout-ms-dtyp", !pan && bytes.Equal(b, raw[:]) && back.Equal(&g), func() string {
			return fmt.Sprintf("GUID%s.ToBytes() = %x (MS-DTYP layout %x); FromRawBytes gives %s (panic=%v %s %s)", fstr(f), b, raw, gstr(&back), pan, msg, where)
		})
		guidText(l, f)
	})
	c.Sample("guid-fields", map[string]any{"cases": len(cases), "fields": "A: Words(32); B, C, D: Words(16); E: Words(48); on all-zero and all-ones backgrounds"})
}
