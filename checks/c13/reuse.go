package main

import (
	"bytes"
	"fmt"

	guuid "github.com/google/uuid"

	"github.com/TheManticoreProject/Manticore/crypto/uuid"
	"github.com/TheManticoreProject/Manticore/crypto/uuid/uuid_v1"
	"github.com/TheManticoreProject/Manticore/crypto/uuid/uuid_v2"
	"github.com/TheManticoreProject/Manticore/crypto/uuid/uuid_v8"
	"github.com/TheManticoreProject/Manticore/windows/guid"
	"github.com/TheManticoreProject/Manticore/windows/ms_dtyp/common/data_structures"

	"verif/vf"
)

// reusedReceivers explores two-step call histories on ONE receiver object: parse(prev) then
// parse(x) must leave the object exactly as parse(x) on a fresh object does ("parsing …
// reproduces the input" must not depend on what the object held before).
func reusedReceivers(c *vf.Ctx, V [][16]byte) {
	type parser struct {
		name string
		ver  byte // 0 = any
		// mk returns parse(v) and out() (binary + text rendering of the receiver) for one receiver object
		mk func() (func(v [16]byte) error, func() string)
	}
	txt := func(v [16]byte) string { return guuid.UUID(v).String() }
	ps := []parser{
		{"uuid.UUID.Unmarshal", 0, func() (func([16]byte) error, func() string) {
			var u uuid.UUID
			return func(v [16]byte) error { _, e := u.Unmarshal(v[:]); return e }, func() string { m, _ := u.Marshal(); return fmt.Sprintf("%x %s", m, u.String()) }
		}},
		{"uuid.UUID.FromString", 0, func() (func([16]byte) error, func() string) {
			var u uuid.UUID
			return func(v [16]byte) error { return u.FromString(txt(v)) }, func() string { m, _ := u.Marshal(); return fmt.Sprintf("%x %s", m, u.String()) }
		}},
		{"UUIDv1.Unmarshal", 1, func() (func([16]byte) error, func() string) {
			var u uuid_v1.UUIDv1
			return func(v [16]byte) error { _, e := u.Unmarshal(v[:]); return e }, func() string {
				m, _ := u.Marshal()
				return fmt.Sprintf("%x %s t=%x c=%x n=%x", m, u.String(), u.Time, u.GetClockSequence(), u.GetNodeID())
			}
		}},
		{"UUIDv1.FromString", 1, func() (func([16]byte) error, func() string) {
			var u uuid_v1.UUIDv1
			return func(v [16]byte) error { return u.FromString(txt(v)) }, func() string {
				m, _ := u.Marshal()
				return fmt.Sprintf("%x %s t=%x c=%x n=%x", m, u.String(), u.Time, u.GetClockSequence(), u.GetNodeID())
			}
		}},
		{"UUIDv1.FromBytes", 1, func() (func([16]byte) error, func() string) {
			var u uuid_v1.UUIDv1
			return func(v [16]byte) error { return u.FromBytes(v[:]) }, func() string {
				m, _ := u.Marshal()
				return fmt.Sprintf("%x %s t=%x c=%x n=%x", m, u.String(), u.Time, u.GetClockSequence(), u.GetNodeID())
			}
		}},
		{"UUIDv2.Unmarshal", 2, func() (func([16]byte) error, func() string) {
			var u uuid_v2.UUIDv2
			return func(v [16]byte) error { _, e := u.Unmarshal(v[:]); return e }, func() string {
				m, _ := u.Marshal()
				return fmt.Sprintf("%x %s c=%x d=%x dn=%x n=%x", m, u.String(), u.GetClock(), u.GetLocalDomain(), u.GetLocalDomainNumber(), u.GetNodeID())
			}
		}},
		{"UUIDv2.FromString", 2, func() (func([16]byte) error, func() string) {
			var u uuid_v2.UUIDv2
			return func(v [16]byte) error { return u.FromString(txt(v)) }, func() string {
				m, _ := u.Marshal()
				return fmt.Sprintf("%x %s c=%x d=%x dn=%x n=%x", m, u.String(), u.GetClock(), u.GetLocalDomain(), u.GetLocalDomainNumber(), u.GetNodeID())
			}
		}},
		{"UUIDv2.FromBytes", 2, func() (func([16]byte) error, func() string) {
			var u uuid_v2.UUIDv2
			return func(v [16]byte) error { return u.FromBytes(v[:]) }, func() string {
				m, _ := u.Marshal()
				return fmt.Sprintf("%x %s", m, u.String())
			}
		}},
		{"UUIDv8.Unmarshal", 8, func() (func([16]byte) error, func() string) {
			var u uuid_v8.UUIDv8
			return func(v [16]byte) error { _, e := u.Unmarshal(v[:]); return e }, func() string {
				m, _ := u.Marshal()
				return fmt.Sprintf("%x %s d=%x", m, u.String(), u.GetData())
			}
		}},
		{"UUIDv8.FromString", 8, func() (func([16]byte) error, func() string) {
			var u uuid_v8.UUIDv8
			return func(v [16]byte) error { return u.FromString(txt(v)) }, func() string {
				m, _ := u.Marshal()
				return fmt.Sprintf("%x %s d=%x", m, u.String(), u.GetData())
			}
		}},
		{"UUIDv8.FromBytes", 8, func() (func([16]byte) error, func() string) {
			var u uuid_v8.UUIDv8
			return func(v [16]byte) error { return u.FromBytes(v[:]) }, func() string {
				m, _ := u.Marshal()
				return fmt.Sprintf("%x %s d=%x", m, u.String(), u.GetData())
			}
		}},
		{"guid.GUID.FromRawBytes", 0, func() (func([16]byte) error, func() string) {
			var g guid.GUID
			return func(v [16]byte) error { g.FromRawBytes(v[:]); return nil }, func() string { return fmt.Sprintf("%x %s", g.ToBytes(), g.ToFormatD()) }
		}},
		{"data_structures.GUID.FromRawBytes", 0, func() (func([16]byte) error, func() string) {
			var g data_structures.GUID
			return func(v [16]byte) error { g.FromRawBytes(v[:]); return nil }, func() string { return fmt.Sprintf("%x %s", g.ToBytes(), g.ToFormatD()) }
		}},
	}
	// x ranges over a sub-lattice (zero, ones, pattern, every single bit set/cleared, version/variant grid);
	// prev over three values with complementary bit patterns
	var X [][16]byte
	for i, v := range V {
		if i < 3+256 || i%37 == 0 {
			X = append(X, v)
		}
	}
	var ones, pat [16]byte
	for i := range ones {
		ones[i] = 0xff
		pat[i] = byte(0xa5 ^ i*17)
	}
	prevs := [][16]byte{ones, pat, {}}
	var total int64
	vf.Par(len(ps), func(pi int) {
		p := ps[pi]
		l := &local{c: c, n: map[string]int64{}}
		defer l.flush()
		for _, x0 := range X {
			x := x0
			if p.ver != 0 {
				x = forceVersion(x, p.ver)
			}
			for _, pv0 := range prevs {
				pv := pv0
				if p.ver != 0 {
					pv = forceVersion(pv, p.ver)
				}
				var fresh, reused string
				var e1, e2, e0 error
				pan, msg, where := vf.Try(func() {
					parse, out := p.mk()
					e1 = parse(x)
					fresh = out()
					parse2, out2 := p.mk()
					e0 = parse2(pv)
					e2 = parse2(x)
					reused = out2()
				})
				if e0 != nil || e1 != nil {
					continue // the parser does not accept this value at all: nothing to compare
				}
				l.Check("C13/history/"+p.name+"/second-parse-on-same-object-equals-fresh-parse", !pan && e2 == nil && bytes.Equal([]byte(fresh), []byte(reused)), func() string {
					return fmt.Sprintf("%s(%x) on an object that had parsed %x gives %q (err=%v); on a fresh object %q (panic=%v %s %s)", p.name, x, pv, reused, e2, fresh, pan, msg, where)
				})
			}
		}
		c.Add("reused_receiver_histories", int64(len(X)*len(prevs)))
	})
	_ = total
	c.Sample("reused-receiver-history", map[string]any{"ops": "parse(ff…ff); parse(x) on one object vs parse(x) on a fresh one", "parsers": len(ps), "x_values": len(X)})
}

// trailingBytes: Unmarshal accepts a buffer that is longer than 16 bytes (it reports 16 consumed); what
// it decodes must then be the FIRST 16 bytes, whatever follows them.
func trailingBytes(c *vf.Ctx, V [][16]byte) {
	sfx := [][]byte{{0x00}, {0xFF, 0xFF, 0xFF, 0xFF, 0xFF, 0xFF, 0xFF}, {0x11, 0x22, 0x33, 0x44, 0x55, 0x66, 0x77, 0x88, 0x99, 0xAA, 0xBB, 0xCC, 0xDD, 0xEE, 0xF0, 0x0F}}
	type un struct {
		name string
		ver  byte
		f    func(b []byte) (int, error, []byte)
	}
	us := []un{
		{"uuid.UUID", 0, func(b []byte) (int, error, []byte) {
			var u uuid.UUID
			n, e := u.Unmarshal(b)
			m, _ := u.Marshal()
			return n, e, m
		}},
		{"UUIDv1", 1, func(b []byte) (int, error, []byte) {
			var u uuid_v1.UUIDv1
			n, e := u.Unmarshal(b)
			m, _ := u.Marshal()
			return n, e, m
		}},
		{"UUIDv2", 2, func(b []byte) (int, error, []byte) {
			var u uuid_v2.UUIDv2
			n, e := u.Unmarshal(b)
			m, _ := u.Marshal()
			return n, e, m
		}},
		{"UUIDv8", 8, func(b []byte) (int, error, []byte) {
			var u uuid_v8.UUIDv8
			n, e := u.Unmarshal(b)
			m, _ := u.Marshal()
			return n, e, m
		}},
	}
	l := &local{c: c, n: map[string]int64{}}
	defer l.flush()
	for i, v0 := range V {
		if i > 300 && i%29 != 0 {
			continue
		}
		for _, u := range us {
			v := v0
			if u.ver != 0 {
				v = forceVersion(v, u.ver)
			}
			for _, sx := range sfx {
				in := append(append([]byte{}, v[:]...), sx...)
				var n int
				var err error
				var m []byte
				pan, msg, where := vf.Try(func() { n, err, m = u.f(in) })
				// a decoder may refuse over-long input; if it accepts, it must have read the first 16 bytes
				l.Check("C13/trailing-bytes/"+u.name+".Unmarshal/accepted-input-decodes-its-first-16-bytes", !pan && (err != nil || (n == 16 && bytes.Equal(m, v[:]))), func() string {
					return fmt.Sprintf("%s.Unmarshal(%x || %x) = (%d,%v), Marshal gives %x (panic=%v %s %s)", u.name, v, sx, n, err, m, pan, msg, where)
				})
			}
		}
	}
}

// refusedSetters: a field assignment that REPORTS AN ERROR is not an assignment — after
// [SetNodeID(valid A); SetNodeID(slice of a wrong length) -> error] formatting then parsing must still
// return A (binary and text), for every wrong length 0..5, 7, 8, 16 and two nodes A. An over-long
// slice that is accepted without error is outside "assignments within the field widths": not judged.
func refusedSetters(c *vf.Ctx) {
	type obj struct {
		name string
		mk   func() (set func([]byte) error, node func() []byte, viaBinary func() ([]byte, error), viaText func() ([]byte, error))
	}
	objs := []obj{
		{"uuid_v1.UUIDv1", func() (func([]byte) error, func() []byte, func() ([]byte, error), func() ([]byte, error)) {
			u := &uuid_v1.UUIDv1{}
			return u.SetNodeID, u.GetNodeID, func() ([]byte, error) {
					m, err := u.Marshal()
					if err != nil {
						return nil, err
					}
					var p uuid_v1.UUIDv1
					if _, err := p.Unmarshal(m); err != nil {
						return nil, err
					}
					return p.GetNodeID(), nil
				}, func() ([]byte, error) {
					var p uuid_v1.UUIDv1
					if err := p.FromString(u.String()); err != nil {
						return nil, err
					}
					return p.GetNodeID(), nil
				}
		}},
		{"uuid_v2.UUIDv2", func() (func([]byte) error, func() []byte, func() ([]byte, error), func() ([]byte, error)) {
			u := &uuid_v2.UUIDv2{}
			return u.SetNodeID, u.GetNodeID, func() ([]byte, error) {
					m, err := u.Marshal()
					if err != nil {
						return nil, err
					}
					var p uuid_v2.UUIDv2
					if _, err := p.Unmarshal(m); err != nil {
						return nil, err
					}
					return p.GetNodeID(), nil
				}, func() ([]byte, error) {
					var p uuid_v2.UUIDv2
					if err := p.FromString(u.String()); err != nil {
						return nil, err
					}
					return p.GetNodeID(), nil
				}
		}},
	}
	nodes := [][]byte{{0x01, 0x02, 0x03, 0x04, 0x05, 0x06}, {0xff, 0xff, 0xff, 0xff, 0xff, 0xff}}
	for _, o := range objs {
		for _, A := range nodes {
			for _, n := range []int{0, 1, 2, 3, 4, 5, 7, 8, 16} {
				bad := bytes.Repeat([]byte{0xEE}, n)
				c.Case([]byte("refused-setter"), []byte(o.name), A, []byte{byte(n)})
				set, node, viaB, viaT := o.mk()
				var e1, e2, eb, et error
				var nb, nt, direct []byte
				pan, msg, where := vf.Try(func() {
					e1 = set(A)
					e2 = set(bad)
					direct = append([]byte(nil), node()...)
					nb, eb = viaB()
					nt, et = viaT()
				})
				key := "C13/" + o.name + "/SetNodeID/refused-assignment-leaves-the-node-as-assigned"
				if pan {
					c.Check(key, false, func() string {
						return fmt.Sprintf("%s: SetNodeID(%x); SetNodeID(%d bytes) panicked: %s at %s", o.name, A, n, msg, where)
					})
					continue
				}
				if e1 != nil {
					c.Check("C13/"+o.name+"/SetNodeID/accepts-six-bytes", false, func() string { return fmt.Sprintf("%s.SetNodeID(%x) = %v", o.name, A, e1) })
					continue
				}
				if e2 == nil {
					continue // accepted: not an assignment within the field widths, the property is silent
				}
				ok := bytes.Equal(direct, A) && eb == nil && et == nil && bytes.Equal(nb, A) && bytes.Equal(nt, A)
				c.Check(key, ok, func() string {
					return fmt.Sprintf("%s: SetNodeID(%x) = nil; SetNodeID(%x) = %q; now GetNodeID = %x, Marshal->Unmarshal node = %x (%v), String->FromString node = %x (%v); the node assigned was %x", o.name, A, bad, e2, direct, nb, eb, nt, et, A)
				})
			}
		}
	}
}
