// C12 — RC4, CMAC, PKCS#7 and GPP-AES match their standards and invert each other.
// E2: explicit-state BFS to fix-point over the real rc4.RC4 object (every chunk length, in
//
//	place / separate dst, Reset) and over the real CMAC hash.Hash (Write(k), Sum(nil),
//	Sum(prefix), Reset) for AES-128/192/256, DES and 3DES.
//
// E4: exhaustive PKCS#7 pad/unpad grid and rejection alphabet, GPP password lattice.
package main

import (
	"bytes"
	"crypto/aes"
	"crypto/cipher"
	"crypto/des"
	stdrc4 "crypto/rc4"
	"encoding/base64"
	"fmt"
	"hash"
	"reflect"
	"strings"
	"sync"
	"sync/atomic"
	"unsafe"

	"github.com/TheManticoreProject/Manticore/crypto/cmac"
	"github.com/TheManticoreProject/Manticore/crypto/gppp"
	"github.com/TheManticoreProject/Manticore/crypto/pkcs7"
	"github.com/TheManticoreProject/Manticore/crypto/rc4"

	"verif/enum"
	"verif/mc/bfs"
	ref "verif/ref/refcmac"
	"verif/vf"
)

func main() { vf.Main("C12", "model_checking", run) }

var (
	totStates, totTrans int64
)

// local counts passing evaluations without touching the Ctx mutex (tens of millions of
// evaluations from 16 goroutines); failures go to the Ctx immediately, passes are flushed
// once per job. One instance per goroutine.
type local struct {
	c *vf.Ctx
	n map[string]int64
}

func newLocal(c *vf.Ctx) *local { return &local{c, map[string]int64{}} }
func (l *local) Check(key string, ok bool, w func() string) bool {
	if ok {
		l.n[key]++
		return true
	}
	return l.c.Check(key, false, w)
}
func (l *local) flush() {
	for k, n := range l.n {
		l.c.Pass(k, n)
	}
	l.n = map[string]int64{}
}

func run(c *vf.Ctx) {
	if err := ref.SelfTest(); err != nil {
		c.Fatalf("%v", err)
	}
	c.Rule("RC4: per key a BFS to fix-point over states (position in a fixed 600-byte plaintext, dump of the real RC4 struct) with transitions XORKeyStream(chunk k) for every k in 0..L-pos in place and into a separate dst, and Reset; " +
		"keys = every length 1..256 (patterned), all 256 one-byte keys, the 14 RFC 6229 keys (quick: full chunk alphabet on 26 keys, 14-length alphabet on the rest; thorough: full on all). " +
		"CMAC: per cipher (AES-128/192/256, DES, 3DES) and key (one per sub-key branch combination msb(L) x msb(K1)) a BFS to fix-point over states (bytes written since Reset, reflect/unsafe dump of the cmac struct incl. scratch digest) with transitions Write(k), k in 0..3B, Sum(nil), Sum(prefix), Reset, message <= 4B+1. " +
		"PKCS#7: full grid block 1..255 x length 0..N x 2 contents; all buffers <= n over a small alphabet and all single-byte deviations of long padded buffers against an own validity predicate. " +
		"GPP: all passwords <= 3 (thorough 4) runes over a 13-rune alphabet incl. non-BMP, and lengths 0..40. distinct = distinct (function, input) pairs / BFS states reaching the comparison")
	c.Assume("stdlib crypto/rc4 (cross-checked against an own RC4 and RFC 6229), crypto/aes, crypto/des, encoding/base64, unicode/utf16 are correct; the CMAC reference is two structurally different implementations self-tested on RFC 4493 §4 and SP 800-38B App. D vectors")
	rc4All(c)
	cmacAll(c)
	pkcs7Grid(c)
	pkcs7Reject(c)
	gppAll(c)
	histories(c)
	c.Set("states", atomic.LoadInt64(&totStates))
	c.Set("transitions", atomic.LoadInt64(&totTrans))
	c.Set("traces_validated_against_impl", atomic.LoadInt64(&totTrans))
	c.Evals(atomic.LoadInt64(&totTrans))
}

// ================================================================ RC4

const rcL = 600

type rcKey struct {
	name string
	key  []byte
	full bool
}

// rc4Layout reports whether the first 258 bytes of rc4.RC4 are s[256], i, j (so the state
// can be dumped by a raw copy); otherwise the slower fmt dump is used.
func rc4Layout() bool {
	t := reflect.TypeOf(rc4.RC4{})
	if t.NumField() < 3 {
		return false
	}
	f0, f1, f2 := t.Field(0), t.Field(1), t.Field(2)
	return f0.Offset == 0 && f0.Type.Size() == 256 && f1.Offset == 256 && f1.Type.Size() == 1 && f2.Offset == 257 && f2.Type.Size() == 1
}

func rc4Dump(r *rc4.RC4, raw bool) string {
	if raw {
		b := (*[258]byte)(unsafe.Pointer(r))
		return string(b[:]) + fmt.Sprintf("|%d", len(r.Key))
	}
	return fmt.Sprintf("%v", *r)
}

func rc4All(c *vf.Ctx) {
	raw := rc4Layout()
	c.Set("rc4_state_dump", map[bool]string{true: "raw copy of s[256],i,j + len(Key)", false: "fmt %v of the struct"}[raw])
	P := make([]byte, rcL)
	for i := range P {
		P[i] = byte(i*7 + i/256 + 1)
	}
	var keys []rcKey
	fullLens := map[int]bool{1: true, 2: true, 3: true, 16: true, 17: true, 128: true, 255: true, 256: true}
	for n := 1; n <= 256; n++ {
		k := make([]byte, n)
		for i := range k {
			k[i] = byte(0xA7 + 13*i + n)
		}
		keys = append(keys, rcKey{fmt.Sprintf("len%d", n), k, c.Thorough() || fullLens[n]})
	}
	for v := 0; v < 256; v++ {
		keys = append(keys, rcKey{fmt.Sprintf("byte%02x", v), []byte{byte(v)}, c.Thorough() || v == 0 || v == 0xff})
	}
	for i, k := range ref.RFC6229Keys() {
		keys = append(keys, rcKey{fmt.Sprintf("rfc6229-%d", i), k, true})
	}
	// a key with all bytes equal but longer than one byte, and the all-zero / all-ff 256-byte keys
	keys = append(keys, rcKey{"zeros256", enum.Fill(256, 0), true}, rcKey{"ff256", enum.Fill(256, 0xff), c.Thorough()}, rcKey{"counter256", enum.Counter(256, 0), true})

	reduced := []int{0, 1, 2, 3, 15, 16, 17, 255, 256, 257, 511, 512, 513}

	var resetCanon atomic.Value // canonical dump after Reset (must not depend on key or position)
	var fullN, redN int64
	var sampleMu sync.Mutex
	vf.Par(len(keys), func(ki int) {
		if c.DeadlineExceeded() {
			return
		}
		K := keys[ki]
		lc := newLocal(c)
		defer lc.flush()
		// oracle keystream: stdlib, cross-checked with the own generator
		ks := make([]byte, rcL)
		sc, err := stdrc4.NewCipher(K.key)
		if err != nil {
			c.Fatalf("stdlib rc4 rejects key of %d bytes: %v", len(K.key), err)
		}
		sc.XORKeyStream(ks, ks)
		if !bytes.Equal(ks, ref.RC4Keystream(K.key, rcL)) {
			c.Fatalf("oracle disagreement: stdlib crypto/rc4 and own RC4 differ for key %x", K.key)
		}
		want := make([]byte, rcL)
		for i := range want {
			want[i] = P[i] ^ ks[i]
		}
		var chunks []int
		if K.full {
			for k := 0; k <= rcL; k++ {
				chunks = append(chunks, k)
			}
			atomic.AddInt64(&fullN, 1)
		} else {
			chunks = reduced
			atomic.AddInt64(&redN, 1)
		}
		nc := len(chunks)
		// ops: [0,nc) in place; [nc,2nc) separate dst; 2nc: in-place to the end; 2nc+1: separate to the end; 2nc+2: Reset
		nops := 2*nc + 3
		opChunk := func(pos, op int) (k int, separate bool, reset bool, ok bool) {
			if pos < 0 {
				return 0, false, false, false // reset state is terminal
			}
			switch {
			case op < nc:
				k = chunks[op]
			case op < 2*nc:
				k, separate = chunks[op-nc], true
			case op == 2*nc:
				k = rcL - pos
			case op == 2*nc+1:
				k, separate = rcL-pos, true
			default:
				return 0, false, true, true
			}
			if pos+k > rcL {
				return 0, false, false, false
			}
			return k, separate, false, true
		}
		opName := func(pos, op int) string {
			k, sep, rst, _ := opChunk(pos, op)
			if rst {
				return "Reset"
			}
			if sep {
				return fmt.Sprintf("XORKeyStream(dst,src[%d])", k)
			}
			return fmt.Sprintf("XORKeyStream(buf[%d],same)", k)
		}
		pathPos := func(path []int) int {
			pos := 0
			for _, op := range path {
				k, _, rst, _ := opChunk(pos, op)
				if rst {
					return -1
				}
				pos += k
			}
			return pos
		}
		describe := func(path []int, op int) string {
			var ops []string
			pos := 0
			for _, o := range append(append([]int{}, path...), op) {
				ops = append(ops, opName(pos, o))
				k, _, rst, _ := opChunk(pos, o)
				if rst {
					pos = -1
					break
				}
				pos += k
			}
			return fmt.Sprintf("key=%s (%d bytes) plaintext P[i]=byte(7i+i/256+1), L=%d, ops=%s", vf.HexS(K.key), len(K.key), rcL, strings.Join(ops, ","))
		}
		newCipher := func() *rc4.RC4 {
			r, err := rc4.NewRC4WithKey(append([]byte{}, K.key...))
			if err != nil || r == nil {
				return nil
			}
			return r
		}
		if r := newCipher(); !c.Check("C12/rc4/NewRC4WithKey/accepts-key-sizes-1..256", r != nil, func() string {
			return fmt.Sprintf("NewRC4WithKey(%d-byte key %s) failed", len(K.key), vf.HexS(K.key))
		}) {
			return
		}
		scratch := sync.Pool{New: func() any { b := make([]byte, rcL); return &b }}
		var failed int32 // set on the first wrong output: the search for this key stops at the next level
		s := &bfs.Search{
			NOps:    nops,
			InitKey: "0|" + rc4Dump(newCipher(), raw),
			Workers: 1,
			// a correct cipher has exactly L+2 states per key (L+1 positions + the reset state); the cap only
			// bounds memory when a defect makes the internal state depend on the chunking
			MaxStates: 4 * (rcL + 2),
			Stop:      func() bool { return atomic.LoadInt32(&failed) != 0 || c.DeadlineExceeded() },
			Step: func(path []int, op int) (string, bool) {
				pos := pathPos(path)
				k, sep, rst, ok := opChunk(pos, op)
				if !ok {
					return "", false
				}
				r := newCipher()
				bp := scratch.Get().(*[]byte)
				defer scratch.Put(bp)
				buf := *bp
				// replay
				p := 0
				for _, o := range path {
					kk, _, _, _ := opChunk(p, o)
					copy(buf[:kk], P[p:p+kk])
					r.XORKeyStream(buf[:kk], buf[:kk])
					p += kk
				}
				if rst {
					pan, msg, where := vf.Try(func() { r.Reset() })
					lc.Check("C12/rc4/Reset/no-panic", !pan, func() string { return describe(path, op) + ": panic " + msg + " at " + where })
					// Reset then use: no key-dependent material may remain, the object stays usable
					out := make([]byte, 32)
					cp := *r
					pan, msg, where = vf.Try(func() { cp.XORKeyStream(out, out) })
					lc.Check("C12/rc4/Reset/usable-afterwards", !pan, func() string {
						return describe(path, op) + ": XORKeyStream after Reset panics: " + msg + " at " + where
					})
					d := "R|" + rc4Dump(r, raw) + "|" + string(out)
					prev := resetCanon.Load()
					if prev == nil {
						resetCanon.CompareAndSwap(nil, d)
						prev = resetCanon.Load()
					}
					lc.Check("C12/rc4/Reset/state-independent-of-key-and-history", prev.(string) == d, func() string {
						return describe(path, op) + fmt.Sprintf(": the object after Reset (struct dump + 32 key-stream bytes %x) differs from the object after Reset under another key/position: key-dependent state survives Reset", out)
					})
					return d, true
				}
				var got []byte
				var src, srcCopy []byte
				pan, msg, where := vf.Try(func() {
					if sep {
						src = append([]byte{}, P[pos:pos+k]...)
						srcCopy = append([]byte{}, src...)
						dst := bytes.Repeat([]byte{0xEE}, k+k%3)
						r.XORKeyStream(dst, src)
						got = dst[:k]
					} else {
						b := append([]byte{}, P[pos:pos+k]...)
						r.XORKeyStream(b, b)
						got = b
					}
				})
				kNoPanic, kEq := "C12/rc4/XORKeyStream/in-place/no-panic", "C12/rc4/XORKeyStream/in-place/equals-standard-rc4"
				if sep {
					kNoPanic, kEq = "C12/rc4/XORKeyStream/separate-dst/no-panic", "C12/rc4/XORKeyStream/separate-dst/equals-standard-rc4"
				}
				if !lc.Check(kNoPanic, !pan, func() string { return describe(path, op) + ": panic " + msg + " at " + where }) {
					return "", false
				}
				if !bytes.Equal(got, want[pos:pos+k]) {
					atomic.StoreInt32(&failed, 1)
				}
				lc.Check(kEq, bytes.Equal(got, want[pos:pos+k]), func() string {
					i := 0
					for i < k && got[i] == want[pos+i] {
						i++
					}
					return describe(path, op) + fmt.Sprintf(": output for stream offsets %d..%d differs from standard RC4 first at offset %d: got %02x want %02x", pos, pos+k, pos+i, got[i], want[pos+i])
				})
				if sep {
					lc.Check("C12/rc4/XORKeyStream/separate-dst/src-unchanged", bytes.Equal(src, srcCopy), func() string { return describe(path, op) + ": src was modified" })
				}
				return fmt.Sprintf("%d|", pos+k) + rc4Dump(r, raw), true
			},
		}
		res := s.Run()
		atomic.AddInt64(&totStates, int64(res.States))
		atomic.AddInt64(&totTrans, int64(res.Transitions))
		if res.CapHit {
			c.Cap("rc4 BFS stopped early (deadline or state cap: internal state depends on the chunking)")
		}
		for i := 0; i < res.States; i++ {
			c.Distinct([]byte("rc4"), []byte(K.name), []byte{byte(i), byte(i >> 8)})
		}
		if ki%97 == 0 || K.name == "rfc6229-0" {
			sampleMu.Lock()
			c.Sample("rc4-bfs", map[string]any{"key": vf.HexS(K.key), "full_chunk_alphabet": K.full, "states": res.States, "transitions": res.Transitions, "depth": res.Depth, "fixpoint": res.FixPoint})
			sampleMu.Unlock()
		}
		if K.name == "rfc6229-0" {
			c.Set("rc4_bfs_rfc6229_40bit", map[string]any{"L": rcL, "states": res.States, "transitions": res.Transitions, "depth": res.Depth, "fixpoint": res.FixPoint})
		}
	})
	c.Set("rc4_keys_full_alphabet", fullN)
	c.Set("rc4_keys_reduced_alphabet", redN)

	// key sizes outside 1..256 are rejected (documented contract: KeySizeError)
	for _, n := range []int{0, 257, 258, 512, 1024} {
		var r *rc4.RC4
		var err error
		pan, msg, where := vf.Try(func() { r, err = rc4.NewRC4WithKey(make([]byte, n)) })
		c.Case([]byte("rc4.keysize"), []byte{byte(n), byte(n >> 8)})
		c.Check(fmt.Sprintf("C12/rc4/NewRC4WithKey/rejects-key-size-%d", n), !pan && err != nil && r == nil, func() string {
			return fmt.Sprintf("NewRC4WithKey(%d zero bytes): panicked=%v %s %s, cipher=%v err=%v; want nil cipher and an error", n, pan, msg, where, r != nil, err)
		})
	}
	// the key is the caller's: whatever the cipher does with ITS copy (Reset wipes it), the slice handed to
	// NewRC4WithKey reads the same afterwards, and a second cipher made from it is RC4 under that key
	for _, key := range [][]byte{{1, 2, 3, 4, 5}, bytes.Repeat([]byte{0xA7}, 16), {0x80}} {
		mine := append([]byte{}, key...)
		var second []byte
		pan, msg, where := vf.Try(func() {
			r1, _ := rc4.NewRC4WithKey(mine)
			b := make([]byte, 8)
			r1.XORKeyStream(b, b)
			r1.Reset()
			r2, err := rc4.NewRC4WithKey(mine)
			if err == nil && r2 != nil {
				second = make([]byte, 16)
				r2.XORKeyStream(second, second)
			}
		})
		c.Case([]byte("rc4.key-is-callers"), key)
		c.Check("C12/rc4/Reset/leaves-the-callers-key-slice-alone", !pan && bytes.Equal(mine, key), func() string {
			return fmt.Sprintf("key %s given to NewRC4WithKey; after XORKeyStream and Reset the caller's slice reads %s (panic=%v %s %s)", vf.HexS(key), vf.HexS(mine), pan, msg, where)
		})
		c.Check("C12/rc4/NewRC4WithKey/second-cipher-from-the-same-key-slice-after-Reset-is-standard-rc4", !pan && bytes.Equal(second, ref.RC4Keystream(key, 16)), func() string {
			return fmt.Sprintf("key %s: cipher 1 created, used, Reset; cipher 2 created from the same slice: keystream %s, standard RC4 %s", vf.HexS(key), vf.HexS(second), vf.HexS(ref.RC4Keystream(key, 16)))
		})
	}
	// disjoint but adjacent src/dst inside one backing array must be accepted and correct ("every way of splitting")
	adjKey := []byte{1, 2, 3, 4, 5}
	aks := ref.RC4Keystream(adjKey, rcL)
	for k := 1; k <= rcL/2; k++ {
		for _, order := range []string{"dst-after-src", "dst-before-src", "dst-after-src-spare-capacity-of-src-runs-over-dst", "dst-before-src-spare-capacity-of-dst-runs-over-src"} {
			r, _ := rc4.NewRC4WithKey(adjKey)
			if r == nil {
				break
			}
			buf := make([]byte, 2*k)
			var src, dst []byte
			switch order {
			case "dst-after-src":
				src, dst = buf[:k:k], buf[k:]
			case "dst-before-src":
				dst, src = buf[:k:k], buf[k:]
			case "dst-after-src-spare-capacity-of-src-runs-over-dst":
				src, dst = buf[:k], buf[k:] // the ordinary way of cutting one buffer in two: len decides, not cap
			default:
				dst, src = buf[:k], buf[k:]
			}
			copy(src, P[:k])
			pan, msg, where := vf.Try(func() { r.XORKeyStream(dst, src) })
			ok := !pan
			if ok {
				for i := 0; i < k; i++ {
					if dst[i] != P[i]^aks[i] {
						ok = false
					}
				}
			}
			c.Case([]byte("rc4.adjacent"), []byte(order), []byte{byte(k), byte(k >> 8)})
			c.Check("C12/rc4/XORKeyStream/adjacent-disjoint-buffers/"+order, ok, func() string {
				return fmt.Sprintf("key 0102030405, %d-byte src and dst adjacent in one array (%s): panicked=%v %s %s or wrong output", k, order, pan, msg, where)
			})
		}
	}
}

// ================================================================ CMAC

type cmCipher struct {
	name   string
	keyLen int
	mk     func(key []byte) (cipher.Block, error)
}

// dumpStruct dumps every []byte / integer field of the struct behind h by reflect+unsafe.
// Interface and pointer fields (the cipher, constant during one search) are skipped by name.
func dumpStruct(h any) (dump string, fields []string, ok bool) {
	v := reflect.ValueOf(h)
	if v.Kind() != reflect.Ptr || v.Elem().Kind() != reflect.Struct {
		return "", nil, false
	}
	e := v.Elem()
	var sb strings.Builder
	for i := 0; i < e.NumField(); i++ {
		f := e.Field(i)
		name := e.Type().Field(i).Name
		f = reflect.NewAt(f.Type(), unsafe.Pointer(f.UnsafeAddr())).Elem()
		switch {
		case f.Kind() == reflect.Slice && f.Type().Elem().Kind() == reflect.Uint8:
			fmt.Fprintf(&sb, "%s=%x;", name, f.Bytes())
			fields = append(fields, name)
		case f.Kind() == reflect.Array && f.Type().Elem().Kind() == reflect.Uint8:
			b := make([]byte, f.Len())
			reflect.Copy(reflect.ValueOf(b), f)
			fmt.Fprintf(&sb, "%s=%x;", name, b)
			fields = append(fields, name)
		case f.CanInt():
			fmt.Fprintf(&sb, "%s=%d;", name, f.Int())
			fields = append(fields, name)
		case f.CanUint():
			fmt.Fprintf(&sb, "%s=%d;", name, f.Uint())
			fields = append(fields, name)
		case f.Kind() == reflect.Bool:
			fmt.Fprintf(&sb, "%s=%v;", name, f.Bool())
			fields = append(fields, name)
		case f.Kind() == reflect.Interface || f.Kind() == reflect.Ptr || f.Kind() == reflect.Func:
			fields = append(fields, "("+name+" skipped)")
		default:
			return "", nil, false // a field this dumper does not understand: fall back to the observable key
		}
	}
	return sb.String(), fields, len(fields) > 0
}

func msb(b []byte) int { return int(b[0] >> 7) }

func cmacAll(c *vf.Ctx) {
	ciphers := []cmCipher{
		{"aes128", 16, aes.NewCipher},
		{"aes192", 24, aes.NewCipher},
		{"aes256", 32, aes.NewCipher},
		{"des", 8, des.NewCipher},
		{"3des", 24, des.NewTripleDESCipher},
	}
	type job struct {
		ci      cmCipher
		key     []byte
		branch  string
		content string
	}
	var jobs []job
	for _, ci := range ciphers {
		// first key (patterned, deterministic search) for each sub-key branch combination
		found := map[string]bool{}
		for s := 0; s < 4096 && len(found) < 4; s++ {
			key := make([]byte, ci.keyLen)
			for i := range key {
				key[i] = byte(s*31 + i*(2*(s%7)+1) + s>>8)
			}
			if ci.name == "3des" {
				// make the three DES keys distinct
				for i := 8; i < 24; i++ {
					key[i] ^= byte(0x5a * (i / 8))
				}
			}
			blk, err := ci.mk(key)
			if err != nil {
				continue
			}
			l := make([]byte, blk.BlockSize())
			blk.Encrypt(l, l)
			k1, _ := ref.SubkeysA(blk)
			br := fmt.Sprintf("msbL=%d,msbK1=%d", msb(l), msb(k1))
			if found[br] {
				continue
			}
			found[br] = true
			jobs = append(jobs, job{ci, key, br, "counter"})
			if c.Thorough() {
				jobs = append(jobs, job{ci, key, br, "ff"})
			}
		}
		if len(found) < 4 {
			c.Fatalf("cmac: could not find keys for all four sub-key branches of %s", ci.name)
		}
	}
	if ci := ciphers[0]; true {
		// the RFC 4493 key itself
		jobs = append(jobs, job{ci, []byte{0x2b, 0x7e, 0x15, 0x16, 0x28, 0xae, 0xd2, 0xa6, 0xab, 0xf7, 0x15, 0x88, 0x09, 0xcf, 0x4f, 0x3c}, "rfc4493-key", "counter"})
	}
	var dumpKinds sync.Map
	var sampleMu sync.Mutex
	vf.Par(len(jobs), func(ji int) {
		if c.DeadlineExceeded() {
			return
		}
		J := jobs[ji]
		lc := newLocal(c)
		defer lc.flush()
		blk, _ := J.ci.mk(J.key)
		B := blk.BlockSize()
		L := 4*B + 1
		var M []byte
		if J.content == "ff" {
			M = enum.Fill(L, 0xff)
		} else {
			M = enum.Counter(L, 1)
		}
		refAt := make([][]byte, L+1)
		for i := 0; i <= L; i++ {
			refAt[i] = ref.Sum(blk, M[:i])
		}
		pfx := "C12/cmac/" + J.ci.name + "/"
		var h0 hash.Hash
		pan, msg, where := vf.Try(func() { h0 = cmac.New(blk) })
		if !c.Check(pfx+"New/no-panic", !pan && h0 != nil, func() string {
			return fmt.Sprintf("cmac.New(%s key %x) panicked: %s at %s", J.ci.name, J.key, msg, where)
		}) {
			return
		}
		c.Check(pfx+"Size-equals-cipher-block-size", h0.Size() == B, func() string {
			return fmt.Sprintf("cmac.New(%s).Size() = %d, cipher block size (= MAC length, SP 800-38B) is %d", J.ci.name, h0.Size(), B)
		})
		c.Check(pfx+"BlockSize-equals-cipher-block-size", h0.BlockSize() == B, func() string {
			return fmt.Sprintf("cmac.New(%s).BlockSize() = %d, the block size b of SP 800-38B for this cipher is %d", J.ci.name, h0.BlockSize(), B)
		})
		_, fields, dumpOK := dumpStruct(h0)
		dumpKinds.Store(J.ci.name, map[string]any{"struct_dump": dumpOK, "fields": fields})

		maxW := 3 * B
		opWrite := func(op int) (int, bool) { return op, op <= maxW }
		const (
			oSum = iota
			oSumPrefix
			oReset
		)
		nops := maxW + 1 + 3
		kindOf := func(op int) string {
			if op <= maxW {
				return "Write"
			}
			return [...]string{"Sum", "Sum-prefix", "Reset"}[op-maxW-1]
		}
		opName := func(op int) string {
			if op <= maxW {
				return fmt.Sprintf("Write(%d)", op)
			}
			return [...]string{"Sum(nil)", "Sum(prefix)", "Reset"}[op-maxW-1]
		}
		nextPos := func(pos, op int) (int, bool) {
			if k, w := opWrite(op); w {
				if pos+k > L {
					return pos, false
				}
				return pos + k, true
			}
			if op-maxW-1 == oReset {
				return 0, true
			}
			return pos, true
		}
		describe := func(path []int, op int) string {
			var ops []string
			for _, o := range path {
				ops = append(ops, opName(o))
			}
			if op >= 0 {
				ops = append(ops, opName(op))
			}
			return fmt.Sprintf("cmac.New(%s key=%x) message bytes %s (M[i]=%#x..), ops=%s", J.ci.name, J.key, J.content, M[0], strings.Join(ops, ","))
		}
		// applyQuiet replays one operation without checking.
		applyQuiet := func(h hash.Hash, pos, op int) int {
			if k, w := opWrite(op); w {
				h.Write(M[pos : pos+k])
				return pos + k
			}
			switch op - maxW - 1 {
			case oSum:
				h.Sum(nil)
			case oSumPrefix:
				h.Sum(append(make([]byte, 0, 64), 0xAA, 0xBB, 0xCC))
			case oReset:
				h.Reset()
				return 0
			}
			return pos
		}
		build := func(path []int, op int) (hash.Hash, int) {
			h := cmac.New(blk)
			pos := 0
			for _, o := range path {
				pos = applyQuiet(h, pos, o)
			}
			if op >= 0 {
				pos = applyQuiet(h, pos, op)
			}
			return h, pos
		}
		initDump, _, _ := dumpStruct(h0)
		s := &bfs.Search{
			NOps:      nops,
			InitKey:   "0|" + initDump,
			Workers:   1,
			MaxStates: 200000,
			Stop:      c.DeadlineExceeded,
			Step: func(path []int, op int) (string, bool) {
				pos := 0
				for _, o := range path {
					pos, _ = nextPos(pos, o)
				}
				np, ok := nextPos(pos, op)
				if !ok {
					return "", false
				}
				var h hash.Hash
				pan, msg, where := vf.Try(func() {
					h, _ = build(path, -1)
					if k, w := opWrite(op); w {
						n, err := h.Write(M[pos : pos+k])
						lc.Check(pfx+"Write/returns-len-nil", n == k && err == nil, func() string {
							return describe(path, op) + fmt.Sprintf(": Write returned (%d,%v)", n, err)
						})
						return
					}
					switch op - maxW - 1 {
					case oSum:
						d := h.Sum(nil)
						lc.Check(pfx+"Sum/equals-sp800-38b", bytes.Equal(d, refAt[pos]), func() string {
							return describe(path, op) + fmt.Sprintf(": Sum(nil) after %d bytes = %x, reference CMAC = %x", pos, d, refAt[pos])
						})
					case oSumPrefix:
						backing := append(make([]byte, 0, 64), 0xAA, 0xBB, 0xCC)
						d := h.Sum(backing)
						lc.Check(pfx+"Sum-prefix/appends-mac-to-prefix", len(d) == 3+B && bytes.Equal(d[:3], []byte{0xAA, 0xBB, 0xCC}) && bytes.Equal(d[3:], refAt[pos]), func() string {
							return describe(path, op) + fmt.Sprintf(": Sum(aabbcc) after %d bytes = %x, want aabbcc||%x", pos, d, refAt[pos])
						})
					case oReset:
						h.Reset()
					}
				})
				if !lc.Check(pfx+kindOf(op)+"/no-panic", !pan, func() string { return describe(path, op) + ": panic " + msg + " at " + where }) {
					return "", false
				}
				// state invariant, probed on a replay-built clone so that the explored object is not disturbed
				var d1, d1copy, d2 []byte
				pan, msg, where = vf.Try(func() {
					h2, _ := build(path, op)
					d1 = h2.Sum(nil)
					d1copy = append([]byte{}, d1...)
					h2.Write([]byte{0x55})
					d2 = h2.Sum(nil)
				})
				lc.Check(pfx+"state-intact-after-"+kindOf(op), !pan && bytes.Equal(d1copy, refAt[np]), func() string {
					return describe(path, op) + fmt.Sprintf(": a MAC read from an identically built object now gives %x, reference for the %d bytes written since the last Reset is %x (panic=%v %s %s)", d1copy, np, refAt[np], pan, msg, where)
				})
				if !pan {
					lc.Check(pfx+"Sum/result-not-aliased-to-internal-state", bytes.Equal(d1, d1copy), func() string {
						return describe(path, op) + fmt.Sprintf(": the slice returned by Sum(nil) changed from %x to %x after a later Write+Sum (next MAC %x)", d1copy, d1, d2)
					})
				}
				var key string
				if dumpOK {
					dmp, _, _ := dumpStruct(h)
					key = fmt.Sprintf("%d|", np) + dmp
				} else {
					key = fmt.Sprintf("%d|obs:%x", np, d1copy)
				}
				return key, true
			},
		}
		res := s.Run()
		atomic.AddInt64(&totStates, int64(res.States))
		atomic.AddInt64(&totTrans, int64(res.Transitions))
		if res.CapHit {
			c.Cap(fmt.Sprintf("cmac BFS cap/deadline for %s (%d states)", J.ci.name, res.States))
		}
		for i := 0; i < res.States; i++ {
			c.Distinct([]byte("cmac"), []byte(J.ci.name), J.key, []byte(J.content), []byte{byte(i), byte(i >> 8), byte(i >> 16)})
		}
		sampleMu.Lock()
		for i, p := range res.SamplePaths {
			if i >= 1 && J.branch != "rfc4493-key" {
				break
			}
			var ops []string
			for _, o := range p {
				ops = append(ops, opName(o))
			}
			c.Sample("cmac-bfs-path-"+J.ci.name, map[string]any{"key": vf.Hex(J.key), "subkey_branch": J.branch, "ops": ops})
		}
		c.Set("cmac_bfs_"+J.ci.name+"_"+J.branch+"_"+J.content, map[string]any{"L": L, "states": res.States, "transitions": res.Transitions, "depth": res.Depth, "fixpoint": res.FixPoint})
		sampleMu.Unlock()

		// one-shot: every message length 0..L in a single Write, and byte-by-byte
		for n := 0; n <= L; n++ {
			h := cmac.New(blk)
			h.Write(M[:n])
			d := h.Sum(nil)
			c.Case([]byte("cmac.oneshot"), []byte(J.ci.name), J.key, M[:n])
			c.Check(pfx+"oneshot/equals-sp800-38b", bytes.Equal(d, refAt[n]), func() string {
				return fmt.Sprintf("cmac.New(%s key=%x); Write(%x); Sum = %x want %x", J.ci.name, J.key, M[:n], d, refAt[n])
			})
		}
	})
	dk := map[string]any{}
	dumpKinds.Range(func(k, v any) bool { dk[k.(string)] = v; return true })
	c.Set("cmac_state_key", dk)
}

// ================================================================ PKCS#7

func pkcs7Grid(c *vf.Ctx) {
	N := c.Pick(64, 520)
	vf.Par(255, func(bi int) {
		b := bi + 1
		lens := make([]int, 0, N+8)
		for n := 0; n <= N; n++ {
			lens = append(lens, n)
		}
		for _, n := range []int{254, 255, 256, 257, 258, 511, 512, 513, 767, 768, 1024, 4096} {
			if n > N {
				lens = append(lens, n) // both sides of every multiple of 256 also in the quick tier
			}
		}
		for _, n := range lens {
			p := b - n%b
			for _, content := range []string{"counter", "pad-byte"} {
				var m []byte
				if content == "counter" {
					m = enum.Counter(n, 1)
				} else {
					m = enum.Fill(n, byte(p)) // message ends in bytes equal to the pad value
				}
				for _, spare := range []bool{false, true} {
					in := make([]byte, n, n+map[bool]int{false: 0, true: 300}[spare])
					copy(in, m)
					var out []byte
					var err error
					pan, msg, where := vf.Try(func() { out, err = pkcs7.Pad(in, uint8(b)) })
					c.Case([]byte("pkcs7.pad"), []byte{byte(b), byte(n), byte(n >> 8)}, []byte(content), []byte(fmt.Sprint(spare)))
					w := func(what string) func() string {
						return func() string {
							return fmt.Sprintf("pkcs7.Pad(%d bytes %s (cap %d), blockSize %d): %s; out=%s err=%v panic=%v %s %s", n, content, cap(in), b, what, vf.HexS(out), err, pan, msg, where)
						}
					}
					if !c.Check("C12/pkcs7/Pad/no-error-for-block-1..255", !pan && err == nil, w("failed")) {
						continue
					}
					c.Check("C12/pkcs7/Pad/length-is-next-multiple-of-block", len(out) == (n/b+1)*b, w(fmt.Sprintf("length %d, want %d", len(out), (n/b+1)*b)))
					c.Check("C12/pkcs7/Pad/content-is-message-then-p-bytes-of-p", bytes.Equal(out, ref.PKCS7Pad(m, b)), w(fmt.Sprintf("want %s", vf.HexS(ref.PKCS7Pad(m, b)))))
					c.Check("C12/pkcs7/Pad/input-prefix-unchanged", bytes.Equal(in[:n], m), w("the caller's slice contents changed"))
					var back []byte
					pan, msg, where = vf.Try(func() { back, err = pkcs7.Unpad(append([]byte{}, out...)) })
					c.Check("C12/pkcs7/Unpad-of-Pad/identity", !pan && err == nil && bytes.Equal(back, m), func() string {
						return fmt.Sprintf("Unpad(Pad(%d bytes %s, block %d)) = %s err=%v panic=%v %s %s; want the message back", n, content, b, vf.HexS(back), err, pan, msg, where)
					})
				}
			}
		}
	})
	c.Sample("pkcs7-grid", map[string]any{"blocks": "1..255", "lengths": fmt.Sprintf("0..%d", N), "contents": []string{"counter", "all bytes = pad value"}, "input_capacity": []string{"exact", "+300 spare"}})
}

func pkcs7Try(c *vf.Ctx, buf []byte, tag string) {
	p, valid := ref.PKCS7Valid(buf)
	in := append([]byte{}, buf...)
	var out []byte
	var err error
	pan, msg, where := vf.Try(func() { out, err = pkcs7.Unpad(in) })
	c.Case([]byte("pkcs7.unpad"), buf)
	if valid {
		c.Check("C12/pkcs7/Unpad/accepts-valid-padding-and-strips-it", !pan && err == nil && bytes.Equal(out, buf[:len(buf)-p]), func() string {
			return fmt.Sprintf("%s: Unpad(%s) = %s err=%v panic=%v %s %s; valid padding of %d bytes, want %s", tag, vf.HexS(buf), vf.HexS(out), err, pan, msg, where, p, vf.HexS(buf[:len(buf)-p]))
		})
	} else {
		c.Check("C12/pkcs7/Unpad/rejects-invalid-padding", !pan && err != nil, func() string {
			return fmt.Sprintf("%s: Unpad(%s) = %s err=%v panic=%v %s %s; buffer is not validly PKCS#7 padded, want an error", tag, vf.HexS(buf), vf.HexS(out), err, pan, msg, where)
		})
	}
}

func pkcs7Reject(c *vf.Ctx) {
	alpha := []byte{0, 1, 2, 4}
	n := 4
	if c.Thorough() {
		alpha = []byte{0, 1, 2, 3, 4, 6}
		n = 6
	}
	all := enum.ByteStrings(alpha, n)
	for _, b := range all {
		pkcs7Try(c, b, "alphabet")
	}
	// every one-byte buffer and every two-byte buffer (thorough)
	for v := 0; v < 256; v++ {
		pkcs7Try(c, []byte{byte(v)}, "1byte")
	}
	if c.Thorough() {
		for v := 0; v < 65536; v++ {
			pkcs7Try(c, []byte{byte(v >> 8), byte(v)}, "2byte")
		}
	}
	// long buffers around the 255 limit: every single-byte deviation of a validly padded buffer
	lens := []int{16, 254, 255, 256, 257, 300, 520}
	vf.Par(len(lens), func(li int) {
		ln := lens[li]
		for _, p := range []int{1, 2, 3, 16, 17, 128, 254, 255} {
			if p > ln {
				continue
			}
			base := enum.Fill(ln, 0xAA)
			for i := ln - p; i < ln; i++ {
				base[i] = byte(p)
			}
			pkcs7Try(c, base, "long-valid")
			for i := 0; i < ln; i++ {
				for _, v := range []byte{0, byte(p - 1), byte(p + 1), byte(p), 0xff, 0xAA} {
					if base[i] == v {
						continue
					}
					b := append([]byte{}, base...)
					b[i] = v
					pkcs7Try(c, b, fmt.Sprintf("long len=%d pad=%d byte[%d]=%02x", ln, p, i, v))
				}
			}
		}
		// last byte names a pad longer than the buffer / equal to it / zero
		for _, last := range []int{0, ln - 1, ln, ln + 1, 255} {
			if last > 255 || last < 0 {
				continue
			}
			pkcs7Try(c, enum.Fill(ln, byte(last)), "uniform")
		}
	})
	c.Sample("pkcs7-reject", map[string]any{"alphabet": fmt.Sprintf("%x", alpha), "max_len": n, "buffers": len(all)})
}

// ================================================================ GPP

var runeAlpha = []string{"a", "Z", "0", " ", "\x00", "é", "ß", "Σ", "я", "€", "￿", "\U00010428", "\U0001F600", "\ufffd", "\ufeff"}

func gppAll(c *vf.Ctx) {
	pws := enum.Strings(runeAlpha, c.Pick(3, 4))
	for n := 0; n <= 40; n++ {
		pws = append(pws, strings.Repeat("a", n), strings.Repeat("\U0001F600", n), strings.Repeat("é", n), string(enum.Counter(n, 'A')))
	}
	vf.Par(len(pws), func(i int) {
		p := pws[i]
		wantEnc := ref.GPPEncrypt(p)
		wantRaw := ref.GPPEncryptRaw(p)
		c.Case([]byte("gpp"), []byte(p))
		var enc string
		var err error
		pan, msg, where := vf.Try(func() { enc, err = gppp.GPPPEncrypt(p) })
		c.Check("C12/gppp/GPPPEncrypt/equals-aes256cbc-zero-iv-published-key", !pan && err == nil && enc == wantEnc, func() string {
			return fmt.Sprintf("GPPPEncrypt(%q) = %q err=%v panic=%v %s %s; own AES-256-CBC/PKCS#7/UTF-16LE/base64 gives %q", p, enc, err, pan, msg, where, wantEnc)
		})
		dec := func(key, in string, f func() (string, error)) {
			var got string
			var err error
			pan, msg, where := vf.Try(func() { got, err = f() })
			c.Check(key, !pan && err == nil && got == p, func() string {
				return fmt.Sprintf("%s = %q err=%v panic=%v %s %s; want password %q", in, got, err, pan, msg, where, p)
			})
		}
		if enc != "" {
			dec("C12/gppp/GPPPDecryptBase64/inverts-GPPPEncrypt", fmt.Sprintf("GPPPDecryptBase64(GPPPEncrypt(%q)=%q)", p, enc), func() (string, error) { return gppp.GPPPDecryptBase64(enc) })
		}
		dec("C12/gppp/GPPPDecryptBase64/decrypts-reference-ciphertext", fmt.Sprintf("GPPPDecryptBase64(%q)", wantEnc), func() (string, error) { return gppp.GPPPDecryptBase64(wantEnc) })
		dec("C12/gppp/GPPPDecryptBytes/decrypts-reference-ciphertext", fmt.Sprintf("GPPPDecryptBytes(%x)", wantRaw), func() (string, error) { return gppp.GPPPDecryptBytes(append([]byte{}, wantRaw...)) })
		// Groups.xml stores the value with the '=' padding removed: strip 1..3 (as many as there are)
		for strip := 1; strip <= 3; strip++ {
			s := wantEnc
			for k := 0; k < strip && strings.HasSuffix(s, "="); k++ {
				s = s[:len(s)-1]
			}
			dec(fmt.Sprintf("C12/gppp/GPPPDecryptBase64/padding-stripped-%d", strip), fmt.Sprintf("GPPPDecryptBase64(%q)", s), func() (string, error) { return gppp.GPPPDecryptBase64(s) })
		}
		// raw ciphertext agrees byte for byte as well (catches a different base64 alphabet masking a cipher bug)
		if enc != "" {
			raw, err := base64.StdEncoding.DecodeString(enc)
			c.Check("C12/gppp/GPPPEncrypt/output-is-standard-padded-base64-of-whole-blocks", err == nil && len(raw) > 0 && len(raw)%16 == 0 && bytes.Equal(raw, wantRaw), func() string {
				return fmt.Sprintf("GPPPEncrypt(%q) = %q: decodes to %x (err %v), want %x", p, enc, raw, err, wantRaw)
			})
		}
	})
	// mutual inverses on whatever Decrypt ACCEPTS: a ciphertext that is not a whole number of AES blocks (1..15
	// bytes too many, or cut by 1..15) has no AES-256-CBC decryption; it is refused, or — if accepted —
	// encrypting the returned password must give that very ciphertext back
	for _, p := range []string{"", "a", "Passw0rd!", "pässwörd", strings.Repeat("x", 8), strings.Repeat("\U0001F600", 9)} {
		raw := ref.GPPEncryptRaw(p)
		var cands [][]byte
		for k := 1; k <= 15; k++ {
			cands = append(cands, append(append([]byte{}, raw...), enum.Counter(k, 0x30)...))
			if len(raw) > k {
				cands = append(cands, append([]byte{}, raw[:len(raw)-k]...))
			}
		}
		cands = append(cands, []byte{})
		for _, ct := range cands {
			c.Case([]byte("gpp-ct"), ct)
			var got string
			var err error
			pan, msg, where := vf.Try(func() { got, err = gppp.GPPPDecryptBytes(append([]byte{}, ct...)) })
			if !c.Check("C12/gppp/GPPPDecryptBytes/no-panic", !pan, func() string { return fmt.Sprintf("GPPPDecryptBytes(%x) panicked: %s at %s", ct, msg, where) }) {
				continue
			}
			var back []byte
			if err == nil {
				back = ref.GPPEncryptRaw(got)
			}
			c.Check("C12/gppp/GPPPDecryptBytes/ciphertext-not-whole-blocks/refused-or-is-the-encryption-of-the-returned-password", err != nil || bytes.Equal(back, ct), func() string {
				return fmt.Sprintf("GPPPDecryptBytes(%x) (%d bytes, derived from the encryption of %q) returned %q without error, but AES-256-CBC/PKCS#7 of that password is %x", ct, len(ct), p, got, back)
			})
		}
	}
	c.Sample("gpp-password", fmt.Sprintf("%q", pws[len(pws)/3]))
	c.Sample("gpp-password", fmt.Sprintf("%q", pws[1500]))
}
