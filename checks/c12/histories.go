package main

import (
	"crypto/aes"
	"crypto/des"

	"github.com/TheManticoreProject/Manticore/crypto/cmac"
	"github.com/TheManticoreProject/Manticore/crypto/gppp"
	"github.com/TheManticoreProject/Manticore/crypto/pkcs7"
	"github.com/TheManticoreProject/Manticore/crypto/rc4"

	"verif/enum"
	"verif/mc/purity"
	"verif/vf"
)

// histories: one-shot uses of the primitives are pure functions; all ordered pairs of calls
// (verif/mc/purity): results do not alias shared buffers, do not depend on earlier calls, are the caller's own.
func histories(c *vf.Ctx) {
	msgs := [][]byte{{}, {1}, enum.Counter(15, 1), enum.Counter(16, 1), enum.Counter(17, 1), enum.Counter(33, 9)}
	purity.CheckAppendStyle(c, "C12/history/pkcs7.Pad(16)", "pkcs7.Pad(m,16)", msgs, func(in []byte) [][]byte {
		b, err := pkcs7.Pad(in, 16)
		if err != nil {
			return nil
		}
		return [][]byte{b}
	})
	var padded [][]byte
	for _, m := range msgs {
		b, _ := pkcs7.Pad(append([]byte(nil), m...), 16)
		padded = append(padded, append([]byte(nil), b...))
	}
	purity.Check(c, "C12/history/pkcs7.Unpad", "pkcs7.Unpad", padded, func(in []byte) [][]byte {
		b, err := pkcs7.Unpad(in)
		if err != nil {
			return [][]byte{[]byte("error")}
		}
		return [][]byte{append([]byte(nil), b...)} // Unpad may return a sub-slice of its input: only the content is compared
	})
	k16 := enum.Counter(16, 0x38)
	purity.Check(c, "C12/history/cmac-aes128-oneshot", "cmac.New(aes128).Write(m).Sum(nil)", msgs, func(in []byte) [][]byte {
		blk, _ := aes.NewCipher(k16)
		h := cmac.New(blk)
		h.Write(in)
		return [][]byte{h.Sum(nil)}
	})
	purity.Check(c, "C12/history/cmac-des-oneshot", "cmac.New(des).Write(m).Sum(nil)", msgs, func(in []byte) [][]byte {
		blk, _ := des.NewCipher(k16[:8])
		h := cmac.New(blk)
		h.Write(in)
		return [][]byte{h.Sum(nil)}
	})
	purity.Check(c, "C12/history/rc4-oneshot", "rc4.NewRC4WithKey(k).XORKeyStream(dst, m)", msgs[1:], func(in []byte) [][]byte {
		r, err := rc4.NewRC4WithKey(k16)
		if err != nil {
			return nil
		}
		dst := make([]byte, len(in))
		r.XORKeyStream(dst, in)
		return [][]byte{dst}
	})
	pw := [][]byte{[]byte(""), []byte("a"), []byte("Passw0rd"), []byte("LongerPassword!é\U0001F600")}
	purity.Check(c, "C12/history/gppp", "GPPPEncrypt / GPPPDecryptBase64", pw, func(in []byte) [][]byte {
		e, err := gppp.GPPPEncrypt(string(in))
		if err != nil {
			return nil
		}
		d, _ := gppp.GPPPDecryptBase64(e)
		return [][]byte{[]byte(e), []byte(d)}
	})
}
