// C01 — password-hash primitives equal their reference algorithms.
// E2: explicit-state BFS over the real md4.MD4 object (Write(k)/Sum/HexSum) to fix-point.
// E4: exhaustive lattices for one-shot MD4, UTF-16LE, NT, LM, DCC, DCC2.
package main

import (
	"bytes"
	"encoding/hex"
	"fmt"
	"strings"

	"github.com/TheManticoreProject/Manticore/crypto/dcc"
	"github.com/TheManticoreProject/Manticore/crypto/dcc2"
	"github.com/TheManticoreProject/Manticore/crypto/lm"
	"github.com/TheManticoreProject/Manticore/crypto/md4"
	"github.com/TheManticoreProject/Manticore/crypto/nt"
	"github.com/TheManticoreProject/Manticore/utils/encoding/utf16"

	"verif/enum"
	"verif/mc/bfs"
	"verif/mc/purity"
	rc "verif/ref/refcrypto"
	"verif/vf"
)

func main() { vf.Main("C01", "model_checking", run) }

func run(c *vf.Ctx) {
	if err := rc.SelfTest(); err != nil {
		c.Fatalf("%v", err)
	}
	c.Rule("MD4 object: BFS over states (bytes written, full dump of the real MD4 struct) with transitions Write(M[pos:pos+k]) for every k, Sum, HexSum, to fix-point; " +
		"one-shot MD4: all lengths 0..N x 3 fills + all 1-byte (thorough: 2-byte) messages; NT/UTF16: all strings <=3 (thorough 4) over a 13-rune alphabet incl. non-BMP + runs; " +
		"LM: every position x every 7-bit value on 2 backgrounds, all lengths 0..20, all 2-char strings; DCC/DCC2: passwords x users x rounds lattice. distinct = distinct (function,input) pairs reaching the comparison")
	c.Assume("x/crypto/md4, crypto/des, crypto/hmac, crypto/sha1, unicode/utf16 (stdlib) are correct; reference self-tested on RFC 1320, MS-NLMP 4.2, RFC 6070 and hashcat example vectors")
	streamMD4(c)
	oneShot(c)
	ntAndUTF16(c)
	lmHash(c)
	dccAll(c)
	histories(c)
}

// histories: the hash functions are pure; explore all ordered pairs of calls (verif/mc/purity):
// results must not depend on earlier calls, must not alias memory a later call reuses, and must be
// the caller's own (a caller wiping a returned hash must not poison later results).
func histories(c *vf.Ctx) {
	pw := [][]byte{[]byte(""), []byte("a"), []byte("PASSWORD"), []byte("Passw0rd!Passw0rd"), []byte("\U00010000é")}
	purity.Check(c, "C01/history/lm.LMHash", "lm.LMHash", pw[:4], func(in []byte) [][]byte { return [][]byte{lm.LMHash(string(in))} })
	purity.Check(c, "C01/history/lm.LMHashToHex", "lm.LMHashToHex", pw[:4], func(in []byte) [][]byte { return [][]byte{[]byte(lm.LMHashToHex(string(in)))} })
	purity.Check(c, "C01/history/utf16.EncodeUTF16LE", "utf16.EncodeUTF16LE", pw, func(in []byte) [][]byte { return [][]byte{utf16.EncodeUTF16LE(string(in))} })
	purity.Check(c, "C01/history/nt.NTHash", "nt.NTHash", pw, func(in []byte) [][]byte {
		h := nt.NTHash(string(in))
		return [][]byte{h[:], []byte(nt.NTHashHex(string(in)))}
	})
	purity.Check(c, "C01/history/md4.Sum", "md4.Sum", [][]byte{{}, enum.Counter(55, 1), enum.Counter(56, 1), enum.Counter(64, 1), enum.Counter(130, 1)}, func(in []byte) [][]byte { h := md4.Sum(in); return [][]byte{h[:]} })
	purity.Check(c, "C01/history/dcc+dcc2", "DCC(password,user=Admin)/DCC2", pw, func(in []byte) [][]byte {
		h := dcc.DCCHashFromPassword(string(in), "Admin")
		return [][]byte{h[:], []byte(dcc.DCCHashFromPasswordToHashcatString(string(in), "Admin")), []byte(dcc2.DCC2Hash("Admin", string(in), 3))}
	})
}

// ---------------------------------------------------------------- E2 on the real MD4 object

func streamMD4(c *vf.Ctx) {
	type cfg struct {
		L    int
		fill func(int) []byte
		name string
	}
	cfgs := []cfg{{c.Pick(130, 260), func(n int) []byte { return enum.Counter(n, 1) }, "counter"}}
	if c.Thorough() {
		cfgs = append(cfgs, cfg{200, func(n int) []byte { return enum.Fill(n, 0xff) }, "ff"})
	}
	totalStates, totalTrans := 0, 0
	for _, cf := range cfgs {
		M := cf.fill(cf.L)
		L := cf.L
		refAt := make([][16]byte, L+1)
		for i := 0; i <= L; i++ {
			refAt[i] = rc.MD4(M[:i])
		}
		nops := L + 3 // Write(0..L), Sum, HexSum
		apply := func(h *md4.MD4, pos int, op int, check bool) (newpos int, enabled bool) {
			switch {
			case op <= L:
				k := op
				if pos+k > L {
					return pos, false
				}
				n, err := h.Write(M[pos : pos+k])
				if check {
					c.Check("C01/md4/stream/write-returns-len-nil", n == k && err == nil, func() string {
						return fmt.Sprintf("Write of %d bytes at pos %d returned (%d,%v)", k, pos, n, err)
					})
				}
				return pos + k, true
			case op == L+1:
				d := h.Sum()
				if check {
					c.Check("C01/md4/stream/sum-equals-reference", d == refAt[pos], func() string {
						return fmt.Sprintf("fill=%s: Sum() after %d bytes = %x, x/crypto md4 = %x", cf.name, pos, d, refAt[pos])
					})
				}
				return pos, true
			default:
				s := h.HexSum()
				if check {
					c.Check("C01/md4/stream/hexsum-equals-reference", s == hex.EncodeToString(refAt[pos][:]), func() string {
						return fmt.Sprintf("fill=%s: HexSum() after %d bytes = %s, reference = %x", cf.name, pos, s, refAt[pos])
					})
				}
				return pos, true
			}
		}
		opName := func(op int) string {
			if op <= L {
				return fmt.Sprintf("Write(%d)", op)
			}
			if op == L+1 {
				return "Sum"
			}
			return "HexSum"
		}
		key := func(h *md4.MD4, pos int) string { return fmt.Sprintf("%d|%v", pos, *h) }
		s := &bfs.Search{
			NOps:      nops,
			InitKey:   key(md4.New(), 0),
			MaxStates: 40000,
			Stop:      c.DeadlineExceeded,
			Step: func(path []int, op int) (string, bool) {
				h := md4.New()
				pos := 0
				for _, p := range path {
					pos, _ = apply(h, pos, p, false)
				}
				np, ok := apply(h, pos, op, true)
				if !ok {
					return "", false
				}
				// state invariant, probed non-destructively on a copy of the object
				cp := *h
				d := cp.Sum()
				kind := "Write"
				if op > L {
					kind = opName(op)
				}
				c.Check("C01/md4/stream/state-intact-after-"+kind, d == refAt[np], func() string {
					ops := []string{}
					for _, p := range path {
						ops = append(ops, opName(p))
					}
					ops = append(ops, opName(op))
					return fmt.Sprintf("fill=%s ops=%s: a digest read from a copy of the object now gives %x, reference for the %d bytes written is %x (an earlier read changed later results)", cf.name, strings.Join(ops, ","), d, np, refAt[np])
				})
				return key(h, np), true
			},
		}
		r := s.Run()
		totalStates += r.States
		totalTrans += r.Transitions
		if r.CapHit {
			c.Cap(fmt.Sprintf("md4 BFS state cap (%d states) fill=%s", r.States, cf.name))
		}
		for _, p := range r.SamplePaths {
			var ops []string
			for _, o := range p {
				ops = append(ops, opName(o))
			}
			c.Sample("md4-bfs-path", map[string]any{"fill": cf.name, "L": L, "ops": ops})
		}
		c.Set("md4_bfs_"+cf.name, map[string]any{"L": L, "states": r.States, "transitions": r.Transitions, "depth": r.Depth, "fixpoint": r.FixPoint})
	}
	c.Set("states", totalStates)
	c.Set("transitions", totalTrans)
	c.Set("traces_validated_against_impl", totalTrans)
	c.Evals(int64(totalTrans))
	for i := 0; i < totalStates; i++ {
		c.Distinct([]byte(fmt.Sprintf("md4state%d", i)))
	}
}

// ---------------------------------------------------------------- one-shot MD4

func oneShot(c *vf.Ctx) {
	try := func(tag string, m []byte) {
		want := rc.MD4(m)
		got := md4.Sum(m)
		c.Case([]byte("md4.Sum"), m)
		c.Check("C01/md4/oneshot/Sum", got == want, func() string { return fmt.Sprintf("%s md4.Sum(%s)=%x want %x", tag, vf.HexS(m), got, want) })
		h := md4.New()
		h.Write(m)
		g2 := h.Sum()
		c.Check("C01/md4/oneshot/New-Write-Sum", g2 == want, func() string { return fmt.Sprintf("%s New/Write/Sum(%s)=%x want %x", tag, vf.HexS(m), g2, want) })
		h = md4.New()
		h.Write(m)
		hs := h.HexSum()
		c.Check("C01/md4/oneshot/HexSum-lowercase-hex", hs == hex.EncodeToString(want[:]), func() string { return fmt.Sprintf("%s HexSum(%s)=%s want %x", tag, vf.HexS(m), hs, want) })
	}
	N := c.Pick(320, 1100)
	for n := 0; n <= N; n++ {
		try("zeros", enum.Fill(n, 0))
		try("ff", enum.Fill(n, 0xff))
		try("counter", enum.Counter(n, 7))
	}
	for v := 0; v < 256; v++ {
		try("1byte", []byte{byte(v)})
	}
	if c.Thorough() {
		for v := 0; v < 65536; v++ {
			try("2byte", []byte{byte(v >> 8), byte(v)})
		}
	}
	// two-chunk splits of longer messages through the public streaming API at every cut (cheap, complements the BFS for a second content)
	for _, L := range []int{64, 119, 120, 128, 129} {
		m := enum.Counter(L, 0x80)
		want := rc.MD4(m)
		for cut := 0; cut <= L; cut++ {
			h := md4.New()
			h.Write(m[:cut])
			h.Write(m[cut:])
			g := h.Sum()
			c.Case([]byte("md4.split"), m, []byte{byte(cut)})
			c.Check("C01/md4/stream/two-chunk-split", g == want, func() string { return fmt.Sprintf("len %d cut %d: %x want %x", L, cut, g, want) })
		}
	}
	c.Sample("md4-oneshot", map[string]any{"lengths": fmt.Sprintf("0..%d", N), "fills": []string{"00", "ff", "counter"}})
}

// ---------------------------------------------------------------- NT / UTF-16LE

// includes both sides of every UTF-16 encoding boundary: U+D7FF/U+E000 (around the surrogate block), U+FFFF/U+10000/U+10001 (BMP edge), U+10FFFF (last code point)
var runeAlpha = []string{"a", "Z", "0", " ", "\x00", "é", "ß", "Σ", "я", "€", "\ud7ff", "\ue000", "\uffff", "\U00010000", "\U00010001", "\U00010428", "\U0001F600", "\U0010FFFF",
	// code points a text layer likes to treat specially (byte-order mark, its mirror, the replacement character - which is what a decoder ALSO reports for malformed input, so "is it U+FFFD" must never mean "was it malformed" - zero-width and no-break space, line ends): to a hash they are characters like any other
	"\ufeff", "\ufffe", "\ufffd", "\ufffc", "\u200b", "\u00a0", "\t", "\n", "\r"}

func ntAndUTF16(c *vf.Ctx) {
	ss := enum.Strings(runeAlpha, c.Pick(3, 4))
	for n := 0; n <= 70; n++ {
		ss = append(ss, strings.Repeat("a", n), strings.Repeat("\U0001F600", n), strings.Repeat("é", n))
	}
	// one wide (surrogate pair) / one two-byte-UTF-8 character at EVERY UTF-16 offset of a longer password, so
	// that it meets every position relative to the 64-byte MD4 block and to any internal chunking
	for pos := 0; pos <= 100; pos++ {
		for _, tail := range []int{0, 1, 33} {
			ss = append(ss, strings.Repeat("a", pos)+"\U0001F600"+strings.Repeat("b", tail), strings.Repeat("a", pos)+"é"+strings.Repeat("b", tail))
		}
	}
	for _, n := range []int{127, 128, 129, 255, 256, 257, 511, 512, 513, 1023, 1024, 1025, 5000} {
		az := make([]byte, n)
		for i := range az {
			az[i] = 'a' + byte(i%26)
		}
		ss = append(ss, string(az), strings.Repeat("\U00010428", n/2)+strings.Repeat("x", n%2))
	}
	vf.Par(len(ss), func(i int) {
		s := ss[i]
		want16 := rc.UTF16LE(s)
		got16 := utf16.EncodeUTF16LE(s)
		c.Case([]byte("nt"), []byte(s))
		c.Check("C01/utf16/EncodeUTF16LE", bytes.Equal(got16, want16), func() string { return fmt.Sprintf("EncodeUTF16LE(%q)=%x want %x", s, got16, want16) })
		want := rc.NT(s)
		got := nt.NTHash(s)
		c.Check("C01/nt/NTHash", got == want, func() string { return fmt.Sprintf("NTHash(%q)=%x want %x", s, got, want) })
		gh := nt.NTHashHex(s)
		c.Check("C01/nt/NTHashHex", gh == hex.EncodeToString(want[:]), func() string { return fmt.Sprintf("NTHashHex(%q)=%s want %x", s, gh, want) })
	})
	c.Sample("nt-password", fmt.Sprintf("%q", ss[len(ss)/2]))
	c.Sample("nt-password", fmt.Sprintf("%q", ss[200]))
}

// ---------------------------------------------------------------- LM

func lmHash(c *vf.Ctx) {
	try := func(p string) {
		want := rc.LM(p)
		got := lm.LMHash(p)
		c.Case([]byte("lm"), []byte(p))
		c.Check("C01/lm/LMHash", bytes.Equal(got, want), func() string { return fmt.Sprintf("LMHash(%q)=%x want %x", p, got, want) })
		gh := lm.LMHashToHex(p)
		c.Check("C01/lm/LMHashToHex", gh == hex.EncodeToString(want), func() string { return fmt.Sprintf("LMHashToHex(%q)=%s want %x", p, gh, want) })
	}
	for _, bg := range []byte{'A', 0x7f} {
		for pos := 0; pos < 14; pos++ {
			for v := 0; v < 128; v++ {
				b := enum.Fill(14, bg)
				b[pos] = byte(v)
				try(string(b))
			}
		}
	}
	for n := 0; n <= 20; n++ {
		try(string(enum.Counter(n, 'a')))
		try(strings.Repeat("z", n))
	}
	for a := 0; a < 128; a++ {
		for b := 0; b < 128; b++ {
			try(string([]byte{byte(a), byte(b)}))
		}
	}
	// 8-char strings: second half gets one char
	for v := 0; v < 128; v++ {
		try("PASSWOR" + string([]byte{byte(v)}))
	}
	c.Sample("lm-password", "AAAAAAA\x7fAAAAAA")
}

// ---------------------------------------------------------------- DCC / DCC2

func dccAll(c *vf.Ctx) {
	pws := enum.Strings([]string{"a", "P", "é", "\U0001F600"}, 2)
	users := []string{"", "a", "Admin", "ADMIN", "administrator", "é", "É", "Σ", "σ", "Я", "\U00010400", "\U00010428", "user.name", "Ünï",
		// the salt is the user name EXACTLY as given (lower-cased): qualified forms, separators, surrounding blanks and a byte-order mark are part of it
		"CORP\\alice", "ops/deploy", "alice@corp.local", "svc@backup", "@lead", "trail@", " padded ", "\ufeffbom", "tab\tname", "a:b", "a$"}
	// long user names (user@dns-domain forms are long): both sides of every size a salt buffer or a limit could have
	for _, n := range []int{19, 20, 21, 27, 28, 31, 32, 33, 63, 64, 65, 127, 128, 129, 130, 255, 256, 257, 1000} {
		users = append(users, "U"+strings.Repeat("s", n-1), strings.Repeat("\U00010400", n/2)+strings.Repeat("x", n%2))
	}
	type pu struct{ p, u string }
	var cases []pu
	for _, p := range pws {
		for _, u := range users {
			cases = append(cases, pu{p, u})
		}
	}
	vf.Par(len(cases), func(i int) {
		p, u := cases[i].p, cases[i].u
		ntr := rc.NT(p)
		want := rc.DCC(ntr, u)
		wh := hex.EncodeToString(want[:])
		c.Case([]byte("dcc"), []byte(p), []byte(u))
		w := func(f string, got any) func() string {
			return func() string { return fmt.Sprintf("%s(password=%q,user=%q)=%v want %s", f, p, u, got, wh) }
		}
		g1 := dcc.DCCHashFromPassword(p, u)
		c.Check("C01/dcc/DCCHashFromPassword", g1 == want, w("DCCHashFromPassword", hex.EncodeToString(g1[:])))
		g2 := dcc.DCCHashFromNTHash(ntr, u)
		c.Check("C01/dcc/DCCHashFromNTHash", g2 == want, w("DCCHashFromNTHash", hex.EncodeToString(g2[:])))
		g3 := dcc.DCCHashFromPasswordToHex(p, u)
		c.Check("C01/dcc/DCCHashFromPasswordToHex", g3 == wh, w("DCCHashFromPasswordToHex", g3))
		g4 := dcc.DCCHashFromNTHashToHex(ntr, u)
		c.Check("C01/dcc/DCCHashFromNTHashToHex", g4 == wh, w("DCCHashFromNTHashToHex", g4))
		for _, hl := range []struct{ f, line string }{
			{"DCCHashFromPasswordToHashcatString", dcc.DCCHashFromPasswordToHashcatString(p, u)},
			{"DCCHashFromNTHashToHashcatString", dcc.DCCHashFromNTHashToHashcatString(ntr, u)},
		} {
			// hashcat mode 1100: "<32 hex>:<salt>", salt lower-cased by hashcat (OPTS_TYPE_ST_LOWER) and UTF-16LE encoded
			ok := false
			if i := strings.IndexByte(hl.line, ':'); i == 32 {
				salt := hl.line[33:]
				d := rc.MD4(append(append([]byte{}, ntr[:]...), rc.UTF16LE(rc.Lower(salt))...))
				ok = hl.line[:32] == hex.EncodeToString(d[:]) && rc.Lower(salt) == rc.Lower(u)
			}
			c.Check("C01/dcc/"+hl.f+"/verifies-under-hashcat-1100-rules", ok, w(hl.f, hl.line))
		}
		// the two entry points are two routes to ONE hashcat line
		l1, l2 := dcc.DCCHashFromPasswordToHashcatString(p, u), dcc.DCCHashFromNTHashToHashcatString(ntr, u)
		c.Check("C01/dcc/hashcat-line/password-and-nthash-entry-points-agree", l1 == l2, func() string {
			return fmt.Sprintf("DCCHashFromPasswordToHashcatString(%q,%q) = %q but DCCHashFromNTHashToHashcatString(NT(%q),%q) = %q", p, u, l1, p, u, l2)
		})
	})
	// DCC2: rounds lattice
	rounds := []int{}
	for r := 1; r <= c.Pick(48, 256); r++ {
		rounds = append(rounds, r)
	}
	// both sides of the Windows default (10240) and of its multiples of 1024; counts a registry-style encoding
	// (units of 1024) would change; a large count
	rounds = append(rounds, 1000, 1023, 1024, 1025, 10239, 10240, 10241, 11264, 12000, 20000, 65535, 65536, 100000)
	type c2 struct {
		p, u string
		r    int
	}
	var cs []c2
	for _, u := range users {
		for _, r := range rounds {
			if r > 64 && u != "Admin" && u != "É" {
				continue
			}
			cs = append(cs, c2{"P\U0001F600é", u, r})
		}
	}
	for _, p := range pws {
		for _, u := range users {
			cs = append(cs, c2{p, u, 2}, c2{p, u, 3})
		}
	}
	vf.Par(len(cs), func(i int) {
		p, u, r := cs[i].p, cs[i].u, cs[i].r
		ntr := rc.NT(p)
		want := hex.EncodeToString(rc.DCC2(ntr, u, r))
		c.Case([]byte("dcc2"), []byte(p), []byte(u), []byte(fmt.Sprint(r)))
		for _, hl := range []struct{ f, line string }{
			{"DCC2Hash", dcc2.DCC2Hash(u, p, r)},
			{"DCC2HashWithPassword", dcc2.DCC2HashWithPassword(u, p, r)},
			{"DCC2HashWithNTHash", dcc2.DCC2HashWithNTHash(u, ntr, r)},
		} {
			// hashcat mode 2100: $DCC2$<iterations>#<salt>#<32 hex>; salt is lower-cased by hashcat
			ok := false
			var why string
			if strings.HasPrefix(hl.line, "$DCC2$") {
				rest := hl.line[6:]
				i := strings.IndexByte(rest, '#')
				j := strings.LastIndexByte(rest, '#')
				if i > 0 && j > i {
					iter, salt, hx := rest[:i], rest[i+1:j], rest[j+1:]
					ok = iter == fmt.Sprint(r) && rc.Lower(salt) == rc.Lower(u) && hx == want
					why = fmt.Sprintf("iter=%s salt=%q hash=%s", iter, salt, hx)
				} else if u == "" && i >= 0 {
					// empty user: "$DCC2$r##hash"
					j = strings.LastIndexByte(rest, '#')
					ok = rest[:i] == fmt.Sprint(r) && rest[j+1:] == want
				}
			}
			c.Check("C01/dcc2/"+hl.f, ok, func() string {
				return fmt.Sprintf("%s(user=%q,password=%q,rounds=%d)=%q (%s) want hash %s", hl.f, u, p, r, hl.line, why, want)
			})
		}
	})
	c.Sample("dcc2-case", map[string]any{"password": "P😀é", "user": "É", "rounds": 10240})
}
