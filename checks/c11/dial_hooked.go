//go:build c11dial

package main

import (
	"fmt"
	"net"
	"sync"

	"github.com/TheManticoreProject/Manticore/network/netbios/nbt"
	"github.com/TheManticoreProject/Manticore/zz_verif/dialnet"
)

// connectMode says how the harness gives a transport its connection.
const connectMode = "NBTTransport.Connect over a dial shim (package net replaced for network/netbios/nbt by a build overlay)"

// attach makes t use conn by calling the transport's own Connect; the dial inside it returns conn.
var dialMu sync.Mutex // the shim has one queue; harness workers attach in parallel

func attach(t *nbt.NBTTransport, conn net.Conn) error {
	dialMu.Lock()
	defer dialMu.Unlock()
	dialnet.Next = conn
	dialnet.Dials = dialnet.Dials[:0]
	if err := t.Connect(net.IPv4(192, 0, 2, 7), 139); err != nil {
		return fmt.Errorf("Connect over the dial shim failed: %v", err)
	}
	if dialnet.Next != nil {
		dialnet.Next = nil
		return fmt.Errorf("Connect returned nil without dialling (dials: %v)", dialnet.Dials)
	}
	return nil
}
