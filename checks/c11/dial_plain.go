//go:build !c11dial

package main

import (
	"net"

	"github.com/TheManticoreProject/Manticore/network/netbios/nbt"
)

const connectMode = "connection stored in the transport's net.Conn field (the dial shim could not be mounted on this tree)"

func attach(t *nbt.NBTTransport, conn net.Conn) error { return inject(t, conn) }
