// C11 — NBT session transport preserves message boundaries and never yields partial frames.
// A scripted net.Conn is injected into nbt.NBTTransport (private field located by type).
// Send: lattice of payload lengths, bytes written compared with the RFC 1002 §4.3.1 frame.
// Receive: E1 (verif/mc/explore) over segmentations of the byte stream and a cut point;
// a deviation is one segment boundary or the cut.
package main

import (
	"bytes"
	"errors"
	"fmt"
	"io"
	"net"
	"reflect"
	"runtime/debug"
	"strings"
	"sync"
	"sync/atomic"
	"syscall"
	"time"
	"unsafe"

	"github.com/TheManticoreProject/Manticore/network/netbios/nbt"
	"github.com/TheManticoreProject/Manticore/network/smb/smb_v10/transport"

	"verif/enum"
	"verif/mc/explore"
	"verif/vf"
)

func main() { vf.Main("C11", "fault_enumeration", run) }

func run(c *vf.Ctx) {
	// every Receive of a large frame allocates up to 128 KiB; collect less often
	debug.SetGCPercent(800)
	selfTest(c)
	c.Rule("Send: payload lengths {0,1,2,0xFFFE,0xFFFF,0x10000,0x10001,0x1FFFE,0x1FFFF,0x20000,0x20001,0x2FFFF} (thorough: all 0..300 and 2^k-1,2^k,2^k+1 up to 2^18) x 2 contents, plus all sequences of 3 sends over lengths {0,1,2}; " +
		"Receive: streams of 1..3 frames; total length <= 12 (thorough 14): every subset of the n-1 byte boundaries as segment boundaries (2^(n-1) segmentations) combined with every cut offset 0..n; " +
		"large frames (0xFFFF,0x10000,0x1FFFF and mixed streams): every single boundary, every cut offset, and every pair of boundaries/cut within 2 bytes of a header or body edge; end of stream = EOF, EOF returned together with the last bytes (thorough: ECONNRESET); " +
		"both directions on one transport: every sequence of up to 4 (thorough 6) operations over {Send(14 bytes), Send(0 bytes), Receive, IsConnected} x 4 (6) sets of frames the peer has already sent x {one segment, one-byte segments}; " +
		"two connections in a row on one transport: 4 first streams x every prefix x every segmentation x every number of Receive calls x with/without Close x 3 second streams, then Send. " +
		"distinct = distinct (stream, segmentation, cut, end kind) scripts executed against Receive, distinct (length, content) for Send")
	c.Assume("net.Conn contract: Read returns 1..len(p) bytes of the stream in order or an error; Write takes the whole buffer; the scripted conn never blocks, so a Receive that waits for more data than the stream holds gets the end-of-stream error")
	c.Assume("network/netbios/session.go only defines the session message type constants and smb_v10/transport.NewTransport(\"nbt\") returns the same *nbt.NBTTransport; neither adds framing of its own (checked: the factory result is exercised through the Transport interface)")
	c.Set("how_the_transport_gets_its_connection", connectMode)
	t0 := time.Now()
	sendLattice(c)
	c.Set("phase_send_s", time.Since(t0).Seconds())
	t0 = time.Now()
	receiveSmall(c)
	otherPacketTypes(c)
	c.Set("phase_receive_small_s", time.Since(t0).Seconds())
	t0 = time.Now()
	gracefulClose(c)
	c.Set("phase_graceful_close_s", time.Since(t0).Seconds())
	t0 = time.Now()
	dialogue(c)
	c.Set("phase_dialogue_s", time.Since(t0).Seconds())
	t0 = time.Now()
	reconnect(c)
	c.Set("phase_reconnect_s", time.Since(t0).Seconds())
	t0 = time.Now()
	receiveLarge(c)
	c.Set("phase_receive_large_s", time.Since(t0).Seconds())
}

// ------------------------------------------------------------------ scripted conn

type endKind int

const (
	endEOF endKind = iota
	endEOFWithData
	endReset
)

func (e endKind) String() string { return [...]string{"EOF", "EOF-with-last-bytes", "ECONNRESET"}[e] }

type scriptConn struct {
	stream []byte // bytes that arrive before the end (already truncated at the cut)
	segs   []int  // segment ends (ascending offsets into stream, last == len(stream)); nil = one segment
	pos    int
	seg    int
	end    endKind
	reads  int
	wrote  [][]byte
	closed bool
}

func (s *scriptConn) endErr() error {
	if s.end == endReset {
		return &net.OpError{Op: "read", Net: "tcp", Err: syscall.ECONNRESET}
	}
	return io.EOF
}

func (s *scriptConn) Read(p []byte) (int, error) {
	s.reads++
	if s.pos >= len(s.stream) {
		return 0, s.endErr()
	}
	if len(p) == 0 {
		return 0, nil
	}
	limit := len(s.stream)
	for s.seg < len(s.segs) && s.segs[s.seg] <= s.pos {
		s.seg++
	}
	if s.seg < len(s.segs) && s.segs[s.seg] < limit {
		limit = s.segs[s.seg]
	}
	n := copy(p, s.stream[s.pos:limit])
	s.pos += n
	if s.pos >= len(s.stream) && s.end == endEOFWithData {
		return n, io.EOF
	}
	return n, nil
}

func (s *scriptConn) Write(p []byte) (int, error) {
	s.wrote = append(s.wrote, append([]byte{}, p...))
	return len(p), nil
}
func (s *scriptConn) written() []byte     { return bytes.Join(s.wrote, nil) }
func (s *scriptConn) Close() error        { s.closed = true; return nil }
func (s *scriptConn) LocalAddr() net.Addr { return &net.TCPAddr{IP: net.IPv4(127, 0, 0, 1), Port: 1} }
func (s *scriptConn) RemoteAddr() net.Addr {
	return &net.TCPAddr{IP: net.IPv4(192, 0, 2, 7), Port: 139} // the address attach() has Connect dial
}
func (s *scriptConn) SetDeadline(t time.Time) error      { return nil }
func (s *scriptConn) SetReadDeadline(t time.Time) error  { return nil }
func (s *scriptConn) SetWriteDeadline(t time.Time) error { return nil }

var connType = reflect.TypeOf((*net.Conn)(nil)).Elem()

// inject stores conn in the (private) net.Conn field of the transport, found by type.
func inject(t *nbt.NBTTransport, conn net.Conn) error {
	v := reflect.ValueOf(t).Elem()
	found := -1
	for i := 0; i < v.NumField(); i++ {
		if v.Field(i).Type() == connType {
			if found >= 0 {
				return errors.New("NBTTransport has more than one net.Conn field")
			}
			found = i
		}
	}
	if found < 0 {
		return errors.New("NBTTransport has no field of type net.Conn")
	}
	f := v.Field(found)
	reflect.NewAt(f.Type(), unsafe.Pointer(f.UnsafeAddr())).Elem().Set(reflect.ValueOf(&conn).Elem())
	return nil
}

func newTransport(c *vf.Ctx, conn net.Conn) *nbt.NBTTransport {
	t := nbt.NewNBTTransport()
	if err := attach(t, conn); err != nil {
		c.Fatalf("cannot give the transport its scripted connection: %v", err)
	}
	return t
}

// frame is the RFC 1002 §4.3.1 session message: type 0x00, flags (bit 0 = length bit 16), 16-bit length, payload.
func frame(payload []byte) []byte {
	L := len(payload)
	if L > 0x1FFFF {
		panic("frame: payload does not fit 17 bits")
	}
	out := []byte{0x00, byte(L >> 16 & 1), byte(L >> 8), byte(L)}
	return append(out, payload...)
}

// payload content: every offset distinguishable within 64 KiB windows; variant 1 is all zero
// bytes (a mis-framed read then sees plausible "type 0, length 0" headers everywhere).
func content(n int, seed byte, variant int) []byte {
	b := make([]byte, n)
	if variant == 1 {
		return b
	}
	for i := range b {
		b[i] = byte(i) ^ byte(i>>8)*31 ^ seed
	}
	return b
}

func selfTest(c *vf.Ctx) {
	// RFC 1002 §4.3.1/4.3.2 layout on literal bytes
	if !bytes.Equal(frame([]byte{0xAA, 0xBB}), []byte{0, 0, 0, 2, 0xAA, 0xBB}) || !bytes.Equal(frame(make([]byte, 0x10001))[:4], []byte{0, 1, 0, 1}) ||
		!bytes.Equal(frame(make([]byte, 0x1FFFF))[:4], []byte{0, 1, 0xFF, 0xFF}) || !bytes.Equal(frame(nil), []byte{0, 0, 0, 0}) {
		c.Fatalf("frame() self-test failed")
	}
	// the scripted conn delivers exactly the scripted segments
	s := &scriptConn{stream: []byte{1, 2, 3, 4, 5}, segs: []int{2, 3, 5}}
	var got []int
	buf := make([]byte, 10)
	for {
		n, err := s.Read(buf)
		if err != nil {
			break
		}
		got = append(got, n)
	}
	if fmt.Sprint(got) != "[2 1 2]" {
		c.Fatalf("scriptConn self-test: segments %v", got)
	}
}

func lenClass(L int) string {
	switch {
	case L <= 0xFFFF:
		return "len-0..0xFFFF"
	case L <= 0x1FFFF:
		return "len-0x10000..0x1FFFF"
	}
	return "len-over-0x1FFFF"
}

// ------------------------------------------------------------------ Send

func sendLattice(c *vf.Ctx) {
	seen := map[int]bool{}
	var lens []int
	add := func(n int) {
		if n >= 0 && !seen[n] {
			seen[n] = true
			lens = append(lens, n)
		}
	}
	for _, n := range []int{0, 1, 2, 0xFFFE, 0xFFFF, 0x10000, 0x10001, 0x1FFFE, 0x1FFFF, 0x20000, 0x20001, 0x2FFFF} {
		add(n)
	}
	// far beyond the limit: where the length wraps in 24 bits (a one-byte flags field cannot hold more)
	for _, n := range []int{0x30000, 0xFFFFFF, 0x1000000, 0x1000001, 0x100FFFF, 0x1010000, 0x101FFFF, 0x1020000} {
		add(n)
	}
	if c.Thorough() {
		for n := 0; n <= 300; n++ {
			add(n)
		}
		for _, v := range enum.Pow2(19) {
			add(int(v))
		}
		add(0x30000)
		add(0x1000000)
	} else {
		for _, n := range []int{3, 4, 5, 127, 128, 255, 256, 257, 0x7FFF, 0x8000, 0x18000} {
			add(n)
		}
	}
	type sc struct{ L, variant int }
	var cases []sc
	for _, L := range lens {
		cases = append(cases, sc{L, 0}, sc{L, 1})
	}
	viaFactory := transport.NewTransport("nbt")
	_, isNBT := viaFactory.(*nbt.NBTTransport)
	c.Check("C11/transport/NewTransport-nbt-returns-NBTTransport", isNBT, func() string {
		return fmt.Sprintf("transport.NewTransport(\"nbt\") returned %T", viaFactory)
	})
	vf.Par(len(cases), func(i int) {
		L, variant := cases[i].L, cases[i].variant
		payload := content(L, 0x5A, variant)
		orig := append([]byte{}, payload...)
		conn := &scriptConn{}
		var snd interface {
			Send([]byte) (int, error)
		}
		if i%2 == 1 && isNBT {
			// exercise the same code through the smb_v10 Transport interface
			f := transport.NewTransport("nbt")
			if err := attach(f.(*nbt.NBTTransport), conn); err != nil {
				c.Fatalf("%v", err)
			}
			snd = f
		} else {
			snd = newTransport(c, conn)
		}
		var err error
		if p, msg, where := vf.Try(func() { _, err = snd.Send(payload) }); p {
			c.Fail("C11/send/no-panic@"+where, fmt.Sprintf("Send(%d bytes) panicked: %s", L, msg))
			return
		}
		c.Case([]byte("send"), []byte(fmt.Sprint(L, variant)))
		W := conn.written()
		cls := lenClass(L)
		desc := func() string {
			h := W
			if len(h) > 8 {
				h = h[:8]
			}
			return fmt.Sprintf("Send(payload of %d = 0x%X bytes, content %d) returned err=%v and wrote %d bytes in %d Write calls starting %x", L, L, variant, err, len(W), len(conn.wrote), h)
		}
		c.Check("C11/send/caller-buffer-unchanged", bytes.Equal(payload, orig), desc)
		if L > 0x1FFFF {
			c.Check("C11/send/"+cls+"/refused-with-error", err != nil, func() string {
				return desc() + "; a 17-bit length field cannot express this length, the payload must be refused"
			})
			c.Check("C11/send/"+cls+"/nothing-written", len(W) == 0, desc)
			return
		}
		if !c.Check("C11/send/"+cls+"/accepted", err == nil, desc) {
			c.Check("C11/send/"+cls+"/nothing-written-when-refused", len(W) == 0, desc)
			return
		}
		want := frame(payload)
		wd := func() string {
			return desc() + fmt.Sprintf("; RFC 1002 §4.3.1 frame starts %x and has %d bytes", want[:4], len(want))
		}
		if !c.Check("C11/send/"+cls+"/header-present", len(W) >= 4, wd) {
			return
		}
		c.Check("C11/send/"+cls+"/type-octet-is-session-message", W[0] == 0x00, wd)
		c.Check("C11/send/"+cls+"/flags-octet-is-length-bit-16", W[1] == want[1], wd)
		c.Check("C11/send/"+cls+"/length-field-is-low-16-bits-big-endian", W[2] == want[2] && W[3] == want[3], wd)
		c.Check("C11/send/"+cls+"/payload-follows-header-unchanged-and-nothing-else", bytes.Equal(W[4:], payload), wd)
		// loop back: a second transport receives what the first one wrote
		rc := &scriptConn{stream: W}
		rt := newTransport(c, rc)
		var got []byte
		var rerr error
		if p, msg, where := vf.Try(func() { got, rerr = rt.Receive() }); p {
			c.Fail("C11/receive/no-panic@"+where, fmt.Sprintf("Receive panicked on the bytes written by Send(%d bytes): %s", L, msg))
			return
		}
		c.Check("C11/loopback/"+cls+"/Receive-returns-the-payload-given-to-Send", rerr == nil && bytes.Equal(got, payload), func() string {
			return fmt.Sprintf("Send(%d bytes) then Receive on the written bytes: got %d bytes, err %v", L, len(got), rerr)
		})
	})
	// sequences of three sends over tiny lengths: frames are concatenated, no state carried over
	for a := 0; a <= 2; a++ {
		for b := 0; b <= 2; b++ {
			for d := 0; d <= 2; d++ {
				conn := &scriptConn{}
				t := newTransport(c, conn)
				var want []byte
				for i, L := range []int{a, b, d} {
					p := content(L, byte(0x30+i), 0)
					t.Send(p)
					want = append(want, frame(p)...)
				}
				c.Case([]byte("send3"), []byte{byte(a), byte(b), byte(d)})
				W := conn.written()
				c.Check("C11/send/sequence-of-sends-writes-concatenated-frames", bytes.Equal(W, want), func() string {
					return fmt.Sprintf("Send x3 with lengths %d,%d,%d wrote %x, want %x", a, b, d, W, want)
				})
			}
		}
	}
	// the same across the 64 KiB boundary, where the length-extension bit of the flags octet comes and goes: a
	// transport that keeps anything of the previous header (a frame buffer of its own, a remembered flags octet)
	// is seen by the send that follows a long one
	{
		big := []int{0, 1, 0xFFFF, 0x10000, 0x10001, 0x1FFFF}
		var seqs [][]int
		for _, a := range big {
			for _, b := range big {
				seqs = append(seqs, []int{a, b})
				for _, d := range big {
					if a >= 0xFFFF || b >= 0xFFFF {
						seqs = append(seqs, []int{a, b, d})
					}
				}
			}
		}
		vf.Par(len(seqs), func(i int) {
			seq := seqs[i]
			conn := &scriptConn{}
			t := newTransport(c, conn)
			var want []byte
			var hdrs []string
			for i, L := range seq {
				p := content(L, byte(0x50+i), 1)
				if pn, msg, where := vf.Try(func() { t.Send(p) }); pn {
					c.Fail("C11/send/no-panic@"+where, fmt.Sprintf("Send sequence %v panicked: %s", seq, msg))
					return
				}
				want = append(want, frame(p)...)
			}
			W := conn.written()
			off := 0
			for _, L := range seq {
				if off+4 <= len(W) {
					hdrs = append(hdrs, fmt.Sprintf("%x", W[off:off+4]))
				}
				off += 4 + L
			}
			c.Case([]byte("sendbig"), []byte(fmt.Sprint(seq)))
			c.Check("C11/send/sequence-of-sends-across-64KiB-writes-concatenated-frames", bytes.Equal(W, want), func() string {
				return fmt.Sprintf("Send sequence with lengths %v on one transport wrote %d bytes, want %d; headers found at the expected frame starts: %v", seq, len(W), len(want), hdrs)
			})
		})
	}
	// the same with a REFUSED send anywhere in the sequence: it must leave nothing behind (no byte on the
	// wire now, none in front of a later frame)
	over := make([]byte, 0x20000)
	alpha := []int{0, 1, 2, -1} // -1 = the oversize payload
	for a := range alpha {
		for b := range alpha {
			for d := range alpha {
				for e := range alpha {
					seq := []int{alpha[a], alpha[b], alpha[d], alpha[e]}
					nOver := 0
					for _, L := range seq {
						if L < 0 {
							nOver++
						}
					}
					if nOver == 0 {
						continue
					}
					conn := &scriptConn{}
					t := newTransport(c, conn)
					var want []byte
					refusedOK := true
					pan := ""
					for i, L := range seq {
						var p []byte
						if L < 0 {
							p = over
						} else {
							p = content(L, byte(0x40+i), 0)
							want = append(want, frame(p)...)
						}
						var err error
						if pn, msg, where := vf.Try(func() { _, err = t.Send(p) }); pn {
							pan = msg + " at " + where
							break
						}
						if L < 0 && err == nil {
							refusedOK = false
						}
					}
					c.Case([]byte("send4"), []byte{byte(a), byte(b), byte(d), byte(e)})
					if pan != "" {
						c.Fail("C11/send/no-panic", fmt.Sprintf("Send sequence %v (-1 = 0x20000 bytes) panicked: %s", seq, pan))
						continue
					}
					W := conn.written()
					c.Check("C11/send/sequence-with-refused-sends-writes-exactly-the-accepted-frames", refusedOK && bytes.Equal(W, want), func() string {
						return fmt.Sprintf("Send x4 with lengths %v (-1 = 0x20000 bytes, must be refused; refused=%v) wrote %x, want %x", seq, refusedOK, W, want)
					})
				}
			}
		}
	}
	c.Sample("send", map[string]any{"lengths": lens})
}

// otherPacketTypes: a session-service stream also carries packets that are NOT session messages (keep-alive 0x85,
// and the types a peer must not send mid-session: 0x81..0x84). Whatever the transport does with such a packet - an
// error, or skipping it - every value Receive returns WITHOUT an error is one of the messages the peer sent, whole
// and in order: it never hands out a message nobody sent, and never a message twice. Streams [A] [other packet] [B]
// for message lengths {0,1,5}, every packet type, packet lengths {0, 3} and every segmentation into two reads.
func otherPacketTypes(c *vf.Ctx) {
	n := 0
	for _, typ := range []byte{0x85, 0x81, 0x82, 0x83, 0x84, 0x01, 0xFF} {
		for _, plen := range []int{0, 3} {
			for _, la := range []int{0, 1, 5} {
				for _, lb := range []int{0, 1, 5} {
					A, B := content(la, 0x61, 0), content(lb, 0x71, 0)
					other := append([]byte{typ, 0, 0, byte(plen)}, content(plen, 0x11, 0)...)
					stream := append(append(append([]byte{}, frame(A)...), other...), frame(B)...)
					for cut := 0; cut <= len(stream); cut++ {
						conn := &scriptConn{stream: stream, segs: []int{cut, len(stream)}}
						if cut == 0 || cut == len(stream) {
							conn.segs = nil
						}
						t := newTransport(c, conn)
						var got [][]byte
						pan := ""
						for call := 0; call < 6; call++ {
							var m []byte
							var err error
							if p, msg, where := vf.Try(func() { m, err = t.Receive() }); p {
								pan = msg + " at " + where
								break
							}
							if err == nil {
								got = append(got, append([]byte{}, m...))
							}
						}
						n++
						c.Evals(1)
						c.Case([]byte("otherpkt"), []byte{typ, byte(plen), byte(la), byte(lb), byte(cut)})
						// got must be a subsequence-prefix of [A, B]: [], [A], [B], or [A, B]
						ok := pan == ""
						want := [][]byte{A, B}
						wi := 0
						for _, g := range got {
							for wi < len(want) && !bytes.Equal(g, want[wi]) {
								wi++
							}
							if wi == len(want) {
								ok = false
								break
							}
							wi++
						}
						c.Check("C11/receive/other-packet-types/every-message-returned-without-error-was-sent-and-is-returned-once", ok, func() string {
							return fmt.Sprintf("stream [message %x] [packet type %#02x with %d payload bytes] [message %x], read in segments cut at %d: Receive returned without error %x (panic %q); the peer sent only the two messages", A, typ, plen, B, cut, got, pan)
						})
					}
				}
			}
		}
	}
	c.Set("other_packet_type_streams", n)
}

// ------------------------------------------------------------------ Receive oracle

type stream struct {
	lens    []int
	variant int
	bytes   []byte
	ends    []int // offset just after frame i
	class   string
}

func mkStream(lens []int, variant int) *stream {
	s := &stream{lens: lens, variant: variant, class: "frames-under-64KiB"}
	for i, L := range lens {
		s.bytes = append(s.bytes, frame(content(L, byte(17*i+1), variant))...)
		s.ends = append(s.ends, len(s.bytes))
		if L > 0xFFFF {
			s.class = "frames-with-length-bit-16"
		}
	}
	return s
}

func (s *stream) payload(i int) []byte { return s.bytes[s.ends[i]-s.lens[i] : s.ends[i]] }

type script struct {
	s    *stream
	segs []int // ascending segment ends (offsets), may be nil
	cut  int   // bytes delivered before the end of stream
	end  endKind
}

func (sc *script) String() string {
	var sizes []string
	last := 0
	for _, e := range sc.segs {
		if e > sc.cut {
			break
		}
		if e > last {
			sizes = append(sizes, fmt.Sprint(e-last))
			last = e
		}
	}
	if sc.cut > last {
		sizes = append(sizes, fmt.Sprint(sc.cut-last))
	}
	if len(sizes) > 24 {
		sizes = append(sizes[:24], "…")
	}
	return fmt.Sprintf("stream of frames with payload lengths %v (content %d, %d bytes in total), delivered in segments of %s bytes, then %s after byte offset %d",
		sc.s.lens, sc.s.variant, len(sc.s.bytes), strings.Join(sizes, "+"), sc.end, sc.cut)
}

var executions int64

// runScript drives Receive until it reports an error and checks the oracle:
// exactly the payloads wholly delivered before the cut, in order, then an error.
func runScript(c *vf.Ctx, sc *script, obs func(string)) {
	atomic.AddInt64(&executions, 1)
	s := sc.s
	conn := &scriptConn{stream: s.bytes[:sc.cut], segs: sc.segs, end: sc.end}
	t := newTransport(c, conn)
	complete := 0
	for complete < len(s.ends) && s.ends[complete] <= sc.cut {
		complete++
	}
	pre := "C11/receive/" + s.class + "/"
	// every message handed out stays the caller's: re-checked after ALL later Receive calls of the stream
	var held [][]byte
	defer func() {
		for i, h := range held {
			want := s.payload(i)
			c.Check(pre+"earlier-message-unchanged-by-later-Receive", bytes.Equal(h, want), func() string {
				return fmt.Sprintf("the %d-byte message returned by Receive call %d reads %s after the later Receive calls (it was %s): the returned slice shares memory with later frames; %s", len(want), i+1, vf.HexS(h), vf.HexS(want), sc)
			})
		}
	}()
	for i := 0; i <= complete; i++ {
		var got []byte
		var err error
		if p, msg, where := vf.Try(func() { got, err = t.Receive() }); p {
			c.Fail("C11/receive/no-panic@"+where, fmt.Sprintf("Receive call %d panicked: %s; %s", i+1, msg, sc))
			obs("panic")
			return
		}
		if i < complete {
			want := s.payload(i)
			ok := err == nil && bytes.Equal(got, want)
			c.Check(pre+"complete-frame-is-delivered-intact", ok, func() string {
				return fmt.Sprintf("Receive call %d returned %d bytes (%s), err %v; want the %d-byte payload of frame %d; %s", i+1, len(got), vf.HexS(got), err, len(want), i+1, sc)
			})
			obs(fmt.Sprintf("p%d:%v", len(got), err == nil))
			if !ok {
				return
			}
			held = append(held, got)
			continue
		}
		// nothing complete is left: partial frame or end of stream
		kind := "end-of-stream-between-frames"
		start := 0
		if complete > 0 {
			start = s.ends[complete-1]
		}
		if sc.cut > start {
			kind = "cut-inside-header"
			if sc.cut >= start+4 {
				kind = "cut-inside-payload"
			}
		}
		c.Check(pre+kind+"/Receive-reports-an-error", err != nil, func() string {
			return fmt.Sprintf("Receive call %d returned a %d-byte message (%s) and no error although only %d bytes of frame %d had arrived; %s", i+1, len(got), vf.HexS(got), sc.cut-start, complete+1, sc)
		})
		c.Check(pre+kind+"/error-result-carries-no-data", err == nil || len(got) == 0, func() string {
			return fmt.Sprintf("Receive call %d returned error %v together with %d bytes (%s); %s", i+1, err, len(got), vf.HexS(got), sc)
		})
		obs(fmt.Sprintf("e:%v", err != nil))
	}
}

// ------------------------------------------------------------------ one transport used in both directions

// gracefulClose: the one part of C11 that runs over a REAL loopback TCP connection, because what it looks at is
// a kernel matter no scripted connection shows: payloads that Send has accepted reach the peer although the
// sender closes at once (an abortive close - SO_LINGER 0 - discards them and resets the peer). The peer starts
// reading only after Close has returned. Auxiliary (one schedule, real sockets); skipped and reported as a cap
// when the sandbox offers no loopback listener.
func gracefulClose(c *vf.Ctx) {
	ln, err := net.Listen("tcp", "127.0.0.1:0")
	if err != nil {
		c.Cap("no loopback listener for the graceful-close scenario: " + err.Error())
		return
	}
	defer ln.Close()
	type res struct {
		data []byte
		err  error
	}
	closed := make(chan struct{})
	out := make(chan res, 1)
	go func() {
		conn, err := ln.Accept()
		if err != nil {
			out <- res{nil, err}
			return
		}
		defer conn.Close()
		<-closed
		time.Sleep(20 * time.Millisecond)
		conn.SetReadDeadline(time.Now().Add(5 * time.Second))
		b, err := io.ReadAll(conn)
		out <- res{b, err}
	}()
	conn, err := net.Dial("tcp", ln.Addr().String())
	if err != nil {
		c.Cap("cannot dial the loopback listener: " + err.Error())
		return
	}
	t := nbt.NewNBTTransport()
	if err := attach(t, conn); err != nil {
		c.Cap("cannot give the transport the loopback connection: " + err.Error())
		conn.Close()
		close(closed)
		return
	}
	var want []byte
	okSend := true
	for i := 0; i < 4; i++ {
		p := content(0x8000, byte(i+1), 1)
		if _, err := t.Send(p); err != nil {
			okSend = false
		}
		want = append(want, frame(p)...)
	}
	vf.Try(func() { t.Close() })
	close(closed)
	r := <-out
	c.Evals(1)
	c.Check("C11/close/payloads-accepted-by-Send-reach-the-peer-although-the-sender-closes-at-once", okSend && r.err == nil && bytes.Equal(r.data, want), func() string {
		return fmt.Sprintf("4 Sends of 32 KiB accepted (all ok=%v), then Close; the peer, reading afterwards, got %d of %d bytes, err=%v", okSend, len(r.data), len(want), r.err)
	})
}

// dialogue explores every sequence of up to 4 (thorough: 6) operations over {Send(a), Send(b), Receive, IsConnected} on
// one transport whose peer has ALREADY sent 0..3 frames (a fast server, pipelining, an unsolicited frame):
// the two directions are independent - the k-th Receive returns the k-th frame the peer sent (an error once
// they are used up), the peer gets exactly the frames of the payloads sent, in order - and asking whether the
// transport is connected consumes nothing.
func dialogue(c *vf.Ctx) {
	pre := "C11/dialogue/"
	pay := [][]byte{[]byte("hello, request"), {}}
	peers := [][]int{{}, {20}, {3, 0}, {0, 5, 1}}
	maxLen := 4
	if c.Thorough() {
		maxLen = 6
		peers = append(peers, []int{1, 1, 1, 1}, []int{300, 2})
	}
	for _, pl := range peers {
		st := mkStream(pl, 1)
		for _, oneByte := range []bool{false, true} {
			var segs []int
			if oneByte {
				for i := 1; i <= len(st.bytes); i++ {
					segs = append(segs, i)
				}
			}
			var seq []int
			var rec func()
			rec = func() {
				if len(seq) > 0 {
					atomic.AddInt64(&executions, 1)
					conn := &scriptConn{stream: st.bytes, segs: segs, end: endEOF}
					t := newTransport(c, conn)
					name := func() string {
						var w []string
						for _, o := range seq {
							w = append(w, [...]string{"Send(14 bytes)", "Send(0 bytes)", "Receive", "IsConnected"}[o])
						}
						seg := "one segment"
						if oneByte {
							seg = "one-byte segments"
						}
						return fmt.Sprintf("peer has already sent frames with payload lengths %v (%s); operations %s", pl, seg, strings.Join(w, "; "))
					}
					c.Case([]byte("dialogue"), []byte(fmt.Sprint(pl, oneByte, seq)))
					var want []byte
					got := 0
					ok := true
					for i, o := range seq {
						switch o {
						case 0, 1:
							var n int
							var err error
							if p, msg, where := vf.Try(func() { n, err = t.Send(pay[o]) }); p {
								c.Fail(pre+"no-panic@"+where, fmt.Sprintf("operation %d panicked: %s; %s", i+1, msg, name()))
								return
							}
							want = append(want, frame(pay[o])...)
							c.Check(pre+"send-accepted", err == nil, func() string {
								return fmt.Sprintf("operation %d: Send = (%d, %v); %s", i+1, n, err, name())
							})
						case 2:
							var m []byte
							var err error
							if p, msg, where := vf.Try(func() { m, err = t.Receive() }); p {
								c.Fail(pre+"no-panic@"+where, fmt.Sprintf("operation %d panicked: %s; %s", i+1, msg, name()))
								return
							}
							if got < len(pl) {
								w := st.payload(got)
								good := err == nil && bytes.Equal(m, w)
								c.Check(pre+"k-th-Receive-returns-k-th-frame-whatever-was-sent-or-asked-in-between", good, func() string {
									return fmt.Sprintf("operation %d: Receive = (%d bytes %s, %v), want the %d-byte payload %s of the peer's frame %d; %s", i+1, len(m), vf.HexS(m), err, len(w), vf.HexS(w), got+1, name())
								})
								ok = ok && good
								got++
							} else {
								c.Check(pre+"Receive-after-the-last-frame-reports-an-error", err != nil && len(m) == 0, func() string {
									return fmt.Sprintf("operation %d: Receive = (%d bytes %s, %v) although the peer's %d frames had all been received and the stream had ended; %s", i+1, len(m), vf.HexS(m), err, len(pl), name())
								})
							}
						case 3:
							if p, msg, where := vf.Try(func() { t.IsConnected() }); p {
								c.Fail(pre+"no-panic@"+where, fmt.Sprintf("operation %d panicked: %s; %s", i+1, msg, name()))
								return
							}
						}
						if !ok {
							break
						}
					}
					w := conn.written()
					c.Check(pre+"peer-gets-exactly-the-frames-of-the-payloads-sent", bytes.Equal(w, want), func() string {
						return fmt.Sprintf("the peer received %s, want %s; %s", vf.HexS(w), vf.HexS(want), name())
					})
				}
				if len(seq) == maxLen {
					return
				}
				for o := 0; o < 4; o++ {
					seq = append(seq, o)
					rec()
					seq = seq[:len(seq)-1]
				}
			}
			rec()
		}
	}
}

// ------------------------------------------------------------------ one transport, two connections in a row

// reconnect explores the histories [connection A; k Receives; (Close)?; connection B; Receive ... until error;
// Send]: framing is per connection, so everything read after the switch must be B's frames, from B's first
// byte, whatever had already arrived on A (a second frame or half a frame in the same segment), and a
// Send goes to B only. Replacing the connection is modelled by storing the new net.Conn in the transport,
// which is all Connect does with a successful dial.
func reconnect(c *vf.Ctx) {
	type lensT = []int
	as := []lensT{{1}, {1, 2}, {0, 1}, {2, 0, 1}}
	bs := []lensT{{2}, {3, 0}, {0}}
	pre := "C11/reconnect/"
	n := 0
	for _, al := range as {
		A := mkStream(al, 0)
		for _, bl := range bs {
			B := &stream{lens: bl, class: "frames-under-64KiB"}
			for i, L := range bl {
				B.bytes = append(B.bytes, frame(content(L, byte(0x80+29*i), 0))...)
				B.ends = append(B.ends, len(B.bytes))
			}
			for cutA := 0; cutA <= len(A.bytes); cutA++ {
				complete := 0
				for complete < len(A.ends) && A.ends[complete] <= cutA {
					complete++
				}
				nb := cutA - 1
				if nb < 0 {
					nb = 0
				}
				for segMask := 0; segMask < 1<<uint(nb); segMask++ {
					var segs []int
					for b := 0; b < nb; b++ {
						if segMask>>uint(b)&1 == 1 {
							segs = append(segs, b+1)
						}
					}
					segs = append(segs, cutA)
					for k := 0; k <= complete; k++ {
						for _, closeFirst := range []bool{false, true} {
							n++
							c.Case([]byte("reconnect"), A.bytes, B.bytes, []byte{byte(cutA), byte(segMask), byte(segMask >> 8), byte(k), boolB(closeFirst)})
							desc := func() string {
								return fmt.Sprintf("connection A carries frames with payload lengths %v (%d of its %d bytes arrived, segment ends %v); %d Receive calls; Close=%v; then connection B carrying frames with payload lengths %v", al, cutA, len(A.bytes), segs, k, closeFirst, bl)
							}
							ca := &scriptConn{stream: A.bytes[:cutA], segs: segs}
							t := newTransport(c, ca)
							okA := true
							for i := 0; i < k && okA; i++ {
								var got []byte
								var err error
								if p, msg, where := vf.Try(func() { got, err = t.Receive() }); p {
									c.Fail("C11/receive/no-panic@"+where, fmt.Sprintf("Receive panicked: %s; %s", msg, desc()))
									okA = false
									break
								}
								okA = err == nil && bytes.Equal(got, A.payload(i))
								c.Check(pre+"first-connection-frames-delivered-intact", okA, func() string {
									return fmt.Sprintf("%s: Receive call %d on A returned %s err=%v, want %s", desc(), i+1, vf.HexS(got), err, vf.HexS(A.payload(i)))
								})
							}
							if !okA {
								continue
							}
							if closeFirst {
								vf.Try(func() { t.Close() })
							}
							cb := &scriptConn{stream: B.bytes}
							if err := attach(t, cb); err != nil {
								// under the dial seam: Connect returned without dialling (or failed) although the first
								// session had ended / been closed - the caller asked for a connection and has none
								c.Check(pre+"second-Connect-to-the-same-server-establishes-a-new-connection", false, func() string {
									return fmt.Sprintf("%s: the second Connect (same address): %v", desc(), err)
								})
								continue
							}
							c.Check(pre+"second-Connect-to-the-same-server-establishes-a-new-connection", true, nil)
							for i := 0; i <= len(bl); i++ {
								var got []byte
								var err error
								if p, msg, where := vf.Try(func() { got, err = t.Receive() }); p {
									c.Fail("C11/receive/no-panic@"+where, fmt.Sprintf("Receive panicked: %s; %s", msg, desc()))
									break
								}
								if i < len(bl) {
									ok := err == nil && bytes.Equal(got, B.payload(i))
									c.Check(pre+"after-switching-connections-Receive-delivers-the-new-connections-frames", ok, func() string {
										return fmt.Sprintf("%s: Receive call %d after the switch returned %s err=%v, want B's frame %d = %s", desc(), i+1, vf.HexS(got), err, i+1, vf.HexS(B.payload(i)))
									})
									if !ok {
										break
									}
									continue
								}
								c.Check(pre+"after-switching-connections-end-of-stream-is-an-error", err != nil && len(got) == 0, func() string {
									return fmt.Sprintf("%s: after B's last frame Receive returned %s err=%v", desc(), vf.HexS(got), err)
								})
							}
							msg := []byte{0xde, 0xad}
							var serr error
							if p, m, where := vf.Try(func() { _, serr = t.Send(msg) }); p {
								c.Fail("C11/send/no-panic@"+where, fmt.Sprintf("Send panicked: %s; %s", m, desc()))
								continue
							}
							c.Check(pre+"after-switching-connections-Send-writes-one-frame-to-the-new-connection-only", serr == nil && bytes.Equal(cb.written(), frame(msg)) && len(ca.written()) == 0, func() string {
								return fmt.Sprintf("%s: Send(dead) err=%v wrote %s to B and %s to A", desc(), serr, vf.HexS(cb.written()), vf.HexS(ca.written()))
							})
						}
					}
				}
			}
		}
	}
	c.Set("reconnect_histories", n)
}

func boolB(b bool) byte {
	if b {
		return 1
	}
	return 0
}

// ------------------------------------------------------------------ small streams: all segmentations x all cuts

func receiveSmall(c *vf.Ctx) {
	maxTotal := c.Pick(12, 14)
	var streams []*stream
	var gen func(prefix []int, total int)
	gen = func(prefix []int, total int) {
		if len(prefix) > 0 {
			streams = append(streams, mkStream(append([]int{}, prefix...), 0))
			if total > 4*len(prefix) { // some payload bytes exist: also the all-zero content
				streams = append(streams, mkStream(append([]int{}, prefix...), 1))
			}
		}
		if len(prefix) == 3 {
			return
		}
		for L := 0; total+4+L <= maxTotal; L++ {
			gen(append(prefix, L), total+4+L)
		}
	}
	gen(nil, 0)
	ends := []endKind{endEOF, endEOFWithData}
	if c.Thorough() {
		ends = append(ends, endReset)
	}
	var mu sync.Mutex
	var stats explore.Stats
	vf.Par(len(streams)*len(ends), func(idx int) {
		s, end := streams[idx/len(ends)], ends[idx%len(ends)]
		n := len(s.bytes)
		segmentations := map[string]bool{}
		ex := &explore.Explorer{Bound: n, Stop: c.DeadlineExceeded}
		ex.Body = func(r *explore.Run) {
			var segs []int
			for i := 1; i < n; i++ {
				if r.Choose(2, "boundary") == 1 {
					segs = append(segs, i)
				}
			}
			segs = append(segs, n)
			cut := n
			if alt := r.Choose(n+1, "cut"); alt > 0 {
				cut = alt - 1
			}
			if cut == n {
				segmentations[fmt.Sprint(segs)] = true
			}
			sc := &script{s: s, segs: segs, cut: cut, end: end}
			c.Case([]byte("rx"), []byte(fmt.Sprint(s.lens, s.variant, segs, cut, end)))
			runScript(c, sc, r.ObserveS)
		}
		st, err := ex.Explore()
		if err != nil {
			c.Fatalf("explorer: %v", err)
		}
		if !st.CapHit {
			want := 0
			enum.Compositions(n, func([]int) { want++ })
			if len(segmentations) != want || st.Executions != int64(want)*int64(n+1) {
				c.Fatalf("stream %v: explored %d segmentations / %d executions, enum.Compositions gives %d x %d cuts", s.lens, len(segmentations), st.Executions, want, n+1)
			}
			if st.DistinctOutcomes <= 1 {
				c.Fatalf("stream %v: exploration is vacuous (%d distinct outcomes)", s.lens, st.DistinctOutcomes)
			}
		} else {
			c.Cap("small-stream exploration stopped by the deadline")
		}
		mu.Lock()
		stats.Executions += st.Executions
		stats.ChoicePoints += st.ChoicePoints
		if st.MaxDepth > stats.MaxDepth {
			stats.MaxDepth = st.MaxDepth
		}
		stats.DistinctOutcomes += st.DistinctOutcomes
		mu.Unlock()
	})
	c.Set("small_streams", map[string]any{"streams": len(streams), "end_kinds": len(ends), "max_total_bytes": maxTotal, "executions": stats.Executions,
		"choice_points": stats.ChoicePoints, "max_depth": stats.MaxDepth, "distinct_outcomes_summed": stats.DistinctOutcomes})
	c.Sample("receive-script", (&script{s: streams[len(streams)/2], segs: []int{1, 4, 5}, cut: 5, end: endEOF}).String())
}

// ------------------------------------------------------------------ large streams: single boundaries, every cut, pairs at edges

func receiveLarge(c *vf.Ctx) {
	lensList := [][]int{{0xFFFF}, {0x10000}, {0x1FFFF}, {1, 0x10000, 2}, {300, 0}}
	if c.Thorough() {
		lensList = append(lensList, []int{0xFFFE}, []int{0x10001}, []int{0x1FFFE}, []int{0x10000, 0x10000}, []int{0xFFFF, 0, 0x1FFFF}, []int{0x8000, 0x18000}, []int{2, 0xFFFF, 1})
	}
	ends := []endKind{endEOF}
	if c.Thorough() {
		ends = append(ends, endEOFWithData, endReset)
	}
	type job struct {
		s      *stream
		end    endKind
		lo, hi int  // shard of offsets [lo,hi) for the bound-1 exploration
		edges  bool // the bound-2 exploration around edges instead
	}
	var jobs []job
	const shard = 1024
	for _, lens := range lensList {
		for variant := 0; variant < 2; variant++ {
			if variant == 1 && c.Quick() && lens[0] != 0x10000 {
				continue
			}
			s := mkStream(lens, variant)
			for _, e := range ends {
				for lo := 0; lo <= len(s.bytes); lo += shard {
					hi := lo + shard
					if hi > len(s.bytes)+1 {
						hi = len(s.bytes) + 1
					}
					jobs = append(jobs, job{s: s, end: e, lo: lo, hi: hi})
				}
				jobs = append(jobs, job{s: s, end: e, edges: true})
			}
		}
	}
	var mu sync.Mutex
	var execs, outcomes int64
	vf.Par(len(jobs), func(ji int) {
		j := jobs[ji]
		s := j.s
		n := len(s.bytes)
		ex := &explore.Explorer{Stop: c.DeadlineExceeded}
		if !j.edges {
			// one deviation: either one segment boundary at an offset of this shard, or a cut at an offset of this shard
			ex.Bound = 1
			w := j.hi - j.lo
			ex.Body = func(r *explore.Run) {
				var segs []int
				cut := n
				if a := r.Choose(w+1, "boundary-in-shard"); a > 0 {
					if off := j.lo + a - 1; off >= 1 && off < n {
						segs = []int{off}
					}
				}
				if a := r.Choose(w+1, "cut-in-shard"); a > 0 {
					cut = j.lo + a - 1
				}
				segs = append(segs, n)
				c.Case([]byte("rxL"), []byte(fmt.Sprint(s.lens, s.variant, segs, cut, j.end)))
				runScript(c, &script{s: s, segs: segs, cut: cut, end: j.end}, r.ObserveS)
			}
		} else {
			// two deviations among the offsets within 2 bytes of a frame start, header end or frame end
			var offs []int
			seen := map[int]bool{}
			start := 0
			for _, e := range s.ends {
				for _, base := range []int{start, start + 4, e} {
					for d := -2; d <= 2; d++ {
						if o := base + d; o >= 0 && o <= n && !seen[o] {
							seen[o] = true
							offs = append(offs, o)
						}
					}
				}
				start = e
			}
			ex.Bound = 2
			ex.Body = func(r *explore.Run) {
				var segs []int
				for _, o := range offs {
					if o >= 1 && o < n && r.Choose(2, "edge-boundary") == 1 {
						segs = append(segs, o)
					}
				}
				// offs is built frame by frame; keep the boundaries ascending
				for i := 1; i < len(segs); i++ {
					for k := i; k > 0 && segs[k] < segs[k-1]; k-- {
						segs[k], segs[k-1] = segs[k-1], segs[k]
					}
				}
				cut := n
				if a := r.Choose(len(offs)+1, "edge-cut"); a > 0 {
					cut = offs[a-1]
				}
				segs = append(segs, n)
				c.Case([]byte("rxE"), []byte(fmt.Sprint(s.lens, s.variant, segs, cut, j.end)))
				runScript(c, &script{s: s, segs: segs, cut: cut, end: j.end}, r.ObserveS)
			}
		}
		st, err := ex.Explore()
		if err != nil {
			c.Fatalf("explorer: %v", err)
		}
		if st.CapHit {
			c.Cap("large-stream exploration stopped by the deadline")
		}
		mu.Lock()
		execs += st.Executions
		outcomes += int64(st.DistinctOutcomes)
		mu.Unlock()
	})
	if outcomes <= int64(len(jobs)) && len(jobs) > 0 {
		c.Fatalf("large-stream exploration is vacuous: %d outcomes over %d jobs", outcomes, len(jobs))
	}
	c.Set("large_streams", map[string]any{"streams": lensList, "jobs": len(jobs), "executions": execs, "distinct_outcomes_summed": outcomes})
	c.Set("receive_executions", atomic.LoadInt64(&executions))
}
