#!/bin/bash
exec "$(dirname "$(readlink -f "$0")")/../../tools/dialprebuild.sh" "$1" c11dial
