// C10 — NetBIOS first-level name encoding and NBNS packets vs RFC 1001 §14.1 / RFC 1002 §4.2.
// E4: every position x all 256 byte values of 16-byte names on three backgrounds, lengths
// 0..16, scope lattices; packets over header words, section sizes {0,1,2}^4, type/class/TTL
// words and RDATA lengths; oracle = own half-ASCII encoder and own RFC 1002 parser (verif/ref/refnbns).
package main

import (
	"bytes"
	"fmt"
	"strings"

	"github.com/TheManticoreProject/Manticore/network/netbios/nbtns"

	"verif/enum"
	"verif/ref/refnbns"
	"verif/vf"
)

func main() { vf.Main("C10", "exploration", run) }

func run(c *vf.Ctx) {
	if err := refnbns.SelfTest(); err != nil {
		c.Fatalf("%v", err)
	}
	c.Rule("names: every position 0..15 x every byte value 0..255 on backgrounds 'A', 0x00 and ' ' (16-byte names), every length 0..16 with counter content and with trailing spaces, all two-position pairs over {00,20,2A,2E,FF}, positions (0,1) and (14,15) (thorough: every adjacent pair and (0,15)) x all 65536 value pairs; " +
		"scopes: 0..3 labels from all strings of length 1..2 (thorough 3) over {a,9,-} that are valid labels, plus every label length 1..63 (letters inside and outside A..P) and totals up to the 255-octet name limit; " +
		"packets: TransactionID and Flags over Words(16), section sizes {0,1,2}^4 x rotations through the name set, type/class Words(16) and TTL Words(32) in every section, RDATA lengths {0,4,6,255,256,65535}(+thorough) per RR section and position. " +
		"distinct = distinct (function,input) pairs / wire images reaching a comparison")
	c.Assume("RFC 1001 §14.1: names shorter than 16 bytes are space padded, so equality of names is modulo trailing spaces; names starting with '*' may be refused (RFC 1001 §5.2) but never mis-encoded")
	c.Assume("header count words are exercised only with the values the section sizes give (0,1,2); a count such as 0x8000 needs 32768 records and is not generated")
	names := nameLattice(c)
	scopes := scopeLattice(c)
	c.Set("names", len(names))
	c.Set("scopes", len(scopes))
	nameObligations(c, names, scopes)
	packetObligations(c, names, scopes)
	histories(c)
	editedPacket(c)
	editedName(c)
	rewrittenDecodeResults(c)
}

// ------------------------------------------------------------------ lattices

func nameLattice(c *vf.Ctx) []string {
	seen := map[string]bool{}
	var out []string
	add := func(b []byte) {
		s := string(b)
		if !seen[s] {
			seen[s] = true
			out = append(out, s)
		}
	}
	for n := 0; n <= 16; n++ {
		add(enum.Counter(n, 'A'))
		add(enum.Counter(n, 0x00))
		add(enum.Fill(n, ' '))
		add(enum.Fill(n, 0xFF))
		if n >= 1 {
			b := enum.Fill(n, ' ')
			b[0] = 'x'
			add(b) // trailing spaces given explicitly
			b = enum.Counter(n, 'a')
			b[n-1] = 0x20
			add(b)
		}
	}
	for _, bg := range []byte{'A', 0x00, ' '} {
		for _, b := range enum.BytePos(16, bg, enum.AllBytes()) {
			add(b)
		}
	}
	special := []byte{0x00, 0x20, 0x2A, 0x2E, 0xFF}
	for p := 0; p < 16; p++ {
		for q := p + 1; q < 16; q++ {
			for _, v := range special {
				for _, w := range special {
					b := enum.Fill(16, 'N')
					b[p], b[q] = v, w
					add(b)
				}
			}
		}
	}
	add([]byte("FRED"))
	// names whose own bytes look like a notation for something else: the nbtstat "<20>" suffix notation, a
	// dot, a scope-like tail - to the codec they are 16 bytes like any other
	for _, n := range []string{"AB<20>", "PRN<1b>", "FILESRV<20>", "<00>", "X<1B>", "WORKGROUP<1e>", "A.B", "NAME.SCOPE", "<>", "12345678901<20>"} {
		add([]byte(n))
	}
	add([]byte("WORKGROUP      \x1e"))
	add([]byte("\x01\x02__MSBROWSE__\x02\x01"))
	return out
}

func validLabel(s string) bool {
	return s != "" && len(s) <= 63 && !strings.HasPrefix(s, "-") && !strings.HasSuffix(s, "-")
}

// scopeLattice returns scopes as label lists (nil = no scope).
func scopeLattice(c *vf.Ctx) [][]string {
	var labels []string
	for _, s := range enum.Strings([]string{"a", "9", "-"}, c.Pick(2, 3)) {
		if validLabel(s) {
			labels = append(labels, s)
		}
	}
	out := [][]string{nil}
	for _, a := range labels {
		out = append(out, []string{a})
		for _, b := range labels {
			out = append(out, []string{a, b})
			if c.Thorough() || len(a)+len(b) <= 3 {
				for _, d := range labels {
					if c.Thorough() || len(d) == 1 {
						out = append(out, []string{a, b, d})
					}
				}
			}
		}
	}
	long := func(n int, ch byte) string { return string(enum.Fill(n, ch)) }
	out = append(out,
		[]string{"NETBIOS", "COM"},
		[]string{long(62, 'a')}, []string{long(63, 'b')},
		[]string{long(63, 'a'), long(63, 'b')},
		[]string{long(63, 'a'), long(63, 'b'), long(63, 'c')},
		// 1+32 + 3*64 + (1+27) + 1 = 254, and with 28: 255 = the RFC 1002 limit
		[]string{long(63, 'a'), long(63, 'b'), long(63, 'c'), long(27, 'd')},
		[]string{long(63, 'a'), long(63, 'b'), long(63, 'c'), long(28, 'd')},
		[]string{"a-b", "Z9", "x"},
	)
	// every label length 1..63, once with characters outside and once inside the half-ASCII range 'A'..'P'
	// (a 32-character scope label is as long as the encoded NetBIOS label in front of it and must not be taken for it)
	for n := 1; n <= 63; n++ {
		out = append(out, []string{long(n, 'z')}, []string{long(n, 'B')})
	}
	for _, n := range []int{31, 32, 33} {
		out = append(out, []string{"x", long(n, 'q')}, []string{long(n, 'C'), long(n, 'q')})
	}
	return out
}

func padEq(libName string, want string) bool {
	if len(libName) > 16 || len(want) > 16 {
		return false
	}
	return refnbns.Pad(libName) == refnbns.Pad(want)
}

func refName(name string, scope []string) refnbns.Name {
	return refnbns.Name{Raw: refnbns.Pad(name), Scope: scope}
}

// ------------------------------------------------------------------ names

func nameObligations(c *vf.Ctx, names []string, scopes [][]string) {
	type nc struct {
		name  string
		scope []string
	}
	var cases []nc
	for _, n := range names {
		cases = append(cases, nc{n, nil})
	}
	for i, s := range scopes {
		for k := 0; k < 3; k++ {
			cases = append(cases, nc{names[(i*3+k*577)%len(names)], s})
		}
		cases = append(cases, nc{"FRED", s}, nc{"", s}, nc{string(enum.Counter(16, 0xF0)), s})
	}
	checkName := func(name string, scope []string) {
		scopeStr := strings.Join(scope, ".")
		c.Case([]byte("name"), []byte(name), []byte(scopeStr))
		n := &nbtns.NetBIOSName{Name: name, ScopeID: scopeStr}
		want := refnbns.FirstLevel(refnbns.Pad(name))
		if scopeStr != "" {
			want += "." + scopeStr
		}
		var enc string
		var err error
		if p, msg, where := vf.Try(func() { enc, err = n.FirstLevelEncode() }); p {
			c.Fail("C10/name/FirstLevelEncode/no-panic@"+where, fmt.Sprintf("NetBIOSName{%q,%q}.FirstLevelEncode panicked: %s", name, scopeStr, msg))
			return
		}
		if err != nil {
			// refusal is accepted only for the reserved leading '*'
			c.Check("C10/name/FirstLevelEncode/accepts-every-name-not-starting-with-asterisk", strings.HasPrefix(name, "*"), func() string {
				return fmt.Sprintf("NetBIOSName{Name:%q (%x), ScopeID:%q}.FirstLevelEncode() = error %v", name, name, scopeStr, err)
			})
			return
		}
		c.Pass("C10/name/FirstLevelEncode/accepts-every-name-not-starting-with-asterisk", 1)
		c.Check("C10/name/FirstLevelEncode/equals-RFC1001-half-ascii", enc == want, func() string {
			return fmt.Sprintf("NetBIOSName{Name:%q (%x), ScopeID:%q}.FirstLevelEncode() = %q, RFC 1001 §14.1 gives %q", name, name, scopeStr, enc, want)
		})
		// decode(encode(n)) == n modulo space padding
		var dec *nbtns.NetBIOSName
		if p, msg, where := vf.Try(func() { dec, err = nbtns.FirstLevelDecode(enc) }); p {
			c.Fail("C10/name/FirstLevelDecode/no-panic@"+where, fmt.Sprintf("FirstLevelDecode(%q) panicked: %s", enc, msg))
			return
		}
		c.Check("C10/name/FirstLevelDecode/inverts-FirstLevelEncode-name", err == nil && dec != nil && padEq(dec.Name, name), func() string {
			g := "<nil>"
			if dec != nil {
				g = fmt.Sprintf("%q (%x)", dec.Name, dec.Name)
			}
			return fmt.Sprintf("FirstLevelDecode(FirstLevelEncode(%q (%x))) = %s, %v", name, name, g, err)
		})
		c.Check("C10/name/FirstLevelDecode/inverts-FirstLevelEncode-scope", err == nil && dec != nil && dec.ScopeID == scopeStr, func() string {
			g := "<nil>"
			if dec != nil {
				g = dec.ScopeID
			}
			return fmt.Sprintf("FirstLevelDecode(%q).ScopeID = %q, want %q (%v)", enc, g, scopeStr, err)
		})
		// the reference's encoding of the same name is decoded to the same name
		if p, _, _ := vf.Try(func() { dec, err = nbtns.FirstLevelDecode(want) }); !p {
			c.Check("C10/name/FirstLevelDecode/reads-RFC1001-reference-encoding", err == nil && dec != nil && padEq(dec.Name, name) && dec.ScopeID == scopeStr, func() string {
				return fmt.Sprintf("FirstLevelDecode(%q) = %s, %v; want name %q scope %q", want, showName(dec), err, name, scopeStr)
			})
		}
	}
	vf.Par(len(cases), func(i int) { checkName(cases[i].name, cases[i].scope) })
	// two adjacent positions x all 65536 value pairs: the first two bytes (where '*' and the
	// length-16 suffix rules live), the last two (suffix byte and padding), thorough: every adjacent pair
	pairs := [][2]int{{0, 1}, {14, 15}}
	if c.Thorough() {
		pairs = nil
		for p := 0; p < 15; p++ {
			pairs = append(pairs, [2]int{p, p + 1})
		}
		pairs = append(pairs, [2]int{0, 15})
	}
	vf.Par(len(pairs)*256, func(i int) {
		pq, v := pairs[i/256], i%256
		for w := 0; w < 256; w++ {
			b := enum.Fill(16, 'N')
			b[pq[0]], b[pq[1]] = byte(v), byte(w)
			checkName(string(b), nil)
		}
	})
	c.Set("adjacent_position_pairs_x_65536", len(pairs))
	c.Sample("name", map[string]any{"name_hex": fmt.Sprintf("%x", names[len(names)/2]), "first_level": refnbns.FirstLevel(refnbns.Pad(names[len(names)/2]))})
}

// ------------------------------------------------------------------ packets

type rec struct {
	name  string
	scope []string
	typ   uint16
	class uint16
	ttl   uint32
	rdata []byte
}

type tpkt struct {
	id, flags uint16
	sec       [4][]rec
}

var secName = [4]string{"questions", "answers", "authority", "additional"}

func (t *tpkt) String() string {
	var sb strings.Builder
	fmt.Fprintf(&sb, "NBTNSPacket{TransactionID:0x%04x Flags:0x%04x", t.id, t.flags)
	for s := 0; s < 4; s++ {
		fmt.Fprintf(&sb, " %s:[", secName[s])
		for i, r := range t.sec[s] {
			if i > 0 {
				sb.WriteString(", ")
			}
			fmt.Fprintf(&sb, "{Name:%q Scope:%q Type:0x%04x Class:0x%04x", r.name, strings.Join(r.scope, "."), r.typ, r.class)
			if s > 0 {
				fmt.Fprintf(&sb, " TTL:%d RData:%s", r.ttl, vf.HexS(r.rdata))
			}
			sb.WriteString("}")
		}
		sb.WriteString("]")
	}
	return sb.String() + "}"
}

func (t *tpkt) lib() *nbtns.NBTNSPacket {
	p := &nbtns.NBTNSPacket{}
	p.Header = nbtns.NBTNSHeader{TransactionID: t.id, Flags: t.flags, Questions: uint16(len(t.sec[0])), Answers: uint16(len(t.sec[1])), Authority: uint16(len(t.sec[2])), Additional: uint16(len(t.sec[3]))}
	for _, q := range t.sec[0] {
		p.Questions = append(p.Questions, nbtns.NBTNSQuestion{Name: &nbtns.NetBIOSName{Name: q.name, ScopeID: strings.Join(q.scope, ".")}, Type: q.typ, Class: q.class})
	}
	rrs := func(rs []rec) []nbtns.NBTNSResourceRecord {
		var out []nbtns.NBTNSResourceRecord
		for _, r := range rs {
			out = append(out, nbtns.NBTNSResourceRecord{Name: &nbtns.NetBIOSName{Name: r.name, ScopeID: strings.Join(r.scope, ".")}, Type: r.typ, Class: r.class, TTL: r.ttl,
				RDLength: uint16(len(r.rdata)), RData: append([]byte{}, r.rdata...)})
		}
		return out
	}
	p.Answers, p.Authority, p.Additional = rrs(t.sec[1]), rrs(t.sec[2]), rrs(t.sec[3])
	return p
}

func showName(n *nbtns.NetBIOSName) string {
	if n == nil {
		return "<nil name>"
	}
	return fmt.Sprintf("name %q scope %q", n.Name, n.ScopeID)
}

func cmpLibName(n *nbtns.NetBIOSName, w rec) bool {
	return n != nil && padEq(n.Name, w.name) && n.ScopeID == strings.Join(w.scope, ".")
}

func cmpLibSection(s int, want []rec, p *nbtns.NBTNSPacket) (bool, string) {
	if s == 0 {
		if len(p.Questions) != len(want) {
			return false, fmt.Sprintf("%d questions, want %d", len(p.Questions), len(want))
		}
		for i, q := range p.Questions {
			if !cmpLibName(q.Name, want[i]) || q.Type != want[i].typ || q.Class != want[i].class {
				return false, fmt.Sprintf("question %d = {%s type 0x%04x class 0x%04x}", i, showName(q.Name), q.Type, q.Class)
			}
		}
		return true, ""
	}
	got := [][]nbtns.NBTNSResourceRecord{nil, p.Answers, p.Authority, p.Additional}[s]
	if len(got) != len(want) {
		return false, fmt.Sprintf("%d %s records, want %d", len(got), secName[s], len(want))
	}
	for i, r := range got {
		w := want[i]
		if !cmpLibName(r.Name, w) || r.Type != w.typ || r.Class != w.class || r.TTL != w.ttl || int(r.RDLength) != len(w.rdata) || !bytes.Equal(r.RData, w.rdata) {
			return false, fmt.Sprintf("%s record %d = {%s type 0x%04x class 0x%04x ttl %d rdlength %d rdata %s}", secName[s], i, showName(r.Name), r.Type, r.Class, r.TTL, r.RDLength, vf.HexS(r.RData))
		}
	}
	return true, ""
}

func cmpRefSection(s int, want []rec, p *refnbns.Packet) (bool, string) {
	type g struct {
		n          refnbns.Name
		typ, class uint16
		ttl        uint32
		rdata      []byte
	}
	var got []g
	if s == 0 {
		for _, q := range p.Q {
			got = append(got, g{n: q.Name, typ: q.Type, class: q.Class})
		}
	} else {
		for _, r := range [][]refnbns.RR{nil, p.An, p.Ns, p.Ar}[s] {
			got = append(got, g{r.Name, r.Type, r.Class, r.TTL, r.RData})
		}
	}
	if len(got) != len(want) {
		return false, fmt.Sprintf("%d %s entries read, want %d", len(got), secName[s], len(want))
	}
	for i, x := range got {
		w := want[i]
		if x.n.Raw != refnbns.Pad(w.name) || strings.Join(x.n.Scope, ".") != strings.Join(w.scope, ".") || x.typ != w.typ || x.class != w.class ||
			(s > 0 && (x.ttl != w.ttl || !bytes.Equal(x.rdata, w.rdata))) {
			return false, fmt.Sprintf("%s entry %d read as {name %q scope %q type 0x%04x class 0x%04x ttl %d rdata %s}", secName[s], i, x.n.Raw[:], strings.Join(x.n.Scope, "."), x.typ, x.class, x.ttl, vf.HexS(x.rdata))
		}
	}
	return true, ""
}

func checkPacket(c *vf.Ctx, t *tpkt) {
	lp := t.lib()
	var wire []byte
	var err error
	if p, msg, where := vf.Try(func() { wire, err = lp.Marshal() }); p {
		c.Fail("C10/packet/Marshal/no-panic@"+where, fmt.Sprintf("Marshal panicked: %s; %s", msg, t))
		return
	}
	c.Case([]byte("pkt"), wire, []byte(t.String()))
	if !c.Check("C10/packet/Marshal/accepts-valid-packet", err == nil, func() string { return fmt.Sprintf("Marshal() = %v for %s", err, t) }) {
		return
	}
	// round trip
	var back nbtns.NBTNSPacket
	var n int
	if p, msg, where := vf.Try(func() { n, err = back.Unmarshal(wire) }); p {
		c.Fail("C10/packet/Unmarshal/no-panic@"+where, fmt.Sprintf("Unmarshal(%s) panicked: %s; %s", vf.HexS(wire), msg, t))
	} else if c.Check("C10/packet/roundtrip/Unmarshal-accepts-Marshal-output", err == nil, func() string {
		return fmt.Sprintf("Unmarshal(Marshal(p)) = %v; p = %s; bytes %s", err, t, vf.HexS(wire))
	}) {
		c.Check("C10/packet/roundtrip/Unmarshal-reports-all-bytes-consumed", n == len(wire), func() string {
			return fmt.Sprintf("Unmarshal returned %d for %d bytes; p = %s", n, len(wire), t)
		})
		h := back.Header
		c.Check("C10/packet/roundtrip/header", h.TransactionID == t.id && h.Flags == t.flags && int(h.Questions) == len(t.sec[0]) && int(h.Answers) == len(t.sec[1]) &&
			int(h.Authority) == len(t.sec[2]) && int(h.Additional) == len(t.sec[3]), func() string {
			return fmt.Sprintf("header after round trip %+v; p = %s", h, t)
		})
		for s := 0; s < 4; s++ {
			ok, diff := cmpLibSection(s, t.sec[s], &back)
			c.Check("C10/packet/roundtrip/"+secName[s], ok, func() string {
				return fmt.Sprintf("Unmarshal(Marshal(p)): %s; p = %s; bytes %s", diff, t, vf.HexS(wire))
			})
		}
	}
	// a decoded packet is a value of its own: what it holds must not change when the caller reuses the receive
	// buffer for the next datagram (servers and the challenger read every datagram into one buffer), and a
	// packet that was encoded must not be tied to the bytes it returned
	{
		buf := append(make([]byte, 0, len(wire)+64), wire...)
		var held nbtns.NBTNSPacket
		var herr error
		if p, _, _ := vf.Try(func() { _, herr = held.Unmarshal(buf) }); !p && herr == nil {
			for i := range buf {
				buf[i] ^= 0xA5
			}
			spare := buf[len(buf):cap(buf)]
			for i := range spare {
				spare[i] = 0x5A
			}
			for s := 0; s < 4; s++ {
				ok, diff := cmpLibSection(s, t.sec[s], &held)
				c.Check("C10/packet/history/decoded-packet-survives-reuse-of-the-input-buffer/"+secName[s], ok, func() string {
					return fmt.Sprintf("Unmarshal(buf), then buf overwritten with the next datagram: the packet decoded before now reads: %s; p = %s", diff, t)
				})
			}
		}
		// ... the sections of a decoded packet are slices of their own: a record appended to one section (a responder
		// adds its answer to the decoded query) leaves the other sections as decoded; and what a caller does to a
		// decoded packet (names and scopes rewritten) does not reach a packet decoded from the same bytes afterwards
		{
			var d1, d2 nbtns.NBTNSPacket
			var e1, e2 error
			extra := nbtns.NBTNSResourceRecord{Name: &nbtns.NetBIOSName{Name: "APPENDED"}, Type: 0x20, Class: 1, TTL: 1, RDLength: 6, RData: []byte{0, 0, 9, 9, 9, 9}}
			if p, _, _ := vf.Try(func() {
				if _, e1 = d1.Unmarshal(append([]byte{}, wire...)); e1 != nil {
					return
				}
				d1.Answers = append(d1.Answers, extra)
				d1.Authority = append(d1.Authority, extra)
			}); !p && e1 == nil {
				okA, diffA := cmpLibSection(2, t.sec[2], &nbtns.NBTNSPacket{Authority: d1.Authority[:len(d1.Authority)-1]})
				okB, diffB := cmpLibSection(3, t.sec[3], &d1)
				okQ, diffQ := cmpLibSection(0, t.sec[0], &d1)
				c.Check("C10/packet/history/appending-to-a-decoded-section-leaves-the-other-sections-as-decoded", okA && okB && okQ, func() string {
					return fmt.Sprintf("Unmarshal(Marshal(p)); append(Answers, rr); append(Authority, rr): authority %s; additional %s; questions %s; p = %s", diffA, diffB, diffQ, t)
				})
				vf.Try(func() {
					for i := range d1.Questions {
						if d1.Questions[i].Name != nil {
							d1.Questions[i].Name.Name, d1.Questions[i].Name.ScopeID = "REWRITTEN", "rw"
						}
					}
					for _, sec := range [][]nbtns.NBTNSResourceRecord{d1.Answers, d1.Authority, d1.Additional} {
						for i := range sec {
							if sec[i].Name != nil {
								sec[i].Name.Name, sec[i].Name.ScopeID = "REWRITTEN", "rw"
							}
							for k := range sec[i].RData {
								sec[i].RData[k] = 0xEE
							}
						}
					}
					_, e2 = d2.Unmarshal(append([]byte{}, wire...))
				})
				if e2 == nil {
					for s := 0; s < 4; s++ {
						ok, diff := cmpLibSection(s, t.sec[s], &d2)
						c.Check("C10/packet/history/decode-after-the-caller-rewrote-an-earlier-decoded-packet/"+secName[s], ok, func() string {
							return fmt.Sprintf("Unmarshal(w) -> d1; every name, scope and RDATA byte of d1 rewritten; Unmarshal(w) -> d2: %s; p = %s", diff, t)
						})
					}
				}
			}
		}
		// ... and a receiver that has decoded another packet before (one packet structure per socket loop)
		// reads this one like a fresh receiver does
		{
			prev := &tpkt{id: 0x7071, flags: 0x8580, sec: [4][]rec{{std("PREV", []string{"old"}, 0, 0), std("PREV2", nil, 0, 1)}, {std("PREVA", []string{"old"}, 1, 0), std("PREVB", nil, 1, 1)},
				{std("PREVN", nil, 2, 0), std("PREVM", nil, 2, 1)}, {std("PREVX", []string{"old", "er"}, 3, 0), std("PREVY", nil, 3, 1)}}}
			if pw, perr := prev.lib().Marshal(); perr == nil {
				var reused nbtns.NBTNSPacket
				var rerr error
				var rn int
				if p, _, _ := vf.Try(func() {
					if _, rerr = reused.Unmarshal(pw); rerr == nil {
						rn, rerr = reused.Unmarshal(append([]byte{}, first0(wire)...))
					}
				}); !p && rerr == nil {
					h := reused.Header
					okh := rn == len(wire) && h.TransactionID == t.id && h.Flags == t.flags && int(h.Questions) == len(t.sec[0]) && int(h.Answers) == len(t.sec[1]) && int(h.Authority) == len(t.sec[2]) && int(h.Additional) == len(t.sec[3])
					c.Check("C10/packet/history/receiver-that-decoded-another-packet-before/header", okh, func() string {
						return fmt.Sprintf("Unmarshal(other packet); Unmarshal(Marshal(p)) into the same receiver: n=%d header %+v; p = %s", rn, h, t)
					})
					for s := 0; s < 4; s++ {
						ok, diff := cmpLibSection(s, t.sec[s], &reused)
						c.Check("C10/packet/history/receiver-that-decoded-another-packet-before/"+secName[s], ok, func() string {
							return fmt.Sprintf("Unmarshal(other packet); Unmarshal(Marshal(p)) into the same receiver: %s; p = %s", diff, t)
						})
					}
				}
			}
		}
		var again []byte
		var aerr error
		first := append([]byte{}, wire...)
		for i := range wire {
			wire[i] ^= 0xFF
		}
		if p, _, _ := vf.Try(func() { again, aerr = lp.Marshal() }); !p {
			c.Check("C10/packet/history/second-Marshal-unaffected-by-the-caller-writing-into-the-first-result", aerr == nil && bytes.Equal(again, first), func() string {
				return fmt.Sprintf("Marshal(); caller overwrites the returned bytes; Marshal() again = %s (%v), first result was %s; p = %s", vf.HexS(again), aerr, vf.HexS(first), t)
			})
		}
		wire = first
	}
	// RFC 1002 parser reads the library's bytes
	rp, failed, rerr := refnbns.Parse(wire)
	c.Check("C10/packet/rfc1002-parser-reads-library/header", failed != 0 && rp.ID == t.id && rp.Flags == t.flags && int(rp.QD) == len(t.sec[0]) && int(rp.AN) == len(t.sec[1]) &&
		int(rp.NS) == len(t.sec[2]) && int(rp.AR) == len(t.sec[3]), func() string {
		return fmt.Sprintf("Marshal(%s) = %s: header read as %04x %04x %d/%d/%d/%d (%v)", t, vf.HexS(wire), rp.ID, rp.Flags, rp.QD, rp.AN, rp.NS, rp.AR, rerr)
	})
	for s := 0; s < 4; s++ {
		ok, diff := false, ""
		if failed >= 0 && failed <= s+1 {
			diff = fmt.Sprintf("RFC 1002 §4.2 parser fails in section %d: %v", failed, rerr)
		} else {
			ok, diff = cmpRefSection(s, t.sec[s], rp)
		}
		c.Check("C10/packet/rfc1002-parser-reads-library/"+secName[s], ok, func() string {
			return fmt.Sprintf("Marshal(%s) = %s: %s", t, vf.HexS(wire), diff)
		})
	}
	c.Check("C10/packet/rfc1002-parser-reads-library/no-trailing-bytes", failed >= 0 || rp.Trailing == 0, func() string {
		return fmt.Sprintf("Marshal(%s) = %s: %d bytes after the last record", t, vf.HexS(wire), rp.Trailing)
	})
}

func first0(b []byte) []byte { return b }

func std(name string, scope []string, s, i int) rec {
	r := rec{name: name, scope: scope, typ: 0x0020, class: 0x0001}
	if s > 0 {
		r.ttl = 300000
		r.rdata = []byte{0x60, 0x00, 10, byte(s), byte(i), 1}
	}
	return r
}

func packetObligations(c *vf.Ctx, names []string, scopes [][]string) {
	// names that the library encodes (leading '*' may be refused; refusal is covered by the name obligations)
	var ok []string
	for _, n := range names {
		if !strings.HasPrefix(n, "*") {
			ok = append(ok, n)
		}
	}
	var pkts []*tpkt
	base := func() *tpkt {
		return &tpkt{id: 0x0102, flags: 0x2910, sec: [4][]rec{{std("FRED", nil, 0, 0)}, nil, nil, {std("FRED", nil, 3, 0)}}}
	}
	w16 := enum.Words(16)
	for _, v := range w16 {
		p := base()
		p.id = uint16(v)
		pkts = append(pkts, p)
		p = base()
		p.flags = uint16(v)
		pkts = append(pkts, p)
	}
	for _, a := range enum.Bits1(16) {
		for _, b := range enum.Bits1(16) {
			p := base()
			p.id, p.flags = uint16(a), uint16(b)
			pkts = append(pkts, p)
		}
	}
	// section sizes x rotations
	rot := c.Pick(40, 200)
	k := 0
	for q := 0; q <= 2; q++ {
		for an := 0; an <= 2; an++ {
			for ns := 0; ns <= 2; ns++ {
				for ar := 0; ar <= 2; ar++ {
					for r := 0; r < rot; r++ {
						p := &tpkt{id: uint16(0x0100 + k), flags: uint16(0x8000 >> uint(k%16))}
						for s, n := range []int{q, an, ns, ar} {
							for i := 0; i < n; i++ {
								rc := std(ok[(k*13+s*5+i)%len(ok)], scopes[(k*3+s+i)%len(scopes)], s, i)
								rc.typ = uint16(0x20 + (k+s+i)%2)
								p.sec[s] = append(p.sec[s], rc)
							}
						}
						k++
						pkts = append(pkts, p)
					}
				}
			}
		}
	}
	// every name and every scope once in every section
	for i, n := range ok {
		s := i % 4
		p := &tpkt{id: uint16(i), flags: 0x8500}
		p.sec[s] = []rec{std("FIRST", nil, s, 0), std(n, scopes[i%len(scopes)], s, 1)}
		pkts = append(pkts, p)
	}
	for i, sc := range scopes {
		for s := 0; s < 4; s++ {
			p := &tpkt{id: uint16(i), flags: 0x0110}
			p.sec[s] = []rec{std(ok[i%len(ok)], sc, s, 0), std("LAST", nil, s, 1)}
			pkts = append(pkts, p)
		}
	}
	// type / class / ttl words
	w32 := enum.Words(32)
	if c.Quick() {
		w32 = w32[:66]
	}
	for s := 0; s < 4; s++ {
		mk := func(f func(r *rec)) {
			for pos := 0; pos < 2; pos++ {
				p := &tpkt{id: 7, flags: 0x8000}
				p.sec[s] = []rec{std("FRED", nil, s, 0), std("X", []string{"sc"}, s, 1)}
				f(&p.sec[s][pos])
				pkts = append(pkts, p)
			}
		}
		for _, v := range w16 {
			mk(func(r *rec) { r.typ = uint16(v) })
			mk(func(r *rec) { r.class = uint16(v) })
		}
		for _, v := range enum.ByteDistinct(2) {
			mk(func(r *rec) { r.typ = uint16(v); r.class = ^uint16(v) })
		}
		if s > 0 {
			for _, v := range w32 {
				mk(func(r *rec) { r.ttl = uint32(v) })
			}
			for _, v := range enum.ByteDistinct(4) {
				mk(func(r *rec) { r.ttl = uint32(v) })
			}
		}
	}
	// RDATA lengths
	rdl := []int{0, 4, 6, 255, 256, 65535}
	if c.Thorough() {
		rdl = append(rdl, 1, 2, 3, 5, 7, 18, 254, 257, 511, 512, 513, 1024, 16383, 16384, 32767, 32768, 65534)
	}
	for s := 1; s < 4; s++ {
		for _, n := range rdl {
			for pos := 0; pos < 2; pos++ {
				p := &tpkt{id: uint16(n), flags: 0x8500}
				p.sec[0] = []rec{std("FRED", nil, 0, 0)}
				p.sec[s] = []rec{std("FRED", nil, s, 0), std("BARNEY", []string{"sc", "x"}, s, 1)}
				p.sec[s][pos].rdata = enum.Counter(n, byte(3+pos))
				if s < 3 {
					p.sec[3] = []rec{std("TAIL", nil, 3, 0)}
				}
				pkts = append(pkts, p)
			}
			for _, n2 := range rdl {
				if n+n2 > 70000 && c.Quick() {
					continue
				}
				p := &tpkt{id: uint16(n), flags: 0x8500}
				p.sec[s] = []rec{std("A", nil, s, 0), std("B", nil, s, 1)}
				p.sec[s][0].rdata = enum.Counter(n, 9)
				p.sec[s][1].rdata = enum.Fill(n2, 0x20)
				pkts = append(pkts, p)
			}
		}
	}
	// a name whose FIRST occurrence lies beyond offset 0x3FFF (after a large RDATA) and is then repeated in every
	// later section: an encoder that compresses repeated names cannot point that far with 14 bits
	for _, n := range []int{16300, 16383, 16384, 16500, 40000, 65535} {
		p := &tpkt{id: uint16(n), flags: 0x8500}
		p.sec[0] = []rec{std("EARLY", nil, 0, 0)}
		p.sec[1] = []rec{std("EARLY", nil, 1, 0), std("LATE", []string{"sc"}, 1, 1), std("LATE", []string{"sc"}, 1, 2)}
		p.sec[1][0].rdata = enum.Counter(n, 5)
		p.sec[2] = []rec{std("LATE", []string{"sc"}, 2, 0), std("EARLY", nil, 2, 1)}
		p.sec[3] = []rec{std("LATE", []string{"sc"}, 3, 0), std("OTHER", nil, 3, 1), std("OTHER", nil, 3, 2)}
		pkts = append(pkts, p)
	}
	// neighbours: two entries that follow each other (inside one section or across a section boundary) and agree in
	// the name, in the scope, in both or in neither - an encoder or decoder that carries anything over from the
	// previous entry (a remembered encoding, a compression target) is seen where the entries differ in one part only
	type ns struct {
		n  string
		sc []string
	}
	nbr := []ns{{"FRED", nil}, {"FRED", []string{"sc"}}, {"FRED", []string{"sc", "x"}}, {"FRED", []string{"corp", "example"}}, {"BARNEY", []string{"sc"}}, {"BARNEY", nil}, {"FRE", nil}, {"FREDA", []string{"sc"}}}
	for _, slots := range [][2][2]int{{{0, 0}, {0, 1}}, {{0, 0}, {1, 0}}, {{1, 0}, {1, 1}}, {{1, 0}, {2, 0}}, {{2, 0}, {2, 1}}, {{2, 0}, {3, 0}}, {{3, 0}, {3, 1}}, {{0, 0}, {3, 0}}, {{1, 0}, {3, 0}}} {
		for _, x := range nbr {
			for _, y := range nbr {
				p := &tpkt{id: 0x4e42, flags: 0x8500}
				a, b := slots[0], slots[1]
				p.sec[a[0]] = append(p.sec[a[0]], std(x.n, x.sc, a[0], a[1]))
				p.sec[b[0]] = append(p.sec[b[0]], std(y.n, y.sc, b[0], b[1]))
				pkts = append(pkts, p)
				// and once more with a third entry equal to the first behind them
				q := &tpkt{id: 0x4e43, flags: 0x8500}
				q.sec[a[0]] = append(q.sec[a[0]], std(x.n, x.sc, a[0], a[1]))
				q.sec[b[0]] = append(q.sec[b[0]], std(y.n, y.sc, b[0], b[1]))
				q.sec[3] = append(q.sec[3], std(x.n, x.sc, 3, 2))
				pkts = append(pkts, q)
			}
		}
	}
	c.Set("packets", len(pkts))
	vf.Par(len(pkts), func(i int) {
		if c.DeadlineExceeded() {
			return
		}
		checkPacket(c, pkts[i])
	})
	c.Sample("packet", pkts[len(pkts)/2].String())
	c.Sample("packet", pkts[len(pkts)-1].String())
}

// editedPacket: ONE packet object edited between Marshal calls (a responder keeps the packet and patches names,
// scopes, RDATA, id and flags for the next datagram): after every sequence of three edits, with Marshal called or
// not after each of the first two, Marshal gives the bytes a fresh packet with the same content gives. The model is
// the test's own description of the content (tpkt); both are edited in step.
func editedPacket(c *vf.Ctx) {
	type op struct {
		name string
		do   func(p *nbtns.NBTNSPacket, t *tpkt)
	}
	ops := []op{
		{"add question FRED", func(p *nbtns.NBTNSPacket, t *tpkt) {
			r := std("FRED", nil, 0, 0)
			t.sec[0] = append(t.sec[0], r)
			p.Questions = append(p.Questions, nbtns.NBTNSQuestion{Name: &nbtns.NetBIOSName{Name: r.name}, Type: r.typ, Class: r.class})
			p.Header.Questions++
		}},
		{"add answer FRED.sc", func(p *nbtns.NBTNSPacket, t *tpkt) {
			r := std("FRED", []string{"sc"}, 1, len(t.sec[1]))
			t.sec[1] = append(t.sec[1], r)
			p.Answers = append(p.Answers, nbtns.NBTNSResourceRecord{Name: &nbtns.NetBIOSName{Name: r.name, ScopeID: "sc"}, Type: r.typ, Class: r.class, TTL: r.ttl, RDLength: uint16(len(r.rdata)), RData: append([]byte{}, r.rdata...)})
			p.Header.Answers++
		}},
		{"Questions[0].Name.Name=BARNEY", func(p *nbtns.NBTNSPacket, t *tpkt) {
			if len(t.sec[0]) > 0 {
				t.sec[0][0].name = "BARNEY"
				p.Questions[0].Name.Name = "BARNEY"
			}
		}},
		{"Questions[0].Name.Name=<same length, other letters>", func(p *nbtns.NBTNSPacket, t *tpkt) {
			if len(t.sec[0]) > 0 {
				nn := []byte(t.sec[0][0].name)
				for i := range nn {
					nn[i] = 'A' + (nn[i]+7)%26
				}
				t.sec[0][0].name = string(nn)
				p.Questions[0].Name.Name = string(nn)
			}
		}},
		{"Answers[0].Name.Name=WILMA.. (same length)", func(p *nbtns.NBTNSPacket, t *tpkt) {
			if len(t.sec[1]) > 0 {
				nn := ("WILMAXXXXXXXXXXX")[:len(t.sec[1][0].name)]
				t.sec[1][0].name = nn
				p.Answers[0].Name.Name = nn
			}
		}},
		{"Questions[0].Name.ScopeID=corp", func(p *nbtns.NBTNSPacket, t *tpkt) {
			if len(t.sec[0]) > 0 {
				t.sec[0][0].scope = []string{"corp"}
				p.Questions[0].Name.ScopeID = "corp"
			}
		}},
		{"Answers[last].Name.ScopeID=\"\"", func(p *nbtns.NBTNSPacket, t *tpkt) {
			if n := len(t.sec[1]); n > 0 {
				t.sec[1][n-1].scope = nil
				p.Answers[n-1].Name.ScopeID = ""
			}
		}},
		{"Answers[last].RData[5]=9", func(p *nbtns.NBTNSPacket, t *tpkt) {
			if n := len(t.sec[1]); n > 0 && len(t.sec[1][n-1].rdata) == 6 {
				t.sec[1][n-1].rdata = append([]byte{}, t.sec[1][n-1].rdata...)
				t.sec[1][n-1].rdata[5] = 9
				p.Answers[n-1].RData[5] = 9
			}
		}},
		{"Answers[0].TTL=1", func(p *nbtns.NBTNSPacket, t *tpkt) {
			if len(t.sec[1]) > 0 {
				t.sec[1][0].ttl = 1
				p.Answers[0].TTL = 1
			}
		}},
		{"Answers=nil", func(p *nbtns.NBTNSPacket, t *tpkt) { t.sec[1] = nil; p.Answers = nil; p.Header.Answers = 0 }},
		{"TransactionID=0xBEEF", func(p *nbtns.NBTNSPacket, t *tpkt) { t.id = 0xBEEF; p.Header.TransactionID = 0xBEEF }},
		{"Flags^=0x8000", func(p *nbtns.NBTNSPacket, t *tpkt) { t.flags ^= 0x8000; p.Header.Flags ^= 0x8000 }},
	}
	n := 0
	for a := range ops {
		for b := range ops {
			for d := range ops {
				for obs := 0; obs < 4; obs++ {
					t := &tpkt{id: 0x0102, flags: 0x2910, sec: [4][]rec{{std("FIRST", []string{"sc"}, 0, 0)}, nil, nil, nil}}
					p := t.lib()
					var hist []string
					var out, want []byte
					var err, werr error
					pn, msg, where := vf.Try(func() {
						for i, o := range []op{ops[a], ops[b], ops[d]} {
							o.do(p, t)
							hist = append(hist, o.name)
							if i < 2 && obs&(1<<i) != 0 {
								p.Marshal()
								hist = append(hist, "Marshal")
							}
						}
						out, err = p.Marshal()
						want, werr = t.lib().Marshal()
					})
					n++
					c.Evals(1)
					c.Case([]byte("nbns.edit"), []byte{byte(a), byte(b), byte(d), byte(obs)})
					c.Check("C10/packet/history/edited-packet-encodes-like-a-fresh-packet-with-the-same-content", !pn && (err == nil) == (werr == nil) && bytes.Equal(out, want), func() string {
						return fmt.Sprintf("one packet {id 0x0102, question FIRST.sc}, history %v, then Marshal() = %s (%v); a fresh packet with the content %s encodes as %s (%v) (panic=%v %s %s)", hist, vf.HexS(out), err, t, vf.HexS(want), werr, pn, msg, where)
					})
				}
			}
		}
	}
	c.Set("edited_packet_histories", n)
}

// editedName: one NetBIOSName value whose fields are assigned between FirstLevelEncode calls encodes like a fresh
// value with the same fields (all ordered pairs of a small set of names x scopes).
func editedName(c *vf.Ctx) {
	type nv struct{ n, sc string }
	vals := []nv{{"FRED", ""}, {"BARN", ""}, {"FRED", "sc"}, {"BARNEY", "sc"}, {"FRED", "corp.example"}, {"", ""}, {"0123456789ABCDEF", ""}, {"FEDCBA9876543210", "x"}}
	for _, a := range vals {
		for _, b := range vals {
			n := &nbtns.NetBIOSName{Name: a.n, ScopeID: a.sc}
			var got, want string
			var gerr, werr error
			pn, msg, where := vf.Try(func() {
				n.FirstLevelEncode()
				n.Name, n.ScopeID = b.n, b.sc
				got, gerr = n.FirstLevelEncode()
				want, werr = (&nbtns.NetBIOSName{Name: b.n, ScopeID: b.sc}).FirstLevelEncode()
			})
			c.Evals(1)
			c.Case([]byte("name.edit"), []byte(a.n), []byte(a.sc), []byte(b.n), []byte(b.sc))
			c.Check("C10/name/history/edited-name-encodes-like-a-fresh-name", !pn && (gerr == nil) == (werr == nil) && got == want, func() string {
				return fmt.Sprintf("NetBIOSName{%q,%q}.FirstLevelEncode(); fields assigned {%q,%q}; FirstLevelEncode() = %q (%v); a fresh value gives %q (%v) (panic=%v %s %s)", a.n, a.sc, b.n, b.sc, got, gerr, want, werr, pn, msg, where)
			})
		}
	}
}

// rewrittenDecodeResults: what FirstLevelDecode hands out belongs to the caller - rewriting it does not change what
// a later decode of the same text returns. Over well-known names (the wildcard of a node status query among them),
// with and without scope; and the same through Unmarshal of a hand-built node status query.
func rewrittenDecodeResults(c *vf.Ctx) {
	encs := []string{"CKAAAAAAAAAAAAAAAAAAAAAAAAAAAAAA", "CKAAAAAAAAAAAAAAAAAAAAAAAAAAAAAA.sc", "EGFCEFEECACACACACACACACACACACACA", "EGFCEFEECACACACACACACACACACACACA.corp.example",
		"CACACACACACACACACACACACACACACACA", "AAAAAAAAAAAAAAAAAAAAAAAAAAAAAAAA", "PPPPPPPPPPPPPPPPPPPPPPPPPPPPPPPP"}
	for _, e := range encs {
		var n1, n2 *nbtns.NetBIOSName
		var e1, e2 error
		var before string
		pn, msg, where := vf.Try(func() {
			n1, e1 = nbtns.FirstLevelDecode(e)
			if e1 != nil || n1 == nil {
				return
			}
			before = n1.Name + "|" + n1.ScopeID
			n1.Name, n1.ScopeID = "REWRITTEN", "rw"
			n2, e2 = nbtns.FirstLevelDecode(e)
		})
		c.Evals(1)
		c.Case([]byte("name.rewrite"), []byte(e))
		if e1 != nil {
			continue
		}
		c.Check("C10/name/history/decode-after-the-caller-rewrote-an-earlier-result", !pn && e2 == nil && n2 != nil && n2.Name+"|"+n2.ScopeID == before, func() string {
			return fmt.Sprintf("FirstLevelDecode(%q) -> n1 (%q); n1 rewritten by the caller; FirstLevelDecode(%q) -> %s (%v) (panic=%v %s %s)", e, before, e, showName(n2), e2, pn, msg, where)
		})
	}
	// node status query for the wildcard name, as every scanner sends it
	wire := append(append([]byte{0x12, 0x34, 0x00, 0x00, 0x00, 0x01, 0, 0, 0, 0, 0, 0, 0x20}, []byte("CKAAAAAAAAAAAAAAAAAAAAAAAAAAAAAA")...), 0x00, 0x00, 0x21, 0x00, 0x01)
	var d1, d2 nbtns.NBTNSPacket
	var e1, e2 error
	var before string
	pn, msg, where := vf.Try(func() {
		if _, e1 = d1.Unmarshal(append([]byte{}, wire...)); e1 != nil || len(d1.Questions) != 1 || d1.Questions[0].Name == nil {
			return
		}
		before = d1.Questions[0].Name.Name + "|" + d1.Questions[0].Name.ScopeID
		d1.Questions[0].Name.Name, d1.Questions[0].Name.ScopeID = "REWRITTEN", "rw"
		_, e2 = d2.Unmarshal(append([]byte{}, wire...))
	})
	if e1 == nil && before != "" {
		got := "<no question>"
		if len(d2.Questions) == 1 && d2.Questions[0].Name != nil {
			got = d2.Questions[0].Name.Name + "|" + d2.Questions[0].Name.ScopeID
		}
		c.Check("C10/packet/history/node-status-query-decoded-after-the-caller-rewrote-an-earlier-decoded-one", !pn && e2 == nil && got == before, func() string {
			return fmt.Sprintf("Unmarshal(node status query for '*') -> %q; the caller rewrites the decoded name; Unmarshal of the same bytes -> %q (%v) (panic=%v %s %s)", before, got, e2, pn, msg, where)
		})
	}
}
