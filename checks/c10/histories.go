package main

import (
	"fmt"
	"strings"

	"github.com/TheManticoreProject/Manticore/network/netbios/nbtns"

	"verif/mc/purity"
	"verif/vf"
)

// histories: name encoding and packet coding are pure; all ordered pairs of calls (verif/mc/purity),
// in particular the SAME name with and without a scope in both orders (anything remembered per name shows).
func histories(c *vf.Ctx) {
	in := [][]byte{[]byte("FRED|"), []byte("FRED|corp"), []byte("FRED|corp.example"), []byte("WKS|"), []byte("WKS|corp"), []byte("A|b")}
	split := func(b []byte) *nbtns.NetBIOSName {
		p := strings.SplitN(string(b), "|", 2)
		return &nbtns.NetBIOSName{Name: p[0], ScopeID: p[1]}
	}
	purity.Check(c, "C10/history/FirstLevelEncode", "NetBIOSName{name|scope}.FirstLevelEncode", in, func(b []byte) [][]byte {
		s, err := split(b).FirstLevelEncode()
		return [][]byte{[]byte(fmt.Sprintf("%s %v", s, err))}
	})
	purity.Check(c, "C10/history/NBTNSPacket.Marshal", "NBTNSPacket{question+answer for name|scope}.Marshal", in, func(b []byte) [][]byte {
		n := split(b)
		p := &nbtns.NBTNSPacket{Header: nbtns.NBTNSHeader{TransactionID: 7, Flags: 0x8500, Questions: 1, Answers: 1},
			Questions: []nbtns.NBTNSQuestion{{Name: n, Type: 0x20, Class: 1}},
			Answers:   []nbtns.NBTNSResourceRecord{{Name: n, Type: 0x20, Class: 1, TTL: 9, RDLength: 4, RData: []byte{10, 0, 0, byte(len(b))}}}}
		out, err := p.Marshal()
		if err != nil {
			return [][]byte{[]byte(err.Error())}
		}
		return [][]byte{out}
	})
	var pk [][]byte
	for _, b := range in {
		n := split(b)
		p := &nbtns.NBTNSPacket{Header: nbtns.NBTNSHeader{TransactionID: 9, Flags: 0x0110, Questions: 1}, Questions: []nbtns.NBTNSQuestion{{Name: n, Type: 0x20, Class: 1}}}
		out, err := p.Marshal()
		if err != nil {
			c.Fatalf("cannot marshal: %v", err)
		}
		pk = append(pk, out)
	}
	purity.Check(c, "C10/history/NBTNSPacket.Unmarshal", "NBTNSPacket.Unmarshal", pk, func(b []byte) [][]byte {
		var p nbtns.NBTNSPacket
		n, err := p.Unmarshal(b)
		if err != nil || len(p.Questions) != 1 {
			return [][]byte{[]byte(fmt.Sprintf("%d %v", n, err))}
		}
		return [][]byte{[]byte(fmt.Sprintf("%d %04x %04x", n, p.Header.TransactionID, p.Header.Flags)), []byte(p.Questions[0].Name.Name), []byte(p.Questions[0].Name.ScopeID)}
	})
}
