// C02 — NTLMv1/NTLMv2 responses verify under an independent MS-NLMP verifier.
// E4: exhaustive lattices. Every entry point that computes a response (crypto/ntlmv1,
// crypto/ntlmv2, ntlm.CreateAuthenticateMessage) is compared with DESL / the NTLMv2
// verifier of verif/ref/refntlm on completely enumerated input sets.
package main

import (
	"bytes"
	"encoding/binary"
	"encoding/hex"
	"fmt"
	"math/bits"
	"strings"

	"github.com/TheManticoreProject/Manticore/crypto/ntlmv1"
	"github.com/TheManticoreProject/Manticore/crypto/ntlmv2"
	"github.com/TheManticoreProject/Manticore/network/smb/smb_v10/spnego/ntlm"

	"verif/enum"
	rc "verif/ref/refcrypto"
	rn "verif/ref/refntlm"
	"verif/vf"
)

func main() { vf.Main("C02", "exploration", run) }

func run(c *vf.Ctx) {
	if err := rn.SelfTest(); err != nil {
		c.Fatalf("%v", err)
	}
	c.Rule("parity expansion: ParityBit on 0..511; ParityAdjust on every 7-bit group x all 128 values x {all-zero, all-one} surroundings, all 56-bit words with <=2 bits set/cleared, all lengths 0..21; " +
		"NTLMv1: 16-byte hash lattice (every byte position x 256 values on 00/ff backgrounds, every single bit set/cleared) x challenge lattice (same construction on 8 bytes), password alphabet of C01, through every entry point " +
		"(WithPassword, WithNTHash, struct literal, hash slice sharing a buffer with the challenge; Hash, String, NTResponse, LMResponse, ntlm.CreateAuthenticateMessage payloads); " +
		"NTLMv2: user x domain case/script alphabets x passwords x server/client challenge lattices through NewNTLMv2/Hash/HashHex/ToHashcatString and ntlm.CreateAuthenticateMessage (target-info lists, both character sets). " +
		"distinct = distinct (entry point, input tuple) reaching the comparison")
	c.Assume("crypto/des, crypto/hmac, crypto/md5 (stdlib), x/crypto/md4 and unicode.ToUpper are correct; reference self-tested on MS-NLMP 4.2.2 and 4.2.4 vectors and cross-checked against github.com/Azure/go-ntlmssp; time stamps are read from the blob and never compared with a clock; " +
		"Windows' own upper-casing table is approximated by Go's unicode.ToUpper (same function on both sides of the NTLMv2 server-side check)")
	parity(c)
	v1Lattice(c)
	v1Passwords(c)
	v1Authenticate(c)
	v2Direct(c)
	v2Authenticate(c)
	clockExploration(c)
	histories(c)
}

// ------------------------------------------------------------------ sharded tally (keeps the Ctx mutex out of hot loops)

type tally struct {
	c *vf.Ctx
	n map[string]int64
}

func (t *tally) check(key string, ok bool, w func() string) bool {
	if ok {
		t.n[key]++
	} else {
		t.c.Check(key, false, w)
	}
	return ok
}

func shards(c *vf.Ctx, n int, fn func(i int, t *tally)) {
	const S = 64
	vf.Par(S, func(s int) {
		t := &tally{c, map[string]int64{}}
		for i := s; i < n; i += S {
			fn(i, t)
		}
		for k, v := range t.n {
			c.Pass(k, v)
		}
	})
}

// call runs f under vf.Try and reports a panic as a failed obligation of its own.
func call(t *tally, entry string, desc func() string, f func()) bool {
	p, msg, where := vf.Try(f)
	if p {
		t.c.Check("C02/"+entry+"/panic@"+where, false, func() string { return fmt.Sprintf("%s panicked: %s", desc(), msg) })
		return false
	}
	return true
}

// ------------------------------------------------------------------ parity expansion

// expand7 is the oracle: 56 bits -> eight bytes of 7 key bits + odd parity in bit 0.
func expand7(k []byte) []byte {
	out := make([]byte, 0, 8)
	for g := 0; g < 8; g++ {
		var v byte
		for j := 0; j < 7; j++ {
			bit := g*7 + j
			v = v<<1 | (k[bit/8]>>(7-uint(bit%8)))&1
		}
		v <<= 1
		if bits.OnesCount8(v)%2 == 0 {
			v |= 1
		}
		out = append(out, v)
	}
	return out
}

func word56(v uint64) []byte {
	var b [8]byte
	binary.BigEndian.PutUint64(b[:], v<<8)
	return b[:7]
}

func parity(c *vf.Ctx) {
	t := &tally{c, map[string]int64{}}
	for n := 0; n < 512; n++ {
		want := 1 - bits.OnesCount(uint(n))%2
		var got int
		call(t, "ntlmv1.ParityBit", func() string { return fmt.Sprintf("ParityBit(%d)", n) }, func() { got = ntlmv1.ParityBit(n) })
		c.Case([]byte("paritybit"), []byte{byte(n >> 8), byte(n)})
		t.check("C02/parity/ParityBit/complements-to-odd", got == want, func() string { return fmt.Sprintf("ParityBit(%#x)=%d want %d", n, got, want) })
	}
	try := func(tag string, k []byte) {
		want := expand7(k)
		if w2 := rc.StrToKey(k); !bytes.Equal(want, w2) {
			c.Fatalf("the two reference expansions disagree on %x: %x vs %x", k, want, w2)
		}
		var got []byte
		var err error
		if !call(t, "ntlmv1.ParityAdjust", func() string { return fmt.Sprintf("ParityAdjust(%x)", k) }, func() { got, err = ntlmv1.ParityAdjust(append([]byte{}, k...)) }) {
			return
		}
		c.Case([]byte("parityadjust"), k)
		t.check("C02/parity/ParityAdjust/7-bytes-to-8-odd-parity-bytes", err == nil && bytes.Equal(got, want), func() string {
			return fmt.Sprintf("%s: ParityAdjust(%x)=%x,%v want %x", tag, k, got, err, want)
		})
	}
	for g := 0; g < 8; g++ {
		for v := uint64(0); v < 128; v++ {
			sh := uint(7 * (7 - g))
			try("group-on-zeros", word56(v<<sh))
			try("group-on-ones", word56((1<<56-1)&^(0x7f<<sh)|v<<sh))
		}
	}
	for _, w := range enum.Words(56) {
		try("bits<=2", word56(w))
	}
	// lengths: the property speaks about 7-byte halves; for other lengths only what doc and code agree on is
	// demanded: every complete 7-bit group of the bit stream is expanded; a trailing partial group may be
	// dropped or zero-padded.
	for n := 0; n <= 21; n++ {
		for _, k := range [][]byte{enum.Counter(n, 0x35), enum.Fill(n, 0xff), enum.Fill(n, 0)} {
			var got []byte
			var err error
			if !call(t, "ntlmv1.ParityAdjust", func() string { return fmt.Sprintf("ParityAdjust(%x)", k) }, func() { got, err = ntlmv1.ParityAdjust(append([]byte{}, k...)) }) {
				continue
			}
			full := n * 8 / 7
			padded := append(append([]byte{}, k...), make([]byte, 7)...)
			var want []byte
			for g := 0; g < full+1; g++ {
				var v byte
				for j := 0; j < 7; j++ {
					bit := g*7 + j
					v = v<<1 | (padded[bit/8]>>(7-uint(bit%8)))&1
				}
				v <<= 1
				if bits.OnesCount8(v)%2 == 0 {
					v |= 1
				}
				want = append(want, v)
			}
			ok := err == nil && (bytes.Equal(got, want[:full]) || (n*8%7 != 0 && bytes.Equal(got, want[:full+1])))
			c.Case([]byte("parityadjust-len"), k)
			t.check("C02/parity/ParityAdjust/any-length-complete-groups", ok, func() string {
				return fmt.Sprintf("ParityAdjust(%x) (len %d) = %x,%v want %x (optionally followed by %x)", k, n, got, err, want[:full], want[full:])
			})
		}
	}
	for k, v := range t.n {
		c.Pass(k, v)
	}
	c.Sample("parity-key", "00000000fe0000 -> group 4 all ones on zero surroundings")
}

// ------------------------------------------------------------------ NTLMv1 on hash / challenge lattices

func chalLattice(full bool) [][]byte {
	seen := map[string]bool{}
	var out [][]byte
	add := func(b []byte) {
		if !seen[string(b)] {
			seen[string(b)] = true
			out = append(out, b)
		}
	}
	add(enum.Fill(8, 0))
	add(enum.Fill(8, 0xff))
	add([]byte{0x01, 0x23, 0x45, 0x67, 0x89, 0xab, 0xcd, 0xef})
	vals := []byte{0x01, 0x80, 0xff, 0x00}
	if full {
		vals = enum.AllBytes()
	}
	for _, b := range enum.BytePos(8, 0, vals) {
		add(b)
	}
	for _, b := range enum.BytePos(8, 0xff, vals) {
		add(b)
	}
	for _, w := range enum.Bits1(64) {
		var b, g [8]byte
		binary.BigEndian.PutUint64(b[:], w)
		binary.BigEndian.PutUint64(g[:], ^w)
		add(b[:])
		add(g[:])
	}
	return out
}

type v1case struct {
	h  [16]byte
	ch []byte
}

func v1Lattice(c *vf.Ctx) {
	hashes := enum.U128Lattice(c.Thorough()) // thorough: + every pair of bits
	fullCh := chalLattice(true)
	redCh := chalLattice(false)
	var cases []v1case
	few := [][]byte{fullCh[0], fullCh[1], fullCh[2]}
	for _, h := range hashes {
		for _, ch := range few {
			cases = append(cases, v1case{h, ch})
		}
	}
	for _, h := range [][16]byte{hashes[0], hashes[1], hashes[2], rc.NT("Password")} {
		for _, ch := range fullCh {
			cases = append(cases, v1case{h, ch})
		}
	}
	for _, h := range hashes {
		for _, ch := range redCh[3:c.Pick(27, len(redCh))] {
			cases = append(cases, v1case{h, ch})
		}
	}
	c.Set("ntlmv1_hash_lattice", len(hashes))
	c.Set("ntlmv1_challenge_lattice", len(fullCh))
	shards(c, len(cases), func(i int, t *tally) {
		if i%4096 == 0 && c.DeadlineExceeded() {
			return
		}
		h, ch := cases[i].h, cases[i].ch
		want := rc.DESL(h[:], ch)
		c.Case([]byte("v1hash"), h[:], ch)
		desc := func(f string) func() string {
			return func() string { return fmt.Sprintf("NewNTLMv1WithNTHash(nthash=%x, challenge=%x).%s", h, ch, f) }
		}
		cmp := func(key, f string, got []byte, err error) {
			t.check(key, err == nil && bytes.Equal(got, want), func() string { return fmt.Sprintf("%s = %x,%v want DESL = %x", desc(f)(), got, err, want) })
		}
		// exact-capacity slices: the plain path
		{
			hs := append(make([]byte, 0, 16), h[:]...)
			cs := append(make([]byte, 0, 8), ch...)
			var n *ntlmv1.NTLMv1
			var err error
			var got []byte
			if call(t, "ntlmv1.NewNTLMv1WithNTHash", desc("new"), func() { n, err = ntlmv1.NewNTLMv1WithNTHash("D", "u", hs, cs) }) && t.check("C02/ntlmv1/WithNTHash/constructs", err == nil && n != nil, desc("new")) {
				if call(t, "ntlmv1.Hash", desc("Hash()"), func() { got, err = n.Hash() }) {
					cmp("C02/ntlmv1/WithNTHash/Hash", "Hash()", got, err)
				}
				var s string
				if call(t, "ntlmv1.String", desc("String()"), func() { s = n.String() }) {
					t.check("C02/ntlmv1/WithNTHash/String", strings.EqualFold(s, hex.EncodeToString(want)), func() string { return fmt.Sprintf("%s = %q want hex of %x", desc("String()")(), s, want) })
				}
				if call(t, "ntlmv1.NTResponse", desc("NTResponse()"), func() { got, err = n.NTResponse() }) {
					cmp("C02/ntlmv1/WithNTHash/NTResponse", "NTResponse()", got, err)
				}
				// repeated evaluation on the same object must not drift
				if call(t, "ntlmv1.Hash", desc("Hash() 2nd"), func() { got, err = n.Hash() }) {
					cmp("C02/ntlmv1/WithNTHash/Hash-repeatable", "Hash() second call", got, err)
				}
			}
		}
		// hash and challenge are adjacent parts of one caller buffer (e.g. a parsed packet): the hash slice
		// has spare capacity that reaches into the challenge.
		for _, ep := range []string{"Hash", "NTResponse"} {
			buf := make([]byte, 24, 32)
			copy(buf, h[:])
			copy(buf[16:], ch)
			var n *ntlmv1.NTLMv1
			var err error
			var got []byte
			d := func() string {
				return fmt.Sprintf("buf=%x%x; NewNTLMv1WithNTHash(nthash=buf[:16], challenge=buf[16:24]).%s()", h, ch, ep)
			}
			if !call(t, "ntlmv1.NewNTLMv1WithNTHash", d, func() { n, err = ntlmv1.NewNTLMv1WithNTHash("D", "u", buf[:16], buf[16:24]) }) || err != nil {
				continue
			}
			if !call(t, "ntlmv1."+ep, d, func() {
				if ep == "Hash" {
					got, err = n.Hash()
				} else {
					got, err = n.NTResponse()
				}
			}) {
				continue
			}
			t.check("C02/ntlmv1/WithNTHash-hash-and-challenge-in-one-buffer/"+ep, err == nil && bytes.Equal(got, want), func() string {
				return fmt.Sprintf("%s = %x,%v want DESL(hash, challenge) = %x; buffer afterwards %x", d(), got, err, want, buf)
			})
		}
	})
	c.Sample("ntlmv1-lattice", map[string]any{"nthash": hex.EncodeToString(cases[777].h[:]), "challenge": hex.EncodeToString(cases[777].ch)})
}

// ------------------------------------------------------------------ NTLMv1 from passwords

var runeAlpha = []string{"a", "Z", "0", " ", "\x00", "é", "ß", "Σ", "я", "€", "￿", "\U00010428", "\U0001F600", "\ufffd"}

func asciiPasswords() []string {
	out := enum.Strings([]string{"a", "Z", "0", " ", "~"}, 3)
	for n := 4; n <= 20; n++ {
		out = append(out, string(enum.Counter(n, 'a')))
	}
	out = append(out, "Password", "PASSWORD", "password", "SecREt01")
	// every printable ASCII character on its own and inside a word (the case fold of LM must treat each of
	// the 26 letters alike, and nothing else), and every length up to 130 characters (the NT hash is MD4
	// over 2n bytes: n = 28, 60, 92, 124 leave exactly 56 bytes in the last block)
	for ch := 0x20; ch <= 0x7e; ch++ {
		out = append(out, string(rune(ch)), "A"+string(rune(ch))+"b")
	}
	for n := 21; n <= 130; n++ {
		b := make([]byte, n)
		for i := range b {
			b[i] = byte('a' + i%26)
		}
		out = append(out, string(b))
	}
	return out
}

func v1Passwords(c *vf.Ctx) {
	type pc struct {
		pw    string
		ch    []byte
		ascii bool
	}
	var cases []pc
	chs := chalLattice(false)
	few := chs[:3]
	for _, p := range enum.Strings(runeAlpha, c.Pick(2, 3)) {
		for _, ch := range few {
			cases = append(cases, pc{p, ch, rn.IsASCII(p)})
		}
	}
	for _, p := range asciiPasswords() {
		for _, ch := range few {
			cases = append(cases, pc{p, ch, true})
		}
	}
	for _, p := range []string{"Password", "é\U0001F600"} {
		for _, ch := range chs {
			cases = append(cases, pc{p, ch, rn.IsASCII(p)})
		}
	}
	shards(c, len(cases), func(i int, t *tally) {
		pw, ch := cases[i].pw, cases[i].ch
		nt := rc.NT(pw)
		wantNT := rc.DESL(nt[:], ch)
		c.Case([]byte("v1pw"), []byte(pw), ch)
		desc := func(f string) func() string {
			return func() string { return fmt.Sprintf("NewNTLMv1WithPassword(password=%q, challenge=%x).%s", pw, ch, f) }
		}
		var n *ntlmv1.NTLMv1
		var err error
		var got []byte
		if !call(t, "ntlmv1.NewNTLMv1WithPassword", desc("new"), func() { n, err = ntlmv1.NewNTLMv1WithPassword("D", "u", pw, append([]byte{}, ch...)) }) ||
			!t.check("C02/ntlmv1/WithPassword/constructs", err == nil && n != nil, desc("new")) {
			return
		}
		if call(t, "ntlmv1.Hash", desc("Hash()"), func() { got, err = n.Hash() }) {
			t.check("C02/ntlmv1/WithPassword/Hash", err == nil && bytes.Equal(got, wantNT), func() string { return fmt.Sprintf("%s = %x,%v want %x", desc("Hash()")(), got, err, wantNT) })
		}
		var s string
		if call(t, "ntlmv1.String", desc("String()"), func() { s = n.String() }) {
			t.check("C02/ntlmv1/WithPassword/String", strings.EqualFold(s, hex.EncodeToString(wantNT)), func() string { return fmt.Sprintf("%s = %q want hex of %x", desc("String()")(), s, wantNT) })
		}
		if call(t, "ntlmv1.NTResponse", desc("NTResponse()"), func() { got, err = n.NTResponse() }) {
			t.check("C02/ntlmv1/WithPassword/NTResponse", err == nil && bytes.Equal(got, wantNT), func() string { return fmt.Sprintf("%s = %x,%v want %x", desc("NTResponse()")(), got, err, wantNT) })
		}
		if cases[i].ascii {
			wantLM := rc.DESL(rc.LM(pw), ch)
			if call(t, "ntlmv1.LMResponse", desc("LMResponse()"), func() { got, err = n.LMResponse() }) {
				t.check("C02/ntlmv1/WithPassword/LMResponse", err == nil && bytes.Equal(got, wantLM), func() string {
					return fmt.Sprintf("%s = %x,%v want DESL(LMOWFv1) = %x", desc("LMResponse()")(), got, err, wantLM)
				})
			}
		}
		// the object built as a plain struct literal (NTHash derived lazily inside Hash)
		if pw != "" {
			lit := &ntlmv1.NTLMv1{Password: pw, ServerChallenge: append([]byte{}, ch...)}
			if call(t, "ntlmv1.Hash", desc("literal Hash()"), func() { got, err = lit.Hash() }) {
				t.check("C02/ntlmv1/struct-literal-with-password/Hash", err == nil && bytes.Equal(got, wantNT), func() string {
					return fmt.Sprintf("(&NTLMv1{Password:%q, ServerChallenge:%x}).Hash() = %x,%v want %x", pw, ch, got, err, wantNT)
				})
			}
		}
	})
	c.Sample("ntlmv1-password", map[string]any{"password": cases[100].pw, "challenge": hex.EncodeToString(cases[100].ch)})
}

// ------------------------------------------------------------------ NTLMv1 through ntlm.CreateAuthenticateMessage

// decodeName decodes a name payload in the character set selected by the message flags.
func decodeName(flags uint32, b []byte) (string, bool) {
	if flags&rn.FlagUnicode != 0 {
		s, err := rn.DecodeUTF16LE(b)
		return s, err == nil
	}
	return string(b), rn.IsASCII(string(b))
}

func v1Authenticate(c *vf.Ctx) {
	type ac struct {
		pw    string
		ch    []byte
		flags uint32
	}
	var cases []ac
	chs := chalLattice(false)
	for _, fl := range []uint32{rn.FlagUnicode | rn.FlagNTLM, rn.FlagOEM | rn.FlagNTLM, rn.FlagUnicode | rn.FlagNTLM | rn.FlagVersion | rn.FlagTargetInfo | rn.FlagKeyExch} {
		for _, p := range append(asciiPasswords(), enum.Strings(runeAlpha, 1)...) {
			for _, ch := range chs[:3] {
				cases = append(cases, ac{p, ch, fl})
			}
		}
		for _, ch := range chs {
			cases = append(cases, ac{"Password", ch, fl})
		}
	}
	shards(c, len(cases), func(i int, t *tally) {
		pw, ch, fl := cases[i].pw, cases[i].ch, cases[i].flags
		chm := &ntlm.ChallengeMessage{MessageType: 2, NegotiateFlags: fl}
		copy(chm.Signature[:], rn.Signature)
		copy(chm.ServerChallenge[:], ch)
		desc := func() string {
			return fmt.Sprintf("ntlm.CreateAuthenticateMessage(&ChallengeMessage{NegotiateFlags:%#x, ServerChallenge:%x}, user=\"User\", password=%q, domain=\"Dom\", workstation=\"WS\")", fl, ch, pw)
		}
		var msg []byte
		var err error
		c.Case([]byte("v1auth"), []byte(pw), ch, []byte{byte(fl), byte(fl >> 8), byte(fl >> 16), byte(fl >> 24)})
		if !call(t, "ntlm.CreateAuthenticateMessage", desc, func() { msg, err = ntlm.CreateAuthenticateMessage(chm, "User", pw, "Dom", "WS") }) {
			return
		}
		if !t.check("C02/ntlm.CreateAuthenticateMessage/v1/builds", err == nil, func() string { return fmt.Sprintf("%s: error %v", desc(), err) }) {
			return
		}
		a, perr := rn.ParseAuthenticate(msg)
		var ntr, lmr []byte
		ok := perr == nil && a.SigOK && a.Type == 3
		if ok {
			var ok1, ok2 bool
			ntr, ok1 = a.Nt.Slice(msg)
			lmr, ok2 = a.Lm.Slice(msg)
			ok = ok1 && ok2
		}
		if !t.check("C02/ntlm.CreateAuthenticateMessage/v1/responses-locatable", ok, func() string { return fmt.Sprintf("%s: message %s: %v", desc(), vf.HexS(msg), perr) }) {
			return
		}
		nt := rc.NT(pw)
		want := rc.DESL(nt[:], ch)
		t.check("C02/ntlm.CreateAuthenticateMessage/v1/NtChallengeResponse", bytes.Equal(ntr, want), func() string {
			return fmt.Sprintf("%s: NtChallengeResponse %x want DESL(NTOWFv1, challenge) = %x", desc(), ntr, want)
		})
		if rn.IsASCII(pw) {
			wantLM := rc.DESL(rc.LM(pw), ch)
			t.check("C02/ntlm.CreateAuthenticateMessage/v1/LmChallengeResponse", bytes.Equal(lmr, wantLM), func() string {
				return fmt.Sprintf("%s: LmChallengeResponse %x want DESL(LMOWFv1, challenge) = %x", desc(), lmr, wantLM)
			})
		}
	})
}

// ------------------------------------------------------------------ NTLMv2, crypto/ntlmv2

var v2Users = []string{"", "user", "User", "USER", "é", "É", "Σς", "\U00010428", "ß", "ı", "user.name", "a", "100%sure", "%s%d", "alice@corp.local", "CORP\\alice", "ops/deploy", " padded ", "\ufeffbom", "re\ufffdplaced"}
var v2Domains = []string{"", "corp", "Corp", "CORP", "дом", "ДОМ", "a", "corp.example.com", "é", "\U00010428", "d\U0001F600m", "域", "%USERDOMAIN%", "corp\\sub", "a@b", " d ", "\ufffd"}
var v2Passwords = []string{"", "a", "Password", "é\U0001F600", "Σ я", "\ufffd\ufffd"}

func arr8(b []byte) (o [8]byte) { copy(o[:], b); return }

// hashcat5600 re-parses a line by hashcat's NetNTLMv2 field rules (module 5600:
// user::domain:server-challenge(16 hex):NTProofStr(32 hex):blob(hex)) and returns whether it
// verifies against the NT hash.
func hashcat5600(line string, nt [16]byte) (formatErr error, verifies bool, detail string) {
	f := strings.Split(line, ":")
	if len(f) != 6 {
		return fmt.Errorf("%d ':'-separated fields, want 6", len(f)), false, ""
	}
	if f[1] != "" {
		return fmt.Errorf("second field %q not empty (user::domain)", f[1]), false, ""
	}
	if len(f[3]) != 16 {
		return fmt.Errorf("server challenge field has %d hex digits, want 16", len(f[3])), false, ""
	}
	if len(f[4]) != 32 {
		return fmt.Errorf("NTProofStr field has %d hex digits, want 32", len(f[4])), false, ""
	}
	if len(f[5]) < 2 || len(f[5])%2 != 0 {
		return fmt.Errorf("blob field has %d hex digits", len(f[5])), false, ""
	}
	sc, e1 := hex.DecodeString(f[3])
	proof, e2 := hex.DecodeString(f[4])
	blob, e3 := hex.DecodeString(f[5])
	if e1 != nil || e2 != nil || e3 != nil {
		return fmt.Errorf("non-hex digits in challenge/proof/blob"), false, ""
	}
	key := rc.NTOWFv2(nt, f[0], f[2])
	want := rc.HMACMD5(key, sc, blob)
	return nil, bytes.Equal(want, proof), fmt.Sprintf("HMAC-MD5(NTOWFv2(pw, %q, %q), %x || blob) = %x, line says %x", f[0], f[2], sc, want, proof)
}

func v2Direct(c *vf.Ctx) {
	type vc struct {
		user, dom, pw string
		sc, cc        []byte
	}
	var cases []vc
	chs := chalLattice(false)
	fullCh := chalLattice(true)
	for _, u := range v2Users {
		for _, d := range v2Domains {
			for _, p := range v2Passwords {
				if c.Thorough() {
					for _, sc := range chs {
						cases = append(cases, vc{u, d, p, sc, chs[2]})
						cases = append(cases, vc{u, d, p, chs[2], sc})
					}
				} else {
					for k := 0; k < 6; k++ {
						cases = append(cases, vc{u, d, p, chs[k], chs[(k+3)%6]})
					}
				}
			}
		}
	}
	// challenge lattices in full for a few identities (incl. the empty domain, where the blob is well formed today)
	for _, id := range []vc{{user: "User", dom: "", pw: "Password"}, {user: "User", dom: "CORP", pw: "Password"}, {user: "é", dom: "дом", pw: "é\U0001F600"}} {
		for _, x := range fullCh {
			cases = append(cases, vc{id.user, id.dom, id.pw, x, fullCh[2]}, vc{id.user, id.dom, id.pw, fullCh[2], x})
		}
	}
	shards(c, len(cases), func(i int, t *tally) {
		if i%4096 == 0 && c.DeadlineExceeded() {
			return
		}
		k := cases[i]
		nt := rc.NT(k.pw)
		sc, cc := arr8(k.sc), arr8(k.cc)
		c.Case([]byte("v2"), []byte(k.user), []byte{0}, []byte(k.dom), []byte{0}, []byte(k.pw), k.sc, k.cc)
		desc := func(f string) func() string {
			return func() string {
				return fmt.Sprintf("NewNTLMv2(domain=%q, user=%q, password=%q, server=%x, client=%x).%s", k.dom, k.user, k.pw, sc, cc, f)
			}
		}
		var v *ntlmv2.NTLMv2
		var err error
		if !call(t, "ntlmv2.NewNTLMv2", desc("new"), func() { v, err = ntlmv2.NewNTLMv2(k.dom, k.user, k.pw, sc, cc) }) ||
			!t.check("C02/ntlmv2/NewNTLMv2/constructs", err == nil && v != nil, desc("new")) {
			return
		}
		wantKey := rc.NTOWFv2(nt, k.user, k.dom)
		t.check("C02/ntlmv2/NewNTLMv2/ResponseKeyNT-is-NTOWFv2", bytes.Equal(v.ResponseKeyNT[:], wantKey), func() string {
			return fmt.Sprintf("%s: ResponseKeyNT %x want HMAC-MD5(NT hash, UTF16LE(Upper(user)+domain)) = %x", desc("ResponseKeyNT")(), v.ResponseKeyNT, wantKey)
		})
		judge := func(ep string, resp []byte) {
			vd := rn.VerifyNTLMv2(nt, k.user, k.dom, k.sc, resp)
			t.check("C02/ntlmv2/"+ep+"/proof-verifies", vd.LenOK && vd.ProofOK, func() string {
				return fmt.Sprintf("%s = %s: first 16 bytes are not HMAC-MD5(NTOWFv2(password, %q, %q), server challenge || rest) = %x", desc(ep+"()")(), vf.HexS(resp), k.user, k.dom, vd.Want)
			})
			t.check("C02/ntlmv2/"+ep+"/blob-wellformed", vd.LenOK && vd.BlobErr == nil, func() string {
				return fmt.Sprintf("%s = %s: bytes after the proof are not an MS-NLMP 2.2.2.7 client blob: %v", desc(ep+"()")(), vf.HexS(resp), vd.BlobErr)
			})
			t.check("C02/ntlmv2/"+ep+"/blob-carries-client-challenge", len(resp) >= 40 && bytes.Equal(resp[32:40], k.cc), func() string {
				return fmt.Sprintf("%s = %s: bytes 16..24 of the blob are not the client challenge %x", desc(ep+"()")(), vf.HexS(resp), k.cc)
			})
		}
		var resp []byte
		if call(t, "ntlmv2.Hash", desc("Hash()"), func() { resp, err = v.Hash() }) && t.check("C02/ntlmv2/Hash/no-error", err == nil, desc("Hash()")) {
			judge("Hash", resp)
		}
		var hx string
		if call(t, "ntlmv2.HashHex", desc("HashHex()"), func() { hx, err = v.HashHex() }) && t.check("C02/ntlmv2/HashHex/no-error", err == nil, desc("HashHex()")) {
			b, herr := hex.DecodeString(hx)
			if t.check("C02/ntlmv2/HashHex/is-hex", herr == nil, func() string { return fmt.Sprintf("%s = %q: %v", desc("HashHex()")(), hx, herr) }) {
				judge("HashHex", b)
			}
		}
		var line string
		if call(t, "ntlmv2.ToHashcatString", desc("ToHashcatString()"), func() { line, err = v.ToHashcatString() }) && t.check("C02/ntlmv2/ToHashcatString/no-error", err == nil, desc("ToHashcatString()")) {
			ferr, ok, detail := hashcat5600(line, nt)
			t.check("C02/ntlmv2/ToHashcatString/hashcat-5600-field-format", ferr == nil, func() string {
				return fmt.Sprintf("%s = %q: %v (hashcat 5600: user::domain:serverchallenge[16 hex]:NTProofStr[32 hex]:blob)", desc("ToHashcatString()")(), line, ferr)
			})
			t.check("C02/ntlmv2/ToHashcatString/verifies-against-password", ferr == nil && ok, func() string {
				if ferr != nil {
					return fmt.Sprintf("%s = %q cannot be verified: %v", desc("ToHashcatString()")(), line, ferr)
				}
				return fmt.Sprintf("%s = %q: %s", desc("ToHashcatString()")(), line, detail)
			})
		}
	})
	c.Sample("ntlmv2-case", map[string]any{"user": "Σς", "domain": "corp", "password": "é😀", "server_challenge": "0123456789abcdef", "client_challenge": "0000000000000080"})
}

// ------------------------------------------------------------------ NTLMv2 through ntlm.CreateAuthenticateMessage

// judgeV2Authenticate is the server's view of one AUTHENTICATE message built for case k.
func judgeV2Authenticate(t *tally, k ac, msg []byte, desc func() string) {
	a, perr := rn.ParseAuthenticate(msg)
	ok := perr == nil && a.SigOK && a.Type == 3
	var ntr, lmr, ub, db []byte
	var us, ds string
	if ok {
		var o1, o2, o3, o4, o5, o6 bool
		ntr, o1 = a.Nt.Slice(msg)
		lmr, o2 = a.Lm.Slice(msg)
		ub, o3 = a.User.Slice(msg)
		db, o4 = a.Domain.Slice(msg)
		us, o5 = decodeName(a.Flags, ub)
		ds, o6 = decodeName(a.Flags, db)
		ok = o1 && o2 && o3 && o4 && o5 && o6
	}
	if !t.check("C02/ntlm.CreateAuthenticateMessage/v2/responses-and-names-locatable", ok, func() string { return fmt.Sprintf("%s: message %s: %v", desc(), vf.HexS(msg), perr) }) {
		return
	}
	// the verifier is the server: identity = the message's own UserName / DomainName fields
	nt := rc.NT(k.pw)
	vd := rn.VerifyNTLMv2(nt, us, ds, k.sc, ntr)
	t.check("C02/ntlm.CreateAuthenticateMessage/v2/NtChallengeResponse/proof-verifies", vd.LenOK && vd.ProofOK, func() string {
		return fmt.Sprintf("%s: NtChallengeResponse %s does not verify for the message's UserName %q / DomainName %q (want proof %x)", desc(), vf.HexS(ntr), us, ds, vd.Want)
	})
	t.check("C02/ntlm.CreateAuthenticateMessage/v2/NtChallengeResponse/blob-wellformed", vd.LenOK && vd.BlobErr == nil, func() string {
		return fmt.Sprintf("%s: NtChallengeResponse %s: not an MS-NLMP 2.2.2.7 client blob: %v", desc(), vf.HexS(ntr), vd.BlobErr)
	})
	// LMv2: either a verifying LMv2 response or Z(24) (which MS-NLMP prescribes when the server sent MsvAvTimestamp)
	t.check("C02/ntlm.CreateAuthenticateMessage/v2/LmChallengeResponse/lmv2-verifies-or-zero", rn.VerifyLMv2(nt, us, ds, k.sc, lmr) || bytes.Equal(lmr, make([]byte, 24)), func() string {
		return fmt.Sprintf("%s: LmChallengeResponse %x is neither HMAC-MD5(NTOWFv2, server||client)||client for UserName %q / DomainName %q nor Z(24)", desc(), lmr, us, ds)
	})
}

func enumCounter(n int) []byte {
	b := make([]byte, n)
	for i := range b {
		b[i] = byte(i*7 + 1)
	}
	return b
}

func targetInfos() [][]byte {
	u := rc.UTF16LE
	ts := make([]byte, 8)
	binary.LittleEndian.PutUint64(ts, 0x01db9c3f48248296)
	return [][]byte{
		nil,
		rn.EncodeAvPairs(nil),
		rn.EncodeAvPairs([]rn.AvPair{{ID: 2, Value: u("CORP")}}),
		rn.EncodeAvPairs([]rn.AvPair{{ID: 2, Value: u("CORP")}, {ID: 1, Value: u("SRV")}, {ID: 4, Value: u("corp.example")}, {ID: 3, Value: u("srv.corp.example")}, {ID: 7, Value: ts}}),
		rn.EncodeAvPairs([]rn.AvPair{{ID: 1, Value: nil}, {ID: 6, Value: []byte{0, 0, 0, 0}}, {ID: 9, Value: u("cifs/é")}, {ID: 10, Value: make([]byte, 16)}}),
	}
}

type ac struct {
	user, dom, pw string
	sc            []byte
	flags         uint32
	ti            []byte
}

func v2Authenticate(c *vf.Ctx) {
	var cases []ac
	chs := chalLattice(false)
	tis := targetInfos()
	base := rn.FlagNTLM | rn.FlagESS
	for _, cs := range []uint32{rn.FlagUnicode, rn.FlagOEM, rn.FlagUnicode | rn.FlagOEM} {
		for _, u := range v2Users {
			for _, d := range v2Domains {
				if cs&rn.FlagUnicode == 0 && !(rn.IsASCII(u) && rn.IsASCII(d)) {
					continue // OEM code pages beyond ASCII are not covered
				}
				for pi, p := range v2Passwords {
					for ti, info := range tis {
						if c.Quick() && (pi+ti)%2 == 1 {
							continue
						}
						fl := base | cs
						if info != nil {
							fl |= rn.FlagTargetInfo
						}
						cases = append(cases, ac{u, d, p, chs[(pi+ti)%6], fl, info})
					}
				}
			}
		}
		for _, sc := range chs {
			cases = append(cases, ac{"User", "Domain", "Password", sc, base | cs | rn.FlagTargetInfo | rn.FlagVersion, tis[3]})
		}
	}
	// every TargetInfo size: one AV pair whose value has 0..N bytes (the client blob is 32 bytes longer; any
	// fixed-size scratch buffer, 255/256, 1024 or 4096 boundary lies inside the sweep)
	for n := 0; n <= c.Pick(2300, 9000); n++ {
		ti := rn.EncodeAvPairs([]rn.AvPair{{ID: 9, Value: enumCounter(n)}})
		cases = append(cases, ac{"User", "Domain", "Password", chs[n%6], base | rn.FlagUnicode | rn.FlagTargetInfo, ti})
	}
	shards(c, len(cases), func(i int, t *tally) {
		k := cases[i]
		chm := &ntlm.ChallengeMessage{MessageType: 2, NegotiateFlags: k.flags, TargetInfo: k.ti}
		copy(chm.Signature[:], rn.Signature)
		copy(chm.ServerChallenge[:], k.sc)
		desc := func() string {
			return fmt.Sprintf("ntlm.CreateAuthenticateMessage(&ChallengeMessage{NegotiateFlags:%#x, ServerChallenge:%x, TargetInfo:%x}, user=%q, password=%q, domain=%q, workstation=\"ws\")", k.flags, k.sc, k.ti, k.user, k.pw, k.dom)
		}
		c.Case([]byte("v2auth"), []byte(k.user), []byte{0}, []byte(k.dom), []byte{0}, []byte(k.pw), k.sc, k.ti, []byte{byte(k.flags)})
		var msg []byte
		var err error
		if !call(t, "ntlm.CreateAuthenticateMessage", desc, func() { msg, err = ntlm.CreateAuthenticateMessage(chm, k.user, k.pw, k.dom, "ws") }) {
			return
		}
		if !t.check("C02/ntlm.CreateAuthenticateMessage/v2/builds", err == nil, func() string { return fmt.Sprintf("%s: error %v", desc(), err) }) {
			return
		}
		judgeV2Authenticate(t, k, msg, desc)
	})
	c.Sample("ntlmv2-authenticate", map[string]any{"user": "Σς", "domain": "corp", "flags": "UNICODE|NTLM|ESS|TARGET_INFO", "target_info": hex.EncodeToString(tis[2])})
}
