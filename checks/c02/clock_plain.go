//go:build !c02clock

package main

import "verif/vf"

// the clock shim could not be mounted on this tree (see prebuild.sh): the clock is not explored
func clockExploration(c *vf.Ctx) {
	c.Set("clock_exploration", map[string]any{"mounted": false})
	c.Cap("the clock seam of the ntlm package could not be mounted on this tree; clock answers were not explored")
}
