//go:build c02clock

package main

import (
	"fmt"
	"time"

	"github.com/TheManticoreProject/Manticore/network/smb/smb_v10/spnego/ntlm"
	"github.com/TheManticoreProject/Manticore/zz_verif/vclock"

	"verif/mc/explore"
	rn "verif/ref/refntlm"
	"verif/vf"
)

// clockExploration owns the wall clock of the ntlm package (package time is replaced by shim/vclock through
// a build overlay): every clock read made while one AUTHENTICATE message is built is a choice point whose
// default answer is "the same instant as before" and whose deviation is "one second later" (E1, bound 2:
// the second rolls over before any read, between any two reads, or twice). Whatever the clock does, the
// message must verify: proof and transmitted blob are computed from the same bytes.
func clockExploration(c *vf.Ctx) {
	chs := chalLattice(false)
	var cases []ac
	base := rn.FlagNTLM | rn.FlagESS
	for i, ti := range targetInfos() {
		fl := base | rn.FlagUnicode
		if ti != nil {
			fl |= rn.FlagTargetInfo
		}
		cases = append(cases, ac{"User", "Domain", "Password", chs[i%6], fl, ti})
	}
	cases = append(cases, ac{"user", "", "pw", chs[1], base | rn.FlagOEM | rn.FlagTargetInfo | rn.FlagVersion, targetInfos()[3]})
	defer func() { vclock.NowFunc = nil }()
	var execs, reads, maxReads int
	for _, k := range cases {
		k := k
		t := &tally{c, map[string]int64{}}
		ex := &explore.Explorer{Bound: 2}
		ex.Body = func(r *explore.Run) {
			now := time.Date(2026, 9, 28, 11, 59, 59, 999_999_000, time.UTC)
			n := 0
			vclock.NowFunc = func() time.Time {
				n++
				if r.Choose(2, fmt.Sprintf("clock read %d: same instant / one second later", n)) == 1 {
					now = now.Add(time.Second)
				}
				return now
			}
			chm := &ntlm.ChallengeMessage{MessageType: 2, NegotiateFlags: k.flags, TargetInfo: k.ti}
			copy(chm.Signature[:], rn.Signature)
			copy(chm.ServerChallenge[:], k.sc)
			desc := func() string {
				return fmt.Sprintf("clock answers %v over %d reads; ntlm.CreateAuthenticateMessage(&ChallengeMessage{NegotiateFlags:%#x, ServerChallenge:%x, TargetInfo:%x}, user=%q, password=%q, domain=%q, workstation=\"ws\")", r.Labels(), n, k.flags, k.sc, k.ti, k.user, k.pw, k.dom)
			}
			var msg []byte
			var err error
			pan, pmsg, where := vf.Try(func() { msg, err = ntlm.CreateAuthenticateMessage(chm, k.user, k.pw, k.dom, "ws") })
			vclock.NowFunc = nil
			c.Case([]byte("v2clock"), []byte(fmt.Sprint(r.Labels())), k.ti, []byte{byte(k.flags)})
			if !t.check("C02/ntlm.CreateAuthenticateMessage/v2/clock/no-panic", !pan, func() string { return desc() + ": panic " + pmsg + " at " + where }) {
				return
			}
			if !t.check("C02/ntlm.CreateAuthenticateMessage/v2/builds", err == nil, func() string { return fmt.Sprintf("%s: error %v", desc(), err) }) {
				return
			}
			judgeV2Authenticate(t, k, msg, desc)
			r.ObserveS(fmt.Sprint(n))
			reads += n
			if n > maxReads {
				maxReads = n
			}
		}
		st, err := ex.Explore()
		if err != nil {
			c.Fatalf("clock explorer: %v", err)
		}
		execs += int(st.Executions)
		for key, v := range t.n {
			c.Pass(key, v)
		}
	}
	c.Set("clock_exploration", map[string]any{"mounted": true, "cases": len(cases), "executions": execs, "clock_reads": reads, "max_clock_reads_in_one_call": maxReads, "bound": 2})
}
