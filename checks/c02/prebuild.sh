#!/bin/bash
# Mounts shim/vclock in place of package time for network/smb/smb_v10/spnego/ntlm (build overlay, /repo
# untouched) so that the harness decides every clock read made while an AUTHENTICATE message is built.
# If the rewritten package does not compile the overlay is dropped and the clock exploration is skipped.
set -u
work=$1
root=$(cd "$(dirname "$(readlink -f "$0")")/../.." && pwd)
repo=${VERIF_REPO:-/repo}
export GOFLAGS=-mod=mod GOPROXY=off
mkdir -p "$work/ntlm"
python3 - "$repo" "$work" "$root" <<'PY'
import sys,os,re,json,glob
repo,work,root=sys.argv[1:4]
ov={}
for f in sorted(glob.glob(repo+'/network/smb/smb_v10/spnego/ntlm/*.go')):
    if f.endswith('_test.go'): continue
    s=open(f).read()
    s2=re.sub(r'(?m)^(\s*)"time"\s*$', r'\1time "github.com/TheManticoreProject/Manticore/zz_verif/vclock"', s)
    s2=re.sub(r'(?m)^import "time"\s*$', 'import time "github.com/TheManticoreProject/Manticore/zz_verif/vclock"', s2)
    if s2!=s:
        out=os.path.join(work,'ntlm',os.path.basename(f))
        open(out,'w').write(s2)
        ov[f]=out
ov[repo+'/zz_verif/vclock/vclock.go']=root+'/shim/vclock/vclock.go'
json.dump({"Replace":ov},open(work+'/overlay.json','w'),indent=1)
PY
if (cd "$repo" && go build -overlay "$work/overlay.json" ./network/smb/smb_v10/spnego/... ./network/smb/smb_v10/client/...) > "$work/vclock-build.log" 2>&1; then
  echo c02clock > "$work/TAGS"
else
  cat "$work/vclock-build.log"
  rm -f "$work/overlay.json"
  echo "clock shim not mounted"
fi
exit 0
