package main

import (
	"bytes"
	"fmt"
	"strings"

	"github.com/TheManticoreProject/Manticore/crypto/ntlmv1"
	"github.com/TheManticoreProject/Manticore/crypto/ntlmv2"

	"verif/mc/purity"
	rc "verif/ref/refcrypto"
	rn "verif/ref/refntlm"
	"verif/vf"
)

// histories: call histories on ONE credential object and across objects.
//   - all orders of {LMResponse, NTResponse, Hash, String} on one NTLMv1 object, every result kept and
//     re-checked after all later calls (a response is the caller's own bytes);
//   - the constructors + response functions as pure functions of the password (verif/mc/purity): results of an
//     earlier call survive later calls, a caller wiping a response does not poison the next one.
func histories(c *vf.Ctx) {
	ch := []byte{1, 2, 3, 4, 5, 6, 7, 8}
	perms := [][]int{{0, 1, 2, 3}, {1, 0, 3, 2}, {2, 0, 1, 3}, {3, 2, 1, 0}, {0, 0, 1, 1}, {1, 1, 0, 0}, {2, 2, 3, 3}}
	names := []string{"LMResponse", "NTResponse", "Hash", "String"}
	for _, pw := range []string{"", "Password", "é\U0001F600"} {
		nt := rc.NT(pw)
		wantNT := rc.DESL(nt[:], ch)
		wantLM := rc.DESL(rc.LM(pw), ch)
		for _, perm := range perms {
			n, err := ntlmv1.NewNTLMv1WithPassword("DOM", "user", pw, append([]byte(nil), ch...))
			if err != nil {
				continue
			}
			type held struct {
				op   int
				b    []byte
				want []byte
			}
			var hs []held
			var order []string
			pan, msg, where := vf.Try(func() {
				for _, op := range perm {
					order = append(order, names[op])
					switch op {
					case 0:
						b, _ := n.LMResponse()
						hs = append(hs, held{op, b, wantLM})
					case 1:
						b, _ := n.NTResponse()
						hs = append(hs, held{op, b, wantNT})
					case 2:
						b, _ := n.Hash()
						hs = append(hs, held{op, b, wantNT})
					case 3:
						n.String()
					}
				}
			})
			c.Check("C02/history/ntlmv1/no-panic", !pan, func() string { return fmt.Sprintf("%v on one NTLMv1 object: panic %s %s", order, msg, where) })
			for i, h := range hs {
				if h.op == 0 && !ascii(pw) {
					continue // the LM hash is defined for 7-bit ASCII passwords only
				}
				c.Check("C02/history/ntlmv1/every-response-still-correct-after-all-later-calls", fmt.Sprintf("%x", h.b) == fmt.Sprintf("%x", h.want), func() string {
					return fmt.Sprintf("password %q, calls %v on ONE object: the result of call %d (%s) reads %x after the later calls, want %x", pw, order, i+1, names[h.op], h.b, h.want)
				})
			}
		}
	}
	pws := [][]byte{[]byte(""), []byte("a"), []byte("Password"), []byte("é\U0001F600")}
	purity.Check(c, "C02/history/ntlmv1-responses", "NewNTLMv1WithPassword(DOM,user,pw,ch).{LMResponse,NTResponse,Hash}", pws, func(in []byte) [][]byte {
		n, err := ntlmv1.NewNTLMv1WithPassword("DOM", "user", string(in), append([]byte(nil), ch...))
		if err != nil {
			return nil
		}
		lm, _ := n.LMResponse()
		nr, _ := n.NTResponse()
		h, _ := n.Hash()
		return [][]byte{lm, nr, h}
	})
	purity.Check(c, "C02/history/ntlmv2-hash", "NewNTLMv2(Dom,user,pw,sc,cc).{Hash,ToHashcatString}", pws, func(in []byte) [][]byte {
		n, err := ntlmv2.NewNTLMv2("Dom", "user", string(in), [8]byte{1, 2, 3, 4, 5, 6, 7, 8}, [8]byte{8, 7, 6, 5, 4, 3, 2, 1})
		if err != nil {
			return nil
		}
		h, _ := n.Hash()
		// the proof (first 16 bytes) and the client challenge are deterministic; the blob's timestamp is not
		if len(h) < 40 {
			return [][]byte{h}
		}
		return [][]byte{h[:0:0], append([]byte(nil), h[32:40]...)}
	})
	// one NTLMv2 value whose exported fields are edited between calls (a spraying loop keeps the value and assigns
	// the next user / password / domain / challenge): every later response is the response of the credential the
	// value describes THEN, judged by the independent verifier. All ordered pairs of four credentials x which of
	// the fields are assigned x whether a response was asked for before the edit.
	type cred struct {
		dom, user, pw string
		sc, cc        [8]byte
	}
	creds := []cred{
		{"Dom", "user", "Password", [8]byte{1, 2, 3, 4, 5, 6, 7, 8}, [8]byte{8, 7, 6, 5, 4, 3, 2, 1}},
		{"corp", "Administrator", "é\U0001F600", [8]byte{0xff, 0xee, 0xdd, 0xcc, 0xbb, 0xaa, 0x99, 0x88}, [8]byte{0, 0, 0, 0, 0, 0, 0, 0x80}},
		{"", "u", "", [8]byte{}, [8]byte{0xff, 0xff, 0xff, 0xff, 0xff, 0xff, 0xff, 0xff}},
		{"Dom", "User", "password", [8]byte{1, 2, 3, 4, 5, 6, 7, 9}, [8]byte{8, 7, 6, 5, 4, 3, 2, 1}},
	}
	for ai, a := range creds {
		for bi, b := range creds {
			if ai == bi {
				continue
			}
			for mask := 1; mask < 32; mask++ {
				for _, asked := range []bool{true, false} {
					cur := a
					var resp []byte
					var line string
					var herr, lerr error
					pn, msg, where := vf.Try(func() {
						v, err := ntlmv2.NewNTLMv2(a.dom, a.user, a.pw, a.sc, a.cc)
						if err != nil {
							herr = err
							return
						}
						if asked {
							v.Hash()
							v.ToHashcatString()
						}
						if mask&1 != 0 {
							v.Username, cur.user = b.user, b.user
						}
						if mask&2 != 0 {
							v.Password, cur.pw = b.pw, b.pw
						}
						if mask&4 != 0 {
							v.Domain, cur.dom = b.dom, b.dom
						}
						if mask&8 != 0 {
							v.ServerChallenge, cur.sc = b.sc, b.sc
						}
						if mask&16 != 0 {
							v.ClientChallenge, cur.cc = b.cc, b.cc
						}
						resp, herr = v.Hash()
						line, lerr = v.ToHashcatString()
					})
					c.Evals(1)
					nt := rc.NT(cur.pw)
					vd := rn.VerifyNTLMv2(nt, cur.user, cur.dom, cur.sc[:], resp)
					okLine := false
					if lerr == nil {
						ferr, ok, _ := hashcat5600(line, nt)
						okLine = ferr == nil && ok && strings.HasPrefix(line, cur.user+"::"+cur.dom+":")
					}
					c.Check("C02/history/ntlmv2/edited-value-answers-for-the-credential-it-describes-now", !pn && herr == nil && vd.LenOK && vd.ProofOK && len(resp) >= 40 && bytes.Equal(resp[32:40], cur.cc[:]) && okLine, func() string {
						return fmt.Sprintf("NewNTLMv2(%q,%q,%q,%x,%x)%s, fields assigned (mask %05b: user,password,domain,server,client) from (%q,%q,%q,%x,%x): Hash() = %x (%v) proof-verifies=%v; ToHashcatString() = %q (%v) verifies=%v (panic=%v %s %s)",
							a.dom, a.user, a.pw, a.sc, a.cc, map[bool]string{true: " + Hash() + ToHashcatString()", false: ""}[asked], mask, b.dom, b.user, b.pw, b.sc, b.cc, resp, herr, vd.ProofOK, line, lerr, okLine, pn, msg, where)
					})
				}
			}
		}
	}
}

func ascii(s string) bool {
	for i := 0; i < len(s); i++ {
		if s[i] >= 0x80 {
			return false
		}
	}
	return true
}
