#!/bin/bash
# Offline setup: build every check once (incl. instrumented and -race variants) so that the Go
# build cache is warm. Uses only files on disk.
set -u
cd "$(dirname "$(readlink -f "$0")")"
export GOFLAGS=-mod=mod GOPROXY=off
mkdir -p .work evidence replays
(cd /repo && go build ./... ) || { echo "setup: /repo does not build"; exit 1; }
rc=0
pids=()
for d in checks/c[0-9]*/; do
  id=$(basename "$d" | tr a-z A-Z)
  [ -f "$d/main.go" ] || continue
  VERIF_BUILD_ONLY=1 ./vcheck "$id" quick || rc=1
done
exit $rc
