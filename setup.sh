#!/bin/bash
# Offline setup: warm the Go build cache for every check (sources on disk only).
set -u
cd "$(dirname "$(readlink -f "$0")")"
export GOFLAGS=-mod=mod GOPROXY=off
mkdir -p .work evidence replays
(cd /repo && go build ./... ) || { echo "setup: /repo does not build"; exit 1; }
go build -o /dev/null ./vf ./enum ./mc/... ./ref/... || exit 1
rc=0
for d in checks/*/; do
  id=$(basename "$d")
  [ -f "$d/main.go" ] || continue
  if [ -x "$d/prebuild.sh" ]; then continue; fi   # overlay-built checks are warmed below
  go build -o .work/setup-$id "./$d" || rc=1
  rm -f .work/setup-$id
done
for d in checks/*/; do
  [ -x "$d/setup.sh" ] && { "$d/setup.sh" || rc=1; }
done
exit $rc
