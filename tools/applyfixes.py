#!/usr/bin/env python3
"""Applies proposed fix patches from /verif/fixes to /repo, one commit each, and fills the
commit hash into the findings files. Usage: applyfixes.py [slug ...] (default: all)."""
import subprocess, sys, os, json, glob, re
env = dict(os.environ, GOFLAGS='-mod=mod', GOPROXY='off')
def sh(cmd, cwd='/repo', timeout=900):
    return subprocess.run(cmd, shell=True, cwd=cwd, env=env, capture_output=True, text=True, timeout=timeout)
slugs = sys.argv[1:] or sorted(os.path.basename(p)[:-6] for p in glob.glob('/verif/fixes/*.patch'))
os.makedirs('/verif/fixes/applied', exist_ok=True)
for slug in slugs:
    patch = f'/verif/fixes/{slug}.patch'; msgf = f'/verif/fixes/{slug}.msg'
    if not os.path.exists(patch): print('MISSING', slug); continue
    msg = open(msgf).read().strip()
    if not msg.startswith('fix: '): print('BAD-MSG', slug); continue
    if sh('git status --porcelain').stdout.strip(): print('REPO-DIRTY, abort'); sys.exit(1)
    r = sh(f'git apply --check {patch}')
    if r.returncode: print('DOES-NOT-APPLY', slug, r.stderr[:300]); continue
    sh(f'git apply {patch}')
    files = sh('git diff --name-only').stdout.split()
    pkgs = sorted({'./' + os.path.dirname(f) for f in files})
    r = sh('go build ./... && gofmt -l ' + ' '.join(files))
    if r.returncode or r.stdout.strip():
        print('BUILD/GOFMT-FAIL', slug, r.stdout[:300], r.stderr[:300]); sh('git checkout -- .'); continue
    r = sh('go test -count=1 -timeout 600s ' + ' '.join(pkgs))
    if r.returncode:
        print('TESTS-FAIL', slug, r.stdout[-600:]); sh('git checkout -- .'); continue
    open('/tmp/fixmsg','w').write(msg + '\n')
    r = sh('git add -A && git commit -q -F /tmp/fixmsg')
    if r.returncode: print('COMMIT-FAIL', slug, r.stderr); sh('git checkout -- .'); continue
    h = sh('git rev-parse --short HEAD').stdout.strip()
    n = 0
    for ff in glob.glob('/verif/findings/*.json'):
        L = json.load(open(ff)); ch = False
        for e in L:
            if e.get('status') == 'fixed' and e.get('commit') == 'PENDING' and (slug + '.patch') in e.get('what', ''):
                e['commit'] = h; e['what'] = e['what'].replace(' PENDING ', f' {h} ', 1); ch = True; n += 1
        if ch: json.dump(L, open(ff, 'w'), indent=1, ensure_ascii=False); open(ff,'a').write('\n')
    os.rename(patch, f'/verif/fixes/applied/{slug}.patch'); os.rename(msgf, f'/verif/fixes/applied/{slug}.msg')
    print('APPLIED', slug, h, 'findings updated:', n, 'pkgs:', ' '.join(pkgs))
