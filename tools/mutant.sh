#!/bin/bash
# mutant.sh <ID> <patch> : apply patch in a scratch worktree, run the package tests touched by the
# patch, run the check against the worktree; prints CAUGHT / MISSED. Never touches /repo's tree.
set -u
id=$1; patch=$(readlink -f "$2"); tier=${3:-quick}
export GOFLAGS=-mod=mod GOPROXY=off
wt=/tmp/wt-mut-$$
git -C /repo worktree add --detach "$wt" HEAD >/dev/null 2>&1 || { echo "worktree failed"; exit 2; }
trap 'git -C /repo worktree remove --force "$wt" >/dev/null 2>&1' EXIT
cd "$wt"
git apply "$patch" || { echo "PATCH-DOES-NOT-APPLY $patch"; exit 2; }
pkgs=$(git diff --name-only | xargs -n1 dirname | sort -u | sed 's#^#./#')
if ! go build ./... >/dev/null 2>&1; then echo "MUTANT-DOES-NOT-BUILD $patch"; exit 2; fi
if ! go test -count=1 -timeout 120s $pkgs >/tmp/mut-test-$$.log 2>&1; then echo "REPO-TESTS-FAIL (mutant is caught by the repository's own tests) $patch"; tail -5 /tmp/mut-test-$$.log; rm -f /tmp/mut-test-$$.log; exit 3; fi
rm -f /tmp/mut-test-$$.log
cd /verif
out=$(VERIF_REPO="$wt" VERIF_NO_EVIDENCE=1 ./vcheck "$id" "$tier" 2>&1); rc=$?
nv=$(echo "$out" | grep -c '^VIOLATION')
if [ $rc -eq 1 ] && [ "$nv" -gt 0 ]; then echo "CAUGHT $id $(basename "$patch") violations=$nv first: $(echo "$out" | grep '^VIOLATION' | head -1 | cut -c1-300)"; exit 0; fi
echo "MISSED $id $(basename "$patch") rc=$rc"; echo "$out" | tail -3; exit 1
