#!/bin/bash
# seedcheck.sh <ID> <letter> : takes /tmp/seed-<ID>/SEED/<letter>, confirms in a fresh scratch worktree
# that (1) the patch applies and builds, (2) the repository's own tests still pass, (3) the
# demonstration fails with the patch and passes without it, then runs the check of <ID> against the
# patched worktree. On success copies the seed to /verif/seeded/<ID>-<letter>/ and prints one RESULT line.
set -u
id=$1; l=$2; tier=${3:-quick}
src=${SEEDROOT:-/tmp/seed}-$id/SEED/$l
tag=${SEEDTAG:-}
# SEEDPROP: the property to check when the seed directory name is not a bare property id (e.g. seed9-C04x)
id=${SEEDPROP:-$id}
export GOFLAGS=-mod=mod GOPROXY=off
[ -f "$src/patch.diff" ] || { echo "RESULT $id-$l NO-PATCH"; exit 2; }
wt=/tmp/wt-seed-$id-$tag$l
git -C /repo worktree remove --force "$wt" >/dev/null 2>&1
git -C /repo worktree add --detach "$wt" HEAD >/dev/null 2>&1 || { echo "RESULT $id-$l WORKTREE-FAILED"; exit 2; }
trap 'git -C /repo worktree remove --force "$wt" >/dev/null 2>&1' EXIT
cd "$wt"
# demo without the patch
mkdir -p SEED/$l && cp -r "$src/demo" SEED/$l/
rundemo() { # returns 0 if demo passes
  local ok=1
  if ls SEED/$l/demo/*_test.go >/dev/null 2>&1; then
    pk=$(head -30 SEED/$l/demo/*_test.go | grep -m1 '^package ' | awk '{print $2}')
    tgt0=$(grep -oE '(network|crypto|windows|utils)/[A-Za-z0-9_/]+' SEED/$l/demo/HOWTO.txt 2>/dev/null | head -1); tgt0=${tgt0%/}; [ -d "$tgt0" ] || tgt0=$(dirname "$tgt0" 2>/dev/null)
    tpk=""; [ -d "$tgt0" ] && tpk=$(cat "$tgt0"/*.go 2>/dev/null | grep -m1 '^package ' | awk '{print $2}')
    if [ -n "$tpk" ] && [ "$pk" = "$tpk" ]; then
      # internal-package demo: find target dir from HOWTO
      tgt=$(grep -oE '(network|crypto|windows|utils)/[A-Za-z0-9_/]+' SEED/$l/demo/HOWTO.txt | head -1)
      tgt=${tgt%/}
      [ -d "$tgt" ] || tgt=$(dirname "$tgt")
      cp SEED/$l/demo/*_test.go "$tgt/"
      go test -count=1 -timeout 300s "./$tgt/" >/tmp/seed-demo-$$.log 2>&1; ok=$?
      for f in SEED/$l/demo/*_test.go; do rm -f "$tgt/$(basename $f)"; done
    else
      go test -count=1 -timeout 300s -tags seeddemo ./SEED/$l/demo/ >/tmp/seed-demo-$$.log 2>&1; ok=$?
    fi
  else
    go run ./SEED/$l/demo/ >/tmp/seed-demo-$$.log 2>&1; ok=$?
  fi
  return $ok
}
rundemo; without=$?
git apply "$src/patch.diff" 2>/tmp/seed-apply-$$.log || { echo "RESULT $id-$l PATCH-DOES-NOT-APPLY $(head -2 /tmp/seed-apply-$$.log | tr '\n' ' ')"; exit 2; }
go build ./... >/dev/null 2>&1 || { echo "RESULT $id-$l DOES-NOT-BUILD"; exit 2; }
rundemo; with=$?
pk=$(go list ./... | grep -v /SEED/)
go test -count=1 -timeout 600s $pk >/tmp/seed-test-$$.log 2>&1; tests=$?
rm -rf SEED
cd /verif
out=$(VERIF_REPO="$wt" ./vcheck "$id" "$tier" 2>&1); rc=$?
nv=$(echo "$out" | grep -c '^VIOLATION')
verdict=MISSED; [ $rc -eq 1 ] && [ "$nv" -gt 0 ] && verdict=CAUGHT; [ $rc -eq 2 ] && verdict=HARNESS-ERROR
first=$(echo "$out" | grep '^VIOLATION' | head -1 | sed 's/.*key=//' | cut -c1-260)
echo "RESULT $id-$tag$l $verdict demo_without=$([ $without -eq 0 ] && echo pass || echo FAIL) demo_with=$([ $with -ne 0 ] && echo fail || echo PASS) repo_tests=$([ $tests -eq 0 ] && echo pass || echo FAIL) violations=$nv :: $first"
if [ $without -eq 0 ] && [ $with -ne 0 ] && [ $tests -eq 0 ]; then
  d=/verif/seeded/$id-$tag$l; mkdir -p $d; cp "$src/patch.diff" $d/; rm -rf $d/demo; cp -r "$src/demo" $d/
  python3 - "$src/meta.json" "$d/meta.json" "$id" "$verdict" "$tier" "$first" <<'PY'
import json,sys
try: m=json.load(open(sys.argv[1]))
except Exception as e: m={"meta_unreadable":str(e)}
m["breaks_property"]=sys.argv[3]
m["confirmed_by_lead"]={"patch_applies_and_builds":True,"repository_tests_pass_with_patch":True,"demo_passes_without_patch":True,"demo_fails_with_patch":True,
  "ran":"tools/seedcheck.sh: fresh worktree of /repo HEAD; go build ./...; go test (all non-SEED packages); demo with/without; VERIF_REPO=<worktree> ./vcheck %s %s"%(sys.argv[3],sys.argv[5])}
m["check_verdict"]={"tier":sys.argv[5],"verdict":sys.argv[4],"first_violating_obligation":sys.argv[6].encode("utf-8","replace").decode("utf-8")}
json.dump(m,open(sys.argv[2],'w'),indent=1,ensure_ascii=False)
PY
else
  echo "   (not kept: confirmation failed; see /tmp/seed-demo-$$.log /tmp/seed-test-$$.log)"; tail -5 /tmp/seed-demo-$$.log; grep -v '^ok\|no test files' /tmp/seed-test-$$.log | head -5
fi
rm -f /tmp/seed-apply-$$.log
