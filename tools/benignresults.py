#!/usr/bin/env python3
"""Regenerates seeded/benign/RESULTS.md from the meta.json files written by tools/benigncheck.sh."""
import json, glob, os, re
rows = []
for d in sorted(glob.glob('/verif/seeded/benign/C*-*/')):
    n = os.path.basename(d.rstrip('/'))
    try:
        m = json.load(open(d + 'meta.json'))
    except Exception:
        continue
    what = re.sub(r'\s+', ' ', str(m.get('what', '')))[:160].replace('|', '/')
    rows.append((n, m.get('check_verdicts', ''), what))
head = '''# Behaviour-preserving changes (written by independent sub-agents) run through the checks

Each patch keeps the property it was written for; `tools/benigncheck.sh` applied it in a scratch worktree, confirmed build + repository tests, and ran the quick check of that property and of every property anchored in a touched directory. Expected verdict: QUIET everywhere. Names `<ID>-<letter>` are round 1, `<ID>-r2<letter>` round 2 (bolder: API extensions, behaviour changes outside the property, restructured goroutines/locks/types), `<ID>-r3…` round 3 (C17/C18 only: restructured concurrency, shutdown and I/O plumbing), `<ID>-r4<letter>` round 4 (a = wholesale rewrite of a function onto library helpers, b = change in a dependency / shared helper, c = error-path or validation change outside the property), `<ID>-r5<k><letter>` round 5 (the same three kinds, aimed at the code the round-9 obligations look at), `<ID>-r6<k><letter>` round 6 (likewise for the round-10 obligations). The verdicts recorded are those of the final machinery; which first runs were alarms, and why, is in DESIGN.md section 11.

| change | verdicts | what it does |
|---|---|---|
'''
open('/verif/seeded/benign/RESULTS.md', 'w').write(head + ''.join(f'| {n} | {v} | {w} |\n' for n, v, w in rows))
print(len(rows), sum(1 for r in rows if 'ALARM' in r[1]))
