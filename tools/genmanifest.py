#!/usr/bin/env python3
"""Regenerates /verif/MANIFEST.json from tools/checks.json (one row per claimed property)."""
import json, os, sys
root = os.path.dirname(os.path.dirname(os.path.abspath(__file__)))
rows = json.load(open(os.path.join(root, 'tools', 'checks.json')))
props = [json.loads(l)['id'] for l in open(os.path.join(root, 'properties.jsonl'))]
checks, na = [], []
claimed = {r['id'] for r in rows['checks']}
for r in rows['checks']:
    checks.append({
        "property_id": r['id'],
        "quick_cmd": f"./vcheck {r['id']} quick",
        "thorough_cmd": f"./vcheck {r['id']} thorough",
        "evidence_file": f"/verif/evidence/{r['id']}.json",
        "replay_cmd_template": f"./vcheck {r['id']} quick --replay {{path}}",
        "engine": r['engine'],
        "level_claimed": {"category": r['level'], "text": r['text'], "design_ref": r.get('design_ref', 'DESIGN.md §3 ' + r['id'])},
        "level_note": r['note'],
        "technique": r['technique'],
    })
for p in props:
    if p not in claimed:
        na.append({"property_id": p, "reason": rows['not_applicable'].get(p, "check not built yet in this session; see DESIGN.md §3 for the planned bounded-exhaustive check")})
m = {
    "version": 1,
    "setup_cmd": "./setup.sh",
    "hooks": rows['hooks'],
    "engines": rows['engines'],
    "checks": checks,
    "not_applicable": na,
    "notes": rows.get('notes', ''),
}
json.dump(m, open(os.path.join(root, 'MANIFEST.json'), 'w'), indent=1)
print("checks:", len(checks), "not_applicable:", len(na))
