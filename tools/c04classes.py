#!/usr/bin/env python3
"""One-off generator of checks/c04/known_unmarshal_classes.json and checks/c05/known_decode_classes.json
(committed; never written at run time).  Usage: c04classes.py <output.json> <debug output>...

Input: the stderr of `C04_DEBUG_CLASSES=1 ./vcheck C04 quick|thorough` (C05_DEBUG_CLASSES for C05) on the UNCHANGED tree, lines
  CLASS <Cmd> unmarshal base=zero|full[,Field...]
one per case whose own encoding the library refuses to decode (all of them instances of the known findings
C04/<Cmd>/unmarshal). Output: per command the MINIMAL failing classes (base, set of explicitly set fields) under
set inclusion. At run time a refused case is attributed to the known finding iff its class contains one of
these; any other refused case is reported under its own key (a different violation of the same property).
"""
import sys, json, collections
fails = collections.defaultdict(set)
out_path = sys.argv[1]  # e.g. /verif/checks/c04/known_unmarshal_classes.json
for path in sys.argv[2:]:
    for l in open(path, errors='replace'):
        if not l.startswith('CLASS '): continue
        _, cmd, _, cls = l.split()
        p = cls.split(',')
        fails[cmd].add((p[0], frozenset(p[1:])))
out = {}
for cmd, cl in sorted(fails.items()):
    mins = [c for c in cl if not any(o[0] == c[0] and o[1] < c[1] for o in cl)]
    out[cmd] = sorted(','.join([b] + sorted(s)) for b, s in mins)
json.dump(out, open(out_path, 'w'), indent=1)
print({k: len(v) for k, v in out.items()})
