#!/bin/bash
# Instruments network/llmnr and network/netbios/nbtns from the CURRENT working tree of
# $VERIF_REPO and writes $1/overlay.json (mounting the shims as virtual packages of the
# Manticore module). Used by the E3 checks (C17, C18).
set -eu
work=$1
root=$(cd "$(dirname "$(readlink -f "$0")")/.." && pwd)
export GOFLAGS=-mod=mod GOPROXY=off
repo=${VERIF_REPO:-/repo}
cd "$root"
go build -o "$work/instrument" ./cmd/instrument
"$work/instrument" -repo "$repo" -out "$work/inst" -pkgs network/llmnr,network/netbios/nbtns,logger -shim "$root/shim" -overlay "$work/overlay.json"
