#!/bin/bash
# dialprebuild.sh <workdir> <build-tag>: mounts shim/dialnet in place of package net for network/netbios/nbt
# (build overlay, /repo untouched), so that the transport's own Connect can be driven over a scripted
# connection. If the rewritten package does not compile (the working tree uses a part of package net the
# shim does not mirror) the overlay is dropped and the check falls back to reflection.
set -u
work=$1; tag=$2
root=$(cd "$(dirname "$(readlink -f "$0")")/.." && pwd)
repo=${VERIF_REPO:-/repo}
export GOFLAGS=-mod=mod GOPROXY=off
mkdir -p "$work/nbt"
python3 - "$repo" "$work" "$root" <<'PY'
import sys,os,re,json,glob
repo,work,root=sys.argv[1:4]
ov={}
for f in sorted(glob.glob(repo+'/network/netbios/nbt/*.go')):
    if f.endswith('_test.go'): continue
    s=open(f).read()
    s2=re.sub(r'(?m)^(\s*)"net"\s*$', r'\1net "github.com/TheManticoreProject/Manticore/zz_verif/dialnet"', s)
    s2=re.sub(r'(?m)^import "net"\s*$', 'import net "github.com/TheManticoreProject/Manticore/zz_verif/dialnet"', s2)
    if s2!=s:
        out=os.path.join(work,'nbt',os.path.basename(f))
        open(out,'w').write(s2)
        ov[f]=out
ov[repo+'/zz_verif/dialnet/dialnet.go']=root+'/shim/dialnet/dialnet.go'
json.dump({"Replace":ov},open(work+'/overlay.json','w'),indent=1)
PY
if (cd "$repo" && go build -overlay "$work/overlay.json" ./network/netbios/nbt/ ./network/smb/smb_v10/transport/) > "$work/dialnet-build.log" 2>&1; then
  echo "$tag" > "$work/TAGS"
else
  cat "$work/dialnet-build.log"
  rm -f "$work/overlay.json"
  echo "dial shim not mounted"
fi
exit 0
