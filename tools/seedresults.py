#!/usr/bin/env python3
import json,glob,os
first_missed = {
 "C13-a": "missed at first: every parser was only ever run on a fresh receiver. Added two-step call histories on one object (checks/c13/reuse.go: parse(prev); parse(x) must equal parse(x) on a fresh object) for 13 parsers.",
 "C13-b": "missed at first: C13 only compared GetTime inside 1970..2200 (outside was left to C15, which does catch it). C13 now compares the whole 60-bit range with google/uuid under a separate key.",
 "C02-a": "missed at first: the domain alphabet had no supplementary-plane character. Added 𐐨, d😀m and a CJK domain.",
 "C18-b": "missed at first: every TCP harness client worked in lock-step (send, wait for the response, send). Added pipelined scenarios (two frames in one write, two back-to-back writes, three requests cut inside a length prefix).",
 "C04-a": "missed at first: no Unicode string value whose UTF-16LE bytes contain 00 00 straddling two code units. Added such values (Ā, aĀb, …) to the lattice of every Unicode string field.",
}
rows=[]
for d in sorted(glob.glob('/verif/seeded/*/')):
    n=os.path.basename(d.rstrip('/'))
    try: m=json.load(open(d+'meta.json'))
    except Exception as e: continue
    v=m.get('check_verdict',{})
    what=(m.get('what') or '')[:300].replace('\n',' ').replace('|','/')
    needs=(m.get('needs') or '')[:220].replace('\n',' ').replace('|','/')
    rows.append((n, v.get('verdict'), (v.get('first_violating_obligation') or '').split(' witness=')[0], what, needs))
out=["# Independently seeded changes (`/verif/seeded/<ID>-<letter>/`)\n",
"Each change was written by a fresh sub-agent that saw only the property text and a scratch worktree. `tools/seedcheck.sh` re-confirmed in a fresh worktree of /repo HEAD that the patch applies and builds, that the repository's own tests pass with it, that its demonstration passes without and fails with it, and then ran the property's quick check against the patched tree (`VERIF_REPO=<worktree> ./vcheck <ID> quick`). Nothing here is ever applied to /repo.\n",
f"Total kept: {len(rows)}; caught by the quick tier: {sum(1 for r in rows if r[1]=='CAUGHT')}.\n",
"| seed | verdict (quick) | first violating obligation | what the change does | what it needs |","|---|---|---|---|---|"]
for r in rows: out.append(f"| {r[0]} | {r[1]} | `{r[2]}` | {r[3]} | {r[4]} |")
out.append("\n## Seeds that were missed on the first run, and what was strengthened\n")
for k,v in first_missed.items(): out.append(f"* **{k}** — {v}")
open('/verif/seeded/RESULTS.md','w').write('\n'.join(out)+'\n')
print(len(rows), sum(1 for r in rows if r[1]=='CAUGHT'))
