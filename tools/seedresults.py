#!/usr/bin/env python3
import json,glob,os
first_missed = {
 "C13-a": "missed at first: every parser was only ever run on a fresh receiver. Added two-step call histories on one object (checks/c13/reuse.go: parse(prev); parse(x) must equal parse(x) on a fresh object) for 13 parsers.",
 "C13-b": "missed at first: C13 only compared GetTime inside 1970..2200 (outside was left to C15, which does catch it). C13 now compares the whole 60-bit range with google/uuid under a separate key.",
 "C02-a": "missed at first: the domain alphabet had no supplementary-plane character. Added 𐐨, d😀m and a CJK domain.",
 "C18-b": "missed at first: every TCP harness client worked in lock-step (send, wait for the response, send). Added pipelined scenarios (two frames in one write, two back-to-back writes, three requests cut inside a length prefix).",
 "C01-r2a": "missed at first (LMHash fast path returning one shared slice, poisoned when a caller wipes its copy): added mc/purity call histories for every hash function.",
 "C01-r2b": "missed at first (exactly U+10000 mis-encoded): the rune alphabet now holds both sides of every UTF-16 boundary (U+D7FF, U+E000, U+FFFF, U+10000, U+10001, U+10FFFF).",
 "C03-r2a": "missed at first (Data.Unmarshal of an empty block keeps the old bytes of a reused object): added mc/objhist object histories for Data and Parameters.",
 "C03-r2b": "first run ended as a HARNESS ERROR (library panic at 65534/65535 data bytes outside vf.Try): the limit cases are wrapped, and vf.Main now turns any escaped panic into a violation.",
 "C04-r2a": "missed at first (terminator appended into the spare capacity of the caller's slice): every assignment is also encoded with its byte fields re-homed back to back in one buffer (smbgen.Rehome).",
 "C04-r2b": "missed at first (zero-length dialect string): dialect lists with an empty entry in every position added to the lattice.",
 "C05-r2a": "missed at first (stale Length when a used SMB_STRING gets a new Buffer): object histories (objhist) for SMB_STRING in all five formats.",
 "C06-r2a": "missed at first (resume key re-encodes a cached block): object histories for SMB_RESUME_KEY with a single field changed between two encodings.",
 "C07-r2a": "missed at first (index out of range only when len < WordCount <= cap of a reused Words slice): object histories on decoders with well-formed input; the state key includes slice capacities.",
 "C07-r2b": "missed at first (allocation from a decimal count field): every digit run of a textual seed is replaced by decimal extremes.",
 "C07-r2c": "missed at first (newly added compression-pointer support loops): at every position of NBNS/LLMNR seeds a pointer to every offset is written.",
 "C08-r2a": "missed at first (AuthContext answers the FIRST challenge again): a second, different challenge is processed on the same context and judged like a fresh one.",
 "C09-r2c": "missed at first (OPT records dropped from the additional section): every RR type 0..260 in every section.",
 "C11-r2a": "missed at first (Receive reuses one buffer): every message returned is held and compared again after all later Receive calls.",
 "C11-r2b": "missed at first (length wraps at 2^24): payload lengths around 2^24 added.",
 "C12-r2b": "reported MISSED by the first batch run, CAUGHT when re-run (30 violations); the first run coincided with heavy machine load — no change to the check.",
 "C13-r2b": "missed at first: UUIDv2.GetTime is now compared over the whole 60-bit range.",
 "C13-r2c": "missed at first (Unmarshal of a buffer longer than 16 bytes reads its tail): trailing-byte suffixes added.",
 "C14-r2c": "missed at first (DN with a percent sign): % and backslash added to the DN alphabet.",
 "C15-r2a": "missed at first (DateTime.ToBytes returns one shared array): two encodings are held at the same time.",
 "C15-r2c": "missed at first (non-AD source, version 2 — the combination the library calls not fully supported): decode followed by ToBytes must reproduce the 8 bytes for every source/version.",
 "C16-r2a": "missed at first (memo keyed by the caller's own buffer): mc/purity incl. the recycled-input-buffer history.",
 "C19-r2a": "missed at first (Name slice reused across FromBytes calls): all ordered pairs of parses on one receiver with the first result kept.",
 "C20-r2a": "missed at first (cache hands out one shared *TCPPortRange): parse, edit the result, parse again.",
 "C20-r2b": "missed at first (IPv6 range fast path): the six neighbours of both end points of every boundary range are probed.",
 "C20-r2c": "missed at first (struct equality incl. MaskBits in IPv4Range.Contains): every prefix-length annotation on probe/start/end.",
 "C18-r2a": "missed at first (two alternating read buffers need three datagrams in flight): the 3-client scenarios now also run in the quick tier.",
 "C18-r2c": "missed at first (all connections stored under one key): Stop with TWO idle open connections.",
 "C18-r2d": "missed at first (describe handler keeps the logger lock): the logger package is instrumented too and the library's HandlerDescribePacket is part of a scenario with a header-only query.",
 "C18-r2e": "missed at first (rcode tested before the transaction id): the scripted peer also sends a negative answer with a foreign id before the genuine one.",
 "C04-a": "missed at first: no Unicode string value whose UTF-16LE bytes contain 00 00 straddling two code units. Added such values (Ā, aĀb, …) to the lattice of every Unicode string field.",
 "C01-r3a": "missed at first (only the NT-hash variant of the hashcat formatter keeps the user's upper case): the password-based and the NT-hash-based hashcat formatters are now compared with each other for every (password, user) of the lattice (two routes to one line), in addition to the reference line.",
 "C01-r3c": "missed at first (md4.Sum appends its padding into the spare capacity of the caller's slice): mc/purity now also hands every input over as a sub-slice of a larger buffer and demands that input and spare capacity stay untouched.",
 "C02-r3c": "missed at first ('%' in user/domain interpreted as a format verb by ToHashcatString): '%' names ('100%sure', '%USERDOMAIN%', '%x', '%%') added to the name alphabet of the export-line obligations.",
 "C04-r3c": "missed at first (FindUniqueRequest advances by a count that is only right for NUL-terminated formats): wherever a command honours the caller's SMB_STRING buffer format (probed per field, not assumed) the round trip is also run with the other formats (0x01, 0x02, 0x04, 0x05; only the round-trip obligations apply to these variants).",
 "C05-r3c": "missed at first (Header.SetPID drops the high half through an operator-precedence slip): header setters (SetPID and friends) are driven over 32-bit boundary values, not only field assignment.",
 "C06-r3a": "missed at first (OEM_STRING keeps a 0x02 format left on the value, its decoder refuses it): object histories for OEM_STRING including a value whose format byte was set to each of the five formats.",
 "C07-r3c": "missed at first (FromFormatX slices a field of length 0/1 with [2:] when called directly): single-byte deletion and duplication at every offset added to the mutation set of every text decoder, and FromFormatN/D/B/P/X are entry points of their own.",
 "C13-r3b": "missed at first (upper-case '0X' prefix rejected): full upper-casing of every textual form, not only of the hex digits, added to the accepted-spellings lattice.",
 "C13-r3c": "missed at first (SetTime uses the argument's zone for the 1582 epoch): every 7th instant of the time lattice is also passed carried in three fixed non-UTC zones (+02:00, -05:00, +05:30): a time.Time is an instant, its Location is presentation.",
 "C20-r3a": "missed at first (form feed survives the trim and is tolerated by the pattern): padding alphabet extended to every ASCII white-space character (space, tab, LF, CR, FF, VT), all paddings of length <= 2 on both sides.",
 "C08-r3a": "missed at first (pad byte written for NTLMv1 when TargetInfo has odd size, offsets not adjusted): a TargetInfo of odd total size is now part of the quick lattice for all 64 flag combinations.",
 "C08-r3b": "missed at first (OEM names upper-cased into a buffer sized before case mapping): runes whose upper case has a different UTF-8 size (U+0131, U+0250) added for the OEM character set, judged by a code-page independent invariant (no NUL in the field; the field of a name is the concatenation of the fields of its characters).",
 "C11-r3c": "missed at first (buffered reader bound to the previous connection survives Connect): histories with two connections in a row on one transport (every prefix/segmentation of the first stream x number of Receives x with/without Close).",
 "C16-r3c": "missed at first (FindObjectSIDByRID returns a SID string it composed itself instead of decoding the found object's objectSid): Session lookups (GetDomain, GetAllDomains, FindObjectSIDByRID) now run against an in-process LDAP directory over net.Pipe, for every RID of the LocalRIDs table and 5 directory variants.",
 "C17-r3d": "NOT CLAIMED as a detection: the change makes RefreshName extend a group by the last joiner's TTL instead of the first registrant's. The property does not say which interval a refresh applies when members registered with different TTLs (the unchanged code already lets the last joiner's TTL govern the whole record); with unanimous TTLs, which the model decides, both versions agree. Recorded as outside the determinate region of C17 rather than forcing an oracle the property does not state.",
 "C18-r3b": "missed at first (Close without sync.Once: two concurrent closers double-close the channel): scenario with two closing threads; the free-running race pass also closes from two goroutines.",
 "C18-r3d": "missed at first (WaitGroup.Add per datagram, Done skipped for undecodable datagrams, Stop then waits forever): scenarios with undecodable datagrams (3 bytes; header whose counts exceed the content) before Stop.",
 "C18-r3e": "missed at first (QueryName hands out a capacity-clipped view of the owner list): group query racing a release of a non-last member / a joining member under the scheduler (answer must be the list before or after), and group churn in the free-running race pass.",
}
rows=[]
for d in sorted(glob.glob('/verif/seeded/*/')):
    n=os.path.basename(d.rstrip('/'))
    try: m=json.load(open(d+'meta.json'))
    except Exception as e: continue
    v=m.get('check_verdict',{})
    what=(m.get('what') or '')[:300].replace('\n',' ').replace('|','/')
    needs=(m.get('needs') or '')[:220].replace('\n',' ').replace('|','/')
    rows.append((n, v.get('verdict'), (v.get('first_violating_obligation') or '').split(' witness=')[0], what, needs))
out=["# Independently seeded changes (`/verif/seeded/<ID>-<letter>/`)\n",
"Each change was written by a fresh sub-agent that saw only the property text and a scratch worktree. `tools/seedcheck.sh` re-confirmed in a fresh worktree of /repo HEAD that the patch applies and builds, that the repository's own tests pass with it, that its demonstration passes without and fails with it, and then ran the property's quick check against the patched tree (`VERIF_REPO=<worktree> ./vcheck <ID> quick`). Nothing here is ever applied to /repo.\n",
f"Total kept: {len(rows)}; caught by the quick tier: {sum(1 for r in rows if r[1]=='CAUGHT')}.\n",
"| seed | verdict (quick) | first violating obligation | what the change does | what it needs |","|---|---|---|---|---|"]
for r in rows: out.append(f"| {r[0]} | {r[1]} | `{r[2]}` | {r[3]} | {r[4]} |")
out.append("\n## Seeds that were missed on the first run, and what was strengthened\n")
for k,v in first_missed.items(): out.append(f"* **{k}** — {v}")
open('/verif/seeded/RESULTS.md','w').write('\n'.join(out)+'\n')
print(len(rows), sum(1 for r in rows if r[1]=='CAUGHT'))
