#!/bin/bash
# runs every check's quick (or $1) tier, prints one line per check
cd "$(dirname "$(readlink -f "$0")")/.."
tier=${1:-quick}
for d in checks/c*/; do
  id=$(basename $d | tr a-z A-Z)
  [ -f "$d/main.go" ] || continue
  s=$(date +%s)
  out=$(./vcheck $id $tier 2>&1); rc=$?
  e=$(( $(date +%s) - s ))
  echo "$id rc=$rc ${e}s viol=$(echo "$out" | grep -c '^VIOLATION') known=$(echo "$out" | grep -c '^KNOWN-FINDING') $(echo "$out" | grep '^SUMMARY\|HARNESS-ERROR' | head -1 | cut -c1-200)"
done
