#!/bin/bash
# benigncheck.sh <ID> <letter>: takes ${BENROOT:-/tmp/ben}-<ID>/BENIGN/<letter>/patch.diff (a change that is meant to
# PRESERVE the property), applies it in a fresh scratch worktree, confirms that it builds and that the
# repository's tests pass, and runs the quick check of <ID> and of every property anchored in a directory
# the patch touches. Expected: every check exits 0 without a VIOLATION line. Keeps the patch under
# /verif/seeded/benign/<ID>-<letter>/ with the verdicts.
set -u
id=$1; l=$2
src=${BENROOT:-/tmp/ben}-$id/BENIGN/$l
# BENPROP: the property when the directory name is not a bare property id (e.g. ben5-C04t)
id=${BENPROP:-$id}
export GOFLAGS=-mod=mod GOPROXY=off
[ -f "$src/patch.diff" ] || { echo "BENIGN $id-$l NO-PATCH"; exit 2; }
wt=/tmp/wt-ben-$id-${BENTAG:-}$l
git -C /repo worktree remove --force "$wt" >/dev/null 2>&1
git -C /repo worktree add --detach "$wt" HEAD >/dev/null 2>&1 || { echo "BENIGN $id-$l WORKTREE-FAILED"; exit 2; }
trap 'git -C /repo worktree remove --force "$wt" >/dev/null 2>&1' EXIT
cd "$wt"
git apply "$src/patch.diff" 2>/dev/null || { echo "BENIGN $id-$l PATCH-DOES-NOT-APPLY"; exit 2; }
go build ./... >/dev/null 2>&1 || { echo "BENIGN $id-$l DOES-NOT-BUILD"; exit 2; }
go test -count=1 -timeout 600s ./... >/tmp/ben-test-$$.log 2>&1; tests=$?
ids=$(python3 - "$src/patch.diff" "$id" <<'PY'
import sys,json,re,os
patch,own=sys.argv[1:3]
dirs=set(os.path.dirname(m.group(1)) for m in re.finditer(r'^\+\+\+ b/(\S+)',open(patch).read(),re.M))
out=[own]
for line in open('/verif/properties.jsonl'):
    p=json.loads(line)
    if p['id']==own: continue
    if any(os.path.dirname(f) in dirs for f in p['anchors']['files']): out.append(p['id'])
print(' '.join(out))
PY
)
cd /verif
verdicts=""
bad=0
for cid in $ids; do
  out=$(VERIF_REPO="$wt" ./vcheck "$cid" quick 2>&1); rc=$?
  nv=$(echo "$out" | grep -c '^VIOLATION')
  v=QUIET; [ $rc -ne 0 ] || [ "$nv" -gt 0 ] && { v="ALARM(rc=$rc,violations=$nv)"; bad=1; }
  verdicts="$verdicts $cid=$v"
  if [ "$v" != QUIET ]; then echo "$out" | grep '^VIOLATION\|HARNESS-ERROR' | head -3 | cut -c1-500; fi
done
echo "BENIGN $id-${BENTAG:-}$l repo_tests=$([ $tests -eq 0 ] && echo pass || echo FAIL) checks:$verdicts"
d=/verif/seeded/benign/$id-${BENTAG:-}$l; mkdir -p $d; cp "$src/patch.diff" $d/
python3 - "$src/meta.json" "$d/meta.json" "$id" "$verdicts" "$tests" <<'PY'
import json,sys
try: m=json.load(open(sys.argv[1]))
except Exception as e: m={"meta_unreadable":str(e)}
m["meant_to_preserve"]=sys.argv[3]
m["confirmed_by_lead"]={"patch_applies_and_builds":True,"repository_tests_pass_with_patch":sys.argv[5]=="0"}
m["check_verdicts"]=sys.argv[4].strip()
json.dump(m,open(sys.argv[2],"w"),indent=1,ensure_ascii=False)
PY
exit $bad
